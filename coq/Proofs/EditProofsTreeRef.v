(* EditProofsTreeRef.v -- C11, I_count at tree level on the domain of Spec/PageTreeEditRef.v: Counts behind references AND pages
   that are reference objects leading (through any reference objects) to the page dictionary.  The route of
   EditProofsTreeInd.v; what is new:
   * [leads] is functional and acyclic ([leads_det], [leads_acyclic]); it is what [dereference] computes ([leads_deref]);
   * the path of a page id that does not pass the deleted id survives delete_object(p) -- each object on it is untouched or
     stripped, the dictionary at its end is d or [sd p d] ([leads_del]) -- and the Count loop (no Pages dictionary is on it);
   * a path that passes p ends where p ends: with the ends pairwise different no other page's path passes p ([leads_visit_end]);
   * delete_pages reads the Parent of the removed page through the returned reference object ([dereference] in the map AFTER
     the deletion: the path of p does not pass p itself). *)
From LV Require Import Base.Bytes Model.Obj Model.DocQ Model.PageTree Model.Traverse Model.Edit Gen.Consts
  Spec.Dfs Spec.DfsCounts Spec.RenumberSpec Spec.PageTreeEdit Spec.PageTreeEditInd Spec.PageTreeEditRef
  Proofs.RenumberProofsMap Proofs.PageTreeProofs Proofs.EditProofs Proofs.EditProofsTrav Proofs.EditProofsDelete
  Proofs.EditProofsCount Proofs.FilterProofsDict Proofs.EditProofsTree Proofs.EditProofsTree2 Proofs.EditProofsTreeInd.
From LV Require Proofs.EditProofsRes.

Local Open Scope nat_scope.

(* ---------- leads ---------- *)
Definition vend (id : oid) (via : list oid) : oid := fold_left (fun (_ x : oid) => x) via id.

Lemma leads_deref m o via d : leads m o via d ->
  forall f l, length via <= f -> deref_aux m f l o = Some (fold_left (fun _ x => Some x) via l, ODict d).
Proof.
  induction 1 as [d|i g o via d L H IH]; intros f l Hf.
  - apply EditProofsRes.deref_aux_dict.
  - destruct f as [|f]; [cbn [length] in Hf; lia|]. cbn [deref_aux fold_left]. rewrite L. apply IH. cbn [length] in Hf. lia.
Qed.

Lemma fold_some (v : list oid) : forall a, fold_left (fun _ x => Some x) v (Some a) = Some (fold_left (fun (_ x : oid) => x) v a).
Proof. induction v as [|b v IH]; intro a; [reflexivity|]. cbn [fold_left]. apply IH. Qed.

Lemma limit_len (via : list oid) : (N.of_nat (length via) <= DEREF_LIMIT)%N -> length via <= N.to_nat DEREF_LIMIT.
Proof. lia. Qed.

Lemma leads_dereference m o via d : leads m o via d -> (N.of_nat (length via) <= DEREF_LIMIT)%N ->
  dereference m o = Some (fold_left (fun _ x => Some x) via None, ODict d).
Proof. intros H Hl. unfold dereference. apply (leads_deref m o via d H). apply limit_len. exact Hl. Qed.

Lemma end_of_leads m id o via d :
  lookup m id = Some o -> leads m o via d -> (N.of_nat (length via) <= DEREF_LIMIT)%N -> end_of m id = Some (vend id via).
Proof.
  intros L H Hl. unfold end_of. rewrite L, (leads_dereference m o via d H Hl).
  destruct via as [|a v]; [reflexivity|]. cbn [fold_left]. rewrite fold_some. reflexivity.
Qed.

Lemma leads_det m o v1 d1 : leads m o v1 d1 -> forall v2 d2, leads m o v2 d2 -> v1 = v2 /\ d1 = d2.
Proof.
  induction 1 as [d|i g o via d L H IH]; intros v2 d2 H2; inversion H2 as [|? ? o' via' d' L' H2']; subst.
  - split; reflexivity.
  - rewrite L in L'. inversion L'; subst o'. destruct (IH _ _ H2') as [-> ->]. split; reflexivity.
Qed.

Lemma leads_suffix m o via d : leads m o via d -> forall p, In p via ->
  exists pre via', via = pre ++ p :: via' /\ leads m (ORef (fst p) (snd p)) (p :: via') d.
Proof.
  induction 1 as [d|i g o via d L H IH]; intros p Hin; [destruct Hin|].
  destruct (oid_eq_dec (i, g) p) as [E|Hne].
  - subst p. exists [], via. split; [reflexivity|]. cbn [fst snd]. eapply LRef; eassumption.
  - destruct Hin as [E|Hin]; [contradiction|]. destruct (IH p Hin) as [pre [via' [E1 H1]]].
    exists ((i, g) :: pre), via'. split; [rewrite E1; reflexivity | exact H1].
Qed.

Lemma leads_acyclic m p po via d : lookup m p = Some po -> leads m po via d -> ~ In p via.
Proof.
  intros L H Hin. destruct (leads_suffix m po via d H p Hin) as [pre [via' [E H1]]].
  destruct p as [pi pg]. cbn [fst snd] in H1. inversion H1 as [|? ? o' ? ? L' H2]; subst.
  rewrite L in L'. inversion L'; subst o'. destruct (leads_det _ _ _ _ H _ _ H2) as [E1 _].
  apply (f_equal (@length oid)) in E1. rewrite app_length in E1. cbn [length] in E1. lia.
Qed.

(* a path that passes p ends where the path of p ends *)
Lemma leads_visit_end m x o via d p po vp dp :
  leads m o via d -> In p via -> lookup m p = Some po -> leads m po vp dp -> vend x via = vend p vp.
Proof.
  intros H Hin L Hp. destruct (leads_suffix m o via d H p Hin) as [pre [via' [E H1]]].
  destruct p as [pi pg]. cbn [fst snd] in H1. inversion H1 as [|? ? o' ? ? L' H2]; subst.
  rewrite L in L'. inversion L'; subst o'. destruct (leads_det _ _ _ _ Hp _ _ H2) as [-> _].
  unfold vend. rewrite fold_left_app. reflexivity.
Qed.

Lemma leads_shape m o via d : leads m o via d -> (exists i g, o = ORef i g) \/ (o = ODict d /\ via = []).
Proof. destruct 1; [right; split; reflexivity | left; eauto]. Qed.

Lemma leads_in_lookup m o via d : leads m o via d -> forall y, In y via ->
  (exists i g, lookup m y = Some (ORef i g)) \/ lookup m y = Some (ODict d).
Proof.
  induction 1 as [d|i g o via d L H IH]; intros y Hy; [destruct Hy|].
  destruct Hy as [<-|Hy]; [|exact (IH y Hy)].
  rewrite L. destruct (leads_shape _ _ _ _ H) as [[i' [g' ->]]|[-> _]]; [left; eauto | right; reflexivity].
Qed.

(* no object on the path of a page (the page object included) is a Pages dictionary *)
Lemma leads_no_pages m x o via d :
  lookup m x = Some o -> leads m o via d -> dict_get d K_Type = Some (OName K_Page) ->
  forall y dd, In y (x :: via) -> lookup m y = Some (ODict dd) -> dict_get dd K_Type = Some (OName K_Pages) -> False.
Proof.
  intros L H Ty y dd Hy Ly Tp.
  assert (E : dd = d).
  { destruct Hy as [<-|Hy].
    - rewrite L in Ly. inversion Ly; subst o. destruct (leads_shape _ _ _ _ H) as [[i [g E]]|[E _]]; [discriminate E|].
      inversion E. reflexivity.
    - destruct (leads_in_lookup _ _ _ _ H y Hy) as [[i [g E]]|E]; rewrite E in Ly; [discriminate Ly|].
      inversion Ly. reflexivity. }
  subst dd. rewrite Ty in Tp. discriminate Tp.
Qed.

Lemma leads_int_none m o via d : leads m o via d -> forall f l, int_result (deref_aux m f l o) = None.
Proof.
  induction 1 as [d|i g o via d L H IH]; intros f l.
  - rewrite EditProofsRes.deref_aux_dict. reflexivity.
  - destruct f as [|f]; cbn [deref_aux]; rewrite L; [reflexivity | apply IH].
Qed.

(* the path survives delete_object(p) when it does not pass p *)
Lemma leads_del m m1 p :
  (forall x, x <> p -> lookup m1 x = lookup m x \/ lookup m1 x = option_map (strip p) (lookup m x)) ->
  forall o via d, leads m o via d -> ~ In p via ->
    (exists d', leads m1 o via d' /\ (d' = d \/ d' = sd p d)) /\
    (exists d', leads m1 (strip p o) via d' /\ (d' = d \/ d' = sd p d)).
Proof.
  intros Hx. induction 1 as [d|i g o via d L H IH]; intro Hn.
  - split; [exists d; split; [constructor | left; reflexivity]|].
    rewrite strip_dict_sd. exists (sd p d). split; [constructor | right; reflexivity].
  - assert (Hne : (i, g) <> p) by (intro E; apply Hn; left; exact E).
    destruct (IH (fun Hin => Hn (or_intror Hin))) as [[d1 [A1 B1]] [d2 [A2 B2]]].
    assert (G : exists d', leads m1 (ORef i g) ((i, g) :: via) d' /\ (d' = d \/ d' = sd p d)).
    { destruct (Hx (i, g) Hne) as [E|E]; rewrite L in E.
      - exists d1. split; [eapply LRef; [exact E | exact A1] | exact B1].
      - exists d2. split; [eapply LRef; [exact E | exact A2] | exact B2]. }
    split; [exact G|]. cbn [strip]. replace (oid_eqb (i, g) p) with false by (symmetry; apply oid_eqb_neq; exact Hne). exact G.
Qed.

Lemma leads_agree m1 m2 o via d :
  leads m1 o via d -> (forall y, In y via -> lookup m2 y = lookup m1 y) -> leads m2 o via d.
Proof.
  induction 1 as [d|i g o via d L H IH]; intro A; [constructor|].
  eapply LRef; [rewrite A by (left; reflexivity); exact L | apply IH; intros y Hy; apply A; right; exact Hy].
Qed.

(* Counts: a chain to an integer does not pass an id that leads to a dictionary or names nothing *)
Lemma deref_int_del2 m m1 p :
  (forall f l, int_result (deref_aux m f l (ORef (fst p) (snd p))) = None) ->
  (forall x, x <> p -> lookup m1 x = lookup m x \/ lookup m1 x = option_map (strip p) (lookup m x)) ->
  forall f last o n, int_result (deref_aux m f last o) = Some n ->
    int_result (deref_aux m1 f last o) = Some n /\ strip p o = o.
Proof.
  intros Hp Hx. induction f as [|f IH]; intros last o n; destruct o as [| | | | | | | | |i g]; cbn [deref_aux int_result];
    try discriminate; try (intro H; split; [exact H | reflexivity]).
  - destruct (lookup m (i, g)); discriminate.
  - destruct (oid_eq_dec (i, g) p) as [E|Hne].
    + intro H. exfalso. subst p. cbn [fst snd] in Hp. specialize (Hp (S f) last). cbn [deref_aux] in Hp.
      rewrite Hp in H. discriminate H.
    + destruct (lookup m (i, g)) as [o'|] eqn:L; [|discriminate]. intro H.
      destruct (IH (Some (i, g)) o' n H) as [H1 H2].
      split; [|cbn [strip]; replace (oid_eqb (i, g) p) with false by (symmetry; apply oid_eqb_neq; exact Hne); reflexivity].
      destruct (Hx (i, g) Hne) as [E1|E1]; rewrite E1, L; [exact H1|]. cbn [option_map]. rewrite H2. exact H1.
Qed.

Lemma read_count_del2 m m1 p :
  (forall f l, int_result (deref_aux m f l (ORef (fst p) (snd p))) = None) ->
  (forall x, x <> p -> lookup m1 x = lookup m x \/ lookup m1 x = option_map (strip p) (lookup m x)) ->
  forall d n, dict_wf d -> read_count m d = Some n -> read_count m1 (sd p d) = Some n.
Proof.
  intros Hp Hx d n W. unfold read_count. destruct (dict_get d K_Count) as [c|] eqn:G; [|discriminate].
  intro H.
  assert (Hi : int_result (dereference m c) = Some n).
  { destruct (dereference m c) as [[r o]|]; [|discriminate]. destruct o; try discriminate. exact H. }
  destruct (deref_int_del2 m m1 p Hp Hx _ None c n Hi) as [H1 H2]. fold (dereference m1 c) in H1.
  rewrite (sd_get p d K_Count c W G (strip_id_not_ref p c H2)), H2.
  destruct (dereference m1 c) as [[r o]|]; [|discriminate]. destruct o; try discriminate. exact H1.
Qed.

(* ---------- lists ---------- *)
Lemma nodup_map_inj {A B} (f : A -> B) (l : list A) x y : NoDup (map f l) -> In x l -> In y l -> f x = f y -> x = y.
Proof.
  induction l as [|a l IH]; cbn [map]; intros ND Hx Hy E; [destruct Hx|].
  inversion ND as [|? ? Hn Hd]; subst. destruct Hx as [->|Hx], Hy as [->|Hy].
  - reflexivity.
  - exfalso. apply Hn. rewrite E. apply in_map. exact Hy.
  - exfalso. apply Hn. rewrite <- E. apply in_map. exact Hx.
  - exact (IH Hd Hx Hy E).
Qed.

Lemma nodup_map_filter {A B} (f : A -> B) (g : A -> bool) (l : list A) : NoDup (map f l) -> NoDup (map f (filter g l)).
Proof.
  induction l as [|a l IH]; cbn [map filter]; intro ND; [constructor|]. inversion ND as [|? ? Hn Hd]; subst.
  destruct (g a); [|exact (IH Hd)]. cbn [map]. constructor; [|exact (IH Hd)].
  intro H. apply Hn. apply in_map_iff in H. destruct H as [x [E Hx]]. apply filter_In in Hx. rewrite <- E. apply in_map. tauto.
Qed.

Lemma ids_split :
  (forall t x, In x (ids t) -> In x (leaves t) \/ In x (nodes t)) /\
  (forall f x, In x (flat_map ids f) -> In x (flat_map leaves f) \/ In x (flat_map nodes f)).
Proof.
  apply ptree_forest_ind.
  - intros i x H. left. exact H.
  - intros i ks Q x [<-|H]; [right; left; reflexivity|]. cbn [leaves nodes]. destruct (Q x H); [left | right; right]; assumption.
  - intros x [].
  - intros k ks P Q x H. cbn [flat_map] in *. apply in_app_iff in H. rewrite !in_app_iff.
    destruct H as [H|H]; [destruct (P x H) | destruct (Q x H)]; tauto.
Qed.

(* ---------- the earlier domain is an instance ---------- *)
Lemma page_tree_ind_is_ref m :
  (forall t par, page_tree_ind m par t -> page_tree_ref m par t) /\
  (forall f par, Forall (page_tree_ind m par) f -> Forall (page_tree_ref m par) f).
Proof.
  apply ptree_forest_ind.
  - intros i par H. inversion H as [? ? dd L W Ty Pa|]; subst.
    eapply (PRLeaf m _ i (ODict dd) [] dd); [exact L | constructor | apply N.le_0_l | exact W | exact Ty | reflexivity].
  - intros i ks Q par H. inversion H as [|? ? dd ? L W Ty Kd Ct Pa F]; subst.
    eapply PRNode; [exact L | exact W | exact Ty | exact Kd | exact Ct | reflexivity | eapply Q; exact F].
  - constructor.
  - intros k ks P Q par H. inversion H; subst. constructor; [eapply P | eapply Q]; eassumption.
Qed.

Lemma page_tree_ind_leaf_dict m :
  (forall t par, page_tree_ind m par t -> forall x, In x (leaves t) -> exists dx, lookup m x = Some (ODict dx)) /\
  (forall f par, Forall (page_tree_ind m par) f -> forall x, In x (flat_map leaves f) -> exists dx, lookup m x = Some (ODict dx)).
Proof.
  apply ptree_forest_ind.
  - intros i par H x [<-|[]]. inversion H; subst. eauto.
  - intros i ks Q par H x Hx. inversion H; subst. eapply Q; eassumption.
  - intros par _ x [].
  - intros k ks P Q par H x Hx. inversion H; subst. cbn [flat_map] in Hx. apply in_app_iff in Hx.
    destruct Hx; [eapply P | eapply Q]; eassumption.
Qed.

Lemma page_doc_ind_is_ref d t : page_doc_ind d t -> page_doc_ref d t.
Proof.
  intros [ci [cg [cat [Wt [Rt [Lc [Wc [Pg [Nd [PT [ND Hc]]]]]]]]]]]. exists ci, cg, cat.
  repeat (split; [assumption|]). split; [exact (proj1 (page_tree_ind_is_ref _) t None PT)|]. split; [exact ND|].
  split; [exact Hc|].
  rewrite (map_ext_in (end_of (d_objects d)) Some).
  - apply FinFun.Injective_map_NoDup; [intros a b E; inversion E; reflexivity | apply (proj1 leaves_nodup); exact ND].
  - intros x Hx. destruct (proj1 (page_tree_ind_leaf_dict _) t None PT x Hx) as [dx Lx].
    apply (end_of_leads _ x (ODict dx) [] dx Lx); [constructor | apply N.le_0_l].
Qed.

(* ---------- page_tree_ref in C12's vocabulary ---------- *)
Lemma page_tree_ref_represents m :
  (forall t par, page_tree_ref m par t -> represents m t) /\
  (forall f par, Forall (page_tree_ref m par) f -> Forall (represents m) f).
Proof.
  apply ptree_forest_ind.
  - intros i par H. inversion H as [? ? o via dd L Ld Hl W Ty Pa|]; subst.
    eapply RLeaf; [|apply get_type_name; exact Ty].
    unfold get_dictionary, get_object. rewrite L, (leads_dereference _ _ _ _ Ld Hl). reflexivity.
  - intros i ks Q par H. inversion H; subst.
    eapply RNode; [apply lookup_get_dictionary; eassumption | apply get_type_name; assumption | | eapply Q; eassumption].
    apply get_deref_direct; [assumption | discriminate].
  - constructor.
  - intros k ks P Q par H. inversion H; subst. constructor; [eapply P | eapply Q]; eassumption.
Qed.

Lemma page_tree_ref_counts m :
  (forall t par, page_tree_ref m par t -> counts_exact m t) /\
  (forall f par, Forall (page_tree_ref m par) f -> Forall (counts_exact m) f).
Proof.
  apply ptree_forest_ind.
  - intros i par _. constructor.
  - intros i ks Q par H. inversion H as [|? ? dd ? L W Ty Kd Ct Pa F]; subst.
    eapply CNode; [apply lookup_get_dictionary; eassumption | | eapply Q; eassumption].
    destruct Ct as [c [r [G D]]]. unfold get_deref. rewrite G, D. reflexivity.
  - constructor.
  - intros k ks P Q par H. inversion H; subst. constructor; [eapply P | eapply Q]; eassumption.
Qed.

Lemma page_tree_ref_nodes m :
  (forall t par, page_tree_ref m par t -> forall x, In x (nodes t) ->
     exists d, lookup m x = Some (ODict d) /\ dict_get d K_Type = Some (OName K_Pages)) /\
  (forall f par, Forall (page_tree_ref m par) f -> forall x, In x (flat_map nodes f) ->
     exists d, lookup m x = Some (ODict d) /\ dict_get d K_Type = Some (OName K_Pages)).
Proof.
  apply ptree_forest_ind.
  - intros i par _ x [].
  - intros i ks Q par H x Hx. inversion H; subst. destruct Hx as [<-|Hx]; [eauto | eapply Q; eassumption].
  - intros par _ x [].
  - intros k ks P Q par H x Hx. inversion H; subst. cbn [flat_map] in Hx. apply in_app_iff in Hx.
    destruct Hx; [eapply P | eapply Q]; eassumption.
Qed.

(* what a page id of the tree names *)
Definition leaf_parent_r (m : objmap) (x : oid) : option oid :=
  match lookup m x with
  | Some o => match dereference m o with Some (_, ODict d) => as_ref (dict_get d K_Parent) | _ => None end
  | None => None
  end.

Lemma leaf_parent_r_leads m x o via d :
  lookup m x = Some o -> leads m o via d -> (N.of_nat (length via) <= DEREF_LIMIT)%N ->
  leaf_parent_r m x = as_ref (dict_get d K_Parent).
Proof. intros L H Hl. unfold leaf_parent_r. rewrite L, (leads_dereference _ _ _ _ H Hl). reflexivity. Qed.

Lemma page_tree_ref_leaves m :
  (forall t par, page_tree_ref m par t -> forall x, In x (leaves t) ->
     exists o via d, lookup m x = Some o /\ leads m o via d /\ (N.of_nat (length via) <= DEREF_LIMIT)%N /\
               dict_wf d /\ dict_get d K_Type = Some (OName K_Page) /\
               (leaf_parent_r m x = par \/ exists q, leaf_parent_r m x = Some q /\ In q (nodes t))) /\
  (forall f par, Forall (page_tree_ref m par) f -> forall x, In x (flat_map leaves f) ->
     exists o via d, lookup m x = Some o /\ leads m o via d /\ (N.of_nat (length via) <= DEREF_LIMIT)%N /\
               dict_wf d /\ dict_get d K_Type = Some (OName K_Page) /\
               (leaf_parent_r m x = par \/ exists q, leaf_parent_r m x = Some q /\ In q (flat_map nodes f))).
Proof.
  apply ptree_forest_ind.
  - intros i par H x [<-|[]]. inversion H as [? ? o via d L Ld Hl W Ty Pa|]; subst. exists o, via, d.
    repeat (split; [assumption|]). left. rewrite (leaf_parent_r_leads _ _ _ _ _ L Ld Hl). symmetry. apply parent_ref_as_ref.
  - intros i ks Q par H x Hx. inversion H as [|? ? d ? L W Ty Kd Ct Pa F]; subst. cbn [leaves] in Hx.
    destruct (Q (Some i) F x Hx) as [o [via [dx [Lx [Ld [Hl [Wx [Tx Hp]]]]]]]]. exists o, via, dx.
    repeat (split; [assumption|]). right.
    destruct Hp as [Hp|[q [Hq Hn]]]; [exists i; split; [exact Hp | left; reflexivity]|].
    exists q. split; [exact Hq | right; exact Hn].
  - intros par _ x [].
  - intros k ks P Q par H x Hx. inversion H as [|? ? Fk Fks]; subst. cbn [flat_map] in *. apply in_app_iff in Hx.
    destruct Hx as [Hx|Hx].
    + destruct (P par Fk x Hx) as [o [via [dx [Lx [Ld [Hl [Wx [Tx Hp]]]]]]]]. exists o, via, dx. repeat (split; [assumption|]).
      destruct Hp as [Hp|[q [Hq Hn]]]; [left; exact Hp|]. right. exists q. split; [exact Hq|].
      apply in_app_iff. left. exact Hn.
    + destruct (Q par Fks x Hx) as [o [via [dx [Lx [Ld [Hl [Wx [Tx Hp]]]]]]]]. exists o, via, dx. repeat (split; [assumption|]).
      destruct Hp as [Hp|[q [Hq Hn]]]; [left; exact Hp|]. right. exists q. split; [exact Hq|].
      apply in_app_iff. right. exact Hn.
Qed.

Lemma page_tree_ref_wf m :
  (forall t par, page_tree_ref m par t -> forall x, In x (ids t) -> forall dx, lookup m x = Some (ODict dx) -> dict_wf dx) /\
  (forall f par, Forall (page_tree_ref m par) f -> forall x, In x (flat_map ids f) -> forall dx,
     lookup m x = Some (ODict dx) -> dict_wf dx).
Proof.
  apply ptree_forest_ind.
  - intros i par H x [<-|[]] dx Lx. inversion H as [? ? o via dd L Ld Hl W Ty Pa|]; subst. rewrite L in Lx. inversion Lx; subst o.
    inversion Ld; subst. exact W.
  - intros i ks Q par H x Hx dx Lx. inversion H as [|? ? dd ? L W Ty Kd Ct Pa F]; subst.
    destruct Hx as [<-|Hx]; [rewrite L in Lx; inversion Lx; subst dd; exact W | eapply Q; eassumption].
  - intros par _ x [].
  - intros k ks P Q par H x Hx dx Lx. inversion H; subst. cbn [flat_map] in Hx. apply in_app_iff in Hx.
    destruct Hx; [eapply P | eapply Q]; eassumption.
Qed.

Lemma page_tree_ref_count m :
  (forall t par, page_tree_ref m par t -> forall x, In x (nodes t) -> forall dx, lookup m x = Some (ODict dx) ->
     exists c, read_count m dx = Some c) /\
  (forall f par, Forall (page_tree_ref m par) f -> forall x, In x (flat_map nodes f) -> forall dx,
     lookup m x = Some (ODict dx) -> exists c, read_count m dx = Some c).
Proof.
  apply ptree_forest_ind.
  - intros i par _ x [].
  - intros i ks Q par H x Hx dx Lx. inversion H as [|? ? dd ? L0 W0 Ty Kd Ct Pa F]; subst.
    destruct Hx as [<-|Hx]; [|eapply Q; eassumption].
    rewrite L0 in Lx. inversion Lx; subst dd. eexists. apply count_reads_read. exact Ct.
  - intros par _ x [].
  - intros k ks P Q par H x Hx dx Lx. inversion H; subst. cbn [flat_map] in Hx. apply in_app_iff in Hx.
    destruct Hx; [eapply P | eapply Q]; eassumption.
Qed.


(* ---------- delete_object reaches every node of the tree ---------- *)
Section ReachRef.
  Variables (d : doc) (p : oid).
  Let m := d_objects d.
  Let tr' := del_trailer d p.
  Let g := del_graph d p.

  Lemma reach_tree_ref :
    (forall t par, page_tree_ref m par t -> ~ In p (nodes t) -> root_id t <> p -> reach tr' g (root_id t) ->
       forall x, In x (ids t) -> x <> p -> reach tr' g x) /\
    (forall f par, Forall (page_tree_ref m par) f -> ~ In p (flat_map nodes f) ->
       (forall k, In k f -> root_id k <> p -> reach tr' g (root_id k)) ->
       forall x, In x (flat_map ids f) -> x <> p -> reach tr' g x).
  Proof.
    apply ptree_forest_ind.
    - intros i par _ _ _ R x [<-|[]] _. exact R.
    - intros i ks Q par PT Hn Hr R x Hx Hxp. cbn [root_id] in *. cbn [nodes] in Hn.
      destruct Hx as [<-|Hx]; [exact R|].
      inversion PT as [|? ? dd ? L W Ty Kd Ct Pa F]; subst.
      assert (Hnk : ~ In p (flat_map nodes ks)) by (intro H; apply Hn; right; exact H).
      apply (Q (Some i) F Hnk); [|exact Hx | exact Hxp].
      intros k Hk Hkp. eapply reach_step; [exact R | |].
      + unfold g, del_graph. rewrite lookup_mapv. fold m. rewrite L. cbn [option_map]. rewrite strip_dict_sd. reflexivity.
      + cbn [refs_of]. fold (refs_of_dict (sd p dd)).
        eapply dict_get_refs; [apply (sd_get p dd K_Kids _ W Kd eq_refl)|].
        rewrite strip_kids by exact Hnk. cbn [refs_of]. apply in_flat_map.
        exists (ref_of (prune p k)). split.
        * apply in_map. unfold pkids. apply in_flat_map. exists k. split; [exact Hk|].
          replace (oid_eqb (root_id k) p) with false by (symmetry; apply oid_eqb_neq; exact Hkp). left. reflexivity.
        * unfold ref_of. rewrite root_id_prune. cbn [refs_of]. left. destruct (root_id k); reflexivity.
    - intros par _ _ _ x [].
    - intros k ks P Q par F Hn R x Hx Hxp. inversion F as [|? ? Fk Fks]; subst.
      cbn [flat_map] in *. rewrite in_app_iff in Hn. apply in_app_iff in Hx. destruct Hx as [Hx|Hx].
      + assert (Hk : root_id k <> p).
        { intro E. rewrite (root_p_leaf p k) in Hx by tauto. destruct Hx as [Hx|[]]. congruence. }
        apply (P par Fk); try tauto. apply R; [left; reflexivity | exact Hk].
      + apply (Q par Fks); try tauto. intros k' Hk'. apply R. right. exact Hk'.
  Qed.
End ReachRef.

Lemma delete_reaches_ref d t p ci cg cat d1 r :
  doc_wf d ->
  dict_wf (d_trailer d) -> dict_get (d_trailer d) K_Root = Some (ORef ci cg) ->
  lookup (d_objects d) (ci, cg) = Some (ODict cat) -> dict_wf cat -> dict_get cat K_Pages = Some (ref_of t) ->
  page_tree_ref (d_objects d) None t -> ~ In p (nodes t) -> root_id t <> p -> (ci, cg) <> p ->
  delete_object d p = Some (d1, r) ->
  d_trailer d1 = sd p (d_trailer d) /\
  lookup (d_objects d1) (ci, cg) = Some (ODict (sd p cat)) /\
  (forall x dx, In x (ids t) -> x <> p -> lookup (d_objects d) x = Some (ODict dx) ->
     lookup (d_objects d1) x = Some (ODict (sd p dx))) /\
  lookup (d_objects d1) p = None /\
  (r = lookup (d_objects d) p \/ r = option_map (strip p) (lookup (d_objects d) p)).
Proof.
  intros W Wt Rt Lc Wc Pg PT Hn Hr Hc E.
  destruct (delete_object_spec d p W) as [d1' [r' [E' [T1 [_ [Lid [L1 [_ Hres]]]]]]]].
  rewrite E in E'. inversion E'; subst d1' r'. clear E'.
  assert (Rc : reach (del_trailer d p) (del_graph d p) (ci, cg)).
  { apply reach_root. unfold del_trailer. change (strip_trailer p (d_trailer d)) with (sd p (d_trailer d)).
    eapply dict_get_refs; [apply (sd_get p _ K_Root _ Wt Rt)|].
    - cbn [is_ref_to]. apply oid_eqb_neq. exact Hc.
    - cbn [strip]. replace (oid_eqb (ci, cg) p) with false by (symmetry; apply oid_eqb_neq; exact Hc).
      left. reflexivity. }
  assert (Rr : reach (del_trailer d p) (del_graph d p) (root_id t)).
  { eapply reach_step; [exact Rc | |].
    - unfold del_graph. rewrite lookup_mapv, Lc. cbn [option_map]. rewrite strip_dict_sd. reflexivity.
    - cbn [refs_of]. fold (refs_of_dict (sd p cat)).
      eapply dict_get_refs; [apply (sd_get p cat K_Pages _ Wc Pg (is_ref_to_ref_of p t Hr))|].
      rewrite strip_ref_of by exact Hr. unfold ref_of. rewrite root_id_prune. cbn [refs_of]. left.
      destruct (root_id t); reflexivity. }
  split; [exact T1|]. split; [|split; [|split; [exact Lid | exact Hres]]].
  - rewrite (L1 _ Hc Rc), Lc. cbn [option_map]. rewrite strip_dict_sd. reflexivity.
  - intros x dx Hx Hxp Lx.
    rewrite (L1 x Hxp (proj1 (reach_tree_ref d p) t None PT Hn Hr Rr x Hx Hxp)), Lx.
    cbn [option_map]. rewrite strip_dict_sd. reflexivity.
Qed.


(* ---------- the Parent chain of p ---------- *)
Lemma page_count_tree_ref m m1 p T :
  (forall x dx, In x (ids T) -> x <> p -> lookup m x = Some (ODict dx) -> lookup m1 x = Some (ODict (sd p dx))) ->
  (forall dx n, dict_wf dx -> read_count m dx = Some n -> read_count m1 (sd p dx) = Some n) ->
  (forall t par, incl (ids t) (ids T) -> page_tree_ref m par t -> ~ In p (nodes t) -> par <> Some p ->
     count_tree_r m1 (leaf_parent_r m) par t) /\
  (forall f par, incl (flat_map ids f) (ids T) -> Forall (page_tree_ref m par) f -> ~ In p (flat_map nodes f) ->
     par <> Some p -> Forall (count_tree_r m1 (leaf_parent_r m) par) f).
Proof.
  intros M1 RC. apply ptree_forest_ind.
  - intros i par _ PT _ _. inversion PT as [? ? o via dd L Ld Hl W Ty Pa|]; subst. constructor.
    rewrite (leaf_parent_r_leads _ _ _ _ _ L Ld Hl). symmetry. apply parent_ref_as_ref.
  - intros i ks Q par Hi PT Hn Hpar. inversion PT as [|? ? dd ? L W Ty Kd Ct Pa F]; subst. cbn [nodes] in Hn.
    assert (Hip : i <> p) by (intro E; apply Hn; left; exact E).
    eapply CRNode.
    + apply M1; [apply Hi; left; reflexivity | exact Hip | exact L].
    + apply (RC dd _ W). apply count_reads_read. exact Ct.
    + rewrite parent_ref_as_ref in *. apply sd_parent; assumption.
    + apply Q; [intros x Hx; apply Hi; right; exact Hx | exact F | intro H; apply Hn; right; exact H|].
      intro E. inversion E. exact (Hip H0).
  - intros par _ _ _ _. constructor.
  - intros k ks P Q par Hi F Hn Hpar. inversion F as [|? ? Fk Fks]; subst. cbn [flat_map] in *.
    apply incl_app_inv in Hi. destruct Hi as [Hik Hiks]. rewrite in_app_iff in Hn.
    constructor; [apply P | apply Q]; tauto.
Qed.

(* ---------- the map after the deletion holds the pruned tree ---------- *)
Section PruneRef.
  Variables (m m1 m2 : objmap) (p : oid) (A : list oid) (T : ptree).
  Hypothesis H2 : forall x d, In x (ids T) -> x <> p -> lookup m x = Some (ODict d) ->
    lookup m2 x = Some (ODict (adjr m1 (mem_oid x A) (sd p d))).
  Hypothesis RC1 : forall d n, dict_wf d -> read_count m d = Some n -> read_count m1 (sd p d) = Some n.
  Hypothesis RC2 : forall d, read_count m2 d = read_count m1 d.
  (* every other page id still leads, by the same path, to its dictionary, untouched or stripped *)
  Hypothesis HL : forall x o via d, In x (ids T) -> x <> p -> lookup m x = Some o -> leads m o via d ->
    dict_get d K_Type = Some (OName K_Page) ->
    exists o2 d2, lookup m2 x = Some o2 /\ leads m2 o2 via d2 /\ (d2 = d \/ d2 = sd p d).

  Lemma prune_page_tree_ref :
    (forall t par, incl (ids t) (ids T) -> page_tree_ref m par t -> marks p A t -> ~ In p (nodes t) -> NoDup (leaves t) ->
       par <> Some p -> root_id t <> p -> page_tree_ref m2 par (prune p t)) /\
    (forall f par, incl (flat_map ids f) (ids T) -> Forall (page_tree_ref m par) f -> Forall (marks p A) f ->
       ~ In p (flat_map nodes f) -> NoDup (flat_map leaves f) -> par <> Some p ->
       Forall (page_tree_ref m2 par) (pkids p f)).
  Proof.
    apply ptree_forest_ind.
    - intros i par Hi PT _ _ _ Hpar Hr. cbn [root_id] in Hr. cbn [prune].
      inversion PT as [? ? o via d L Ld Hl W Ty Pa|]; subst.
      destruct (HL i o via d (Hi i (or_introl eq_refl)) Hr L Ld Ty) as [o2 [d2 [L2 [Ld2 Hd2]]]].
      rewrite parent_ref_as_ref in Hpar.
      destruct Hd2 as [->| ->].
      + eapply PRLeaf; [exact L2 | exact Ld2 | exact Hl | exact W | exact Ty | reflexivity].
      + eapply PRLeaf; [exact L2 | exact Ld2 | exact Hl | apply sd_wf; exact W | apply sd_get_name; assumption|].
        rewrite !parent_ref_as_ref. apply sd_parent; assumption.
    - intros i ks Q par Hi PT M Hn ND Hpar Hr. cbn [root_id] in Hr. rewrite prune_node.
      inversion PT as [|? ? d ? L W Ty Kd Ct Pa F]; subst.
      inversion M as [|? ? Hm Fm]; subst.
      cbn [nodes] in Hn. cbn [leaves] in ND, Ct.
      assert (Hnk : ~ In p (flat_map nodes ks)) by (intro H; apply Hn; right; exact H).
      pose proof (H2 i d (Hi i (or_introl eq_refl)) Hr L) as L2.
      apply count_reads_read in Ct. pose proof (RC1 d _ W Ct) as Ct1.
      eapply PRNode; [exact L2 | apply adjr_wf, sd_wf; exact W | | | | |].
      + rewrite adjr_get_other by discriminate. apply sd_get_name; assumption.
      + rewrite adjr_get_other by discriminate.
        rewrite (sd_get p d K_Kids _ W Kd eq_refl). rewrite strip_kids by exact Hnk. reflexivity.
      + apply count_reads_read. cbn [leaves]. rewrite (proj2 (prune_leaves p) ks Hnk).
        destruct (mem_oid i A) eqn:E.
        * apply read_count_int. rewrite (adjr_direct _ _ _ Ct1). do 2 f_equal.
          apply mem_oid_In in E. apply Hm in E. pose proof (without_length p _ ND E). lia.
        * cbn [adjr]. rewrite RC2, Ct1. do 2 f_equal.
          apply mem_oid_nIn in E. rewrite without_notin by (intro H; apply E; apply Hm; exact H). reflexivity.
      + rewrite adjr_get_other by discriminate. rewrite parent_ref_as_ref in *. apply sd_parent; assumption.
      + apply Q; try assumption.
        * intros x Hx. apply Hi. right. exact Hx.
        * intro E. inversion E. congruence.
    - intros par _ _ _ _ _ _. constructor.
    - intros k ks P Q par Hi F M Hn ND Hpar. rewrite pkids_cons.
      inversion F as [|? ? Fk Fks]; subst. inversion M as [|? ? Mk Mks]; subst.
      cbn [flat_map] in *. apply incl_app_inv in Hi. destruct Hi as [Hik Hiks].
      rewrite in_app_iff in Hn. apply nodup_app in ND. destruct ND as [Na [Nb _]].
      apply Forall_app. split.
      + destruct (oid_eqb (root_id k) p) eqn:E; [constructor|]. apply oid_eqb_neq in E.
        constructor; [|constructor]. apply P; tauto.
      + apply Q; tauto.
  Qed.
End PruneRef.

(* ---------- from the maps to page_doc_ref ---------- *)
Lemma page_doc_after_ref d t p ci cg cat m1 d2 :
  dict_wf (d_trailer d) -> dict_get (d_trailer d) K_Root = Some (ORef ci cg) ->
  lookup (d_objects d) (ci, cg) = Some (ODict cat) -> dict_wf cat -> dict_get cat K_Pages = Some (ref_of t) ->
  is_node t -> page_tree_ref (d_objects d) None t -> NoDup (ids t) -> ~ In (ci, cg) (ids t) ->
  NoDup (map (end_of (d_objects d)) (leaves t)) ->
  ~ In p (nodes t) -> (ci, cg) <> p ->
  d_trailer d2 = sd p (d_trailer d) ->
  lookup (d_objects d2) (ci, cg) = Some (ODict (sd p cat)) ->
  (forall x dx, In x (ids t) -> x <> p -> lookup (d_objects d) x = Some (ODict dx) ->
     lookup (d_objects d2) x = Some (ODict (adjr m1 (mem_oid x (chain p t)) (sd p dx)))) ->
  (forall dx n, dict_wf dx -> read_count (d_objects d) dx = Some n -> read_count m1 (sd p dx) = Some n) ->
  (forall dx, read_count (d_objects d2) dx = read_count m1 dx) ->
  (forall x o via dd, In x (ids t) -> x <> p -> lookup (d_objects d) x = Some o -> leads (d_objects d) o via dd ->
     dict_get dd K_Type = Some (OName K_Page) ->
     exists o2 dd2, lookup (d_objects d2) x = Some o2 /\ leads (d_objects d2) o2 via dd2 /\ (dd2 = dd \/ dd2 = sd p dd)) ->
  page_doc_ref d2 (prune p t).
Proof.
  intros Wt Rt Lc Wc Pg Nd PT ND Hc NE Hn Hcp T2 Lc2 H2 RC1 RC2 HL.
  assert (Hr : root_id t <> p).
  { destruct t as [i|i ks]; [destruct Nd|]. cbn [root_id nodes] in *. intro E. apply Hn. left. exact E. }
  exists ci, cg, (sd p cat).
  split; [unfold unique_keys; rewrite T2; apply sd_wf; exact Wt|].
  split; [rewrite T2, (sd_get p _ K_Root _ Wt Rt)|].
  { cbn [strip]. replace (oid_eqb (ci, cg) p) with false by (symmetry; apply oid_eqb_neq; exact Hcp). reflexivity. }
  { cbn [is_ref_to]. apply oid_eqb_neq. exact Hcp. }
  split; [exact Lc2|]. split; [apply sd_wf; exact Wc|].
  split; [rewrite (sd_get p cat K_Pages _ Wc Pg (is_ref_to_ref_of p t Hr)), strip_ref_of by exact Hr; reflexivity|].
  split; [destruct t; [destruct Nd | exact I]|].
  split; [|split; [|split]].
  - apply (proj1 (prune_page_tree_ref (d_objects d) m1 (d_objects d2) p (chain p t) t H2 RC1 RC2 HL)).
    + apply incl_refl.
    + exact PT.
    + apply (proj1 (chain_marks p)); [exact ND | intros; tauto].
    + exact Hn.
    + apply (proj1 leaves_nodup). exact ND.
    + discriminate.
    + exact Hr.
  - rewrite (proj1 (prune_ids p) t Hn Hr). apply without_nodup. exact ND.
  - rewrite (proj1 (prune_ids p) t Hn Hr). intro H. apply without_In in H. tauto.
  - rewrite (proj1 (prune_leaves p) t Hn Hr).
    rewrite (map_ext_in (end_of (d_objects d2)) (end_of (d_objects d))); [apply nodup_map_filter; exact NE|].
    intros x Hx. apply without_In in Hx. destruct Hx as [Hx Hxp].
    destruct (proj1 (page_tree_ref_leaves (d_objects d)) t None PT x Hx) as [o [via [dd [Lx [Ld [Hl [Wx [Tx _]]]]]]]].
    destruct (HL x o via dd (proj1 leaves_ids t x Hx) Hxp Lx Ld Tx) as [o2 [dd2 [L2 [Ld2 _]]]].
    rewrite (end_of_leads _ x o via dd Lx Ld Hl), (end_of_leads _ x o2 via dd2 L2 Ld2 Hl). reflexivity.
Qed.

(* ---------- one round of delete_pages' loop ---------- *)
Lemma delete_page_step_ref d t p :
  doc_wf d -> page_doc_ref d t -> (In p (leaves t) \/ lookup (d_objects d) p = None) ->
  exists d2,
    (forall pages n ns, assoc_N pages n = Some p ->
       delete_pages_loop pages (n :: ns) d = delete_pages_loop pages ns d2) /\
    doc_wf d2 /\ page_doc_ref d2 (prune p t) /\
    leaves (prune p t) = without p (leaves t) /\
    lookup (d_objects d2) p = None /\
    (forall x, lookup (d_objects d) x = None -> lookup (d_objects d2) x = None) /\
    ~ In p (nodes t) /\
    (forall x, In x (chain p t) -> count_is_direct (d_objects d2) x) /\
    (forall x, In x (ids t) -> x <> p -> count_is_direct (d_objects d) x -> count_is_direct (d_objects d2) x).
Proof.
  intros W [ci [cg [cat [Wt [Rt [Lc [Wc [Pg [Nd [PT [ND [Hc NE]]]]]]]]]]]] Hp.
  set (m := d_objects d) in *.
  assert (Hn : ~ In p (nodes t)).
  { intro H. destruct (proj1 (page_tree_ref_nodes m) t None PT p H) as [dn [Ln Tn]].
    destruct Hp as [Hp|Hp]; [|congruence].
    destruct (proj1 (page_tree_ref_leaves m) t None PT p Hp) as [o [via [dl [Ll [Ld [Hl [_ [Tl _]]]]]]]].
    exact (leads_no_pages m p o via dl Ll Ld Tl p dn (or_introl eq_refl) Ln Tn). }
  assert (Hcp : (ci, cg) <> p).
  { intro E. subst p. destruct Hp as [Hp|Hp]; [|unfold m in *; congruence].
    apply Hc. apply (proj1 leaves_ids). exact Hp. }
  assert (Hr : root_id t <> p).
  { destruct t as [i|i ks]; [destruct Nd|]. cbn [root_id nodes] in *. intro E. apply Hn. left. exact E. }
  (* no chain to an integer passes p *)
  assert (Hpi : forall f l, int_result (deref_aux m f l (ORef (fst p) (snd p))) = None).
  { intros f l. destruct p as [pi pg]. cbn [fst snd]. destruct f as [|f]; cbn [deref_aux].
    - destruct (lookup m (pi, pg)); reflexivity.
    - destruct Hp as [Hp|Hp]; [|rewrite Hp; reflexivity].
      destruct (proj1 (page_tree_ref_leaves m) t None PT _ Hp) as [o [via [dl [Ll [Ld _]]]]].
      rewrite Ll. apply (leads_int_none _ _ _ _ Ld). }
  destruct (delete_object d p) as [[d1 r]|] eqn:E; [|exfalso; exact (delete_object_total d p W E)].
  destruct (delete_reaches_ref d t p ci cg cat d1 r W Wt Rt Lc Wc Pg PT Hn Hr Hcp E) as [T1 [Lc1 [M1 [Lp1 Hres]]]].
  destruct (delete_object_keys d p d1 r E) as [K1 [_ W1]]. specialize (W1 W).
  pose proof (delete_object_any d p d1 r W E) as Any. fold m in Any.
  pose proof (read_count_del2 m (d_objects d1) p Hpi Any) as RC1.
  assert (None1 : forall x, lookup m x = None -> lookup (d_objects d1) x = None).
  { intros x H. apply lookup_none. intro Hh. apply K1 in Hh. apply lookup_none in H. exact (H Hh). }
  (* no other page's path passes p *)
  assert (Havoid : forall x o via dd, In x (leaves t) -> x <> p -> lookup m x = Some o -> leads m o via dd ->
            (N.of_nat (length via) <= DEREF_LIMIT)%N -> ~ In p via).
  { intros x o via dd Hx Hxp Lx Ld Hl Hin. destruct Hp as [Hp|Hp].
    - destruct (proj1 (page_tree_ref_leaves m) t None PT p Hp) as [po [vp [dp [Lp [Ldp [Hlp _]]]]]].
      apply Hxp. apply (nodup_map_inj (end_of m) (leaves t) x p NE Hx Hp).
      rewrite (end_of_leads m x o via dd Lx Ld Hl), (end_of_leads m p po vp dp Lp Ldp Hlp). f_equal.
      exact (leads_visit_end m x o via dd p po vp dp Ld Hin Lp Ldp).
    - destruct (leads_in_lookup m o via dd Ld p Hin) as [[i [g E1]]|E1]; rewrite Hp in E1; discriminate E1. }
  (* every other page id still leads to its dictionary after delete_object *)
  assert (HL1 : forall x o via dd, In x (ids t) -> x <> p -> lookup m x = Some o -> leads m o via dd ->
            dict_get dd K_Type = Some (OName K_Page) ->
            exists o2 dd2, lookup (d_objects d1) x = Some o2 /\ leads (d_objects d1) o2 via dd2 /\
                           (dd2 = dd \/ dd2 = sd p dd) /\ dict_get dd2 K_Type = Some (OName K_Page)).
  { intros x o via dd Hx Hxp Lx Ld Ty.
    destruct (proj1 ids_split t x Hx) as [Hxl|Hxn].
    - destruct (proj1 (page_tree_ref_leaves m) t None PT x Hxl) as [o' [via' [dd' [Lx' [Ld' [Hl' [Wx' _]]]]]]].
      rewrite Lx in Lx'. inversion Lx'; subst o'. destruct (leads_det _ _ _ _ Ld _ _ Ld') as [<- <-].
      destruct (leads_del m (d_objects d1) p Any o via dd Ld (Havoid x o via dd Hxl Hxp Lx Ld Hl')) as [[da [A1 B1]] [db [A2 B2]]].
      assert (Tyk : forall dx, dx = dd \/ dx = sd p dd -> dict_get dx K_Type = Some (OName K_Page)).
      { intros dx [->| ->]; [exact Ty | apply sd_get_name; assumption]. }
      destruct (Any x Hxp) as [E1|E1]; rewrite Lx in E1.
      + exists o, da. split; [exact E1|]. split; [exact A1|]. split; [exact B1 | exact (Tyk da B1)].
      + exists (strip p o), db. split; [exact E1|]. split; [exact A2|]. split; [exact B2 | exact (Tyk db B2)].
    - exfalso. destruct (proj1 (page_tree_ref_nodes m) t None PT x Hxn) as [dn [Ln Tn]].
      exact (leads_no_pages m x o via dd Lx Ld Ty x dn (or_introl eq_refl) Ln Tn). }
  destruct Hp as [Hp|Hp].
  - destruct (proj1 (page_tree_ref_leaves m) t None PT p Hp) as [po [vp [pd [Lp [Ldp [Hlp [Wp [_ Hpar]]]]]]]].
    assert (Hlp0 : leaf_parent_r m p <> Some p).
    { destruct Hpar as [Hpar|[q [Hq Hqn]]]; [rewrite Hpar; discriminate|]. rewrite Hq. intro E1. inversion E1. congruence. }
    assert (Hlp' : as_ref (dict_get pd K_Parent) = leaf_parent_r m p)
      by (symmetry; exact (leaf_parent_r_leads m p po vp pd Lp Ldp Hlp)).
    (* the returned object -- the page dictionary or the reference object -- leads to the page dictionary in the map after
       the deletion: its Parent entry is the one the page had *)
    assert (Hpage : exists page q pd', r = Some page /\ dereference (d_objects d1) page = Some (q, ODict pd') /\
                                       as_ref (dict_get pd' K_Parent) = leaf_parent_r m p).
    { destruct (leads_del m (d_objects d1) p Any po vp pd Ldp (leads_acyclic m p po vp pd Lp Ldp)) as [[da [A1 B1]] [db [A2 B2]]].
      assert (Par : forall dx, dx = pd \/ dx = sd p pd -> as_ref (dict_get dx K_Parent) = leaf_parent_r m p).
      { intros dx [->| ->]; [exact Hlp'|]. rewrite <- Hlp'. apply sd_parent; [exact Wp | rewrite Hlp'; exact Hlp0]. }
      fold m in Hres. rewrite Lp in Hres. destruct Hres as [->| ->].
      - exists po. eexists. exists da. split; [reflexivity|].
        split; [apply (leads_dereference _ _ _ _ A1 Hlp) | apply Par; exact B1].
      - cbn [option_map]. exists (strip p po). eexists. exists db. split; [reflexivity|].
        split; [apply (leads_dereference _ _ _ _ A2 Hlp) | apply Par; exact B2]. }
    destruct Hpage as [page [q [pd' [-> [Hder Hpd']]]]].
    pose proof (proj1 (page_count_tree_ref m (d_objects d1) p t M1 RC1) t None (incl_refl _) PT Hn
                  (fun H => ltac:(discriminate H))) as CT.
    destruct (proj1 (chain_ref (d_objects d1) (leaf_parent_r m) p) t None [] CT (proj1 leaves_nodup t ND) Hp (rc_none _))
      as [ancs [An Ai]].
    rewrite app_nil_r in An.
    assert (NDa : NoDup (map anc_id ancs)) by (rewrite Ai; apply (proj1 (chain_nodup p)); exact ND).
    pose proof (count_loop_ref_chain (d_objects d1) _ ancs _ An NDa (ref_chain_fuel _ _ _ An NDa)) as CL.
    assert (H2 : forall x dx, In x (ids t) -> x <> p -> lookup m x = Some (ODict dx) ->
              lookup (dec_all (d_objects d1) ancs) x =
              Some (ODict (adjr (d_objects d1) (mem_oid x (chain p t)) (sd p dx)))).
    { intros x dx Hx Hxp Lx. pose proof (M1 x dx Hx Hxp Lx) as Lx1.
      destruct (mem_oid x (chain p t)) eqn:Em.
      - apply mem_oid_In in Em. rewrite <- Ai in Em. apply in_map_iff in Em. destruct Em as [[[x' d'] c'] [Ex Hin]].
        cbn [anc_id fst] in Ex. subst x'. destruct (ref_chain_In _ _ _ An _ _ _ Hin) as [Lx' Hc'].
        rewrite Lx1 in Lx'. inversion Lx'; subst d'.
        rewrite (dec_all_member ancs _ x (sd p dx) c' NDa Hin Lx1). subst c'. reflexivity.
      - apply mem_oid_nIn in Em. rewrite dec_all_other by (rewrite Ai; exact Em). exact Lx1. }
    (* the Count loop rewrites Pages dictionaries: no page's path meets one *)
    assert (HL2 : forall x o via dd, In x (ids t) -> x <> p -> lookup m x = Some o -> leads m o via dd ->
              dict_get dd K_Type = Some (OName K_Page) ->
              exists o2 dd2, lookup (dec_all (d_objects d1) ancs) x = Some o2 /\
                             leads (dec_all (d_objects d1) ancs) o2 via dd2 /\ (dd2 = dd \/ dd2 = sd p dd)).
    { intros x o via dd Hx Hxp Lx Ld Ty. destruct (HL1 x o via dd Hx Hxp Lx Ld Ty) as [o2 [dd2 [L2 [Ld2 [Hd2 Ty2]]]]].
      assert (Hoff : forall y, In y (x :: via) -> ~ In y (map anc_id ancs)).
      { intros y Hy Hin. rewrite Ai in Hin. pose proof (proj1 (chain_nodes p) t y Hin) as Hyn.
        destruct (proj1 (page_tree_ref_nodes m) t None PT y Hyn) as [dy [Ly Tyy]].
        assert (Hyp : y <> p) by (intro E1; subst y; exact (Hn Hyn)).
        pose proof (proj1 nodes_ids t y Hyn) as Hyi.
        pose proof (M1 y dy Hyi Hyp Ly) as Ly1.
        apply (leads_no_pages (d_objects d1) x o2 via dd2 L2 Ld2 Ty2 y (sd p dy) Hy Ly1).
        apply sd_get_name; [exact (proj1 (page_tree_ref_wf m) t None PT y Hyi dy Ly) | exact Tyy]. }
      exists o2, dd2. split; [rewrite dec_all_other by (apply Hoff; left; reflexivity); exact L2|]. split; [|exact Hd2].
      apply (leads_agree (d_objects d1)); [exact Ld2|]. intros y Hy. apply dec_all_other. apply Hoff. right. exact Hy. }
    exists (with_objs d1 (dec_all (d_objects d1) ancs)).
    split; [|split; [|split; [|split; [|split; [|split; [|split; [exact Hn|split]]]]]]].
    + intros pages n ns Ha. cbn [delete_pages_loop]. rewrite Ha, E, Hder, Hpd', CL. reflexivity.
    + unfold doc_wf. cbn [with_objs d_objects]. unfold sorted_keys. rewrite dec_all_keys. exact W1.
    + apply (page_doc_after_ref d t p ci cg cat (d_objects d1)); try assumption.
      * cbn [with_objs d_objects]. rewrite dec_all_other; [exact Lc1|].
        rewrite Ai. intro H. apply Hc. apply chain_ids with p. exact H.
      * intros dx. cbn [with_objs d_objects]. apply (read_count_dec_all _ _ _ _ An NDa).
    + apply (proj1 (prune_leaves p)); assumption.
    + cbn [with_objs d_objects]. apply (lookup_none_keys (d_objects d1)); [apply dec_all_keys | exact Lp1].
    + intros x H. cbn [with_objs d_objects]. apply (lookup_none_keys (d_objects d1)); [apply dec_all_keys | exact (None1 x H)].
    + intros x Hx. cbn [with_objs d_objects].
      pose proof (proj1 (chain_nodes p) t x Hx) as Hxn.
      destruct (proj1 (page_tree_ref_nodes m) t None PT x Hxn) as [dx [Lx _]].
      assert (Hxp : x <> p) by (intro E1; subst x; exact (Hn Hxn)).
      pose proof (chain_ids p t x Hx) as Hxi.
      pose proof (H2 x dx Hxi Hxp Lx) as L2.
      replace (mem_oid x (chain p t)) with true in L2 by (symmetry; apply mem_oid_In; exact Hx).
      destruct (proj1 (page_tree_ref_count m) t None PT x Hxn dx Lx) as [c Hc0].
      pose proof (RC1 dx c (proj1 (page_tree_ref_wf m) t None PT x Hxi dx Lx) Hc0) as Hc1.
      exists (adjr (d_objects d1) true (sd p dx)), (c - 1)%Z. split; [exact L2 | apply adjr_direct; exact Hc1].
    + intros x Hx Hxp [dx [c [Lx Gc]]]. cbn [with_objs d_objects]. fold m in Lx.
      pose proof (proj1 (page_tree_ref_wf m) t None PT x Hx dx Lx) as Wx.
      destruct (adjr_keeps_direct (d_objects d1) (mem_oid x (chain p t)) (sd p dx) c (sd_get_int p dx K_Count c Wx Gc)) as [c' Hc'].
      eexists. exists c'. split; [exact (H2 x dx Hx Hxp Lx) | exact Hc'].
  - assert (Hr' : r = None) by (fold m in Hres; rewrite Hp in Hres; destruct Hres as [->| ->]; reflexivity). subst r.
    assert (Hnl : ~ In p (leaves t)).
    { intro H. destruct (proj1 (page_tree_ref_leaves m) t None PT p H) as [o [via [dl [Ll _]]]]. congruence. }
    assert (H2 : forall x dx, In x (ids t) -> x <> p -> lookup m x = Some (ODict dx) ->
              lookup (d_objects d1) x = Some (ODict (adjr (d_objects d1) (mem_oid x (chain p t)) (sd p dx)))).
    { intros x dx Hx Hxp Lx. rewrite chain_nil by exact Hnl. cbn [mem_oid existsb adjr]. exact (M1 x dx Hx Hxp Lx). }
    exists d1. split; [|split; [exact W1|split; [|split; [|split; [exact Lp1 |split; [exact None1|split; [exact Hn|split]]]]]]].
    + intros pages n ns Ha. cbn [delete_pages_loop]. rewrite Ha, E. reflexivity.
    + apply (page_doc_after_ref d t p ci cg cat (d_objects d1)); try assumption; [intros; reflexivity|].
      intros x o via dd Hx Hxp Lx Ld Ty. destruct (HL1 x o via dd Hx Hxp Lx Ld Ty) as [o2 [dd2 [L2 [Ld2 [Hd2 _]]]]].
      exists o2, dd2. split; [exact L2|]. split; [exact Ld2 | exact Hd2].
    + apply (proj1 (prune_leaves p)); assumption.
    + intros x Hx. rewrite chain_nil in Hx by exact Hnl. destruct Hx.
    + intros x Hx Hxp [dx [c [Lx Gc]]]. fold m in Lx.
      exists (sd p dx), c. split; [exact (M1 x dx Hx Hxp Lx)|].
      apply sd_get_int; [exact (proj1 (page_tree_ref_wf m) t None PT x Hx dx Lx) | exact Gc].
Qed.

(* ---------- the loop ---------- *)
Lemma delete_pages_loop_tree_ref pages : forall ns d t,
  doc_wf d -> page_doc_ref d t ->
  (forall n p, assoc_N pages n = Some p -> In p (leaves t) \/ lookup (d_objects d) p = None) ->
  exists d', delete_pages_loop pages ns d = (d', LOk) /\ doc_wf d' /\
             page_doc_ref d' (prune_all (sel pages ns) t) /\
             leaves (prune_all (sel pages ns) t) = fold_left (fun l p => without p l) (sel pages ns) (leaves t) /\
             (forall x, In x (nodes t) -> count_is_direct (d_objects d) x -> count_is_direct (d_objects d') x) /\
             (forall x, In x (touched (sel pages ns) t) -> count_is_direct (d_objects d') x).
Proof.
  induction ns as [|n ns IH]; intros d t W PD Inv.
  - exists d. split; [reflexivity|]. split; [exact W|]. split; [exact PD|]. split; [reflexivity|].
    split; [intros x _ H; exact H | intros x []].
  - unfold sel. cbn [flat_map]. fold (sel pages ns). destruct (assoc_N pages n) as [p|] eqn:Ea.
    + destruct (delete_page_step_ref d t p W PD (Inv n p Ea)) as [d2 [Hstep [W2 [PD2 [Lv [Lp2 [None2 [Hn [Dc Dk]]]]]]]]].
      rewrite (Hstep pages n ns Ea). cbn [app]. unfold prune_all. cbn [fold_left]. fold (prune_all (sel pages ns) (prune p t)).
      rewrite <- Lv.
      destruct (IH d2 (prune p t) W2 PD2) as [d' [E' [W' [PD' [Lv' [Kp Tc]]]]]].
      { intros n' p' Ea'. destruct (Inv n' p' Ea') as [H|H]; [|right; apply None2; exact H].
        destruct (oid_eq_dec p' p) as [->|Hne]; [right; exact Lp2|].
        left. rewrite Lv. apply without_In. split; assumption. }
      exists d'. split; [exact E'|]. split; [exact W'|]. split; [exact PD'|]. split; [exact Lv'|].
      rewrite (proj1 (nodes_prune p) t Hn) in Kp.
      assert (Keep : forall x, In x (nodes t) -> count_is_direct (d_objects d) x -> count_is_direct (d_objects d') x).
      { intros x Hx Hd. apply Kp; [exact Hx|]. apply Dk; [apply (proj1 nodes_ids); exact Hx | | exact Hd].
        intro E1. subst x. exact (Hn Hx). }
      split; [exact Keep|].
      intros x Hx. cbn [touched] in Hx. apply in_app_iff in Hx. destruct Hx as [Hx|Hx]; [|apply Tc; exact Hx].
      apply Kp; [apply (proj1 (chain_nodes p)); exact Hx | apply Dc; exact Hx].
    + cbn [delete_pages_loop]. rewrite Ea. cbn [app]. apply IH; assumption.
Qed.

(* ---------- page_doc_ref and C12 ---------- *)
Lemma page_doc_ref_tree_wf d t : page_doc_ref d t -> tree_wf d t /\ counts_exact (d_objects d) t.
Proof.
  intros [ci [cg [cat [_ [_ [_ [_ [_ [_ [PT [ND _]]]]]]]]]]].
  split; [split; [exact (proj1 (page_tree_ref_represents _) t None PT) | exact ND]|].
  exact (proj1 (page_tree_ref_counts _) t None PT).
Qed.

Lemma page_doc_ref_iter d t :
  page_doc_ref d t -> (N.of_nat (height t) <= PAGE_TREE_DEPTH_LIMIT + 1)%N -> page_iter d = leaves t.
Proof.
  intros PD Hh. pose proof (proj1 (page_doc_ref_tree_wf d t PD)) as TW.
  destruct PD as [ci [cg [cat [_ [Rt [Lc [_ [Pg [Nd _]]]]]]]]].
  destruct t as [i|[i g] ks]; [destruct Nd|].
  apply (page_iter_dfs d cat i g ks); [|exact Pg | exact TW | exact Hh].
  unfold catalog. rewrite Rt. apply lookup_get_dictionary. exact Lc.
Qed.

(* ---------- delete_pages ---------- *)
Theorem delete_pages_tree_ref d t ns :
  doc_wf d -> page_doc_ref d t -> (N.of_nat (height t) <= PAGE_TREE_DEPTH_LIMIT + 1)%N ->
  exists d',
    delete_pages d ns = (d', LOk) /\ doc_wf d' /\
    page_doc_ref d' (prune_all (sel (get_pages d) ns) t) /\
    page_iter d = leaves t /\
    page_iter d' = leaves (prune_all (sel (get_pages d) ns) t) /\
    page_iter d' = map snd (filter (fun np => negb (existsb (N.eqb (fst np)) ns)) (get_pages d)) /\
    (forall x, In x (nodes t) -> count_is_direct (d_objects d) x -> count_is_direct (d_objects d') x) /\
    (forall x, In x (touched (sel (get_pages d) ns) t) -> count_is_direct (d_objects d') x).
Proof.
  intros W PD Hh. pose proof (page_doc_ref_iter d t PD Hh) as It.
  assert (ND : NoDup (leaves t)).
  { destruct PD as [ci [cg [cat [_ [_ [_ [_ [_ [_ [_ [ND _]]]]]]]]]]]. apply (proj1 leaves_nodup). exact ND. }
  destruct (delete_pages_loop_tree_ref (get_pages d) ns d t W PD) as [d' [E [W' [PD' [Lv [Kp Tc]]]]]].
  { intros n p Ha. left. apply assoc_N_In in Ha. unfold get_pages in Ha. rewrite It in Ha.
    apply (in_map snd) in Ha. rewrite number_from_snd in Ha. exact Ha. }
  exists d'. split; [exact E|]. split; [exact W'|]. split; [exact PD'|]. split; [exact It|].
  assert (It' : page_iter d' = leaves (prune_all (sel (get_pages d) ns) t)).
  { apply page_doc_ref_iter; [exact PD'|]. pose proof (prune_all_height (sel (get_pages d) ns) t). lia. }
  split; [exact It'|]. split; [|split; [exact Kp | exact Tc]].
  assert (Gp : get_pages d = number_from 1 (leaves t)) by (unfold get_pages; rewrite It; reflexivity).
  rewrite It', Lv, fold_without, Gp.
  assert (N2 : NoDup (map snd (number_from 1 (leaves t)))) by (rewrite number_from_snd; exact ND).
  pose proof (remaining_pages (number_from 1 (leaves t)) ns (number_from_nodup _ _) N2) as R.
  rewrite number_from_snd in R. exact R.
Qed.


(* ---------- non-vacuity: pages behind reference objects (one and two hops), Counts behind references ---------- *)
Definition tree_doc_ref : doc :=
  let pg (q : N) := ODict [(K_Type, OName K_Page); (K_Parent, ORef q 0)] in
  {| d_version := bs "1.5"; d_binary_mark := []; d_max_id := 14;
     d_trailer := [(K_Root, ORef 1 0)];
     d_objects := [((1,0), ODict [(K_Type, OName K_Catalog'); (K_Pages, ORef 2 0)]);
                   ((2,0), ODict [(K_Type, OName K_Pages); (K_Kids, OArr [ORef 3 0; ORef 4 0; ORef 10 0]); (K_Count, ORef 7 0)]);
                   ((3,0), ORef 14 0);
                   ((4,0), ODict [(K_Type, OName K_Pages); (K_Parent, ORef 2 0); (K_Kids, OArr [ORef 5 0]); (K_Count, ORef 9 0)]);
                   ((5,0), ORef 12 0);
                   ((7,0), ORef 8 0);
                   ((8,0), OInt 3);
                   ((9,0), OInt 1);
                   ((10,0), ODict [(K_Type, OName K_Pages); (K_Parent, ORef 2 0); (K_Kids, OArr [ORef 11 0]); (K_Count, OInt 1)]);
                   ((11,0), pg 10);
                   ((12,0), ORef 13 0);
                   ((13,0), pg 4);
                   ((14,0), pg 2)]%N |}.

Lemma tree_ref_example :
  doc_wf tree_doc_ref /\ page_doc_ref tree_doc_ref tree_ex_ind /\
  (N.of_nat (height tree_ex_ind) <= PAGE_TREE_DEPTH_LIMIT + 1)%N /\
  get_pages tree_doc_ref = [(1, (3,0)); (2, (5,0)); (3, (11,0))]%N /\
  let d' := fst (delete_pages tree_doc_ref [2; 2; 9; 1]%N) in
  snd (delete_pages tree_doc_ref [2; 2; 9; 1]%N) = LOk /\
  page_iter d' = [(11,0)]%N /\
  count_entry d' (2,0)%N = Some (OInt 1) /\ count_entry d' (4,0)%N = Some (OInt 0) /\
  count_entry d' (10,0)%N = Some (OInt 1) /\
  lookup (d_objects d') (5,0)%N = None /\ lookup (d_objects d') (3,0)%N = None /\
  lookup (d_objects d') (13,0)%N = Some (ODict [(K_Type, OName K_Page); (K_Parent, ORef 4 0)]).
Proof.
  split; [unfold doc_wf, sorted_keys; cbn; repeat constructor|].
  split.
  { exists 1%N, 0%N. eexists. split; [unfold unique_keys; cbn; repeat constructor; intros []|].
    split; [reflexivity|]. split; [reflexivity|].
    split; [unfold unique_keys; cbn; repeat constructor; cbn; intuition discriminate|].
    split; [reflexivity|]. split; [exact I|]. split; [|split; [|split]].
    - unfold tree_ex_ind.
      eapply PRNode; [reflexivity | unfold unique_keys; cbn; repeat constructor; cbn; intuition discriminate
                     | reflexivity | reflexivity | apply count_reads_read; vm_compute; reflexivity | reflexivity|].
      repeat constructor.
      + eapply (PRLeaf _ _ (3,0)%N (ORef 14 0) [(14,0)%N]);
          [reflexivity | eapply LRef; [reflexivity | constructor] | vm_compute; discriminate
          | unfold unique_keys; cbn; repeat constructor; cbn; intuition discriminate | reflexivity | reflexivity].
      + eapply PRNode; [reflexivity | unfold unique_keys; cbn; repeat constructor; cbn; intuition discriminate
                       | reflexivity | reflexivity | apply count_reads_read; vm_compute; reflexivity | reflexivity|].
        repeat constructor.
        eapply (PRLeaf _ _ (5,0)%N (ORef 12 0) [(12,0)%N; (13,0)%N]);
          [reflexivity | eapply LRef; [reflexivity | eapply LRef; [reflexivity | constructor]] | vm_compute; discriminate
          | unfold unique_keys; cbn; repeat constructor; cbn; intuition discriminate | reflexivity | reflexivity].
      + eapply PRNode; [reflexivity | unfold unique_keys; cbn; repeat constructor; cbn; intuition discriminate
                       | reflexivity | reflexivity | apply count_reads_read; vm_compute; reflexivity | reflexivity|].
        repeat constructor.
        eapply (PRLeaf _ _ (11,0)%N _ []);
          [reflexivity | constructor | vm_compute; discriminate
          | unfold unique_keys; cbn; repeat constructor; cbn; intuition discriminate | reflexivity | reflexivity].
    - cbn. repeat constructor; cbn; intuition discriminate.
    - cbn. intuition discriminate.
    - vm_compute. repeat constructor; cbn; intuition discriminate. }
  split; [vm_compute; discriminate|].
  split; [vm_compute; reflexivity|].
  vm_compute. repeat split; reflexivity.
Qed.

(* neither earlier domain contains this document *)
Lemma tree_ref_example_not_ind : ~ page_doc_ind tree_doc_ref tree_ex_ind.
Proof.
  intros [ci [cg [cat [_ [_ [_ [_ [_ [_ [PT _]]]]]]]]]]. inversion PT as [|? ? dd ? L W Ty Kd Ct Pa F]; subst.
  inversion F as [|? ? Fk _]; subst. inversion Fk as [? ? d3 L3 _ _ _|]; subst. cbn in L3. discriminate L3.
Qed.
