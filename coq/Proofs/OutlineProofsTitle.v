(* OutlineProofsTitle.v -- C17: the title bytes written by outline_child decode back to the title
   with the decoder of get_toc, for every string of Unicode scalar values.
   Main results: [decode_title_bytes], [title_bytes_inj]. *)
From LV Require Import Base.Bytes Model.Obj Model.Outline Model.Toc.

Local Open Scope N_scope.
Ltac Zify.zify_post_hook ::= Z.to_euclidean_division_equations.

Definition scalar (c : N) : Prop := is_scalar c = true.

Lemma scalar_spec c : scalar c <-> (c < 55296 \/ (57344 <= c /\ c < 1114112)).
Proof.
  unfold scalar, is_scalar. rewrite orb_true_iff, andb_true_iff, !N.ltb_lt, N.leb_le. reflexivity.
Qed.

(* ---------- UTF-16 ---------- *)
Lemma utf16_lossy_units c r : scalar c -> utf16_lossy (utf16_units c ++ r) = c :: utf16_lossy r.
Proof.
  intro Hc. apply scalar_spec in Hc. unfold utf16_units.
  destruct (c <? 65536) eqn:E.
  - apply N.ltb_lt in E. cbn [app utf16_lossy].
    replace ((c <? 55296) || (57344 <=? c)) with true; [reflexivity|].
    symmetry. apply orb_true_iff. rewrite N.ltb_lt, N.leb_le. lia.
  - apply N.ltb_ge in E.
    set (a := 55296 + (c - 65536) / 1024). set (b := 56320 + (c - 65536) mod 1024).
    assert (Ha : 55296 <= a < 56320) by (unfold a; lia).
    assert (Hb : 56320 <= b <= 57343) by (unfold b; lia).
    cbn [app utf16_lossy].
    replace ((a <? 55296) || (57344 <=? a)) with false
      by (symmetry; apply orb_false_iff; rewrite N.ltb_ge, N.leb_gt; lia).
    replace (56320 <=? a) with false by (symmetry; apply N.leb_gt; lia).
    replace ((56320 <=? b) && (b <=? 57343)) with true
      by (symmetry; apply andb_true_iff; rewrite !N.leb_le; lia).
    f_equal. unfold a, b. lia.
Qed.

Lemma utf16_lossy_rt s : Forall scalar s -> utf16_lossy (flat_map utf16_units s) = s.
Proof.
  induction 1 as [|c s Hc Hs IH]; [reflexivity|].
  cbn [flat_map]. rewrite utf16_lossy_units by exact Hc. rewrite IH. reflexivity.
Qed.

Lemma units_be_be u r : u < 65536 -> units_be (be_bytes u ++ r) = u :: units_be r.
Proof.
  intro Hu. unfold be_bytes. cbn [app units_be].
  rewrite !N_of_byte_of_N by lia. f_equal. lia.
Qed.

Definition body (s : ustring) : bytes := flat_map (fun c => flat_map be_bytes (utf16_units c)) s.

Lemma units_be_body s : Forall scalar s -> units_be (body s) = flat_map utf16_units s.
Proof.
  induction 1 as [|c s Hc Hs IH]; [reflexivity|].
  apply scalar_spec in Hc. unfold body in *. cbn [flat_map]. unfold utf16_units at 1 3.
  destruct (c <? 65536) eqn:E.
  - apply N.ltb_lt in E. cbn [flat_map]. rewrite app_nil_r, units_be_be by lia. rewrite IH. reflexivity.
  - apply N.ltb_ge in E. cbn [flat_map]. rewrite app_nil_r, <- app_assoc.
    rewrite units_be_be by lia. rewrite units_be_be by lia. rewrite IH. reflexivity.
Qed.

Lemma body_even s : Nat.odd (length (body s)) = false.
Proof.
  induction s as [|c s IH]; [reflexivity|].
  unfold body in *. cbn [flat_map]. rewrite app_length. unfold utf16_units.
  destruct (c <? 65536); cbn [flat_map be_bytes app length Nat.add]; rewrite ?Nat.odd_succ_succ; exact IH.
Qed.

(* ---------- ASCII ---------- *)
Lemma utf8_lossy_ascii s : is_ascii s = true -> utf8_lossy (map byte_of_N s) = s.
Proof.
  induction s as [|c s IH]; [reflexivity|].
  unfold is_ascii. cbn [forallb]. rewrite andb_true_iff. intros [Hc Hs].
  pose proof Hc as Hc'. apply N.ltb_lt in Hc'.
  cbn [map utf8_lossy]. rewrite N_of_byte_of_N by lia. rewrite Hc. f_equal. apply IH. exact Hs.
Qed.

Lemma byte_eqb_low c b : c < 128 -> 128 <= N_of_byte b -> byte_eqb (byte_of_N c) b = false.
Proof.
  intros Hc Hb. apply byte_eqb_neq. intro E. subst b. rewrite N_of_byte_of_N in Hb by lia. lia.
Qed.

Theorem decode_title_bytes s : Forall scalar s -> decode_title (title_bytes s) = Some s.
Proof.
  intro Hs. unfold title_bytes. destruct (is_ascii s) eqn:A.
  - pose proof (utf8_lossy_ascii s A) as U.
    destruct s as [|c [|c' s']]; try (unfold decode_title; cbn [map]; cbn [map] in U; rewrite U; reflexivity).
    unfold is_ascii in A. cbn [forallb] in A. apply andb_true_iff in A. destruct A as [Ac A].
    apply N.ltb_lt in Ac.
    cbn [map] in *. unfold decode_title.
    rewrite (byte_eqb_low c xfe) by (cbv; try lia; discriminate || exact Ac).
    rewrite (byte_eqb_low c xff) by (cbv; try lia; discriminate || exact Ac).
    cbn [andb]. rewrite U. reflexivity.
  - fold (body s). unfold decode_title.
    change (byte_eqb xfe xfe && byte_eqb xff xff) with true. cbv iota.
    cbn [length]. rewrite Nat.odd_succ_succ, body_even.
    rewrite units_be_body, utf16_lossy_rt by exact Hs. reflexivity.
Qed.

Corollary title_bytes_inj s t : Forall scalar s -> Forall scalar t -> title_bytes s = title_bytes t -> s = t.
Proof.
  intros Hs Ht E. pose proof (decode_title_bytes s Hs) as A. rewrite E, (decode_title_bytes t Ht) in A.
  inversion A. reflexivity.
Qed.
