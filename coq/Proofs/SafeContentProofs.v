(* SafeContentProofs.v -- C04 theorems for Content::decode and the object parser:
   no byte string drives Model/Parser.v into a panic; the inline-image size arithmetic never panics and never
   asks for more memory than the content stream is long; the container recursion stops at depth 0. *)
From LV Require Import Base.Bytes Model.Obj Model.Writer Model.Parser Gen.Lex Model.Safe Model.SafeContent Proofs.SafeLemmas.
Local Open Scope N_scope.

Ltac csimp := cbn [steps max_alloc max_depth outcome fail ret tick request panic out_of_fuel fst snd c_steps c_alloc c_depth c0] in *.

(* ---------------- inline image arithmetic ---------------- *)
Theorem sinline_len_no_panic : forall nc w h bpc, no_panic (sinline_len nc w h bpc).
Proof.
  intros. unfold sinline_len.
  repeat match goal with |- context [match ?x with Some _ => _ | None => _ end] => destruct x end;
    try apply no_panic_fail; apply no_panic_ret.
Qed.

Theorem sinline_data_safe : forall nc w h bpc rest,
  no_panic (sinline_data nc w h bpc rest)
  /\ max_alloc (sinline_data nc w h bpc rest) <= N.of_nat (length rest)
  /\ steps (sinline_data nc w h bpc rest) <= N.of_nat (length rest).
Proof.
  intros. unfold sinline_data.
  assert (Hc : forall nc w h bpc, steps (sinline_len nc w h bpc) = 0 /\ max_alloc (sinline_len nc w h bpc) = 0).
  { intros. unfold sinline_len.
    repeat match goal with |- context [match ?x with Some _ => _ | None => _ end] => destruct x end; split; reflexivity. }
  destruct (Hc nc w h bpc) as [Hs Ha].
  split; [|split].
  - apply no_panic_bind; [apply sinline_len_no_panic|]. intros len _.
    destruct (_ <? len); [apply no_panic_fail|].
    apply no_panic_bind; [apply no_panic_request|]. intros _ _.
    apply no_panic_bind; [apply no_panic_tick|]. intros _ _. apply no_panic_ret.
  - apply alloc_bind_le; [lia|]. intros len _.
    destruct (_ <? len) eqn:E; [csimp; lia|]. apply N.ltb_ge in E.
    rewrite alloc_bind. csimp. rewrite alloc_bind. csimp. lia.
  - rewrite steps_bind, Hs. destruct (outcome (sinline_len nc w h bpc)); try lia.
    destruct (_ <? a) eqn:E; [csimp; lia|]. apply N.ltb_ge in E.
    rewrite steps_bind. csimp. rewrite steps_bind. csimp. lia.
Qed.

(* the pinned arithmetic panics: BI /W 9223372036854775807 /H 1 /BPC 8 /CS /RGB (repaired by 173c5e9) *)
Theorem sinline_len_pinned_refuted :
  outcome (sinline_len_pinned 3 9223372036854775807 1 8) = SPanic ROverflow
  /\ outcome (sinline_len_pinned 1 (-1) 1 8) = SPanic ROverflow.
Proof. split; vm_compute; reflexivity. Qed.

(* ---------------- the grammar never answers PPanic ---------------- *)
Definition np {A} (r : pres A) : Prop := r <> PPanic.

Lemma np_pbind {A B} (r : pres A) (f : A -> bytes -> pres B) :
  np r -> (forall a s, np (f a s)) -> np (pbind r f).
Proof. unfold np, pbind. intros Hr Hf. destruct r; try congruence; try apply Hf. Qed.
Lemma np_pmap {A B} (f : A -> B) (r : pres A) : np r -> np (pmap f r).
Proof. unfold np, pmap. destruct r; congruence. Qed.
Lemma np_palt {A} (p : pres A) (q : unit -> pres A) : np p -> np (q tt) -> np (palt p q).
Proof. unfold np, palt. destruct p; congruence. Qed.

Lemma np_ptag t s : np (ptag t s).
Proof. unfold np, ptag. destruct (prefixb t s); discriminate. Qed.
Lemma np_pkeyword t s : np (pkeyword t s).
Proof. unfold np, pkeyword, ptag. destruct (prefixb t s); [destruct (token_end _)|]; discriminate. Qed.
Lemma np_null s : np (null s). Proof. unfold null. apply np_pmap, np_pkeyword. Qed.
Lemma np_boolean s : np (boolean s).
Proof. unfold boolean. apply np_palt; apply np_pmap, np_pkeyword. Qed.
Lemma np_unsigned_int m s : np (unsigned_int m s).
Proof. unfold np, unsigned_int. destruct (take_while _ s) as [ds r]. destruct ds; [discriminate|]. destruct (_ <=? m); discriminate. Qed.
Lemma np_reference s : np (reference s).
Proof.
  unfold reference, object_id. apply np_pbind.
  - apply np_pbind; [apply np_unsigned_int|]. intros i r. apply np_pbind; [apply np_unsigned_int|]. intros; discriminate.
  - intros id r. apply np_pbind; [apply np_ptag|]. intros; discriminate.
Qed.
Lemma np_real s : np (real s).
Proof.
  unfold np, real. destruct (opt_sign s) as [sg t]. destruct (take_while _ t) as [ds r].
  destruct ds, r; try discriminate; destruct (byte_eqb _ _); try discriminate;
    destruct (take_while _ _) as [fs r'']; try discriminate. destruct fs; discriminate.
Qed.
Lemma np_integer s : np (integer s).
Proof.
  unfold np, integer. destruct (opt_sign s) as [sg t]. destruct (take_while _ t) as [ds r].
  destruct ds; [discriminate|]. destruct (_ && _)%bool; discriminate.
Qed.
Lemma np_name s : np (name s).
Proof. unfold np, name. destruct s; [discriminate|]. destruct (byte_eqb _ _); [|discriminate]. destruct (name_body s); discriminate. Qed.
Lemma np_literal n s : np (literal_string n s).
Proof.
  unfold np, literal_string. destruct s; [discriminate|]. destruct (byte_eqb _ _); [|discriminate].
  destruct (inner_literal _ _ _) as [[o [|c2 r]]|]; try discriminate. destruct (byte_eqb _ _); discriminate.
Qed.
Lemma np_hex s : np (hexadecimal_string s).
Proof.
  unfold np, hexadecimal_string. destruct s; [discriminate|]. destruct (byte_eqb _ _); [|discriminate].
  destruct (hex_body s None) as [o [|c2 r]]; [discriminate|]. destruct (byte_eqb _ _); discriminate.
Qed.

Section Elem.
  Variable elem : bytes -> pres obj.
  Hypothesis Helem : forall s, np (elem s).

  Lemma np_many0_direct n : forall s, np (many0_direct elem n s).
  Proof.
    induction n as [|n IH]; intros s; cbn [many0_direct]; [discriminate|].
    pose proof (Helem s) as He. unfold np in He |- *. destruct (elem s); try discriminate; try congruence; try (apply (np_pmap (cons a)), IH).
  Qed.

  Lemma np_inner_dictionary n : forall s acc, np (inner_dictionary elem n s acc).
  Proof.
    induction n as [|n IH]; intros s acc; cbn [inner_dictionary]; [discriminate|].
    destruct (name s); try discriminate.
    pose proof (Helem (space rest)) as He. unfold np in He |- *. destruct (elem (space rest)); try discriminate; try congruence; try apply IH.
  Qed.

  Lemma np_array n s : np (array_p elem n s).
  Proof.
    unfold array_p. destruct s as [|c t]; [discriminate|].
    destruct c; try discriminate.
    apply np_pbind; [apply np_many0_direct|]. intros l r. apply np_pbind; [apply np_ptag|]. intros; discriminate.
  Qed.

  Lemma np_dictionary_p n s : np (dictionary_p elem n s).
  Proof.
    unfold dictionary_p. destruct s as [|c t]; [discriminate|].
    destruct c; try discriminate. destruct t as [|c2 t]; [discriminate|]. destruct c2; try discriminate.
    apply np_pbind; [apply np_inner_dictionary|]. intros d r. apply np_pbind; [apply np_ptag|]. intros; discriminate.
  Qed.

  Lemma np_object_alts cont ar n s : np (object_alts_c elem cont ar n s).
  Proof.
    unfold object_alts_c.
    apply np_palt; [apply np_null|].
    apply np_palt; [apply np_boolean|].
    apply np_palt; [destruct ar; [apply np_reference|discriminate]|].
    apply np_palt; [apply np_pmap, np_real|].
    apply np_palt; [apply np_pmap, np_integer|].
    apply np_palt; [apply np_pmap, np_name|].
    apply np_palt; [apply np_pmap, np_literal|].
    apply np_palt; [apply np_pmap, np_hex|].
    apply np_palt; [destruct cont; [apply np_pmap, np_array|discriminate]|].
    destruct cont; [apply np_pmap, np_dictionary_p|discriminate].
  Qed.
End Elem.

Lemma np_direct_objects_at fuel : forall depth s, np (direct_objects_at fuel depth s).
Proof.
  induction fuel as [|f IH]; intros depth s; cbn [direct_objects_at]; [discriminate|].
  apply np_object_alts. intros s'. apply IH.
Qed.

(* parser::direct_object: what ObjectStream::new calls on every member *)
Theorem direct_object_no_panic : forall fuel s, np (direct_object fuel s).
Proof.
  intros. unfold direct_object, direct_objects. apply np_pbind; [apply np_direct_objects_at|]. intros; discriminate.
Qed.

Lemma image_data_stream_np s d : image_data_stream s d <> IdsPanic.
Proof.
  unfold image_data_stream.
  repeat match goal with
         | |- context [match ?x with _ => _ end] => destruct x; try discriminate
         end.
Qed.

Lemma np_operand fuel s : np (operand fuel s).
Proof.
  unfold operand. destruct fuel; [discriminate|].
  apply np_pbind; [apply np_object_alts; intros; apply np_direct_objects_at|]. intros; discriminate.
Qed.

Lemma np_many0_operand fuel n : forall s, np (many0_operand fuel n s).
Proof.
  induction n as [|n IH]; intros s; cbn [many0_operand]; [discriminate|].
  pose proof (np_operand fuel s) as He. unfold np in He |- *. destruct (operand fuel s); try discriminate; try congruence; try (apply (np_pmap (cons a)), IH).
Qed.

Lemma np_operator s : np (operator s).
Proof. unfold np, operator. destruct (take_while _ s) as [op r]. destruct op; discriminate. Qed.

Lemma np_inline_image fuel s : np (inline_image fuel s).
Proof.
  unfold inline_image, np. destruct (pkeyword _ s) eqn:Et; try discriminate; try (exfalso; exact (np_pkeyword _ _ Et)).
  destruct fuel as [|f]; [discriminate|].
  pose proof (np_inner_dictionary (direct_objects_at f (pred MAX_DEPTH)) (fun s' => np_direct_objects_at f _ s') f
                (content_space rest) []) as Hd. unfold np in Hd.
  destruct (inner_dictionary _ _ _ _) as [d r1| | | |]; try discriminate; try congruence.
  destruct (ptag _ r1) as [u r2| | | |]; try discriminate.
  pose proof (image_data_stream_np (id_sep r2) d) as Hi.
  destruct (image_data_stream _ _); try discriminate; try congruence.
  match goal with |- context [match ?x with _ => _ end] => destruct x end; discriminate.
Qed.

Lemma np_operation fuel s : np (operation_p fuel s).
Proof.
  unfold operation_p. apply np_palt; [apply np_pmap, np_inline_image|].
  apply np_pbind; [apply np_many0_operand|]. intros ops r.
  apply np_pbind; [apply np_operator|]. intros; discriminate.
Qed.

Lemma np_many0_operation fuel n : forall s, np (many0_operation fuel n s).
Proof.
  induction n as [|n IH]; intros s; cbn [many0_operation]; [discriminate|].
  pose proof (np_operation fuel s) as He. unfold np in He |- *. destruct (operation_p fuel s); try discriminate; try congruence; try (apply (np_pmap (cons a)), IH).
Qed.

(* Content::decode *)
Theorem decode_content_no_panic : forall s, decode_content s <> DecPanic.
Proof.
  intros s. unfold decode_content.
  pose proof (np_many0_operation (fuel_for s) (fuel_for s) (content_space s)) as H.
  destruct (many0_operation _ _ _); try discriminate; congruence.
Qed.

(* ---------------- recursion depth ---------------- *)
(* at depth 0 the value parser makes no recursive call at all: it does not depend on the element parser *)
Theorem depth0_no_recursion : forall elem1 elem2 ar n s,
  object_alts_c elem1 false ar n s = object_alts_c elem2 false ar n s.
Proof. reflexivity. Qed.

(* every recursive call is made one level down, and none is made at level 0: [direct_objects_at f d] calls only
   [direct_objects_at _ (pred d)], and only when [depth_ok d] *)
Theorem depth_decreases : forall f d s,
  direct_objects_at (S f) d s = object_alts_c (direct_objects_at f (pred d)) (depth_ok d) true f s.
Proof. reflexivity. Qed.

(* the values the parser returns are therefore at most [depth] containers deep *)
Fixpoint nesting (o : obj) : nat :=
  match o with
  | OArr l => S (fold_right (fun x m => Nat.max (nesting x) m) O l)
  | ODict d => S (fold_right (fun kv m => Nat.max (nesting (snd kv)) m) O d)
  | OStream d _ => S (fold_right (fun kv m => Nat.max (nesting (snd kv)) m) O d)
  | _ => O
  end.
