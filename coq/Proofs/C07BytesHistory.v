(* C07BytesHistory.v -- C07, byte level, part 3: the corollaries.
     inc_table_good_nums      Theorem C (table) with the hypothesis phrased on the loaded objects only
     created_frame / created_upd_dom   the update document built by create_from + the modelled edits meets the trailer
                              part of the domain by construction (Prev, no XRefStm, no Encrypt, binary mark, max_id)
     inc_table_step_created   Theorem C for such an update
     inc_save_reload_table    save, load, create_from, edit, inc_save, load (table format): every field of the result
     lopdf_history            a saved file (EITHER cross-reference format) followed by ANY NUMBER of incremental saves,
                              each made from the previous file bytes and from what load returned for them
     history_good / history_loads   every file of a history satisfies the invariant of C07Bytes.v (a chain of k
                              well-formed revisions whose merged table maps each number to the exact offset of the object
                              in the newest revision defining it), hence loads, with objects = the fold of the overlays
                              -- and can therefore be updated again
     history_edit_step        an update made through the modelled API is a step of a history, no trailer hypothesis
     inc_save_reload          save, load, create_from, edit, inc_save, load, either format *)
From LV Require Import Base.Bytes Base.Sx Model.Obj Model.DocQ Model.Writer Model.Parser Model.Save Model.Xref Model.Loader
  Model.Incremental Model.Utf Gen.Lex Gen.SaveFmt Gen.Inc Proofs.IncrementalProofs Proofs.LexProofs Proofs.RealProofs
  Proofs.ObjectRtProofs Proofs.SaveProofs Proofs.FilterProofsDict Spec.SaveSpec Proofs.LoadProofs Proofs.LoadProofsFile
  Proofs.LoadProofsXref Proofs.LoadProofsTable Proofs.LoadProofsAgain Proofs.LoadProofsStream Proofs.LoadProofsFull
  Proofs.StrictLoadProofs Proofs.StrictRevisionProofs Proofs.StrictIncrementalProofs Proofs.C07Bytes Proofs.C07BytesTable Proofs.C07BytesStream.

Local Open Scope N_scope.

Theorem inc_table_good_nums F v m xs xt entries t objs s :
  good_file F v m xs xt entries t objs ->
  i_bytes s = F -> xd_type (i_prev s) = XTable ->
  let nd := xd_doc (i_new s) in
  upd_dom xs nd ->
  Save.blen (io_bytes (inc_save s)) < u32_mod ->
  Forall (fun io : oid * obj => In (fst io) (map fst objs) \/ ~ In (fst (fst io)) (obj_numbers objs)) (d_objects nd) ->
  io_status (inc_save s) = IncOk /\
  good_file (io_bytes (inc_save s)) v m (io_start (inc_save s)) XTTable
            (fold_left xins (conv_map (rev_xmap nd (Save.blen (F ++ inc_lines nd)))) entries)
            (new_trailer nd)
            (Incremental.overlay objs (norm_objects (d_objects nd))).
Proof.
  intros G Hb Ht nd Hu Hlen Hids. apply (inc_table_good_ids F v m xs xt entries t objs s G Hb Ht Hu Hlen).
  rewrite (obj_at_keys _ _ _ (gf_objs _ _ _ _ _ _ _ _ G [])). exact Hids.
Qed.

(* ====================================================================================== *)
(* version and binary mark of the new document survive the modelled edits                  *)
(* ====================================================================================== *)
Definition same_head (s s' : incdoc) : Prop :=
  d_binary_mark (xd_doc (i_new s')) = d_binary_mark (xd_doc (i_new s)) /\
  d_version (xd_doc (i_new s')) = d_version (xd_doc (i_new s)) /\
  d_max_id (xd_doc (i_new s)) <= d_max_id (xd_doc (i_new s')).      (* max_id never goes down *)

Lemma same_head_refl s : same_head s s.
Proof. split; [reflexivity|]. split; [reflexivity | apply N.le_refl]. Qed.
Lemma same_head_trans a b c : same_head a b -> same_head b c -> same_head a c.
Proof. intros [A1 [A2 A3]] [B1 [B2 B3]]. split; [congruence|]. split; [congruence | eapply N.le_trans; eassumption]. Qed.

Lemma set_new_objects_head s m : same_head s (set_new_objects s m).
Proof. split; [reflexivity|]. split; [reflexivity | apply N.le_refl]. Qed.
Lemma set_object_head s id o : same_head s (set_object s id o).
Proof. apply set_new_objects_head. Qed.
Lemma add_object_head s o s' id : add_object s o = Some (s', id) -> same_head s s'.
Proof.
  unfold add_object. destruct (u32_top <=? d_max_id (xd_doc (i_new s))); [discriminate|].
  intro H. inversion H; subst. split; [reflexivity|]. split; [reflexivity|]. cbn [i_new xd_doc d_max_id]. lia.
Qed.
Lemma opt_clone_head s id s' : opt_clone s id = Some s' -> same_head s s'.
Proof.
  unfold opt_clone. destruct (lookup (new_objects s) id).
  - intro H; inversion H; subst. apply same_head_refl.
  - destruct (get_object (prev_objects s) id); [|discriminate].
    intro H; inversion H; subst. apply set_object_head.
Qed.
Lemma get_or_create_resources_head s page : same_head s (fst (get_or_create_resources s page)).
Proof.
  unfold get_or_create_resources, get_or_create_resources_with.
  destruct (opt_clone s page) as [s1|] eqn:H1; [|apply same_head_refl].
  apply opt_clone_head in H1.
  destruct (get_object (new_objects s1) page) as [[| | | | | | |pd| |]|]; try exact H1.
  destruct (if dict_has pd K_Resources
            then match dict_get pd K_Resources with Some (ORef i g) => Some (i, g) | _ => None end
            else None) as [rid|].
  - destruct (opt_clone s1 rid) as [s2|] eqn:H2; [|exact H1].
    apply opt_clone_head in H2.
    destruct (get_object_mut_id (new_objects s2) rid); cbn [fst]; eapply same_head_trans; eauto.
  - destruct (get_object_mut_id (new_objects s1) page) as [t|]; [|exact H1].
    destruct (lookup (new_objects s1) t) as [[| | | | | | |td| |]|]; try exact H1.
    cbn [fst]. destruct (dict_has td K_Resources); [exact H1|].
    eapply same_head_trans; [exact H1|apply set_new_objects_head].
Qed.
Lemma add_xobject_head s page name xid : same_head s (fst (add_xobject s page name xid)).
Proof.
  unfold add_xobject.
  pose proof (get_or_create_resources_head s page) as H0.
  destruct (get_or_create_resources s page) as [s1 [rp|]]; cbn [fst] in H0; [|exact H0].
  destruct (place_get (new_objects s1) rp) as [[| | | | | | |rd| |]|]; try exact H0.
  set (rd1 := if dict_has rd K_XObject then rd else dict_set rd K_XObject (ODict [])).
  destruct (dict_get rd1 K_XObject) as [[| | | | | | |xd| |i g]|]; cbn [fst];
    try (eapply same_head_trans; [exact H0|apply set_new_objects_head]).
  destruct (get_object (place_set (new_objects s1) rp (ODict rd1)) (i, g)); cbn [fst];
    [|eapply same_head_trans; [exact H0|apply set_new_objects_head]].
  destruct (get_object_mut_id (place_set (new_objects s1) rp (ODict rd1)) (i, g)) as [t|]; cbn [fst];
    [|eapply same_head_trans; [exact H0|apply set_new_objects_head]].
  destruct (lookup (place_set (new_objects s1) rp (ODict rd1)) t) as [[| | | | | | |xd| |]|]; cbn [fst];
    try (eapply same_head_trans; [exact H0|apply set_new_objects_head]).
  eapply same_head_trans; [exact H0|].
  eapply same_head_trans; apply set_new_objects_head.
Qed.

Lemma apply_edit_head s e : same_head s (apply_edit s e).
Proof.
  destruct e; cbn [apply_edit].
  - apply set_object_head.
  - destruct (add_object s o) as [[s' id]|] eqn:H; [eapply add_object_head; exact H|apply same_head_refl].
  - destruct (opt_clone s id) eqn:H; [eapply opt_clone_head; exact H|apply same_head_refl].
  - apply get_or_create_resources_head.
  - apply add_xobject_head.
Qed.

Lemma fold_edits_head : forall edits s0, same_head s0 (fold_left apply_edit edits s0).
Proof.
  induction edits as [|e es IH]; intro s0; cbn [fold_left]; [apply same_head_refl|].
  eapply same_head_trans; [apply apply_edit_head|apply IH].
Qed.

(* what create_from + edits fix, whatever the edits are *)
Lemma created_frame prev_bytes prev edits :
  let s := fold_left apply_edit edits (create_from prev_bytes prev) in
  i_bytes s = prev_bytes /\ i_prev s = prev /\
  d_trailer (xd_doc (i_new s)) = dict_set (d_trailer (xd_doc prev)) Save.K_Prev (OInt (Z.of_N (xd_start prev))) /\
  d_binary_mark (xd_doc (i_new s)) = INC_BINARY_MARK /\
  d_max_id (xd_doc prev) <= d_max_id (xd_doc (i_new s)).
Proof.
  intro s. destruct (fold_edits_same edits (create_from prev_bytes prev)) as (H1 & H2 & H3 & _).
  destruct (fold_edits_head edits (create_from prev_bytes prev)) as [H5 [_ H6]].
  fold s in H1, H2, H3, H5, H6. split; [exact H1|]. split; [exact H2|]. split; [exact H3|]. split; [exact H5 | exact H6].
Qed.

(* the trailer part of [upd_dom] holds by construction *)
Lemma created_upd_dom F v m xs xt entries t objs pd fmt edits :
  good_file F v m xs xt entries t objs -> d_trailer pd = t ->
  let s := fold_left apply_edit edits (create_from F {| xd_doc := pd; xd_start := xs; xd_type := fmt |}) in
  let nd := xd_doc (i_new s) in
  rev_dom nd -> known_deep nd = false -> upd_dom xs nd.
Proof.
  intros G Ht s nd Hr K.
  destruct (created_frame F {| xd_doc := pd; xd_start := xs; xd_type := fmt |} edits) as (H1 & H2 & H3 & H4 & _).
  fold s in H1, H2, H3, H4. fold nd in H3, H4. cbn [xd_doc xd_start] in H3. rewrite Ht in H3.
  constructor.
  - exact Hr.
  - exact K.
  - rewrite H4. reflexivity.
  - rewrite H3. apply dict_get_set_same.
  - rewrite H3. rewrite dict_get_set_other by discriminate. apply (gf_no_stm _ _ _ _ _ _ _ _ G).
  - unfold dict_has. rewrite H3. rewrite dict_get_set_other by discriminate.
    pose proof (gf_no_enc _ _ _ _ _ _ _ _ G) as He. change Loader.K_Encrypt with Save.K_Encrypt in He.
    rewrite (dict_has_false_get _ _ He). reflexivity.
Qed.

(* ---------- the update made by lopdf from a loaded good file ---------- *)
Theorem inc_table_step_created F v m xs xt entries t objs pd edits :
  good_file F v m xs xt entries t objs ->
  d_trailer pd = t ->                                   (* pd is what load returned for F *)
  let s := fold_left apply_edit edits (create_from F {| xd_doc := pd; xd_start := xs; xd_type := XTable |}) in
  let nd := xd_doc (i_new s) in
  rev_dom nd -> known_deep nd = false ->
  Save.blen (io_bytes (inc_save s)) < u32_mod ->
  Forall (fun io : oid * obj => In (fst io) (map fst objs) \/ ~ In (fst (fst io)) (obj_numbers objs)) (d_objects nd) ->
  io_status (inc_save s) = IncOk /\
  good_file (io_bytes (inc_save s)) v m (io_start (inc_save s)) XTTable
            (fold_left xins (conv_map (rev_xmap nd (Save.blen (F ++ inc_lines nd)))) entries)
            (new_trailer nd)
            (Incremental.overlay objs (norm_objects (d_objects nd))).
Proof.
  intros G Ht s nd Hr K Hlen Hids.
  destruct (created_frame F {| xd_doc := pd; xd_start := xs; xd_type := XTable |} edits) as (H1 & H2 & _).
  fold s in H1, H2.
  apply (inc_table_good_nums F v m xs xt entries t objs s G H1); [rewrite H2; reflexivity | | exact Hlen | exact Hids].
  apply (created_upd_dom F v m xs xt entries t objs pd XTable edits G Ht Hr K).
Qed.

(* ====================================================================================== *)
(* save, load, create_from, edit, inc_save, load                                           *)
(* ====================================================================================== *)
Lemma saved_good d :
  savable d -> known_deep d = false -> small_file XTable d -> dict_get (d_trailer d) K_XRefStm = None ->
  good_file (so_bytes (save XTable d)) (d_version d) (d_binary_mark d) (Save.blen (body_of d)) XTTable
            (conv_map (rev_xmap (raise_max_id d) (hm_len d))) (d_trailer (reloaded XTable d)) (d_objects (reloaded XTable d)).
Proof.
  intros S K Hs Hstm. pose proof (savable_written d S) as Sc. rewrite (written_savable d S) in Sc.
  unfold reloaded. rewrite (written_savable d S).
  apply (saved_table_good (raise_max_id d) Sc); [exact K | exact Hs | exact Hstm].
Qed.

Definition table_after (d : doc) (nd : doc) : Xref.xmap :=
  fold_left xins (conv_map (rev_xmap nd (Save.blen (so_bytes (save XTable d) ++ inc_lines nd))))
            (conv_map (rev_xmap (raise_max_id d) (hm_len d))).

Theorem inc_save_reload_table d edits :
  savable d -> known_deep d = false -> small_file XTable d -> dict_get (d_trailer d) K_XRefStm = None ->
  let F := so_bytes (save XTable d) in
  let prev := {| xd_doc := reloaded XTable d; xd_start := Save.blen (body_of d); xd_type := XTable |} in
  let s := fold_left apply_edit edits (create_from F prev) in
  let nd := xd_doc (i_new s) in
  rev_dom nd -> known_deep nd = false -> Save.blen (io_bytes (inc_save s)) < u32_mod ->
  Forall (fun io : oid * obj => In (fst io) (map fst (d_objects (SaveSpec.written d))) \/
                                ~ In (fst (fst io)) (obj_numbers (d_objects (SaveSpec.written d)))) (new_objects s) ->
  io_status (inc_save s) = IncOk /\
  load (io_bytes (inc_save s)) =
  LOk {| d_version := d_version d; d_binary_mark := d_binary_mark d; d_trailer := new_trailer nd;
         d_objects := Incremental.overlay (norm_objects (d_objects (SaveSpec.written d))) (norm_objects (new_objects s));
         d_max_id := xmap_max (table_after d nd) |} XTTable.
Proof.
  intros S K Hs Hstm F prev s nd Hr Kn Hlen Hids.
  pose proof (saved_good d S K Hs Hstm) as G.
  assert (Hobjs : d_objects (reloaded XTable d) = norm_objects (d_objects (SaveSpec.written d))) by reflexivity.
  destruct (inc_table_step_created F _ _ _ _ _ _ _ (reloaded XTable d) edits G eq_refl Hr Kn Hlen) as [Hst G'].
  { rewrite Hobjs. unfold norm_objects at 1. rewrite map_map. cbn [fst]. rewrite obj_numbers_norm. exact Hids. }
  split; [exact Hst|]. rewrite Hobjs in G'. exact (good_file_loads _ _ _ _ _ _ _ _ G').
Qed.

(* ====================================================================================== *)
(* ANY NUMBER of updates, either format                                                    *)
(* ====================================================================================== *)
(* a saved file of either format is a good file whose trailer / objects are those of [reloaded] *)
Lemma saved_good_gen fmt d :
  savable d -> known_deep d = false -> small_file fmt d -> dict_get (d_trailer d) K_XRefStm = None ->
  exists entries,
    good_file (so_bytes (save fmt d)) (d_version d) (d_binary_mark d) (Save.blen (body_of d)) (xtype_of fmt)
              entries (d_trailer (reloaded fmt d)) (d_objects (reloaded fmt d)).
Proof.
  intros S K Hs Hstm. destruct fmt.
  - eexists. apply (saved_good d S K Hs Hstm).
  - pose proof (savable_written d S) as Sc. rewrite (written_savable d S) in Sc.
    pose proof (saved_stream_good (raise_max_id d) Sc K Hs Hstm) as G.
    pose proof (good_file_loads _ _ _ _ _ _ _ _ G) as L1.
    assert (L2 : load (so_bytes (save XStream d)) = LOk (reloaded XStream d) XTStream).
    { apply (load_save_gen XStream d); [apply savable_written; exact S | rewrite known_deep_written by exact S; exact K | exact Hs]. }
    change (so_bytes (save_core XStream (raise_max_id d))) with (so_bytes (save XStream d)) in L1.
    rewrite L2 in L1.
    pose proof (f_equal (fun r => match r with LOk x _ => d_trailer x | _ => [] end) L1) as Et.
    pose proof (f_equal (fun r => match r with LOk x _ => d_objects x | _ => [] end) L1) as Eo.
    cbn beta iota in Et, Eo. cbn [loaded d_trailer d_objects] in Et, Eo.
    eexists. cbn [xtype_of]. rewrite Et, Eo. exact G.
Qed.

(* what the loader returns after an update: the new objects over the previous ones; in the stream format also the
   new cross-reference stream object (number max_id + 1), which the loader keeps among the objects *)
Definition step_objs (fmt : xref_type) (objs : objmap) (nd : doc) (pos0 : N) : objmap :=
  match fmt with
  | XTable => Incremental.overlay objs (norm_objects (d_objects nd))
  | XStream => Incremental.overlay objs (norm_objects (d_objects nd)) ++ [xso nd pos0]
  end.

(* A history: a file written by Document::save (either cross-reference format), then any number of
   IncrementalDocument::save, each one made from the bytes of the previous file and from the document, the xref_start
   and the cross-reference type the loader returned for those bytes.
   [lopdf_history F xs fmt objs]: F is the newest file, xs its startxref value, objs the objects it must load to. *)
Inductive lopdf_history : bytes -> N -> xref_type -> objmap -> Prop :=
| hist_save fmt d :
    savable d -> known_deep d = false -> small_file fmt d -> dict_get (d_trailer d) K_XRefStm = None ->
    lopdf_history (so_bytes (save fmt d)) (Save.blen (body_of d)) fmt (d_objects (reloaded fmt d))
| hist_update F xs fmt objs pd s :
    lopdf_history F xs fmt objs ->
    load F = LOk pd (xtype_of fmt) ->                                        (* Document::load_mem on the previous bytes *)
    i_bytes s = F -> i_prev s = {| xd_doc := pd; xd_start := xs; xd_type := fmt |} ->
    upd_dom xs (xd_doc (i_new s)) ->
    d_max_id pd <= d_max_id (xd_doc (i_new s)) ->                            (* new_from_prev copies max_id, add_object raises it *)
    Save.blen (io_bytes (inc_save s)) < u32_mod ->
    Forall (fun io : oid * obj => In (fst io) (map fst (d_objects pd)) \/ ~ In (fst (fst io)) (obj_numbers (d_objects pd)))
           (d_objects (xd_doc (i_new s))) ->
    lopdf_history (io_bytes (inc_save s)) (io_start (inc_save s)) fmt
                  (step_objs fmt objs (xd_doc (i_new s)) (Save.blen (F ++ inc_lines (xd_doc (i_new s))))).

Lemma good_file_start F v m xs xt entries t objs : good_file F v m xs xt entries t objs -> get_xref_start F = Some xs.
Proof. intro G. destruct (gf_tail _ _ _ _ _ _ _ _ G) as [front [Et [H1 [H2 H3]]]]. rewrite Et. apply get_xref_start_rt; assumption. Qed.

Theorem history_good F xs fmt objs :
  lopdf_history F xs fmt objs -> exists v m entries t, good_file F v m xs (xtype_of fmt) entries t objs.
Proof.
  induction 1 as [fmt d S K Hs Hstm | F xs fmt objs pd s H IH Hload Hb Hprev Hu Hmx Hlen Hids].
  - destruct (saved_good_gen fmt d S K Hs Hstm) as [entries G]. do 4 eexists. exact G.
  - destruct IH as [v [m [entries [t G]]]].
    rewrite (good_file_loads _ _ _ _ _ _ _ _ G) in Hload. inversion Hload; subst pd. cbn [loaded d_objects d_max_id] in Hids, Hmx.
    assert (Hty : xd_type (i_prev s) = fmt) by (rewrite Hprev; reflexivity).
    destruct fmt; cbn [step_objs xtype_of].
    + destruct (inc_table_good_nums F v m xs _ entries t objs s G Hb Hty Hu Hlen Hids) as [_ G']. do 4 eexists. exact G'.
    + destruct (inc_stream_good_nums F v m xs _ entries t objs s G Hb Hty Hu Hlen Hids Hmx) as [_ G']. do 4 eexists. exact G'.
Qed.

(* every file of a history loads, to the fold of the overlays; its startxref value is the one the next update uses *)
Theorem history_loads F xs fmt objs :
  lopdf_history F xs fmt objs ->
  get_xref_start F = Some xs /\
  exists v m t mx, load F = LOk {| d_version := v; d_binary_mark := m; d_trailer := t; d_objects := objs; d_max_id := mx |} (xtype_of fmt).
Proof.
  intro H. destruct (history_good F xs fmt objs H) as [v [m [entries [t G]]]]. split; [apply (good_file_start _ _ _ _ _ _ _ _ G)|].
  exists v, m, t, (xmap_max entries). apply (good_file_loads _ _ _ _ _ _ _ _ G).
Qed.

(* every update of a history succeeds *)
Theorem history_update_ok F xs fmt objs pd s :
  lopdf_history F xs fmt objs -> i_bytes s = F -> i_prev s = {| xd_doc := pd; xd_start := xs; xd_type := fmt |} ->
  upd_dom xs (xd_doc (i_new s)) -> Save.blen (io_bytes (inc_save s)) < u32_mod ->
  io_status (inc_save s) = IncOk.
Proof.
  intros H Hb Hprev Hu Hlen. destruct (history_good F xs fmt objs H) as [v [m [entries [t G]]]].
  destruct (good_file_offset _ _ _ _ _ _ _ _ G) as [Hoff [Hsep _]].
  pose proof (inc_save_shape_gen fmt s) as Hshape. cbv zeta in Hshape. rewrite Hb in Hshape.
  destruct (Hshape Hoff Hsep) as [Hst _]; try assumption; [rewrite Hprev; reflexivity | apply (ud_rev _ _ Hu) | apply (ud_mark _ _ Hu)].
Qed.

(* an update made through the modelled API (create_from + edits) from what load returned is a step of a history:
   Prev, XRefStm, Encrypt, the binary mark and max_id need no hypothesis *)
Theorem history_edit_step F xs fmt objs pd edits :
  lopdf_history F xs fmt objs ->
  load F = LOk pd (xtype_of fmt) ->
  let s := fold_left apply_edit edits (create_from F {| xd_doc := pd; xd_start := xs; xd_type := fmt |}) in
  let nd := xd_doc (i_new s) in
  rev_dom nd -> known_deep nd = false ->
  Save.blen (io_bytes (inc_save s)) < u32_mod ->
  Forall (fun io : oid * obj => In (fst io) (map fst (d_objects pd)) \/ ~ In (fst (fst io)) (obj_numbers (d_objects pd))) (d_objects nd) ->
  io_status (inc_save s) = IncOk /\
  lopdf_history (io_bytes (inc_save s)) (io_start (inc_save s)) fmt (step_objs fmt objs nd (Save.blen (F ++ inc_lines nd))).
Proof.
  intros H Hload s nd Hr K Hlen Hids.
  destruct (history_good F xs fmt objs H) as [v [m [entries [t G]]]].
  pose proof Hload as Hload'. rewrite (good_file_loads _ _ _ _ _ _ _ _ G) in Hload'. inversion Hload' as [Epd].
  destruct (created_frame F {| xd_doc := pd; xd_start := xs; xd_type := fmt |} edits) as (H1 & H2 & _ & _ & H5).
  fold s in H1, H2, H5. fold nd in H5. cbn [xd_doc] in H5.
  assert (Hu : upd_dom xs nd).
  { apply (created_upd_dom F v m xs _ entries t objs pd fmt edits G); [rewrite <- Epd; reflexivity | exact Hr | exact K]. }
  split.
  - apply (history_update_ok F xs fmt objs pd s H H1 H2 Hu Hlen).
  - apply (hist_update F xs fmt objs pd s H Hload H1 H2 Hu H5 Hlen Hids).
Qed.

(* save (either format), load, create_from, edit, inc_save, load *)
Theorem inc_save_reload fmt d edits :
  savable d -> known_deep d = false -> small_file fmt d -> dict_get (d_trailer d) K_XRefStm = None ->
  let F := so_bytes (save fmt d) in
  let prev := {| xd_doc := reloaded fmt d; xd_start := Save.blen (body_of d); xd_type := fmt |} in
  let s := fold_left apply_edit edits (create_from F prev) in
  let nd := xd_doc (i_new s) in
  rev_dom nd -> known_deep nd = false -> Save.blen (io_bytes (inc_save s)) < u32_mod ->
  Forall (fun io : oid * obj => In (fst io) (map fst (d_objects (reloaded fmt d))) \/
                                ~ In (fst (fst io)) (obj_numbers (d_objects (reloaded fmt d)))) (new_objects s) ->
  io_status (inc_save s) = IncOk /\
  exists v m t mx,
    load (io_bytes (inc_save s)) =
    LOk {| d_version := v; d_binary_mark := m; d_trailer := t;
           d_objects := step_objs fmt (d_objects (reloaded fmt d)) nd (Save.blen (F ++ inc_lines nd));
           d_max_id := mx |} (xtype_of fmt).
Proof.
  intros S K Hs Hstm F prev s nd Hr Kn Hlen Hids.
  pose proof (hist_save fmt d S K Hs Hstm) as Hh.
  assert (Hl : load F = LOk (reloaded fmt d) (xtype_of fmt)).
  { apply (load_save_gen fmt d); [apply savable_written; exact S | rewrite known_deep_written by exact S; exact K | exact Hs]. }
  destruct (history_edit_step F _ fmt _ (reloaded fmt d) edits Hh Hl Hr Kn Hlen Hids) as [Hst Hh'].
  split; [exact Hst|]. apply (history_loads _ _ _ _ Hh').
Qed.

Print Assumptions inc_save_reload_table.
Print Assumptions history_good.
Print Assumptions history_loads.
Print Assumptions history_edit_step.
Print Assumptions inc_save_reload.
