(* LoadsMultiMixedFull.v -- C02: the whole-file theorem for files of several cross-reference sections whose parts use
   EITHER format (Proofs/LoadsMultiMixed.v), in the property's own terms: the version and, for every identifier that is
   not the number of one of the cross-reference streams (file-structure objects, as in C02_full), the loaded object and
   [content a] agree by value -- none missing, none added, superseded definitions not delivered. *)
From LV Require Import Base.Bytes Base.Sx Model.Obj Model.Writer Model.Parser Model.Xref Model.ObjStm Model.Loader Model.Utf Gen.Lex
  Spec.XrefSpec Spec.RefWriter Proofs.LoadsFrameProofs Proofs.LoadsTableProofs Proofs.LoadsStreamProofs Proofs.LoadsRefLenProofs.
From LV Require Import Model.LoaderExt Proofs.LoaderExtProofs Proofs.LoadsFilterProofs Proofs.LoadsFullProofs.
From LV Require Proofs.LoadsMultiMixed Proofs.LoadsMultiFull.
From Coq Require Import Lia.
Local Open Scope N_scope.

Lemma ref_write_multi_xids st parts a file : s_ostms st = [] -> ref_write_multi st parts a = Some file ->
  NoDup (LoadsTableProofs.nums a ++ part_xids parts) /\ ~ In 0 (part_xids parts).
Proof.
  intros Hos H. unfold ref_write_multi in H. rewrite Hos in H. cbn [map app] in H.
  destruct (contains (bs "%PDF-") (s_junk st) || contains [x0d] (a_version a) || contains [x0a] (a_version a)); [discriminate H|].
  match type of H with (if negb (nodup_N ?l && _ && negb (mem_N 0 ?l)) then _ else _) = _ =>
    destruct (nodup_N l) eqn:E; [|cbn [andb negb] in H; discriminate H];
    destruct (mem_N 0 l) eqn:E0; [rewrite andb_false_r in H; cbn [negb] in H; discriminate H|] end.
  apply nodup_N_spec in E. split; [exact E|]. intro K.
  assert (mem_N 0 (map (fun io => fst (fst io)) (a_objs a) ++ part_xids parts) = true)
    by (apply LoadsMultiMixed.mem_N_In; apply in_or_app; right; exact K).
  congruence.
Qed.

Definition multi_dom_mixed (dec : dict -> bytes -> option (dict * bytes)) (can : dict -> bool)
           (st : fstyle) (parts : list mpart) (a : adoc) (file : bytes) : Prop :=
  s_ostms st = [] /\
  LoadsMultiMixed.parts_ok st a dec can (part_xids parts) parts (blen (RefWriter.header st (a_version a))) None [] 0 /\
  Forall (top_ok2 a) (LoadsTableProofs.tops st a) /\ utf8_decode (a_version a) <> None /\
  (dict_get (a_trailer a) RefWriter.K_Size = None /\ dict_get (a_trailer a) K_Prev = None /\
   dict_get (a_trailer a) K_Encrypt = None /\ dict_get (a_trailer a) K_XRefStm = None /\
   dict_get (a_trailer a) Xref.K_Index = None /\ dict_get (a_trailer a) K_Filter = None) /\
  1 + max_num (LoadsTableProofs.nums a ++ part_xids parts) <= u32_max /\ blen file <= u32_max /\
  match parts with p :: _ => 25 < LoadsMultiMixed.p_xpos st a p (blen (RefWriter.header st (a_version a))) | [] => True end.

Theorem loads_multi_mixed_full dec can st parts a file :
  multi_dom_mixed dec can st parts a file -> ref_write_multi st parts a = Some file ->
  exists d t, load_ext dec can file = LOk d t /\ d_version d = a_version a /\
    (forall id, In (fst id) (part_xids parts) \/ same_opt (lookup (d_objects d) id) (lookup (content a) id)) /\
    (forall k, In k [bs "Type"; bs "W"; bs "Index"; bs "Length"; bs "Filter"; bs "DecodeParms"] \/
               same_opt (dict_get (d_trailer d) k)
                        (dict_get (a_trailer a ++ [(bs "Size", OInt (Z.of_N (1 + max_num (LoadsTableProofs.nums a ++ part_xids parts))))]) k)).
Proof.
  intros [Hos [Hdom [Htops [Hu [Htr [Hn32 [Hlen H25]]]]]]] Hw.
  destruct (ref_write_multi_xids st parts a file Hos Hw) as [Hndx H0x].
  pose proof (NoDup_app_l _ _ Hndx) as Hnd.
  destruct (LoadsMultiMixed.loads_multi_mixed st a Hos dec can (part_xids parts) Hndx H0x Htops Htr Hn32 parts file Hu Hw Hlen Hdom H25 (fun n H => H))
    as [d [t [Hl [Hv [P1 [P2 [t0 [Et [[Hwf [d0 [y0 [Hw0 Hsrc]]]] Hsz]]]]]]]]].
  exists d, t. split; [exact Hl|]. split; [exact Hv|]. split.
  2:{ intro k.
      destruct (in_dec (list_eq_dec Byte.byte_eq_dec) k [bs "Type"; bs "W"; bs "Index"; bs "Length"; bs "Filter"; bs "DecodeParms"])
        as [Hin|Hnin]; [left; exact Hin|right].
      rewrite Et. destruct (list_eq_dec Byte.byte_eq_dec k K_Prev) as [->|Hne].
      - rewrite (FilterProofsDict.dict_get_swap_remove_same t0 K_Prev Hwf). rewrite dict_get_app_other by reflexivity.
        destruct Htr as [_ [Hp _]]. rewrite Hp. exact I.
      - rewrite (FilterProofsDict.dict_get_swap_remove_other t0 K_Prev k Hwf Hne).
        destruct (list_eq_dec Byte.byte_eq_dec k RefWriter.K_Size) as [->|Hns].
        + change Xref.K_Size with RefWriter.K_Size in Hsz. rewrite Hsz.
          change (bs "Size") with RefWriter.K_Size. rewrite dict_get_app_r by apply Htr. constructor.
        + assert (Hex : ~ In k LoadsMultiMixed.tr_excl).
          { intro K. unfold LoadsMultiMixed.tr_excl in K. cbn [In] in K. cbn [In] in Hnin.
            destruct K as [K|[K|[K|[K|[K|[K|[K|[K|[]]]]]]]]]; try (apply Hnin; tauto); [apply Hns|apply Hne]; symmetry; exact K. }
          rewrite dict_get_app_other.
          2:{ destruct (bytes_eqb (bs "Size") k) eqn:E; [|reflexivity]. apply bytes_eqb_eq in E. exfalso. apply Hns. symmetry. exact E. }
          destruct (Hsrc k Hex) as [S1 S2]. rewrite S1, <- S2. apply dict_get_denote_same.
          apply SpellingObjProofs.spell_wf_dict in Hw0. apply Hw0. }
  intro id.
  destruct (in_dec N.eq_dec (fst id) (part_xids parts)) as [Hs|Hs]; [left; exact Hs|right].
  destruct (lookup (content a) id) as [o'|] eqn:Ec.
  - destruct (content_lookup_some a id o' Ec) as [o [Hin ->]].
    set (tp := (id, o, find_istyle (s_objs st) (fst id))).
    assert (Htp : In tp (LoadsTableProofs.tops st a)) by (unfold LoadsTableProofs.tops; apply in_map_iff; exists (id, o); split; [reflexivity|exact Hin]).
    pose proof (P1 tp Htp) as Q. change (fst (fst tp)) with id in Q. rewrite Q.
    exact (top_same a tp (proj1 (Forall_forall _ _) Htops tp Htp)).
  - destruct (lookup (d_objects d) id) as [v|] eqn:El; [|exact I]. destruct (P2 id v El) as [[tp [Htp E]]|K]; [|contradiction].
    unfold LoadsTableProofs.tops in Htp. apply in_map_iff in Htp as [io [Eio Hio]]. subst tp. cbn [fst] in E.
    assert (Hin : In (id, snd io) (a_objs a)) by (rewrite <- E; destruct io; exact Hio).
    rewrite (content_lookup_in a id (snd io) Hnd Hin) in Ec. discriminate Ec.
Qed.
