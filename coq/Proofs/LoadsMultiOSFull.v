(* LoadsMultiOSFull.v -- C02: loads_multi_os in the property's own terms (the conclusion of C02_full / C02_loads_multi_objstm_partial:
   version; for every identifier that is not the number of a file-structure object -- an object-stream container or a
   cross-reference stream of any part -- loaded object and [content a] agree by value, none missing, none added, superseded
   definitions not delivered; the trailer agrees with the document's trailer plus Size outside the bookkeeping keys), and the
   union with the domains proved before (LoadsMultiAll.v). *)
From LV Require Import Base.Bytes Base.Sx Model.Obj Model.Writer Model.Parser Model.Xref Model.ObjStm Model.Loader Model.Utf Gen.Lex
  Spec.XrefSpec Spec.RefWriter Proofs.LoadsFrameProofs Proofs.LoadsTableProofs Proofs.LoadsStreamProofs Proofs.LoadsRefLenProofs.
From LV Require Import Model.LoaderExt Proofs.LoaderExtProofs Proofs.LoadsFilterProofs Proofs.LoadsFullProofs.
From LV Require Import Proofs.ObjStmSpellProofs Proofs.LoadsObjStmProofs Proofs.LoadsObjStmFile.
From LV Require Import Proofs.LoadsMultiOSAt Proofs.LoadsMultiOSPasses Proofs.LoadsMultiOSAll Proofs.LoadsMultiAll.
From LV Require Import Proofs.SpellingObjProofs Proofs.ObjectRtProofs Proofs.SpellingProofs.
From LV Require Proofs.LoadsMultiMixed Proofs.LoadsMultiObjStm Proofs.FilterProofsDict.
From Coq Require Import Lia.
Local Open Scope N_scope.

Definition multi_dom_os (st : fstyle) (parts : list mpart) (a : adoc) (file : bytes) : Prop :=
  utf8_decode (a_version a) <> None /\ blen file <= u32_max /\ os_dom st a parts.

Theorem loads_multi_os_full st parts a file :
  multi_dom_os st parts a file -> ref_write_multi st parts a = Some file ->
  exists d t, load_ext decompress_ref can_ref file = LOk d t /\ d_version d = a_version a /\
    (forall id, In (fst id) (multi_structural st parts) \/ same_opt (lookup (d_objects d) id) (lookup (content a) id)) /\
    (forall k, In k [bs "Type"; bs "W"; bs "Index"; bs "Length"; bs "Filter"; bs "DecodeParms"] \/
               same_opt (dict_get (d_trailer d) k)
                        (dict_get (a_trailer a ++ [(bs "Size", OInt (Z.of_N (1 + max_num (LoadsTableProofs.nums a ++ multi_structural st parts))))]) k)).
Proof.
  intros [Hu [Hlen Hdom]] Hw.
  destruct (loads_multi_os st a parts file Hu Hw Hlen Hdom) as [d [t [xt [Hl [Hv [[P1 [P2 [P3 P5]]] [Hxt [t0 [Et [[Hwf [d0 [y0 [Hw0 Hsrc]]]] Hsz]]]]]]]]]].
  destruct Hdom as [Hptops [Hcont [Htr _]]].
  destruct (multi_facts st parts a file Hw) as [conts [r [Ec [Hnd3 [Hcn [H0 _]]]]]].
  pose proof (LoadsMultiObjStm.NoDup_app_l' _ _ Hnd3) as Hndn.
  assert (Etops : LoadsMultiObjStm.multi_tops st a = ptopsT a (s_ostms st) (find_istyle (s_objs st)) ++ conts)
    by (unfold LoadsMultiObjStm.multi_tops; rewrite Ec; reflexivity).
  exists d, t. split; [exact Hl|]. split; [exact Hv|]. split.
  2:{ intro k.
      destruct (in_dec (list_eq_dec Byte.byte_eq_dec) k [bs "Type"; bs "W"; bs "Index"; bs "Length"; bs "Filter"; bs "DecodeParms"])
        as [Hin|Hnin]; [left; exact Hin|right].
      rewrite Et. destruct (list_eq_dec Byte.byte_eq_dec k K_Prev) as [->|Hne].
      - rewrite (FilterProofsDict.dict_get_swap_remove_same t0 K_Prev Hwf). rewrite dict_get_app_other by reflexivity.
        destruct Htr as [_ [Hp _]]. rewrite Hp. exact I.
      - rewrite (FilterProofsDict.dict_get_swap_remove_other t0 K_Prev k Hwf Hne).
        destruct (list_eq_dec Byte.byte_eq_dec k RefWriter.K_Size) as [->|Hns].
        + change Xref.K_Size with RefWriter.K_Size in Hsz. rewrite Hsz.
          change (bs "Size") with RefWriter.K_Size. rewrite dict_get_app_r by apply Htr.
          replace (max_num (LoadsTableProofs.nums a ++ multi_structural st parts))
            with (max_num ((map top_num (LoadsMultiObjStm.multi_tops st a) ++ compressed_nums st) ++ part_xids parts)); [constructor|].
          rewrite Etops. unfold multi_structural. apply LoadsMultiObjStm.max_num_same.
          * intros n Hn. apply in_app_or in Hn as [Hn|Hn]; [|apply in_or_app; right; apply in_or_app; right; exact Hn].
            apply in_app_or in Hn as [Hn|Hn]; [|apply in_or_app; left; exact (f_mem st a conts Ec n Hn)].
            apply (f_tnums st a conts Ec) in Hn as [[Hn _]|Hn]; apply in_or_app; [left; exact Hn|right; apply in_or_app; left; exact Hn].
          * intros n Hn. apply in_app_or in Hn as [Hn|Hn]; [|apply in_app_or in Hn as [Hn|Hn]].
            -- apply in_or_app. left. destruct (in_dec N.eq_dec n (compressed_nums st)) as [Hc|Hc]; apply in_or_app; [right; exact Hc|left].
               apply (f_tnums st a conts Ec). left. split; assumption.
            -- apply in_or_app. left. apply in_or_app. left. apply (f_tnums st a conts Ec). right. exact Hn.
            -- apply in_or_app. right. exact Hn.
        + assert (Hex : ~ In k LoadsMultiMixed.tr_excl).
          { intro K. unfold LoadsMultiMixed.tr_excl in K. cbn [In] in K. cbn [In] in Hnin.
            destruct K as [K|[K|[K|[K|[K|[K|[K|[K|[]]]]]]]]]; try (apply Hnin; tauto); [apply Hns|apply Hne]; symmetry; exact K. }
          rewrite dict_get_app_other.
          2:{ destruct (bytes_eqb (bs "Size") k) eqn:E; [|reflexivity]. apply bytes_eqb_eq in E. exfalso. apply Hns. symmetry. exact E. }
          destruct (Hsrc k Hex) as [S1 S2]. rewrite S1, <- S2. apply dict_get_denote_same.
          apply SpellingObjProofs.spell_wf_dict in Hw0. apply Hw0. }
  pose proof (containers_spec _ _ _ Ec) as Hcs.
  assert (Hbuild : forall s, In s (s_ostms st) -> exists items, os_build (a_objs a) (os_members s) (os_items s) true = Some items).
  { intros s Hs. destruct (Forall2_In_l _ _ _ s Hcs Hs) as [tp [_ [o [Ho _]]]]. apply (os_object_items _ _ _ Ho). }
  intro id. destruct (in_dec N.eq_dec (fst id) (multi_structural st parts)) as [Hs|Hs]; [left; exact Hs|right].
  assert (Q1 : forall id o, In (id, o) (a_objs a) -> exists v, lookup (d_objects d) id = Some v /\ same_value (norm_stream o) v).
  { intros [n g] o Hin. destruct (iscT (s_ostms st) n) eqn:Ecm.
    - assert (Hcomp : In n (compressed_nums st)) by (apply (f_isc st n); exact Ecm).
      unfold compressed_nums in Hcomp. apply in_flat_map in Hcomp as [s [Hs' Hm]].
      destruct (Hbuild s Hs') as [items Hb].
      destruct (os_build_find _ _ _ _ _ Hb n Hm) as [o0 Ef].
      pose proof (find_obj_unique (a_objs a) n g o Hndn Hin) as Ef'. rewrite Ef in Ef'. inversion Ef'; subst g o0.
      exists (member_val (a_objs a) s n). split; [apply (P2 s n Hs' Hm)|].
      destruct (member_val_denote (a_objs a) (os_members s) (os_items s) n) as [g' [o' [y [A [B C]]]]].
      { intros m Hmm. destruct (os_build_find _ _ _ _ _ Hb m Hmm) as [om Eom]. eauto. }
      { exact Hm. }
      rewrite Ef in A. inversion A; subst g' o'. unfold member_val. rewrite C.
      destruct (proj1 (Forall_forall _ _) Hcont s Hs') as [_ [_ [Hok _]]].
      pose proof (proj1 (Forall_forall _ _) Hok (o, y) B) as [Hwf' _]. cbn [fst snd] in Hwf'.
      assert (En : norm_stream o = o) by (destruct o; try reflexivity; contradiction).
      rewrite En. apply denote_same_value. exact Hwf'.
    - pose proof (ptop_of_obj a (s_ostms st) (find_istyle (s_objs st)) n g o Hin Ecm) as Htp.
      set (tp := ((n, g), o, find_istyle (s_objs st) n)) in *.
      exists (loaded_top tp). split; [exact (P1 tp Htp)|].
      exact (top_same a tp (proj1 (Forall_forall _ _) Hptops tp Htp)). }
  destruct (lookup (content a) id) as [o'|] eqn:Ecn.
  - destruct (content_lookup_some a id o' Ecn) as [o [Hin ->]]. destruct (Q1 id o Hin) as [v [-> Hv']]. exact Hv'.
  - destruct (lookup (d_objects d) id) as [v|] eqn:El; [|exact I]. exfalso.
    destruct (P5 id v El) as [[tp [Htp E]]|[[s [n [Hs' [Hm E]]]]|[[s [Hs' E]]|[tp [Htp E]]]]].
    + unfold ptopsT in Htp. apply in_map_iff in Htp as [io [Eio Hio]]. subst tp. cbn [fst] in E.
      apply filter_In in Hio as [Hio _]. assert (Hin : In (id, snd io) (a_objs a)) by (rewrite <- E; destruct io; exact Hio).
      rewrite (content_lookup_in a id (snd io) Hndn Hin) in Ecn. discriminate Ecn.
    + subst id. destruct (Hbuild s Hs') as [items Hb]. destruct (os_build_find _ _ _ _ _ Hb n Hm) as [o0 Ef].
      rewrite (content_lookup_in a (n, 0) o0 Hndn (LoadsMultiMixed.find_obj_In _ _ _ _ Ef)) in Ecn. discriminate Ecn.
    + subst id. apply Hs. cbn [fst]. unfold multi_structural. apply in_or_app. left. apply in_map. exact Hs'.
    + apply Hs. unfold multi_structural. apply in_or_app. right. rewrite <- E. exact (Hxt tp Htp).
Qed.

(* ---------- the union with the domains proved before ---------- *)
Definition multi_dom_all2 (st : fstyle) (parts : list mpart) (a : adoc) (file : bytes) : Prop :=
  multi_dom_all st parts a file \/ multi_dom_os st parts a file.

Theorem loads_multi_all2 st parts a file :
  multi_dom_all2 st parts a file -> ref_write_multi st parts a = Some file ->
  exists d t, load_ext decompress_ref can_ref file = LOk d t /\ d_version d = a_version a /\
    (forall id, In (fst id) (multi_structural st parts) \/ same_opt (lookup (d_objects d) id) (lookup (content a) id)) /\
    (forall k, In k [bs "Type"; bs "W"; bs "Index"; bs "Length"; bs "Filter"; bs "DecodeParms"] \/
               same_opt (dict_get (d_trailer d) k)
                        (dict_get (a_trailer a ++ [(bs "Size", OInt (Z.of_N (1 + max_num (LoadsTableProofs.nums a ++ multi_structural st parts))))]) k)).
Proof. intros [H|H] Hw; [exact (loads_multi_all st parts a file H Hw)|exact (loads_multi_os_full st parts a file H Hw)]. Qed.

Definition written2 (file : bytes) (a : adoc) (S : list N) : Prop :=
  (exists st, full_dom st a /\ ref_write st a = Some file /\ S = structural_nums st) \/
  (exists st parts, multi_dom_all2 st parts a file /\ ref_write_multi st parts a = Some file /\ S = multi_structural st parts).

Theorem full_all2 file a S :
  written2 file a S ->
  exists d t, load_ext decompress_ref can_ref file = LOk d t /\ d_version d = a_version a /\
    (forall id, In (fst id) S \/ same_opt (lookup (d_objects d) id) (lookup (content a) id)) /\
    (forall k, In k [bs "Type"; bs "W"; bs "Index"; bs "Length"; bs "Filter"; bs "DecodeParms"] \/
               same_opt (dict_get (d_trailer d) k)
                        (dict_get (a_trailer a ++ [(bs "Size", OInt (Z.of_N (1 + max_num (LoadsTableProofs.nums a ++ S))))]) k)).
Proof.
  intros [[st [Hd [Hw ->]]]|[st [parts [Hd [Hw ->]]]]].
  - destruct (full st a file Hd Hw) as [d [t [H1 [H2 [H3 H4]]]]]. exists d, t. split; [exact H1|]. split; [exact H2|]. split; [exact H3|exact H4].
  - exact (loads_multi_all2 st parts a file Hd Hw).
Qed.
