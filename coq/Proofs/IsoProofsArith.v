(* IsoProofsArith.v -- C06: the few facts about div/mod by constants that the refinement proofs need
   (lia with the Euclidean-division preprocessing, kept in a file of its own). *)
From LV Require Import Base.Bytes Spec.Crypto.Iso.
From Coq Require Import ZifyClasses ZifyInst Zify.
Ltac Zify.zify_post_hook ::= Z.to_euclidean_division_equations.
Local Open Scope N_scope.

(* Algorithm 2 (d) takes the low 32 bits of the 64-bit word lopdf keeps *)
Lemma le_bytes4_high x : le_bytes 4 (x + 4294967295 * 4294967296) = le_bytes 4 x.
Proof.
  cbn [le_bytes].
  replace ((x + 4294967295 * 4294967296) mod 256) with (x mod 256) by lia.
  replace ((x + 4294967295 * 4294967296) / 256 mod 256) with (x / 256 mod 256) by lia.
  replace ((x + 4294967295 * 4294967296) / 256 / 256 mod 256) with (x / 256 / 256 mod 256) by lia.
  replace ((x + 4294967295 * 4294967296) / 256 / 256 / 256 mod 256) with (x / 256 / 256 / 256 mod 256) by lia.
  reflexivity.
Qed.

(* the first 4 of the 8 bytes of Algorithm 10 are the 4 bytes of P *)
Lemma le_bytes8_first4 x : firstn 4 (le_bytes 8 x) = le_bytes 4 x.
Proof. reflexivity. Qed.

Lemma le_bytes_length n x : length (le_bytes n x) = n.
Proof. revert x; induction n as [|n IH]; intro x; cbn [le_bytes length]; [reflexivity|rewrite IH; reflexivity]. Qed.
