(* TextProofsFilter.v -- C16 (2), the encode direction on ARBITRARY text: encode_text followed by decode_text
   returns the text with exactly the characters the table does not hold removed, everything else unchanged
   and in order (astral characters become surrogate units, which no table holds). *)
From LV Require Import Base.Bytes Model.Utf Model.Obj Model.OneByte Gen.Tables
  Proofs.TextProofsUtf Proofs.TextProofsTables.
Local Open Scope N_scope.

(* the table holds the character (decidable: this is the `position` lookup of string_to_bytes) *)
Definition held (t : table) (c : N) : bool :=
  match position t c with Some _ => true | None => false end.

Lemma position_from_spec t u : forall k i,
  position_from t u k = Some i -> k <= i /\ nth (N.to_nat (i - k)) t None = Some u /\ (N.to_nat (i - k) < length t)%nat.
Proof.
  induction t as [|c t IH]; intros k i H; cbn [position_from] in H; [discriminate|].
  destruct c as [v|].
  - destruct (v =? u) eqn:E.
    + inversion H; subst i. apply N.eqb_eq in E. subst v.
      rewrite N.sub_diag. cbn. split; [lia|]. split; [reflexivity|lia].
    + apply IH in H as [H1 [H2 H3]]. split; [lia|].
      replace (N.to_nat (i - k)) with (S (N.to_nat (i - (k + 1)))) by lia. cbn [nth length]. split; [exact H2|lia].
  - apply IH in H as [H1 [H2 H3]]. split; [lia|].
    replace (N.to_nat (i - k)) with (S (N.to_nat (i - (k + 1)))) by lia. cbn [nth length]. split; [exact H2|lia].
Qed.

Lemma position_cell t u i :
  In t reachable_tables -> position t u = Some i -> i < 256 /\ cell t (byte_of_N i) = Some u.
Proof.
  intros Ht H. unfold position in H. apply position_from_spec in H as [_ [H2 H3]].
  rewrite N.sub_0_r in H2, H3. rewrite (tables_len t Ht) in H3.
  assert (Hi : i < 256) by lia. split; [exact Hi|].
  unfold cell. rewrite (N_of_byte_of_N i Hi). exact H2.
Qed.

Lemma filter_map_app {A B} (f : A -> option B) a b : filter_map f (a ++ b) = filter_map f a ++ filter_map f b.
Proof.
  induction a as [|x a IH]; [reflexivity|]. cbn [app filter_map]. destruct (f x); [cbn [app]; f_equal|]; exact IH.
Qed.

Section Filter.
  Variable t : table.
  Hypothesis Ht : In t reachable_tables.

  Lemma surrogate_not_held u : is_surrogate u = true -> position t u = None.
  Proof.
    intro Hs. destruct (position t u) as [i|] eqn:E; [|reflexivity].
    destruct (position_cell t u i Ht E) as [_ Hc].
    pose proof (no_surrogate_cell t Ht _ _ Hc). congruence.
  Qed.

  Lemma astral_not_held c : 0x10000 <= c -> position t c = None.
  Proof.
    intro Hc. destruct (position t c) as [i|] eqn:E; [|reflexivity].
    destruct (position_cell t c i Ht E) as [_ Hcell].
    pose proof (cg_u16 _ _ (cell_is_good t Ht _ _ Hcell)). lia.
  Qed.

  Lemma units_char c :
    is_scalar c ->
    bytes_to_units t (map byte_of_N (filter_map (position t) (utf16_encode_char c))) = if held t c then [c] else [].
  Proof.
    intro Hsc. unfold utf16_encode_char, held. destruct (c <? 0x10000) eqn:E.
    - cbn [filter_map]. destruct (position t c) as [i|] eqn:Ep; [|reflexivity].
      destruct (position_cell t c i Ht Ep) as [_ Hc].
      cbn [map]. unfold bytes_to_units. cbn [filter_map]. rewrite Hc. reflexivity.
    - apply N.ltb_ge in E. rewrite (astral_not_held c E).
      apply is_scalar_spec in Hsc.
      assert (H1 : is_surrogate (0xD800 + (c - 0x10000) / 1024) = true).
      { apply surrogate_true. assert ((c - 0x10000) / 1024 < 1024) by (apply N.div_lt_upper_bound; lia). lia. }
      assert (H2 : is_surrogate (0xDC00 + (c - 0x10000) mod 1024) = true).
      { apply surrogate_true. pose proof (N.mod_lt (c - 0x10000) 1024). lia. }
      cbn [filter_map]. rewrite (surrogate_not_held _ H1), (surrogate_not_held _ H2). reflexivity.
  Qed.

  Theorem encode_decode_filter :
    forall s, ustring_wf s -> bytes_to_string t (string_to_bytes t s) = Ok (filter (held t) s).
  Proof.
    intros s Hs. rewrite (bytes_to_string_total t Ht). f_equal.
    unfold string_to_bytes, utf16_encode.
    induction Hs as [|c s Hc _ IH]; [reflexivity|].
    cbn [flat_map filter]. rewrite filter_map_app, map_app.
    unfold bytes_to_units in *. rewrite filter_map_app. fold (bytes_to_units t).
    change (filter_map (cell t)) with (bytes_to_units t).
    rewrite (units_char c Hc). unfold bytes_to_units. rewrite IH.
    destruct (held t c); reflexivity.
  Qed.

  (* held = in the repertoire *)
  Lemma held_repertoire c : held t c = true <-> in_repertoire t c.
  Proof.
    unfold held, in_repertoire. split.
    - destruct (position t c) as [i|] eqn:E; [|discriminate]. intros _.
      exists (byte_of_N i). exact (proj2 (position_cell t c i Ht E)).
    - intros [b Hb]. destruct (cg_pos _ _ (cell_is_good t Ht b c Hb)) as [i [Hp _]]. rewrite Hp. reflexivity.
  Qed.
End Filter.
