(* ObjStmProofs.v -- rung 1 of C02: ObjectStream::new (Model/ObjStm.v) is the inverse of the specification
   packer of object streams (Spec/XrefSpec.v os_payload), given the round trip of the individual objects
   as a Section hypothesis (the shape of c14's object_rt: the text of an object followed by anything
   parses to the object). *)
From LV Require Import Base.Bytes Base.Sx Model.Obj Model.Writer Model.Parser Model.Utf Model.ObjStm
  Spec.XrefSpec Proofs.LexProofs Gen.ObjStmC.
Local Open Scope N_scope.

Definition cp (l : bytes) : list N := map N_of_byte l.

(* the one-byte separators of the index: NUL HT LF VT FF CR SP *)
Definition sep_byte (b : byte) : bool := index_separator (N_of_byte b) && (N_of_byte b <? 128).

(* ---------- UTF-8 of ASCII text ---------- *)
Lemma utf8_ascii : forall l, forallb (fun b => N_of_byte b <? 128) l = true -> utf8_decode l = Some (cp l).
Proof.
  induction l as [|b l IH]; intro H; [reflexivity|]. cbn [forallb] in H. apply andb_true_iff in H as [Hb Hl].
  cbn [utf8_decode cp map]. rewrite Hb, (IH Hl). reflexivity.
Qed.

Definition digit_facts (c : byte) : bool :=
  negb (is_dec_digit c) || (negb (index_separator (N_of_byte c)) && (N_of_byte c <? 128) && negb (N_of_byte c =? 43)
                            && (48 <=? N_of_byte c) && (N_of_byte c <=? 57)).
Lemma digit_sweep : byte_forallb digit_facts = true. Proof. vm_compute. reflexivity. Qed.
Lemma digit_fact c : is_dec_digit c = true ->
  index_separator (N_of_byte c) = false /\ (N_of_byte c <? 128) = true /\ (N_of_byte c =? 43) = false /\
  (48 <=? N_of_byte c) && (N_of_byte c <=? 57) = true.
Proof.
  intro H. pose proof (byte_forallb_spec _ digit_sweep c) as F. unfold digit_facts in F. rewrite H in F.
  cbn [negb orb] in F.
  apply andb_true_iff in F as [F F5]. apply andb_true_iff in F as [F F4].
  apply andb_true_iff in F as [F F3]. apply andb_true_iff in F as [F1 F2].
  apply negb_true_iff in F1. apply negb_true_iff in F3.
  split; [exact F1|]. split; [exact F2|]. split; [exact F3|]. rewrite F4, F5. reflexivity.
Qed.

(* ---------- split_whitespace on "separators, digits, separators, ..." ---------- *)
Lemma split_skip : forall ws s, forallb sep_byte ws = true -> split_ws_aux (cp ws ++ s) [] = split_ws_aux s [].
Proof.
  induction ws as [|b ws IH]; intros s H; [reflexivity|]. cbn [forallb] in H. apply andb_true_iff in H as [Hb Hw].
  unfold sep_byte in Hb. apply andb_true_iff in Hb as [Hb _].
  cbn [cp map app split_ws_aux]. rewrite Hb. apply IH. exact Hw.
Qed.

Lemma split_run : forall ds cur s, forallb is_dec_digit ds = true ->
  split_ws_aux (cp ds ++ s) cur = split_ws_aux s (rev (cp ds) ++ cur).
Proof.
  induction ds as [|c ds IH]; intros cur s H; [reflexivity|]. cbn [forallb] in H. apply andb_true_iff in H as [Hc Hd].
  destruct (digit_fact c Hc) as [Hs _]. cbn [cp map app split_ws_aux rev]. rewrite Hs.
  fold (cp ds). rewrite IH by exact Hd. rewrite <- app_assoc. reflexivity.
Qed.

Definition sep_start (s : bytes) : Prop := s = [] \/ exists b t, s = b :: t /\ sep_byte b = true.

Lemma split_flush cur s : cur <> [] -> sep_start s ->
  split_ws_aux (cp s) cur = rev cur :: split_ws_aux (cp s) [].
Proof.
  intros Hc [->|[b [t [-> Hb]]]].
  - cbn. destruct cur; [contradiction|reflexivity].
  - unfold sep_byte in Hb. apply andb_true_iff in Hb as [Hb _].
    cbn [cp map split_ws_aux]. rewrite Hb. destruct cur; [contradiction|reflexivity].
Qed.

Lemma cp_app a b : cp (a ++ b) = cp a ++ cp b. Proof. apply map_app. Qed.

Lemma split_token ws ds tl :
  forallb sep_byte ws = true -> ds <> [] -> forallb is_dec_digit ds = true -> sep_start tl ->
  split_ws_aux (cp (ws ++ ds ++ tl)) [] = cp ds :: split_ws_aux (cp tl) [].
Proof.
  intros Hw Hne Hd Ht. rewrite !cp_app. rewrite split_skip by exact Hw. rewrite split_run by exact Hd.
  rewrite app_nil_r. rewrite split_flush; [rewrite rev_involutive; reflexivity | | exact Ht].
  destruct ds; [contradiction|]. cbn. intro E. apply app_eq_nil in E as [_ E]. discriminate.
Qed.

(* ---------- u32::from_str on printed decimals ---------- *)
Lemma digits_cp_val : forall ds acc, forallb is_dec_digit ds = true ->
  digits_cp (cp ds) acc = Some (fold_left dstep ds acc).
Proof.
  induction ds as [|c ds IH]; intros acc H; [reflexivity|]. cbn [forallb] in H. apply andb_true_iff in H as [Hc Hd].
  destruct (digit_fact c Hc) as [_ [_ [_ Hr]]]. cbn [cp map digits_cp fold_left]. rewrite Hr. apply IH. exact Hd.
Qed.

Lemma u32_from_str_dec n : n <= u32_max -> u32_from_str (cp (N_dec n)) = Some n.
Proof.
  intro H. unfold u32_from_str. destruct (N_dec_cons n) as [c [t [E Hc]]].
  destruct (digit_fact c Hc) as [_ [_ [H43 _]]].
  assert (Hds : match cp (N_dec n) with 43 :: t0 => t0 | _ => cp (N_dec n) end = cp (N_dec n)).
  { rewrite E. cbn [cp map]. apply N.eqb_neq in H43. destruct (N_of_byte c) as [|p]; [reflexivity|].
    do 6 (destruct p as [p|p|]; try reflexivity). exfalso. apply H43. reflexivity. }
  rewrite Hds. destruct (cp (N_dec n)) as [|x xs] eqn:Ecp; [rewrite E in Ecp; discriminate|].
  rewrite <- Ecp. rewrite digits_cp_val by apply N_dec_digits.
  rewrite <- digits_val_fold, N_dec_val. replace (n <=? u32_max) with true by (symmetry; apply N.leb_le; exact H).
  reflexivity.
Qed.

(* ---------- the statement ---------- *)
Section Expand.
  Variable denote : ositem -> obj.
  Variable hdr_end : bytes.

  (* the object round trip, for the continuation each object really has in the payload: the texts of the
     objects after it (an integer must not be continued into "n g R", so "any continuation" would be false) *)
  (* ... and the parser stops at or before the text of the next object: an object does not reach into its successor
     (7.5.7: the objects lie one after the other).  That is what the overlap limit of ObjectStream::new needs. *)
  Definition item_rt (it : ositem) (after : bytes) : Prop :=
    exists r, direct_object (fuel_for (oi_text it ++ after)) (oi_text it ++ after) = POk (denote it) r /\
              (length after <= length r)%nat.
  Fixpoint items_rt (items : list ositem) : Prop :=
    match items with
    | [] => True
    | it :: l => item_rt it (flat_map oi_text l) /\ items_rt l
    end.

  Lemma item_rt_parse it after : item_rt it after -> parse_direct_object (oi_text it ++ after) = Some (denote it).
  Proof. intros [r [E _]]. unfold parse_direct_object. rewrite E. reflexivity. Qed.

  Lemma item_rt_len it after : item_rt it after ->
    exists n, parse_direct_object_len (oi_text it ++ after) = Some (denote it, n) /\ n <= N.of_nat (length (oi_text it)).
  Proof.
    intros [r [E Hl]]. unfold parse_direct_object_len. rewrite E. eexists. split; [reflexivity|].
    rewrite app_length. lia.
  Qed.

  Definition item_ok (it : ositem) : Prop :=
    oi_text it <> [] /\ oi_num it <= u32_max /\
    forallb sep_byte (oi_ws1 it) = true /\
    oi_ws2 it <> [] /\ forallb sep_byte (oi_ws2 it) = true.

  Definition header_of (items : list ositem) (pos : N) : bytes := os_header items (os_offsets pos items).

  Definition tokens_of (items : list ositem) (offs : list N) : list (list N) :=
    flat_map (fun io => [cp (N_dec (oi_num (fst io))); cp (N_dec (snd io))]) (combine items offs).

  Lemma os_offsets_length : forall items pos, length (os_offsets pos items) = length items.
  Proof. induction items; intro pos; cbn; [reflexivity | rewrite IHitems; reflexivity]. Qed.

  Lemma sep_start_ws (w tl : bytes) : w <> [] -> forallb sep_byte w = true -> sep_start (w ++ tl).
  Proof.
    intros Hne Hw. right. destruct w as [|b w]; [contradiction|]. cbn [forallb] in Hw.
    apply andb_true_iff in Hw as [Hb _]. exists b, (w ++ tl). split; [reflexivity | exact Hb].
  Qed.

  (* every item after the first one starts its pair with white-space *)
  Fixpoint later_ws1 (items : list ositem) : Prop :=
    match items with [] => True | it :: l => oi_ws1 it <> [] /\ later_ws1 l end.

  Lemma header_tokens : forall items pos,
    Forall item_ok items -> later_ws1 (tl items) ->
    Forall (fun o => o <= u32_max) (os_offsets pos items) ->
    forallb sep_byte hdr_end = true ->
    split_ws_aux (cp (header_of items pos ++ hdr_end)) [] = tokens_of items (os_offsets pos items).
  Proof.
    induction items as [|it items IH]; intros pos Hok Hl Ho Hh.
    - cbn [header_of os_offsets os_header app tokens_of combine flat_map].
      rewrite <- (app_nil_r (cp hdr_end)). fold (cp []). rewrite split_skip by exact Hh. reflexivity.
    - inversion Hok as [|x l [_ [Hn [H1 [H2n H2]]]] Hrest]; subst x l.
      cbn [os_offsets] in Ho. inversion Ho as [|x l Hp Ho']; subst x l.
      unfold header_of in *. cbn [os_offsets os_header tokens_of combine flat_map fst snd app].
      rewrite <- !app_assoc.
      (* first number *)
      rewrite split_token; [| exact H1 | apply N_dec_nonempty | apply N_dec_digits
                             | apply sep_start_ws; [exact H2n | exact H2]].
      f_equal.
      (* second number *)
      assert (Hnext : sep_start (os_header items (os_offsets (pos + N.of_nat (length (oi_text it))) items) ++ hdr_end)).
      { destruct items as [|it2 items2].
        - cbn [os_offsets os_header app]. destruct hdr_end as [|b t]; [left; reflexivity|].
          right. cbn [forallb] in Hh. apply andb_true_iff in Hh as [Hb _]. exists b, t. split; [reflexivity|exact Hb].
        - cbn [os_offsets os_header]. rewrite <- !app_assoc. cbn [tl later_ws1] in Hl. destruct Hl as [Hne _].
          inversion Hrest as [|x l [_ [_ [Hw1 _]]] _]; subst x l.
          apply sep_start_ws; assumption. }
      rewrite split_token; [| exact H2 | apply N_dec_nonempty | apply N_dec_digits | exact Hnext].
      f_equal. apply IH; try assumption.
      destruct items; [exact I|]. cbn [tl later_ws1] in *. tauto.
  Qed.

  Lemma numbers_of_tokens : forall items offs,
    Forall item_ok items -> Forall (fun o => o <= u32_max) offs ->
    pairs_of (map u32_from_str (tokens_of items offs)) =
    map (fun io => (Some (oi_num (fst io)), Some (snd io))) (combine items offs).
  Proof.
    induction items as [|it items IH]; intros offs Hok Ho; [reflexivity|].
    destruct offs as [|o offs]; [reflexivity|].
    inversion Hok as [|x l [_ [Hn _]] Hrest]; subst x l. inversion Ho; subst.
    unfold tokens_of. cbn [combine flat_map fst snd app map pairs_of].
    rewrite !u32_from_str_dec by assumption. f_equal. apply IH; assumption.
  Qed.

  (* the fold over the pairs, with the texts already passed collected in [pre] *)
  Lemma entries_fold : forall items hdr pre m,
    Forall item_ok items -> items_rt items ->
    fold_left (fun m p => match objstm_entry (hdr ++ pre ++ flat_map oi_text items) (N.of_nat (length hdr)) p with
                          | Some (id, o) => insert m id o
                          | None => m
                          end)
              (map (fun io => (Some (oi_num (fst io)), Some (snd io)))
                   (combine items (os_offsets (N.of_nat (length pre)) items))) m =
    fold_left (fun m it => insert m (oi_num it, 0) (denote it)) items m.
  Proof.
    induction items as [|it items IH]; intros hdr pre m Hok Hrts; [reflexivity|].
    inversion Hok as [|x l [Hne _] Hrest]; subst x l. cbn [items_rt] in Hrts. destruct Hrts as [Hrt Hrts].
    cbn [os_offsets combine map fold_left flat_map fst snd].
    (* this entry *)
    assert (E : objstm_entry (hdr ++ pre ++ oi_text it ++ flat_map oi_text items) (N.of_nat (length hdr))
                             (Some (oi_num it), Some (N.of_nat (length pre))) = Some ((oi_num it, 0), denote it)).
    { unfold objstm_entry. rewrite !app_length.
      assert (Hlt : (1 <= length (oi_text it))%nat) by (destruct (oi_text it); [contradiction | cbn; lia]).
      replace (N.of_nat (length hdr + (length pre + (length (oi_text it) + length (flat_map oi_text items)))) <=?
               N.of_nat (length hdr) + N.of_nat (length pre)) with false by (symmetry; apply N.leb_gt; lia).
      replace (N.to_nat (N.of_nat (length hdr) + N.of_nat (length pre))) with (length (hdr ++ pre))
        by (rewrite app_length; lia).
      rewrite app_assoc, drop_skipn, skipn_app, skipn_all, Nat.sub_diag. cbn [app skipn].
      rewrite (item_rt_parse _ _ Hrt). reflexivity. }
    rewrite E.
    (* the remaining entries: pre grows by this text *)
    specialize (IH hdr (pre ++ oi_text it) (insert m (oi_num it, 0) (denote it)) Hrest Hrts).
    rewrite app_length, Nat2N.inj_add in IH. rewrite <- app_assoc in IH. exact IH.
  Qed.

  (* what the members are charged: at most the length of their texts *)
  Lemma spent_fold : forall items hdr pre a,
    Forall item_ok items -> items_rt items ->
    fold_left (fun a p => a + objstm_charge (hdr ++ pre ++ flat_map oi_text items) (N.of_nat (length hdr)) p)
              (map (fun io => (Some (oi_num (fst io)), Some (snd io)))
                   (combine items (os_offsets (N.of_nat (length pre)) items))) a
    <= a + N.of_nat (length (flat_map oi_text items)).
  Proof.
    induction items as [|it items IH]; intros hdr pre a Hok Hrts; [cbn; lia|].
    inversion Hok as [|x l [Hne _] Hrest]; subst x l. cbn [items_rt] in Hrts. destruct Hrts as [Hrt Hrts].
    cbn [os_offsets combine map fold_left flat_map fst snd].
    destruct (item_rt_len _ _ Hrt) as [n [En Hn]].
    assert (E : objstm_charge (hdr ++ pre ++ oi_text it ++ flat_map oi_text items) (N.of_nat (length hdr))
                              (Some (oi_num it), Some (N.of_nat (length pre))) = n).
    { unfold objstm_charge. rewrite !app_length.
      assert (Hlt : (1 <= length (oi_text it))%nat) by (destruct (oi_text it); [contradiction | cbn; lia]).
      replace (N.of_nat (length hdr + (length pre + (length (oi_text it) + length (flat_map oi_text items)))) <=?
               N.of_nat (length hdr) + N.of_nat (length pre)) with false by (symmetry; apply N.leb_gt; lia).
      replace (N.to_nat (N.of_nat (length hdr) + N.of_nat (length pre))) with (length (hdr ++ pre))
        by (rewrite app_length; lia).
      rewrite app_assoc, drop_skipn, skipn_app, skipn_all, Nat.sub_diag. cbn [app skipn].
      rewrite En. reflexivity. }
    rewrite E.
    specialize (IH hdr (pre ++ oi_text it) (a + n) Hrest Hrts).
    rewrite app_length, Nat2N.inj_add in IH. rewrite <- app_assoc in IH.
    rewrite app_length. lia.
  Qed.

  Lemma overlap_limit_pos : 1 <= MAX_MEMBER_OVERLAP. Proof. vm_compute. discriminate. Qed.

  Lemma ascii_header : forall items pos, Forall item_ok items -> forallb sep_byte hdr_end = true ->
    forallb (fun b => N_of_byte b <? 128) (header_of items pos ++ hdr_end) = true.
  Proof.
    assert (Hsep : forall w, forallb sep_byte w = true -> forallb (fun b => N_of_byte b <? 128) w = true).
    { induction w as [|b w IHw]; intro H; [reflexivity|]. cbn [forallb] in *. apply andb_true_iff in H as [Hb Hw].
      unfold sep_byte in Hb. apply andb_true_iff in Hb as [_ Hb]. rewrite Hb, (IHw Hw). reflexivity. }
    assert (Hdig : forall n, forallb (fun b => N_of_byte b <? 128) (N_dec n) = true).
    { intro n. pose proof (N_dec_digits n) as H. induction (N_dec n) as [|c l IHl]; [reflexivity|].
      cbn [forallb] in *. apply andb_true_iff in H as [Hc Hl]. destruct (digit_fact c Hc) as [_ [Ha _]].
      rewrite Ha, (IHl Hl). reflexivity. }
    induction items as [|it items IH]; intros pos Hok Hh.
    - cbn. apply Hsep. exact Hh.
    - inversion Hok as [|x l [_ [_ [H1 [_ H2]]]] Hrest]; subst x l.
      unfold header_of in *. cbn [os_offsets os_header]. rewrite <- !app_assoc. rewrite !forallb_app.
      rewrite (Hsep _ H1), (Hsep _ H2), !Hdig. cbn [andb]. rewrite <- forallb_app. apply IH; assumption.
  Qed.

  Theorem objstm_expand :
    forall (items : list ositem) (d : dict) (n : Z),
      items <> [] -> Forall item_ok items -> items_rt items -> later_ws1 (tl items) ->
      forallb sep_byte hdr_end = true ->
      N.of_nat (length (flat_map oi_text items)) <= u32_max ->
      dict_get d K_First = Some (OInt (Z.of_N (fst (os_payload items hdr_end)))) ->
      dict_get d K_N = Some (OInt n) ->
      objstm_plain d (snd (os_payload items hdr_end)) =
      OsOk (fold_left (fun m it => insert m (oi_num it, 0) (denote it)) items []).
  Proof.
    intros items d n Hne Hok Hrts Hl Hh Hlen HF HN.
    unfold os_payload in *. cbn [fst snd] in *. fold (header_of items 0) in *.
    set (hdr := header_of items 0 ++ hdr_end) in *.
    unfold objstm_plain.
    assert (Hc : hdr ++ flat_map oi_text items <> []).
    { destruct items as [|it items]; [contradiction|]. inversion Hok as [|x l [Ht _] _]; subst.
      cbn [flat_map]. intro E. apply app_eq_nil in E as [_ E]. apply app_eq_nil in E as [E _]. contradiction. }
    destruct (hdr ++ flat_map oi_text items) as [|c0 r0] eqn:Ec; [contradiction|]. rewrite <- Ec. clear Hc.
    unfold get_i64. rewrite HF, HN.
    replace (Z.of_N (N.of_nat (length hdr)) <? 0)%Z with false by (symmetry; apply Z.ltb_ge; lia).
    rewrite N2Z.id, app_length.
    replace (N.of_nat (length hdr + length (flat_map oi_text items)) <? N.of_nat (length hdr)) with false
      by (symmetry; apply N.ltb_ge; lia).
    rewrite Nat2N.id. rewrite firstn_app, firstn_all, Nat.sub_diag. cbn [firstn]. rewrite app_nil_r.
    unfold hdr at 1. rewrite utf8_ascii by (apply ascii_header; assumption).
    unfold split_whitespace.
    (* offsets are below 2^32 *)
    assert (Ho : forall its pos, N.of_nat (length (flat_map oi_text its)) + pos <= u32_max ->
                 Forall (fun o => o <= u32_max) (os_offsets pos its)).
    { induction its as [|it its IHi]; intros pos Hp; [constructor|]. cbn [os_offsets flat_map] in *.
      rewrite app_length in Hp. constructor; [lia|]. apply IHi. lia. }
    rewrite header_tokens; [| assumption | assumption | apply Ho; lia | assumption].
    rewrite numbers_of_tokens; [| assumption | apply Ho; lia].
    pose proof (spent_fold items hdr [] 0 Hok Hrts) as Hs. cbn [length app] in Hs. change (N.of_nat 0) with 0 in Hs.
    unfold objstm_spent, objstm_limit.
    replace (_ <? _) with false.
    2:{ symmetry. apply N.ltb_ge. etransitivity; [exact Hs|]. rewrite app_length. pose proof overlap_limit_pos. nia. }
    pose proof (entries_fold items hdr [] [] Hok Hrts) as Hf. cbn [length app] in Hf. change (N.of_nat 0) with 0 in Hf.
    rewrite Hf. reflexivity.
  Qed.
End Expand.
