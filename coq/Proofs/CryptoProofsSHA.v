(* CryptoProofsSHA.v -- output sizes of the executable SHA-2 of Model/Crypto/SHA2.v:

     sha256_length : forall m, length (sha256 m) = 32
     sha384_length : forall m, length (sha384 m) = 48
     sha512_length : forall m, length (sha512 m) = 64

   Why it matters: the R5 / R6 document theorems of properties C05 and C06 are stated over a hash
   with hypotheses "the digest has 32 / 48 / 64 bytes" (key sizes, the 32-byte split of the R6
   hash loop, the validation-salt / key-salt offsets all depend on them).  These theorems discharge
   those hypotheses for the executable primitives that the extracted runner actually uses.

   The proofs are structural -- no hash value is ever computed.  Invariant: the chaining state is a
   list of exactly 8 words, each of k four-bit digits (k = 8 for SHA-256, k = 16 for SHA-512 / 384).
   It holds for the initial vectors ([word_of_N k] has k digits), is preserved by one compression
   ([s256_block] / [s512_block]) because
     - the padded message has a length that is a multiple of the block size ([sha_pad_length]), so
       every block is full and every 4- / 8-byte chunk of it gives a word of k digits,
     - the message schedule never reads past its 16 initial words,
     - xor / and / or / add of two k-digit words, and rotations / shifts of one, have k digits,
   and the final [flat_map be_of_word] of 8 words of k = 2c digits has 8c bytes. *)
From LV Require Import Base.Bytes Model.Crypto.Word Model.Crypto.SHA2.
Local Open Scope nat_scope.

(* ---------- list helpers ---------- *)
Lemma Forall_map_all {A B} (P : B -> Prop) (f : A -> B) (l : list A) :
  (forall x, P (f x)) -> Forall P (map f l).
Proof. intro H. induction l as [|a l IH]; cbn [map]; constructor; auto. Qed.

Lemma Forall_map_in {A B} (P : A -> Prop) (Q : B -> Prop) (f : A -> B) (l : list A) :
  (forall x, P x -> Q (f x)) -> Forall P l -> Forall Q (map f l).
Proof. intros H HF. induction HF as [|a l Ha HF IH]; cbn [map]; constructor; auto. Qed.

Lemma Forall_combine {A B} (P : A -> Prop) (Q : B -> Prop) (la : list A) (lb : list B) :
  Forall P la -> Forall Q lb -> Forall (fun p => P (fst p) /\ Q (snd p)) (combine la lb).
Proof.
  intro HA. revert lb. induction HA as [|a la Ha HA IH]; intros lb HB; cbn [combine]; [constructor|].
  destruct HB as [|b lb Hb HB]; constructor; [cbn [fst snd]; auto | apply IH; exact HB].
Qed.

Lemma flat_map_length_const {A B} (f : A -> list B) (c : nat) (l : list A) :
  Forall (fun x => length (f x) = c) l -> length (flat_map f l) = length l * c.
Proof.
  intro H. induction H as [|x l Hx H IH]; cbn [flat_map length]; [reflexivity|].
  rewrite app_length, Hx, IH. lia.
Qed.

(* ---------- byte-string helpers: N_to_be, zeros, chunks ---------- *)
Lemma N_to_le_length n : forall x, length (N_to_le n x) = n.
Proof. induction n as [|n IH]; intro x; cbn [N_to_le length]; [reflexivity | f_equal; apply IH]. Qed.

Lemma N_to_be_length n x : length (N_to_be n x) = n.
Proof. unfold N_to_be. rewrite rev_length. apply N_to_le_length. Qed.

Lemma zeros_length n : length (zeros n) = n.
Proof. unfold zeros. apply repeat_length. Qed.

(* a string of exactly m * c bytes is cut into m chunks of exactly c bytes *)
Lemma chunks_exact c : 0 < c -> forall m fuel (l : bytes), length l = m * c -> length l <= fuel ->
  length (chunks c fuel l) = m /\ Forall (fun ch => length ch = c) (chunks c fuel l).
Proof.
  intros Hc. induction m as [|m IH]; intros fuel l Hl Hf.
  - cbn [Nat.mul] in Hl. destruct l as [|b l]; [|discriminate].
    destruct fuel; cbn [chunks]; (split; [reflexivity | constructor]).
  - cbn [Nat.mul] in Hl. destruct fuel as [|f]; [lia|].
    destruct l as [|b l]; [cbn [length] in Hl; lia|].
    cbn [chunks]. set (l' := b :: l) in *.
    destruct (IH f (skipn c l')) as [L F]; [rewrite skipn_length; lia | rewrite skipn_length; lia |].
    split; [cbn [length]; rewrite L; reflexivity|].
    constructor; [rewrite firstn_length; lia | exact F].
Qed.

Lemma chunks_of_exact c m (l : bytes) : 0 < c -> length l = m * c ->
  length (chunks_of c l) = m /\ Forall (fun ch => length ch = c) (chunks_of c l).
Proof. intros Hc Hl. unfold chunks_of. apply chunks_exact; [exact Hc | exact Hl | lia]. Qed.

(* FIPS 180-4 5.1: the padded message is a whole number of blocks *)
Lemma sha_pad_length blk lb m : 0 < blk -> lb <= blk ->
  exists q, length (sha_pad blk lb m) = q * blk.
Proof.
  intros Hb Hl. unfold sha_pad. cbv zeta.
  set (len := length m).
  rewrite app_length. cbn [length]. rewrite app_length, zeros_length, N_to_be_length.
  fold len.
  pose proof (Nat.div_mod_eq (len + 1) blk) as E.
  assert (U : (len + 1) mod blk < blk) by (apply Nat.mod_upper_bound; lia).
  set (d := (len + 1) / blk) in *. set (r := (len + 1) mod blk) in *.
  destruct (Nat.leb_spec r (blk - lb)).
  - exists (S d). lia.
  - exists (S (S d)). lia.
Qed.

Lemma sha_pad_blocks blk lb m : 0 < blk -> lb <= blk ->
  Forall (fun b => length b = blk) (chunks_of blk (sha_pad blk lb m)).
Proof.
  intros Hb Hl. destruct (sha_pad_length blk lb m Hb Hl) as [q Hq].
  exact (proj2 (chunks_of_exact blk q _ Hb Hq)).
Qed.

(* ---------- lengths of the word operations ---------- *)
Lemma wmap2_length f a b : length (wmap2 f a b) = Nat.min (length a) (length b).
Proof.
  revert b. induction a as [|x a IH]; intros [|y b]; cbn [wmap2 length Nat.min]; try reflexivity.
  f_equal. apply IH.
Qed.

Lemma wadd_c_length a : forall b c, length (wadd_c a b c) = Nat.min (length a) (length b).
Proof.
  induction a as [|x a IH]; intros [|y b] c; cbn [wadd_c length Nat.min]; try reflexivity.
  f_equal. apply IH.
Qed.

Lemma wshr_bits_length t fill : forall l, length (wshr_bits t l fill) = length l.
Proof.
  induction l as [|x l IH]; [reflexivity|].
  destruct l as [|y l]; [reflexivity|].
  change (S (length (wshr_bits t (y :: l) fill)) = S (length (y :: l))).
  f_equal. exact IH.
Qed.

Lemma wrotr_length l q r : length (wrotr l q r) = length l.
Proof.
  unfold wrotr. cbv zeta.
  assert (H : length (skipn q l ++ firstn q l) = length l)
    by (rewrite app_length, skipn_length, firstn_length; lia).
  destruct r; [exact H | rewrite wshr_bits_length; exact H].
Qed.

Lemma wshr_length l q r : q <= length l -> length (wshr l q r) = length l.
Proof.
  intro Hq. unfold wshr. cbv zeta.
  assert (H : length (skipn q l ++ repeat n0 q) = length l)
    by (rewrite app_length, skipn_length, repeat_length; lia).
  destruct r; [exact H | rewrite wshr_bits_length; exact H].
Qed.

Lemma word_of_N_length k : forall x, length (word_of_N k x) = k.
Proof. induction k as [|k IH]; intro x; cbn [word_of_N length]; [reflexivity | f_equal; apply IH]. Qed.

Lemma word_of_be_length l : length (word_of_be l) = 2 * length l.
Proof.
  unfold word_of_be. rewrite rev_length.
  induction l as [|b l IH]; [reflexivity|].
  cbn [flat_map app length]. rewrite IH. lia.
Qed.

Lemma be_of_msb_length n : forall l, length l = 2 * n -> length (be_of_msb l) = n.
Proof.
  induction n as [|n IH]; intros l Hl.
  - destruct l; [reflexivity | cbn [length] in Hl; lia].
  - destruct l as [|a [|b l]]; cbn [length] in Hl; try lia.
    cbn [be_of_msb length]. f_equal. apply IH. lia.
Qed.

Lemma be_of_word_length c w : length w = 2 * c -> length (be_of_word w) = c.
Proof. intro H. unfold be_of_word. apply be_of_msb_length. rewrite rev_length. exact H. Qed.

(* ---------- "a word of k digits" and "a state of 8 such words" ---------- *)
Definition wl (k : nat) (w : word) : Prop := length w = k.
Definition stok (k : nat) (st : list word) : Prop := length st = 8 /\ Forall (wl k) st.

Lemma wxor_wl k a b : wl k a -> wl k b -> wl k (wxor a b).
Proof. unfold wl, wxor. intros Ha Hb. rewrite wmap2_length. lia. Qed.
Lemma wand_wl k a b : wl k a -> wl k b -> wl k (wand a b).
Proof. unfold wl, wand. intros Ha Hb. rewrite wmap2_length. lia. Qed.
Lemma wor_wl k a b : wl k a -> wl k b -> wl k (wor a b).
Proof. unfold wl, wor. intros Ha Hb. rewrite wmap2_length. lia. Qed.
Lemma wadd_wl k a b : wl k a -> wl k b -> wl k (wadd a b).
Proof. unfold wl, wadd. intros Ha Hb. rewrite wadd_c_length. lia. Qed.
Lemma wrotr_wl k x q r : wl k x -> wl k (wrotr x q r).
Proof. unfold wl. intro H. rewrite wrotr_length. exact H. Qed.
Lemma wshr_wl k x q r : q <= k -> wl k x -> wl k (wshr x q r).
Proof. unfold wl. intros Hq H. rewrite wshr_length by lia. exact H. Qed.

Lemma Ch_wl k x y z : wl k x -> wl k y -> wl k z -> wl k (Ch x y z).
Proof. intros. unfold Ch. repeat first [assumption | apply wxor_wl | apply wand_wl]. Qed.
Lemma Maj_wl k x y z : wl k x -> wl k y -> wl k z -> wl k (Maj x y z).
Proof. intros. unfold Maj. repeat first [assumption | apply wor_wl | apply wand_wl]. Qed.
Lemma wadd5_wl k a b c d e : wl k a -> wl k b -> wl k c -> wl k d -> wl k e -> wl k (wadd5 a b c d e).
Proof. intros. unfold wadd5. repeat first [assumption | apply wadd_wl]. Qed.

(* the sigma functions; the digit shifts of [wshr] (at most 2) must not exceed the word size *)
Ltac sigma_wl :=
  repeat first [ assumption | apply wxor_wl | apply wrotr_wl | apply wshr_wl; [lia|] ].

Lemma s256_S0_wl x : wl 8 x -> wl 8 (s256_S0 x).
Proof. intro H. unfold s256_S0. sigma_wl. Qed.
Lemma s256_S1_wl x : wl 8 x -> wl 8 (s256_S1 x).
Proof. intro H. unfold s256_S1. sigma_wl. Qed.
Lemma s256_s0_wl x : wl 8 x -> wl 8 (s256_s0 x).
Proof. intro H. unfold s256_s0. sigma_wl. Qed.
Lemma s256_s1_wl x : wl 8 x -> wl 8 (s256_s1 x).
Proof. intro H. unfold s256_s1. sigma_wl. Qed.
Lemma s512_S0_wl x : wl 16 x -> wl 16 (s512_S0 x).
Proof. intro H. unfold s512_S0. sigma_wl. Qed.
Lemma s512_S1_wl x : wl 16 x -> wl 16 (s512_S1 x).
Proof. intro H. unfold s512_S1. sigma_wl. Qed.
Lemma s512_s0_wl x : wl 16 x -> wl 16 (s512_s0 x).
Proof. intro H. unfold s512_s0. sigma_wl. Qed.
Lemma s512_s1_wl x : wl 16 x -> wl 16 (s512_s1 x).
Proof. intro H. unfold s512_s1. sigma_wl. Qed.

(* the constant tables *)
Lemma word_table_wl k (l : list N) : Forall (wl k) (map (word_of_N k) l).
Proof. apply Forall_map_all. intro x. apply word_of_N_length. Qed.

Lemma word_table_stok k (l : list N) : length l = 8 -> stok k (map (word_of_N k) l).
Proof. intro H. split; [rewrite map_length; exact H | apply word_table_wl]. Qed.

Lemma sha256_Kw_wl : Forall (wl 8) sha256_Kw.
Proof. apply word_table_wl. Qed.
Lemma sha512_Kw_wl : Forall (wl 16) sha512_Kw.
Proof. apply word_table_wl. Qed.
Lemma sha256_H0w_stok : stok 8 sha256_H0w.
Proof. apply word_table_stok. reflexivity. Qed.
Lemma sha512_H0w_stok : stok 16 sha512_H0w.
Proof. apply word_table_stok. reflexivity. Qed.
Lemma sha384_H0w_stok : stok 16 sha384_H0w.
Proof. apply word_table_stok. reflexivity. Qed.

Lemma map2w_gen k : forall a b, length a = length b -> Forall (wl k) a -> Forall (wl k) b ->
  length (map2w a b) = length a /\ Forall (wl k) (map2w a b).
Proof.
  induction a as [|x a IH]; intros [|y b] L Fa Fb; cbn [length] in L; try discriminate;
    cbn [map2w length].
  - split; [reflexivity | constructor].
  - destruct (IH b) as [L' F'];
      [lia | exact (Forall_inv_tail Fa) | exact (Forall_inv_tail Fb) |].
    split; [rewrite L'; reflexivity|].
    constructor; [apply wadd_wl; [exact (Forall_inv Fa) | exact (Forall_inv Fb)] | exact F'].
Qed.

Lemma map2w_stok k a b : stok k a -> stok k b -> stok k (map2w a b).
Proof.
  intros [La Fa] [Lb Fb]. destruct (map2w_gen k a b) as [L F]; [lia | exact Fa | exact Fb |].
  split; [rewrite L; exact La | exact F].
Qed.

(* one compression, with the algorithm's parameters abstracted; [s256_block] and [s512_block] are
   instances by conversion *)
Definition gblock (c : nat) (s0 s1 S0 S1 : word -> word) (Kw : list word) (n : nat)
    (st : list word) (blk : bytes) : list word :=
  let w16 := map word_of_be (chunks_of c blk) in
  let w := rev (sha_sched s0 s1 n (rev w16)) in
  map2w st (fold_left (sha_round S0 S1) (combine Kw w) st).

Lemma s256_block_gblock : s256_block = gblock 4 s256_s0 s256_s1 s256_S0 s256_S1 sha256_Kw 48.
Proof. reflexivity. Qed.
Lemma s512_block_gblock : s512_block = gblock 8 s512_s0 s512_s1 s512_S0 s512_S1 sha512_Kw 64.
Proof. reflexivity. Qed.

Section Generic.
  Variables (k c : nat) (s0 s1 S0 S1 : word -> word) (Kw : list word) (n : nat).
  Hypothesis Hc : 0 < c.
  Hypothesis Hk : k = 2 * c.
  Hypothesis Hs0 : forall x, wl k x -> wl k (s0 x).
  Hypothesis Hs1 : forall x, wl k x -> wl k (s1 x).
  Hypothesis HS0 : forall x, wl k x -> wl k (S0 x).
  Hypothesis HS1 : forall x, wl k x -> wl k (S1 x).
  Hypothesis HKw : Forall (wl k) Kw.

  (* message schedule: at least 16 words to start with, so the [nth _ _ []] defaults are never hit *)
  Lemma sha_sched_ok : forall m wr, 16 <= length wr -> Forall (wl k) wr ->
    length (sha_sched s0 s1 m wr) = m + length wr /\ Forall (wl k) (sha_sched s0 s1 m wr).
  Proof.
    induction m as [|m IH]; intros wr Hl HF; [cbn [sha_sched]; split; [reflexivity | exact HF]|].
    cbn [sha_sched].
    pose proof (proj1 (@Forall_nth _ (wl k) wr) HF) as Hn.
    match goal with |- context [sha_sched s0 s1 m (?w :: wr)] =>
      assert (Hw : wl k w)
        by (repeat first [apply wadd_wl | apply Hs0 | apply Hs1 | apply Hn; lia]);
      destruct (IH (w :: wr)) as [L F]; [cbn [length]; lia | constructor; assumption |]
    end.
    split; [rewrite L; cbn [length]; lia | exact F].
  Qed.

  Lemma sha_round_ok st kw : stok k st -> wl k (fst kw) -> wl k (snd kw) ->
    stok k (sha_round S0 S1 st kw).
  Proof.
    intros [L F] Hk1 Hk2.
    destruct st as [|a [|b [|c' [|d [|e [|f [|g [|h [|i st]]]]]]]]]; cbn [length] in L; try lia.
    repeat match goal with H : Forall _ (_ :: _) |- _ =>
      pose proof (Forall_inv H); apply Forall_inv_tail in H end.
    unfold sha_round. cbv beta iota zeta.
    split; [reflexivity|].
    repeat first [ apply Forall_nil | apply Forall_cons | assumption
                 | apply wadd_wl | apply wadd5_wl | apply Ch_wl | apply Maj_wl
                 | apply HS0 | apply HS1 ].
  Qed.

  Lemma rounds_ok kws : Forall (fun p => wl k (fst p) /\ wl k (snd p)) kws ->
    forall st, stok k st -> stok k (fold_left (sha_round S0 S1) kws st).
  Proof.
    induction 1 as [|kw kws [H1 H2] HF IH]; intros st Hst; cbn [fold_left]; [exact Hst|].
    apply IH. apply sha_round_ok; assumption.
  Qed.

  Lemma gblock_ok st blk : length blk = 16 * c -> stok k st ->
    stok k (gblock c s0 s1 S0 S1 Kw n st blk).
  Proof.
    intros Hb Hst. unfold gblock. cbv zeta.
    destruct (chunks_of_exact c 16 blk Hc Hb) as [Lc Fc].
    assert (F16 : Forall (wl k) (map word_of_be (chunks_of c blk))).
    { eapply Forall_map_in; [|exact Fc]. intros x Hx. cbv beta in Hx.
      unfold wl. rewrite word_of_be_length, Hx. lia. }
    destruct (sha_sched_ok n (rev (map word_of_be (chunks_of c blk)))) as [_ Fs].
    { rewrite rev_length, map_length, Lc. lia. }
    { apply Forall_rev. exact F16. }
    apply map2w_stok; [exact Hst|].
    apply rounds_ok; [|exact Hst].
    apply Forall_combine; [exact HKw | apply Forall_rev; exact Fs].
  Qed.

  Lemma blocks_ok blocks : Forall (fun b : bytes => length b = 16 * c) blocks ->
    forall st, stok k st -> stok k (fold_left (gblock c s0 s1 S0 S1 Kw n) blocks st).
  Proof.
    induction 1 as [|b blocks Hb HF IH]; intros st Hst; cbn [fold_left]; [exact Hst|].
    apply IH. apply gblock_ok; assumption.
  Qed.
End Generic.

Lemma digest_length k c st : k = 2 * c -> stok k st -> length (flat_map be_of_word st) = 8 * c.
Proof.
  intros Hk [L F]. rewrite (flat_map_length_const be_of_word c); [rewrite L; reflexivity|].
  eapply Forall_impl; [|exact F]. intros w Hw. apply be_of_word_length. unfold wl in Hw. lia.
Qed.

(* the chaining state after any number of blocks *)
Lemma sha256_state_ok m :
  stok 8 (fold_left s256_block (chunks_of 64 (sha_pad 64 8 m)) sha256_H0w).
Proof.
  rewrite s256_block_gblock.
  apply (blocks_ok 8 4); try reflexivity; try lia.
  - exact s256_s0_wl.
  - exact s256_s1_wl.
  - exact s256_S0_wl.
  - exact s256_S1_wl.
  - exact sha256_Kw_wl.
  - apply (sha_pad_blocks 64 8 m); lia.
  - exact sha256_H0w_stok.
Qed.

Lemma sha512_state_ok h0 m : stok 16 h0 ->
  stok 16 (fold_left s512_block (chunks_of 128 (sha_pad 128 16 m)) h0).
Proof.
  intro H0. rewrite s512_block_gblock.
  apply (blocks_ok 16 8); try reflexivity; try lia.
  - exact s512_s0_wl.
  - exact s512_s1_wl.
  - exact s512_S0_wl.
  - exact s512_S1_wl.
  - exact sha512_Kw_wl.
  - apply (sha_pad_blocks 128 16 m); lia.
  - exact H0.
Qed.

Lemma sha512_core_length h0 m : stok 16 h0 -> length (sha512_core h0 m) = 64.
Proof.
  intro H0. unfold sha512_core.
  exact (digest_length 16 8 _ eq_refl (sha512_state_ok h0 m H0)).
Qed.

Theorem sha256_length : forall m, length (sha256 m) = 32%nat.
Proof.
  intro m. unfold sha256.
  exact (digest_length 8 4 _ eq_refl (sha256_state_ok m)).
Qed.

Theorem sha384_length : forall m, length (sha384 m) = 48%nat.
Proof.
  intro m. unfold sha384.
  rewrite firstn_length, (sha512_core_length _ m sha384_H0w_stok). reflexivity.
Qed.

Theorem sha512_length : forall m, length (sha512 m) = 64%nat.
Proof. intro m. unfold sha512. apply sha512_core_length. exact sha512_H0w_stok. Qed.

Print Assumptions sha256_length.
Print Assumptions sha384_length.
Print Assumptions sha512_length.
