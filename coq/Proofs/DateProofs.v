(* Proofs/DateProofs.v -- C18, part 1: digits, the offset sweep, the three formatters agree with
   the specification's printer. *)
From LV Require Import Base.Bytes Gen.DateFmt Model.DateTime Spec.PdfDate.
Local Open Scope Z_scope.
Import PdfDate.

Ltac zdiv := Z.div_mod_to_equations; lia.

Definition spec_of (f : civil) : PdfDate.t := PdfDate.mk (cy f) (cmo f) (cd f) (ch f) (cmi f) (cs f).

(* ---------- the digit byte ---------- *)
Lemma digit_cases d : 0 <= d <= 9 -> d = 0 \/ d = 1 \/ d = 2 \/ d = 3 \/ d = 4 \/ d = 5 \/ d = 6 \/ d = 7 \/ d = 8 \/ d = 9.
Proof. lia. Qed.

Ltac digit_split d H :=
  destruct (digit_cases d H) as [->|[->|[->|[->|[->|[->|[->|[->|[->| ->]]]]]]]]].

Lemma dg_digit d : 0 <= d <= 9 -> dg d = digit d.
Proof. intro H. digit_split d H; reflexivity. Qed.

Lemma bval_dg d : 0 <= d <= 9 -> bval (dg d) = 48 + d.
Proof. intro H. digit_split d H; reflexivity. Qed.

Lemma digit_val_dg d : 0 <= d <= 9 -> digit_val (dg d) = Some d.
Proof. intro H. digit_split d H; reflexivity. Qed.

Lemma is_b_dg k d : 0 <= d <= 9 -> (k < 48 \/ 57 < k) -> is_b k (dg d) = false.
Proof. intros H Hk. unfold is_b. rewrite bval_dg by exact H. apply Z.eqb_neq. lia. Qed.

Lemma ws_char_dg d : 0 <= d <= 9 -> ws_char (dg d) = false.
Proof. intro H. digit_split d H; reflexivity. Qed.

Lemma ws_ascii_dg d : 0 <= d <= 9 -> ws_ascii (dg d) = false.
Proof. intro H. digit_split d H; reflexivity. Qed.

(* ---------- decimal padding: model = specification (arithmetic, no enumeration) ---------- *)
Lemma pad2_digits n : 0 <= n <= 99 -> pad2 n = Some (digits 2 n).
Proof.
  intro H. unfold pad2.
  replace ((0 <=? n) && (n <=? 99)) with true by (symmetry; apply andb_true_iff; split; apply Z.leb_le; lia).
  cbn [digits app]. rewrite !dg_digit by zdiv.
  replace (n / 10 mod 10) with (n / 10) by zdiv. reflexivity.
Qed.

Lemma pad4_digits n : 0 <= n <= 9999 -> pad4 n = Some (digits 4 n).
Proof.
  intro H. unfold pad4.
  replace ((0 <=? n) && (n <=? 9999)) with true by (symmetry; apply andb_true_iff; split; apply Z.leb_le; lia).
  cbn [digits app]. rewrite !dg_digit by zdiv.
  replace (n / 10 / 10 / 10 mod 10) with (n / 1000) by zdiv.
  replace (n / 10 / 10 mod 10) with (n / 100 mod 10) by zdiv.
  reflexivity.
Qed.

(* the same digits in the shape the scanners consume them *)
Lemma digits2_dg n : 0 <= n <= 99 -> digits 2 n = [dg (n / 10); dg (n mod 10)].
Proof. intro H. pose proof (pad2_digits n H) as E. unfold pad2 in E.
  replace ((0 <=? n) && (n <=? 99)) with true in E by (symmetry; apply andb_true_iff; split; apply Z.leb_le; lia).
  congruence. Qed.
Lemma digits4_dg n : 0 <= n <= 9999 -> digits 4 n = [dg (n / 1000); dg (n / 100 mod 10); dg (n / 10 mod 10); dg (n mod 10)].
Proof. intro H. pose proof (pad4_digits n H) as E. unfold pad4 in E.
  replace ((0 <=? n) && (n <=? 9999)) with true in E by (symmetry; apply andb_true_iff; split; apply Z.leb_le; lia).
  congruence. Qed.

(* ---------- sweeping an integer interval (the bound is in the statement) ---------- *)
Definition zrange_forallb (lo hi : Z) (p : Z -> bool) : bool :=
  below_nat (Z.to_nat (hi - lo + 1)) (fun k => p (lo + Z.of_N k)).

Lemma zrange_forallb_spec lo hi p : zrange_forallb lo hi p = true -> forall m, lo <= m <= hi -> p m = true.
Proof.
  intros H m Hm. unfold zrange_forallb in H.
  pose proof (below_nat_spec _ _ H (Z.to_N (m - lo))) as H1. cbv beta in H1.
  replace (lo + Z.of_N (Z.to_N (m - lo))) with m in H1 by lia.
  apply H1. lia.
Qed.

(* ---------- validity: specification <-> the checks of the model ---------- *)
Lemma dim_spec y m : 1 <= m <= 12 -> dim y m = days_in_month y m.
Proof.
  intro H. unfold dim, days_in_month, leap, is_leap.
  assert (m = 1 \/ m = 2 \/ m = 3 \/ m = 4 \/ m = 5 \/ m = 6 \/ m = 7 \/ m = 8 \/ m = 9 \/ m = 10 \/ m = 11 \/ m = 12) as C by lia.
  destruct C as [->|[->|[->|[->|[->|[->|[->|[->|[->|[->|[->| ->]]]]]]]]]]]; cbn; try reflexivity.
  destruct (y mod 400 =? 0) eqn:E4; destruct (y mod 100 =? 0) eqn:E1; destruct (y mod 4 =? 0) eqn:E; cbn; try reflexivity;
    apply Z.eqb_eq in E4 || apply Z.eqb_neq in E4; apply Z.eqb_eq in E1 || apply Z.eqb_neq in E1;
    apply Z.eqb_eq in E || apply Z.eqb_neq in E; exfalso; zdiv.
Qed.

Lemma in_range_true lo hi v : lo <= v <= hi -> in_range lo hi v = true.
Proof. intro H. unfold in_range. apply andb_true_iff; split; apply Z.leb_le; lia. Qed.

Lemma valid_date_ok f : valid (spec_of f) -> date_ok (cy f) (cmo f) (cd f) = true.
Proof.
  intros (Hy & Hm & Hd & _). cbn in *. unfold date_ok.
  rewrite dim_spec by lia. rewrite !in_range_true by lia. reflexivity.
Qed.

Lemma valid_civil_ok f : valid (spec_of f) -> civil_ok f = true.
Proof.
  intro H. unfold civil_ok. rewrite valid_date_ok by exact H.
  destruct H as (_ & _ & _ & Hh & Hmi & Hs). cbn in *. rewrite !in_range_true by lia. reflexivity.
Qed.

(* ---------- convert_utc_offset ---------- *)
Lemma replace_first_skip x y a b :
  existsb (byte_eqb x) a = false -> replace_first x y (a ++ b) = a ++ replace_first x y b.
Proof.
  induction a as [|c a IH]; cbn [existsb app replace_first]; intro H; [reflexivity|].
  apply orb_false_iff in H as [H1 H2].
  replace (byte_eqb c x) with false by (symmetry; apply byte_eqb_neq; intro E; subst; rewrite byte_eqb_refl in H1; discriminate).
  rewrite IH by exact H2. reflexivity.
Qed.

Lemma replace_first_hit x y a : existsb (byte_eqb x) a = true ->
  forall b, replace_first x y (a ++ b) = replace_first x y a ++ b.
Proof.
  induction a as [|c a IH]; cbn [existsb app replace_first]; intros H b; [discriminate|].
  destruct (byte_eqb c x) eqn:E; [reflexivity|].
  assert (byte_eqb x c = false) as E'.
  { apply byte_eqb_neq. intro; subst. rewrite byte_eqb_refl in E. discriminate. }
  rewrite E' in H. cbn in H. rewrite IH by exact H. reflexivity.
Qed.

Lemma existsb_rev {A} (p : A -> bool) l : existsb p (rev l) = existsb p l.
Proof.
  induction l as [|a l IH]; [reflexivity|]. cbn [rev existsb]. rewrite existsb_app, IH. cbn. rewrite orb_false_r. apply orb_comm.
Qed.

(* the suffix that contains the byte is rewritten, whatever precedes it is untouched *)
Lemma cuo_app p s : existsb (byte_eqb CUO_FROM) s = true -> convert_utc_offset (p ++ s) = p ++ convert_utc_offset s.
Proof.
  intro H. unfold convert_utc_offset. rewrite rev_app_distr.
  rewrite replace_first_hit by (rewrite existsb_rev; exact H).
  rewrite rev_app_distr, rev_involutive. reflexivity.
Qed.

(* ---------- the compiled format strings (recomputed from Gen on every run) ---------- *)
Definition strf_date_items : list item :=
  [INum CYear; INum CMonth; INum CDay; INum CHour; INum CMinute; INum CSecond].

Lemma chrono_fmt_local_items :
  strf_items CHRONO_FMT_LOCAL = Some (ILit x44 :: ILit x3a :: strf_date_items ++ [IOff false 1; ILit x27]).
Proof. vm_compute. reflexivity. Qed.
Lemma jiff_fmt_zoned_items :
  strf_items JIFF_FMT_ZONED = Some (ILit x44 :: ILit x3a :: strf_date_items ++ [IOff false 1; ILit x27]).
Proof. vm_compute. reflexivity. Qed.
Lemma chrono_fmt_utc_items :
  strf_items CHRONO_FMT_UTC = Some (ILit x44 :: ILit x3a :: strf_date_items ++ [ILit x5a]).
Proof. vm_compute. reflexivity. Qed.
Lemma jiff_fmt_ts_items :
  strf_items JIFF_FMT_TS = Some (ILit x44 :: ILit x3a :: strf_date_items ++ [ILit x5a]).
Proof. vm_compute. reflexivity. Qed.
Lemma time_fmt_items :
  td_items TIME_FMT = Some (ILit x44 :: ILit x3a :: strf_date_items ++ [ITOffHour true; ILit x27; ITOffMin; ILit x27]).
Proof. vm_compute. reflexivity. Qed.

(* ---------- the offset sweep: all 2 879 offsets -23:59 .. +23:59 ---------- *)
Definition off_fmt_ok (m : Z) : bool :=
  let want := offset_part m in
  (match chrono_off true (60 * m) with
   | Some o => existsb (byte_eqb CUO_FROM) (o ++ [x27]) && bytes_eqb (convert_utc_offset (o ++ [x27])) want
   | None => false
   end) &&
  (match jiff_off true (60 * m) with
   | Some o => existsb (byte_eqb CUO_FROM) (o ++ [x27]) && bytes_eqb (convert_utc_offset (o ++ [x27])) want
   | None => false
   end) &&
  (match time_off_hour true (60 * m), time_off_min (60 * m) with
   | Some h, Some mi => bytes_eqb (h ++ x27 :: mi ++ [x27]) want
   | _, _ => false
   end).

Lemma off_fmt_sweep : zrange_forallb (- 1439) 1439 off_fmt_ok = true.
Proof. vm_compute. reflexivity. Qed.

Lemma off_fmt m : valid_offset m ->
  (exists o, chrono_off true (60 * m) = Some o /\ existsb (byte_eqb CUO_FROM) (o ++ [x27]) = true /\
             convert_utc_offset (o ++ [x27]) = offset_part m) /\
  (exists o, jiff_off true (60 * m) = Some o /\ existsb (byte_eqb CUO_FROM) (o ++ [x27]) = true /\
             convert_utc_offset (o ++ [x27]) = offset_part m) /\
  (exists h mi, time_off_hour true (60 * m) = Some h /\ time_off_min (60 * m) = Some mi /\
                h ++ x27 :: mi ++ [x27] = offset_part m).
Proof.
  intro H. pose proof (zrange_forallb_spec _ _ _ off_fmt_sweep m H) as S. unfold off_fmt_ok in S.
  apply andb_true_iff in S as [S S3]. apply andb_true_iff in S as [S1 S2].
  split; [|split].
  - destruct (chrono_off true (60 * m)) as [o|]; [|discriminate]. apply andb_true_iff in S1 as [A B].
    exists o. split; [reflexivity|]. split; [exact A | apply bytes_eqb_eq; exact B].
  - destruct (jiff_off true (60 * m)) as [o|]; [|discriminate]. apply andb_true_iff in S2 as [A B].
    exists o. split; [reflexivity|]. split; [exact A | apply bytes_eqb_eq; exact B].
  - destruct (time_off_hour true (60 * m)) as [h|]; [|discriminate].
    destruct (time_off_min (60 * m)) as [mi|]; [|discriminate].
    exists h, mi. split; [reflexivity|]. split; [reflexivity | apply bytes_eqb_eq; exact S3].
Qed.

(* ---------- formatting the six numeric fields ---------- *)
Lemma fmt_date_items sem rest f off :
  (forall c, sem (INum c) f off = num_fmt c f) ->
  valid (spec_of f) ->
  fmt_items sem (strf_date_items ++ rest) f off =
  do b <- fmt_items sem rest f off; Some (date_part (spec_of f) ++ hm_part (spec_of f) ++ digits 2 (cs f) ++ b).
Proof.
  intros Hsem (Hy & Hmo & Hd & Hh & Hmi & Hs). cbn in Hy, Hmo, Hd, Hh, Hmi, Hs.
  assert (cd f <= 31) as Hd31.
  { pose proof (dim_spec (cy f) (cmo f) Hmo) as E. unfold dim in E.
    destruct (cmo f =? 2); [destruct (leap (cy f))|destruct ((cmo f =? 4) || (cmo f =? 6) || (cmo f =? 9) || (cmo f =? 11))]; lia. }
  unfold strf_date_items. cbn [app fmt_items]. rewrite !Hsem. cbn [num_fmt cget].
  rewrite pad4_digits by lia. rewrite !pad2_digits by lia. cbn [obind].
  destruct (fmt_items sem rest f off) as [b|]; cbn [obind]; [|reflexivity].
  unfold date_part, hm_part. cbn [spec_of year month day hour minute second].
  rewrite <- !app_assoc. reflexivity.
Qed.

(* ---------- rung 1: the three formatters agree with the specification ---------- *)
Theorem fmt_chrono_print f m : valid (spec_of f) -> valid_offset m ->
  fmt_chrono f (60 * m) = Some (print (spec_of f) m).
Proof.
  intros Hf Hm. destruct (off_fmt m Hm) as [(o & Ho & Hex & Hcuo) _].
  unfold fmt_chrono. rewrite chrono_fmt_local_items. cbn [obind].
  change (ILit x44 :: ILit x3a :: strf_date_items ++ [IOff false 1%nat; ILit x27])
    with ([ILit x44; ILit x3a] ++ strf_date_items ++ [IOff false 1%nat; ILit x27]).
  cbn [app fmt_items chrono_fmt_item obind].
  rewrite fmt_date_items by (try exact Hf; intro c; reflexivity).
  cbn [fmt_items chrono_fmt_item obind]. rewrite Ho. cbn [obind app].
  f_equal. unfold print, prefix.
  change (x44 :: x3a :: ?l) with ([x44; x3a] ++ l).
  rewrite (app_assoc (date_part _)), (app_assoc (date_part _ ++ _)), (app_assoc [x44; x3a]).
  rewrite app_nil_r.
  rewrite cuo_app by exact Hex. rewrite Hcuo. rewrite <- !app_assoc. reflexivity.
Qed.

Theorem fmt_jiff_print f m : valid (spec_of f) -> valid_offset m ->
  fmt_jiff f (60 * m) = Some (print (spec_of f) m).
Proof.
  intros Hf Hm. destruct (off_fmt m Hm) as (_ & (o & Ho & Hex & Hcuo) & _).
  unfold fmt_jiff. rewrite jiff_fmt_zoned_items. cbn [obind].
  change (ILit x44 :: ILit x3a :: strf_date_items ++ [IOff false 1%nat; ILit x27])
    with ([ILit x44; ILit x3a] ++ strf_date_items ++ [IOff false 1%nat; ILit x27]).
  cbn [app fmt_items jiff_fmt_item obind].
  rewrite fmt_date_items by (try exact Hf; intro c; reflexivity).
  cbn [fmt_items jiff_fmt_item obind]. rewrite Ho. cbn [obind app].
  f_equal. unfold print, prefix.
  change (x44 :: x3a :: ?l) with ([x44; x3a] ++ l).
  rewrite (app_assoc (date_part _)), (app_assoc (date_part _ ++ _)), (app_assoc [x44; x3a]).
  rewrite app_nil_r.
  rewrite cuo_app by exact Hex. rewrite Hcuo. rewrite <- !app_assoc. reflexivity.
Qed.

Theorem fmt_time_print f m : valid (spec_of f) -> valid_offset m ->
  fmt_time f (60 * m) = Some (print (spec_of f) m).
Proof.
  intros Hf Hm. destruct (off_fmt m Hm) as (_ & _ & (h & mi & Hh & Hmi & E)).
  unfold fmt_time. rewrite time_fmt_items. cbn [obind].
  change (ILit x44 :: ILit x3a :: strf_date_items ++ ?r) with ([ILit x44; ILit x3a] ++ strf_date_items ++ r).
  cbn [app fmt_items time_fmt_item obind].
  rewrite fmt_date_items by (try exact Hf; intro c; reflexivity).
  cbn [fmt_items time_fmt_item obind]. rewrite Hh, Hmi. cbn [obind app].
  f_equal. unfold print, prefix. cbn [app]. do 2 f_equal.
  rewrite E. reflexivity.
Qed.

(* the UTC source types print the Z form *)
Theorem fmt_chrono_utc_print f : valid (spec_of f) -> fmt_chrono_utc f = Some (print_utc (spec_of f)).
Proof.
  intro Hf. unfold fmt_chrono_utc. rewrite chrono_fmt_utc_items. cbn [obind].
  change (ILit x44 :: ILit x3a :: strf_date_items ++ ?r) with ([ILit x44; ILit x3a] ++ strf_date_items ++ r).
  cbn [app fmt_items chrono_fmt_item obind].
  rewrite fmt_date_items by (try exact Hf; intro c; reflexivity).
  cbn [fmt_items chrono_fmt_item obind app]. unfold print_utc, prefix. cbn [app]. reflexivity.
Qed.

Theorem fmt_jiff_utc_print f : valid (spec_of f) -> fmt_jiff_utc f = Some (print_utc (spec_of f)).
Proof.
  intro Hf. unfold fmt_jiff_utc. rewrite jiff_fmt_ts_items. cbn [obind].
  change (ILit x44 :: ILit x3a :: strf_date_items ++ ?r) with ([ILit x44; ILit x3a] ++ strf_date_items ++ r).
  cbn [app fmt_items jiff_fmt_item obind].
  rewrite fmt_date_items by (try exact Hf; intro c; reflexivity).
  cbn [fmt_items jiff_fmt_item obind app]. unfold print_utc, prefix. cbn [app]. reflexivity.
Qed.
