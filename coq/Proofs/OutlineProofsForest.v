(* OutlineProofsForest.v -- C17: the forest denoted by a sequence of add_bookmark calls is a forest:
   every bookmark id occurs at most once ([forest_ids_nodup]) and its height is at most the number
   of calls ([forest_height_le]).  Argument: every bookmark has at most one parent, with a smaller
   id, so the ancestors of an id form a strictly decreasing chain ([up]). *)
From LV Require Import Base.Bytes Model.Obj Model.Outline Spec.OutlineSpec
  Proofs.OutlineProofs Proofs.OutlineProofsOps.

Local Open Scope N_scope.

Section Forest.
  Variable sops : list sop.
  Let iops := index_from 1 sops.
  Let n := length sops.

  Lemma index_from_fst {A} (l : list A) : forall s, map fst (index_from s l) = nseq s (length l).
  Proof. induction l as [|x l IH]; intro s; [reflexivity|]. cbn [index_from map fst length nseq]. rewrite IH. reflexivity. Qed.

  Lemma iops_range i s : In (i, s) iops -> 1 <= i <= N.of_nat n.
  Proof. intro H. apply index_from_In in H. fold n in H. lia. Qed.

  Lemma iops_keys : NoDup (map fst iops).
  Proof. unfold iops. rewrite index_from_fst. apply nseq_NoDup. Qed.

  Lemma iops_nodup : NoDup iops.
  Proof. apply (NoDup_map_inv fst). apply iops_keys. Qed.

  Lemma iops_inj e1 e2 : In e1 iops -> In e2 iops -> fst e1 = fst e2 -> e1 = e2.
  Proof.
    pose proof iops_keys as H. revert H. generalize iops. intro l. induction l as [|x l IH]; intros Hnd H1 H2 E; [destruct H1|].
    cbn [map] in Hnd. apply NoDup_cons_iff in Hnd. destruct Hnd as [Hx Hnd].
    destruct H1 as [<-|H1], H2 as [<-|H2]; try reflexivity.
    - exfalso. apply Hx. rewrite E. apply in_map. exact H2.
    - exfalso. apply Hx. rewrite <- E. apply in_map. exact H1.
    - apply IH; assumption.
  Qed.

  (* the parent of an entry / of an id *)
  Definition par (e : N * sop) : option N :=
    match snd (snd e) with Some q => if q <? fst e then Some q else None | None => None end.
  Definition par_id (j : N) : option N :=
    match find (fun e => fst e =? j) iops with Some e => par e | None => None end.

  Lemma child_par p e : is_child_of p e = true -> par e = Some p.
  Proof.
    unfold is_child_of, par. destruct (snd (snd e)) as [q|]; [|discriminate].
    intro H. apply andb_true_iff in H. destruct H as [H1 H2]. apply N.eqb_eq in H1. subst q. rewrite H2. reflexivity.
  Qed.

  Lemma root_par e : is_root e = true -> par e = None.
  Proof. unfold is_root, par. destruct (snd (snd e)); [discriminate | reflexivity]. Qed.

  Lemma par_lt e q : par e = Some q -> q < fst e.
  Proof.
    unfold par. destruct (snd (snd e)) as [q'|]; [|discriminate].
    destruct (q' <? fst e) eqn:E; [|discriminate]. intro H. inversion H. subst. apply N.ltb_lt. exact E.
  Qed.

  Lemma par_id_entry e : In e iops -> par_id (fst e) = par e.
  Proof.
    intro He. unfold par_id. destruct (find (fun e0 => fst e0 =? fst e) iops) as [e'|] eqn:F.
    - apply find_some in F. destruct F as [Hin E]. apply N.eqb_eq in E.
      rewrite (iops_inj e' e Hin He E). reflexivity.
    - exfalso. apply (find_none _ _ F e) in He. rewrite N.eqb_refl in He. discriminate.
  Qed.

  Lemma par_id_lt j q : par_id j = Some q -> q < j.
  Proof.
    unfold par_id. destruct (find (fun e => fst e =? j) iops) as [e|] eqn:F; [|discriminate].
    apply find_some in F. destruct F as [_ E]. apply N.eqb_eq in E. subst j. apply par_lt.
  Qed.

  (* k steps up from j *)
  Fixpoint up (k : nat) (j : N) : option N :=
    match k with
    | O => Some j
    | S k' => match up k' j with Some a => par_id a | None => None end
    end.

  Lemma up_le k : forall j a, up k j = Some a -> a <= j.
  Proof.
    induction k as [|k IH]; intros j a H; cbn [up] in H; [inversion H; lia|].
    destruct (up k j) as [b|] eqn:E; [|discriminate]. apply IH in E. apply par_id_lt in H. lia.
  Qed.

  Lemma up_add k m : forall j, up (m + k) j = match up k j with Some a => up m a | None => None end.
  Proof.
    induction m as [|m IH]; intro j; cbn [Nat.add up]; [destruct (up k j); reflexivity|].
    rewrite IH. destruct (up k j) as [a|]; reflexivity.
  Qed.

  Lemma up_none_stays k m j : up k j = None -> up (m + k) j = None.
  Proof. intro H. rewrite up_add, H. reflexivity. Qed.

  (* two ancestors-or-self of j with the same parent (or both without) are equal *)
  Lemma up_same_parent_lt k1 k2 j a b :
    (k1 < k2)%nat -> up k1 j = Some a -> up k2 j = Some b -> par_id a = par_id b -> False.
  Proof.
    intros Hk H1 H2 Hp.
    replace k2 with ((k2 - S k1) + S k1)%nat in H2 by lia.
    rewrite up_add in H2. cbn [up] in H2. rewrite H1 in H2.
    destruct (par_id a) as [p|] eqn:P; [|discriminate].
    apply up_le in H2. symmetry in Hp. apply par_id_lt in Hp. lia.
  Qed.

  Lemma up_same_parent k1 k2 j a b :
    up k1 j = Some a -> up k2 j = Some b -> par_id a = par_id b -> a = b.
  Proof.
    intros H1 H2 Hp. destruct (Nat.lt_trichotomy k1 k2) as [L|[E|L]].
    - exfalso. exact (up_same_parent_lt k1 k2 j a b L H1 H2 Hp).
    - subst k2. rewrite H1 in H2. inversion H2. reflexivity.
    - exfalso. exact (up_same_parent_lt k2 k1 j b a L H2 H1 (eq_sym Hp)).
  Qed.

  (* ids of a subtree *)
  Lemma tree_ids_ge : forall fuel e j, In j (iids (tree_of fuel iops e)) -> fst e <= j.
  Proof.
    induction fuel as [|f IH]; intros e j H; cbn [tree_of iids] in H.
    - destruct H as [<-|[]]. lia.
    - destruct H as [<-|H]; [lia|].
      apply in_flat_map in H. destruct H as [t [Ht Hj]]. apply in_map_iff in Ht. destruct Ht as [c [<- Hc]].
      apply filter_In in Hc. destruct Hc as [_ Hc]. apply child_par, par_lt in Hc. apply IH in Hj. lia.
  Qed.

  Lemma tree_ids_up : forall fuel e j, In e iops -> In j (iids (tree_of fuel iops e)) -> exists k, up k j = Some (fst e).
  Proof.
    induction fuel as [|f IH]; intros e j He H; cbn [tree_of iids] in H.
    - destruct H as [<-|[]]. exists 0%nat. reflexivity.
    - destruct H as [<-|H]; [exists 0%nat; reflexivity|].
      apply in_flat_map in H. destruct H as [t [Ht Hj]]. apply in_map_iff in Ht. destruct Ht as [c [<- Hc]].
      apply filter_In in Hc. destruct Hc as [Hcin Hc].
      destruct (IH c j Hcin Hj) as [k Hk]. exists (S k). cbn [up]. rewrite Hk, (par_id_entry c Hcin).
      apply child_par. exact Hc.
  Qed.

  Lemma NoDup_app_intro {A} (l1 l2 : list A) :
    NoDup l1 -> NoDup l2 -> (forall x, In x l1 -> ~ In x l2) -> NoDup (l1 ++ l2).
  Proof.
    induction l1 as [|a l1 IH]; intros H1 H2 Hd; [exact H2|].
    cbn [app]. apply NoDup_cons_iff in H1. destruct H1 as [Ha H1]. constructor.
    - intro X. apply in_app_or in X. destruct X as [X|X]; [contradiction|].
      apply (Hd a); [left; reflexivity | exact X].
    - apply IH; [exact H1 | exact H2 | intros x Hx; apply Hd; right; exact Hx].
  Qed.

  Lemma NoDup_flat_map {A B} (g : A -> list B) (l : list A) :
    NoDup l -> (forall x, In x l -> NoDup (g x)) ->
    (forall x y b, In x l -> In y l -> In b (g x) -> In b (g y) -> x = y) ->
    NoDup (flat_map g l).
  Proof.
    induction 1 as [|x l Hx Hnd IH]; intros Hg Hd; [constructor|].
    cbn [flat_map]. apply NoDup_app_intro.
    - apply Hg. left. reflexivity.
    - apply IH; [intros y Hy; apply Hg; right; exact Hy|].
      intros a b c Ha Hb. apply Hd; right; assumption.
    - intros b Hb X. apply in_flat_map in X. destruct X as [y [Hy Hby]].
      assert (x = y) by (apply (Hd x y b); [left; reflexivity | right; exact Hy | exact Hb | exact Hby]).
      subst y. contradiction.
  Qed.

  Lemma tree_nodup : forall fuel e, In e iops -> NoDup (iids (tree_of fuel iops e)).
  Proof.
    induction fuel as [|f IH]; intros e He; cbn [tree_of iids]; [repeat constructor; intros []|].
    constructor.
    - intro H. apply in_flat_map in H. destruct H as [t [Ht Hj]]. apply in_map_iff in Ht. destruct Ht as [c [<- Hc]].
      apply filter_In in Hc. destruct Hc as [_ Hc]. apply child_par, par_lt in Hc. apply tree_ids_ge in Hj. lia.
    - rewrite flat_map_concat_map, map_map, <- flat_map_concat_map.
      apply NoDup_flat_map.
      + apply NoDup_filter. apply iops_nodup.
      + intros c Hc. apply filter_In in Hc. apply IH. tauto.
      + intros c1 c2 j H1 H2 J1 J2. apply filter_In in H1, H2. destruct H1 as [I1 P1], H2 as [I2 P2].
        destruct (tree_ids_up f c1 j I1 J1) as [k1 U1]. destruct (tree_ids_up f c2 j I2 J2) as [k2 U2].
        apply iops_inj; [exact I1 | exact I2|].
        apply (up_same_parent k1 k2 j _ _ U1 U2).
        rewrite (par_id_entry c1 I1), (par_id_entry c2 I2), (child_par _ _ P1), (child_par _ _ P2). reflexivity.
  Qed.

  Theorem forest_ids_nodup : NoDup (flat_map iids (forest_of_ops sops)).
  Proof.
    unfold forest_of_ops. fold iops n.
    rewrite flat_map_concat_map, map_map, <- flat_map_concat_map.
    apply NoDup_flat_map.
    - apply NoDup_filter. apply iops_nodup.
    - intros r Hr. apply filter_In in Hr. apply tree_nodup. tauto.
    - intros r1 r2 j H1 H2 J1 J2. apply filter_In in H1, H2. destruct H1 as [I1 P1], H2 as [I2 P2].
      destruct (tree_ids_up n r1 j I1 J1) as [k1 U1]. destruct (tree_ids_up n r2 j I2 J2) as [k2 U2].
      apply iops_inj; [exact I1 | exact I2|].
      apply (up_same_parent k1 k2 j _ _ U1 U2).
      rewrite (par_id_entry r1 I1), (par_id_entry r2 I2), (root_par _ P1), (root_par _ P2). reflexivity.
  Qed.

  (* height: children have larger ids *)
  Lemma tree_height : forall fuel e, In e iops -> (iheight (tree_of fuel iops e) <= n + 1 - N.to_nat (fst e))%nat.
  Proof.
    induction fuel as [|f IH]; intros [i s] He; pose proof (iops_range i s He) as Hr; cbn [tree_of fst snd]; rewrite iheight_node.
    - cbn. lia.
    - assert (H : (fheight (map (tree_of f iops) (filter (is_child_of i) iops)) <= n - N.to_nat i)%nat).
      { assert (Hall : forall c, In c (filter (is_child_of i) iops) -> In c iops /\ i < fst c).
        { intros c Hc. apply filter_In in Hc. destruct Hc as [Hc1 Hc2]. split; [exact Hc1|].
          apply child_par, par_lt in Hc2. exact Hc2. }
        induction (filter (is_child_of i) iops) as [|c cs IHc]; [cbn; lia|].
        cbn [map]. rewrite fheight_cons.
        destruct (Hall c (or_introl eq_refl)) as [Hc1 Hc2]. specialize (IH c Hc1).
        assert (IHc' := IHc (fun c0 H0 => Hall c0 (or_intror H0))). lia. }
      lia.
  Qed.

  Theorem forest_height_le : (fheight (forest_of_ops sops) <= n)%nat.
  Proof.
    unfold forest_of_ops. fold iops n.
    assert (Hall : forall r, In r (filter is_root iops) -> In r iops).
    { intros r Hr. apply filter_In in Hr. tauto. }
    induction (filter is_root iops) as [|r rs IHr]; [cbn; lia|].
    cbn [map]. rewrite fheight_cons.
    pose proof (tree_height n r (Hall r (or_introl eq_refl))) as H.
    destruct r as [i s]. pose proof (iops_range i s (Hall _ (or_introl eq_refl))) as Hr. cbn [fst] in H.
    assert (IH' := IHr (fun r0 H0 => Hall r0 (or_intror H0))). lia.
  Qed.
End Forest.
