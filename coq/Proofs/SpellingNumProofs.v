(* SpellingNumProofs.v -- rung 2 of C02, numbers and references: every spelling of a real (sign, leading zeros,
   trailing zeros, "5." and ".5") and of an indirect reference (leading zeros, any filler between the parts) that
   the reference writer's style denotes (Spec/RefWriter.v w_real, w_ref) is read by Model/Parser.v (real,
   reference); a real keeps its decimal VALUE ([same_dec]: the model carries the matched text, DESIGN 3 leaves
   decimal -> f32 to Rust std, so equal decimal values are equal reals). *)
From LV Require Import Base.Bytes Base.Sx Model.Obj Model.Writer Model.Parser Gen.Lex
  Spec.XrefSpec Spec.RefWriter Proofs.LexProofs Proofs.RealProofs Proofs.SpellingProofs.
From Coq Require Import Lia.
Local Open Scope N_scope.

(* ---------- the decimal value of a number text: sign, digits, optional point, digits ---------- *)
Definition strip_sign (r : bytes) : bool * bytes :=
  match r with x2d :: t => (true, t) | x2b :: t => (false, t) | _ => (false, r) end.
Definition dec_value (r : bytes) : option (bool * N * nat) :=
  let '(neg, t) := strip_sign r in
  let '(ip, rest) := take_while is_dec_digit t in
  match rest with
  | [] => match ip with [] => None | _ => Some (neg, digits_val ip, 0%nat) end
  | c :: f =>
    if byte_eqb c x2e then
      let '(fd, r') := take_while is_dec_digit f in
      match r', ip ++ fd with
      | [], _ :: _ => Some (neg, digits_val (ip ++ fd), length fd)
      | _, _ => None
      end
    else None
  end.

(* equal decimal values: m1 / 10^e1 = m2 / 10^e2, same sign unless zero *)
Definition same_dec (r1 r2 : bytes) : Prop :=
  exists n1 m1 e1 n2 m2 e2,
    dec_value r1 = Some (n1, m1, e1) /\ dec_value r2 = Some (n2, m2, e2) /\
    m1 * 10 ^ N.of_nat e2 = m2 * 10 ^ N.of_nat e1 /\ (n1 = n2 \/ m1 = 0).

(* ---------- digit strings ---------- *)
Lemma digits_val_app a b : digits_val (a ++ b) = digits_val a * 10 ^ N.of_nat (length b) + digits_val b.
Proof.
  rewrite !digits_val_fold. rewrite fold_left_app.
  generalize (fold_left dstep a 0). clear a.
  induction b as [|c b IH]; intro acc.
  - cbn [fold_left length]. change (N.of_nat 0) with 0. rewrite N.pow_0_r. lia.
  - cbn [fold_left length]. rewrite IH, (IH (dstep 0 c)). rewrite Nat2N.inj_succ, N.pow_succ_r'.
    unfold dstep. lia.
Qed.

Lemma digits_val_zeros k : digits_val (zeros k) = 0.
Proof. pose proof (digits_val_zeros' k []) as H. rewrite app_nil_r in H. exact H. Qed.

Lemma zeros_length k : length (zeros k) = k.
Proof. apply repeat_length. Qed.

Lemma all_zero_val ip : forallb (fun b => byte_eqb b x30) ip = true -> digits_val ip = 0.
Proof.
  induction ip as [|c ip IH] using rev_ind; [reflexivity|]. rewrite forallb_app. cbn [forallb]. intro H.
  apply andb_true_iff in H as [H1 H2]. rewrite andb_true_r in H2. apply byte_eqb_eq in H2. subst c.
  rewrite digits_val_app, (IH H1). reflexivity.
Qed.

Lemma span_take s : span_digits s = take_while is_dec_digit s.
Proof.
  induction s as [|c s IH]; [reflexivity|]. cbn [span_digits take_while].
  change (is_digit_b c) with (is_dec_digit c). destruct (is_dec_digit c); [rewrite IH|]; reflexivity.
Qed.

Lemma take_while_all p l : forallb p l = true -> take_while p l = (l, []).
Proof. intro H. rewrite <- (app_nil_r l) at 1. apply take_while_app; [exact H|reflexivity]. Qed.

(* ---------- the writer on a canonical text ---------- *)
Definition sign_bytes (neg plus : bool) : bytes := if neg then [x2d] else if plus then [x2b] else [].
Definition int_part (y : rstyle) (ip fr : bytes) : bytes :=
  match fr with
  | _ :: _ => if r_drop0 y && forallb (fun b => byte_eqb b x30) ip then [] else zeros (r_lz y) ++ ip
  | [] => zeros (r_lz y) ++ ip
  end.

Lemma w_real_text neg ip fd y :
  ip <> [] -> forallb is_dec_digit ip = true -> forallb is_dec_digit fd = true ->
  w_real (real_text neg ip fd) y =
  sign_bytes neg (r_plus y) ++ int_part y ip (fd ++ zeros (r_tz y)) ++ x2e :: fd ++ zeros (r_tz y).
Proof.
  intros Hne Hd Hf. unfold w_real.
  destruct (digits_cons ip Hne Hd) as [c [t [E Hc]]].
  assert (Hstrip : (match real_text neg ip fd with x2d :: t0 => (true, t0) | _ => (false, real_text neg ip fd) end)
                   = (neg, ip ++ frac_text fd)).
  { unfold real_text. fold (frac_text fd). destruct neg; cbn [app]; [reflexivity|].
    rewrite E. cbn [app]. destruct (digit_not_sign c Hc) as [H1 _]. destruct c; try reflexivity; contradiction. }
  rewrite Hstrip. rewrite span_take.
  assert (Hs : starts_with is_dec_digit (frac_text fd) = false) by (destruct fd; reflexivity).
  rewrite (take_while_app _ _ _ Hd Hs).
  destruct fd as [|f0 fd'].
  - cbn [frac_text]. subst ip. unfold sign_bytes, int_part. cbn [app]. reflexivity.
  - cbn [frac_text]. rewrite span_take, (take_while_all _ _ Hf). subst ip. unfold sign_bytes, int_part. reflexivity.
Qed.

(* ---------- the parser on a number with an explicit point ---------- *)
Lemma opt_sign_bytes neg plus tl :
  (match tl with c :: _ => negb (byte_eqb c x2d) && negb (byte_eqb c x2b) | [] => true end) = true ->
  opt_sign (sign_bytes neg plus ++ tl) =
  ((if neg then Some true else if plus then Some false else None), tl).
Proof.
  intro H. unfold sign_bytes. destruct neg; [reflexivity|]. destruct plus; [reflexivity|]. cbn [app].
  destruct tl as [|c t]; [reflexivity|]. apply andb_true_iff in H as [H1 H2].
  apply negb_true_iff in H1, H2. apply byte_eqb_neq in H1, H2. unfold opt_sign. destruct c; try reflexivity; contradiction.
Qed.

Lemma digits_head_not_sign ds tl :
  forallb is_dec_digit ds = true ->
  (match ds ++ x2e :: tl with c :: _ => negb (byte_eqb c x2d) && negb (byte_eqb c x2b) | [] => true end) = true.
Proof.
  intro H. destruct ds as [|c t]; [reflexivity|]. cbn [app]. cbn [forallb] in H. apply andb_true_iff in H as [H _].
  destruct (digit_not_sign c H) as [H1 H2]. apply andb_true_iff. split; apply negb_true_iff, byte_eqb_neq; assumption.
Qed.

Lemma real_pointed neg plus ds fs rest :
  forallb is_dec_digit ds = true -> forallb is_dec_digit fs = true -> ds ++ fs <> [] ->
  starts_with is_dec_digit rest = false ->
  real (sign_bytes neg plus ++ ds ++ x2e :: fs ++ rest) = POk (sign_bytes neg plus ++ ds ++ x2e :: fs) rest.
Proof.
  intros Hd Hf Hne Hr. unfold real.
  rewrite (opt_sign_bytes neg plus (ds ++ x2e :: fs ++ rest)) by (apply digits_head_not_sign; exact Hd).
  rewrite (take_while_app is_dec_digit ds (x2e :: fs ++ rest) Hd) by reflexivity.
  assert (Hsg : (match (if neg then Some true else if plus then Some false else None) with
                 | Some true => [x2d] | Some false => [x2b] | None => [] end) = sign_bytes neg plus)
    by (destruct neg, plus; reflexivity).
  destruct ds as [|d0 ds'].
  - change (byte_eqb x2e x2e) with true. cbv iota.
    rewrite (take_while_app is_dec_digit fs rest Hf Hr).
    destruct fs as [|f0 fs']; [exfalso; apply Hne; reflexivity|]. rewrite Hsg. reflexivity.
  - change (byte_eqb x2e x2e) with true. cbv iota.
    rewrite (take_while_app is_dec_digit fs rest Hf Hr). rewrite Hsg. reflexivity.
Qed.

Lemma strip_sign_digits ds tl : forallb is_dec_digit ds = true ->
  strip_sign (ds ++ x2e :: tl) = (false, ds ++ x2e :: tl).
Proof.
  intro Hd. destruct ds as [|c t]; [reflexivity|]. cbn [app]. cbn [forallb] in Hd. apply andb_true_iff in Hd as [Hc _].
  destruct (digit_not_sign c Hc) as [H1 H2]. unfold strip_sign. destruct c; try reflexivity; contradiction.
Qed.

Lemma dec_value_pointed neg plus ds fs :
  forallb is_dec_digit ds = true -> forallb is_dec_digit fs = true -> ds ++ fs <> [] ->
  dec_value (sign_bytes neg plus ++ ds ++ x2e :: fs) = Some (neg, digits_val (ds ++ fs), length fs).
Proof.
  intros Hd Hf Hne. unfold dec_value.
  assert (Hstrip : strip_sign (sign_bytes neg plus ++ ds ++ x2e :: fs) = (neg, ds ++ x2e :: fs)).
  { unfold sign_bytes. destruct neg; [reflexivity|]. destruct plus; [reflexivity|]. cbn [app].
    apply strip_sign_digits. exact Hd. }
  rewrite Hstrip. rewrite (take_while_app is_dec_digit ds (x2e :: fs) Hd) by reflexivity.
  change (byte_eqb x2e x2e) with true. cbv iota. rewrite (take_while_all _ _ Hf).
  destruct (ds ++ fs) eqn:E; [contradiction|]. reflexivity.
Qed.

Lemma dec_value_canon neg ip fd :
  ip <> [] -> forallb is_dec_digit ip = true -> forallb is_dec_digit fd = true ->
  dec_value (real_text neg ip fd) = Some (neg, digits_val (ip ++ fd), length fd).
Proof.
  intros Hne Hd Hf. destruct fd as [|f0 fd'].
  - unfold real_text. rewrite !app_nil_r. unfold dec_value.
    destruct (digits_cons ip Hne Hd) as [c [t [E Hc]]].
    assert (Hstrip : strip_sign ((if neg then [x2d] else []) ++ ip) = (neg, ip)).
    { destruct neg; [reflexivity|]. cbn [app]. rewrite E. destruct (digit_not_sign c Hc) as [H1 H2].
      unfold strip_sign. destruct c; try reflexivity; contradiction. }
    rewrite Hstrip, (take_while_all _ _ Hd), (match_nonempty ip _ _ Hne). reflexivity.
  - change (real_text neg ip (f0 :: fd')) with (sign_bytes neg false ++ ip ++ x2e :: f0 :: fd').
    apply dec_value_pointed; [exact Hd|exact Hf|]. intro E. apply app_eq_nil in E as [E _]. contradiction.
Qed.

(* ---------- reals: any spelling ---------- *)
Theorem real_any_spelling : forall r (y : rstyle) rest,
  real_wf r -> starts_with is_dec_digit rest = false ->
  real (w_real r y ++ rest) = POk (w_real r y) rest /\ same_dec r (w_real r y).
Proof.
  intros r y rest [neg [ip [fd [-> [Hne [Hd Hf]]]]]] Hr.
  rewrite (w_real_text neg ip fd y Hne Hd Hf).
  set (fr := fd ++ zeros (r_tz y)). set (ipt := int_part y ip fr).
  assert (Hfr : forallb is_dec_digit fr = true) by (unfold fr; rewrite forallb_app, Hf, zeros_digits; reflexivity).
  assert (Hipt : forallb is_dec_digit ipt = true /\ ipt ++ fr <> [] /\ digits_val (ipt ++ fr) = digits_val (ip ++ fr)).
  { unfold ipt, int_part.
    assert (G : forallb is_dec_digit (zeros (r_lz y) ++ ip) = true /\ (zeros (r_lz y) ++ ip) ++ fr <> [] /\
                digits_val ((zeros (r_lz y) ++ ip) ++ fr) = digits_val (ip ++ fr)).
    { split; [rewrite forallb_app, zeros_digits, Hd; reflexivity|]. split.
      - intro E. apply app_eq_nil in E as [E _]. apply app_eq_nil in E as [_ E]. contradiction.
      - rewrite <- app_assoc. apply digits_val_zeros'. }
    destruct fr as [|f0 fr'] eqn:Efr; [exact G|].
    destruct (r_drop0 y && forallb (fun b => byte_eqb b x30) ip) eqn:E0; [|exact G].
    apply andb_true_iff in E0 as [_ E0]. split; [reflexivity|]. split; [discriminate|].
    cbn [app]. rewrite (digits_val_app ip), (all_zero_val ip E0). reflexivity. }
  destruct Hipt as [H1 [H2 H3]].
  split.
  - pose proof (real_pointed neg (r_plus y) ipt fr rest H1 Hfr H2 Hr) as E.
    replace ((sign_bytes neg (r_plus y) ++ ipt ++ x2e :: fr) ++ rest)
      with (sign_bytes neg (r_plus y) ++ ipt ++ x2e :: fr ++ rest) by (rewrite <- !app_assoc; reflexivity).
    exact E.
  - exists neg, (digits_val (ip ++ fd)), (length fd), neg, (digits_val (ipt ++ fr)), (length fr).
    split; [apply dec_value_canon; assumption|]. split; [apply dec_value_pointed; assumption|].
    split; [|left; reflexivity].
    rewrite H3. unfold fr. rewrite app_assoc, (digits_val_app (ip ++ fd)), digits_val_zeros, zeros_length.
    rewrite app_length, zeros_length, Nat2N.inj_add, N.pow_add_r. lia.
Qed.
