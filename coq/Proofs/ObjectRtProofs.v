(* ObjectRtProofs.v -- Writer.write_object then the parser's ordered choice [object_alts_c]
   (shared by _direct_objects_at and by the content-stream operand) is the identity up to
   [norm_obj], for every direct object, nested up to the parser's depth limit, with arbitrary
   bytes in names, strings and keys.

   Interface (for C01 / C14):
     norm_obj, norm_dict, obj_wf, nest, follow_ok, num_follow, ref_tail, cont_ok, ref_ok     definitions
     object_rt        the round trip at the level of [object_alts_c], at any depth >= nest o
     direct_objects_at_rt, direct_objects_rt, direct_object_rt, parse_direct_object_rt,
     dictionary_entry_rt                                  corollaries for the entry points
     cont_follow, cont_lead, cont_elem, follow_nil        how to establish the follow condition
     write_object_lead, space_tok, space_elem             first byte of a written object, white space
     norm_obj_wf                                          the normal form is stable
     array_rt, dictionary_rt, inner_dict_rt, fold_set_kv  the container loops (elem_rt)

   The separator rule of the writer ([need_separator]) is proved correct here: [cont_elem] shows
   that what the writer puts between two array elements / after a dictionary key / between a value
   and the next key establishes the follow condition each kind of token needs, including "the
   integer is not the beginning of a reference" ([ref_tail]), which the parser's ordering of
   [reference] before [integer] makes necessary. *)
From LV Require Import Base.Bytes Base.Sx Model.Obj Model.Writer Model.Parser Gen.Lex
  Proofs.LexProofs Proofs.LitStringProofs Proofs.RealProofs.
From Coq Require Import ZifyBool ZifyN ZifyNat.

Local Open Scope N_scope.

(* ---------- induction principle for the nested type of objects ---------- *)
Lemma obj_rt_ind (P : obj -> Prop) :
  P ONull -> (forall b, P (OBool b)) -> (forall z, P (OInt z)) -> (forall r, P (OReal r)) ->
  (forall n, P (OName n)) -> (forall s h, P (OStr s h)) ->
  (forall l, Forall P l -> P (OArr l)) ->
  (forall d, Forall (fun kv => P (snd kv)) d -> P (ODict d)) ->
  (forall d c, Forall (fun kv => P (snd kv)) d -> P (OStream d c)) ->
  (forall i g, P (ORef i g)) ->
  forall o, P o.
Proof.
  intros H1 H2 H3 H4 H5 H6 HA HD HS HR.
  fix IH 1. intro o. destruct o as [|b|z|r|n|s h|l|d|d c|i g].
  - exact H1.
  - apply H2.
  - apply H3.
  - apply H4.
  - apply H5.
  - apply H6.
  - apply HA. induction l as [|x l IHl]; constructor; [apply IH | exact IHl].
  - apply HD. induction d as [|[k v] d IHd]; constructor; [apply IH | exact IHd].
  - apply HS. induction d as [|[k v] d IHd]; constructor; [apply IH | exact IHd].
  - apply HR.
Qed.

(* ---------- normal form and well-formedness ---------- *)

Definition norm_kv (f : obj -> obj) (kv : bytes * obj) : bytes * obj := (fst kv, f (snd kv)).

Fixpoint norm_obj (o : obj) : obj :=
  match o with
  | OReal r => norm_real r
  | OArr l => OArr (map norm_obj l)
  | ODict d => ODict (map (fun kv => (fst kv, norm_obj (snd kv))) d)
  | OStream d c => OStream (map (fun kv => (fst kv, norm_obj (snd kv))) d) c
  | _ => o
  end.
Definition norm_dict (d : dict) : dict := map (fun kv => (fst kv, norm_obj (snd kv))) d.

(* direct objects the data model can hold: integers are i64, reals are finite f32 (their Display
   text), object numbers are u32 and generations u16, dictionary keys are unique (IndexMap);
   streams are not direct objects *)
Inductive obj_wf : obj -> Prop :=
| wf_null : obj_wf ONull
| wf_bool b : obj_wf (OBool b)
| wf_int z : in_i64 z = true -> obj_wf (OInt z)
| wf_real r : real_wf r -> obj_wf (OReal r)
| wf_name n : obj_wf (OName n)
| wf_str s h : obj_wf (OStr s h)
| wf_arr l : Forall obj_wf l -> obj_wf (OArr l)
| wf_dict d : NoDup (map fst d) -> Forall (fun kv => obj_wf (snd kv)) d -> obj_wf (ODict d)
| wf_ref i g : i <= u32_max -> g <= u16_max -> obj_wf (ORef i g).

(* ---------- white space between tokens ---------- *)

Definition tok_start (s : bytes) : bool :=
  match s with c :: _ => negb (is_whitespace c) && negb (byte_eqb c x25) | [] => true end.

Lemma space_tok s : tok_start s = true -> space s = s.
Proof.
  destruct s as [|c t]; [reflexivity|]. cbn [tok_start]. intro H.
  apply andb_true_iff in H as [H1 H2]. apply negb_true_iff in H1. apply negb_true_iff in H2.
  unfold space. cbn [space_aux]. rewrite H1, H2. reflexivity.
Qed.

Lemma space_sp s : space (x20 :: s) = space s.
Proof. reflexivity. Qed.

Definition cs_start (s : bytes) : bool :=
  match s with c :: _ => negb (is_content_space c) | [] => true end.

Lemma content_space_tok s : cs_start s = true -> content_space s = s.
Proof.
  destruct s as [|c t]; [reflexivity|]. cbn [cs_start]. intro H. apply negb_true_iff in H.
  unfold content_space. cbn [skip_while]. rewrite H. reflexivity.
Qed.

(* ---------- the first byte of a written object ---------- *)

(* n t f 0-9 - / ( < [ *)
Definition obj_lead (c : byte) : bool :=
  byte_eqb c x6e || byte_eqb c x74 || byte_eqb c x66 || is_dec_digit c || byte_eqb c x2d ||
  byte_eqb c x2f || byte_eqb c x28 || byte_eqb c x3c || byte_eqb c x5b.

Definition lead_facts (c : byte) : bool :=
  negb (obj_lead c) ||
  (negb (is_whitespace c) && negb (byte_eqb c x25) && negb (is_content_space c) &&
   negb (byte_eqb c x42) && negb (byte_eqb c x52) && negb (is_operator_char c && negb (byte_eqb c x6e || byte_eqb c x74 || byte_eqb c x66))).
Lemma lead_sweep : byte_forallb lead_facts = true.
Proof. vm_compute. reflexivity. Qed.

Lemma obj_lead_tok c s : obj_lead c = true -> tok_start (c :: s) = true.
Proof.
  intro H. pose proof (byte_forallb_spec _ lead_sweep c) as K. unfold lead_facts in K.
  rewrite H in K. cbn [negb orb] in K. cbn [tok_start].
  repeat (apply andb_true_iff in K as [K ?]). rewrite K. assumption.
Qed.

Lemma obj_lead_cs c s : obj_lead c = true -> cs_start (c :: s) = true.
Proof.
  intro H. pose proof (byte_forallb_spec _ lead_sweep c) as K. unfold lead_facts in K.
  rewrite H in K. cbn [negb orb] in K. cbn [cs_start].
  repeat (apply andb_true_iff in K as [K ?]). assumption.
Qed.

Lemma digit_lead c : is_dec_digit c = true -> obj_lead c = true.
Proof. intro H. unfold obj_lead. rewrite H. rewrite !orb_true_r. reflexivity. Qed.

Lemma Z_dec_text z : Z_dec z = real_text (z <? 0)%Z (N_dec (Z.abs_N z)) [].
Proof.
  unfold real_text. rewrite app_nil_r. destruct z as [|p|p]; reflexivity.
Qed.

Lemma real_text_lead neg ds fs :
  ds <> [] -> forallb is_dec_digit ds = true ->
  exists c t, real_text neg ds fs = c :: t /\ (c = x2d \/ is_dec_digit c = true).
Proof.
  intros Hne Hd. destruct (digits_cons ds Hne Hd) as [c [t [E Hc]]]. subst ds.
  unfold real_text. destruct neg; cbn [app]; eexists _, _; (split; [reflexivity|]); auto.
Qed.

Lemma write_object_lead o : obj_wf o -> exists c t, write_object o = c :: t /\ obj_lead c = true.
Proof.
  intro H. destruct H as [|b|z Hz|r Hr|n|s h|l Hl|d Hn Hd|i g Hi Hg].
  - eexists _, _. split; reflexivity.
  - destruct b; eexists _, _; split; reflexivity.
  - cbn [write_object]. rewrite Z_dec_text.
    destruct (real_text_lead (z <? 0)%Z (N_dec (Z.abs_N z)) [] (N_dec_nonempty _) (N_dec_digits _))
      as [c [t [E [Hc|Hc]]]]; exists c, t; (split; [exact E|]); [subst c; reflexivity|apply digit_lead; exact Hc].
  - cbn [write_object]. destruct (write_real_head r Hr) as [c [t [E [Hc|Hc]]]]; exists c, t;
      (split; [exact E|]); [subst c; reflexivity|apply digit_lead; exact Hc].
  - eexists _, _. split; reflexivity.
  - destruct h; eexists _, _; split; reflexivity.
  - eexists _, _. split; reflexivity.
  - eexists _, _. split; reflexivity.
  - cbn [write_object]. destruct (N_dec_cons i) as [c [t [E Hc]]]. rewrite E.
    eexists _, _. split; [reflexivity|apply digit_lead; exact Hc].
Qed.

(* ---------- failing alternatives, by first byte ---------- *)

Lemma null_err c s : byte_eqb x6e c = false -> null (c :: s) = PErr.
Proof. intro H. unfold null, pkeyword, ptag. cbn [bs String.list_byte_of_string prefixb]. cbn. rewrite H. reflexivity. Qed.

(* bytes that begin neither a keyword nor a number: the first five alternatives fail *)
Definition nonnum_lead (c : byte) : bool :=
  negb (byte_eqb c x6e || byte_eqb c x74 || byte_eqb c x66 || is_dec_digit c ||
        byte_eqb c x2d || byte_eqb c x2b || byte_eqb c x2e).

Definition alts_tail (elem : bytes -> pres obj) (cont : bool) (n : nat) (s : bytes) : pres obj :=
  palt (pmap OName (name s)) (fun _ =>
  palt (pmap (fun t => OStr t false) (literal_string n s)) (fun _ =>
  palt (pmap (fun t => OStr t true) (hexadecimal_string s)) (fun _ =>
  palt (if cont then pmap OArr (array_p elem n s) else PErr) (fun _ =>
  if cont then pmap ODict (dictionary_p elem n s) else PErr)))).

Lemma alts_nonnum elem cont ar n c s :
  nonnum_lead c = true -> object_alts_c elem cont ar n (c :: s) = alts_tail elem cont n (c :: s).
Proof.
  intro H. unfold object_alts_c, alts_tail.
  destruct ar; destruct c; try discriminate H; reflexivity.
Qed.

Lemma name_err c s : byte_eqb c x2f = false -> name (c :: s) = PErr.
Proof. intro H. unfold name. rewrite H. reflexivity. Qed.
Lemma literal_err n c s : byte_eqb c x28 = false -> literal_string n (c :: s) = PErr.
Proof. intro H. unfold literal_string. rewrite H. reflexivity. Qed.
Lemma hex_err c s : byte_eqb c x3c = false -> hexadecimal_string (c :: s) = PErr.
Proof. intro H. unfold hexadecimal_string. rewrite H. reflexivity. Qed.
Lemma array_err elem n c s : byte_eqb c x5b = false -> array_p elem n (c :: s) = PErr.
Proof. intro H. unfold array_p. destruct c; try reflexivity. discriminate H. Qed.
Lemma dict_err elem n c s : byte_eqb c x3c = false -> dictionary_p elem n (c :: s) = PErr.
Proof. intro H. unfold dictionary_p. destruct c; try reflexivity. discriminate H. Qed.

(* a byte that begins no object at all: the whole choice fails (this is how many0 stops) *)
Definition no_lead (c : byte) : bool :=
  nonnum_lead c && negb (byte_eqb c x2f) && negb (byte_eqb c x28) && negb (byte_eqb c x3c) && negb (byte_eqb c x5b).

Lemma alts_no_lead elem cont ar n c s : no_lead c = true -> object_alts_c elem cont ar n (c :: s) = PErr.
Proof.
  intro H. unfold no_lead in H. repeat (apply andb_true_iff in H as [H ?]).
  repeat match goal with K : negb _ = true |- _ => apply negb_true_iff in K end.
  rewrite (alts_nonnum _ _ _ _ _ _ H). unfold alts_tail.
  rewrite name_err, literal_err, hex_err, array_err, dict_err by assumption. destruct cont; reflexivity.
Qed.

Lemma alts_nil elem cont ar n : object_alts_c elem cont ar n [] = PErr.
Proof. destruct ar; destruct cont; reflexivity. Qed.

(* ----- the simple kinds ----- *)
(* a keyword is a whole token (token_end): it is read back when no regular byte follows *)
Definition kw_follow (rest : bytes) : Prop := starts_with is_regular rest = false.

Lemma token_end_follow rest : kw_follow rest -> token_end rest = true.
Proof. unfold kw_follow. destruct rest as [|c t]; [reflexivity|]. cbn. intros ->. reflexivity. Qed.

Lemma pkeyword_ok t rest :
  ptag t (t ++ rest) = POk tt rest -> kw_follow rest -> pkeyword t (t ++ rest) = POk tt rest.
Proof. intros E H. unfold pkeyword. rewrite E, (token_end_follow _ H). reflexivity. Qed.

Lemma alts_null elem cont ar n rest : kw_follow rest ->
  object_alts_c elem cont ar n (bs "null" ++ rest) = POk ONull rest.
Proof.
  intro H. unfold object_alts_c, null. rewrite (pkeyword_ok (bs "null") rest eq_refl H). reflexivity.
Qed.
Lemma alts_true elem cont ar n rest : kw_follow rest ->
  object_alts_c elem cont ar n (bs "true" ++ rest) = POk (OBool true) rest.
Proof.
  intro H. unfold object_alts_c.
  assert (null (bs "true" ++ rest) = PErr) as -> by reflexivity. cbn [palt].
  unfold boolean. rewrite (pkeyword_ok (bs "true") rest eq_refl H). reflexivity.
Qed.
Lemma alts_false elem cont ar n rest : kw_follow rest ->
  object_alts_c elem cont ar n (bs "false" ++ rest) = POk (OBool false) rest.
Proof.
  intro H. unfold object_alts_c.
  assert (null (bs "false" ++ rest) = PErr) as -> by reflexivity. cbn [palt].
  unfold boolean.
  assert (pkeyword (bs "true") (bs "false" ++ rest) = PErr) as -> by reflexivity.
  rewrite (pkeyword_ok (bs "false") rest eq_refl H). reflexivity.
Qed.

Lemma alts_name elem cont ar n k rest :
  name_follow rest = true -> object_alts_c elem cont ar n (write_name k ++ rest) = POk (OName k) rest.
Proof.
  intro H. pose proof (name_rt k rest H) as E. unfold write_name in *. cbn [app] in *.
  rewrite alts_nonnum by reflexivity. unfold alts_tail. rewrite E. reflexivity.
Qed.

Lemma alts_literal elem cont ar n t rest :
  (length (write_literal t ++ rest) <= n)%nat ->
  object_alts_c elem cont ar n (write_literal t ++ rest) = POk (OStr t false) rest.
Proof.
  intro H. pose proof (literal_string_rt t rest n H) as E. unfold write_literal in *. cbn [app] in *.
  rewrite alts_nonnum by reflexivity. unfold alts_tail.
  rewrite name_err by reflexivity. rewrite E. reflexivity.
Qed.

Lemma alts_hex elem cont ar n t rest :
  object_alts_c elem cont ar n (write_hex t ++ rest) = POk (OStr t true) rest.
Proof.
  pose proof (hex_string_rt t rest) as E. unfold write_hex in *. cbn [app] in *.
  rewrite alts_nonnum by reflexivity. unfold alts_tail.
  rewrite name_err, literal_err by reflexivity. rewrite E. reflexivity.
Qed.

(* ----- numbers ----- *)

(* [rest] continues an unsigned integer into a reference: white space, digits, white space, R *)
Definition ref_tail (rest : bytes) : bool :=
  match unsigned_int u16_max (space rest) with
  | POk _ r' => prefixb [x52] (space r')
  | _ => false
  end.

Definition num_follow (ar : bool) (rest : bytes) : Prop :=
  starts_with digit_or_point rest = false /\ (ar = true -> ref_tail rest = false).

Lemma unsigned_int_cases m s : (exists v r, unsigned_int m s = POk v r) \/ unsigned_int m s = PErr.
Proof.
  unfold unsigned_int. destruct (take_while is_dec_digit s) as [ds r].
  destruct ds; [right; reflexivity|]. destruct (_ <=? m); [left; eauto|right; reflexivity].
Qed.

Lemma digit_facts c : is_dec_digit c = true ->
  byte_eqb x6e c = false /\ byte_eqb c x74 = false /\ byte_eqb c x66 = false /\ is_whitespace c = false /\
  byte_eqb c x25 = false /\ byte_eqb c x52 = false.
Proof. intro H. destruct c; try discriminate H; repeat split; reflexivity. Qed.

Lemma boolean_err c s : byte_eqb c x74 = false -> byte_eqb c x66 = false -> boolean (c :: s) = PErr.
Proof.
  intros H1 H2. unfold boolean, pkeyword, ptag. cbn. 
  assert (byte_eqb x74 c = false) as -> by (apply byte_eqb_neq; apply byte_eqb_neq in H1; congruence).
  assert (byte_eqb x66 c = false) as -> by (apply byte_eqb_neq; apply byte_eqb_neq in H2; congruence).
  reflexivity.
Qed.

Lemma digit_or_point_digit rest :
  starts_with digit_or_point rest = false -> starts_with is_dec_digit rest = false.
Proof.
  destruct rest as [|c t]; [reflexivity|]. cbn. unfold digit_or_point. intro H.
  apply orb_false_iff in H. tauto.
Qed.

(* the [reference] alternative does not match a number that is not followed by "g R" *)
Lemma reference_text_err neg ds fs rest :
  ds <> [] -> forallb is_dec_digit ds = true ->
  starts_with is_dec_digit rest = false -> ref_tail rest = false ->
  reference (real_text neg ds fs ++ rest) = PErr.
Proof.
  intros Hne Hd Hr Ht. rewrite real_text_app. destruct neg; cbn [app]; [reflexivity|].
  unfold reference, object_id.
  assert (Hs : starts_with is_dec_digit (frac_text fs ++ rest) = false)
    by (destruct fs; [exact Hr|reflexivity]).
  unfold unsigned_int at 1. rewrite (take_while_app _ _ _ Hd Hs), (match_nonempty _ _ _ Hne).
  destruct (digits_val ds <=? u32_max); [|reflexivity]. cbn [pbind].
  destruct fs as [|f0 fs]; cbn [frac_text app].
  - unfold ref_tail in Ht.
    destruct (unsigned_int_cases u16_max (space rest)) as [[v [r E]]|E]; rewrite E in *; cbn [pbind].
    + unfold ptag. rewrite Ht. reflexivity.
    + reflexivity.
  - reflexivity.
Qed.

(* a number text (integer or real) through the ordered choice *)
Lemma alts_number elem cont ar n neg ds fs rest r z :
  ds <> [] -> forallb is_dec_digit ds = true ->
  num_follow ar rest ->
  (real (real_text neg ds fs ++ rest) = POk r rest \/
   (real (real_text neg ds fs ++ rest) = PErr /\ integer (real_text neg ds fs ++ rest) = POk z rest)) ->
  object_alts_c elem cont ar n (real_text neg ds fs ++ rest) =
  match real (real_text neg ds fs ++ rest) with POk r' _ => POk (OReal r') rest | _ => POk (OInt z) rest end.
Proof.
  intros Hne Hd [Hf Hrt] Hcase.
  pose proof (reference_text_err neg ds fs rest Hne Hd (digit_or_point_digit _ Hf)) as Href.
  destruct (real_text_lead neg ds fs Hne Hd) as [c [t [E Hc]]].
  unfold object_alts_c.
  assert (null (real_text neg ds fs ++ rest) = PErr) as ->.
  { rewrite E. cbn [app]. apply null_err. destruct Hc as [->|Hc]; [reflexivity|apply (digit_facts c Hc)]. }
  assert (boolean (real_text neg ds fs ++ rest) = PErr) as ->.
  { rewrite E. cbn [app]. destruct Hc as [->|Hc]; [reflexivity|]. apply boolean_err; apply (digit_facts c Hc). }
  cbn [palt].
  assert ((if ar then reference (real_text neg ds fs ++ rest) else PErr) = PErr) as ->.
  { destruct ar; [|reflexivity]. apply Href. apply Hrt. reflexivity. }
  cbn [palt]. destruct Hcase as [E1|[E1 E2]]; rewrite E1; cbn [pmap palt]; [reflexivity|].
  rewrite E2. reflexivity.
Qed.

Lemma alts_int elem cont ar n z rest :
  in_i64 z = true -> num_follow ar rest ->
  object_alts_c elem cont ar n (Z_dec z ++ rest) = POk (OInt z) rest.
Proof.
  intros Hz Hf. pose proof (integer_rt z rest Hz (digit_or_point_digit _ (proj1 Hf))) as Ei.
  rewrite Z_dec_text in *.
  pose proof (real_int_err (z <? 0)%Z (N_dec (Z.abs_N z)) rest (N_dec_nonempty _) (N_dec_digits _) (proj1 Hf)) as Er.
  rewrite (alts_number elem cont ar n _ _ _ rest [] z (N_dec_nonempty _) (N_dec_digits _) Hf) by (right; split; assumption).
  rewrite Er. reflexivity.
Qed.

Lemma write_real_text r : real_wf r ->
  exists neg ds fs, write_real r = real_text neg ds fs /\ ds <> [] /\ forallb is_dec_digit ds = true /\
                    forallb is_dec_digit fs = true.
Proof.
  intros [neg [ds [fs [-> [Hne [Hd Hf]]]]]]. unfold write_real.
  destruct (real_needs_point (real_text neg ds fs)) eqn:E.
  - destruct fs as [|f0 fs'].
    + exists neg, ds, [x30]. split; [|auto]. unfold real_text. rewrite <- !app_assoc. reflexivity.
    + rewrite needs_point_frac in E by (auto; discriminate). discriminate.
  - exists neg, ds, fs. auto.
Qed.

Lemma alts_real elem cont ar n r rest :
  real_wf r -> num_follow ar rest ->
  object_alts_c elem cont ar n (write_real r ++ rest) = POk (norm_real r) rest.
Proof.
  intros Hw Hf. destruct (write_real_text r Hw) as [neg [ds [fs [E [Hne [Hd _]]]]]].
  destruct (real_rt r rest Hw (proj1 Hf)) as [[r' [En Er]]|[z [En [Er Ei]]]]; rewrite E in *.
  - rewrite (alts_number elem cont ar n _ _ _ rest r' 0%Z Hne Hd Hf) by (left; assumption).
    rewrite Er, En. reflexivity.
  - rewrite (alts_number elem cont ar n _ _ _ rest [] z Hne Hd Hf) by (right; split; assumption).
    rewrite Er, En. reflexivity.
Qed.

Lemma digits_tok ds tail : ds <> [] -> forallb is_dec_digit ds = true -> tok_start (ds ++ tail) = true.
Proof.
  intros Hne Hd. destruct (digits_cons ds Hne Hd) as [c [t [-> Hc]]]. cbn [app].
  apply obj_lead_tok, digit_lead, Hc.
Qed.

Lemma alts_ref elem cont n i g rest :
  i <= u32_max -> g <= u16_max ->
  object_alts_c elem cont true n (write_object (ORef i g) ++ rest) = POk (ORef i g) rest.
Proof.
  intros Hi Hg. cbn [write_object]. rewrite <- app_assoc. cbn [app]. rewrite <- app_assoc. cbn [app].
  destruct (N_dec_cons i) as [c [t [E Hc]]].
  unfold object_alts_c.
  assert (null (N_dec i ++ x20 :: N_dec g ++ x20 :: x52 :: rest) = PErr) as ->
    by (rewrite E; apply null_err, (digit_facts c Hc)).
  assert (boolean (N_dec i ++ x20 :: N_dec g ++ x20 :: x52 :: rest) = PErr) as ->
    by (rewrite E; apply boolean_err; apply (digit_facts c Hc)).
  cbn [palt]. unfold reference, object_id.
  rewrite (unsigned_int_rt u32_max i _ Hi) by reflexivity. cbn [pbind].
  rewrite space_sp, (space_tok _ (digits_tok _ _ (N_dec_nonempty g) (N_dec_digits g))).
  rewrite (unsigned_int_rt u16_max g _ Hg) by reflexivity. cbn [pbind]. reflexivity.
Qed.

(* ---------- what may follow a token, and the separator rule ---------- *)

Definition follow_ok (ar : bool) (o : obj) (rest : bytes) : Prop :=
  match o with
  | OInt _ | OReal _ => num_follow ar rest
  | OName _ => name_follow rest = true
  | ONull | OBool _ => kw_follow rest
  | _ => True
  end.

Definition noR (s : bytes) : bool := negb (prefixb [x52] (space s)).

(* the condition every continuation produced inside an array or a dictionary satisfies *)
Definition cont_ok (rest : bytes) : Prop :=
  starts_with is_regular rest = false /\ ref_tail rest = false /\ noR rest = true.

Definition regular_facts (c : byte) : bool := negb (digit_or_point c) || is_regular c.
Lemma regular_sweep : byte_forallb regular_facts = true.
Proof. vm_compute. reflexivity. Qed.

Lemma not_regular_follow rest :
  starts_with is_regular rest = false -> starts_with digit_or_point rest = false.
Proof.
  destruct rest as [|c t]; [reflexivity|]. cbn [starts_with]. intro H.
  pose proof (byte_forallb_spec _ regular_sweep c) as K. unfold regular_facts in K.
  rewrite H in K. rewrite orb_false_r in K. apply negb_true_iff in K. exact K.
Qed.

Lemma cont_follow ar o rest : cont_ok rest -> follow_ok ar o rest.
Proof.
  intros [H1 [H2 H3]]. destruct o; cbn [follow_ok]; try exact I; try exact H1.
  - split; [apply not_regular_follow; exact H1|intros _; exact H2].
  - split; [apply not_regular_follow; exact H1|intros _; exact H2].
  - unfold name_follow. rewrite H1. reflexivity.
Qed.

Lemma follow_nil ar o : follow_ok ar o [].
Proof. destruct o; cbn [follow_ok]; try exact I; try reflexivity; split; reflexivity. Qed.

(* delimiters that begin or end a composite: / ( < [ ] > *)
Definition delim_lead (c : byte) : bool :=
  byte_eqb c x2f || byte_eqb c x28 || byte_eqb c x3c || byte_eqb c x5b || byte_eqb c x5d || byte_eqb c x3e.

Lemma cont_lead c s : delim_lead c = true -> cont_ok (c :: s).
Proof. intro H. destruct c; try discriminate H; repeat split; reflexivity. Qed.

Lemma cont_keyword rest : 
  cont_ok (x20 :: bs "null" ++ rest) /\ cont_ok (x20 :: bs "true" ++ rest) /\ cont_ok (x20 :: bs "false" ++ rest).
Proof. repeat split; reflexivity. Qed.

Lemma digit_or_minus_facts c : (c = x2d \/ is_dec_digit c = true) ->
  is_whitespace c = false /\ byte_eqb c x25 = false /\ byte_eqb x52 c = false.
Proof.
  intros [->|H]; [repeat split; reflexivity|]. destruct c; try discriminate H; repeat split; reflexivity.
Qed.

(* a separated number keeps the continuation condition *)
Lemma cont_number neg ds fs rest :
  ds <> [] -> forallb is_dec_digit ds = true -> forallb is_dec_digit fs = true ->
  cont_ok rest -> cont_ok (x20 :: real_text neg ds fs ++ rest).
Proof.
  intros Hne Hd Hfs [H1 [H2 H3]].
  destruct (real_text_lead neg ds fs Hne Hd) as [c [t [E Hc]]].
  destruct (digit_or_minus_facts c Hc) as [F1 [F2 F3]].
  assert (Hsp : space (x20 :: real_text neg ds fs ++ rest) = real_text neg ds fs ++ rest).
  { rewrite space_sp. apply space_tok. rewrite E. cbn [app tok_start]. rewrite F1, F2. reflexivity. }
  split; [reflexivity|]. split.
  - unfold ref_tail. rewrite Hsp. rewrite real_text_app. destruct neg; cbn [app]; [reflexivity|].
    assert (Hs : starts_with is_dec_digit (frac_text fs ++ rest) = false).
    { destruct fs; [|reflexivity]. cbn [frac_text app]. apply digit_or_point_digit, not_regular_follow, H1. }
    unfold unsigned_int. rewrite (take_while_app _ _ _ Hd Hs), (match_nonempty _ _ _ Hne).
    destruct (digits_val ds <=? u16_max); [|reflexivity].
    destruct fs as [|f0 fs']; cbn [frac_text app].
    + unfold noR in H3. apply negb_true_iff in H3. exact H3.
    + reflexivity.
  - unfold noR. rewrite Hsp, E. cbn [app prefixb]. rewrite F3. reflexivity.
Qed.

Lemma cont_ref i g rest : cont_ok (x20 :: write_object (ORef i g) ++ rest).
Proof.
  cbn [write_object]. rewrite <- app_assoc. cbn [app]. rewrite <- app_assoc. cbn [app].
  destruct (N_dec_cons i) as [c [t [E Hc]]].
  destruct (digit_or_minus_facts c (or_intror Hc)) as [F1 [F2 F3]].
  assert (Hsp : space (x20 :: N_dec i ++ x20 :: N_dec g ++ x20 :: x52 :: rest) = N_dec i ++ x20 :: N_dec g ++ x20 :: x52 :: rest).
  { rewrite space_sp. apply space_tok, digits_tok; [apply N_dec_nonempty|apply N_dec_digits]. }
  split; [reflexivity|]. split.
  - unfold ref_tail. rewrite Hsp. unfold unsigned_int.
    rewrite (take_while_app _ _ _ (N_dec_digits i)) by reflexivity.
    rewrite (match_nonempty _ _ _ (N_dec_nonempty i)).
    destruct (_ <=? u16_max); [|reflexivity].
    rewrite space_sp, (space_tok _ (digits_tok _ _ (N_dec_nonempty g) (N_dec_digits g))).
    destruct (N_dec_cons g) as [c2 [t2 [E2 Hc2]]]. rewrite E2. cbn [app prefixb].
    destruct (digit_or_minus_facts c2 (or_intror Hc2)) as [_ [_ G3]]. rewrite G3. reflexivity.
  - unfold noR. rewrite Hsp, E. cbn [app prefixb]. rewrite F3. reflexivity.
Qed.

Lemma need_sep_cases o : obj_wf o ->
  (need_separator o = true /\ (o = ONull \/ (exists b, o = OBool b) \/ (exists z, o = OInt z) \/
                              (exists r, o = OReal r) \/ exists i g, o = ORef i g)) \/
  (need_separator o = false /\ exists c t, write_object o = c :: t /\ delim_lead c = true).
Proof.
  intro H. destruct H as [|b|z Hz|r Hr|n|s h|l Hl|d Hn Hd|i g Hi Hg].
  - left. split; [reflexivity|]. auto.
  - left. split; [reflexivity|]. eauto.
  - left. split; [reflexivity|]. eauto 6.
  - left. split; [reflexivity|]. eauto 6.
  - right. split; [reflexivity|]. eexists _, _. split; reflexivity.
  - right. split; [reflexivity|]. destruct h; eexists _, _; split; reflexivity.
  - right. split; [reflexivity|]. eexists _, _. split; reflexivity.
  - right. split; [reflexivity|]. eexists _, _. split; reflexivity.
  - left. split; [reflexivity|]. eauto 8.
Qed.

(* the writer's separator rule establishes the continuation condition *)
Theorem cont_elem x rest :
  obj_wf x -> cont_ok rest -> cont_ok (sp_if (need_separator x) ++ write_object x ++ rest).
Proof.
  intros Hw Hc. destruct (need_sep_cases x Hw) as [[E Hk]|[E [c [t [Ew Hl]]]]]; rewrite E; cbn [sp_if app].
  - destruct Hk as [->|[[b ->]|[[z ->]|[[r ->]|[i [g ->]]]]]].
    + apply cont_keyword.
    + destruct b; apply cont_keyword.
    + cbn [write_object]. rewrite Z_dec_text.
      apply cont_number; auto using N_dec_nonempty, N_dec_digits.
    + inversion Hw; subst. cbn [write_object].
      destruct (write_real_text r H0) as [neg [ds [fs [-> [Hne [Hd Hf]]]]]].
      apply cont_number; auto.
    + apply cont_ref.
  - rewrite Ew. cbn [app]. apply cont_lead. exact Hl.
Qed.

(* and white space skipping removes exactly the separator *)
Lemma space_elem x rest :
  obj_wf x -> space (sp_if (need_separator x) ++ write_object x ++ rest) = write_object x ++ rest.
Proof.
  intro Hw. destruct (write_object_lead x Hw) as [c [t [E Hl]]].
  assert (Ht : tok_start (write_object x ++ rest) = true) by (rewrite E; apply obj_lead_tok; exact Hl).
  destruct (need_separator x); cbn [sp_if app]; [rewrite space_sp|]; apply space_tok; exact Ht.
Qed.

Lemma name_follow_elem x rest :
  obj_wf x -> name_follow (sp_if (need_separator x) ++ write_object x ++ rest) = true.
Proof.
  intro Hw. destruct (need_sep_cases x Hw) as [[E _]|[E [c [t [Ew Hl]]]]]; rewrite E; cbn [sp_if app].
  - reflexivity.
  - rewrite Ew. cbn [app]. unfold name_follow. cbn [starts_with].
    destruct c; try discriminate Hl; reflexivity.
Qed.

(* ---------- arrays and dictionaries as the writer lays them out ---------- *)

Fixpoint write_arr_tail (l : list obj) : bytes :=
  match l with
  | [] => []
  | x :: l' => sp_if (need_separator x) ++ write_object x ++ write_arr_tail l'
  end.
Definition arr_items (l : list obj) : bytes :=
  match l with [] => [] | x :: l' => write_object x ++ write_arr_tail l' end.
Fixpoint write_dict_body (d : dict) : bytes :=
  match d with
  | [] => []
  | (k, v) :: d' => write_name k ++ sp_if (need_separator v) ++ write_object v ++ write_dict_body d'
  end.

Lemma write_arr_eq l : write_object (OArr l) = x5b :: arr_items l ++ [x5d].
Proof.
  reflexivity.
Qed.

Lemma write_dict_eq d : write_object (ODict d) = x3c :: x3c :: write_dict_body d ++ [x3e; x3e].
Proof.
  reflexivity.
Qed.

Lemma cont_arr_tail l rest : Forall obj_wf l -> cont_ok (write_arr_tail l ++ x5d :: rest).
Proof.
  induction 1 as [|x l Hx Hl IH]; cbn [write_arr_tail app]; [apply cont_lead; reflexivity|].
  rewrite <- !app_assoc. apply cont_elem; assumption.
Qed.

Lemma space_arr_tail l rest :
  Forall obj_wf l -> space (write_arr_tail l ++ x5d :: rest) = arr_items l ++ x5d :: rest.
Proof.
  intro H. destruct H as [|x l Hx Hl]; [reflexivity|].
  cbn [write_arr_tail arr_items]. rewrite <- !app_assoc. apply space_elem. exact Hx.
Qed.

Lemma arr_items_le l : (length (arr_items l) <= length (write_arr_tail l))%nat.
Proof. destruct l as [|x l]; cbn [arr_items write_arr_tail]; [lia|]. rewrite !app_length. lia. Qed.

Lemma write_object_nonempty o : obj_wf o -> (1 <= length (write_object o))%nat.
Proof. intro H. destruct (write_object_lead o H) as [c [t [E _]]]. rewrite E. cbn. lia. Qed.

(* container nesting depth: 0 for scalars *)
Fixpoint nest (o : obj) : nat :=
  match o with
  | OArr l => S (fold_right (fun x m => Nat.max (nest x) m) 0%nat l)
  | ODict d => S (fold_right (fun kv m => Nat.max (nest (snd kv)) m) 0%nat d)
  | OStream d _ => S (fold_right (fun kv m => Nat.max (nest (snd kv)) m) 0%nat d)
  | _ => 0%nat
  end.
Definition nest_list (l : list obj) : nat := fold_right (fun x m => Nat.max (nest x) m) 0%nat l.
Definition nest_dict (d : dict) : nat := fold_right (fun kv m => Nat.max (nest (snd kv)) m) 0%nat d.

Section Loops.
  Variable f : nat.
  Variable dp : nat.     (* the depth at which the elements are parsed *)
  Let elem := direct_objects_at (S f) dp.

  (* the property of one element that the loops need *)
  Definition elem_rt (x : obj) : Prop :=
    forall rest, cont_ok rest -> (length (write_object x ++ rest) <= f)%nat ->
                 elem (write_object x ++ rest) = POk (norm_obj x) rest.

  Lemma elem_close c s : no_lead c = true -> elem (c :: s) = PErr.
  Proof. intro H. unfold elem. cbn [direct_objects_at]. apply alts_no_lead. exact H. Qed.

  Lemma many0_arr : forall l rest n,
    Forall elem_rt l -> Forall obj_wf l ->
    (length (arr_items l ++ x5d :: rest) <= f)%nat -> (length (arr_items l ++ x5d :: rest) <= n)%nat ->
    many0_direct elem n (arr_items l ++ x5d :: rest) = POk (map norm_obj l) (x5d :: rest).
  Proof.
    induction l as [|x l IH]; intros rest n He Hw Hf Hn.
    - cbn [arr_items app] in *. destruct n as [|n]; [cbn in Hn; lia|]. cbn [many0_direct].
      rewrite elem_close by reflexivity. reflexivity.
    - inversion He as [|? ? Hex Hel]; subst. inversion Hw as [|? ? Hwx Hwl]; subst.
      cbn [arr_items] in *. rewrite <- app_assoc in *.
      pose proof (write_object_nonempty x Hwx) as H1.
      pose proof (arr_items_le l) as H2.
      rewrite !app_length in Hf, Hn. cbn [length] in Hf, Hn.
      destruct n as [|n]; [lia|]. cbn [many0_direct].
      rewrite (Hex _ (cont_arr_tail l rest Hwl)) by (rewrite !app_length; cbn [length]; lia).
      rewrite (space_arr_tail l rest Hwl).
      rewrite IH; [reflexivity|assumption|assumption| |]; rewrite app_length; cbn [length]; lia.
  Qed.

  Lemma array_rt l rest n :
    Forall elem_rt l -> Forall obj_wf l ->
    (length (write_object (OArr l) ++ rest) <= S f)%nat -> (length (write_object (OArr l) ++ rest) <= S n)%nat ->
    array_p elem n (write_object (OArr l) ++ rest) = POk (map norm_obj l) rest.
  Proof.
    intros He Hw Hf Hn. rewrite write_arr_eq in *. cbn [app] in *. rewrite <- app_assoc in *. cbn [app length] in *.
    unfold array_p.
    assert (Hs : space (arr_items l ++ x5d :: rest) = arr_items l ++ x5d :: rest).
    { destruct l as [|x l]; [reflexivity|]. inversion Hw; subst. cbn [arr_items]. rewrite <- app_assoc.
      destruct (write_object_lead x H1) as [c [t [E Hl]]]. apply space_tok. rewrite E. apply obj_lead_tok. exact Hl. }
    rewrite Hs, many0_arr by (assumption || lia). cbn [pbind]. reflexivity.
  Qed.

  Definition set_kv (acc : dict) (kv : bytes * obj) : dict := dict_set acc (fst kv) (norm_obj (snd kv)).

  Lemma dict_body_tok d rest : tok_start (write_dict_body d ++ x3e :: x3e :: rest) = true.
  Proof. destruct d as [|[k v] d]; reflexivity. Qed.

  Lemma dict_body_cont d rest : cont_ok (write_dict_body d ++ x3e :: x3e :: rest).
  Proof. destruct d as [|[k v] d]; apply cont_lead; reflexivity. Qed.

  Lemma inner_dict_rt : forall d rest n acc,
    Forall (fun kv => elem_rt (snd kv)) d -> Forall (fun kv => obj_wf (snd kv)) d ->
    (length (write_dict_body d ++ x3e :: x3e :: rest) <= f)%nat ->
    (length (write_dict_body d ++ x3e :: x3e :: rest) <= n)%nat ->
    inner_dictionary elem n (write_dict_body d ++ x3e :: x3e :: rest) acc =
    POk (fold_left set_kv d acc) (x3e :: x3e :: rest).
  Proof.
    induction d as [|[k v] d IH]; intros rest n acc He Hw Hf Hn.
    - cbn [write_dict_body app] in *. destruct n as [|n]; [cbn in Hn; lia|]. reflexivity.
    - inversion He as [|? ? Hex Hel]; subst. inversion Hw as [|? ? Hwx Hwl]; subst. cbn [fst snd] in *.
      cbn [write_dict_body fst snd] in *. rewrite <- !app_assoc in *.
      pose proof (write_object_nonempty v Hwx) as H1.
      rewrite !app_length in Hf, Hn.
      destruct n as [|n]; [unfold write_name in Hn; cbn [length] in Hn; lia|]. cbn [inner_dictionary].
      rewrite (name_rt k _ (name_follow_elem v _ Hwx)).
      rewrite (space_elem v _ Hwx).
      rewrite (Hex _ (dict_body_cont d rest)) by (rewrite !app_length; unfold write_name in Hf; cbn [length] in *; lia).
      rewrite (space_tok _ (dict_body_tok d rest)).
      rewrite IH; [reflexivity|assumption|assumption| |];
        unfold write_name in Hf, Hn; rewrite ?app_length; cbn [length] in *; lia.
  Qed.
End Loops.

(* IndexMap::insert of fresh keys appends *)
Lemma dict_set_fresh acc k v : ~ In k (map fst acc) -> dict_set acc k v = acc ++ [(k, v)].
Proof.
  induction acc as [|[k' v'] acc IH]; intro H; [reflexivity|]. cbn [dict_set map fst In app] in *.
  destruct (bytes_eqb k' k) eqn:E.
  - apply bytes_eqb_eq in E. subst. exfalso. apply H. left. reflexivity.
  - rewrite IH by tauto. reflexivity.
Qed.

Lemma fold_set_kv : forall d acc,
  NoDup (map fst (acc ++ d)) -> fold_left set_kv d acc = acc ++ norm_dict d.
Proof.
  induction d as [|[k v] d IH]; intros acc H; cbn [fold_left norm_dict map]; [rewrite app_nil_r; reflexivity|].
  unfold set_kv at 2. cbn [fst snd].
  assert (Hk : ~ In k (map fst acc)).
  { rewrite map_app in H. apply NoDup_remove_2 in H. intro K. apply H. apply in_or_app. left. exact K. }
  rewrite (dict_set_fresh acc k _ Hk), IH.
  - rewrite <- app_assoc. reflexivity.
  - rewrite <- app_assoc. rewrite !map_app in *. exact H.
Qed.

Lemma dictionary_rt f dp d rest n :
  Forall (fun kv => elem_rt f dp (snd kv)) d -> Forall (fun kv => obj_wf (snd kv)) d -> NoDup (map fst d) ->
  (length (write_object (ODict d) ++ rest) <= S (S f))%nat -> (length (write_object (ODict d) ++ rest) <= S (S n))%nat ->
  dictionary_p (direct_objects_at (S f) dp) n (write_object (ODict d) ++ rest) = POk (norm_dict d) rest.
Proof.
  intros He Hw Hnd Hf Hn. rewrite write_dict_eq in *. cbn [app] in *. rewrite <- app_assoc in *. cbn [app length] in *.
  unfold dictionary_p. rewrite (space_tok _ (dict_body_tok d rest)).
  rewrite inner_dict_rt by (assumption || lia). cbn [pbind].
  rewrite (fold_set_kv d [] Hnd). reflexivity.
Qed.

Lemma nest_list_le l dp : (nest_list l <= dp)%nat -> Forall (fun x => (nest x <= dp)%nat) l.
Proof.
  induction l as [|x l IH]; intro H; constructor; cbn [nest_list fold_right] in H; [lia|].
  apply IH. unfold nest_list. lia.
Qed.
Lemma nest_dict_le d dp : (nest_dict d <= dp)%nat -> Forall (fun kv => (nest (snd kv) <= dp)%nat) d.
Proof.
  induction d as [|x d IH]; intro H; constructor; cbn [nest_dict fold_right] in H; [lia|].
  apply IH. unfold nest_dict. lia.
Qed.

(* ---------- the round trip ---------- *)

Definition ref_ok (ar : bool) (o : obj) : Prop :=
  match o with ORef _ _ => ar = true | _ => True end.

Lemma ref_ok_true o : ref_ok true o.
Proof. destruct o; try exact I; reflexivity. Qed.

(* [depth] is the parser's depth argument: the number of container levels still allowed *)
Theorem object_rt : forall o ar rest f depth,
  obj_wf o -> ref_ok ar o -> follow_ok ar o rest ->
  (length (write_object o ++ rest) <= f)%nat -> (nest o <= depth)%nat ->
  object_alts_c (direct_objects_at f (pred depth)) (depth_ok depth) ar f (write_object o ++ rest) =
  POk (norm_obj o) rest.
Proof.
  induction o as [|b|z|r|n|s h|l Hl|d Hd|d c Hd|i g] using obj_rt_ind; intros ar rest f depth Hw Hr Hf Hlen Hdp;
    inversion Hw; subst.
  - apply alts_null. exact Hf.
  - destruct b; [apply alts_true|apply alts_false]; exact Hf.
  - apply alts_int; assumption.
  - apply alts_real; assumption.
  - apply alts_name. exact Hf.
  - destruct h; [apply alts_hex|apply alts_literal; exact Hlen].
  - (* array *)
    destruct f as [|f]; [rewrite write_arr_eq in Hlen; cbn in Hlen; lia|].
    cbn [nest] in Hdp. fold (nest_list l) in Hdp.
    destruct depth as [|dp]; [lia|]. cbn [pred depth_ok].
    assert (He : Forall (elem_rt f dp) l).
    { pose proof (nest_list_le l dp ltac:(lia)) as Hn. clear - Hl H0 Hn.
      induction Hl as [|x l Hx Hl IH]; constructor.
      - inversion H0; subst. inversion Hn; subst. intros rest Hc Hlen. cbn [direct_objects_at].
        apply Hx; [assumption|apply ref_ok_true|apply cont_follow; exact Hc|exact Hlen|assumption].
      - inversion H0; subst. inversion Hn; subst. apply IH; assumption. }
    pose proof (array_rt f dp l rest (S f) He H0 Hlen ltac:(lia)) as E.
    rewrite write_arr_eq in *. cbn [app] in *.
    rewrite alts_nonnum by reflexivity. unfold alts_tail.
    rewrite name_err, literal_err, hex_err by reflexivity. cbn [pmap palt].
    rewrite E. reflexivity.
  - (* dictionary *)
    destruct f as [|f]; [rewrite write_dict_eq in Hlen; cbn in Hlen; lia|].
    cbn [nest] in Hdp. fold (nest_dict d) in Hdp.
    destruct depth as [|dp]; [lia|]. cbn [pred depth_ok].
    assert (He : Forall (fun kv => elem_rt f dp (snd kv)) d).
    { pose proof (nest_dict_le d dp ltac:(lia)) as Hn. clear - Hd H1 Hn.
      induction Hd as [|[k x] d Hx Hdd IH]; constructor.
      - inversion H1; subst. inversion Hn; subst. cbn [snd] in *. intros rest Hc Hlen. cbn [direct_objects_at].
        apply Hx; [assumption|apply ref_ok_true|apply cont_follow; exact Hc|exact Hlen|assumption].
      - inversion H1; subst. inversion Hn; subst. apply IH; assumption. }
    pose proof (dictionary_rt f dp d rest (S f) He H1 H0 ltac:(lia) ltac:(lia)) as E.
    rewrite write_dict_eq in *. cbn [app] in *.
    rewrite alts_nonnum by reflexivity. unfold alts_tail.
    rewrite name_err, literal_err by reflexivity. cbn [pmap palt].
    assert (hexadecimal_string (x3c :: x3c :: (write_dict_body d ++ [x3e; x3e]) ++ rest) = PErr) as -> by reflexivity.
    rewrite array_err by reflexivity. cbn [pmap palt].
    rewrite E. reflexivity.
  - destruct ar; [|discriminate Hr]. apply alts_ref; assumption.
Qed.

(* ---------- corollaries for the entry points ---------- *)

Theorem direct_objects_at_rt o rest f depth :
  obj_wf o -> follow_ok true o rest -> (length (write_object o ++ rest) < f)%nat -> (nest o <= depth)%nat ->
  direct_objects_at f depth (write_object o ++ rest) = POk (norm_obj o) rest.
Proof.
  intros Hw Hf Hlen Hd. destruct f as [|f]; [lia|]. cbn [direct_objects_at].
  apply object_rt; [assumption|apply ref_ok_true|assumption|lia|assumption].
Qed.

Theorem direct_objects_rt o rest f :
  obj_wf o -> follow_ok true o rest -> (length (write_object o ++ rest) < f)%nat -> (nest o <= MAX_DEPTH)%nat ->
  direct_objects f (write_object o ++ rest) = POk (norm_obj o) rest.
Proof. intros. unfold direct_objects. apply direct_objects_at_rt; assumption. Qed.

Theorem direct_object_rt o rest f :
  obj_wf o -> follow_ok true o rest -> (length (write_object o ++ rest) < f)%nat -> (nest o <= MAX_DEPTH)%nat ->
  direct_object f (write_object o ++ rest) = POk (norm_obj o) (space rest).
Proof. intros. unfold direct_object. rewrite direct_objects_rt by assumption. reflexivity. Qed.

Theorem parse_direct_object_rt o :
  obj_wf o -> (nest o <= MAX_DEPTH)%nat -> parse_direct_object (write_object o) = Some (norm_obj o).
Proof.
  intros Hw Hd. unfold parse_direct_object.
  pose proof (direct_object_rt o [] (fuel_for (write_object o)) Hw (follow_nil true o)) as E.
  rewrite app_nil_r in E. rewrite E; [reflexivity| |assumption]. unfold fuel_for. lia.
Qed.

(* the standalone dictionary parser (trailer, stream dictionary) *)
Theorem dictionary_entry_rt d rest f :
  obj_wf (ODict d) -> (length (write_object (ODict d) ++ rest) < f)%nat -> (nest (ODict d) <= MAX_DEPTH)%nat ->
  dictionary f (write_object (ODict d) ++ rest) = POk (norm_dict d) rest.
Proof.
  intros Hw Hlen Hd. inversion Hw; subst. unfold dictionary. destruct f as [|f]; [lia|].
  destruct f as [|f]; [rewrite write_dict_eq in Hlen; cbn in Hlen; lia|].
  cbn [nest] in Hd. fold (nest_dict d) in Hd.
  destruct MAX_DEPTH as [|dp] eqn:EM; [lia|]. cbn [depth_ok pred].
  apply dictionary_rt; [|assumption|assumption|lia|lia].
  pose proof (nest_dict_le d dp ltac:(lia)) as Hn. clear - H1 Hn.
  induction H1 as [|[k x] d Hx Hdd IH]; constructor.
  - inversion Hn; subst. cbn [snd] in *. intros rest Hc Hlen. cbn [direct_objects_at].
    apply object_rt; [assumption|apply ref_ok_true|apply cont_follow; exact Hc|exact Hlen|assumption].
  - inversion Hn; subst. apply IH; assumption.
Qed.

(* beyond the limit the parser gives up: nesting deeper than MAX_BRACKET is not read back *)
(* ---------- the normal form is stable ---------- *)

Lemma norm_real_cases r : real_wf r ->
  (exists z, norm_real r = OInt z /\ in_i64 z = true) \/
  (exists r', norm_real r = OReal r' /\ real_wf r' /\ norm_real r' = OReal r').
Proof.
  intros [neg [ds [fs [-> [Hne [Hd Hf]]]]]]. destruct fs as [|f0 fs].
  - rewrite (norm_real_int neg ds Hne Hd). destruct (REAL_POINT_DISPLAY_THRESHOLD <=? digits_val ds) eqn:E.
    + right. exists (real_text neg ds [x30]). split; [reflexivity|]. split.
      * exists neg, ds, [x30]. repeat split; auto.
      * apply norm_real_frac; auto. discriminate.
    + left. eexists. split; [reflexivity|]. apply below_threshold_i64. exact E.
  - right. rewrite (norm_real_frac neg ds (f0 :: fs) Hne Hd) by discriminate.
    eexists. split; [reflexivity|]. split.
    + exists neg, ds, (f0 :: fs). repeat split; auto.
    + apply norm_real_frac; auto. discriminate.
Qed.

Lemma map_fst_norm d : map fst (norm_dict d) = map fst d.
Proof. unfold norm_dict. rewrite map_map. reflexivity. Qed.

Theorem norm_obj_wf o : obj_wf o -> obj_wf (norm_obj o) /\ norm_obj (norm_obj o) = norm_obj o.
Proof.
  induction o as [|b|z|r|n|s h|l Hl|d Hd|d c Hd|i g] using obj_rt_ind; intro Hw; inversion Hw; subst;
    cbn [norm_obj]; try (split; [assumption|reflexivity]).
  - destruct (norm_real_cases r H0) as [[z [-> Hz]]|[r' [-> [Hr' Hn]]]].
    + split; [constructor; exact Hz|reflexivity].
    + split; [constructor; exact Hr'|exact Hn].
  - assert (Forall obj_wf (map norm_obj l) /\ map norm_obj (map norm_obj l) = map norm_obj l) as [A B].
    { clear Hw. induction Hl as [|x l Hx Hl IH]; [split; [constructor|reflexivity]|].
      inversion H0; subst. destruct (Hx H2) as [X1 X2]. destruct (IH H3) as [Y1 Y2].
      cbn [map]. split; [constructor; assumption|rewrite X2, Y2; reflexivity]. }
    split; [constructor; exact A|cbn [norm_obj]; rewrite B; reflexivity].
  - fold (norm_dict d).
    assert (Forall (fun kv => obj_wf (snd kv)) (norm_dict d) /\ norm_dict (norm_dict d) = norm_dict d) as [A B].
    { clear Hw H0. induction Hd as [|[k x] d Hx Hdd IH]; [split; [constructor|reflexivity]|].
      inversion H1; subst. cbn [snd] in *. destruct (Hx H2) as [X1 X2]. destruct (IH H3) as [Y1 Y2].
      unfold norm_dict in *. cbn [map fst snd] in *. split; [constructor; assumption|]. rewrite X2. f_equal. exact Y2. }
    split; [constructor; [rewrite map_fst_norm; assumption|exact A]|].
    change (ODict (norm_dict (norm_dict d)) = ODict (norm_dict d)). f_equal. exact B.
Qed.
