(* EditProofsKF.v -- C11: the class predicates of the three open known findings (boolean, mirrored by the
   harness on the document before the call) and their witnesses: the faithful model shows the defect. *)
From LV Require Import Base.Bytes Model.Obj Model.DocQ Model.PageTree Model.Traverse Model.Edit
  Model.StreamFilt Spec.AbstractDoc Proofs.EditProofs Proofs.EditProofsEx Model.EditV0.

(* streams without a filter decode to themselves; the witnesses use nothing else *)
Definition decode0 (sd : dict) (c : bytes) : bytes := c.

(* ---- class C11-content-indirect: Contents is present and is neither a reference that directly names a
   stream nor a direct array of such references ---- *)
Definition is_stream_ref (m : objmap) (o : obj) : bool :=
  match o with
  | ORef i g => match lookup m (i, g) with Some (OStream _ _) => true | _ => false end
  | _ => false
  end.

Definition contents_plain (m : objmap) (page : oid) : bool :=
  match get_dictionary m page with
  | Some pd => match dict_get pd K_Contents with
               | None => true
               | Some (OArr l) => forallb (is_stream_ref m) l
               | Some o => is_stream_ref m o
               end
  | None => true
  end.
Definition KnownClass_content_indirect (d : doc) (page : oid) : bool := negb (contents_plain (d_objects d) page).

(* ---- class C11-content-shared: a content stream of the page is used by another page, or twice ---- *)
Fixpoint has_dup (l : list oid) : bool :=
  match l with [] => false | x :: l' => mem_oid x l' || has_dup l' end.
(* content stream ids are compared after following reference objects to the object they end at *)
Definition resolve_id (m : objmap) (id : oid) : oid :=
  match dereference m (ORef (fst id) (snd id)) with Some (Some r, _) => r | _ => id end.
Definition content_ids (m : objmap) (page : oid) : list oid := map (resolve_id m) (get_page_contents m page).
Definition KnownClass_content_shared (d : doc) (page : oid) : bool :=
  let m := d_objects d in
  let mine := content_ids m page in
  has_dup mine ||
  existsb (fun p => negb (oid_eqb (resolve_id m p) (resolve_id m page)) && existsb (fun i => mem_oid i mine) (content_ids m p)) (page_iter d) ||
  (1 <? length (filter (oid_eqb page) (page_iter d)))%nat.

(* ---- class C11-resources-shadow: no Resources of its own, but an ancestor provides a non-empty one ---- *)
Definition KnownClass_resources_shadow (d : doc) (page : oid) : bool :=
  match get_dictionary (d_objects d) page with
  | Some pd => negb (dict_has pd K_Resources) &&
               match effective_resources (d_objects d) page with Some (_ :: _) => true | _ => false end
  | None => false
  end.

(* ---------- witnesses (Proofs/EditProofsEx.v: catalog 1, Pages 2 with inheritable Font F1, pages 3 and 4
   sharing content stream 5) ---------- *)
Definition K_Im1 := Eval cbv in bs "Im1".

(* add_xobject on page 3, which only inherits, BEFORE the repair (Model/EditV0.v): the inherited font is gone afterwards *)
Theorem resources_shadow_v0_witness :
  KnownClass_resources_shadow ex_doc (3, 0)%N = true /\
  exists d', add_xobject_v0 ex_doc (3, 0)%N K_Im1 (5, 0)%N = (d', OOk) /\
             effective_resources (d_objects ex_doc) (3, 0)%N = Some [(K_Font, K_F1, ORef 6 0)] /\
             effective_resources (d_objects d') (3, 0)%N = Some [(K_XObject, K_Im1, ORef 5 0)] /\
             ~ res_le (effective_resources (d_objects ex_doc) (3, 0)%N) (effective_resources (d_objects d') (3, 0)%N).
Proof.
  split; [vm_compute; reflexivity|]. eexists. split; [vm_compute; reflexivity|].
  split; [vm_compute; reflexivity|]. split; [vm_compute; reflexivity|].
  cbv [res_le]. intro H. destruct (H K_Font K_F1 (ORef 6 0) (or_introl eq_refl)) as [x' [E|[]]].
  inversion E.
Qed.

(* the repaired code on the same document: the page's own dictionary starts as a copy of the inherited one *)
Theorem resources_shadow_repaired_example :
  exists d', step O0 ex_doc (AddXObject (3, 0)%N K_Im1 (5, 0)%N) = (d', OOk) /\
             effective_resources (d_objects d') (3, 0)%N = Some [(K_Font, K_F1, ORef 6 0); (K_XObject, K_Im1, ORef 5 0)] /\
             effective_resources (d_objects d') (4, 0)%N = Some [(K_Font, K_F1, ORef 6 0)].
Proof. eexists. repeat split; vm_compute; reflexivity. Qed.

(* change_page_content on page 3 whose stream is also page 4's: page 4 changes too *)
Theorem content_shared_witness :
  KnownClass_content_shared ex_doc (3, 0)%N = true /\
  exists d', step O0 ex_doc (ChangePageContent (3, 0)%N (bs "BT ET")) = (d', OOk) /\
             page_content decode0 (d_objects ex_doc) (4, 0)%N = Some (bs "q Q") /\
             page_content decode0 (d_objects d') (4, 0)%N = Some (bs "BT ET").
Proof.
  split; [vm_compute; reflexivity|]. eexists. repeat split; vm_compute; reflexivity.
Qed.

(* page 3 of this variant has Contents -> 8 0 R, an array object [5 0 R]: add_page_contents loses the old content *)
Definition ex_doc_ind : doc :=
  {| d_version := d_version ex_doc; d_binary_mark := []; d_trailer := d_trailer ex_doc;
     d_objects := insert (insert (d_objects ex_doc) (3, 0)%N
                            (ODict [(K_Type, OName K_Page); (K_Parent, ORef 2 0); (K_Contents, ORef 8 0)]))
                         (8, 0)%N (OArr [ORef 5 0]);
     d_max_id := 8 |}.

Theorem content_indirect_witness :
  KnownClass_content_indirect ex_doc_ind (3, 0)%N = true /\
  exists d', step O0 ex_doc_ind (AddPageContents (3, 0)%N (bs "BT ET")) = (d', OOk) /\
             page_content decode0 (d_objects ex_doc_ind) (3, 0)%N = Some (bs "q Q") /\
             get_page_content O0 (d_objects ex_doc_ind) (3, 0)%N = Some (bs "q Q") /\
             page_content decode0 (d_objects d') (3, 0)%N = None /\
             get_page_content O0 (d_objects d') (3, 0)%N = Some (bs "BT ET").
Proof.
  split; [vm_compute; reflexivity|]. eexists. repeat split; vm_compute; reflexivity.
Qed.

(* outside the classes the same operations behave, on the same document *)
Theorem content_ok_example :
  KnownClass_content_indirect ex_doc (3, 0)%N = false /\
  exists d', step O0 ex_doc (AddPageContents (3, 0)%N (bs "BT ET")) = (d', OOk) /\
             page_content decode0 (d_objects d') (3, 0)%N = Some (bs "q Q" ++ bs "BT ET") /\
             page_content decode0 (d_objects d') (4, 0)%N = Some (bs "q Q").
Proof.
  split; [vm_compute; reflexivity|]. eexists. repeat split; vm_compute; reflexivity.
Qed.

(* ---------- the pinned code (Model/EditV0.v): the four repaired delete_object defects, one witness ---------- *)
From LV Require Import Model.EditV0 Spec.RenumberSpec.

Definition K_Arr := Eval cbv in bs "Arr".
Definition K_S := Eval cbv in bs "S".
Definition K_X := Eval cbv in bs "X".
Definition K_Via := Eval cbv in bs "Via".
Definition K_Extra := Eval cbv in bs "Extra".

(* 5 0 R occurs twice in an array, in the trailer, in a stream dictionary, and object 4 is nothing but 5 0 R *)
Definition ex_del : doc :=
  {| d_version := bs "1.5"; d_binary_mark := [];
     d_trailer := [(K_Root, ORef 1 0); (K_Extra, ORef 5 0)];
     d_objects :=
       [((1, 0), ODict [(K_Type, OName K_Catalog); (K_Arr, OArr [ORef 5 0; OInt 1; ORef 5 0]); (K_S, ORef 3 0); (K_Via, ORef 4 0)]);
        ((3, 0), OStream [(K_X, ORef 5 0); (K_Length, OInt 0)] []);
        ((4, 0), ORef 5 0);
        ((5, 0), ODict [(K_Type, OName K_Font)])]%N;
     d_max_id := 5 |}.

Theorem delete_v0_refuted :
  exists d' r, delete_object_v0 ex_del (5, 0)%N = Some (d', r) /\
    In (5, 0)%N (refs_of_dict (d_trailer d')) /\
    (exists o, lookup (d_objects d') (1, 0)%N = Some o /\ In (5, 0)%N (refs_of o)) /\
    (exists o, lookup (d_objects d') (3, 0)%N = Some o /\ In (5, 0)%N (refs_of o)) /\
    (exists o, lookup (d_objects d') (4, 0)%N = Some o /\ In (5, 0)%N (refs_of o)) /\
    lookup (d_objects d') (5, 0)%N = None.
Proof.
  eexists. eexists. split; [vm_compute; reflexivity|].
  split; [vm_compute; tauto|].
  split; [eexists; split; [vm_compute; reflexivity | vm_compute; tauto]|].
  split; [eexists; split; [vm_compute; reflexivity | vm_compute; tauto]|].
  split; [eexists; split; [vm_compute; reflexivity | vm_compute; tauto]|].
  vm_compute. reflexivity.
Qed.

(* the repaired code on the same document: nothing is left *)
Theorem delete_v1_same_document :
  exists d' r, delete_object ex_del (5, 0)%N = Some (d', r) /\
    refs_of_dict (d_trailer d') = [(1, 0)%N] /\
    lookup (d_objects d') (1, 0)%N =
      Some (ODict [(K_Type, OName K_Catalog); (K_Arr, OArr [OInt 1]); (K_S, ORef 3 0); (K_Via, ORef 4 0)]) /\
    lookup (d_objects d') (3, 0)%N = Some (OStream [(K_Length, OInt 0)] []) /\
    lookup (d_objects d') (4, 0)%N = Some ONull.
Proof. eexists. eexists. repeat split; vm_compute; reflexivity. Qed.
