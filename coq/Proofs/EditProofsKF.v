(* EditProofsKF.v -- C11: the repaired findings.  For each, the code as it was (Model/EditV0.v) shows the defect on a
   concrete document, and the repaired code (Model/Edit.v) behaves on the same document. *)
From LV Require Import Base.Bytes Model.Obj Model.DocQ Model.PageTree Model.Traverse Model.Edit
  Model.StreamFilt Spec.AbstractDoc Proofs.EditProofs Proofs.EditProofsEx Model.EditV0.

(* streams without a filter decode to themselves; the witnesses use nothing else *)
Definition decode0 (sd : dict) (c : bytes) : bytes := c.

(* ---- class C11-resources-shadow: no Resources of its own, but an ancestor provides a non-empty one ---- *)
Definition KnownClass_resources_shadow (d : doc) (page : oid) : bool :=
  match get_dictionary (d_objects d) page with
  | Some pd => negb (dict_has pd K_Resources) &&
               match effective_resources (d_objects d) page with Some (_ :: _) => true | _ => false end
  | None => false
  end.

(* ---------- witnesses (Proofs/EditProofsEx.v: catalog 1, Pages 2 with inheritable Font F1, pages 3 and 4
   sharing content stream 5) ---------- *)
Definition K_Im1 := Eval cbv in bs "Im1".

(* add_xobject on page 3, which only inherits, BEFORE the repair (Model/EditV0.v): the inherited font is gone afterwards *)
Theorem resources_shadow_v0_witness :
  KnownClass_resources_shadow ex_doc (3, 0)%N = true /\
  exists d', add_xobject_v0 ex_doc (3, 0)%N K_Im1 (5, 0)%N = (d', OOk) /\
             effective_resources (d_objects ex_doc) (3, 0)%N = Some [(K_Font, K_F1, ORef 6 0)] /\
             effective_resources (d_objects d') (3, 0)%N = Some [(K_XObject, K_Im1, ORef 5 0)] /\
             ~ res_le (effective_resources (d_objects ex_doc) (3, 0)%N) (effective_resources (d_objects d') (3, 0)%N).
Proof.
  split; [vm_compute; reflexivity|]. eexists. split; [vm_compute; reflexivity|].
  split; [vm_compute; reflexivity|]. split; [vm_compute; reflexivity|].
  cbv [res_le]. intro H. destruct (H K_Font K_F1 (ORef 6 0) (or_introl eq_refl)) as [x' [E|[]]].
  inversion E.
Qed.

(* the repaired code on the same document: the page's own dictionary starts as a copy of the inherited one *)
Theorem resources_shadow_repaired_example :
  exists d', step O0 ex_doc (AddXObject (3, 0)%N K_Im1 (5, 0)%N) = (d', OOk) /\
             effective_resources (d_objects d') (3, 0)%N = Some [(K_Font, K_F1, ORef 6 0); (K_XObject, K_Im1, ORef 5 0)] /\
             effective_resources (d_objects d') (4, 0)%N = Some [(K_Font, K_F1, ORef 6 0)].
Proof. eexists. repeat split; vm_compute; reflexivity. Qed.

(* C11-content-shared.  change_page_content on page 3 whose stream 5 is also page 4's.  BEFORE the repair (Model/EditV0.v) the
   stream is rewritten in place: page 4 changes too *)
Theorem content_shared_v0_witness :
  exists d', change_page_content_v0 O0 ex_doc (3, 0)%N (bs "BT ET") = (d', OOk) /\
             page_content decode0 (d_objects ex_doc) (4, 0)%N = Some (bs "q Q") /\
             page_content decode0 (d_objects d') (4, 0)%N = Some (bs "BT ET").
Proof. eexists. repeat split; vm_compute; reflexivity. Qed.

(* the repaired code on the same document: stream 5 is left alone, page 3 gets the new stream 8, page 4 shows what it showed *)
Theorem content_shared_repaired_example :
  is_content_stream_of_another_page ex_doc (5, 0)%N (3, 0)%N = true /\
  exists d', step O0 ex_doc (ChangePageContent (3, 0)%N (bs "BT ET")) = (d', OOk) /\
             page_content decode0 (d_objects d') (3, 0)%N = Some (bs "BT ET") /\
             page_content decode0 (d_objects d') (4, 0)%N = Some (bs "q Q") /\
             lookup (d_objects d') (5, 0)%N = lookup (d_objects ex_doc) (5, 0)%N /\
             lookup (d_objects d') (8, 0)%N = Some (new_stream (bs "BT ET")).
Proof. split; [vm_compute; reflexivity|]. eexists. repeat split; vm_compute; reflexivity. Qed.

(* C11-content-indirect.  Page 3 of this variant has Contents -> 8 0 R, an array object [5 0 R] *)
Definition ex_doc_ind : doc :=
  {| d_version := d_version ex_doc; d_binary_mark := []; d_trailer := d_trailer ex_doc;
     d_objects := insert (insert (d_objects ex_doc) (3, 0)%N
                            (ODict [(K_Type, OName K_Page); (K_Parent, ORef 2 0); (K_Contents, ORef 8 0)]))
                         (8, 0)%N (OArr [ORef 5 0]);
     d_max_id := 8 |}.

(* BEFORE the repair (Model/EditV0.v): add_page_contents wraps the reference in a new array whose first item is no stream --
   the old content is gone (for the reader get_page_content, and the abstract content is undefined) -- and
   change_page_content changes nothing at all *)
Theorem content_indirect_v0_witness :
  (exists d', add_page_contents_v0 ex_doc_ind (3, 0)%N (bs "BT ET") = (d', OOk) /\
              page_content decode0 (d_objects ex_doc_ind) (3, 0)%N = Some (bs "q Q") /\
              get_page_content O0 (d_objects ex_doc_ind) (3, 0)%N = Some (bs "q Q") /\
              page_content decode0 (d_objects d') (3, 0)%N = None /\
              get_page_content O0 (d_objects d') (3, 0)%N = Some (bs "BT ET")) /\
  change_page_content_v0 O0 ex_doc_ind (3, 0)%N (bs "BT ET") = (ex_doc_ind, OOk).
Proof. split; [eexists; repeat split; vm_compute; reflexivity | vm_compute; reflexivity]. Qed.

(* the repaired code on the same document: the page shows the old content followed by the new one (abstract content and
   reader agree), page 4 is untouched; change_page_content makes the page show exactly the new content (stream 5 is page
   4's as well, so it is left alone) *)
Theorem content_indirect_repaired_example :
  (exists d', step O0 ex_doc_ind (AddPageContents (3, 0)%N (bs "BT ET")) = (d', OOk) /\
              page_content decode0 (d_objects d') (3, 0)%N = Some (bs "q Q" ++ bs "BT ET") /\
              get_page_content O0 (d_objects d') (3, 0)%N = Some (bs "q Q" ++ bs "BT ET") /\
              page_content decode0 (d_objects d') (4, 0)%N = Some (bs "q Q")) /\
  (exists d', step O0 ex_doc_ind (ChangePageContent (3, 0)%N (bs "BT ET")) = (d', OOk) /\
              page_content decode0 (d_objects d') (3, 0)%N = Some (bs "BT ET") /\
              page_content decode0 (d_objects d') (4, 0)%N = Some (bs "q Q")).
Proof. split; eexists; repeat split; vm_compute; reflexivity. Qed.

(* the direct shapes behave as before the repair *)
Theorem content_ok_example :
  exists d', step O0 ex_doc (AddPageContents (3, 0)%N (bs "BT ET")) = (d', OOk) /\
             page_content decode0 (d_objects d') (3, 0)%N = Some (bs "q Q" ++ bs "BT ET") /\
             page_content decode0 (d_objects d') (4, 0)%N = Some (bs "q Q").
Proof. eexists. repeat split; vm_compute; reflexivity. Qed.

(* ---------- the pinned code (Model/EditV0.v): the four repaired delete_object defects, one witness ---------- *)
From LV Require Import Model.EditV0 Spec.RenumberSpec.

Definition K_Arr := Eval cbv in bs "Arr".
Definition K_S := Eval cbv in bs "S".
Definition K_X := Eval cbv in bs "X".
Definition K_Via := Eval cbv in bs "Via".
Definition K_Extra := Eval cbv in bs "Extra".

(* 5 0 R occurs twice in an array, in the trailer, in a stream dictionary, and object 4 is nothing but 5 0 R *)
Definition ex_del : doc :=
  {| d_version := bs "1.5"; d_binary_mark := [];
     d_trailer := [(K_Root, ORef 1 0); (K_Extra, ORef 5 0)];
     d_objects :=
       [((1, 0), ODict [(K_Type, OName K_Catalog); (K_Arr, OArr [ORef 5 0; OInt 1; ORef 5 0]); (K_S, ORef 3 0); (K_Via, ORef 4 0)]);
        ((3, 0), OStream [(K_X, ORef 5 0); (K_Length, OInt 0)] []);
        ((4, 0), ORef 5 0);
        ((5, 0), ODict [(K_Type, OName K_Font)])]%N;
     d_max_id := 5 |}.

Theorem delete_v0_refuted :
  exists d' r, delete_object_v0 ex_del (5, 0)%N = Some (d', r) /\
    In (5, 0)%N (refs_of_dict (d_trailer d')) /\
    (exists o, lookup (d_objects d') (1, 0)%N = Some o /\ In (5, 0)%N (refs_of o)) /\
    (exists o, lookup (d_objects d') (3, 0)%N = Some o /\ In (5, 0)%N (refs_of o)) /\
    (exists o, lookup (d_objects d') (4, 0)%N = Some o /\ In (5, 0)%N (refs_of o)) /\
    lookup (d_objects d') (5, 0)%N = None.
Proof.
  eexists. eexists. split; [vm_compute; reflexivity|].
  split; [vm_compute; tauto|].
  split; [eexists; split; [vm_compute; reflexivity | vm_compute; tauto]|].
  split; [eexists; split; [vm_compute; reflexivity | vm_compute; tauto]|].
  split; [eexists; split; [vm_compute; reflexivity | vm_compute; tauto]|].
  vm_compute. reflexivity.
Qed.

(* the repaired code on the same document: nothing is left *)
Theorem delete_v1_same_document :
  exists d' r, delete_object ex_del (5, 0)%N = Some (d', r) /\
    refs_of_dict (d_trailer d') = [(1, 0)%N] /\
    lookup (d_objects d') (1, 0)%N =
      Some (ODict [(K_Type, OName K_Catalog); (K_Arr, OArr [OInt 1]); (K_S, ORef 3 0); (K_Via, ORef 4 0)]) /\
    lookup (d_objects d') (3, 0)%N = Some (OStream [(K_Length, OInt 0)] []) /\
    lookup (d_objects d') (4, 0)%N = Some ONull.
Proof. eexists. eexists. repeat split; vm_compute; reflexivity. Qed.
