(* IsoProofs.v -- C06, rungs 1 and 2: lopdf's security handler (Model/Crypto/Handler.v, written from the Rust
   source) computes what ISO 32000 defines (Spec/Crypto/Iso.v, written from the standard), algorithm by
   algorithm.  Every difference in formulation between the two is a lemma here.
   The primitives are the same abstract functions on both sides ([iprims_of P]); what is assumed about them
   is stated where it is used (MD5 yields 16 bytes: otherwise the RC4 keys of Algorithms 3-7 have not the
   length the standard says). *)
From LV Require Import Base.Bytes Base.Sx Model.Obj Model.DocQ Gen.Crypto
  Model.Crypto.Word Model.Crypto.RC4 Model.Crypto.PKCS5 Model.Crypto.Handler
  Spec.Crypto.Iso Spec.Crypto.IsoConcrete Proofs.CryptoProofs Proofs.IsoProofsArith.
Local Open Scope N_scope.

(* the primitives of the model seen as the primitives the standard names *)
Definition iprims_of (P : prims) : iprims :=
  {| i_MD5 := p_md5 P; i_SHA256 := p_sha256 P; i_SHA384 := p_sha384 P; i_SHA512 := p_sha512 P;
     i_RC4 := rc4_total; i_AES_E := p_aes_enc P; i_AES_D := p_aes_dec P |}.

(* ---------- the constants the translator reads out of the Rust source are the standard's ---------- *)
Lemma consts_agree :
  PAD_BYTES = padding_string /\ MD5_ITER = 50 /\ RC4_ITER = 19 /\ AES_SALT = [x73; x41; x6c; x54] /\
  PW_TRUNC = 127 /\ PW_PAD_LEN = 32 /\ PERM_FLAGS = perm_bits_mask /\
  P_RESERVED = perm_reserved_ones + 4294967295 * 4294967296 /\
  HASH_MIN_ROUNDS = 64 /\ HASH_ROUND_OFFSET = 32 /\ KEYLEN_MIN = 40 /\ KEYLEN_MAX = 128.
Proof. repeat split; reflexivity. Qed.

(* ---------- padding: min/slices against append-then-truncate ---------- *)
Lemma pad_pw_eq pw : pad_pw pw = pad32 pw.
Proof.
  unfold pad_pw, pad32. change (N.to_nat PW_PAD_LEN) with 32%nat. change PAD_BYTES with padding_string.
  rewrite firstn_app. f_equal.
  - destruct (Nat.le_gt_cases (length pw) 32) as [H|H].
    + rewrite Nat.min_l by exact H. rewrite !firstn_all2 by lia. reflexivity.
    + rewrite Nat.min_r by lia. reflexivity.
  - f_equal. lia.
Qed.

Lemma pad32_length pw : length (pad32 pw) = 32%nat.
Proof.
  unfold pad32. rewrite firstn_length, app_length. change (length padding_string) with 32%nat. lia.
Qed.

(* ---------- little endian ---------- *)
Lemma byte_lo_eq x : byte_lo x = byte_of_N x.
Proof.
  unfold byte_lo, byte_of_N. change 255 with (N.ones 8). rewrite N.land_ones. reflexivity.
Qed.

Lemma le_bytes_eq n x : N_to_le n x = le_bytes n x.
Proof.
  revert x; induction n as [|n IH]; intro x; [reflexivity|].
  cbn [N_to_le le_bytes]. rewrite byte_lo_eq, IH. f_equal.
  - unfold byte_of_N. rewrite N.mod_mod by lia. reflexivity.
  - f_equal. rewrite N.shiftr_div_pow2. reflexivity.
Qed.

(* ---------- Algorithm 2.B (c): 256 = 1 (mod 3), so the byte sum lopdf takes and the big-endian value the
   standard takes have the same remainder -- for every byte string, not only for 16 bytes ---------- *)
Lemma sum_be_mod3_gen l : forall a b, a mod 3 = b mod 3 ->
  fold_left (fun acc x => acc + N_of_byte x) l a mod 3 = fold_left (fun acc x => acc * 256 + N_of_byte x) l b mod 3.
Proof.
  induction l as [|x l IH]; intros a b H; cbn [fold_left]; [exact H|].
  apply IH.
  rewrite (N.add_mod a), (N.add_mod (b * 256)), (N.mul_mod b 256) by lia.
  change (256 mod 3) with 1. rewrite N.mul_1_r, N.mod_mod by lia. rewrite H. reflexivity.
Qed.

Theorem sum_bytes_mod3 l : sum_bytes l mod 3 = be_value l mod 3.
Proof. unfold sum_bytes, be_value. apply sum_be_mod3_gen. reflexivity. Qed.

(* ---------- permissions: lopdf rebuilds P from its bit flags; for conforming words that is P ---------- *)
Lemma land_small_mod a m k : m = N.land m (N.ones k) -> N.land a m < 2 ^ k.
Proof.
  intro H. rewrite H, N.land_assoc, N.land_ones. apply N.mod_lt. apply N.pow_nonzero. lia.
Qed.

Lemma p_value_flags_sweep :
  below_nat 4096 (fun f => N.lor (N.land f 3900) P_RESERVED =? N.lor (N.land f 3900) 4294963392 + 4294967295 * 4294967296) = true.
Proof. vm_compute. reflexivity. Qed.

Lemma land_low32 x m : m = N.land (N.ones 32) m -> N.land x m = N.land (x mod 2 ^ 32) m.
Proof. intro H. rewrite H at 1. rewrite N.land_assoc, N.land_ones. reflexivity. Qed.

Lemma bit31_ge u : N.testbit u 31 = true -> 2147483648 <= u.
Proof.
  intro H. apply N.testbit_true in H.
  destruct (N.lt_ge_cases u 2147483648) as [L|L]; [|exact L].
  change (2 ^ 31) with 2147483648 in H. rewrite N.div_small in H by exact L. discriminate.
Qed.

Lemma conforming_P_u32 p : conforming_P p = true ->
  (p < 0)%Z /\ (-2147483648 <= p)%Z /\ P_u32 p = Z.to_N (p + 4294967296) /\ P_u32 p < 4294967296 /\
  P_u32 p = N.lor (N.land (P_u32 p) 3900) 4294963392.
Proof.
  unfold conforming_P. rewrite !andb_true_iff, !Z.leb_le, Z.ltb_lt, N.eqb_eq. intros [[Hlo Hhi] Hres].
  assert (Hu : P_u32 p < 4294967296).
  { unfold P_u32. pose proof (Z.mod_pos_bound p 4294967296 ltac:(lia)). lia. }
  assert (Hsplit : P_u32 p = N.lor (N.land (P_u32 p) 3900) 4294963392).
  { unfold perm_reserved_mask, perm_reserved_ones in Hres. rewrite <- Hres. rewrite <- N.land_lor_distr_r.
    change (N.lor 3900 4294963395) with (N.ones 32). rewrite N.land_ones, N.mod_small; [reflexivity|exact Hu]. }
  assert (Hneg : (p < 0)%Z).
  { destruct (Z.ltb_spec p 0) as [H|H]; [exact H|exfalso].
    assert (E : P_u32 p = Z.to_N p) by (unfold P_u32; rewrite Z.mod_small by lia; reflexivity).
    assert (B : 2147483648 <= P_u32 p).
    { apply bit31_ge. rewrite Hsplit, N.lor_spec. change (N.testbit 4294963392 31) with true. apply orb_true_r. }
    lia. }
  repeat split; try assumption.
  unfold P_u32. f_equal.
  rewrite <- (Z.mod_add p 1 4294967296) by lia. rewrite Z.mod_small by lia. lia.
Qed.

(* the word lopdf feeds to MD5 (Algorithm 2 d), writes as P (Table 21) and puts into Perms (Algorithm 10 a) *)
Theorem p_value_conforming p : conforming_P p = true ->
  p_value (perms_of_Z p) = P_u32 p + 4294967295 * 4294967296 /\ p_value_i64 (perms_of_Z p) = p.
Proof.
  intro C. destruct (conforming_P_u32 p C) as (Hneg & Hlo & Hu & Hlt & Hsplit).
  assert (Hperms : perms_of_Z p = N.land (P_u32 p) 3900).
  { unfold perms_of_Z. change PERM_FLAGS with 3900.
    assert (E : Z.to_N (p mod 18446744073709551616) = P_u32 p + 4294967295 * 4294967296).
    { rewrite <- (Z.mod_add p 1 18446744073709551616) by lia. rewrite Z.mod_small by lia. rewrite Hu. lia. }
    rewrite E. rewrite (land_low32 _ 3900 eq_refl).
    change (4294967295 * 4294967296) with (4294967295 * 2 ^ 32). rewrite N.mod_add by (cbv; discriminate).
    rewrite N.mod_small by exact Hlt.
    reflexivity. }
  assert (Hval : p_value (perms_of_Z p) = P_u32 p + 4294967295 * 4294967296).
  { unfold p_value. rewrite Hperms. rewrite Hsplit at 2.
    set (f := N.land (P_u32 p) 3900).
    assert (Hf : f < 4096) by (apply (land_small_mod _ 3900 12); reflexivity).
    pose proof (below_nat_spec _ _ p_value_flags_sweep f Hf) as Hs. cbv beta in Hs. apply N.eqb_eq in Hs.
    assert (Hff : N.land f 3900 = f).
    { unfold f. rewrite <- N.land_assoc. reflexivity. }
    rewrite Hff in Hs. exact Hs. }
  split; [exact Hval|].
  unfold p_value_i64. rewrite Hval.
  destruct (N.leb_spec 9223372036854775808 (P_u32 p + 4294967295 * 4294967296)) as [L|L]; lia.
Qed.

(* ---------- iteration: lopdf's loop (apply, then recurse) against Nat.iter ---------- *)
Lemma iter_comm {A} n (f : A -> A) x : iter n f (f x) = f (iter n f x).
Proof. revert x; induction n as [|n IH]; intro x; cbn [iter]; [reflexivity|apply IH]. Qed.

Lemma iter_nat_iter {A} n (f : A -> A) x : iter n f x = Nat.iter n f x.
Proof.
  revert x; induction n as [|n IH]; intro x; [reflexivity|].
  cbn [iter]. rewrite iter_comm, IH. reflexivity.
Qed.

Lemma nat_iter_succ_r {A} n (f : A -> A) x : Nat.iter (S n) f x = Nat.iter n f (f x).
Proof. rewrite <- !iter_nat_iter. reflexivity. Qed.

(* ---------- the RC4 keys of Algorithms 3, 5, 7: key XOR counter ---------- *)
Lemma xor_key_eq key c : c < 256 -> xor_key key c = xor_with key c.
Proof.
  intro H. unfold xor_key, xor_with. apply map_ext. intro b.
  rewrite bxor_spec, byte_lo_eq. f_equal. f_equal.
  rewrite byte_lo_eq. apply N_of_byte_of_N. exact H.
Qed.

Lemma xor_with_0 key : xor_with key 0 = key.
Proof.
  unfold xor_with. rewrite <- (map_id key) at 2. apply map_ext. intro b.
  rewrite N.lxor_0_r. apply byte_of_N_of_byte.
Qed.

Lemma xor_with_length key c : length (xor_with key c) = length key.
Proof. apply map_length. Qed.

Lemma rc4_total_ok key m : (1 <= length key <= 256)%nat -> rc4r key m = Ok (rc4_total key m).
Proof.
  intro H. unfold rc4r, rc4_total. destruct (rc4_some key m H) as [c E]. rewrite E. reflexivity.
Qed.

Lemma rc4_total_length key m : length (rc4_total key m) = length m.
Proof.
  unfold rc4_total. destruct (rc4 key m) as [c|] eqn:E; [|reflexivity]. exact (rc4_length _ _ _ E).
Qed.

Lemma rc4_chain_fold (P : prims) key cs data :
  (1 <= length key <= 256)%nat -> Forall (fun c => c < 256) cs ->
  rc4_chain key cs data = Ok (rc4_rounds (iprims_of P) key cs data).
Proof.
  intros Hk Hc. revert data. induction Hc as [|c cs Hc1 Hc IH]; intro data; [reflexivity|].
  cbn [rc4_chain]. unfold rc4_rounds. cbn [fold_left]. fold (rc4_rounds (iprims_of P) key cs).
  rewrite (xor_key_eq _ _ Hc1).
  rewrite rc4_total_ok by (rewrite xor_with_length; exact Hk). cbn [rbind]. apply IH.
Qed.

Lemma counters_up_eq : counters_up = counters_1_to_19.
Proof. reflexivity. Qed.
Lemma counters_down_eq : counters_19_to_0 = counters_down ++ [0].
Proof. reflexivity. Qed.
Lemma counters_up_small : Forall (fun c => c < 256) counters_up.
Proof. repeat constructor. Qed.
Lemma counters_down_small : Forall (fun c => c < 256) counters_down.
Proof. repeat constructor. Qed.


(* ====================================================================================================
   Revisions 2-4.  [P] any primitives with a 16-byte MD5; [a] lopdf's PasswordAlgorithm describing the same
   encryption dictionary as the standard's (R, Length, O, U, P, EncryptMetadata):
     the revision is 2, 3 or 4; the key has n = 5 (R 2) or Length/8 bytes with 40 <= Length <= 128
     (PasswordAlgorithm::try_from enforces that range); P is a conforming permission word.
   ==================================================================================================== *)
Section R4.
Variable P : prims.
Hypothesis md5_len : forall m, length (p_md5 P m) = 16%nat.
Let I := iprims_of P.

Record matches_r4 (a : palg) (R : Z) (Length : N) (O U : bytes) (Pz : Z) (em : bool) : Prop := {
  m_R : pa_revision a = R;
  m_R_range : (2 <= R <= 4)%Z;
  m_len : pa_length a = if (R =? 2)%Z then pa_length a else Some Length;
  m_len_range : (R =? 2)%Z = false -> 40 <= Length <= 128;
  m_O : pa_O a = O;
  m_U : pa_U a = U;
  m_P : pa_perms a = perms_of_Z Pz;
  m_P_conf : conforming_P Pz = true;
  m_em : pa_encrypt_metadata a = em;
}.

Lemma key_n_eq a R Length O U Pz em : matches_r4 a R Length O U Pz em ->
  key_n a = N.of_nat (key_bytes R Length) /\ (5 <= key_bytes R Length <= 16)%nat.
Proof.
  intros M. unfold key_n, key_bytes. rewrite (m_R _ _ _ _ _ _ _ M).
  pose proof (m_R_range _ _ _ _ _ _ _ M) as HR. pose proof (m_len _ _ _ _ _ _ _ M) as HL.
  pose proof (m_len_range _ _ _ _ _ _ _ M) as HLr.
  destruct (Z.eqb_spec R 2) as [E|E].
  - subst R. cbn. split; [reflexivity|lia].
  - destruct (Z.leb_spec 3 R) as [_|?]; [|lia]. rewrite HL.
    specialize (HLr eq_refl). rewrite N2Nat.id. split; [reflexivity|].
    assert (5 <= Length / 8) by (apply N.div_le_lower_bound; lia).
    assert (Length / 8 <= 16) by (apply N.div_le_upper_bound; lia). lia.
Qed.

(* Algorithm 2 *)
Theorem alg2_refines a R Length O U Pz em (d : doc) id0 pw :
  matches_r4 a R Length O U Pz em -> file_id_0 d = Ok id0 ->
  compute_fek_r4 P a d pw = Ok (alg2 I R Length O Pz id0 em pw).
Proof.
  intros M Hid. destruct (key_n_eq _ _ _ _ _ _ _ M) as [Hn Hrange].
  unfold compute_fek_r4, alg2. rewrite Hid. cbn [rbind]. rewrite Hn.
  destruct (N.ltb_spec 16 (N.of_nat (key_bytes R Length))) as [L|L]; [lia|].
  rewrite Nat2N.id, pad_pw_eq, le_bytes_eq.
  rewrite (m_R _ _ _ _ _ _ _ M), (m_O _ _ _ _ _ _ _ M), (m_em _ _ _ _ _ _ _ M), (m_P _ _ _ _ _ _ _ M).
  destruct (p_value_conforming Pz (m_P_conf _ _ _ _ _ _ _ M)) as [Hv _]. rewrite Hv.
  rewrite le_bytes4_high. change (N.to_nat MD5_ITER) with 50%nat. rewrite iter_nat_iter. reflexivity.
Qed.

Lemma md5_iter_len n x : length (Nat.iter (S n) (p_md5 P) x) = 16%nat.
Proof. change (length (p_md5 P (Nat.iter n (p_md5 P) x)) = 16%nat). apply md5_len. Qed.

(* steps (a)-(d) of Algorithm 3 *)
Lemma alg3_key_refines a R Length O U Pz em pw : matches_r4 a R Length O U Pz em ->
  firstn (N.to_nat (key_n a)) (owner_hash P a pw) = alg3_key I R Length pw /\
  length (alg3_key I R Length pw) = key_bytes R Length.
Proof.
  intros M. destruct (key_n_eq _ _ _ _ _ _ _ M) as [Hn Hrange].
  unfold owner_hash, alg3_key. rewrite Hn, Nat2N.id, pad_pw_eq, (m_R _ _ _ _ _ _ _ M).
  change (N.to_nat MD5_ITER) with 50%nat. rewrite iter_nat_iter. split; [reflexivity|].
  rewrite firstn_length.
  destruct (3 <=? R)%Z; [change 50%nat with (S 49); rewrite md5_iter_len|cbn [i_MD5 I iprims_of]; rewrite md5_len]; lia.
Qed.

(* Algorithm 3: the O value, with an owner password *)
Theorem alg3_refines a R Length O U Pz em owner user : matches_r4 a R Length O U Pz em ->
  owner_value_r4 P a owner user = Ok (alg3 I R Length (Some owner) user).
Proof.
  intros M. destruct (key_n_eq _ _ _ _ _ _ _ M) as [Hn Hrange].
  destruct (alg3_key_refines _ _ _ _ _ _ _ owner M) as [Hk Hlen].
  unfold owner_value_r4, alg3. cbv zeta. rewrite Hk.
  rewrite Hn. destruct (N.ltb_spec 16 (N.of_nat (key_bytes R Length))) as [L|L]; [lia|].
  rewrite pad_pw_eq, rc4_total_ok by lia. cbn [rbind]. rewrite (m_R _ _ _ _ _ _ _ M).
  destruct (3 <=? R)%Z; [|reflexivity].
  rewrite (rc4_chain_fold P) by (try lia; exact counters_up_small). reflexivity.
Qed.

Lemma alg2_length a R Length O U Pz em id0 pw : matches_r4 a R Length O U Pz em ->
  length (alg2 I R Length O Pz id0 em pw) = key_bytes R Length.
Proof.
  intros M. destruct (key_n_eq _ _ _ _ _ _ _ M) as [Hn Hrange].
  unfold alg2. cbv zeta. rewrite firstn_length.
  destruct (3 <=? R)%Z.
  - change 50%nat with (S 49).
    change (Nat.iter (S 49) ?f ?x) with (f (Nat.iter 49 f x)). cbv beta. cbn [i_MD5 I iprims_of]. rewrite md5_len. lia.
  - cbn [i_MD5 I iprims_of]. rewrite md5_len. lia.
Qed.

(* Algorithm 4: the U value, revision 2 *)
Theorem alg4_refines a Length O U Pz em (d : doc) id0 user :
  matches_r4 a 2 Length O U Pz em -> file_id_0 d = Ok id0 ->
  user_value_r2 P a d user = Ok (alg4 I Length O Pz id0 em user).
Proof.
  intros M Hid. unfold user_value_r2, alg4. rewrite (alg2_refines _ _ _ _ _ _ _ _ _ user M Hid). cbn [rbind].
  pose proof (alg2_length _ _ _ _ _ _ _ id0 user M) as HL. destruct (key_n_eq _ _ _ _ _ _ _ M) as [_ Hr].
  rewrite rc4_total_ok by lia. reflexivity.
Qed.

Lemma rc4_rounds_length key cs data : length (rc4_rounds I key cs data) = length data.
Proof.
  unfold rc4_rounds. revert data. induction cs as [|c cs IH]; intro data; cbn [fold_left]; [reflexivity|].
  rewrite IH. apply rc4_total_length.
Qed.

Lemma fit_sixteen l : fit 16 l = sixteen l.
Proof. reflexivity. Qed.

(* Algorithm 5: the U value, revisions 3 and 4; [rnd]: the 16 bytes of arbitrary padding *)
Theorem alg5_refines a R Length O U Pz em (d : doc) id0 user rnd :
  matches_r4 a R Length O U Pz em -> file_id_0 d = Ok id0 ->
  user_value_r3 P a d user rnd = Ok (alg5 I R Length O Pz id0 em user rnd).
Proof.
  intros M Hid. unfold user_value_r3, alg5, alg5_16.
  rewrite (alg2_refines _ _ _ _ _ _ _ _ _ user M Hid). cbn [rbind]. rewrite Hid. cbn [rbind].
  pose proof (alg2_length _ _ _ _ _ _ _ id0 user M) as HL. destruct (key_n_eq _ _ _ _ _ _ _ M) as [_ Hr].
  rewrite rc4_total_ok by lia. cbn [rbind].
  rewrite (rc4_chain_fold P) by (try lia; exact counters_up_small). cbn [rbind].
  rewrite counters_up_eq. change PAD_BYTES with padding_string. f_equal. f_equal.
  set (r := rc4_rounds _ _ _ _).
  assert (Hr16 : length r = 16%nat).
  { unfold r. rewrite rc4_rounds_length, rc4_total_length. apply md5_len. }
  unfold fit. rewrite firstn_firstn. change (Nat.min 16 32) with 16%nat.
  rewrite firstn_app, Hr16, Nat.sub_diag, firstn_O, app_nil_r. apply firstn_all2. lia.
Qed.

(* Algorithm 6: authenticating the user password *)
Theorem alg6_refines a R Length O U Pz em (d : doc) id0 pw :
  matches_r4 a R Length O U Pz em -> file_id_0 d = Ok id0 -> length U = 32%nat ->
  auth_user_r4 P a d pw =
  match alg6 I R Length O U Pz id0 em pw with Some _ => Ok tt | None => Err D_IncorrectPassword end.
Proof.
  intros M Hid HU. unfold auth_user_r4, alg6. rewrite (m_R _ _ _ _ _ _ _ M), (m_U _ _ _ _ _ _ _ M).
  pose proof (m_R_range _ _ _ _ _ _ _ M) as HR.
  destruct (Z.eqb_spec R 2) as [E|E].
  - subst R. rewrite (alg4_refines _ _ _ _ _ _ _ _ _ M Hid). cbn [rbind].
    assert (HL : length (alg4 I Length O Pz id0 em pw) = 32%nat).
    { unfold alg4. cbn [i_RC4 I iprims_of]. rewrite rc4_total_length. reflexivity. }
    change ((2 =? 3) || (2 =? 4))%Z with false. cbv iota.
    rewrite HL, HU. cbn [Nat.ltb Nat.leb]. rewrite !firstn_all2 by lia.
    destruct (bytes_eqb _ U); reflexivity.
  - assert (E34 : ((R =? 3) || (R =? 4))%Z = true).
    { destruct (Z.eqb_spec R 3), (Z.eqb_spec R 4); cbn; try reflexivity; lia. }
    rewrite E34. rewrite (alg5_refines _ _ _ _ _ _ _ _ _ _ [] M Hid). cbn [rbind].
    rewrite HU. cbn [Nat.ltb Nat.leb]. unfold alg5.
    assert (H16 : length (alg5_16 I R Length O Pz id0 em pw) = 16%nat).
    { unfold alg5_16. rewrite rc4_rounds_length. cbn [i_RC4 i_MD5 I iprims_of]. rewrite rc4_total_length. apply md5_len. }
    rewrite firstn_app, H16, Nat.sub_diag, firstn_O, app_nil_r, firstn_all2 by lia.
    destruct (bytes_eqb _ (firstn 16 U)); reflexivity.
Qed.

(* Algorithm 7 (a), (b): the user password recovered from O.  The standard counts "from 19 to 0" where lopdf
   counts 19..1 and then uses the key itself: XOR with 0 is the identity *)
Theorem alg7_user_refines a R Length O U Pz em pw : matches_r4 a R Length O U Pz em ->
  recover_user_r4 P a pw = Ok (alg7_user I R Length O pw).
Proof.
  intros M. destruct (key_n_eq _ _ _ _ _ _ _ M) as [Hn Hrange].
  destruct (alg3_key_refines _ _ _ _ _ _ _ pw M) as [Hk Hlen].
  unfold recover_user_r4, alg7_user. cbv zeta. rewrite Hk, Hn.
  destruct (N.ltb_spec 16 (N.of_nat (key_bytes R Length))) as [L|L]; [lia|].
  rewrite (m_R _ _ _ _ _ _ _ M), (m_O _ _ _ _ _ _ _ M).
  pose proof (m_R_range _ _ _ _ _ _ _ M) as HR.
  destruct (Z.eqb_spec R 2) as [E|E].
  - subst R. cbn [Z.leb Z.compare Pos.compare Pos.compare_cont rbind]. rewrite rc4_total_ok by lia. reflexivity.
  - destruct (Z.leb_spec 3 R) as [_|?]; [|lia].
    rewrite (rc4_chain_fold P) by (try lia; exact counters_down_small). cbn [rbind].
    rewrite rc4_total_ok by lia. f_equal.
    rewrite counters_down_eq. unfold rc4_rounds. rewrite fold_left_app. cbn [fold_left].
    rewrite xor_with_0. reflexivity.
Qed.

(* Algorithm 7: authenticating the owner password *)
Theorem alg7_refines a R Length O U Pz em (d : doc) id0 pw :
  matches_r4 a R Length O U Pz em -> file_id_0 d = Ok id0 -> length U = 32%nat ->
  auth_owner_r4 P a d pw =
  match alg7 I R Length O U Pz id0 em pw with Some _ => Ok tt | None => Err D_IncorrectPassword end.
Proof.
  intros M Hid HU. unfold auth_owner_r4, alg7. rewrite (alg7_user_refines _ _ _ _ _ _ _ pw M). cbn [rbind].
  apply alg6_refines; assumption.
Qed.

(* the key lopdf decrypts with (PasswordAlgorithm::compute_file_encryption_key, revisions 2-4) is the key of the
   standard's opening procedure whenever the password is the user or the owner password *)
Theorem open_key_r4_refines a R Length O U Pz em (d : doc) id0 pw k :
  matches_r4 a R Length O U Pz em -> file_id_0 d = Ok id0 -> length U = 32%nat ->
  match alg6 I R Length O U Pz id0 em pw with
  | Some k => Some k
  | None => alg7 I R Length O U Pz id0 em pw
  end = Some k ->
  compute_fek P a d pw = Ok k.
Proof.
  intros M Hid HU Hopen. unfold compute_fek.
  assert (Hrev : rev_2_4 a = true).
  { unfold rev_2_4. rewrite (m_R _ _ _ _ _ _ _ M). pose proof (m_R_range _ _ _ _ _ _ _ M).
    apply andb_true_iff; split; apply Z.leb_le; lia. }
  rewrite Hrev, (alg6_refines _ _ _ _ _ _ _ _ _ pw M Hid HU).
  destruct (alg6 I R Length O U Pz id0 em pw) as [k6|] eqn:E6.
  - inversion Hopen; subst k6. rewrite (alg2_refines _ _ _ _ _ _ _ _ _ pw M Hid).
    unfold alg6 in E6. destruct (if (R =? 2)%Z then _ else _); inversion E6. reflexivity.
  - rewrite (alg7_user_refines _ _ _ _ _ _ _ pw M).
    unfold alg7 in Hopen. rewrite (alg6_refines _ _ _ _ _ _ _ _ _ _ M Hid HU), Hopen.
    rewrite (alg2_refines _ _ _ _ _ _ _ _ _ _ M Hid).
    unfold alg6 in Hopen. destruct (if (R =? 2)%Z then _ else _); inversion Hopen. reflexivity.
Qed.

End R4.
