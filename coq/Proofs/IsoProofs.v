(* IsoProofs.v -- C06, rungs 1 and 2: lopdf's security handler (Model/Crypto/Handler.v, written from the Rust
   source) computes what ISO 32000 defines (Spec/Crypto/Iso.v, written from the standard), algorithm by
   algorithm.  Every difference in formulation between the two is a lemma here.
   The primitives are the same abstract functions on both sides ([iprims_of P]); what is assumed about them
   is stated where it is used (MD5 yields 16 bytes: otherwise the RC4 keys of Algorithms 3-7 have not the
   length the standard says). *)
From LV Require Import Base.Bytes Base.Sx Model.Obj Model.DocQ Gen.Crypto
  Model.Crypto.Word Model.Crypto.RC4 Model.Crypto.PKCS5 Model.Crypto.Handler
  Spec.Crypto.Iso Spec.Crypto.IsoConcrete Proofs.CryptoProofs Proofs.IsoProofsArith.
Local Open Scope N_scope.

(* the primitives of the model seen as the primitives the standard names *)
Definition iprims_of (P : prims) : iprims :=
  {| i_MD5 := p_md5 P; i_SHA256 := p_sha256 P; i_SHA384 := p_sha384 P; i_SHA512 := p_sha512 P;
     i_RC4 := rc4_total; i_AES_E := p_aes_enc P; i_AES_D := p_aes_dec P |}.

(* ---------- the constants the translator reads out of the Rust source are the standard's ---------- *)
Lemma consts_agree :
  PAD_BYTES = padding_string /\ MD5_ITER = 50 /\ RC4_ITER = 19 /\ AES_SALT = [x73; x41; x6c; x54] /\
  PW_TRUNC = 127 /\ PW_PAD_LEN = 32 /\ PERM_FLAGS = perm_bits_mask /\
  P_RESERVED = perm_reserved_ones + 4294967295 * 4294967296 /\
  HASH_MIN_ROUNDS = 64 /\ HASH_ROUND_OFFSET = 32 /\ KEYLEN_MIN = 40 /\ KEYLEN_MAX = 128.
Proof. repeat split; reflexivity. Qed.

(* ---------- padding: min/slices against append-then-truncate ---------- *)
Lemma pad_pw_eq pw : pad_pw pw = pad32 pw.
Proof.
  unfold pad_pw, pad32. change (N.to_nat PW_PAD_LEN) with 32%nat. change PAD_BYTES with padding_string.
  rewrite firstn_app. f_equal.
  - destruct (Nat.le_gt_cases (length pw) 32) as [H|H].
    + rewrite Nat.min_l by exact H. rewrite !firstn_all2 by lia. reflexivity.
    + rewrite Nat.min_r by lia. reflexivity.
  - f_equal. lia.
Qed.

Lemma pad32_length pw : length (pad32 pw) = 32%nat.
Proof.
  unfold pad32. rewrite firstn_length, app_length. change (length padding_string) with 32%nat. lia.
Qed.

(* ---------- little endian ---------- *)
Lemma byte_lo_eq x : byte_lo x = byte_of_N x.
Proof.
  unfold byte_lo, byte_of_N. change 255 with (N.ones 8). rewrite N.land_ones. reflexivity.
Qed.

Lemma le_bytes_eq n x : N_to_le n x = le_bytes n x.
Proof.
  revert x; induction n as [|n IH]; intro x; [reflexivity|].
  cbn [N_to_le le_bytes]. rewrite byte_lo_eq, IH. f_equal.
  - unfold byte_of_N. rewrite N.mod_mod by lia. reflexivity.
  - f_equal. rewrite N.shiftr_div_pow2. reflexivity.
Qed.

(* ---------- Algorithm 2.B (c): 256 = 1 (mod 3), so the byte sum lopdf takes and the big-endian value the
   standard takes have the same remainder -- for every byte string, not only for 16 bytes ---------- *)
Lemma sum_be_mod3_gen l : forall a b, a mod 3 = b mod 3 ->
  fold_left (fun acc x => acc + N_of_byte x) l a mod 3 = fold_left (fun acc x => acc * 256 + N_of_byte x) l b mod 3.
Proof.
  induction l as [|x l IH]; intros a b H; cbn [fold_left]; [exact H|].
  apply IH.
  rewrite (N.add_mod a), (N.add_mod (b * 256)), (N.mul_mod b 256) by lia.
  change (256 mod 3) with 1. rewrite N.mul_1_r, N.mod_mod by lia. rewrite H. reflexivity.
Qed.

Theorem sum_bytes_mod3 l : sum_bytes l mod 3 = be_value l mod 3.
Proof. unfold sum_bytes, be_value. apply sum_be_mod3_gen. reflexivity. Qed.

(* ---------- permissions: lopdf rebuilds P from its bit flags; for conforming words that is P ---------- *)
Lemma land_small_mod a m k : m = N.land m (N.ones k) -> N.land a m < 2 ^ k.
Proof.
  intro H. rewrite H, N.land_assoc, N.land_ones. apply N.mod_lt. apply N.pow_nonzero. lia.
Qed.

Lemma p_value_flags_sweep :
  below_nat 4096 (fun f => N.lor (N.land f 3900) P_RESERVED =? N.lor (N.land f 3900) 4294963392 + 4294967295 * 4294967296) = true.
Proof. vm_compute. reflexivity. Qed.

Lemma land_low32 x m : m = N.land (N.ones 32) m -> N.land x m = N.land (x mod 2 ^ 32) m.
Proof. intro H. rewrite H at 1. rewrite N.land_assoc, N.land_ones. reflexivity. Qed.

Lemma bit31_ge u : N.testbit u 31 = true -> 2147483648 <= u.
Proof.
  intro H. apply N.testbit_true in H.
  destruct (N.lt_ge_cases u 2147483648) as [L|L]; [|exact L].
  change (2 ^ 31) with 2147483648 in H. rewrite N.div_small in H by exact L. discriminate.
Qed.

Lemma conforming_P_u32 p : conforming_P p = true ->
  (p < 0)%Z /\ (-2147483648 <= p)%Z /\ P_u32 p = Z.to_N (p + 4294967296) /\ P_u32 p < 4294967296 /\
  P_u32 p = N.lor (N.land (P_u32 p) 3900) 4294963392.
Proof.
  unfold conforming_P. rewrite !andb_true_iff, !Z.leb_le, Z.ltb_lt, N.eqb_eq. intros [[Hlo Hhi] Hres].
  assert (Hu : P_u32 p < 4294967296).
  { unfold P_u32. pose proof (Z.mod_pos_bound p 4294967296 ltac:(lia)). lia. }
  assert (Hsplit : P_u32 p = N.lor (N.land (P_u32 p) 3900) 4294963392).
  { unfold perm_reserved_mask, perm_reserved_ones in Hres. rewrite <- Hres. rewrite <- N.land_lor_distr_r.
    change (N.lor 3900 4294963395) with (N.ones 32). rewrite N.land_ones, N.mod_small; [reflexivity|exact Hu]. }
  assert (Hneg : (p < 0)%Z).
  { destruct (Z.ltb_spec p 0) as [H|H]; [exact H|exfalso].
    assert (E : P_u32 p = Z.to_N p) by (unfold P_u32; rewrite Z.mod_small by lia; reflexivity).
    assert (B : 2147483648 <= P_u32 p).
    { apply bit31_ge. rewrite Hsplit, N.lor_spec. change (N.testbit 4294963392 31) with true. apply orb_true_r. }
    lia. }
  repeat split; try assumption.
  unfold P_u32. f_equal.
  rewrite <- (Z.mod_add p 1 4294967296) by lia. rewrite Z.mod_small by lia. lia.
Qed.

(* the word lopdf feeds to MD5 (Algorithm 2 d), writes as P (Table 21) and puts into Perms (Algorithm 10 a) *)
Theorem p_value_conforming p : conforming_P p = true ->
  p_value (perms_of_Z p) = P_u32 p + 4294967295 * 4294967296 /\ p_value_i64 (perms_of_Z p) = p.
Proof.
  intro C. destruct (conforming_P_u32 p C) as (Hneg & Hlo & Hu & Hlt & Hsplit).
  assert (Hperms : perms_of_Z p = N.land (P_u32 p) 3900).
  { unfold perms_of_Z. change PERM_FLAGS with 3900.
    assert (E : Z.to_N (p mod 18446744073709551616) = P_u32 p + 4294967295 * 4294967296).
    { rewrite <- (Z.mod_add p 1 18446744073709551616) by lia. rewrite Z.mod_small by lia. rewrite Hu. lia. }
    rewrite E. rewrite (land_low32 _ 3900 eq_refl).
    change (4294967295 * 4294967296) with (4294967295 * 2 ^ 32). rewrite N.mod_add by (cbv; discriminate).
    rewrite N.mod_small by exact Hlt.
    reflexivity. }
  assert (Hval : p_value (perms_of_Z p) = P_u32 p + 4294967295 * 4294967296).
  { unfold p_value. rewrite Hperms. rewrite Hsplit at 2.
    set (f := N.land (P_u32 p) 3900).
    assert (Hf : f < 4096) by (apply (land_small_mod _ 3900 12); reflexivity).
    pose proof (below_nat_spec _ _ p_value_flags_sweep f Hf) as Hs. cbv beta in Hs. apply N.eqb_eq in Hs.
    assert (Hff : N.land f 3900 = f).
    { unfold f. rewrite <- N.land_assoc. reflexivity. }
    rewrite Hff in Hs. exact Hs. }
  split; [exact Hval|].
  unfold p_value_i64. rewrite Hval.
  destruct (N.leb_spec 9223372036854775808 (P_u32 p + 4294967295 * 4294967296)) as [L|L]; lia.
Qed.

(* ---------- iteration: lopdf's loop (apply, then recurse) against Nat.iter ---------- *)
Lemma iter_comm {A} n (f : A -> A) x : iter n f (f x) = f (iter n f x).
Proof. revert x; induction n as [|n IH]; intro x; cbn [iter]; [reflexivity|apply IH]. Qed.

Lemma iter_nat_iter {A} n (f : A -> A) x : iter n f x = Nat.iter n f x.
Proof.
  revert x; induction n as [|n IH]; intro x; [reflexivity|].
  cbn [iter]. rewrite iter_comm, IH. reflexivity.
Qed.

Lemma nat_iter_succ_r {A} n (f : A -> A) x : Nat.iter (S n) f x = Nat.iter n f (f x).
Proof. rewrite <- !iter_nat_iter. reflexivity. Qed.

(* ---------- the RC4 keys of Algorithms 3, 5, 7: key XOR counter ---------- *)
Lemma xor_key_eq key c : c < 256 -> xor_key key c = xor_with key c.
Proof.
  intro H. unfold xor_key, xor_with. apply map_ext. intro b.
  rewrite bxor_spec, byte_lo_eq. f_equal. f_equal.
  rewrite byte_lo_eq. apply N_of_byte_of_N. exact H.
Qed.

Lemma xor_with_0 key : xor_with key 0 = key.
Proof.
  unfold xor_with. rewrite <- (map_id key) at 2. apply map_ext. intro b.
  rewrite N.lxor_0_r. apply byte_of_N_of_byte.
Qed.

Lemma xor_with_length key c : length (xor_with key c) = length key.
Proof. apply map_length. Qed.

Lemma rc4_total_ok key m : (1 <= length key <= 256)%nat -> rc4r key m = Ok (rc4_total key m).
Proof.
  intro H. unfold rc4r, rc4_total. destruct (rc4_some key m H) as [c E]. rewrite E. reflexivity.
Qed.

Lemma rc4_total_length key m : length (rc4_total key m) = length m.
Proof.
  unfold rc4_total. destruct (rc4 key m) as [c|] eqn:E; [|reflexivity]. exact (rc4_length _ _ _ E).
Qed.

Lemma rc4_chain_fold (P : prims) key cs data :
  (1 <= length key <= 256)%nat -> Forall (fun c => c < 256) cs ->
  rc4_chain key cs data = Ok (rc4_rounds (iprims_of P) key cs data).
Proof.
  intros Hk Hc. revert data. induction Hc as [|c cs Hc1 Hc IH]; intro data; [reflexivity|].
  cbn [rc4_chain]. unfold rc4_rounds. cbn [fold_left]. fold (rc4_rounds (iprims_of P) key cs).
  rewrite (xor_key_eq _ _ Hc1).
  rewrite rc4_total_ok by (rewrite xor_with_length; exact Hk). cbn [rbind]. apply IH.
Qed.

Lemma counters_up_eq : counters_up = counters_1_to_19.
Proof. reflexivity. Qed.
Lemma counters_down_eq : counters_19_to_0 = counters_down ++ [0].
Proof. reflexivity. Qed.
Lemma counters_up_small : Forall (fun c => c < 256) counters_up.
Proof. repeat constructor. Qed.
Lemma counters_down_small : Forall (fun c => c < 256) counters_down.
Proof. repeat constructor. Qed.


(* ====================================================================================================
   Revisions 2-4.  [P] any primitives with a 16-byte MD5; [a] lopdf's PasswordAlgorithm describing the same
   encryption dictionary as the standard's (R, Length, O, U, P, EncryptMetadata):
     the revision is 2, 3 or 4; the key has n = 5 (R 2) or Length/8 bytes with 40 <= Length <= 128
     (PasswordAlgorithm::try_from enforces that range); P is a conforming permission word.
   ==================================================================================================== *)
Section R4.
Variable P : prims.
Hypothesis md5_len : forall m, length (p_md5 P m) = 16%nat.
Let I := iprims_of P.

Record matches_r4 (a : palg) (R : Z) (Length : N) (O U : bytes) (Pz : Z) (em : bool) : Prop := {
  m_R : pa_revision a = R;
  m_R_range : (2 <= R <= 4)%Z;
  m_len : pa_length a = if (R =? 2)%Z then pa_length a else Some Length;
  m_len_range : (R =? 2)%Z = false -> 40 <= Length <= 128;
  m_O : pa_O a = O;
  m_U : pa_U a = U;
  m_P : pa_perms a = perms_of_Z Pz;
  m_P_conf : conforming_P Pz = true;
  m_em : pa_encrypt_metadata a = em;
}.

Lemma key_n_eq a R Length O U Pz em : matches_r4 a R Length O U Pz em ->
  key_n a = N.of_nat (key_bytes R Length) /\ (5 <= key_bytes R Length <= 16)%nat.
Proof.
  intros M. unfold key_n, key_bytes. rewrite (m_R _ _ _ _ _ _ _ M).
  pose proof (m_R_range _ _ _ _ _ _ _ M) as HR. pose proof (m_len _ _ _ _ _ _ _ M) as HL.
  pose proof (m_len_range _ _ _ _ _ _ _ M) as HLr.
  destruct (Z.eqb_spec R 2) as [E|E].
  - subst R. cbn. split; [reflexivity|lia].
  - destruct (Z.leb_spec 3 R) as [_|?]; [|lia]. rewrite HL.
    specialize (HLr eq_refl). rewrite N2Nat.id. split; [reflexivity|].
    assert (5 <= Length / 8) by (apply N.div_le_lower_bound; lia).
    assert (Length / 8 <= 16) by (apply N.div_le_upper_bound; lia). lia.
Qed.

(* Algorithm 2 *)
Theorem alg2_refines a R Length O U Pz em (d : doc) id0 pw :
  matches_r4 a R Length O U Pz em -> file_id_0 d = Ok id0 ->
  compute_fek_r4 P a d pw = Ok (alg2 I R Length O Pz id0 em pw).
Proof.
  intros M Hid. destruct (key_n_eq _ _ _ _ _ _ _ M) as [Hn Hrange].
  unfold compute_fek_r4, alg2. rewrite Hid. cbn [rbind]. rewrite Hn.
  destruct (N.ltb_spec 16 (N.of_nat (key_bytes R Length))) as [L|L]; [lia|].
  rewrite Nat2N.id, pad_pw_eq, le_bytes_eq.
  rewrite (m_R _ _ _ _ _ _ _ M), (m_O _ _ _ _ _ _ _ M), (m_em _ _ _ _ _ _ _ M), (m_P _ _ _ _ _ _ _ M).
  destruct (p_value_conforming Pz (m_P_conf _ _ _ _ _ _ _ M)) as [Hv _]. rewrite Hv.
  rewrite le_bytes4_high. change (N.to_nat MD5_ITER) with 50%nat. rewrite iter_nat_iter. reflexivity.
Qed.

Lemma md5_iter_len n x : length (Nat.iter (S n) (p_md5 P) x) = 16%nat.
Proof. change (length (p_md5 P (Nat.iter n (p_md5 P) x)) = 16%nat). apply md5_len. Qed.

(* steps (a)-(d) of Algorithm 3 *)
Lemma alg3_key_refines a R Length O U Pz em pw : matches_r4 a R Length O U Pz em ->
  firstn (N.to_nat (key_n a)) (owner_hash P a pw) = alg3_key I R Length pw /\
  length (alg3_key I R Length pw) = key_bytes R Length.
Proof.
  intros M. destruct (key_n_eq _ _ _ _ _ _ _ M) as [Hn Hrange].
  unfold owner_hash, alg3_key. rewrite Hn, Nat2N.id, pad_pw_eq, (m_R _ _ _ _ _ _ _ M).
  change (N.to_nat MD5_ITER) with 50%nat. rewrite iter_nat_iter. split; [reflexivity|].
  rewrite firstn_length.
  destruct (3 <=? R)%Z; [change 50%nat with (S 49); rewrite md5_iter_len|cbn [i_MD5 I iprims_of]; rewrite md5_len]; lia.
Qed.

(* Algorithm 3: the O value, with an owner password *)
Theorem alg3_refines a R Length O U Pz em owner user : matches_r4 a R Length O U Pz em ->
  owner_value_r4 P a owner user = Ok (alg3 I R Length (Some owner) user).
Proof.
  intros M. destruct (key_n_eq _ _ _ _ _ _ _ M) as [Hn Hrange].
  destruct (alg3_key_refines _ _ _ _ _ _ _ owner M) as [Hk Hlen].
  unfold owner_value_r4, alg3. cbv zeta. rewrite Hk.
  rewrite Hn. destruct (N.ltb_spec 16 (N.of_nat (key_bytes R Length))) as [L|L]; [lia|].
  rewrite pad_pw_eq, rc4_total_ok by lia. cbn [rbind]. rewrite (m_R _ _ _ _ _ _ _ M).
  destruct (3 <=? R)%Z; [|reflexivity].
  rewrite (rc4_chain_fold P) by (try lia; exact counters_up_small). reflexivity.
Qed.

Lemma alg2_length a R Length O U Pz em id0 pw : matches_r4 a R Length O U Pz em ->
  length (alg2 I R Length O Pz id0 em pw) = key_bytes R Length.
Proof.
  intros M. destruct (key_n_eq _ _ _ _ _ _ _ M) as [Hn Hrange].
  unfold alg2. cbv zeta. rewrite firstn_length.
  destruct (3 <=? R)%Z.
  - change 50%nat with (S 49).
    change (Nat.iter (S 49) ?f ?x) with (f (Nat.iter 49 f x)). cbv beta. cbn [i_MD5 I iprims_of]. rewrite md5_len. lia.
  - cbn [i_MD5 I iprims_of]. rewrite md5_len. lia.
Qed.

(* Algorithm 4: the U value, revision 2 *)
Theorem alg4_refines a Length O U Pz em (d : doc) id0 user :
  matches_r4 a 2 Length O U Pz em -> file_id_0 d = Ok id0 ->
  user_value_r2 P a d user = Ok (alg4 I Length O Pz id0 em user).
Proof.
  intros M Hid. unfold user_value_r2, alg4. rewrite (alg2_refines _ _ _ _ _ _ _ _ _ user M Hid). cbn [rbind].
  pose proof (alg2_length _ _ _ _ _ _ _ id0 user M) as HL. destruct (key_n_eq _ _ _ _ _ _ _ M) as [_ Hr].
  rewrite rc4_total_ok by lia. reflexivity.
Qed.

Lemma rc4_rounds_length key cs data : length (rc4_rounds I key cs data) = length data.
Proof.
  unfold rc4_rounds. revert data. induction cs as [|c cs IH]; intro data; cbn [fold_left]; [reflexivity|].
  rewrite IH. apply rc4_total_length.
Qed.

Lemma fit_sixteen l : fit 16 l = sixteen l.
Proof. reflexivity. Qed.

(* Algorithm 5: the U value, revisions 3 and 4; [rnd]: the 16 bytes of arbitrary padding *)
Theorem alg5_refines a R Length O U Pz em (d : doc) id0 user rnd :
  matches_r4 a R Length O U Pz em -> file_id_0 d = Ok id0 ->
  user_value_r3 P a d user rnd = Ok (alg5 I R Length O Pz id0 em user rnd).
Proof.
  intros M Hid. unfold user_value_r3, alg5, alg5_16.
  rewrite (alg2_refines _ _ _ _ _ _ _ _ _ user M Hid). cbn [rbind]. rewrite Hid. cbn [rbind].
  pose proof (alg2_length _ _ _ _ _ _ _ id0 user M) as HL. destruct (key_n_eq _ _ _ _ _ _ _ M) as [_ Hr].
  rewrite rc4_total_ok by lia. cbn [rbind].
  rewrite (rc4_chain_fold P) by (try lia; exact counters_up_small). cbn [rbind].
  rewrite counters_up_eq. change PAD_BYTES with padding_string. f_equal. f_equal.
  set (r := rc4_rounds _ _ _ _).
  assert (Hr16 : length r = 16%nat).
  { unfold r. rewrite rc4_rounds_length, rc4_total_length. apply md5_len. }
  unfold fit. rewrite firstn_firstn. change (Nat.min 16 32) with 16%nat.
  rewrite firstn_app, Hr16, Nat.sub_diag, firstn_O, app_nil_r. apply firstn_all2. lia.
Qed.

(* Algorithm 6: authenticating the user password *)
Theorem alg6_refines a R Length O U Pz em (d : doc) id0 pw :
  matches_r4 a R Length O U Pz em -> file_id_0 d = Ok id0 -> length U = 32%nat ->
  auth_user_r4 P a d pw =
  match alg6 I R Length O U Pz id0 em pw with Some _ => Ok tt | None => Err D_IncorrectPassword end.
Proof.
  intros M Hid HU. unfold auth_user_r4, alg6. rewrite (m_R _ _ _ _ _ _ _ M), (m_U _ _ _ _ _ _ _ M).
  pose proof (m_R_range _ _ _ _ _ _ _ M) as HR.
  destruct (Z.eqb_spec R 2) as [E|E].
  - subst R. rewrite (alg4_refines _ _ _ _ _ _ _ _ _ M Hid). cbn [rbind].
    assert (HL : length (alg4 I Length O Pz id0 em pw) = 32%nat).
    { unfold alg4. cbn [i_RC4 I iprims_of]. rewrite rc4_total_length. reflexivity. }
    change ((2 =? 3) || (2 =? 4))%Z with false. cbv iota.
    rewrite HL, HU. cbn [Nat.ltb Nat.leb]. rewrite !firstn_all2 by lia.
    destruct (bytes_eqb _ U); reflexivity.
  - assert (E34 : ((R =? 3) || (R =? 4))%Z = true).
    { destruct (Z.eqb_spec R 3), (Z.eqb_spec R 4); cbn; try reflexivity; lia. }
    rewrite E34. rewrite (alg5_refines _ _ _ _ _ _ _ _ _ _ [] M Hid). cbn [rbind].
    rewrite HU. cbn [Nat.ltb Nat.leb]. unfold alg5.
    assert (H16 : length (alg5_16 I R Length O Pz id0 em pw) = 16%nat).
    { unfold alg5_16. rewrite rc4_rounds_length. cbn [i_RC4 i_MD5 I iprims_of]. rewrite rc4_total_length. apply md5_len. }
    rewrite firstn_app, H16, Nat.sub_diag, firstn_O, app_nil_r, firstn_all2 by lia.
    destruct (bytes_eqb _ (firstn 16 U)); reflexivity.
Qed.

(* Algorithm 7 (a), (b): the user password recovered from O.  The standard counts "from 19 to 0" where lopdf
   counts 19..1 and then uses the key itself: XOR with 0 is the identity *)
Theorem alg7_user_refines a R Length O U Pz em pw : matches_r4 a R Length O U Pz em ->
  recover_user_r4 P a pw = Ok (alg7_user I R Length O pw).
Proof.
  intros M. destruct (key_n_eq _ _ _ _ _ _ _ M) as [Hn Hrange].
  destruct (alg3_key_refines _ _ _ _ _ _ _ pw M) as [Hk Hlen].
  unfold recover_user_r4, alg7_user. cbv zeta. rewrite Hk, Hn.
  destruct (N.ltb_spec 16 (N.of_nat (key_bytes R Length))) as [L|L]; [lia|].
  rewrite (m_R _ _ _ _ _ _ _ M), (m_O _ _ _ _ _ _ _ M).
  pose proof (m_R_range _ _ _ _ _ _ _ M) as HR.
  destruct (Z.eqb_spec R 2) as [E|E].
  - subst R. cbn [Z.leb Z.compare Pos.compare Pos.compare_cont rbind]. rewrite rc4_total_ok by lia. reflexivity.
  - destruct (Z.leb_spec 3 R) as [_|?]; [|lia].
    rewrite (rc4_chain_fold P) by (try lia; exact counters_down_small). cbn [rbind].
    rewrite rc4_total_ok by lia. f_equal.
    rewrite counters_down_eq. unfold rc4_rounds. rewrite fold_left_app. cbn [fold_left].
    rewrite xor_with_0. reflexivity.
Qed.

(* Algorithm 7: authenticating the owner password *)
Theorem alg7_refines a R Length O U Pz em (d : doc) id0 pw :
  matches_r4 a R Length O U Pz em -> file_id_0 d = Ok id0 -> length U = 32%nat ->
  auth_owner_r4 P a d pw =
  match alg7 I R Length O U Pz id0 em pw with Some _ => Ok tt | None => Err D_IncorrectPassword end.
Proof.
  intros M Hid HU. unfold auth_owner_r4, alg7. rewrite (alg7_user_refines _ _ _ _ _ _ _ pw M). cbn [rbind].
  apply alg6_refines; assumption.
Qed.

(* the key lopdf decrypts with (PasswordAlgorithm::compute_file_encryption_key, revisions 2-4) is the key of the
   standard's opening procedure whenever the password is the user or the owner password *)
Theorem open_key_r4_refines a R Length O U Pz em (d : doc) id0 pw k :
  matches_r4 a R Length O U Pz em -> file_id_0 d = Ok id0 -> length U = 32%nat ->
  match alg6 I R Length O U Pz id0 em pw with
  | Some k => Some k
  | None => alg7 I R Length O U Pz id0 em pw
  end = Some k ->
  compute_fek P a d pw = Ok k.
Proof.
  intros M Hid HU Hopen. unfold compute_fek.
  assert (Hrev : rev_2_4 a = true).
  { unfold rev_2_4. rewrite (m_R _ _ _ _ _ _ _ M). pose proof (m_R_range _ _ _ _ _ _ _ M).
    apply andb_true_iff; split; apply Z.leb_le; lia. }
  rewrite Hrev, (alg6_refines _ _ _ _ _ _ _ _ _ pw M Hid HU).
  destruct (alg6 I R Length O U Pz id0 em pw) as [k6|] eqn:E6.
  - inversion Hopen; subst k6. rewrite (alg2_refines _ _ _ _ _ _ _ _ _ pw M Hid).
    unfold alg6 in E6. destruct (if (R =? 2)%Z then _ else _); inversion E6. reflexivity.
  - rewrite (alg7_user_refines _ _ _ _ _ _ _ pw M).
    unfold alg7 in Hopen. rewrite (alg6_refines _ _ _ _ _ _ _ _ _ _ M Hid HU), Hopen.
    rewrite (alg2_refines _ _ _ _ _ _ _ _ _ _ M Hid).
    unfold alg6 in Hopen. destruct (if (R =? 2)%Z then _ else _); inversion Hopen. reflexivity.
Qed.

End R4.

(* ====================================================================================================
   Block chaining: the model's block lists (chunks_exact(16) + a chained loop) against SP 800-38A's
   recurrence over the byte string
   ==================================================================================================== *)
Lemma cbc_e_eq E k : forall iv data, length data = (16 * k)%nat ->
  concat (cbc_enc E iv (chunks16 data)) = cbc_e k E iv data.
Proof.
  induction k as [|k IH]; intros iv data HL.
  - destruct data; [reflexivity|cbn in HL; lia].
  - rewrite <- (firstn_skipn 16 data) at 1.
    rewrite chunks16_app by (rewrite firstn_length; lia).
    cbn [cbc_enc concat cbc_e]. f_equal. apply IH. rewrite skipn_length. lia.
Qed.

Lemma cbc_d_eq D k : forall iv data, length data = (16 * k)%nat ->
  concat (cbc_dec D iv (chunks16 data)) = cbc_d k D iv data.
Proof.
  induction k as [|k IH]; intros iv data HL.
  - destruct data; [reflexivity|cbn in HL; lia].
  - rewrite <- (firstn_skipn 16 data) at 1.
    rewrite chunks16_app by (rewrite firstn_length; lia).
    cbn [cbc_dec concat cbc_d]. f_equal. apply IH. rewrite skipn_length. lia.
Qed.

Lemma whole_blocks (data : bytes) : Nat.modulo (length data) 16 = 0%nat ->
  length data = (16 * (length data / 16))%nat.
Proof. intro H. pose proof (Nat.div_mod (length data) 16 ltac:(lia)). lia. Qed.

Lemma cbc_encrypt_nopad_eq E iv data : Nat.modulo (length data) 16 = 0%nat ->
  cbc_encrypt_nopad E iv data = cbc_e (length data / 16) E iv data.
Proof.
  intro H. pose proof (whole_blocks _ H) as HL.
  unfold cbc_encrypt_nopad, exact_blocks. cbv zeta.
  replace (length data / 16 * 16)%nat with (length data) by lia.
  rewrite firstn_all, skipn_all, app_nil_r. apply cbc_e_eq. exact HL.
Qed.

Lemma cbc_decrypt_nopad_eq D iv data : Nat.modulo (length data) 16 = 0%nat ->
  cbc_decrypt_nopad D iv data = cbc_d (length data / 16) D iv data.
Proof.
  intro H. pose proof (whole_blocks _ H) as HL.
  unfold cbc_decrypt_nopad, exact_blocks. cbv zeta.
  replace (length data / 16 * 16)%nat with (length data) by lia.
  rewrite firstn_all, skipn_all, app_nil_r. apply cbc_d_eq. exact HL.
Qed.

(* ====================================================================================================
   Revisions 5 and 6
   ==================================================================================================== *)
Section R6.
Variable P : prims.
Let I := iprims_of P.

Lemma concat_repeat_length (x : bytes) n : length (concat (repeat x n)) = (n * length x)%nat.
Proof. induction n as [|n IH]; cbn [repeat concat length]; [reflexivity|rewrite app_length, IH; lia]. Qed.

(* one round of Algorithm 2.B as lopdf computes it *)
Definition lopdf_round (pw uk k : bytes) : bytes * bytes :=
  let k1 := concat (repeat (pw ++ k ++ uk) 64) in
  let e := cbc_encrypt_nopad (p_aes_enc P (firstn 16 k)) (firstn 16 (skipn 16 k)) k1 in
  (match sum_bytes (firstn 16 e) mod 3 with
   | 0 => p_sha256 P e
   | 1 => p_sha384 P e
   | _ => p_sha512 P e
   end, e).

Lemma round_eq pw uk k : lopdf_round pw uk k = alg2B_round I pw uk k.
Proof.
  unfold lopdf_round, alg2B_round, aes_cbc_nopad_e. cbv zeta.
  assert (HL : Nat.modulo (length (concat (repeat (pw ++ k ++ uk) 64))) 16 = 0%nat).
  { rewrite concat_repeat_length. change 64%nat with (4 * 16)%nat.
    rewrite <- Nat.mul_assoc, (Nat.mul_comm 16), Nat.mul_assoc. apply Nat.mod_mul. lia. }
  rewrite cbc_encrypt_nopad_eq by exact HL. cbn [i_AES_E i_SHA256 i_SHA384 i_SHA512 I iprims_of].
  rewrite sum_bytes_mod3. reflexivity.
Qed.

Lemma hash_rounds_unfold fuel pw uk round k :
  hash_rounds P pw uk (S fuel) round k =
  let ke := lopdf_round pw uk k in
  if (64 <=? round) && (N_of_byte (last (snd ke) x00) <=? round - 32) then fst ke
  else hash_rounds P pw uk fuel (round + 1) (fst ke).
Proof. reflexivity. Qed.

(* the first rounds: lopdf's exit test needs round >= 64 *)
Lemma hash_rounds_first pw uk j : forall fuel round k e, round + N.of_nat j <= 64 ->
  hash_rounds P pw uk (j + fuel) round k =
  hash_rounds P pw uk fuel (round + N.of_nat j) (fst (Nat.iter j (fun KE => alg2B_round I pw uk (fst KE)) (k, e))).
Proof.
  induction j as [|j IH]; intros fuel round k e H.
  - cbn [Nat.add Nat.iter nat_rect fst N.of_nat]. rewrite N.add_0_r. reflexivity.
  - change (S j + fuel)%nat with (S (j + fuel)). rewrite hash_rounds_unfold. cbv zeta.
    destruct (N.leb_spec 64 round) as [L|L]; [lia|]. cbn [andb].
    rewrite (IH fuel (round + 1) _ (snd (lopdf_round pw uk k))) by lia.
    rewrite nat_iter_succ_r. cbv beta. cbn [fst]. rewrite <- round_eq, <- surjective_pairing.
    f_equal. lia.
Qed.

(* from round 64 on: lopdf tests after computing a round whether to stop, the standard tests before
   computing a round whether to go on; both stop at round 287 at the latest (a byte is at most 255) *)
Lemma hash_rounds_rest pw uk f1 : forall f2 round k,
  64 <= round -> 288 <= round + N.of_nat f1 -> 288 <= round + N.of_nat f2 -> (1 <= f1)%nat -> (1 <= f2)%nat ->
  hash_rounds P pw uk f1 round k = alg2B_extra I f2 pw uk round (alg2B_round I pw uk k).
Proof.
  induction f1 as [|f1 IH]; intros f2 round k H64 Hf1 Hf2 H1 H2; [lia|].
  destruct f2 as [|f2]; [lia|].
  rewrite hash_rounds_unfold, round_eq. cbv zeta. cbn [alg2B_extra].
  set (ke := alg2B_round I pw uk k).
  pose proof (N_of_byte_lt (last (snd ke) x00)) as Hb.
  destruct (N.leb_spec 64 round) as [_|?]; [|lia]. cbn [andb].
  destruct (N.leb_spec (N_of_byte (last (snd ke) x00)) (round - 32)) as [A|A];
    destruct (N.ltb_spec (round - 32) (N_of_byte (last (snd ke) x00))) as [B|B]; try lia; [reflexivity|].
  apply IH; lia.
Qed.

(* Algorithm 2.B, and the plain SHA-256 of revision 5 *)
Theorem alg2B_refines a R pw salt uk : pa_revision a = R ->
  compute_hash P a pw salt uk = hash_r56 I R pw salt uk.
Proof.
  intro HR. unfold compute_hash, hash_r56, alg2B. rewrite HR. cbv zeta.
  destruct (R =? 5)%Z; [reflexivity|]. f_equal.
  change 288%nat with (63 + 225)%nat.
  rewrite (hash_rounds_first pw uk 63 225 1 _ []) by (cbv; discriminate).
  change (1 + N.of_nat 63) with 64.
  rewrite (hash_rounds_rest pw uk 225 256) by (try lia; cbv; discriminate).
  change 64%nat with (S 63) at 2.
  change (Nat.iter (S 63) ?f ?x) with (f (Nat.iter 63 f x)). reflexivity.
Qed.

Lemma trunc_pw_eq pw : trunc_pw pw = trunc127 pw.
Proof. reflexivity. Qed.

Lemma slice_eq l from n : slice l from n = sub l from n.
Proof. reflexivity. Qed.

(* Algorithm 8: U and UE.  [fek] the 32-byte file encryption key *)
Theorem alg8_refines a R fek pw rnd : pa_revision a = R -> length fek = 32%nat ->
  user_value_r6 P a fek pw rnd = alg8 I R fek pw rnd.
Proof.
  intros HR HL. unfold user_value_r6, alg8, aes_cbc_nopad_e. cbv zeta.
  rewrite !(alg2B_refines a R) by exact HR.
  rewrite cbc_encrypt_nopad_eq by (rewrite HL; reflexivity).
  change (fit 16 rnd) with (sixteen rnd). rewrite (firstn_skipn 8 (sixteen rnd)). reflexivity.
Qed.

(* Algorithm 9: O and OE; the U value of Algorithm 8 is already stored *)
Theorem alg9_refines a R fek pw rnd : pa_revision a = R -> length fek = 32%nat ->
  owner_value_r6 P a fek pw rnd = alg9 I R fek pw (pa_U a) rnd.
Proof.
  intros HR HL. unfold owner_value_r6, alg9, aes_cbc_nopad_e. cbv zeta.
  rewrite !(alg2B_refines a R) by exact HR.
  rewrite cbc_encrypt_nopad_eq by (rewrite HL; reflexivity).
  change (fit 16 rnd) with (sixteen rnd). rewrite (firstn_skipn 8 (sixteen rnd)). reflexivity.
Qed.

(* Algorithms 11 and 12 *)
Theorem alg11_refines a R pw : pa_revision a = R ->
  auth_user_r6 P a pw = if alg11 I R (pa_U a) pw then Ok tt else Err D_IncorrectPassword.
Proof.
  intro HR. unfold auth_user_r6, alg11. cbv zeta. rewrite (alg2B_refines a R) by exact HR. reflexivity.
Qed.
Theorem alg12_refines a R pw : pa_revision a = R ->
  auth_owner_r6 P a pw = if alg12 I R (pa_O a) (pa_U a) pw then Ok tt else Err D_IncorrectPassword.
Proof.
  intro HR. unfold auth_owner_r6, alg12. cbv zeta. rewrite (alg2B_refines a R) by exact HR. reflexivity.
Qed.

Record matches_r6 (a : palg) (R : Z) (O U OE UE Perms : bytes) (Pz : Z) (em : bool) : Prop := {
  m6_R : pa_revision a = R;
  m6_O : pa_O a = O;
  m6_U : pa_U a = U;
  m6_OE : pa_OE a = OE;
  m6_UE : pa_UE a = UE;
  m6_Perms : pa_perms_enc a = Perms;
  m6_OE_len : length OE = 32%nat;
  m6_UE_len : length UE = 32%nat;
  m6_P : pa_perms a = perms_of_Z Pz;
  m6_P_conf : conforming_P Pz = true;
  m6_em : pa_encrypt_metadata a = em;
}.

Lemma perms_plain_eq a Pz em rnd :
  pa_perms a = perms_of_Z Pz -> conforming_P Pz = true -> pa_encrypt_metadata a = em ->
  perms_plain a rnd = perms_block Pz em rnd.
Proof.
  intros HP HC Hem. unfold perms_plain, perms_block. rewrite HP, Hem, le_bytes_eq.
  destruct (p_value_conforming Pz HC) as [Hv _]. rewrite Hv. reflexivity.
Qed.

(* Algorithm 10: Perms *)
Theorem alg10_refines a Pz em fek rnd :
  pa_perms a = perms_of_Z Pz -> conforming_P Pz = true -> pa_encrypt_metadata a = em ->
  perms_r6 P a fek rnd = alg10 I Pz em fek rnd.
Proof.
  intros HP HC Hem. unfold perms_r6, alg10. rewrite (perms_plain_eq a Pz em rnd HP HC Hem). reflexivity.
Qed.

(* Algorithm 13: lopdf compares 3 of the 4 permission bytes and, beyond the standard's text, byte 8 with
   EncryptMetadata: it accepts every Perms the standard accepts whose byte 8 is the one Algorithm 10 (c) writes *)
Theorem alg13_refines a Pz em fek :
  pa_perms a = perms_of_Z Pz -> conforming_P Pz = true -> pa_encrypt_metadata a = em ->
  alg13 I Pz fek (pa_perms_enc a) = true ->
  nth 8 (p_aes_dec P fek (pa_perms_enc a)) x00 = (if em then "T"%byte else "F"%byte) ->
  validate_permissions P a fek = Ok tt.
Proof.
  intros HP HC Hem H13 H8. unfold alg13 in H13. cbn [i_AES_D I iprims_of] in H13.
  apply andb_true_iff in H13. destruct H13 as [Hadb H4].
  apply bytes_eqb_eq in H4.
  unfold validate_permissions. cbv zeta. rewrite slice_eq.
  change (bs "adb") with [x61; x64; x62]. rewrite Hadb. cbn [negb].
  assert (E3 : firstn 3 (p_aes_dec P fek (pa_perms_enc a)) = firstn 3 (N_to_le 8 (p_value (pa_perms a)))).
  { destruct (p_value_conforming Pz HC) as [Hv _].
    rewrite HP, Hv, le_bytes_eq.
    change 3%nat with (Nat.min 3 4). rewrite <- !firstn_firstn. rewrite H4, le_bytes8_first4, le_bytes4_high.
    reflexivity. }
  rewrite E3, bytes_eqb_refl. cbn [negb]. rewrite H8, Hem, byte_eqb_refl. reflexivity.
Qed.

(* Algorithm 2.A: the key lopdf retrieves is the key the standard retrieves (when the standard accepts the
   password, and byte 8 of the decrypted Perms is what Algorithm 10 (c) writes) *)
Theorem alg2A_refines a R O U OE UE Perms Pz em pw k :
  matches_r6 a R O U OE UE Perms Pz em ->
  alg2A I R O U OE UE Perms Pz pw = Some k ->
  nth 8 (p_aes_dec P k Perms) x00 = (if em then "T"%byte else "F"%byte) ->
  compute_fek_r6 P a pw = Ok k.
Proof.
  intros M H2A H8. unfold alg2A in H2A. unfold compute_fek_r6. cbv zeta.
  rewrite !(alg2B_refines a R) by exact (m6_R _ _ _ _ _ _ _ _ _ M).
  rewrite (m6_O _ _ _ _ _ _ _ _ _ M), (m6_U _ _ _ _ _ _ _ _ _ M), (m6_OE _ _ _ _ _ _ _ _ _ M), (m6_UE _ _ _ _ _ _ _ _ _ M).
  rewrite trunc_pw_eq. unfold slice.
  unfold alg12, alg11, sub in H2A.
  rewrite !cbc_decrypt_nopad_eq
    by (rewrite ?(m6_OE_len _ _ _ _ _ _ _ _ _ M), ?(m6_UE_len _ _ _ _ _ _ _ _ _ M); reflexivity).
  unfold aes_cbc_nopad_d in H2A. cbn [i_AES_D I iprims_of] in H2A.
  destruct (bytes_eqb (hash_r56 I R (trunc127 pw) (firstn 8 (skipn 32 O)) U) (firstn 32 O)).
  - destruct (alg13 _ _ _ _) in H2A; inversion H2A. reflexivity.
  - destruct (bytes_eqb (hash_r56 I R (trunc127 pw) (firstn 8 (skipn 32 U)) []) (firstn 32 U)); [|discriminate].
    set (ue := cbc_d _ _ _ UE) in *.
    destruct (alg13 I Pz ue Perms) eqn:E13; [|discriminate].
    assert (Hk : ue = k) by congruence. subst k.
    rewrite <- (m6_Perms _ _ _ _ _ _ _ _ _ M) in E13, H8.
    rewrite (alg13_refines a Pz em ue (m6_P _ _ _ _ _ _ _ _ _ M) (m6_P_conf _ _ _ _ _ _ _ _ _ M)
               (m6_em _ _ _ _ _ _ _ _ _ M) E13 H8).
    reflexivity.
Qed.

End R6.
