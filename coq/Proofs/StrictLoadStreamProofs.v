(* StrictLoadStreamProofs.v -- C03, part 5: the whole-file theorem for the cross-reference STREAM
   format: strict_load (so_bytes (save_core XStream d)) = SOk (sdoc_stream d).
   What is specific to this format: the trailer dictionary after the writer's updates
   (Type Size W Index, Filter swap-removed, Length), the stream content decoded through W = [1 4 2]
   and Index, the cross-reference stream listing itself (object max_id+1 at the startxref offset:
   its span is the cross-reference span, counted once). *)
From LV Require Import Base.Bytes Base.Sx Model.Obj Model.Writer Model.Save Gen.Lex Gen.SaveFmt
  Proofs.LexProofs Proofs.RealProofs Proofs.ObjectRtProofs Proofs.SaveProofs Spec.SaveSpec
  Proofs.FilterProofsDict Proofs.LoadProofs Proofs.LoadProofsXref Proofs.LoadProofsTable
  Proofs.StrictReaderProofs Proofs.SaveStrictProofs Proofs.StrictObjectProofs Proofs.StrictFileProofs
  Proofs.StrictTilingProofs Proofs.StrictLoadProofs.
From LV Require Spec.StrictReader Model.Parser.
From Coq Require Import ZifyBool ZifyN ZifyNat Permutation Sorted.

Local Open Scope N_scope.

(* ---------- the trailer of a cross-reference stream ---------- *)
Definition xs_trailer (tr : dict) (size_v : N) (secs : list xsection) (clen : nat) : dict :=
  dict_set (dict_swap_remove
              (dict_set (dict_set (dict_set (dict_set tr K_Type (OName K_XRef)) K_Size (OInt (Z.of_N size_v))) K_W xs_W)
                        K_Index (xstream_index secs))
              K_Filter)
           K_Length (OInt (Z.of_nat clen)).

Lemma xstream_parts_eq d x xs32 :
  xstream_parts d x xs32 =
  let x1 := xinsert x (d_max_id d + 1) (XNormal xs32 0) in
  let secs := stream_sections x1 (d_max_id d + 1) in
  (xs_trailer (d_trailer d) (d_max_id d + 1 + 1) secs (length (xstream_content secs)), xstream_content secs, x1).
Proof. reflexivity. Qed.

Section Trailer.
  Variables (tr : dict) (size_v : N) (secs : list xsection) (clen : nat).
  Hypothesis Hwf : dict_wf tr.
  Let t4 := dict_set (dict_set (dict_set (dict_set tr K_Type (OName K_XRef)) K_Size (OInt (Z.of_N size_v))) K_W xs_W)
                     K_Index (xstream_index secs).
  Let t := xs_trailer tr size_v secs clen.

  Lemma t4_wf : dict_wf t4.
  Proof. unfold t4. repeat apply dict_set_wf. exact Hwf. Qed.

  Lemma xs_trailer_wf : dict_wf t.
  Proof. unfold t, xs_trailer. apply dict_set_wf, swap_remove_wf. exact t4_wf. Qed.

  Lemma xs_trailer_Type : dict_get t K_Type = Some (OName K_XRef).
  Proof.
    unfold t, xs_trailer. rewrite dict_get_set_other by discriminate.
    rewrite dict_get_swap_remove_other; [|exact t4_wf | discriminate]. unfold t4.
    rewrite !dict_get_set_other by discriminate. apply dict_get_set_same.
  Qed.
  Lemma xs_trailer_Size : dict_get t K_Size = Some (OInt (Z.of_N size_v)).
  Proof.
    unfold t, xs_trailer. rewrite dict_get_set_other by discriminate.
    rewrite dict_get_swap_remove_other; [|exact t4_wf | discriminate]. unfold t4.
    rewrite !dict_get_set_other by discriminate. apply dict_get_set_same.
  Qed.
  Lemma xs_trailer_W : dict_get t K_W = Some xs_W.
  Proof.
    unfold t, xs_trailer. rewrite dict_get_set_other by discriminate.
    rewrite dict_get_swap_remove_other; [|exact t4_wf | discriminate]. unfold t4.
    rewrite !dict_get_set_other by discriminate. apply dict_get_set_same.
  Qed.
  Lemma xs_trailer_Index : dict_get t K_Index = Some (xstream_index secs).
  Proof.
    unfold t, xs_trailer. rewrite dict_get_set_other by discriminate.
    rewrite dict_get_swap_remove_other; [|exact t4_wf | discriminate]. unfold t4.
    apply dict_get_set_same.
  Qed.
  Lemma xs_trailer_Filter : dict_get t K_Filter = None.
  Proof.
    unfold t, xs_trailer. rewrite dict_get_set_other by discriminate.
    apply dict_get_swap_remove_same. exact t4_wf.
  Qed.
  Lemma xs_trailer_Length : dict_get t K_Length = Some (OInt (Z.of_nat clen)).
  Proof. unfold t, xs_trailer. apply dict_get_set_same. Qed.

  (* any other key is read from the original trailer *)
  Lemma xs_trailer_other k :
    k <> K_Type -> k <> K_Size -> k <> K_W -> k <> K_Index -> k <> K_Filter -> k <> K_Length ->
    dict_get t k = dict_get tr k.
  Proof.
    intros H1 H2 H3 H4 H5 H6. unfold t, xs_trailer. rewrite dict_get_set_other by exact H6.
    rewrite dict_get_swap_remove_other; [|exact t4_wf | exact H5]. unfold t4.
    rewrite !dict_get_set_other by assumption. reflexivity.
  Qed.

  Lemma xs_trailer_values (P : obj -> Prop) :
    Forall (fun kv => P (snd kv)) tr -> P (OName K_XRef) -> P (OInt (Z.of_N size_v)) -> P xs_W ->
    P (xstream_index secs) -> P (OInt (Z.of_nat clen)) ->
    Forall (fun kv => P (snd kv)) t.
  Proof.
    intros Htr P1 P2 P3 P4 P5.
    assert (H4 : Forall (fun kv => P (snd kv)) t4).
    { unfold t4. repeat (apply dict_set_forall; [| assumption | intros; assumption]). exact Htr. }
    unfold t, xs_trailer. apply dict_set_forall; [| exact P5 | intros; exact P5].
    apply Forall_forall. intros [k v] Hin. apply swap_remove_in in Hin; [|exact t4_wf].
    destruct Hin as [Hin _]. rewrite Forall_forall in H4. apply (H4 _ Hin).
  Qed.
End Trailer.

(* ---------- bounds ---------- *)
Lemma in_i64_small z : (0 <= z < 4294967296 * 8)%Z -> Parser.in_i64 z = true.
Proof. intro H. unfold Parser.in_i64, Parser.i64_min, Parser.i64_max. lia. Qed.

Lemma index_wf secs B :
  Forall (sec_in B) secs -> B <= u32_mod -> obj_wf (xstream_index secs).
Proof.
  intros Hs HB. unfold xstream_index. constructor. induction Hs as [|s l [_ [Hb _]] Hl IH]; [constructor|].
  cbn [flat_map app]. constructor; [|constructor; [|exact IH]]; constructor; apply in_i64_small; unfold u32_mod in *; lia.
Qed.

Lemma normal_entry_ok e : normal_e e -> entry_ok e.
Proof. destruct e; cbn; try tauto. unfold Parser.u32_max, u32_mod. lia. Qed.

Lemma stream_sections_in (x : xmap) size :
  Forall (fun ke => normal_e (snd ke)) x -> Forall (sec_in (1 + size)) (stream_sections x size).
Proof.
  intro Hn. unfold stream_sections. apply sections_loop_in; [left; reflexivity | constructor | | lia].
  intros j e He. apply xget_in in He. rewrite Forall_forall in Hn. apply normal_entry_ok. apply (Hn _ He).
Qed.

Lemma incr_snoc : forall (x : xmap) lo k e, incr lo x -> Forall (fun ke => fst ke < k) x -> lo <= k -> incr lo (x ++ [(k, e)]).
Proof.
  induction x as [|[i e'] x IH]; intros lo k e Hi Hb Hlo; cbn [app incr]; [split; [exact Hlo | exact I]|].
  cbn [incr] in Hi. destruct Hi as [H1 H2]. inversion Hb; subst. cbn [fst] in *.
  split; [exact H1 | apply IH; [exact H2 | assumption | lia]].
Qed.

Lemma read_entries_app : forall es1 es2 file len revs l1,
  SR.read_entries file len revs es1 = SR.SOk l1 ->
  SR.read_entries file len revs (es1 ++ es2) =
  SR.sbind (SR.read_entries file len revs es2) (fun l2 => SR.SOk (l1 ++ l2)).
Proof.
  induction es1 as [|[id e] es1 IH]; intros es2 file len revs l1 H.
  - cbn in H. inversion H; subst. cbn [app]. destruct (SR.read_entries file len revs es2); reflexivity.
  - cbn [app SR.read_entries] in *. destruct e as [nx g|off gen]; [apply IH; exact H|].
    destruct (SR.read_at file len revs id off gen) as [l|]; cbn [SR.sbind] in *; [|discriminate].
    destruct (SR.read_entries file len revs es1) as [ls|] eqn:E; cbn [SR.sbind] in *; [|discriminate].
    inversion H; subst. rewrite (IH es2 file len revs ls E).
    destruct (SR.read_entries file len revs es2); reflexivity.
Qed.

Lemma save_stream_ok d : savable_core d -> so_status (save_core XStream d) = SaveOk.
Proof.
  intro Sv. unfold save_core. pose proof (sv_max_id d Sv) as Hm.
  replace (u32_top <=? d_max_id d) with false by (symmetry; apply N.leb_gt; unfold u32_top, u32_mod in *; lia).
  rewrite (sv_mark d Sv). cbn [negb]. destruct (save_body d) as [[b xs] x].
  replace (u32_top <=? d_max_id d + 1) with false by (symmetry; apply N.leb_gt; unfold u32_top, u32_mod in *; lia).
  destruct (xstream_parts d x (xs mod u32_mod)) as [[t c] x1]. reflexivity.
Qed.

(* ---------- the expected result ---------- *)
Definition xs_map (d : doc) : xmap :=
  entries_of (hm_len d) (d_objects d) ++ [(d_max_id d + 1, XNormal (blen (body_of d)) 0)].
Definition xs_secs (d : doc) : list xsection := stream_sections (xs_map d) (d_max_id d + 1).
Definition xs_dict (d : doc) : dict :=
  xs_trailer (d_trailer d) (d_max_id d + 1 + 1) (xs_secs d) (length (xstream_content (xs_secs d))).

Definition rev_stream (d : doc) (len : N) : SR.revision :=
  let x := blen (body_of d) in
  {| SR.r_x := x; SR.r_stream := true;
     SR.r_entries := map xuse_of (xs_map d);
     SR.r_trailer := norm_dict (xs_dict d); SR.r_size := d_max_id d + 1 + 1;
     SR.r_p := len - SR.lenN (marker x); SR.r_q := len |}.

Definition xs_located (d : doc) (len : N) : SR.located :=
  {| SR.l_id := d_max_id d + 1; SR.l_gen := 0; SR.l_off := blen (body_of d);
     SR.l_end := len - SR.lenN (marker (blen (body_of d)));
     SR.l_obj := OStream (norm_dict (xs_dict d)) (xstream_content (xs_secs d)) |}.

Definition sdoc_stream (d : doc) : SR.sdoc :=
  let file := so_bytes (save_core XStream d) in
  let len := SR.lenN file in
  let rv := rev_stream d len in
  let locs := located_of (hm_len d) (d_objects d) in
  {| SR.s_version := d_version d;
     SR.s_objects := norm_objects (d_objects d);
     SR.s_trailer := norm_dict (xs_dict d);
     SR.s_revisions := 1;
     SR.s_stream := true;
     SR.s_spans := ((0, hm_len d) :: map span_of locs) ++
                   [(SR.r_x rv, SR.r_p rv); (SR.r_x rv, SR.r_p rv); (SR.r_p rv, len); (len, len)];
     SR.s_revs := [rv];
     SR.s_located := [locs ++ [xs_located d len]];
     SR.s_startxref := blen (body_of d) |}.

Lemma wio_stream_long id g t c : blen c < blen (write_indirect_object id g (OStream t c)).
Proof.
  pose proof (wio_shape id g (OStream t c) []) as H. rewrite app_nil_r in H. rewrite H, obj_tail_stream.
  unfold stream_tail, blen. repeat (rewrite ?app_length; cbn [length]). lia.
Qed.

Lemma entries_bound_savable d : savable_core d -> Forall (fun ke => fst ke < d_max_id d + 1) (entries_of (hm_len d) (d_objects d)).
Proof.
  intro Sv. apply entries_of_bound. pose proof (sv_objects d Sv) as Ho. eapply Forall_impl; [|exact Ho].
  intros io [H1 _]. unfold oid in *. lia.
Qed.

Lemma save_stream_shape d :
  savable_core d -> blen (body_of d) < u32_mod ->
  so_bytes (save_core XStream d) =
  body_of d ++ write_indirect_object (d_max_id d + 1) 0 (OStream (xs_dict d) (xstream_content (xs_secs d))) ++
  startxref_bytes (blen (body_of d)).
Proof.
  intros Sv Hn. destruct (save_core_shape XStream d (save_stream_ok d Sv)) as [mid [Hbytes Hmid]]. cbv zeta in Hmid.
  rewrite Hbytes. f_equal. f_equal. rewrite Hmid. rewrite (N.mod_small _ _ Hn).
  rewrite (xmap_shape d (sv_numbers d Sv)). rewrite xstream_parts_eq. cbv zeta. cbn [fst snd].
  rewrite (save_xinsert_last _ _ _ (entries_bound_savable d Sv)). reflexivity.
Qed.

Theorem strict_load_stream d :
  strict_savable_core d -> small_file_core XStream d ->
  SR.strict_load (so_bytes (save_core XStream d)) = SR.SOk (sdoc_stream d).
Proof.
  intros [Sv Hv Hm4] Hsmall.
  pose proof (sv_numbers d Sv) as Hinc. pose proof (sv_max_id d Sv) as Hmax.
  pose proof (body_shape d) as Ebody.
  unfold small_file_core in Hsmall.
  assert (Hnsmall : blen (body_of d) < u32_mod).
  { destruct (save_core_shape XStream d (save_stream_ok d Sv)) as [mid [Hbytes _]].
    rewrite Hbytes in Hsmall. rewrite blen_app in Hsmall. lia. }
  pose proof (save_stream_shape d Sv Hnsmall) as E5.
  unfold sdoc_stream, rev_stream, xs_located.
  set (file := so_bytes (save_core XStream d)) in *.
  set (objs := d_objects d) in *. set (HM := header_bytes d ++ mark_bytes d) in *.
  set (n := blen (body_of d)) in *. set (nid := d_max_id d + 1) in *.
  set (x := entries_of (hm_len d) objs) in *.
  (* facts about the map *)
  assert (Hxi : incr 1 x) by (apply (entries_of_incr objs (hm_len d) 0 Hinc)).
  assert (Hxb : Forall (fun ke => fst ke < nid) x) by (apply entries_bound_savable; exact Sv).
  assert (Hxn : Forall (fun ke => normal_e (snd ke)) x).
  { apply entries_of_normal. pose proof (sv_objects d Sv) as Ho. eapply Forall_impl; [|exact Ho].
    intros io [_ [H1 _]]. unfold Parser.u16_max in H1. exact H1. }
  assert (Esecs : xs_secs d = stream_sections (xs_map d) nid) by reflexivity.
  set (x1 := xs_map d) in *. set (secs := xs_secs d) in *. set (t := xs_dict d) in *.
  set (content := xstream_content secs) in *.
  assert (Hx1i : incr 1 x1).
  { unfold x1, xs_map. fold x n nid objs. apply incr_snoc; [exact Hxi | exact Hxb | unfold nid; lia]. }
  assert (Hx1b : Forall (fun ke => fst ke < 1 + nid) x1).
  { unfold x1, xs_map. fold x n nid objs. apply Forall_app. split.
    - eapply Forall_impl; [|exact Hxb]. intros a Ha. cbn beta in *. lia.
    - constructor; [cbn [fst]; lia | constructor]. }
  assert (Hx1n : Forall (fun ke => normal_e (snd ke)) x1).
  { unfold x1, xs_map. fold x n nid objs. apply Forall_app. split; [exact Hxn|].
    constructor; [cbn [snd normal_e]; lia | constructor]. }
  assert (Hflat : flatten secs = x1) by (rewrite Esecs; apply stream_flat; assumption).
  assert (Hsn : Forall sec_normal secs) by (rewrite Esecs; apply stream_sections_normal; exact Hx1n).
  assert (Hsin : Forall (sec_in (1 + nid)) secs) by (rewrite Esecs; apply stream_sections_in; exact Hx1n).
  (* the file *)
  set (xo := write_indirect_object nid 0 (OStream t content)) in *.
  assert (E1 : file = body_of d ++ xo ++ startxref_bytes n ++ []).
  { rewrite app_nil_r. exact E5. }
  assert (E2 : file = header_bytes d ++ mark_bytes d ++ (objs_bytes objs ++ xo ++ startxref_bytes n)).
  { rewrite E1, Ebody, app_nil_r. fold HM. unfold HM. rewrite <- !app_assoc. reflexivity. }
  assert (E3 : file = HM ++ objs_bytes objs ++ (xo ++ startxref_bytes n)).
  { rewrite E2. unfold HM. rewrite <- !app_assoc. reflexivity. }
  assert (E4 : file = (body_of d ++ xo) ++ startxref_bytes n).
  { rewrite E1, app_nil_r, <- app_assoc. reflexivity. }
  set (len := SR.lenN file) in *.
  assert (Hlen : len = n + blen xo + blen (startxref_bytes n)).
  { unfold len. rewrite E5. unfold SR.lenN, blen, n. rewrite !app_length. unfold blen. lia. }
  assert (Hclen : blen content < u32_mod).
  { pose proof (wio_stream_long nid 0 t content) as Hl. fold xo in Hl. unfold len, SR.lenN, blen in *. lia. }
  (* the trailer *)
  pose proof (sv_trailer d Sv) as Htr. inversion Htr as [| | | | | | |tr0 Hnd Hfv|]; subst.
  assert (Hdw : dict_wf (d_trailer d)) by exact Hnd.
  assert (Htw : obj_wf (ODict t)).
  { constructor; [apply xs_trailer_wf; exact Hdw|].
    apply (xs_trailer_values (d_trailer d) _ _ _ Hdw obj_wf Hfv).
    - constructor.
    - constructor. apply in_i64_small. unfold u32_mod in *. lia.
    - unfold xs_W, XS_W1, XS_W2, XS_W3. constructor. repeat constructor.
    - apply (index_wf secs (1 + nid) Hsin). unfold nid, u32_mod in *. lia.
    - constructor. apply in_i64_small. pose proof Hclen as Hc'. unfold content, secs, blen, u32_mod in Hc' |- *. lia. }
  assert (Htop : top_wf (OStream t content)).
  { split; [exact Htw|]. apply xs_trailer_Length. }
  pose proof (read_section_stream file (body_of d) nid t secs (nid + 1) [] E1 Htop
                (xs_trailer_Type _ _ _ _ Hdw) (xs_trailer_Filter _ _ _ _ Hdw) (xs_trailer_Size _ _ _ _ Hdw)
                (xs_trailer_W _ _ _ _ Hdw) (xs_trailer_Index _ _ _ _ Hdw) Hsn) as Hsec.
  fold n len in Hsec. rewrite Hflat in Hsec. rewrite app_nil_r in Hsec.
  change (SR.lenN []) with 0 in Hsec. rewrite N.sub_0_r in Hsec.
  set (p := len - SR.lenN (marker n)) in *.
  set (rv := {| SR.r_x := n; SR.r_stream := true; SR.r_entries := map xuse_of x1;
                SR.r_trailer := norm_dict t; SR.r_size := nid + 1; SR.r_p := p; SR.r_q := len |}) in *.
  assert (Hprev : dict_get (norm_dict t) SR.N_Prev = None).
  { change SR.N_Prev with K_Prev. rewrite dict_get_norm. unfold t, xs_dict.
    rewrite (xs_trailer_other (d_trailer d) _ _ _ Hdw K_Prev) by discriminate.
    rewrite (dict_has_false_get _ _ (sv_no_prev d Sv)). reflexivity. }
  assert (Hn : n = hm_len d + blen (objs_bytes objs)).
  { unfold n. rewrite Ebody. fold HM. rewrite blen_app. reflexivity. }
  assert (Hmk : blen (startxref_bytes n) = 1 + SR.lenN (marker n)).
  { rewrite startxref_marker. unfold blen, SR.lenN. cbn [length]. lia. }
  pose proof (wio_nonempty nid 0 (OStream t content)) as Hxopos. fold xo in Hxopos.
  assert (Hmkpos : 0 < SR.lenN (marker n)) by (unfold marker, SR.lenN; rewrite app_length; cbn [length bs]; lia).
  assert (Hp : n < p /\ p < len) by (unfold p; lia).
  (* run the reader *)
  unfold SR.strict_load. fold len.
  rewrite E2 at 1. rewrite (save_header_accepted d _ Hv (sv_mark d Sv) Hm4).
  cbn [SR.sbind].
  assert (Hxosolid : solid (xo ++ startxref_bytes n) = true).
  { unfold xo, write_indirect_object. rewrite <- !app_assoc. apply solid_digits; [apply N_dec_nonempty | apply N_dec_digits]. }
  assert (Hsolid : solid (objs_bytes objs ++ xo ++ startxref_bytes n) = true)
    by (apply objs_bytes_solid; exact Hxosolid).
  rewrite (skip_ws_solid _ Hsolid).
  rewrite E4 at 1. rewrite save_find_tail. cbn [SR.of_opt SR.sbind].
  assert (Hchain : SR.read_chain (S (length file)) file len n = SR.SOk [rv]).
  { cbn [SR.read_chain]. rewrite Hsec. cbn [SR.sbind]. change (SR.r_trailer rv) with (norm_dict t). rewrite Hprev. reflexivity. }
  rewrite Hchain. cbn [SR.sbind SR.r_q rv].
  unfold len at 1. rewrite at_off_all. cbn [negb].
  (* entry checks *)
  assert (Hids : Forall (fun ie : N * SR.xent => fst ie < nid + 1) (map xuse_of x1)).
  { rewrite Forall_map. eapply Forall_impl; [|exact Hx1b]. intros a Ha. unfold xuse_of. cbn [fst]. cbn beta in Ha. lia. }
  assert (Hcheck : SR.check_revs (SR.r_size rv) [rv] = SR.SOk tt).
  { cbn [SR.check_revs SR.r_size SR.r_entries rv]. rewrite (ids_below_ok (nid + 1) _ Hids).
    rewrite (first_dup_sincr _ 1); [reflexivity|]. apply sincr_map. exact Hx1i. }
  rewrite Hcheck. cbn [SR.sbind].
  (* the objects *)
  assert (Hsm : SR.lenN file <= u32_mod) by (unfold SR.lenN, blen in *; lia).
  set (locs := located_of (hm_len d) objs).
  set (xl := {| SR.l_id := nid; SR.l_gen := 0; SR.l_off := n; SR.l_end := p;
                SR.l_obj := OStream (norm_dict t) content |}).
  assert (Hall : SR.read_all file len [rv] [rv] = SR.SOk [locs ++ [xl]]).
  { cbn [SR.read_all SR.r_entries rv]. unfold x1, xs_map. fold x n nid objs. rewrite map_app.
    assert (H1 : SR.read_entries file len [rv] (map xuse_of x) = SR.SOk locs).
    { unfold len, x, hm_len, locs. fold HM.
      apply (read_entries_written objs file [rv] HM (xo ++ startxref_bytes n) E3 (savable_obj_dom d Sv) Hxosolid Hsm). }
    rewrite (read_entries_app _ _ _ _ _ _ H1).
    cbn [map xuse_of fst snd xent_of SR.read_entries].
    unfold len, n. rewrite (read_at_written_gen file [rv] (body_of d) nid 0 (OStream t content) (startxref_bytes (blen (body_of d))) E5 ltac:(lia) Htop).
    fold n len. change (SR.skip_sp (startxref_bytes n)) with (marker n). fold p.
    cbn [SR.sbind norm_obj]. fold (norm_dict t). reflexivity. }
  rewrite Hall. cbn [SR.sbind].
  (* spans *)
  assert (He0 : len - SR.lenN (objs_bytes objs ++ xo ++ startxref_bytes n) = hm_len d).
  { unfold len. rewrite E2. unfold hm_len, SR.lenN, blen. rewrite !app_length. lia. }
  rewrite He0.
  cbn [rev app flat_map SR.filler_spans concat SR.r_x SR.r_p SR.r_q rv].
  rewrite app_nil_r. rewrite map_app. cbn [map SR.l_off SR.l_end xl].
  change (map (fun l => (SR.l_off l, SR.l_end l)) locs) with (map span_of locs).
  set (c1 := (0, hm_len d) :: map span_of locs).
  assert (Hc1 : chain 0 c1 n).
  { unfold c1. constructor; [apply hm_len_pos|].
    pose proof (located_chain objs (hm_len d)) as Hc. rewrite <- Hn in Hc. exact Hc. }
  set (target := c1 ++ [(n, p); (n, p); (p, len); (len, len)]).
  assert (Hsort : SR.sort_spans ((0, hm_len d) :: (n, p) :: (p, len) :: (map span_of locs ++ [(n, p)]) ++ [(len, len)])
                  = target).
  { apply sort_unique.
    - unfold target, c1. cbn [app]. apply perm_skip.
      change ((n, p) :: (p, len) :: (map span_of locs ++ [(n, p)]) ++ [(len, len)])
        with ([(n, p); (p, len)] ++ (map span_of locs ++ [(n, p)]) ++ [(len, len)]).
      rewrite <- !app_assoc.
      apply Permutation_trans with (map span_of locs ++ [(n, p); (p, len)] ++ [(n, p)] ++ [(len, len)]).
      + rewrite !app_assoc. do 2 apply Permutation_app_tail. apply Permutation_app_comm.
      + apply Permutation_app_head. cbn [app]. apply perm_skip. apply perm_swap.
    - unfold target. apply sorted_app; [eapply chain_fleq; exact Hc1| |].
      + apply SSorted_cons; [apply SSorted_cons; [apply SSorted_cons; [apply SSorted_cons; [constructor | constructor]|]|]|].
        * constructor; [left; cbn [fst]; lia | constructor].
        * constructor; [left; cbn [fst]; lia | constructor; [left; cbn [fst]; lia | constructor]].
        * constructor; [right; reflexivity|]. constructor; [left; cbn [fst]; lia | constructor; [left; cbn [fst]; lia | constructor]].
      + intros a b Ha Hb. pose proof (chain_bounds _ _ _ Hc1) as Hbd. rewrite Forall_forall in Hbd.
        specialize (Hbd a Ha). left.
        destruct Hb as [<-|[<-|[<-|[<-|[]]]]]; cbn [fst]; lia. }
  unfold SR.spanT, span_of in *. rewrite Hsort. unfold target.
  assert (Hc2 : chain 0 (c1 ++ [(n, p)]) p).
  { eapply chain_app; [exact Hc1|]. constructor; [lia | constructor]. }
  replace (c1 ++ [(n, p); (n, p); (p, len); (len, len)]) with ((c1 ++ [(n, p)]) ++ [(n, p); (p, len); (len, len)])
    by (rewrite <- app_assoc; reflexivity).
  unfold SR.spanT in *.
  destruct (tiles_seg (c1 ++ [(n, p)]) 0 p (0, 0) [(n, p); (p, len); (len, len)] Hc2 ltac:(cbn [snd]; lia)) as [Ht _].
  unfold SR.spanT in *. rewrite Ht. rewrite last_last. rewrite tiles_dup by lia.
  assert (Hc3 : chain p [(p, len)] len) by (constructor; [lia | constructor]).
  destruct (tiles_seg [(p, len)] p len (n, p) [(len, len)] Hc3 ltac:(cbn [snd]; lia)) as [Ht2 _].
  unfold SR.spanT in *. cbn [app] in Ht2. rewrite Ht2, tiles_empty. cbn [SR.tiles SR.sbind]. rewrite N.eqb_refl. cbn [negb].
  (* the object map *)
  assert (Hfil : filter (fun l => negb (SR.is_xref_off [rv] (SR.l_off l))) (locs ++ [xl]) = locs).
  { rewrite filter_app. cbn [filter SR.is_xref_off existsb SR.r_stream SR.r_x rv xl SR.l_off andb orb].
    rewrite N.eqb_refl. cbn [negb]. rewrite app_nil_r. apply filter_all_true. intros a Ha.
    pose proof (located_offsets_lt objs (hm_len d)) as Hlt. rewrite Forall_forall in Hlt. specialize (Hlt a Ha).
    rewrite <- Hn in Hlt. replace (n =? SR.l_off a) with false by (symmetry; apply N.eqb_neq; lia). reflexivity. }
  cbn [map]. rewrite Hfil. cbn [SR.merge_objects existsb negb].
  rewrite (filter_all_true _ locs) by (intros; reflexivity).
  unfold locs. rewrite (fold_insert_located objs (hm_len d) [] 0 (savable_unskipped d Sv) Hinc (Forall_nil _)).
  cbn [app length]. rewrite <- app_assoc. reflexivity.
Qed.

