(* StrictHistoryProofs.v -- C03, part 10: A HISTORY OF ANY NUMBER OF INCREMENTAL UPDATES read by the
   strict reader (Spec/StrictReader.v).

   Part 1 (facts about the specification alone): the Prev chain of k sections ([read_chain_n]), the
   entry checks ([check_revs_ok]), the objects of every section ([read_all_ok]), the filler spans of
   k revisions ([fillers_cons]), the k-fold merge ([merge_objects_list]).
   Part 2 (span bookkeeping): the geometry of one revision ([geo]: where its filler, its objects, its
   cross-reference section and its marker lie), the ascending arrangement [tiling] of the spans of k
   consecutive revisions, that the reader's span list is a permutation of it ([perm_tiling]), that it
   is sorted ([tiling_good]) and that the tiling check walks over it ([tiles_tiling]).
   Part 3 (the layout of a history): [hist] = a saved file followed by any number of appended
   revisions as IncrementalDocument::save lays them out (each with its own cross-reference format),
   [h_bytes], the domain [h_dom] (every revision in the writer's domain, Prev = the previous startxref,
   max_id not below any number listed before), the explicit result [sdoc_hist] and
   [strict_load_hist] : strict_load (h_bytes h) = SOk (sdoc_hist h), by induction over the history.
   The tie to the MODEL of the editing operations (Model/Incremental.v) and to c07's [lopdf_history]
   is in StrictHistorySaveProofs.v. *)
From LV Require Import Base.Bytes Base.Sx Model.Obj Model.Writer Model.Save Model.Incremental Gen.Lex Gen.SaveFmt Gen.Inc
  Proofs.LexProofs Proofs.RealProofs Proofs.ObjectRtProofs Proofs.SaveProofs Spec.SaveSpec
  Proofs.FilterProofsDict Proofs.LoadProofs Proofs.LoadProofsXref Proofs.LoadProofsTable
  Proofs.StrictReaderProofs Proofs.SaveStrictProofs Proofs.StrictObjectProofs Proofs.StrictFileProofs
  Proofs.StrictTilingProofs Proofs.StrictLoadProofs Proofs.StrictLoadStreamProofs Proofs.StrictRevisionProofs
  Proofs.StrictIncrementalProofs.
From LV Require Spec.StrictReader Model.Parser.
From Coq Require Import ZifyBool ZifyN ZifyNat Permutation Sorted.

Local Open Scope N_scope.

(* ====================================================================================== *)
(* Part 1: the reader's loops over k revisions                                              *)
(* ====================================================================================== *)

(* the Prev chain, newest first: every section names the next older one, offsets strictly decrease,
   the oldest has no Prev *)
Fixpoint chain_ok (rs : list SR.revision) : Prop :=
  match rs with
  | [] => False
  | r :: rs' =>
    match rs' with
    | [] => dict_get (SR.r_trailer r) SR.N_Prev = None
    | r' :: _ =>
      dict_get (SR.r_trailer r) SR.N_Prev = Some (OInt (Z.of_N (SR.r_x r'))) /\ SR.r_x r' < SR.r_x r /\ chain_ok rs'
    end
  end.

Definition sections_read (file : bytes) (len : N) (rs : list SR.revision) : Prop :=
  Forall (fun r => SR.read_section file len (SR.r_x r) = SR.SOk r) rs.

Lemma read_chain_n file len : forall rs r fuel,
  chain_ok (r :: rs) -> sections_read file len (r :: rs) -> (length (r :: rs) <= fuel)%nat ->
  SR.read_chain fuel file len (SR.r_x r) = SR.SOk (r :: rs).
Proof.
  induction rs as [|r' rs IH]; intros r fuel Hc Hf Hl.
  - destruct fuel as [|f]; [cbn [length] in Hl; lia|]. cbn [SR.read_chain].
    inversion Hf as [|? ? H1 H2]; subst. rewrite H1. cbn [SR.sbind]. cbn [chain_ok] in Hc. rewrite Hc. reflexivity.
  - destruct fuel as [|f]; [cbn [length] in Hl; lia|]. cbn [SR.read_chain].
    inversion Hf as [|? ? H1 H2]; subst. rewrite H1. cbn [SR.sbind].
    change (chain_ok (r :: r' :: rs)) with
      (dict_get (SR.r_trailer r) SR.N_Prev = Some (OInt (Z.of_N (SR.r_x r'))) /\ SR.r_x r' < SR.r_x r /\ chain_ok (r' :: rs)) in Hc.
    destruct Hc as [Hp [Hlt Hc']]. rewrite Hp.
    replace ((0 <=? Z.of_N (SR.r_x r'))%Z && (Z.of_N (SR.r_x r') <? Z.of_N (SR.r_x r))%Z) with true
      by (symmetry; apply andb_true_iff; split; lia).
    rewrite N2Z.id. rewrite (IH r' f Hc' H2) by (cbn [length] in *; lia). reflexivity.
Qed.

(* the entry checks *)
Definition entries_checked (sz : N) (r : SR.revision) : Prop :=
  Forall (fun ie : N * SR.xent => fst ie < SR.r_size r) (SR.r_entries r) /\
  Forall (fun ie : N * SR.xent => fst ie < sz) (SR.r_entries r) /\
  sincr 0 (SR.r_entries r).

Lemma check_revs_ok sz : forall rs, Forall (entries_checked sz) rs -> SR.check_revs sz rs = SR.SOk tt.
Proof.
  induction 1 as [|r rs [H1 [H2 H3]] _ IH]; [reflexivity|]. cbn [SR.check_revs].
  rewrite (ids_below_ok _ _ H1), (ids_below_ok _ _ H2), (first_dup_sincr _ 0 H3). exact IH.
Qed.

Lemma Forall2_imp {A B} (P Q : A -> B -> Prop) l1 l2 : (forall a b, P a b -> Q a b) -> Forall2 P l1 l2 -> Forall2 Q l1 l2.
Proof. intros H F. induction F; constructor; auto. Qed.

(* the objects of every section *)
Lemma read_all_ok file len all : forall rs ls,
  Forall2 (fun r l => SR.read_entries file len all (SR.r_entries r) = SR.SOk l) rs ls ->
  SR.read_all file len all rs = SR.SOk ls.
Proof.
  induction 1 as [|r l rs ls H _ IH]; [reflexivity|]. cbn [SR.read_all]. rewrite H. cbn [SR.sbind]. rewrite IH. reflexivity.
Qed.

(* the filler spans: one per revision, each starting where the previous marker ends *)
Definition fill_at (file : bytes) (len s : N) : SR.spanT := (s, len - SR.lenN (SR.skip_ws (SR.at_off file s) false)).

Definition fillers (file : bytes) (len e0 : N) (revs : list SR.revision) : list SR.spanT :=
  match rev revs with
  | [] => []
  | r0 :: rest => (0, e0) :: SR.filler_spans file len (SR.r_q r0) rest
  end.

Lemma filler_spans_snoc file len : forall rest start r,
  SR.filler_spans file len start (rest ++ [r]) =
  SR.filler_spans file len start rest ++ [fill_at file len (fold_left (fun _ r => SR.r_q r) rest start)].
Proof.
  induction rest as [|r1 rest IH]; intros start r; [reflexivity|].
  cbn [app SR.filler_spans fold_left]. rewrite IH. reflexivity.
Qed.

Lemma fold_last_q : forall (l : list SR.revision) r s, fold_left (fun _ r => SR.r_q r) (l ++ [r]) s = SR.r_q r.
Proof. intros l r s. rewrite fold_left_app. reflexivity. Qed.

Lemma fillers_one file len e0 r : fillers file len e0 [r] = [(0, e0)].
Proof. reflexivity. Qed.

Lemma fillers_cons file len e0 r r' revs :
  fillers file len e0 (r :: r' :: revs) = fillers file len e0 (r' :: revs) ++ [fill_at file len (SR.r_q r')].
Proof.
  unfold fillers. change (rev (r :: r' :: revs)) with (rev (r' :: revs) ++ [r]).
  destruct (rev (r' :: revs)) as [|r0 rest] eqn:E.
  - exfalso. apply (f_equal (@length _)) in E. rewrite rev_length in E. discriminate E.
  - cbn [app]. rewrite filler_spans_snoc. cbn [app]. do 2 f_equal. f_equal.
    change (fold_left (fun _ r1 => SR.r_q r1) rest (SR.r_q r0)) with (fold_left (fun _ r1 => SR.r_q r1) (r0 :: rest) 0).
    rewrite <- E. cbn [rev]. rewrite fold_last_q. reflexivity.
Qed.

(* the k-fold merge, on object lists: the first (newest) revision that lists a number decides *)
Fixpoint omerge_list (l : list (list N * objmap)) (seen : list N) (acc : objmap) : objmap :=
  match l with
  | [] => acc
  | (ids, objs) :: l' =>
    omerge_list l' (ids ++ seen)
      (fold_left (fun m io => insert m (fst io) (snd io))
                 (filter (fun io : oid * obj => negb (existsb (N.eqb (fst (fst io))) seen)) objs) acc)
  end.

Lemma merge_objects_list : forall revs locs seen acc, length revs = length locs ->
  SR.merge_objects revs locs seen acc =
  omerge_list (combine (map (fun r => map fst (SR.r_entries r)) revs) (map (map loc_io) locs)) seen acc.
Proof.
  induction revs as [|r revs IH]; intros [|ls locs] seen acc Hl; try discriminate Hl; [reflexivity|].
  cbn [SR.merge_objects map combine omerge_list]. rewrite fold_located_io. apply IH. cbn [length] in Hl. lia.
Qed.

(* ====================================================================================== *)
(* Part 2: spans of k consecutive revisions                                                *)
(* ====================================================================================== *)
Record geo := {
  g_a : N;                   (* end of the previous file (0 for the first revision) *)
  g_pos : N;                 (* first object: after the header / the repeated header lines *)
  g_n : N;                   (* the cross-reference section *)
  g_p : N;                   (* its end = the startxref marker *)
  g_q : N;                   (* end of the marker = end of the revision *)
  g_O : list SR.spanT;       (* one span per object *)
  g_x : xref_type;           (* a cross-reference stream is also located as an object *)
}.

Definition g_D (g : geo) : list SR.spanT := dup_span (g_x g) (g_n g, g_p g).
Definition g_fill (g : geo) : SR.spanT := (g_a g, g_pos g).
Definition g_secs (g : geo) : list SR.spanT := [(g_n g, g_p g); (g_p g, g_q g)].
Definition g_objs (g : geo) : list SR.spanT := g_O g ++ g_D g.
(* the spans of one revision in ascending order *)
Definition block (g : geo) : list SR.spanT := (g_fill g :: g_O g) ++ ((g_n g, g_p g) :: g_D g) ++ [(g_p g, g_q g)].
(* the same without the repetition: filler, objects, section, marker *)
Definition block_once (g : geo) : list SR.spanT := (g_fill g :: g_O g) ++ [(g_n g, g_p g); (g_p g, g_q g)].

Record geo_ok (g : geo) : Prop := {
  go_a : g_a g < g_pos g;
  go_O : chain (g_pos g) (g_O g) (g_n g);
  go_n : g_n g < g_p g;
  go_p : g_p g < g_q g;
}.

Definition g_below (gs : list geo) : N := match gs with [] => 0 | g :: _ => g_q g end.
Definition g_last (gs : list geo) : SR.spanT := match gs with [] => (0, 0) | g :: _ => (g_p g, g_q g) end.

(* newest first; every revision starts where the previous one ends *)
Fixpoint geos_ok (gs : list geo) : Prop :=
  match gs with
  | [] => True
  | g :: gs' => geo_ok g /\ g_a g = g_below gs' /\ geos_ok gs'
  end.

(* oldest revision first *)
Fixpoint tiling (gs : list geo) : list SR.spanT :=
  match gs with
  | [] => []
  | g :: gs' => tiling gs' ++ block g
  end.

(* every revision's spans tile its byte range *)
Lemma block_once_chain g : geo_ok g -> chain (g_a g) (block_once g) (g_q g).
Proof.
  intros [Ha HO Hn Hp]. unfold block_once. eapply chain_app.
  - constructor; [exact Ha | exact HO].
  - constructor; [exact Hn|]. constructor; [exact Hp|]. constructor.
Qed.

Lemma block_good g : geo_ok g -> good (g_a g) (g_q g) (block g).
Proof.
  intros [Ha HO Hn Hp]. pose proof (chain_le _ _ _ HO) as Hle. unfold block.
  assert (C1 : chain (g_a g) (g_fill g :: g_O g) (g_n g)) by (constructor; [exact Ha | exact HO]).
  assert (C3 : chain (g_p g) [(g_p g, g_q g)] (g_q g)) by (constructor; [exact Hp | constructor]).
  pose proof (good_app _ _ _ _ _ _ (good_dup (g_x g) (g_n g) (g_p g)) (good_chain _ _ _ C3) ltac:(lia) ltac:(lia) ltac:(lia)) as G23.
  exact (good_app _ _ _ _ _ _ (good_chain _ _ _ C1) G23 ltac:(lia) ltac:(lia) ltac:(lia)).
Qed.

Lemma geos_ok_le : forall gs, geos_ok gs -> match gs with [] => True | g :: _ => g_a g < g_q g end.
Proof.
  destruct gs as [|g gs]; [trivial|]. intros [[Ha HO Hn Hp] _]. pose proof (chain_le _ _ _ HO). lia.
Qed.

Lemma tiling_good : forall gs, geos_ok gs -> good 0 (g_below gs) (tiling gs).
Proof.
  induction gs as [|g gs IH]; intro H.
  - split; constructor.
  - destruct H as [Hg [Ea Hgs]]. cbn [tiling g_below].
    pose proof (geos_ok_le (g :: gs) (conj Hg (conj Ea Hgs))) as Hlt. cbn beta iota in Hlt.
    apply (good_app 0 (g_below gs) (g_a g) (g_q g)); [apply IH; exact Hgs | apply block_good; exact Hg | lia | lia | lia].
Qed.

Lemma tiles_block g cur prev rest :
  geo_ok g -> cur = g_a g -> snd prev <= cur ->
  SR.tiles cur prev (block g ++ rest) = SR.tiles (g_q g) (g_p g, g_q g) rest.
Proof.
  intros [Ha HO Hn Hp] -> Hprev. unfold block.
  assert (E : ((g_fill g :: g_O g) ++ ((g_n g, g_p g) :: g_D g) ++ [(g_p g, g_q g)]) ++ rest =
              ((g_fill g :: g_O g) ++ [(g_n g, g_p g)]) ++ g_D g ++ [(g_p g, g_q g)] ++ rest).
  { rewrite <- ?app_assoc. cbn [app]. rewrite <- ?app_assoc. reflexivity. }
  rewrite E.
  assert (C1 : chain (g_a g) ((g_fill g :: g_O g) ++ [(g_n g, g_p g)]) (g_p g)).
  { eapply chain_app; [constructor; [exact Ha | exact HO]|]. constructor; [exact Hn | constructor]. }
  destruct (tiles_seg _ _ _ prev (g_D g ++ [(g_p g, g_q g)] ++ rest) C1 Hprev) as [T1 _].
  unfold SR.spanT in *. rewrite T1. rewrite last_last. unfold g_D. rewrite tiles_dup_span by exact Hn.
  assert (C3 : chain (g_p g) [(g_p g, g_q g)] (g_q g)) by (constructor; [exact Hp | constructor]).
  destruct (tiles_seg _ _ _ (g_n g, g_p g) rest C3 ltac:(cbn [snd]; lia)) as [T3 _].
  unfold SR.spanT in *. rewrite T3. reflexivity.
Qed.

Lemma tiles_tiling : forall gs, geos_ok gs -> forall rest,
  SR.tiles 0 (0, 0) (tiling gs ++ rest) = SR.tiles (g_below gs) (g_last gs) rest.
Proof.
  induction gs as [|g gs IH]; intros H rest; [reflexivity|]. destruct H as [Hg [Ea Hgs]].
  cbn [tiling g_below g_last]. rewrite <- app_assoc. rewrite (IH Hgs).
  apply tiles_block; [exact Hg | symmetry; exact Ea|]. destruct gs as [|g' gs]; cbn [g_last g_below snd]; lia.
Qed.

(* the reader's list (fillers oldest first, then sections and objects newest first) is a permutation *)
Lemma block_perm g : Permutation (g_fill g :: g_secs g ++ g_objs g) (block g).
Proof.
  unfold block, g_secs, g_objs. cbn [app]. apply perm_skip.
  apply (Permutation_cons_app (g_O g) (g_D g ++ [(g_p g, g_q g)])).
  rewrite app_assoc. apply Permutation_cons_append.
Qed.

Lemma perm_tiling : forall gs,
  Permutation (map g_fill (rev gs) ++ flat_map g_secs gs ++ flat_map g_objs gs) (tiling gs).
Proof.
  induction gs as [|g gs IH]; [constructor|]. cbn [rev flat_map tiling]. rewrite map_app. cbn [map].
  set (A := map g_fill (rev gs)) in *. set (B := flat_map g_secs gs) in *. set (C := flat_map g_objs gs) in *.
  apply (perm_trans (l' := (A ++ B ++ C) ++ (g_fill g :: g_secs g ++ g_objs g))); [|apply Permutation_app; [exact IH | apply block_perm]].
  assert (E1 : (A ++ [g_fill g]) ++ (g_secs g ++ B) ++ g_objs g ++ C = concat [A; [g_fill g]; g_secs g; B; g_objs g; C]).
  { cbn [concat]. rewrite <- !app_assoc, app_nil_r. reflexivity. }
  assert (E2 : (A ++ B ++ C) ++ g_fill g :: g_secs g ++ g_objs g = concat [A; B; C; [g_fill g]; g_secs g; g_objs g]).
  { cbn [concat]. rewrite <- !app_assoc, app_nil_r. reflexivity. }
  rewrite E1, E2. apply Permutation_concat. apply perm_skip.
  apply (Permutation_cons_app [B; C] [g_secs g; g_objs g]). cbn [app].
  apply (Permutation_cons_app [B; C] [g_objs g]). cbn [app].
  apply perm_skip. apply perm_swap.
Qed.

(* no object of any revision starts at the offset of a cross-reference section; a cross-reference
   stream does *)
Definition xoff (gs : list geo) (off : N) : bool := existsb (fun g => is_stream (g_x g) && (g_n g =? off)) gs.

Lemma geos_below : forall gs, geos_ok gs -> Forall (fun g => g_q g <= g_below gs) gs.
Proof.
  induction gs as [|g gs IH]; intro H; [constructor|]. destruct H as [Hg [Ea Hgs]].
  pose proof (geos_ok_le (g :: gs) (conj Hg (conj Ea Hgs))) as Hlt. cbn beta iota in Hlt.
  constructor; [cbn [g_below]; lia|]. eapply Forall_impl; [|apply IH; exact Hgs]. intros a Ha. cbn [g_below] in *. cbn beta in Ha. lia.
Qed.

Lemma geos_separate : forall gs, geos_ok gs -> forall g g', In g gs -> In g' gs -> g_n g' < g_pos g \/ g_n g <= g_n g'.
Proof.
  induction gs as [|g0 gs IH]; intros H g g' Hi Hi'; [contradiction|]. pose proof H as [Hg [Ea Hgs]].
  pose proof (geos_below gs Hgs) as Hb. rewrite Forall_forall in Hb.
  assert (K : forall h, In h gs -> geo_ok h).
  { clear - Hgs. induction gs as [|a gs IH]; intros h Hh; [contradiction|]. destruct Hgs as [Ha [_ Hr]].
    destruct Hh as [->|Hh]; [exact Ha | apply IH; assumption]. }
  destruct Hg as [Ha0 HO0 Hn0 Hp0]. pose proof (chain_le _ _ _ HO0) as Hle0.
  destruct Hi as [<-|Hi], Hi' as [<-|Hi'].
  - right. lia.
  - left. specialize (Hb _ Hi'). destruct (K _ Hi') as [_ _ Hn' Hp']. lia.
  - right. specialize (Hb _ Hi). destruct (K _ Hi) as [_ _ Hn' Hp']. lia.
  - apply (IH Hgs); assumption.
Qed.

Lemma xoff_objects gs g off : geos_ok gs -> In g gs -> g_pos g <= off < g_n g -> xoff gs off = false.
Proof.
  intros H Hi Hoff. unfold xoff. apply not_true_is_false. intro E. apply existsb_exists in E as [g' [Hi' E]].
  apply andb_true_iff in E as [_ E]. apply N.eqb_eq in E. destruct (geos_separate gs H g g' Hi Hi'); lia.
Qed.

Lemma xoff_section gs g : In g gs -> is_stream (g_x g) = true -> xoff gs (g_n g) = true.
Proof. intros Hi Hs. unfold xoff. apply existsb_exists. exists g. split; [exact Hi|]. rewrite Hs, N.eqb_refl. reflexivity. Qed.

(* ====================================================================================== *)
(* Part 3: the layout of a history                                                         *)
(* ====================================================================================== *)
(* HBase x d: the file Document::save writes for d (max_id already raised) in format x.
   HUpd h x nd: the file h followed by what IncrementalDocument::save appends for the new document nd
   when the loader remembered format x: LF, "%PDF-" line, binary-mark line, the objects of nd, one
   cross-reference section, startxref marker.  The newest revision is the outermost constructor. *)
Inductive hist :=
| HBase (x : xref_type) (d : doc)
| HUpd (h : hist) (x : xref_type) (nd : doc).

(* one revision after the bytes [pre0] (previous file + header lines) *)
Definition seg_bytes (x : xref_type) (nd : doc) (pre0 : bytes) : bytes :=
  pre0 ++ objs_bytes (d_objects nd) ++ part_of x nd (blen pre0) ++ startxref_bytes (rev_start nd (blen pre0)).

Fixpoint h_bytes (h : hist) : bytes :=
  match h with
  | HBase x d => seg_bytes x d (header_bytes d ++ mark_bytes d)
  | HUpd h' x nd => seg_bytes x nd (h_bytes h' ++ inc_lines nd)
  end.

Definition h_x (h : hist) : xref_type := match h with HBase x _ => x | HUpd _ x _ => x end.
Definition h_doc (h : hist) : doc := match h with HBase _ d => d | HUpd _ _ nd => nd end.
Definition h_older (h : hist) : option hist := match h with HBase _ _ => None | HUpd h' _ _ => Some h' end.
Definition h_pre0 (h : hist) : bytes :=
  match h with HBase _ d => header_bytes d ++ mark_bytes d | HUpd h' _ nd => h_bytes h' ++ inc_lines nd end.
Fixpoint h_base (h : hist) : doc := match h with HBase _ d => d | HUpd h' _ _ => h_base h' end.
Fixpoint h_count (h : hist) : N := match h with HBase _ _ => 1 | HUpd h' _ _ => h_count h' + 1 end.

Definition h_len (h : hist) : N := blen (h_bytes h).
Definition h_prev_len (h : hist) : N := match h with HBase _ _ => 0 | HUpd h' _ _ => h_len h' end.
Definition h_pos (h : hist) : N := blen (h_pre0 h).                    (* first object of the newest revision *)
Definition h_start (h : hist) : N := rev_start (h_doc h) (h_pos h).    (* its cross-reference section = startxref *)

Lemma h_bytes_eq h : h_bytes h = seg_bytes (h_x h) (h_doc h) (h_pre0 h).
Proof. destruct h; reflexivity. Qed.

(* what the reader finds for the newest revision *)
Definition h_rev (h : hist) : SR.revision := rev_of (h_x h) (h_doc h) (h_pos h) (h_len h) [].
Definition h_loc (h : hist) : list SR.located := locs_of (h_x h) (h_doc h) (h_pos h) (h_len h) [].
Definition h_located (h : hist) : list SR.located := located_of (h_pos h) (d_objects (h_doc h)).
Definition h_geo (h : hist) : geo :=
  {| g_a := h_prev_len h; g_pos := h_pos h; g_n := h_start h;
     g_p := h_len h - SR.lenN (marker (h_start h)); g_q := h_len h;
     g_O := map span_of (h_located h); g_x := h_x h |}.

(* one item per revision, newest first *)
Fixpoint h_list {A} (f : hist -> A) (h : hist) : list A :=
  f h :: match h with HBase _ _ => [] | HUpd h' _ _ => h_list f h' end.

Definition h_revs : hist -> list SR.revision := h_list h_rev.
Definition h_locs : hist -> list (list SR.located) := h_list h_loc.
Definition h_geos : hist -> list geo := h_list h_geo.
(* every object number listed by any cross-reference section of the history *)
Definition h_keys (h : hist) : list N := flat_map (fun r => map fst (SR.r_entries r)) (h_revs h).

Lemma h_list_map {A B} (f : hist -> A) (g : A -> B) : forall h, map g (h_list f h) = h_list (fun h => g (f h)) h.
Proof. induction h as [x d|h IH x nd]; cbn [h_list map]; [reflexivity|]. rewrite IH. reflexivity. Qed.

Lemma h_list_ext {A} (f g : hist -> A) : (forall h, f h = g h) -> forall h, h_list f h = h_list g h.
Proof. intros E. induction h as [x d|h IH x nd]; cbn [h_list]; rewrite E; [reflexivity|]. rewrite IH. reflexivity. Qed.

Lemma h_list_length {A} (f : hist -> A) : forall h, N.of_nat (length (h_list f h)) = h_count h.
Proof. induction h as [x d|h IH x nd]; cbn [h_list length h_count]; [reflexivity|]. lia. Qed.

Lemma h_list_flat_map {A B} (f : hist -> A) (g : A -> list B) : forall h,
  flat_map g (h_list f h) = concat (h_list (fun h => g (f h)) h).
Proof. intro h. rewrite flat_map_concat_map, h_list_map. reflexivity. Qed.

(* ---------- the domain ---------- *)
Fixpoint h_dom (h : hist) : Prop :=
  match h with
  | HBase x d => strict_savable_core d
  | HUpd h' x nd =>
    h_dom h' /\
    rev_dom nd /\                                                  (* objects / trailer well formed, numbers <= max_id *)
    binary_mark_ok (d_binary_mark nd) = true /\                    (* printed as a comment line *)
    forallb SR.not_eol (d_version nd) = true /\                    (* printed as a comment line *)
    dict_get (d_trailer nd) K_Prev = Some (OInt (Z.of_N (h_start h'))) /\     (* Prev = the previous startxref *)
    Forall (fun k => k <= d_max_id nd) (h_keys h')                 (* max_id is not below any number listed before *)
  end.

Lemma h_dom_rev h : h_dom h -> rev_dom (h_doc h).
Proof. destruct h as [x d|h x nd]; cbn [h_dom h_doc]; [intros [Sv _ _]; apply savable_rev_dom; exact Sv | intros [_ [H _]]; exact H]. Qed.

(* ---------- lengths and positions ---------- *)
Lemma h_len_eq h :
  h_len h = h_start h + blen (part_of (h_x h) (h_doc h) (h_pos h)) + 1 + SR.lenN (marker (h_start h)).
Proof.
  unfold h_len. rewrite h_bytes_eq. unfold seg_bytes. rewrite !blen_app. fold (h_pos h). fold (h_start h).
  destruct (blen_startxref (h_start h)) as [E _]. rewrite E. unfold h_start, rev_start. lia.
Qed.

Lemma h_pos_eq h : h_prev_len h < h_pos h.
Proof.
  destruct h as [x d|h x nd]; unfold h_pos; cbn [h_prev_len h_pre0].
  - apply hm_len_pos.
  - rewrite blen_app. unfold h_len, inc_lines, blen. cbn [length]. lia.
Qed.

Lemma h_geo_ok h : geo_ok (h_geo h).
Proof.
  pose proof (h_len_eq h) as L. pose proof (part_nonempty (h_x h) (h_doc h) (h_pos h)) as Hp.
  destruct (blen_startxref (h_start h)) as [_ Hm].
  constructor; cbn [h_geo g_a g_pos g_n g_p g_q g_O].
  - apply h_pos_eq.
  - unfold h_located, h_start, rev_start. apply located_chain.
  - lia.
  - lia.
Qed.

Lemma h_geos_ok : forall h, geos_ok (h_geos h).
Proof.
  induction h as [x d|h IH x nd]; unfold h_geos in *; cbn [h_list geos_ok].
  - split; [apply h_geo_ok | split; [reflexivity | exact I]].
  - split; [apply h_geo_ok | split; [|exact IH]]. destruct h; reflexivity.
Qed.

Lemma h_rev_x h : SR.r_x (h_rev h) = h_start h.
Proof. apply rev_of_x. Qed.
Lemma h_rev_p h : SR.r_p (h_rev h) = h_len h - SR.lenN (marker (h_start h)).
Proof. unfold h_rev. rewrite rev_of_p, app_nil_r. reflexivity. Qed.
Lemma h_rev_q h : SR.r_q (h_rev h) = h_len h.
Proof. unfold h_rev. rewrite rev_of_q. change (SR.lenN []) with 0. apply N.sub_0_r. Qed.
Lemma h_rev_stream h : SR.r_stream (h_rev h) = is_stream (h_x h).
Proof. apply rev_of_stream. Qed.

(* the results of [rev_read_section] / [rev_read_entries] in absolute positions *)
Lemma rev_of_abs x nd pos0 len post q : len = q + SR.lenN post -> rev_of x nd pos0 len post = rev_of x nd pos0 q [].
Proof.
  intros ->. assert (E : forall m : bytes, q + SR.lenN post - SR.lenN (m ++ post) = q - SR.lenN (m ++ [])).
  { intro m. rewrite app_nil_r. unfold SR.lenN. rewrite app_length. lia. }
  destruct x; cbn [rev_of]; unfold tab_rev, str_rev; rewrite E; f_equal; change (SR.lenN []) with 0; lia.
Qed.

Lemma locs_of_abs x nd pos0 len post q : len = q + SR.lenN post -> locs_of x nd pos0 len post = locs_of x nd pos0 q [].
Proof.
  intros ->. assert (E : forall m : bytes, q + SR.lenN post - SR.lenN (m ++ post) = q - SR.lenN (m ++ [])).
  { intro m. rewrite app_nil_r. unfold SR.lenN. rewrite app_length. lia. }
  unfold locs_of. f_equal. destruct x; cbn [extra_loc]; [reflexivity|]. unfold str_loc. rewrite E. reflexivity.
Qed.

(* ---------- the file around one revision ---------- *)
Lemma h_file_older h x nd post :
  h_bytes (HUpd h x nd) ++ post = h_bytes h ++ (inc_tail x nd (blen (h_bytes h ++ inc_lines nd)) ++ post).
Proof. cbn [h_bytes]. unfold seg_bytes, inc_tail. rewrite <- !app_assoc. reflexivity. Qed.

Lemma h_file_here h post :
  h_bytes h ++ post =
  h_pre0 h ++ objs_bytes (d_objects (h_doc h)) ++ part_of (h_x h) (h_doc h) (h_pos h) ++ startxref_bytes (h_start h) ++ post.
Proof. rewrite h_bytes_eq. unfold seg_bytes. rewrite <- !app_assoc. reflexivity. Qed.

Lemma h_file_len h post file : file = h_bytes h ++ post -> SR.lenN file = h_len h + SR.lenN post.
Proof. intros ->. unfold SR.lenN, h_len, blen. rewrite app_length. lia. Qed.

(* the file begins with the header of the first revision *)
Lemma h_file_head : forall h, exists tail,
  h_bytes h = header_bytes (h_base h) ++ mark_bytes (h_base h) ++ tail /\ (forall r, solid (tail ++ r) = true) /\
  SR.lenN tail + hm_len (h_base h) = h_len h.
Proof.
  induction h as [x d|h [tail [E [Hs Hl]]] x nd].
  - eexists. cbn [h_bytes h_base]. unfold seg_bytes. rewrite <- !app_assoc. split; [reflexivity|]. split.
    + intro r. rewrite <- !app_assoc. apply objs_bytes_solid. apply part_solid.
    + unfold h_len, hm_len. cbn [h_bytes]. unfold seg_bytes, SR.lenN, blen. rewrite !app_length. lia.
  - exists (tail ++ inc_tail x nd (blen (h_bytes h ++ inc_lines nd))). cbn [h_base]. split; [|split].
    + pose proof (h_file_older h x nd []) as F. rewrite !app_nil_r in F. rewrite F, E. rewrite <- !app_assoc. reflexivity.
    + intro r. rewrite <- app_assoc. apply Hs.
    + pose proof (h_file_older h x nd []) as F. rewrite !app_nil_r in F. unfold h_len in *. rewrite F.
      unfold SR.lenN, blen in *. rewrite !app_length. lia.
Qed.

(* ---------- sections, entries, Prev chain, by induction over the history ---------- *)
Lemma h_sections_read : forall h post file,
  file = h_bytes h ++ post -> h_dom h -> SR.lenN file < u32_mod ->
  sections_read file (SR.lenN file) (h_revs h) /\
  Forall2 (fun r l => forall all, SR.read_entries file (SR.lenN file) all (SR.r_entries r) = SR.SOk l) (h_revs h) (h_locs h).
Proof.
  assert (Here : forall h post file, file = h_bytes h ++ post -> h_dom h -> SR.lenN file < u32_mod ->
            SR.read_section file (SR.lenN file) (SR.r_x (h_rev h)) = SR.SOk (h_rev h) /\
            forall all, SR.read_entries file (SR.lenN file) all (SR.r_entries (h_rev h)) = SR.SOk (h_loc h)).
  { intros h post file E Hd Hs. pose proof (h_dom_rev h Hd) as Hr. pose proof (h_file_len h post file E) as L.
    rewrite h_file_here in E. rewrite h_rev_x. unfold h_rev, h_loc.
    rewrite <- (rev_of_abs (h_x h) (h_doc h) (h_pos h) (SR.lenN file) post (h_len h) L).
    rewrite <- (locs_of_abs (h_x h) (h_doc h) (h_pos h) (SR.lenN file) post (h_len h) L).
    split.
    - apply (rev_read_section (h_x h) (h_doc h) (h_pos h) file (h_pre0 h) post Hr E eq_refl Hs).
    - intro all. apply (rev_read_entries (h_x h) (h_doc h) (h_pos h) file (h_pre0 h) post all Hr E eq_refl Hs). }
  induction h as [x d|h IH x nd]; intros post file E Hd Hs; unfold sections_read, h_revs, h_locs in *; cbn [h_list].
  - destruct (Here _ post file E Hd Hs) as [H1 H2]. split; constructor; try constructor; assumption.
  - destruct (Here _ post file E Hd Hs) as [H1 H2]. rewrite h_file_older in E.
    destruct Hd as [Hd' _]. destruct (IH _ file E Hd' Hs) as [I1 I2]. split; constructor; assumption.
Qed.

Lemma h_start_lt h : h_start h < h_len h.
Proof. pose proof (h_len_eq h). lia. Qed.

Lemma h_chain_ok : forall h, h_dom h -> chain_ok (h_revs h).
Proof.
  induction h as [x d|h IH x nd]; intro Hd; unfold h_revs in *; cbn [h_list].
  - cbn [chain_ok]. destruct Hd as [Sv _ _]. change SR.N_Prev with K_Prev. unfold h_rev.
    rewrite rev_trailer_get by (try discriminate; apply (sv_trailer d Sv)).
    cbn [h_doc]. rewrite (dict_has_false_get _ _ (sv_no_prev d Sv)). reflexivity.
  - destruct Hd as [Hd' [Hr [_ [_ [Hp _]]]]]. specialize (IH Hd').
    assert (E : h_list h_rev h = h_rev h :: match h with HBase _ _ => [] | HUpd h' _ _ => h_list h_rev h' end) by (destruct h; reflexivity).
    rewrite E in *.
    change (dict_get (SR.r_trailer (h_rev (HUpd h x nd))) SR.N_Prev = Some (OInt (Z.of_N (SR.r_x (h_rev h)))) /\
            SR.r_x (h_rev h) < SR.r_x (h_rev (HUpd h x nd)) /\
            chain_ok (h_rev h :: match h with HBase _ _ => [] | HUpd h' _ _ => h_list h_rev h' end)).
    split; [|split; [|exact IH]].
    + change SR.N_Prev with K_Prev. unfold h_rev at 1. rewrite rev_trailer_get by (try discriminate; apply (rd_trailer nd Hr)).
      cbn [h_doc]. rewrite Hp, h_rev_x. reflexivity.
    + rewrite !h_rev_x. pose proof (h_start_lt h) as H1. pose proof (h_pos_eq (HUpd h x nd)) as H2. cbn [h_prev_len] in H2.
      unfold h_start at 2, rev_start. lia.
Qed.

(* ---------- the entry checks ---------- *)
Lemma h_keys_cons h x nd : h_keys (HUpd h x nd) = map fst (SR.r_entries (h_rev (HUpd h x nd))) ++ h_keys h.
Proof. reflexivity. Qed.

Lemma h_entries_checked : forall h, h_dom h -> h_len h < u32_mod ->
  Forall (entries_checked (SR.r_size (h_rev h))) (h_revs h).
Proof.
  assert (Own : forall h, h_dom h -> h_len h < u32_mod ->
            Forall (fun ie : N * SR.xent => fst ie < SR.r_size (h_rev h)) (SR.r_entries (h_rev h)) /\ sincr 0 (SR.r_entries (h_rev h))).
  { intros h Hd Hs. pose proof (h_start_lt h) as Hlt.
    destruct (rev_entries_ok (h_x h) (h_doc h) (h_pos h) (h_len h) [] (h_dom_rev h Hd) ltac:(fold (h_start h); lia)) as [H1 [H2 _]].
    split; assumption. }
  assert (All : forall h sz, h_dom h -> h_len h < u32_mod -> Forall (fun k => k < sz) (h_keys h) -> Forall (entries_checked sz) (h_revs h)).
  { induction h as [x d|h IH x nd]; intros sz Hd Hs Hk; unfold h_revs in *; cbn [h_list].
    - destruct (Own _ Hd Hs) as [H1 H2]. constructor; [|constructor]. split; [exact H1|]. split; [|exact H2].
      unfold h_keys, h_revs in Hk. cbn [h_list flat_map] in Hk. rewrite app_nil_r in Hk. rewrite Forall_map in Hk. exact Hk.
    - destruct (Own _ Hd Hs) as [H1 H2]. rewrite h_keys_cons in Hk. apply Forall_app in Hk as [Hk1 Hk2].
      assert (Hs' : h_len h < u32_mod).
      { pose proof (h_pos_eq (HUpd h x nd)) as P. cbn [h_prev_len] in P. pose proof (h_len_eq (HUpd h x nd)) as L.
        unfold h_start, rev_start in L. lia. }
      constructor.
      + split; [exact H1|]. split; [|exact H2]. rewrite Forall_map in Hk1. exact Hk1.
      + destruct Hd as [Hd' _]. apply IH; assumption. }
  intros h Hd Hs. apply All; [exact Hd | exact Hs|].
  destruct h as [x d|h x nd].
  - destruct (Own _ Hd Hs) as [H1 _]. unfold h_keys, h_revs. cbn [h_list flat_map]. rewrite app_nil_r, Forall_map. exact H1.
  - destruct (Own _ Hd Hs) as [H1 _]. rewrite h_keys_cons. apply Forall_app. split; [rewrite Forall_map; exact H1|].
    destruct Hd as [_ [_ [_ [_ [_ Hk]]]]]. eapply Forall_impl; [|exact Hk]. intros k Hle. cbn beta in Hle.
    unfold h_rev. rewrite rev_size. cbn [h_doc]. lia.
Qed.

(* ---------- the fillers ---------- *)
Lemma h_fillers : forall h post file,
  file = h_bytes h ++ post -> h_dom h ->
  fillers file (SR.lenN file) (hm_len (h_base h)) (h_revs h) = map g_fill (rev (h_geos h)).
Proof.
  induction h as [x d|h IH x nd]; intros post file E Hd; unfold h_revs, h_geos in *.
  - reflexivity.
  - assert (E1 : h_list h_rev (HUpd h x nd) = h_rev (HUpd h x nd) :: h_rev h :: match h with HBase _ _ => [] | HUpd h' _ _ => h_list h_rev h' end)
      by (destruct h; reflexivity).
    assert (E2 : h_list h_rev h = h_rev h :: match h with HBase _ _ => [] | HUpd h' _ _ => h_list h_rev h' end) by (destruct h; reflexivity).
    rewrite E1, fillers_cons, <- E2. cbn [h_base]. pose proof E as E'. rewrite h_file_older in E'.
    destruct Hd as [Hd' [Hr [Hmk [Hv _]]]]. rewrite (IH _ file E' Hd').
    cbn [h_list rev]. rewrite map_app. cbn [map]. f_equal. f_equal. unfold fill_at, g_fill. cbn [h_geo g_a g_pos h_prev_len].
    rewrite h_rev_q. f_equal. pose proof (h_file_len _ _ _ E) as L.
    assert (Hat : SR.at_off file (h_len h) = inc_tail x nd (blen (h_bytes h ++ inc_lines nd)) ++ post)
      by (rewrite E'; apply at_off_app).
    rewrite Hat. unfold inc_tail. rewrite <- !app_assoc.
    rewrite (skip_inc_lines nd _ Hv Hmk). rewrite skip_ws_solid by (apply objs_bytes_solid; apply part_solid).
    rewrite L. unfold h_len. cbn [h_bytes]. unfold h_pos, seg_bytes. cbn [h_pre0].
    unfold SR.lenN, blen. rewrite !app_length. lia.
Qed.

(* ---------- the spans ---------- *)
Lemma h_rev_secs h : [(SR.r_x (h_rev h), SR.r_p (h_rev h)); (SR.r_p (h_rev h), SR.r_q (h_rev h))] = g_secs (h_geo h).
Proof. rewrite h_rev_x, h_rev_p, h_rev_q. reflexivity. Qed.

Lemma h_loc_spans h : map (fun l => (SR.l_off l, SR.l_end l)) (h_loc h) = g_objs (h_geo h).
Proof. unfold h_loc. rewrite locs_spans, app_nil_r. reflexivity. Qed.

Lemma h_spans h :
  flat_map (fun r => [(SR.r_x r, SR.r_p r); (SR.r_p r, SR.r_q r)]) (h_revs h) = flat_map g_secs (h_geos h) /\
  map (fun l => (SR.l_off l, SR.l_end l)) (concat (h_locs h)) = flat_map g_objs (h_geos h).
Proof.
  unfold h_revs, h_locs, h_geos. split.
  - rewrite !h_list_flat_map. f_equal. apply h_list_ext. apply h_rev_secs.
  - rewrite concat_map, h_list_map, h_list_flat_map. f_equal. apply h_list_ext. apply h_loc_spans.
Qed.

(* ---------- the objects ---------- *)
Lemma h_xoff h off : SR.is_xref_off (h_revs h) off = xoff (h_geos h) off.
Proof.
  unfold SR.is_xref_off, xoff, h_revs, h_geos. induction h as [x d|h IH x nd]; cbn [h_list existsb].
  - rewrite h_rev_stream, h_rev_x. reflexivity.
  - rewrite h_rev_stream, h_rev_x, IH. reflexivity.
Qed.

Lemma h_filter_locs (H : hist) : forall h, incl (h_geos h) (h_geos H) ->
  map (filter (fun l => negb (SR.is_xref_off (h_revs H) (SR.l_off l)))) (h_locs h) = h_list h_located h.
Proof.
  assert (One : forall h, In (h_geo h) (h_geos H) ->
            filter (fun l => negb (SR.is_xref_off (h_revs H) (SR.l_off l))) (h_loc h) = h_located h).
  { intros h Hi. unfold h_loc, h_located. apply (locs_filter (h_x h) (h_doc h) (h_pos h) (h_len h) [] (SR.is_xref_off (h_revs H))).
    - intros l Hl. rewrite h_xoff. apply (xoff_objects _ (h_geo h)); [apply h_geos_ok | exact Hi|]. cbn [h_geo g_pos g_n].
      pose proof (chain_bounds _ _ _ (located_chain (d_objects (h_doc h)) (h_pos h))) as Hb.
      rewrite Forall_map, Forall_forall in Hb. specialize (Hb l Hl). cbn [span_of fst] in Hb. exact Hb.
    - intro Hs. rewrite h_xoff. apply (xoff_section _ (h_geo h)); [exact Hi | exact Hs]. }
  induction h as [x d|h IH x nd]; intro Hi; unfold h_locs, h_geos in *; cbn [h_list map] in *.
  - rewrite One by (apply Hi; left; reflexivity). reflexivity.
  - rewrite One by (apply Hi; left; reflexivity). rewrite IH by (intros g Hg; apply Hi; right; exact Hg). reflexivity.
Qed.

(* what the strict reader recovers from a history *)
Definition h_merge_item (h : hist) : list N * objmap :=
  (map fst (SR.r_entries (h_rev h)), norm_objects (d_objects (h_doc h))).

Definition sdoc_hist (h : hist) : SR.sdoc :=
  {| SR.s_version := d_version (h_base h);
     SR.s_objects := omerge_list (h_list h_merge_item h) [] [];      (* the newest revision decides per object number *)
     SR.s_trailer := SR.r_trailer (h_rev h);
     SR.s_revisions := h_count h;
     SR.s_stream := is_stream (h_x h);
     SR.s_spans := tiling (h_geos h) ++ [(h_len h, h_len h)];
     SR.s_revs := h_revs h;
     SR.s_located := h_locs h;
     SR.s_startxref := h_start h |}.

Lemma h_base_dom : forall h, h_dom h -> strict_savable_core (h_base h).
Proof. induction h as [x d|h IH x nd]; cbn [h_dom h_base]; [trivial | intros [H _]; apply IH; exact H]. Qed.

Lemma h_merge_items : forall h, Forall (fun h' => h_dom h') [h] ->
  combine (map (fun r => map fst (SR.r_entries r)) (h_revs h)) (map (map loc_io) (h_list h_located h)) = h_list h_merge_item h.
Proof.
  intros h Hd. inversion Hd as [|? ? Hd' _]; subst. clear Hd. unfold h_revs.
  induction h as [x d|h IH x nd]; cbn [h_list map combine].
  - unfold h_merge_item, h_located. rewrite (located_io _ _ (rd_unskipped _ (h_dom_rev _ Hd'))). reflexivity.
  - unfold h_merge_item at 1, h_located at 1. rewrite (located_io _ _ (rd_unskipped _ (h_dom_rev _ Hd'))).
    destruct Hd' as [Hd'' _]. rewrite (IH Hd''). reflexivity.
Qed.

Theorem strict_load_hist h :
  h_dom h -> h_len h < u32_mod ->
  SR.strict_load (h_bytes h) = SR.SOk (sdoc_hist h).
Proof.
  intros Hd Hs. set (file := h_bytes h). set (len := SR.lenN file).
  assert (E : file = h_bytes h ++ []) by (rewrite app_nil_r; reflexivity).
  assert (Hlen : len = h_len h) by reflexivity.
  assert (Hsm : SR.lenN file < u32_mod) by (fold len; rewrite Hlen; exact Hs).
  destruct (h_sections_read h [] file E Hd Hsm) as [Hsec Hent]. fold len in Hsec, Hent.
  pose proof (h_chain_ok h Hd) as Hchain. pose proof (h_entries_checked h Hd Hs) as Hchk.
  pose proof (h_fillers h [] file E Hd) as Hfill. fold len in Hfill.
  destruct (h_file_head h) as [tail [Ehead [Hsolid' Ltail]]].
  pose proof (Hsolid' []) as Hsolid. rewrite app_nil_r in Hsolid.
  destruct (h_base_dom h Hd) as [Sv0 Hv0 Hm0].
  unfold SR.strict_load. fold len.
  (* header *)
  unfold file at 1. rewrite Ehead. rewrite (save_header_accepted (h_base h) tail Hv0 (sv_mark _ Sv0) Hm0). cbn [SR.sbind].
  rewrite (skip_ws_solid _ Hsolid).
  (* startxref *)
  assert (Etail : file = (h_pre0 h ++ objs_bytes (d_objects (h_doc h)) ++ part_of (h_x h) (h_doc h) (h_pos h)) ++ startxref_bytes (h_start h)).
  { unfold file. rewrite h_bytes_eq. unfold seg_bytes. rewrite <- !app_assoc. reflexivity. }
  rewrite Etail at 1. rewrite save_find_tail. cbn [SR.of_opt SR.sbind].
  (* the Prev chain *)
  assert (Erevs : h_revs h = h_rev h :: match h with HBase _ _ => [] | HUpd h' _ _ => h_revs h' end) by (destruct h; reflexivity).
  assert (Hfuel : (length (h_revs h) <= S (length file))%nat).
  { pose proof (h_list_length h_rev h) as Lc. fold (h_revs h) in Lc.
    assert (Hc : h_count h <= h_len h).
    { clear. induction h as [x d|h IH x nd]; cbn [h_count].
      - pose proof (h_start_lt (HBase x d)). lia.
      - pose proof (h_pos_eq (HUpd h x nd)) as P. cbn [h_prev_len] in P. pose proof (h_len_eq (HUpd h x nd)) as L.
        unfold h_start, rev_start in L. lia. }
    unfold len, SR.lenN in Hlen. lia. }
  rewrite <- (h_rev_x h). rewrite Erevs in Hchain, Hsec, Hfuel.
  rewrite (read_chain_n file len _ (h_rev h) _ Hchain Hsec Hfuel). rewrite <- Erevs. cbn [SR.sbind].
  rewrite Erevs at 1. cbv beta iota.
  (* nothing after the newest marker *)
  rewrite h_rev_q, <- Hlen. unfold len at 1. rewrite at_off_all. cbn [negb].
  (* entry checks, objects *)
  rewrite (check_revs_ok _ _ Hchk). cbn [SR.sbind].
  rewrite (read_all_ok file len (h_revs h) (h_revs h) (h_locs h)) by (eapply Forall2_imp; [|exact Hent]; intros r l Hr; apply Hr).
  cbn [SR.sbind].
  (* spans *)
  cbv zeta. replace (len - SR.lenN tail) with (hm_len (h_base h)) by lia.
  unfold fillers in Hfill. unfold SR.spanT in *. rewrite Hfill.
  destruct (h_spans h) as [Esec Eobj]. rewrite Esec, Eobj.
  assert (Hsort : SR.sort_spans (map g_fill (rev (h_geos h)) ++ flat_map g_secs (h_geos h) ++ flat_map g_objs (h_geos h) ++ [(len, len)]) =
                  tiling (h_geos h) ++ [(len, len)]).
  { apply sort_unique.
    - rewrite !app_assoc. apply Permutation_app_tail. rewrite <- app_assoc. apply perm_tiling.
    - pose proof (tiling_good _ (h_geos_ok h)) as G.
      assert (G7 : good len (len + 1) [(len, len)]).
      { split; [constructor; constructor | constructor; [cbn [fst]; lia | constructor]]. }
      assert (Eb : g_below (h_geos h) = len) by (destruct h; reflexivity).
      rewrite Eb in G. exact (proj1 (good_app _ _ _ _ _ _ G G7 ltac:(lia) ltac:(lia) ltac:(lia))). }
  unfold SR.spanT in *. rewrite Hsort.
  rewrite (tiles_tiling _ (h_geos_ok h)). rewrite tiles_empty. cbn [SR.tiles SR.sbind].
  replace (g_below (h_geos h)) with len by (destruct h; reflexivity). rewrite N.eqb_refl. cbn [negb].
  (* the objects *)
  rewrite (h_filter_locs h h (incl_refl _)).
  rewrite merge_objects_list by (unfold h_revs; rewrite <- (Nat2N.inj_iff), !h_list_length; reflexivity).
  rewrite (h_merge_items h (Forall_cons _ Hd (Forall_nil _))).
  unfold sdoc_hist. rewrite h_rev_stream, Hlen. f_equal. f_equal.
  - pose proof (h_list_length h_rev h) as Lc. exact Lc.
  - apply h_rev_x.
Qed.


(* ====================================================================================== *)
(* Part 4: per object number the NEWEST revision that lists it decides                     *)
(* ====================================================================================== *)
Lemma lookup_insert (m : objmap) id o k : lookup (insert m id o) k = if oid_eqb id k then Some o else lookup m k.
Proof.
  induction m as [|[i o'] m IH]; cbn [insert lookup]; [reflexivity|].
  destruct (oid_eqb i id) eqn:E1.
  - apply oid_eqb_eq in E1. subst i. cbn [lookup]. destruct (oid_eqb id k); reflexivity.
  - destruct (oid_ltb id i); cbn [lookup]; [reflexivity|]. rewrite IH.
    destruct (oid_eqb i k) eqn:E2; [|reflexivity]. apply oid_eqb_eq in E2. subst k.
    destruct (oid_eqb id i) eqn:E3; [|reflexivity]. apply oid_eqb_eq in E3. subst id.
    rewrite (proj2 (oid_eqb_eq i i) eq_refl) in E1. discriminate E1.
Qed.

Lemma lookup_absent (m : objmap) k : ~ In k (map fst m) -> lookup m k = None.
Proof.
  induction m as [|[i o] m IH]; intro H; [reflexivity|]. cbn [lookup]. destruct (oid_eqb i k) eqn:E.
  - apply oid_eqb_eq in E. subst. exfalso. apply H. left. reflexivity.
  - apply IH. intro Hin. apply H. right. exact Hin.
Qed.

Lemma lookup_fold_insert : forall (objs acc : objmap) k, NoDup (map fst objs) ->
  lookup (fold_left (fun m io => insert m (fst io) (snd io)) objs acc) k =
  match lookup objs k with Some o => Some o | None => lookup acc k end.
Proof.
  induction objs as [|[id o] r IH]; intros acc k Hn; [reflexivity|]. cbn [fold_left fst snd map] in *.
  inversion Hn as [|? ? Hni Hn']; subst. rewrite (IH _ k Hn'). rewrite lookup_insert. cbn [lookup].
  destruct (oid_eqb id k) eqn:E; [|reflexivity]. apply oid_eqb_eq in E. subst k. rewrite (lookup_absent r id Hni). reflexivity.
Qed.

Lemma lookup_filter_num (f : N -> bool) : forall (objs : objmap) n g,
  lookup (filter (fun io : oid * obj => f (fst (fst io))) objs) (n, g) = if f n then lookup objs (n, g) else None.
Proof.
  induction objs as [|[[i gi] o] r IH]; intros n g; cbn [filter lookup fst]; [destruct (f n); reflexivity|].
  destruct (oid_eqb (i, gi) (n, g)) eqn:E.
  - apply oid_eqb_eq in E. inversion E; subst. destruct (f n) eqn:Ei.
    + cbn [lookup]. rewrite (proj2 (oid_eqb_eq (n, g) (n, g)) eq_refl). reflexivity.
    + rewrite IH, Ei. reflexivity.
  - destruct (f i); [cbn [lookup]; rewrite E|]; apply IH.
Qed.

Lemma filter_nodup_keys (p : oid * obj -> bool) : forall objs : objmap, NoDup (map fst objs) -> NoDup (map fst (filter p objs)).
Proof.
  induction objs as [|io r IH]; intro H; [constructor|]. cbn [map] in H. inversion H as [|? ? Hni Hn']; subst. cbn [filter].
  destruct (p io); [|apply IH; exact Hn']. cbn [map]. constructor; [|apply IH; exact Hn'].
  intro Hin. apply Hni. apply in_map_iff in Hin as [x [Ex Hx]]. apply filter_In in Hx as [Hx _].
  apply in_map_iff. exists x. split; assumption.
Qed.

(* the objects of the newest revision whose cross-reference section lists the number *)
Fixpoint newest_listing (l : list (list N * objmap)) (n : N) : option objmap :=
  match l with
  | [] => None
  | (ids, objs) :: l' => if existsb (N.eqb n) ids then Some objs else newest_listing l' n
  end.

(* identifiers pairwise distinct; every object's number is listed by the section of its revision *)
Definition item_ok (it : list N * objmap) : Prop :=
  NoDup (map fst (snd it)) /\ Forall (fun io : oid * obj => In (fst (fst io)) (fst it)) (snd it).

Lemma existsb_eqb_in n l : existsb (N.eqb n) l = true <-> In n l.
Proof.
  rewrite existsb_exists. split; [intros [x [Hx E]]; apply N.eqb_eq in E; subst; exact Hx | intro H; exists n; split; [exact H | apply N.eqb_refl]].
Qed.

Theorem omerge_list_lookup : forall l seen acc n g, Forall item_ok l ->
  lookup (omerge_list l seen acc) (n, g) =
  if existsb (N.eqb n) seen then lookup acc (n, g)
  else match newest_listing l n with
       | Some objs => match lookup objs (n, g) with Some o => Some o | None => lookup acc (n, g) end
       | None => lookup acc (n, g)
       end.
Proof.
  induction l as [|[ids objs] l IH]; intros seen acc n g Hok.
  - cbn [omerge_list newest_listing]. destruct (existsb (N.eqb n) seen); reflexivity.
  - inversion Hok as [|? ? [Hnd Hin] Hok']; subst. cbn [fst snd] in Hnd, Hin.
    cbn [omerge_list newest_listing]. rewrite (IH _ _ n g Hok'). rewrite existsb_app.
    set (f := fun i : N => negb (existsb (N.eqb i) seen)).
    assert (Eacc : lookup (fold_left (fun m io => insert m (fst io) (snd io))
                              (filter (fun io : oid * obj => negb (existsb (N.eqb (fst (fst io))) seen)) objs) acc) (n, g) =
                   if existsb (N.eqb n) seen then lookup acc (n, g)
                   else match lookup objs (n, g) with Some o => Some o | None => lookup acc (n, g) end).
    { rewrite lookup_fold_insert by (apply filter_nodup_keys; exact Hnd).
      change (filter (fun io : oid * obj => negb (existsb (N.eqb (fst (fst io))) seen)) objs)
        with (filter (fun io : oid * obj => f (fst (fst io))) objs).
      rewrite (lookup_filter_num f objs n g). unfold f. destruct (existsb (N.eqb n) seen); reflexivity. }
    rewrite Eacc. destruct (existsb (N.eqb n) seen) eqn:Es; [rewrite orb_true_r; reflexivity|]. rewrite orb_false_r.
    destruct (existsb (N.eqb n) ids) eqn:Ei; [reflexivity|].
    assert (Hnone : lookup objs (n, g) = None).
    { apply lookup_absent. intro Hk. apply in_map_iff in Hk as [io [Eio Hio]]. rewrite Forall_forall in Hin.
      specialize (Hin io Hio). rewrite Eio in Hin. cbn [fst] in Hin. apply existsb_eqb_in in Hin. rewrite Hin in Ei. discriminate Ei. }
    rewrite Hnone. reflexivity.
Qed.

Lemma increasing_nodup : forall (objs : objmap) lo, increasing lo (obj_numbers objs) -> NoDup (map fst objs).
Proof.
  assert (B : forall (objs : objmap) lo, increasing lo (obj_numbers objs) -> Forall (fun io : oid * obj => lo < fst (fst io)) objs).
  { induction objs as [|io r IH]; intros lo H; [constructor|]. cbn [obj_numbers map increasing] in H. destruct H as [H1 H2].
    constructor; [exact H1|]. eapply Forall_impl; [|apply (IH _ H2)]. intros a Ha. cbn beta in *. lia. }
  induction objs as [|io r IH]; intros lo H; [constructor|]. cbn [obj_numbers map increasing] in H. destruct H as [H1 H2].
  cbn [map]. constructor; [|apply (IH _ H2)]. intro Hin. apply in_map_iff in Hin as [x [Ex Hx]].
  pose proof (B r _ H2) as Hb. rewrite Forall_forall in Hb. specialize (Hb x Hx). cbn beta in Hb. rewrite Ex in Hb. apply N.lt_irrefl in Hb. exact Hb.
Qed.

Lemma entries_of_keys : forall objs pos, unskipped objs -> map fst (entries_of pos objs) = obj_numbers objs.
Proof.
  induction objs as [|[[id g] o] r IH]; intros pos H; [reflexivity|]. inversion H as [|? ? Hs Hr]; subst. cbn [snd] in Hs.
  cbn [entries_of]. rewrite Hs. cbn [map fst obj_numbers]. f_equal. apply IH. exact Hr.
Qed.

Lemma h_items_ok : forall h, h_dom h -> Forall item_ok (h_list h_merge_item h).
Proof.
  assert (One : forall h, h_dom h -> item_ok (h_merge_item h)).
  { intros h Hd. pose proof (h_dom_rev h Hd) as Hr. unfold item_ok, h_merge_item. cbn [fst snd]. split.
    - unfold norm_objects. rewrite map_map. cbn [fst]. apply (increasing_nodup _ 0). exact (rd_numbers _ Hr).
    - unfold norm_objects. rewrite Forall_map. cbn [fst]. apply Forall_forall. intros io Hio.
      assert (Hk : In (fst (fst io)) (map fst (rev_xmap (h_doc h) (h_pos h)))).
      { unfold rev_xmap. rewrite (entries_of_keys _ _ (rd_unskipped _ Hr)). unfold obj_numbers. apply in_map_iff. exists io. split; [reflexivity | exact Hio]. }
      unfold h_rev. destruct (h_x h); cbn [rev_of SR.r_entries tab_rev str_rev]; unfold tab_entries, str_entries, str_map; cbn [map fst].
      + right. rewrite map_map. cbn [xuse_of fst]. exact Hk.
      + rewrite map_map. cbn [xuse_of fst]. rewrite map_app. apply in_or_app. left. exact Hk. }
  induction h as [x d|h IH x nd]; intro Hd; cbn [h_list].
  - constructor; [apply One; exact Hd | constructor].
  - constructor; [apply One; exact Hd|]. destruct Hd as [Hd' _]. apply IH. exact Hd'.
Qed.

(* what the strict reader recovers for an identifier: the object the newest listing revision has under it *)
Theorem sdoc_hist_lookup h n g :
  h_dom h ->
  lookup (SR.s_objects (sdoc_hist h)) (n, g) =
  match newest_listing (h_list h_merge_item h) n with
  | Some objs => lookup objs (n, g)
  | None => None
  end.
Proof.
  intro Hd. cbn [sdoc_hist SR.s_objects]. rewrite (omerge_list_lookup _ [] [] n g (h_items_ok h Hd)). cbn [existsb lookup].
  destruct (newest_listing (h_list h_merge_item h) n) as [objs|]; [|reflexivity]. destruct (lookup objs (n, g)); reflexivity.
Qed.

Print Assumptions strict_load_hist.
