(* XrefProofs.v -- rung 1 of C02: decode_xref_stream (Model/Xref.v) is the inverse of the specification
   encoder of cross-reference stream data (Spec/XrefSpec.v) for all field widths and Index partitions. *)
From LV Require Import Base.Bytes Base.Sx Model.Obj Model.Writer Model.Parser Model.Xref Spec.XrefSpec.
Local Open Scope N_scope.

(* ---------- big-endian fields ---------- *)
Definition be_plain (f : bytes) (acc : N) : N := fold_left (fun v b => v * 256 + N_of_byte b) f acc.

Lemma two32_pos : two32 <> 0. Proof. discriminate. Qed.

Lemma be_value_mod f : forall acc,
  fold_left (fun v b => (v * 256 + N_of_byte b) mod two32) f (acc mod two32) = be_plain f acc mod two32.
Proof.
  induction f as [|b f IH]; intro acc; cbn [fold_left be_plain].
  - reflexivity.
  - unfold be_plain in *. cbn [fold_left]. rewrite <- IH. f_equal.
    rewrite N.add_mod by apply two32_pos. rewrite N.mul_mod_idemp_l by apply two32_pos.
    rewrite <- N.add_mod by apply two32_pos. reflexivity.
Qed.

Lemma be_value_plain f : be_value f = be_plain f 0 mod two32.
Proof. unfold be_value. rewrite <- be_value_mod. reflexivity. Qed.

Lemma be_bytes_length w v : length (be_bytes w v) = w.
Proof. revert v; induction w; intro v; cbn [be_bytes length]; [reflexivity | rewrite IHw; reflexivity]. Qed.

Lemma be_plain_be_bytes w : forall v acc, v < 256 ^ N.of_nat w ->
  be_plain (be_bytes w v) acc = acc * 256 ^ N.of_nat w + v.
Proof.
  induction w as [|w IH]; intros v acc Hv.
  - cbn. change (256 ^ N.of_nat 0) with 1 in *. lia.
  - cbn [be_bytes]. unfold be_plain in *. cbn [fold_left].
    assert (Hp : 256 ^ N.of_nat (S w) = 256 * 256 ^ N.of_nat w).
    { rewrite Nat2N.inj_succ, N.pow_succ_r'. reflexivity. }
    assert (Hpos : 256 ^ N.of_nat w <> 0) by (apply N.pow_nonzero; discriminate).
    rewrite IH by (apply N.mod_lt; exact Hpos).
    rewrite N_of_byte_of_N.
    + rewrite Hp. pose proof (N.div_mod v (256 ^ N.of_nat w) Hpos). nia.
    + apply N.div_lt_upper_bound; [exact Hpos|]. rewrite Hp in Hv. lia.
Qed.

Lemma take_n_app (a r : bytes) : take_n (length a) (a ++ r) = Some (a, r).
Proof. induction a as [|x a IH]; cbn [length take_n app]; [reflexivity | rewrite IH; reflexivity]. Qed.

Lemma read_field_enc w v rest : v < 256 ^ N.of_nat w ->
  read_field (N.of_nat w) (be_bytes w v ++ rest) = Some (v mod two32, rest).
Proof.
  intro Hv. unfold read_field.
  rewrite app_length, be_bytes_length.
  replace (N.of_nat (w + length rest) <? N.of_nat w) with false by (symmetry; apply N.ltb_ge; lia).
  rewrite Nat2N.id. rewrite <- (be_bytes_length w v) at 1. rewrite take_n_app.
  rewrite be_value_plain, be_plain_be_bytes by exact Hv. rewrite N.mul_0_l, N.add_0_l. reflexivity.
Qed.

(* what an entry of the specification means for the loader's table *)
Definition spec_step (m : xmap) (ne : N * sentry) : xmap :=
  match snd ne with
  | SInUse o g => xinsert m (fst ne) (XNormal o g)
  | SComp c i => xinsert m (fst ne) (XCompressed c i)
  | SFree _ _ => m
  end.
Definition spec_map (l : list (N * sentry)) : xmap := fold_left spec_step l [].

(* the values the file format can carry and lopdf's entry types can hold *)
Definition entry_in_range (e : sentry) : Prop :=
  match e with
  | SFree n g => True
  | SInUse o g => o < two32 /\ g < 65536
  | SComp c i => c < two32 /\ i < 65536
  end.

Lemma read_field_0 s : read_field 0 s = Some (0, s).
Proof. unfold read_field. cbn. replace (N.of_nat (length s) <? 0) with false by (symmetry; apply N.ltb_ge; lia). reflexivity. Qed.

Lemma read_field_enc' w v rest : fits w v ->
  read_field (N.of_nat w) (be_bytes w v ++ rest) = Some (v mod two32, rest).
Proof. apply read_field_enc. Qed.

Lemma read_type w0 t tl : match w0 with O => t = 1 | _ => fits w0 t end -> t < two32 ->
  (if N.of_nat w0 =? 0 then Some (1, be_bytes w0 t ++ tl) else read_field (N.of_nat w0) (be_bytes w0 t ++ tl)) = Some (t, tl).
Proof.
  intros H0 Ht. destruct w0 as [|w0].
  - cbn. subst t. reflexivity.
  - replace (N.of_nat (S w0) =? 0) with false by (symmetry; apply N.eqb_neq; lia).
    rewrite read_field_enc' by exact H0. rewrite N.mod_small by exact Ht. reflexivity.
Qed.

Lemma read_opt w2 b tl : match w2 with O => b = 0 | _ => fits w2 b end -> b < two32 ->
  (if N.of_nat w2 =? 0 then Some (0, be_bytes w2 b ++ tl) else read_field (N.of_nat w2) (be_bytes w2 b ++ tl)) = Some (b, tl).
Proof.
  intros H0 Ht. destruct w2 as [|w2].
  - cbn. subst b. reflexivity.
  - replace (N.of_nat (S w2) =? 0) with false by (symmetry; apply N.eqb_neq; lia).
    rewrite read_field_enc' by exact H0. rewrite N.mod_small by exact Ht. reflexivity.
Qed.

Lemma read_plain w2 b tl : match w2 with O => b = 0 | _ => fits w2 b end ->
  read_field (N.of_nat w2) (be_bytes w2 b ++ tl) = Some (b mod two32, tl).
Proof.
  intros H0. destruct w2 as [|w2].
  - subst b. cbn [be_bytes app]. change (N.of_nat 0) with 0. rewrite read_field_0. reflexivity.
  - apply read_field_enc'. exact H0.
Qed.

Lemma xs_row_enc w0 w1 w2 e start j rest m :
  entry_ok w0 w1 w2 e -> entry_in_range e ->
  xs_row (N.of_nat w0) (N.of_nat w1) (N.of_nat w2) start j (enc_entry w0 w1 w2 e ++ rest) m =
  XOk (spec_step m (xs_key start j, e), rest).
Proof.
  intros Hok Hr.
  destruct e as [n g|o g|c i]; unfold enc_entry, entry_ok in *; cbn [entry_fields] in *;
    destruct Hok as [H0 [H1 H2]]; rewrite <- !app_assoc; unfold xs_row;
    rewrite read_type by (try exact H0; unfold two32; lia).
  - change (0 =? 0) with true. cbv iota.
    rewrite read_field_enc' by exact H1. rewrite read_plain by exact H2. reflexivity.
  - change (1 =? 0) with false. change (1 =? 1) with true. cbv iota.
    destruct Hr as [Ho Hg].
    rewrite read_field_enc' by exact H1.
    rewrite read_opt by (try exact H2; unfold two32; lia).
    rewrite (N.mod_small o) by exact Ho. rewrite (N.mod_small g) by exact Hg. reflexivity.
  - change (2 =? 0) with false. change (2 =? 1) with false. change (2 =? 2) with true. cbv iota.
    destruct Hr as [Hc Hi].
    rewrite read_field_enc' by exact H1. rewrite read_plain by exact H2.
    rewrite (N.mod_small c) by exact Hc. rewrite (N.mod_small i two32) by (unfold two32; lia).
    rewrite (N.mod_small i) by exact Hi. reflexivity.
Qed.

Fixpoint keyed (start j : Z) (es : list sentry) : list (N * sentry) :=
  match es with
  | [] => []
  | e :: es' => (xs_key start j, e) :: keyed start (j + 1)%Z es'
  end.

Lemma xs_rows_enc w0 w1 w2 : forall es start j rest m,
  Forall (entry_ok w0 w1 w2) es -> Forall entry_in_range es ->
  xs_rows (length es) (N.of_nat w0) (N.of_nat w1) (N.of_nat w2) start j
          (flat_map (enc_entry w0 w1 w2) es ++ rest) m =
  XOk (fold_left spec_step (keyed start j es) m, rest).
Proof.
  induction es as [|e es IH]; intros start j rest m Hok Hr.
  - reflexivity.
  - inversion Hok; subst. inversion Hr; subst.
    cbn [length xs_rows flat_map keyed fold_left]. rewrite <- app_assoc.
    rewrite xs_row_enc by assumption. apply IH; assumption.
Qed.

Lemma keyed_number_from : forall es first j,
  first + j + N.of_nat (length es) <= two32 ->
  keyed (Z.of_N first) (Z.of_N j) es = number_from (first + j) es.
Proof.
  induction es as [|e es IH]; intros first j H; [reflexivity|].
  cbn [keyed number_from length] in *. f_equal.
  - f_equal. unfold xs_key, i64_as_u32. rewrite <- N2Z.inj_add.
    change 4294967296%Z with (Z.of_N two32). rewrite <- N2Z.inj_mod. rewrite N2Z.id.
    apply N.mod_small. lia.
  - replace (Z.of_N j + 1)%Z with (Z.of_N (j + 1)) by lia.
    rewrite IH by lia. f_equal. lia.
Qed.

Lemma enc_entry_length w0 w1 w2 e : length (enc_entry w0 w1 w2 e) = (w0 + w1 + w2)%nat.
Proof.
  unfold enc_entry. destruct (entry_fields e) as [[t a] b]. rewrite !app_length, !be_bytes_length. lia.
Qed.

Lemma enc_rows_length w0 w1 w2 es :
  length (flat_map (enc_entry w0 w1 w2) es) = (length es * (w0 + w1 + w2))%nat.
Proof.
  induction es as [|e es IH]; [reflexivity|]. cbn [flat_map length]. rewrite app_length, enc_entry_length, IH. lia.
Qed.

Lemma xs_iterations_enc w0 w1 w2 es rest : (1 <= w0 + w1 + w2)%nat ->
  xs_iterations (Z.of_nat (length es)) (flat_map (enc_entry w0 w1 w2) es ++ rest) = length es.
Proof.
  intro Hw. unfold xs_iterations. rewrite app_length, enc_rows_length.
  rewrite Z.min_l by nia. apply Nat2Z.id.
Qed.

Definition sec_index (secs : xsections) : list Z :=
  flat_map (fun se => [Z.of_N (fst se); Z.of_nat (length (snd se))]) secs.

Definition sec_ok (w0 w1 w2 : nat) (se : N * list sentry) : Prop :=
  Forall (entry_ok w0 w1 w2) (snd se) /\ Forall entry_in_range (snd se) /\
  fst se + N.of_nat (length (snd se)) <= two32.

Lemma xs_sections_enc w0 w1 w2 : (1 <= w0 + w1 + w2)%nat -> forall secs rest m,
  Forall (sec_ok w0 w1 w2) secs ->
  xs_sections (sec_index secs) (N.of_nat w0) (N.of_nat w1) (N.of_nat w2) (enc_sections w0 w1 w2 secs ++ rest) m =
  XOk (fold_left spec_step (numbered secs) m, rest).
Proof.
  intros Hw. induction secs as [|[first es] secs IH]; intros rest m Hok.
  - reflexivity.
  - inversion Hok as [|x l [H1 [H2 H3]] Hrest]; subst. cbn [fst snd] in *.
    unfold sec_index, enc_sections, numbered. cbn [flat_map fst snd app xs_sections].
    rewrite <- app_assoc. rewrite xs_iterations_enc by exact Hw.
    rewrite xs_rows_enc by assumption.
    change 0%Z with (Z.of_N 0). rewrite keyed_number_from by lia. rewrite N.add_0_r.
    rewrite fold_left_app. apply IH. exact Hrest.
Qed.

Lemma ints_of_index secs : ints_of (flat_map (fun se => [OInt (Z.of_N (fst se)); OInt (Z.of_nat (length (snd se)))]) secs)
  = Some (sec_index secs).
Proof.
  induction secs as [|se secs IH]; [reflexivity|].
  unfold sec_index in *. cbn [flat_map app ints_of]. rewrite IH. reflexivity.
Qed.

Lemma widths_ok (w0 w1 w2 : nat) : (1 <= w0 + w1 + w2)%nat ->
  ((Z.of_nat w0 <? 0)%Z || (Z.of_nat w1 <? 0)%Z || (Z.of_nat w2 <? 0)%Z = false) /\
  ((Z.of_nat w0 =? 0)%Z && (Z.of_nat w1 =? 0)%Z && (Z.of_nat w2 =? 0)%Z = false).
Proof.
  intro H. split.
  - rewrite !orb_false_iff. repeat split; apply Z.ltb_ge; lia.
  - destruct (Z.eqb_spec (Z.of_nat w0) 0), (Z.eqb_spec (Z.of_nat w1) 0), (Z.eqb_spec (Z.of_nat w2) 0); try reflexivity. lia.
Qed.

Theorem xref_stream_any_W_Index :
  forall (w0 w1 w2 : nat) (secs : xsections) (d : dict) (size : Z),
    (1 <= w0 + w1 + w2)%nat ->
    Forall (sec_ok w0 w1 w2) secs ->
    dict_get d K_Size = Some (OInt size) ->
    dict_get d K_W = Some (OArr [OInt (Z.of_nat w0); OInt (Z.of_nat w1); OInt (Z.of_nat w2)]) ->
    dict_get d K_Index = Some (index_array secs) ->
    decode_xref_plain d (enc_sections w0 w1 w2 secs) =
    XOk ({| x_type := XTStream; x_entries := spec_map (numbered secs); x_size := i64_as_u32 size |},
         dict_swap_remove (dict_swap_remove (dict_swap_remove d K_Length) K_W) K_Index).
Proof.
  intros w0 w1 w2 secs d size Hw Hok HS HW HI.
  unfold decode_xref_plain. rewrite HS, HI, HW.
  unfold index_array, parse_integer_array. rewrite ints_of_index.
  cbn [ints_of option_map].
  destruct (widths_ok w0 w1 w2 Hw) as [E1 E2]. rewrite E1, E2.
  rewrite <- (app_nil_r (enc_sections w0 w1 w2 secs)).
  replace (Z.to_N (Z.of_nat w0)) with (N.of_nat w0) by lia.
  replace (Z.to_N (Z.of_nat w1)) with (N.of_nat w1) by lia.
  replace (Z.to_N (Z.of_nat w2)) with (N.of_nat w2) by lia.
  rewrite xs_sections_enc by assumption. reflexivity.
Qed.

(* ---------- default Index ---------- *)
Theorem xref_stream_default_Index :
  forall (w0 w1 w2 : nat) (es : list sentry) (d : dict),
    (1 <= w0 + w1 + w2)%nat ->
    sec_ok w0 w1 w2 (0, es) ->
    dict_get d K_Size = Some (OInt (Z.of_nat (length es))) ->
    dict_get d K_W = Some (OArr [OInt (Z.of_nat w0); OInt (Z.of_nat w1); OInt (Z.of_nat w2)]) ->
    dict_get d K_Index = None ->
    decode_xref_plain d (enc_sections w0 w1 w2 [(0, es)]) =
    XOk ({| x_type := XTStream; x_entries := spec_map (numbered [(0, es)]);
            x_size := i64_as_u32 (Z.of_nat (length es)) |},
         dict_swap_remove (dict_swap_remove (dict_swap_remove d K_Length) K_W) K_Index).
Proof.
  intros w0 w1 w2 es d Hw Hok HS HW HI.
  unfold decode_xref_plain. rewrite HS, HI, HW.
  unfold parse_integer_array. cbn [ints_of option_map].
  destruct (widths_ok w0 w1 w2 Hw) as [E1 E2]. rewrite E1, E2.
  rewrite <- (app_nil_r (enc_sections w0 w1 w2 [(0, es)])).
  replace (Z.to_N (Z.of_nat w0)) with (N.of_nat w0) by lia.
  replace (Z.to_N (Z.of_nat w1)) with (N.of_nat w1) by lia.
  replace (Z.to_N (Z.of_nat w2)) with (N.of_nat w2) by lia.
  change [0%Z; Z.of_nat (length es)] with (sec_index [(0, es)]).
  rewrite xs_sections_enc; [reflexivity | exact Hw | constructor; [exact Hok | constructor]].
Qed.

(* ---------- what the resulting table answers ---------- *)
Lemma xget_xinsert m k e k' : xget (xinsert m k e) k' = if k =? k' then Some e else xget m k'.
Proof.
  induction m as [|[k0 e0] m IH]; cbn [xinsert xget].
  - destruct (k =? k'); reflexivity.
  - destruct (k0 =? k) eqn:E0.
    + apply N.eqb_eq in E0. subst k0. cbn [xget]. destruct (k =? k'); reflexivity.
    + destruct (k <? k0) eqn:El.
      * cbn [xget]. destruct (k =? k'); reflexivity.
      * cbn [xget]. rewrite IH. destruct (k0 =? k') eqn:E1; [|reflexivity].
        apply N.eqb_eq in E1. subst k'. rewrite N.eqb_sym, E0. reflexivity.
Qed.

Definition entry_meaning (e : sentry) : option xentry :=
  match e with
  | SInUse o g => Some (XNormal o g)
  | SComp c i => Some (XCompressed c i)
  | SFree _ _ => None
  end.

(* the last statement about a number decides; a free entry leaves the number absent *)
Lemma xget_spec_step m ne k :
  xget (spec_step m ne) k =
  match entry_meaning (snd ne) with
  | Some x => if fst ne =? k then Some x else xget m k
  | None => xget m k
  end.
Proof. unfold spec_step. destruct ne as [n [a b|a b|a b]]; cbn [snd fst entry_meaning]; try apply xget_xinsert; reflexivity. Qed.

Lemma xget_spec_map_absent : forall l m k, ~ In k (map fst l) -> xget (fold_left spec_step l m) k = xget m k.
Proof.
  induction l as [|ne l IH]; intros m k H; [reflexivity|]. cbn [fold_left map In] in *.
  rewrite IH by tauto. rewrite xget_spec_step. destruct (entry_meaning (snd ne)); [|reflexivity].
  destruct (fst ne =? k) eqn:E; [|reflexivity]. apply N.eqb_eq in E. tauto.
Qed.

Lemma xget_fold_spec : forall l m n e,
  NoDup (map fst l) -> In (n, e) l ->
  xget (fold_left spec_step l m) n = match entry_meaning e with Some x => Some x | None => xget m n end.
Proof.
  induction l as [|ne l IH]; intros m n e Hnd Hin; [contradiction|].
  cbn [map] in Hnd. inversion Hnd; subst. cbn [fold_left]. destruct Hin as [->|Hin].
  - cbn [fst] in *. rewrite xget_spec_map_absent by assumption. rewrite xget_spec_step. cbn [fst snd].
    rewrite N.eqb_refl. destruct (entry_meaning e); reflexivity.
  - rewrite (IH _ n e) by assumption. destruct (entry_meaning e); [reflexivity|].
    rewrite xget_spec_step. destruct (entry_meaning (snd ne)); [|reflexivity].
    destruct (fst ne =? n) eqn:E; [|reflexivity]. apply N.eqb_eq in E.
    exfalso. apply H1. rewrite E. change n with (fst (n, e)). apply in_map. exact Hin.
Qed.

(* with pairwise distinct object numbers the table answers exactly what the sections say *)
Theorem xget_spec_map : forall l n e,
  NoDup (map fst l) -> In (n, e) l -> xget (spec_map l) n = entry_meaning e.
Proof.
  intros l n e Hnd Hin. unfold spec_map. rewrite (xget_fold_spec l [] n e Hnd Hin).
  destruct (entry_meaning e); reflexivity.
Qed.

Theorem xget_spec_map_none : forall l n, ~ In n (map fst l) -> xget (spec_map l) n = None.
Proof. intros l n H. unfold spec_map. rewrite xget_spec_map_absent by exact H. reflexivity. Qed.
