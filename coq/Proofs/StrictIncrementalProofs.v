(* StrictIncrementalProofs.v -- C03, part 8: the incremental save (c07's Model/Incremental.v:
   inc_save) read by the strict reader.  The previous file is a plain save of a document of the
   domain; the update appends LF, a second "%PDF-" line and binary-mark line (comment lines for a
   reader of ISO 32000-1 7.5.6), the new objects, ONE cross-reference section whose trailer has
   Prev = the previous startxref, and a second startxref marker.  The strict reader follows Prev,
   reads both sections and both sets of objects, tiles the whole file and lets the newest revision
   decide per object number. *)
From LV Require Import Base.Bytes Base.Sx Model.Obj Model.Writer Model.Save Model.Incremental Gen.Lex Gen.SaveFmt Gen.Inc
  Proofs.LexProofs Proofs.RealProofs Proofs.ObjectRtProofs Proofs.SaveProofs Spec.SaveSpec
  Proofs.FilterProofsDict Proofs.LoadProofs Proofs.LoadProofsXref Proofs.LoadProofsTable
  Proofs.StrictReaderProofs Proofs.SaveStrictProofs Proofs.StrictObjectProofs Proofs.StrictFileProofs
  Proofs.StrictTilingProofs Proofs.StrictLoadProofs Proofs.StrictLoadStreamProofs Proofs.StrictRevisionProofs.
From LV Require Spec.StrictReader Model.Parser.
From Coq Require Import ZifyBool ZifyN ZifyNat Permutation Sorted.

Local Open Scope N_scope.

(* ---------- the object loop, explicitly ---------- *)
Lemma write_objects_explicit objs pos :
  increasing 0 (obj_numbers objs) ->
  write_objects pos objs [] = (objs_bytes objs, pos + blen (objs_bytes objs), entries_of pos objs).
Proof.
  intro Hinc. pose proof (write_objects_bytes objs pos []) as H1. pose proof (write_objects_counter objs pos []) as H2.
  pose proof (write_objects_map objs pos [] 0 Hinc (Forall_nil _)) as H3.
  destruct (write_objects pos objs []) as [[b p] x]. cbn [fst snd app] in *. subst. reflexivity.
Qed.

(* ---------- the previous file as one revision ---------- *)
Lemma save_core_rev_shape x d :
  savable_core d -> small_file_core x d ->
  so_bytes (save_core x d) =
  (header_bytes d ++ mark_bytes d) ++ objs_bytes (d_objects d) ++ part_of x d (hm_len d) ++
  startxref_bytes (rev_start d (hm_len d)) /\
  rev_start d (hm_len d) = blen (body_of d).
Proof.
  intros Sv Hsm. unfold small_file_core in Hsm.
  assert (Hst : rev_start d (hm_len d) = blen (body_of d)).
  { unfold rev_start, hm_len. rewrite body_shape. symmetry. apply blen_app. }
  split; [|exact Hst]. rewrite Hst.
  assert (Hok : so_status (save_core x d) = SaveOk) by (destruct x; [apply save_table_ok | apply save_stream_ok]; exact Sv).
  destruct (save_core_shape x d Hok) as [mid [Hb Hmid]]. rewrite Hb. rewrite body_shape at 1. rewrite <- !app_assoc.
  do 3 f_equal. apply (f_equal (fun m => m ++ startxref_bytes (blen (body_of d)))). rewrite (xmap_shape d (sv_numbers d Sv)) in Hmid.
  destruct x; cbn [part_of].
  - exact Hmid.
  - cbv zeta in Hmid. rewrite Hmid. rewrite <- Hst.
    assert (Hn : rev_start d (hm_len d) < u32_mod).
    { rewrite Hst. rewrite Hb in Hsm. rewrite blen_app in Hsm. lia. }
    fold (rev_xmap d (hm_len d)). rewrite (xstream_parts_rev d (hm_len d) (savable_rev_dom d Sv) Hn). reflexivity.
Qed.

(* ---------- what inc_save appends ---------- *)
Definition inc_lines (nd : doc) : bytes := x0a :: header_bytes nd ++ mark_bytes nd.

Lemma header_offset_pdf r : header_offset (bs "%PDF-" ++ r) = O.
Proof. reflexivity. Qed.

Lemma separator_eof pre : separator (pre ++ bs "%%EOF") = [x0a].
Proof.
  unfold separator. change (bs "%%EOF") with ([x25; x25; x45; x4f] ++ [x46]). rewrite app_assoc.
  rewrite last_last. destruct ((pre ++ [x25; x25; x45; x4f]) ++ [x46]) eqn:E; [|reflexivity].
  apply app_eq_nil in E. destruct E; discriminate.
Qed.

Lemma startxref_ends n : exists pre, startxref_bytes n = pre ++ bs "%%EOF".
Proof.
  exists (x0a :: bs "startxref" ++ x0a :: N_dec n ++ [x0a]). unfold startxref_bytes.
  repeat (cbn [app]; rewrite <- app_assoc). cbn [app]. reflexivity.
Qed.

(* the domain of one update *)
Record inc_dom (x : xref_type) (d : doc) (s : incdoc) : Prop := {
  id_bytes : i_bytes s = so_bytes (save_core x d);             (* the previous file is the plain save *)
  id_type : xd_type (i_prev s) = x;                              (* the format the loader remembered *)
  id_rev : rev_dom (xd_doc (i_new s));                           (* new objects / trailer well formed, numbers <= max_id *)
  id_mark : binary_mark_ok (d_binary_mark (xd_doc (i_new s))) = true;
  id_version : forallb SR.not_eol (d_version (xd_doc (i_new s))) = true;
  id_prev : dict_get (d_trailer (xd_doc (i_new s))) K_Prev = Some (OInt (Z.of_N (blen (body_of d))));
  id_max : d_max_id d + (if is_stream x then 1 else 0) <= d_max_id (xd_doc (i_new s));
}.

Lemma inc_save_shape x d s :
  savable_core d -> small_file_core x d -> inc_dom x d s ->
  let nd := xd_doc (i_new s) in
  let prev := so_bytes (save_core x d) in
  let pos0 := blen (prev ++ inc_lines nd) in
  blen (io_bytes (inc_save s)) < u32_mod ->
  io_bytes (inc_save s) =
  (prev ++ inc_lines nd) ++ objs_bytes (d_objects nd) ++ part_of x nd pos0 ++ startxref_bytes (rev_start nd pos0).
Proof.
  intros Sv Hsm [Hb Ht Hr Hmk Hv Hp Hmx] nd prev pos0. fold nd in Hr, Hmk, Hv, Hp, Hmx.
  destruct (save_core_rev_shape x d Sv Hsm) as [Hshape _]. fold prev in Hshape.
  assert (Hoff : header_offset prev = O).
  { rewrite Hshape. unfold header_bytes. rewrite <- !app_assoc. apply header_offset_pdf. }
  assert (Hsep : separator prev = [x0a]).
  { rewrite Hshape. destruct (startxref_ends (rev_start d (hm_len d))) as [pre Hpre]. rewrite Hpre.
    rewrite !app_assoc. apply separator_eof. }
  pose proof (rd_max_id nd Hr) as Hmax.
  unfold inc_save. rewrite Hb. fold prev nd.
  replace (u32_top <=? d_max_id nd) with false by (symmetry; apply N.leb_gt; unfold u32_top, u32_mod in *; lia).
  rewrite Hmk. cbn [negb]. unfold inc_head. rewrite Hb. fold prev nd. rewrite Hsep.
  assert (Hstart : start_count prev + blen ([x0a] ++ header_bytes nd ++ mark_bytes nd) = pos0).
  { unfold start_count, pos0, inc_lines. rewrite Hoff. unfold blen. repeat (rewrite ?app_length; cbn [length app]). lia. }
  rewrite Hstart. rewrite (write_objects_explicit (d_objects nd) pos0 (rd_numbers nd Hr)).
  fold (rev_start nd pos0). fold (rev_xmap nd pos0). rewrite Ht.
  destruct x; cbn [part_of io_bytes].
  - intros _. unfold tab_part, inc_lines. repeat (rewrite <- app_assoc; cbn [app]). reflexivity.
  - replace (u32_top <=? d_max_id nd + 1) with false by (symmetry; apply N.leb_gt; unfold u32_top, u32_mod in *; lia).
    destruct (xstream_parts nd (rev_xmap nd pos0) (rev_start nd pos0 mod u32_mod)) as [[t c] x1] eqn:E.
    cbn [io_bytes]. intro Hlen.
    assert (Hn : rev_start nd pos0 < u32_mod).
    { unfold rev_start, pos0, inc_lines in *. unfold blen in *. repeat (rewrite ?app_length in Hlen; cbn [length app] in Hlen). repeat (rewrite ?app_length; cbn [length app]). lia. }
    rewrite (xstream_parts_rev nd pos0 Hr Hn) in E. inversion E; subst t c x1.
    unfold str_part, inc_lines. repeat (rewrite <- app_assoc; cbn [app]). reflexivity.
Qed.

(* ---------- comment lines are filler ---------- *)
Lemma skip_comment : forall a r, forallb SR.not_eol a = true -> SR.skip_ws (a ++ x0a :: r) true = SR.skip_ws r false.
Proof.
  induction a as [|c a IH]; intros r H; cbn [app SR.skip_ws]; [reflexivity|].
  cbn [forallb] in H. apply andb_true_iff in H as [Hc Ha]. unfold SR.not_eol in Hc. apply negb_true_iff in Hc.
  rewrite Hc. apply IH. exact Ha.
Qed.

Lemma skip_inc_lines nd rest :
  forallb SR.not_eol (d_version nd) = true -> binary_mark_ok (d_binary_mark nd) = true ->
  SR.skip_ws (inc_lines nd ++ rest) false = SR.skip_ws rest false.
Proof.
  intros Hv Hm. unfold inc_lines, header_bytes, mark_bytes. repeat (rewrite <- app_assoc; cbn [app]).
  change (bs "%PDF-") with [x25; x50; x44; x46; x2d]. cbn [app].
  cbn [SR.skip_ws SR.is_ws]. change (byte_eqb x25 x25) with true. cbv iota.
  change (x50 :: x44 :: x46 :: x2d :: d_version nd ++ x0a :: x25 :: d_binary_mark nd ++ x0a :: rest)
    with ((x50 :: x44 :: x46 :: x2d :: d_version nd) ++ x0a :: x25 :: d_binary_mark nd ++ x0a :: rest).
  rewrite skip_comment by (cbn [forallb]; rewrite Hv; reflexivity).
  cbn [SR.skip_ws SR.is_ws]. change (byte_eqb x25 x25) with true. cbv iota.
  apply skip_comment. apply (forallb_impl_sweep SR.is_high SR.not_eol high_not_eol_sweep). exact Hm.
Qed.

(* ---------- the Prev chain of two sections ---------- *)
Lemma read_chain_2 fuel file len x2 x1 r2 r1 :
  (2 <= fuel)%nat ->
  SR.read_section file len x2 = SR.SOk r2 -> dict_get (SR.r_trailer r2) SR.N_Prev = Some (OInt (Z.of_N x1)) -> x1 < x2 ->
  SR.read_section file len x1 = SR.SOk r1 -> dict_get (SR.r_trailer r1) SR.N_Prev = None ->
  SR.read_chain fuel file len x2 = SR.SOk [r2; r1].
Proof.
  intros Hf H2 Hp2 Hlt H1 Hp1. destruct fuel as [|[|f]]; try lia. cbn [SR.read_chain].
  rewrite H2. cbn [SR.sbind]. rewrite Hp2.
  replace ((0 <=? Z.of_N x1)%Z && (Z.of_N x1 <? Z.of_N x2)%Z) with true by (symmetry; apply andb_true_iff; split; lia).
  rewrite N2Z.id, H1. cbn [SR.sbind]. rewrite Hp1. reflexivity.
Qed.

(* any key that is not cross-reference bookkeeping is read from the document's trailer *)
Lemma rev_trailer_get x nd pos0 len post k :
  obj_wf (ODict (d_trailer nd)) ->
  k <> K_Type -> k <> K_Size -> k <> K_W -> k <> K_Index -> k <> K_Filter -> k <> K_Length ->
  dict_get (SR.r_trailer (rev_of x nd pos0 len post)) k = option_map norm_obj (dict_get (d_trailer nd) k).
Proof.
  intros Hw H1 H2 H3 H4 H5 H6. destruct (wf_dict_inv _ Hw) as [Hnd _].
  destruct x; cbn [rev_of SR.r_trailer tab_rev str_rev]; rewrite dict_get_norm; f_equal.
  - unfold trailer_table. apply dict_get_set_other. exact H2.
  - unfold str_dict. apply xs_trailer_other; assumption.
Qed.

(* ---------- sorted span lists from pieces ---------- *)
Definition seg_in (lo hi : N) (l : list SR.spanT) : Prop := Forall (fun ab => lo <= fst ab /\ fst ab < hi) l.
Definition good (lo hi : N) (l : list SR.spanT) : Prop := StronglySorted fleq l /\ seg_in lo hi l.

Lemma good_chain lo l hi : chain lo l hi -> good lo hi l.
Proof. intro H. split; [eapply chain_fleq; exact H | apply (chain_bounds _ _ _ H)]. Qed.

Lemma good_dup x a b : good a (a + 1) ((a, b) :: dup_span x (a, b)).
Proof.
  unfold dup_span. destruct (is_stream x); split.
  - constructor; [constructor; constructor | constructor; [right; reflexivity | constructor]].
  - repeat constructor; cbn [fst]; lia.
  - constructor; constructor.
  - repeat constructor; cbn [fst]; lia.
Qed.

Lemma good_app a b b' c l1 l2 :
  good a b l1 -> good b' c l2 -> a <= b -> b <= b' -> b' <= c -> good a c (l1 ++ l2).
Proof.
  intros [S1 B1] [S2 B2] H1 H2 H3. split.
  - apply sorted_app; [exact S1 | exact S2|]. intros u v Hu Hv. unfold seg_in in *. rewrite Forall_forall in B1, B2.
    specialize (B1 u Hu). specialize (B2 v Hv). left. lia.
  - unfold seg_in in *. apply Forall_app. split; (eapply Forall_impl; [|eassumption]); intros u Hu; cbn beta in *; lia.
Qed.

Lemma tiles_dup_span x cur a b l : a < b -> SR.tiles cur (a, b) (dup_span x (a, b) ++ l) = SR.tiles cur (a, b) l.
Proof. intro H. unfold dup_span. destruct (is_stream x); cbn [app]; [apply tiles_dup; exact H | reflexivity]. Qed.

Lemma Permutation_concat {A} (l l' : list (list A)) : Permutation l l' -> Permutation (concat l) (concat l').
Proof.
  induction 1 as [|a l l' H IH|a b l|l l' l'' H1 IH1 H2 IH2]; cbn [concat].
  - constructor.
  - apply Permutation_app_head. exact IH.
  - rewrite !app_assoc. apply Permutation_app_tail. apply Permutation_app_comm.
  - eapply perm_trans; eassumption.
Qed.

(* ---------- the newest revision decides per object number ---------- *)
Definition omerge (seen : list N) (newer older : objmap) : objmap :=
  fold_left (fun m io => insert m (fst io) (snd io))
            (filter (fun io : oid * obj => negb (existsb (N.eqb (fst (fst io))) seen)) older) newer.

Definition loc_io (l : SR.located) : oid * obj := ((SR.l_id l, SR.l_gen l), SR.l_obj l).

Lemma located_io : forall objs pos, unskipped objs -> map loc_io (located_of pos objs) = norm_objects objs.
Proof.
  induction objs as [|[[id g] o] rest IH]; intros pos H; [reflexivity|]. inversion H as [|? ? Hs Hr]; subst. cbn [snd] in Hs.
  cbn [located_of]. rewrite Hs. cbn [map loc_io SR.l_id SR.l_gen SR.l_obj norm_objects fst snd]. f_equal. apply IH. exact Hr.
Qed.

Lemma fold_located_io : forall (ls : list SR.located) seen acc,
  fold_left (fun m l => insert m (SR.l_id l, SR.l_gen l) (SR.l_obj l))
            (filter (fun l => negb (existsb (N.eqb (SR.l_id l)) seen)) ls) acc =
  fold_left (fun m io => insert m (fst io) (snd io))
            (filter (fun io : oid * obj => negb (existsb (N.eqb (fst (fst io))) seen)) (map loc_io ls)) acc.
Proof.
  induction ls as [|l ls IH]; intros seen acc; [reflexivity|]. cbn [filter map loc_io fst snd].
  destruct (negb (existsb (N.eqb (SR.l_id l)) seen)); cbn [fold_left fst snd]; apply IH.
Qed.

(* ---------- the expected result ---------- *)
Definition inc_tail (x : xref_type) (nd : doc) (pos0 : N) : bytes :=
  inc_lines nd ++ objs_bytes (d_objects nd) ++ part_of x nd pos0 ++ startxref_bytes (rev_start nd pos0).

Definition sdoc_inc (x : xref_type) (d : doc) (s : incdoc) : SR.sdoc :=
  let nd := xd_doc (i_new s) in
  let prev := so_bytes (save_core x d) in
  let len := SR.lenN (io_bytes (inc_save s)) in
  let pos0 := blen (prev ++ inc_lines nd) in
  let r2 := rev_of x nd pos0 len [] in
  let r1 := rev_of x d (hm_len d) len (inc_tail x nd pos0) in
  let n1 := rev_start d (hm_len d) in
  let n2 := rev_start nd pos0 in
  {| SR.s_version := d_version d;
     SR.s_objects := omerge (map fst (SR.r_entries r2)) (norm_objects (d_objects nd)) (norm_objects (d_objects d));
     SR.s_trailer := SR.r_trailer r2;
     SR.s_revisions := 2;
     SR.s_stream := is_stream x;
     SR.s_spans :=
       ((0, hm_len d) :: map span_of (located_of (hm_len d) (d_objects d))) ++
       ((n1, SR.r_p r1) :: dup_span x (n1, SR.r_p r1)) ++
       [(SR.r_p r1, blen prev); (blen prev, pos0)] ++
       map span_of (located_of pos0 (d_objects nd)) ++
       ((n2, SR.r_p r2) :: dup_span x (n2, SR.r_p r2)) ++
       [(SR.r_p r2, len)] ++ [(len, len)];
     SR.s_revs := [r2; r1];
     SR.s_located := [locs_of x nd pos0 len []; locs_of x d (hm_len d) len (inc_tail x nd pos0)];
     SR.s_startxref := n2 |}.

Lemma blen_startxref n : blen (startxref_bytes n) = 1 + SR.lenN (marker n) /\ 0 < SR.lenN (marker n).
Proof.
  split; [rewrite startxref_marker; unfold blen, SR.lenN; cbn [length]; lia|].
  unfold marker, SR.lenN. rewrite app_length. cbn [length bs]. lia.
Qed.

Theorem strict_load_inc x d s :
  strict_savable_core d -> small_file_core x d -> inc_dom x d s ->
  blen (io_bytes (inc_save s)) < u32_mod ->
  SR.strict_load (io_bytes (inc_save s)) = SR.SOk (sdoc_inc x d s).
Proof.
  intros [Sv Hv Hm4] Hsm Hdom Hlen2.
  pose proof (inc_save_shape x d s Sv Hsm Hdom Hlen2) as Eshape. cbv zeta in Eshape.
  destruct (save_core_rev_shape x d Sv Hsm) as [Eprev Hn1].
  destruct Hdom as [Hb Ht Hr Hmk Hvn Hp Hmx].
  pose proof (savable_rev_dom d Sv) as Hd1.
  unfold sdoc_inc, inc_tail.
  set (nd := xd_doc (i_new s)) in *. set (prev := so_bytes (save_core x d)) in *.
  set (file := io_bytes (inc_save s)) in *. set (len := SR.lenN file).
  set (pos0 := blen (prev ++ inc_lines nd)) in *.
  set (objs1 := d_objects d) in *. set (objs2 := d_objects nd) in *.
  set (e0 := hm_len d) in *. set (n1 := rev_start d e0) in *. set (n2 := rev_start nd pos0) in *.
  set (part1 := part_of x d e0) in *. set (part2 := part_of x nd pos0) in *.
  set (HM := header_bytes d ++ mark_bytes d) in *.
  set (post1 := inc_lines nd ++ objs_bytes objs2 ++ part2 ++ startxref_bytes n2).
  assert (Enew : file = (prev ++ inc_lines nd) ++ objs_bytes objs2 ++ part2 ++ startxref_bytes n2 ++ []).
  { rewrite app_nil_r. exact Eshape. }
  assert (Eold : file = HM ++ objs_bytes objs1 ++ part1 ++ startxref_bytes n1 ++ post1).
  { rewrite Eshape. rewrite Eprev. unfold post1. repeat rewrite <- app_assoc. reflexivity. }
  assert (Efile : file = prev ++ post1).
  { rewrite Eshape. unfold post1. repeat rewrite <- app_assoc. reflexivity. }
  assert (Hlen : SR.lenN file < u32_mod) by exact Hlen2.
  (* lengths *)
  destruct (blen_startxref n1) as [Hsx1 Hmk1]. destruct (blen_startxref n2) as [Hsx2 Hmk2].
  pose proof (part_nonempty x d e0) as Hpt1. fold part1 in Hpt1.
  pose proof (part_nonempty x nd pos0) as Hpt2. fold part2 in Hpt2.
  assert (Le0 : e0 = blen HM) by reflexivity.
  assert (Ln1 : n1 = e0 + blen (objs_bytes objs1)) by reflexivity.
  assert (Lprev : blen prev = n1 + blen part1 + blen (startxref_bytes n1)).
  { rewrite Eprev. rewrite !blen_app. fold e0. lia. }
  assert (Llines : 0 < blen (inc_lines nd)) by (unfold inc_lines, blen; cbn [length]; lia).
  assert (Lpos0 : pos0 = blen prev + blen (inc_lines nd)) by (unfold pos0; apply blen_app).
  assert (Ln2 : n2 = pos0 + blen (objs_bytes objs2)) by reflexivity.
  assert (Llen : len = n2 + blen part2 + blen (startxref_bytes n2)).
  { unfold len. rewrite Eshape. unfold SR.lenN. fold (blen ((prev ++ inc_lines nd) ++ objs_bytes objs2 ++ part2 ++ startxref_bytes n2)).
    rewrite !blen_app. fold pos0. lia. }
  assert (Lpost1 : SR.lenN post1 = len - blen prev).
  { unfold len. rewrite Efile. unfold SR.lenN, blen. rewrite app_length. lia. }
  assert (Lpost1' : blen prev + SR.lenN post1 = len) by (unfold len; rewrite Efile; unfold SR.lenN, blen; rewrite app_length; lia).
  (* the two sections *)
  set (r2 := rev_of x nd pos0 len []) in *. set (r1 := rev_of x d e0 len post1) in *.
  assert (Hs2 : SR.read_section file len n2 = SR.SOk r2)
    by (apply (rev_read_section x nd pos0 file (prev ++ inc_lines nd) [] Hr Enew eq_refl Hlen)).
  assert (Hs1 : SR.read_section file len n1 = SR.SOk r1)
    by (apply (rev_read_section x d e0 file HM post1 Hd1 Eold eq_refl Hlen)).
  assert (Hprev2 : dict_get (SR.r_trailer r2) SR.N_Prev = Some (OInt (Z.of_N n1))).
  { change SR.N_Prev with K_Prev. unfold r2. rewrite rev_trailer_get by (try discriminate; apply (rd_trailer nd Hr)).
    rewrite Hp. cbn [option_map norm_obj]. rewrite <- Hn1. reflexivity. }
  assert (Hprev1 : dict_get (SR.r_trailer r1) SR.N_Prev = None).
  { change SR.N_Prev with K_Prev. unfold r1. rewrite rev_trailer_get by (try discriminate; apply (sv_trailer d Sv)).
    rewrite (dict_has_false_get _ _ (sv_no_prev d Sv)). reflexivity. }
  assert (Hchain : SR.read_chain (S (length file)) file len n2 = SR.SOk [r2; r1]).
  { apply (read_chain_2 _ file len n2 n1 r2 r1); try assumption; [|lia].
    assert (0 < length file)%nat by (unfold len, SR.lenN in Llen; lia). lia. }
  (* positions *)
  assert (Hx2 : SR.r_x r2 = n2) by apply rev_of_x. assert (Hx1 : SR.r_x r1 = n1) by apply rev_of_x.
  assert (Hq2 : SR.r_q r2 = len) by (unfold r2; rewrite rev_of_q; change (SR.lenN []) with 0; lia).
  assert (Hq1 : SR.r_q r1 = blen prev) by (unfold r1; rewrite rev_of_q; lia).
  assert (Hp2 : SR.r_p r2 = len - SR.lenN (marker n2)) by (unfold r2; rewrite rev_of_p, app_nil_r; reflexivity).
  assert (Hp1 : SR.r_p r1 = blen prev - SR.lenN (marker n1)).
  { unfold r1. rewrite rev_of_p. fold n1. unfold SR.lenN in *. rewrite app_length. unfold blen in *. lia. }
  set (p1 := SR.r_p r1) in *. set (p2 := SR.r_p r2) in *.
  assert (Hord : n1 < p1 /\ p1 < blen prev /\ blen prev < pos0 /\ pos0 <= n2 /\ n2 < p2 /\ p2 < len) by lia.
  (* run the reader *)
  unfold SR.strict_load. fold len.
  assert (E2 : file = header_bytes d ++ mark_bytes d ++ (objs_bytes objs1 ++ part1 ++ startxref_bytes n1 ++ post1)).
  { rewrite Eold. unfold HM. rewrite <- !app_assoc. reflexivity. }
  rewrite E2 at 1. rewrite (save_header_accepted d _ Hv (sv_mark d Sv) Hm4). cbn [SR.sbind].
  assert (Hsolid1 : solid (objs_bytes objs1 ++ part1 ++ startxref_bytes n1 ++ post1) = true)
    by (apply objs_bytes_solid; apply part_solid).
  rewrite (skip_ws_solid _ Hsolid1).
  assert (E4 : file = ((prev ++ inc_lines nd) ++ objs_bytes objs2 ++ part2) ++ startxref_bytes n2).
  { rewrite Eshape. repeat rewrite <- app_assoc. reflexivity. }
  rewrite E4 at 1. rewrite save_find_tail. cbn [SR.of_opt SR.sbind].
  rewrite Hchain. cbn [SR.sbind]. rewrite Hq2. unfold len at 1. rewrite at_off_all. cbn [negb].
  (* entry checks *)
  assert (Hn2small : n2 < u32_mod) by (unfold len, SR.lenN, blen in *; lia).
  assert (Hn1small : n1 < u32_mod) by (unfold len, SR.lenN, blen in *; lia).
  destruct (rev_entries_ok x nd pos0 len [] Hr Hn2small) as [Hi2 [Hinc2 _]]. fold r2 in Hi2, Hinc2.
  destruct (rev_entries_ok x d e0 len post1 Hd1 Hn1small) as [Hi1 [Hinc1 _]]. fold r1 in Hi1, Hinc1.
  assert (Hsz : SR.r_size r1 <= SR.r_size r2).
  { unfold r1, r2. rewrite !rev_size. fold nd. destruct (is_stream x); lia. }
  assert (Hcheck : SR.check_revs (SR.r_size r2) [r2; r1] = SR.SOk tt).
  { cbn [SR.check_revs]. rewrite (ids_below_ok _ _ Hi2). rewrite (first_dup_sincr _ 0 Hinc2).
    rewrite (ids_below_ok _ _ Hi1).
    rewrite (ids_below_ok (SR.r_size r2) (SR.r_entries r1)) by (eapply Forall_impl; [|exact Hi1]; intros a Ha; cbn beta in *; lia).
    rewrite (first_dup_sincr _ 0 Hinc1). reflexivity. }
  rewrite Hcheck. cbn [SR.sbind].
  (* the objects *)
  set (locs2 := locs_of x nd pos0 len []). set (locs1 := locs_of x d e0 len post1).
  assert (Hall : SR.read_all file len [r2; r1] [r2; r1] = SR.SOk [locs2; locs1]).
  { cbn [SR.read_all]. unfold r2 at 3, r1 at 3, len.
    rewrite (rev_read_entries x nd pos0 file (prev ++ inc_lines nd) [] _ Hr Enew eq_refl Hlen).
    rewrite (rev_read_entries x d e0 file HM post1 _ Hd1 Eold eq_refl Hlen). reflexivity. }
  rewrite Hall. cbn [SR.sbind].
  (* fillers *)
  assert (He0 : len - SR.lenN (objs_bytes objs1 ++ part1 ++ startxref_bytes n1 ++ post1) = e0).
  { unfold len. rewrite E2. unfold e0, hm_len, SR.lenN, blen. rewrite !app_length. lia. }
  rewrite He0. cbn [rev app SR.filler_spans]. rewrite Hq1.
  assert (Hfill : len - SR.lenN (SR.skip_ws (SR.at_off file (blen prev)) false) = pos0).
  { rewrite Efile at 1. rewrite at_off_app. unfold post1. rewrite (skip_inc_lines nd _ Hvn Hmk).
    rewrite skip_ws_solid by (apply objs_bytes_solid; apply part_solid).
    unfold SR.lenN in *. unfold blen in *. rewrite !app_length in *. lia. }
  rewrite Hfill.
  (* spans *)
  cbn [flat_map concat app]. rewrite Hx2, Hx1, Hq2, Hq1. fold p1 p2. rewrite app_nil_r. rewrite map_app.
  unfold locs2, locs1. rewrite !locs_spans. fold n1 n2. rewrite app_nil_r.
  rewrite <- Hp2.
  replace (len - SR.lenN (marker n1 ++ post1)) with p1 by (unfold p1, r1; rewrite rev_of_p; reflexivity).
  set (q1 := blen prev) in *.
  set (O1 := map span_of (located_of e0 objs1)). set (O2 := map span_of (located_of pos0 objs2)).
  fold objs1 objs2. fold O1 O2.
  set (D1 := dup_span x (n1, p1)). set (D2 := dup_span x (n2, p2)).
  set (T := ((0, e0) :: O1) ++ ((n1, p1) :: D1) ++ [(p1, q1); (q1, pos0)] ++ O2 ++ ((n2, p2) :: D2) ++ [(p2, len)] ++ [(len, len)]).
  assert (HC1 : chain 0 ((0, e0) :: O1) n1).
  { constructor; [apply hm_len_pos|]. unfold O1. pose proof (located_chain objs1 e0) as Hc. rewrite <- Ln1 in Hc. exact Hc. }
  assert (HC2 : chain pos0 O2 n2).
  { unfold O2. pose proof (located_chain objs2 pos0) as Hc. rewrite <- Ln2 in Hc. exact Hc. }
  assert (HC3 : chain p1 [(p1, q1); (q1, pos0)] pos0) by (constructor; [lia|]; constructor; [lia|]; constructor).
  assert (HC6 : chain p2 [(p2, len)] len) by (constructor; [lia|]; constructor).
  assert (Hsort : SR.sort_spans ((0, e0) :: (q1, pos0) :: (n2, p2) :: (p2, len) :: (n1, p1) :: (p1, q1) ::
                                 ((O2 ++ D2) ++ O1 ++ D1) ++ [(len, len)]) = T).
  { apply sort_unique.
    - assert (EL : (0, e0) :: (q1, pos0) :: (n2, p2) :: (p2, len) :: (n1, p1) :: (p1, q1) :: ((O2 ++ D2) ++ O1 ++ D1) ++ [(len, len)] =
                   concat [[(0, e0)]; [(q1, pos0)]; [(n2, p2)]; [(p2, len)]; [(n1, p1)]; [(p1, q1)]; O2; D2; O1; D1; [(len, len)]]).
      { cbn [concat app]. rewrite <- !app_assoc. reflexivity. }
      assert (ET : T = concat [[(0, e0)]; O1; [(n1, p1)]; D1; [(p1, q1)]; [(q1, pos0)]; O2; [(n2, p2)]; D2; [(p2, len)]; [(len, len)]]).
      { unfold T. cbn [concat app]. rewrite <- ?app_assoc. cbn [app]. rewrite <- ?app_assoc. reflexivity. }
      rewrite EL, ET. apply Permutation_concat.
      apply perm_skip.
      apply (Permutation_cons_app [O1; [(n1, p1)]; D1; [(p1, q1)]] [O2; [(n2, p2)]; D2; [(p2, len)]; [(len, len)]]). cbn [app].
      apply (Permutation_cons_app [O1; [(n1, p1)]; D1; [(p1, q1)]; O2] [D2; [(p2, len)]; [(len, len)]]). cbn [app].
      apply (Permutation_cons_app [O1; [(n1, p1)]; D1; [(p1, q1)]; O2; D2] [[(len, len)]]). cbn [app].
      apply (Permutation_cons_app [O1] [D1; [(p1, q1)]; O2; D2; [(len, len)]]). cbn [app].
      apply (Permutation_cons_app [O1; D1] [O2; D2; [(len, len)]]). cbn [app].
      apply (Permutation_cons_app [O1; D1] [D2; [(len, len)]]). cbn [app].
      apply (Permutation_cons_app [O1; D1] [[(len, len)]]). cbn [app].
      apply Permutation_refl.
    - assert (G7 : good len (len + 1) [(len, len)]).
      { split; [constructor; constructor | constructor; [cbn [fst]; lia | constructor]]. }
      pose proof (good_app _ _ _ _ _ _ (good_chain _ _ _ HC6) G7 ltac:(lia) ltac:(lia) ltac:(lia)) as G67.
      pose proof (good_app _ _ _ _ _ _ (good_dup x n2 p2) G67 ltac:(lia) ltac:(lia) ltac:(lia)) as G57.
      pose proof (good_app _ _ _ _ _ _ (good_chain _ _ _ HC2) G57 ltac:(lia) ltac:(lia) ltac:(lia)) as G47.
      pose proof (good_app _ _ _ _ _ _ (good_chain _ _ _ HC3) G47 ltac:(lia) ltac:(lia) ltac:(lia)) as G37.
      pose proof (good_app _ _ _ _ _ _ (good_dup x n1 p1) G37 ltac:(lia) ltac:(lia) ltac:(lia)) as G27.
      pose proof (good_app _ _ _ _ _ _ (good_chain _ _ _ HC1) G27 ltac:(lia) ltac:(lia) ltac:(lia)) as G17.
      exact (proj1 G17). }
  unfold SR.spanT, span_of in *. rewrite Hsort.
  (* the tiling *)
  assert (ET2 : T = (((0, e0) :: O1) ++ [(n1, p1)]) ++ D1 ++ ([(p1, q1); (q1, pos0)] ++ O2 ++ [(n2, p2)]) ++ D2 ++ [(p2, len)] ++ [(len, len)]).
  { unfold T. cbn [app]. rewrite <- ?app_assoc. cbn [app]. rewrite <- ?app_assoc. reflexivity. }
  assert (Htiles : SR.tiles 0 (0, 0) T = SR.SOk len).
  { rewrite ET2.
    assert (HA : chain 0 (((0, e0) :: O1) ++ [(n1, p1)]) p1).
    { eapply chain_app; [exact HC1|]. constructor; [lia | constructor]. }
    destruct (tiles_seg _ 0 p1 (0, 0) (D1 ++ ([(p1, q1); (q1, pos0)] ++ O2 ++ [(n2, p2)]) ++ D2 ++ [(p2, len)] ++ [(len, len)]) HA ltac:(cbn [snd]; lia)) as [Ht1 _].
    unfold SR.spanT in *. rewrite Ht1. rewrite last_last. unfold D1. rewrite tiles_dup_span by lia.
    assert (HB : chain p1 ([(p1, q1); (q1, pos0)] ++ O2 ++ [(n2, p2)]) p2).
    { eapply chain_app; [exact HC3|]. eapply chain_app; [exact HC2|]. constructor; [lia | constructor]. }
    destruct (tiles_seg _ p1 p2 (n1, p1) (D2 ++ [(p2, len)] ++ [(len, len)]) HB ltac:(cbn [snd]; lia)) as [Ht2 _].
    unfold SR.spanT in *. rewrite Ht2.
    assert (Hl2 : last ([(p1, q1); (q1, pos0)] ++ O2 ++ [(n2, p2)]) (n1, p1) = (n2, p2)) by (rewrite app_assoc; apply last_last).
    rewrite Hl2. unfold D2. rewrite tiles_dup_span by lia.
    destruct (tiles_seg _ p2 len (n2, p2) [(len, len)] HC6 ltac:(cbn [snd]; lia)) as [Ht3 _].
    unfold SR.spanT in *. rewrite Ht3. rewrite tiles_empty. reflexivity. }
  rewrite Htiles. cbn [SR.sbind]. rewrite N.eqb_refl. cbn [negb].
  (* the objects *)
  assert (Hst2 : SR.r_stream r2 = is_stream x) by apply rev_of_stream.
  assert (Hst1 : SR.r_stream r1 = is_stream x) by apply rev_of_stream.
  assert (Hxo : forall off, SR.is_xref_off [r2; r1] off = (is_stream x && (n2 =? off)) || ((is_stream x && (n1 =? off)) || false)).
  { intro off. cbn [SR.is_xref_off existsb]. rewrite Hst2, Hst1, Hx2, Hx1. reflexivity. }
  assert (Hf2 : filter (fun l => negb (SR.is_xref_off [r2; r1] (SR.l_off l))) (locs_of x nd pos0 len []) = located_of pos0 objs2).
  { apply (locs_filter x nd pos0 len [] (SR.is_xref_off [r2; r1])).
    - intros l Hl. rewrite Hxo.
      pose proof (chain_bounds _ _ _ HC2) as Hbd. unfold O2 in Hbd. rewrite Forall_map in Hbd. rewrite Forall_forall in Hbd.
      specialize (Hbd l Hl). cbn [fst] in Hbd.
      replace (n2 =? SR.l_off l) with false by (symmetry; apply N.eqb_neq; lia).
      replace (n1 =? SR.l_off l) with false by (symmetry; apply N.eqb_neq; lia).
      rewrite !andb_false_r. reflexivity.
    - intro Hs. rewrite Hxo. fold n2. rewrite Hs, N.eqb_refl. reflexivity. }
  assert (Hf1 : filter (fun l => negb (SR.is_xref_off [r2; r1] (SR.l_off l))) (locs_of x d e0 len post1) = located_of e0 objs1).
  { apply (locs_filter x d e0 len post1 (SR.is_xref_off [r2; r1])).
    - intros l Hl. rewrite Hxo.
      pose proof (located_offsets_lt objs1 e0) as Hlt. rewrite Forall_forall in Hlt. specialize (Hlt l Hl). rewrite <- Ln1 in Hlt.
      replace (n2 =? SR.l_off l) with false by (symmetry; apply N.eqb_neq; lia).
      replace (n1 =? SR.l_off l) with false by (symmetry; apply N.eqb_neq; lia).
      rewrite !andb_false_r. reflexivity.
    - intro Hs. rewrite Hxo. fold n1. rewrite Hs, N.eqb_refl.
      replace (n2 =? n1) with false by (symmetry; apply N.eqb_neq; lia). reflexivity. }
  cbn [map]. rewrite Hf2, Hf1. cbn [SR.merge_objects existsb negb].
  rewrite (filter_all_true _ (located_of pos0 objs2)) by (intros; reflexivity).
  rewrite (fold_insert_located objs2 pos0 [] 0 (rd_unskipped nd Hr) (rd_numbers nd Hr) (Forall_nil _)).
  cbn [app]. rewrite app_nil_r.
  rewrite fold_located_io. rewrite (located_io objs1 e0 (savable_unskipped d Sv)).
  fold (omerge (map fst (SR.r_entries r2)) (norm_objects objs2) (norm_objects objs1)).
  rewrite Hst2. reflexivity.
Qed.

