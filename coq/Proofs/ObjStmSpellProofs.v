(* ObjStmSpellProofs.v -- C02: rung 1 (ObjectStream::new on the specification payload, Proofs/ObjStmProofs.v) composed with
   rung 2 (every spelling of every object, Proofs/SpellingObjProofs.v): the object round trip [items_rt] that
   C02_objstm_expand takes as a hypothesis is PROVED for the payloads the reference writer builds (Spec/RefWriter.v
   os_build: any subset of the generation-0 non-stream objects, every object in any spelling, at least one white-space
   byte after each, any index white-space incl. NUL), and the result is composed with the filter chain
   (Proofs/LoadsFilterProofs.v) for the chains that leave the payload as it is (no predictor padding). *)
From LV Require Import Base.Bytes Base.Sx Model.Obj Model.Writer Model.Parser Model.Utf Model.ObjStm Gen.Lex
  Spec.XrefSpec Spec.RefWriter Proofs.LexProofs Proofs.LitStringProofs Proofs.RealProofs Proofs.ObjectRtProofs
  Proofs.SpellingProofs Proofs.SpellingProofsLit Proofs.SpellingNumProofs Proofs.SpellingObjProofs Proofs.ObjStmProofs.
From Coq Require Import Lia.
Local Open Scope N_scope.

(* ---------- the token-sequence invariant with a tail that may be empty ---------- *)
Definition tail0 (T : bytes) : Prop := ref_tail T = false /\ noR T = true.

Lemma tail0_of_tailok T : tailok T -> tail0 T.
Proof. intros [_ H]. exact H. Qed.

Lemma tailok_tok0 x y f T : spell_wf x y -> tail0 T -> tailok (w_obj x y ++ sepT (w_obj x y) f T ++ T).
Proof.
  intros Hw HT. destruct (w_obj_head x y Hw) as [c [t [E [Hl Hn]]]].
  destruct (is_dec_digit c) eqn:Hc.
  2:{ rewrite E at 1. apply tailok_nondigit; assumption. }
  specialize (Hn eq_refl). destruct x as [|b|z|r|n|s h|l|d|d c0|i g]; try contradiction; cbn [spell_wf] in Hw.
  - cbn [w_obj] in *. set (txt := match y with YInt p lz => w_int z p lz | _ => w_int z false 0 end) in *.
    assert (Hs : exists plus lz, txt = w_int z plus lz) by (unfold txt; destruct y; eauto).
    destruct Hs as [plus [lz Es]]. rewrite Es in *.
    pose proof (last_reg_int z plus lz) as Hlr.
    destruct (w_int_shape z plus lz) as [sg [ds [E2 [Hne [Hds Hsg]]]]]. rewrite E2 in *.
    assert (sg = []) as ->.
    { destruct Hsg as [->|[->| ->]]; [reflexivity|..]; cbn [app] in E; inversion E; subst c; discriminate Hc. }
    cbn [app] in *. apply tailok_digits; [exact Hne|exact Hds|apply nonreg_nondigit, sepT_nonreg; exact Hlr|].
    rewrite space_sepT. apply noR_prefix. apply HT.
  - cbn [w_obj] in *. set (ry := match y with YReal ry => ry | _ => default_rstyle end).
    assert (Hs : (match y with YReal ry0 => w_real r ry0 | _ => w_real r default_rstyle end) = w_real r ry)
      by (unfold ry; destruct y; reflexivity).
    rewrite Hs in *. destruct (real_parts_of r ry Hw) as [neg [ipt [fr [E2 [Hi Hfr]]]]]. rewrite E2 in *.
    assert (sign_bytes neg (r_plus ry) = [] /\ ipt <> []) as [Esg Hine].
    { unfold sign_bytes in *. destruct neg; [cbn [app] in E; inversion E; subst c; discriminate Hc|].
      destruct (r_plus ry); [cbn [app] in E; inversion E; subst c; discriminate Hc|]. split; [reflexivity|].
      cbn [app] in E. destruct ipt; [cbn [app] in E; inversion E; subst c; discriminate Hc|discriminate]. }
    rewrite Esg. cbn [app]. rewrite <- app_assoc. apply tailok_digits; [exact Hine|exact Hi|reflexivity|reflexivity].
  - cbn [w_obj]. rewrite w_ref_text. apply tailok_ref.
Qed.

Lemma follow_sep0 ar o t f T : ref_tail T = false -> last_reg t -> follow_ok ar o (sepT t f T ++ T).
Proof.
  intros H2 Hl. pose proof (sepT_nonreg t f T Hl) as Hn.
  destruct o; cbn [follow_ok]; try exact I; try exact Hn.
  - split; [apply not_regular_follow; exact Hn|intros _; rewrite ref_tail_sepT; exact H2].
  - split; [apply not_regular_follow; exact Hn|intros _; rewrite ref_tail_sepT; exact H2].
  - unfold name_follow. rewrite Hn. reflexivity.
Qed.

Lemma follow_tok0 x y f T : spell_wf x y -> ref_tail T = false -> follow_ok true (denote x y) (sepT (w_obj x y) f T ++ T).
Proof.
  intros Hw HT. destruct x as [|b|z|r|n|s h|l|d|d c0|i g]; cbn [spell_wf] in Hw; try exact I.
  - apply follow_sep0; [exact HT|reflexivity].
  - apply follow_sep0; [exact HT|]. destruct b; reflexivity.
  - apply follow_sep0; [exact HT|]. cbn [w_obj]. destruct y; apply last_reg_int.
  - apply follow_sep0; [exact HT|]. cbn [w_obj]. destruct y; apply last_reg_real; exact Hw.
  - apply follow_sep0; [exact HT|]. apply last_reg_name.
Qed.

(* ---------- the white-space the writer puts after a member ---------- *)
Definition fl (l : list N) : filler := match l with [] => [FWs 0] | _ => map FWs l end.

Lemma fill_map_ws l : fill_bytes (map FWs l) = ws_bytes l.
Proof. unfold fill_bytes, ws_bytes. induction l as [|k l IH]; [reflexivity|]. cbn [map flat_map fill1_bytes app]. rewrite IH. reflexivity. Qed.

Lemma at_least_ws_fill l : at_least_ws l = fill_bytes (fl l).
Proof. destruct l as [|k l]; [reflexivity|]. unfold at_least_ws, fl. rewrite fill_map_ws. reflexivity. Qed.

Lemma at_least_ws_ne l : at_least_ws l <> [].
Proof. destruct l; discriminate. Qed.

Lemma at_least_ws_sepT l left T : at_least_ws l = sepT left (fl l) T.
Proof.
  unfold sepT. rewrite <- at_least_ws_fill. pose proof (at_least_ws_ne l). destruct (at_least_ws l); [contradiction|reflexivity].
Qed.

Lemma tail0_nil : tail0 []. Proof. split; reflexivity. Qed.

(* ---------- the members the writer packs ---------- *)
(* [os_build] with the style of every member kept: (number, object, style, text) *)
Definition mem_ok (o : obj) (y : ostyle) : Prop := spell_wf o y /\ (nest o <= MAX_DEPTH)%nat.

Definition osdenote (objs : list (oid * obj)) (sts : list N * list (ostyle * list N * list N * list N)) : unit := tt.

Lemma not_stream_case (o : obj) {A} (u v : A) :
  (match o with OStream _ _ => u | _ => v end) = v \/ exists d c, o = OStream d c.
Proof. destruct o; try (left; reflexivity). right. eauto. Qed.

Section Build.
  Variable objs : list (oid * obj).

  (* the object and the style behind each item of os_build *)
  Fixpoint os_pairs (members : list N) (sts : list (ostyle * list N * list N * list N)) : list (obj * ostyle) :=
    match members with
    | [] => []
    | m :: ms =>
      let '(sy, wa, w1, w2, sts') :=
        match sts with [] => (YDefault, [], [], [], []) | (sy, wa, w1, w2) :: t => (sy, wa, w1, w2, t) end in
      match find_obj objs m with
      | Some (_, o) => (o, sy) :: os_pairs ms sts'
      | None => os_pairs ms sts'
      end
    end.

  (* items_rt with the denotation given per position: the list of denoted objects *)
  Fixpoint items_rt_l (items : list ositem) (vals : list obj) : Prop :=
    match items, vals with
    | [], [] => True
    | it :: l, v :: vs =>
      (exists r, direct_object (fuel_for (oi_text it ++ flat_map oi_text l)) (oi_text it ++ flat_map oi_text l) = POk v r /\
                 (length (flat_map oi_text l) <= length r)%nat) /\ items_rt_l l vs
    | _, _ => False
    end.

  Lemma build_step o sy wa num ws1 ws2 rest vals :
    mem_ok o sy ->
    items_rt_l rest vals -> (rest = [] \/ tok_start (flat_map oi_text rest) = true) -> tail0 (flat_map oi_text rest) ->
    let it := {| oi_num := num; oi_ws1 := ws1; oi_ws2 := ws2; oi_text := w_obj o sy ++ at_least_ws wa |} in
    items_rt_l (it :: rest) (denote o sy :: vals) /\
    (it :: rest = [] \/ tok_start (flat_map oi_text (it :: rest)) = true) /\ tail0 (flat_map oi_text (it :: rest)).
  Proof.
    intros [Hw Hn] I1 I2 I3 it. unfold it. cbn [items_rt_l flat_map oi_text].
    set (T := flat_map oi_text rest) in *. set (t := w_obj o sy) in *.
    rewrite <- !app_assoc. rewrite (at_least_ws_sepT wa t T).
    split; [split; [|exact I1]|split; [right|]].
    + eexists. split.
      * apply direct_object_any_spelling; [exact Hw|apply follow_tok0; [exact Hw|apply I3]|unfold fuel_for, t, T; rewrite !app_length; lia|exact Hn].
      * rewrite space_sepT. destruct I2 as [E|I2]; [unfold T; rewrite E; apply Nat.le_0_l|rewrite (space_tok _ I2); apply Nat.le_refl].
    + destruct (w_obj_head _ _ Hw) as [c [t0 [Ec [Hl _]]]]. unfold t. rewrite Ec. apply lead2_tok. exact Hl.
    + apply tail0_of_tailok, tailok_tok0; [exact Hw|exact I3].
  Qed.

  Lemma os_build_rt : forall members sts first items,
    os_build objs members sts first = Some items ->
    Forall (fun oy => mem_ok (fst oy) (snd oy)) (os_pairs members sts) ->
    items_rt_l items (map (fun oy => denote (fst oy) (snd oy)) (os_pairs members sts)) /\
    (items = [] \/ tok_start (flat_map oi_text items) = true) /\ tail0 (flat_map oi_text items).
  Proof.
    induction members as [|m ms IH]; intros sts first items H Hok.
    - cbn [os_build] in H. inversion H; subst. cbn. split; [exact I|]. split; [left; reflexivity|exact tail0_nil].
    - cbn [os_build] in H. cbn [os_pairs] in *.
      destruct (match sts with [] => (YDefault, [], [], [], []) | (sy, wa, w1, w2) :: t => (sy, wa, w1, w2, t) end)
        as [[[[sy wa] w1] w2] sts'].
      destruct (find_obj objs m) as [[g o]|] eqn:Ef; [|discriminate H].
      destruct g as [|gp]; [|discriminate H].
      destruct (os_build objs ms sts' false) as [rest|] eqn:Eb; [|discriminate H].
      inversion Hok as [|? ? Hm Hok']; subst. cbn [fst snd] in *.
      destruct (IH sts' false rest Eb Hok') as [I1 [I2 I3]].
      cbn [map fst snd].
      assert (Hcase : (exists d c, o = OStream d c) \/
                      Some ({| oi_num := m; oi_ws1 := if first then ws_bytes w1 else at_least_ws w1;
                               oi_ws2 := at_least_ws w2; oi_text := w_obj o sy ++ at_least_ws wa |} :: rest) = Some items).
      { destruct o; try (right; exact H). left. eauto. }
      destruct Hcase as [[d [c E]]|H']; [rewrite E in H; discriminate H|]. inversion H'; subst. apply build_step; assumption.
  Qed.
End Build.

(* ---------- from the list of values to a denotation of items (the members have distinct numbers) ---------- *)
Fixpoint assoc_val (nums : list N) (vals : list obj) (n : N) : obj :=
  match nums, vals with
  | k :: ns, v :: vs => if k =? n then v else assoc_val ns vs n
  | _, _ => ONull
  end.
Definition val_of (nums : list N) (vals : list obj) (it : ositem) : obj := assoc_val nums vals (oi_num it).

Lemma items_rt_ext f g : forall items, (forall it, In it items -> f it = g it) -> items_rt f items -> items_rt g items.
Proof.
  induction items as [|it l IH]; intros He H; [exact I|]. cbn [items_rt] in *. destruct H as [H1 H2]. split.
  - unfold item_rt in *. rewrite <- (He it (or_introl eq_refl)). exact H1.
  - apply IH; [intros it' Hin; apply He; right; exact Hin|exact H2].
Qed.

Lemma items_rt_of_l : forall items vals,
  NoDup (map oi_num items) -> items_rt_l items vals -> items_rt (val_of (map oi_num items) vals) items.
Proof.
  induction items as [|it l IH]; intros vals Hnd H; [exact I|]. destruct vals as [|v vs]; [contradiction|].
  cbn [items_rt_l] in H. destruct H as [H1 H2]. inversion Hnd as [|? ? Hn Hnd']; subst.
  cbn [items_rt map]. split.
  - unfold item_rt, val_of. cbn [assoc_val]. rewrite N.eqb_refl. exact H1.
  - apply (items_rt_ext (val_of (map oi_num l) vs)); [|apply IH; assumption].
    intros it' Hin. unfold val_of. cbn [assoc_val].
    replace (oi_num it =? oi_num it') with false; [reflexivity|]. symmetry. apply N.eqb_neq. intro E. apply Hn. rewrite E.
    apply in_map. exact Hin.
Qed.

(* ---------- the shape of the items ---------- *)
Lemma ws_byte_sep k : sep_byte (ws_byte k) = true.
Proof.
  unfold ws_byte. pose proof (N.mod_lt k 6 ltac:(discriminate)) as H. set (r := k mod 6) in *.
  assert (Hr : r = 0 \/ r = 1 \/ r = 2 \/ r = 3 \/ r = 4 \/ r = 5) by lia.
  destruct Hr as [->|[->|[->|[->|[->| ->]]]]]; reflexivity.
Qed.

Lemma ws_bytes_sep l : forallb sep_byte (ws_bytes l) = true.
Proof. unfold ws_bytes. induction l as [|k l IH]; [reflexivity|]. cbn [map forallb]. rewrite ws_byte_sep, IH. reflexivity. Qed.

Lemma at_least_ws_sep l : forallb sep_byte (at_least_ws l) = true.
Proof. destruct l; [reflexivity|]. unfold at_least_ws. apply ws_bytes_sep. Qed.

Lemma os_build_shape objs : forall members sts first items,
  os_build objs members sts first = Some items ->
  map oi_num items = members /\
  Forall (fun it => oi_text it <> [] /\ forallb sep_byte (oi_ws1 it) = true /\
                    oi_ws2 it <> [] /\ forallb sep_byte (oi_ws2 it) = true) items /\
  (first = false -> later_ws1 items) /\ later_ws1 (tl items).
Proof.
  induction members as [|m ms IH]; intros sts first items H.
  - cbn [os_build] in H. inversion H; subst. repeat split; try constructor.
  - cbn [os_build] in H.
    destruct (match sts with [] => (YDefault, [], [], [], []) | (sy, wa, w1, w2) :: t => (sy, wa, w1, w2, t) end)
      as [[[[sy wa] w1] w2] sts'].
    destruct (find_obj objs m) as [[g o]|] eqn:Ef; [|discriminate H].
    destruct g as [|gp]; [|discriminate H].
    destruct (os_build objs ms sts' false) as [rest|] eqn:Eb; [|discriminate H].
    destruct (IH sts' false rest Eb) as [I1 [I2 [I3 I4]]].
    assert (Hcase : (exists d c, o = OStream d c) \/
                    Some ({| oi_num := m; oi_ws1 := if first then ws_bytes w1 else at_least_ws w1;
                             oi_ws2 := at_least_ws w2; oi_text := w_obj o sy ++ at_least_ws wa |} :: rest) = Some items).
    { destruct o; try (right; exact H). left. eauto. }
    destruct Hcase as [[d [c E]]|H']; [rewrite E in H; discriminate H|]. inversion H'; subst. clear H'.
    cbn [map oi_num tl]. split; [first [reflexivity | rewrite I1; reflexivity]|]. split; [|split].
    + constructor; [|exact I2]. cbn [oi_text oi_ws1 oi_ws2]. split.
      * intro E. apply app_eq_nil in E as [_ E]. exact (at_least_ws_ne wa E).
      * split; [destruct first; [apply ws_bytes_sep|apply at_least_ws_sep]|]. split; [apply at_least_ws_ne|apply at_least_ws_sep].
    + intro E. subst first. cbn [later_ws1 oi_ws1]. split; [apply at_least_ws_ne|apply I3; reflexivity].
    + apply I3. reflexivity.
Qed.

(* ---------- THE COMPOSITION: ObjectStream::new on a payload of the reference writer, any spelling of every member ---------- *)
Theorem objstm_any_spelling objs members sts he items (d : dict) (n : Z) :
  os_build objs members sts true = Some items -> members <> [] -> NoDup members ->
  Forall (fun m => m <= u32_max) members ->
  Forall (fun oy => mem_ok (fst oy) (snd oy)) (os_pairs objs members sts) ->
  N.of_nat (length (flat_map oi_text items)) <= u32_max ->
  dict_get d K_First = Some (OInt (Z.of_N (fst (os_payload items (at_least_ws he))))) ->
  dict_get d K_N = Some (OInt n) ->
  objstm_plain d (snd (os_payload items (at_least_ws he))) =
  OsOk (fold_left (fun m it => insert m (oi_num it, 0)
                     (val_of members (map (fun oy => denote (fst oy) (snd oy)) (os_pairs objs members sts)) it)) items []).
Proof.
  intros Hb Hne Hnd Hm Hok Hlen HF HN.
  destruct (os_build_shape objs members sts true items Hb) as [S1 [S2 [_ S4]]].
  destruct (os_build_rt objs members sts true items Hb Hok) as [R1 _].
  subst members.
  apply (objstm_expand _ (at_least_ws he) items d n).
  - intro E. subst items. apply Hne. reflexivity.
  - apply Forall_forall. intros it Hin. rewrite Forall_forall in S2. destruct (S2 it Hin) as [A [B [C D]]].
    unfold item_ok. split; [exact A|]. split; [|split; [exact B|split; [exact C|exact D]]].
    rewrite Forall_forall in Hm. apply Hm. apply in_map. exact Hin.
  - apply items_rt_of_l; [exact Hnd|exact R1].
  - exact S4.
  - apply at_least_ws_sep.
  - exact Hlen.
  - exact HF.
  - exact HN.
Qed.
