(* StrictLoadProofs.v -- C03, part 4: composition.  A cross-reference section written by the model
   (table + trailer, or cross-reference stream object) followed by its startxref marker is read by
   [read_section] in any context; and the whole-file theorem for the plain save:
       strict_load (so_bytes (save x d)) = SOk (sdoc_of x d)
   for both cross-reference formats, for every document of the domain [strict_savable_core] whose file
   is below 4 GiB.  The explicit result [sdoc_of] lists the recovered objects (normal forms), the
   trailer, the cross-reference entries, the object located by each entry and the spans of the
   tiling. *)
From LV Require Import Base.Bytes Base.Sx Model.Obj Model.Writer Model.Save Gen.Lex Gen.SaveFmt
  Proofs.LexProofs Proofs.RealProofs Proofs.ObjectRtProofs Proofs.SaveProofs Spec.SaveSpec
  Proofs.FilterProofsDict Proofs.LoadProofs Proofs.LoadProofsXref Proofs.LoadProofsTable
  Proofs.StrictReaderProofs Proofs.SaveStrictProofs Proofs.StrictObjectProofs Proofs.StrictFileProofs
  Proofs.StrictTilingProofs.
From LV Require Spec.StrictReader Model.Parser.
From Coq Require Import ZifyBool ZifyN ZifyNat Permutation Sorted.

Local Open Scope N_scope.

(* ---------- the entries the sectioning loop prints, for a sorted map ---------- *)
Lemma present_incr : forall n lo (x : xmap) conv,
  incr lo x -> Forall (fun ke => fst ke < lo + N.of_nat n) x ->
  present x conv lo n = map (fun ke => (fst ke, conv (snd ke))) x.
Proof.
  induction n as [|n IH]; intros lo x conv Hi Hb.
  - destruct x as [|[k e] x]; [reflexivity|]. cbn [incr] in Hi. inversion Hb; subst. cbn [fst] in *. lia.
  - cbn [present]. destruct x as [|[k e] x].
    + cbn [xget app map]. apply (IH (lo + 1) [] conv); [exact I | constructor].
    + cbn [incr] in Hi. destruct Hi as [Hk Hi]. inversion Hb as [|? ? Hb1 Hb2]; subst. cbn [fst] in *.
      destruct (N.eq_dec k lo) as [->|Hne'].
      * cbn [xget]. rewrite N.eqb_refl. cbn [app map fst snd]. f_equal.
        rewrite (present_ext n (lo + 1) ((lo, e) :: x) x).
        -- apply IH; [exact Hi|]. eapply Forall_impl; [|exact Hb2]. intros a Ha. cbn beta in *. lia.
        -- intros j Hj. cbn [xget]. replace (lo =? j) with false by (symmetry; apply N.eqb_neq; lia). reflexivity.
      * cbn [xget]. replace (k =? lo) with false by (symmetry; apply N.eqb_neq; lia).
        rewrite (xget_none_incr x (k + 1) lo Hi) by lia. cbn [app].
        apply (IH (lo + 1) ((k, e) :: x) conv); [cbn [incr]; split; [lia | exact Hi]|].
        constructor; [cbn [fst]; lia|]. eapply Forall_impl; [|exact Hb2]. intros a Ha. cbn beta in *. lia.
Qed.

Definition normal_e (e : xentry) : Prop :=
  match e with XNormal off g => off < u32_mod /\ g < 65536 | _ => False end.

Lemma normal_in_range e : normal_e e -> xentry_in_range e.
Proof. destruct e; cbn; tauto. Qed.

Lemma xget_in : forall (x : xmap) j e, xget x j = Some e -> In (j, e) x.
Proof.
  induction x as [|[k e'] x IH]; intros j e H; [discriminate|]. cbn [xget] in H.
  destruct (k =? j) eqn:E; [apply N.eqb_eq in E; inversion H; subst; left; reflexivity | right; apply IH; exact H].
Qed.

Lemma sections_loop_all (P : xentry -> Prop) : forall n id (x : xmap) conv start cur,
  Forall P cur -> (forall j e, xget x j = Some e -> P (conv e)) ->
  Forall (fun s : xsection => Forall P (snd s)) (sections_loop n id x conv start cur).
Proof.
  induction n as [|n IH]; intros id x conv start cur Hc Hx; cbn [sections_loop].
  - destruct cur; [constructor|]. constructor; [exact Hc | constructor].
  - destruct (xget x id) as [e|] eqn:E.
    + apply IH; [|exact Hx]. apply Forall_app. split; [exact Hc|]. constructor; [eapply Hx; exact E | constructor].
    + destruct cur; [apply IH; [constructor | exact Hx]|].
      constructor; [exact Hc | apply IH; [constructor | exact Hx]].
Qed.

(* the writer's map: sorted, bounded, Normal entries in range *)
Lemma entries_of_incr : forall objs pos lo,
  increasing lo (obj_numbers objs) -> incr (lo + 1) (entries_of pos objs).
Proof.
  induction objs as [|[[id g] o] rest IH]; intros pos lo H; [exact I|].
  cbn [obj_numbers map fst increasing] in H. destruct H as [Hlo Hinc]. cbn [entries_of].
  destruct (skipped o).
  - eapply incr_weaken; [|apply (IH pos id Hinc)]. lia.
  - cbn [incr]. split; [lia | apply IH; exact Hinc].
Qed.

Lemma entries_of_bound : forall objs pos B,
  Forall (fun io : oid * obj => fst (fst io) < B) objs -> Forall (fun ke => fst ke < B) (entries_of pos objs).
Proof.
  induction objs as [|[[id g] o] rest IH]; intros pos B H; [constructor|]. inversion H; subst. cbn [fst] in *.
  cbn [entries_of]. destruct (skipped o); [apply IH; assumption|]. constructor; [assumption | apply IH; assumption].
Qed.

Lemma entries_of_normal : forall objs pos,
  Forall (fun io : oid * obj => snd (fst io) <= 65535) objs -> Forall (fun ke => normal_e (snd ke)) (entries_of pos objs).
Proof.
  induction objs as [|[[id g] o] rest IH]; intros pos H; [constructor|]. inversion H; subst. cbn [fst snd] in *.
  cbn [entries_of]. destruct (skipped o); [apply IH; assumption|]. constructor; [|apply IH; assumption].
  cbn [snd normal_e]. split; [apply N.mod_lt; unfold u32_mod; lia | lia].
Qed.

Lemma map_conv_id (x : xmap) conv :
  Forall (fun ke => conv (snd ke) = snd ke) x -> map (fun ke => (fst ke, conv (snd ke))) x = x.
Proof.
  induction 1 as [|[k e] x H Hx IH]; [reflexivity|]. cbn [map fst snd] in *. rewrite H, IH. reflexivity.
Qed.

Lemma table_flat (x : xmap) size :
  incr 1 x -> Forall (fun ke => fst ke < size) x -> Forall (fun ke => normal_e (snd ke)) x -> 1 <= size ->
  flatten (table_sections x size) = (0, XUnusable) :: x.
Proof.
  intros Hi Hb Hn Hs. unfold table_sections. rewrite flatten_sections_loop by (right; reflexivity).
  cbn [enum app]. f_equal. rewrite present_incr; [| exact Hi | eapply Forall_impl; [|exact Hb]; intros a Ha; cbn beta in *; lia].
  apply map_conv_id. eapply Forall_impl; [|exact Hn]. intros [k e] H. cbn [snd] in *. destruct e; try contradiction. reflexivity.
Qed.

Lemma table_sections_good (x : xmap) size :
  Forall (fun ke => normal_e (snd ke)) x -> Forall sec_good (table_sections x size).
Proof.
  intro Hn. unfold table_sections.
  pose proof (sections_loop_nonempty (N.to_nat (size - 1)) 1 x table_conv 0 [XUnusable]) as H1.
  pose proof (sections_loop_all xentry_in_range (N.to_nat (size - 1)) 1 x table_conv 0 [XUnusable]) as H2.
  assert (H3 : Forall (fun s : xsection => Forall xentry_in_range (snd s))
                      (sections_loop (N.to_nat (size - 1)) 1 x table_conv 0 [XUnusable])).
  { apply H2; [constructor; [exact I | constructor]|]. intros j e He. apply xget_in in He.
    rewrite Forall_forall in Hn. specialize (Hn _ He). cbn [snd] in Hn. destruct e; try contradiction.
    cbn [table_conv]. apply normal_in_range. exact Hn. }
  clear H2. induction H1 as [|s l Hs Hl IH]; [constructor|]. inversion H3; subst.
  constructor; [split; assumption | apply IH; assumption].
Qed.

Lemma stream_flat (x : xmap) size :
  incr 1 x -> Forall (fun ke => fst ke < 1 + size) x -> flatten (stream_sections x size) = x.
Proof.
  intros Hi Hb. unfold stream_sections. rewrite flatten_sections_loop by (left; reflexivity).
  cbn [enum app]. rewrite present_incr; [| exact Hi | eapply Forall_impl; [|exact Hb]; intros a Ha; cbn beta in *; lia].
  apply (map_conv_id x (fun e => e)). apply Forall_forall. reflexivity.
Qed.

Lemma stream_sections_normal (x : xmap) size :
  Forall (fun ke => normal_e (snd ke)) x -> Forall sec_normal (stream_sections x size).
Proof.
  intro Hn. unfold stream_sections, sec_normal.
  apply (sections_loop_all normal_e); [constructor|]. intros j e He. apply xget_in in He.
  rewrite Forall_forall in Hn. apply (Hn _ He).
Qed.

(* ---------- the startxref marker ---------- *)
Definition marker (x : N) : bytes := bs "startxref" ++ x0a :: N_dec x ++ x0a :: bs "%%EOF".

Lemma startxref_marker x : startxref_bytes x = x0a :: marker x.
Proof. reflexivity. Qed.

Lemma marker_tail x post : SR.p_tail (marker x ++ post) = Some (x, post).
Proof.
  unfold marker. repeat (rewrite <- app_assoc; cbn [app]). apply save_tail_accepted.
Qed.

Lemma skip_sp_marker x post : SR.skip_sp (startxref_bytes x ++ post) = marker x ++ post.
Proof. reflexivity. Qed.

Lemma strip_xref_digit c t : is_dec_digit c = true -> SR.strip SR.KW_xref (c :: t) = None.
Proof. intro H. destruct c; try discriminate H; reflexivity. Qed.

Lemma size_read t size :
  dict_get t K_Size = Some (OInt (Z.of_N size)) ->
  SR.obnd (dict_get (norm_dict t) SR.N_Size) SR.as_nat_obj = Some size.
Proof.
  intro H. change SR.N_Size with K_Size. rewrite dict_get_norm, H. cbn [option_map norm_obj SR.obnd SR.as_nat_obj].
  replace (Z.of_N size <? 0)%Z with false by (symmetry; apply Z.ltb_ge; lia). rewrite N2Z.id. reflexivity.
Qed.

(* ---------- one cross-reference section in context: table ---------- *)
Theorem read_section_table file pre secs t size post :
  file = pre ++ (bs "xref" ++ x0a :: flat_map write_xref_section secs ++ trailer_bytes t) ++
         startxref_bytes (blen pre) ++ post ->
  Forall sec_good secs -> obj_wf (ODict t) -> dict_get t K_Size = Some (OInt (Z.of_N size)) ->
  SR.read_section file (SR.lenN file) (blen pre) =
  SR.SOk {| SR.r_x := blen pre; SR.r_stream := false; SR.r_entries := map xuse_of (flatten secs);
            SR.r_trailer := norm_dict t; SR.r_size := size;
            SR.r_p := SR.lenN file - SR.lenN (marker (blen pre) ++ post);
            SR.r_q := SR.lenN file - SR.lenN post |}.
Proof.
  intros Hf Hg Hw Hs. unfold SR.read_section.
  assert (Hlt : SR.lenN file <=? blen pre = false).
  { apply N.leb_gt. subst file. unfold SR.lenN, blen. rewrite !app_length. cbn [length]. lia. }
  rewrite Hlt.
  assert (Hat : SR.at_off file (blen pre) =
                bs "xref" ++ x0a :: flat_map write_xref_section secs ++ trailer_bytes t ++ startxref_bytes (blen pre) ++ post).
  { rewrite Hf at 1. rewrite at_off_app. repeat (rewrite <- app_assoc; cbn [app]). reflexivity. }
  rewrite Hat. change SR.KW_xref with (bs "xref"). rewrite strip_app.
  change (bs "xref") with SR.KW_xref at 1.
  rewrite (xref_table_written (blen pre) secs t _ Hg Hw). cbn [SR.sbind].
  rewrite skip_sp_marker. rewrite (size_read t size Hs). cbn [SR.of_opt SR.sbind].
  rewrite marker_tail. cbn [SR.of_opt SR.sbind fst snd]. rewrite N.eqb_refl. cbn [negb]. reflexivity.
Qed.

Lemma norm_index secs : norm_obj (xstream_index secs) = xstream_index secs.
Proof.
  unfold xstream_index. cbn [norm_obj]. f_equal. induction secs as [|s l IH]; [reflexivity|].
  cbn [flat_map app map norm_obj]. f_equal. f_equal. exact IH.
Qed.

(* ---------- one cross-reference section in context: cross-reference stream ---------- *)
Theorem read_section_stream file pre id t secs size post :
  file = pre ++ write_indirect_object id 0 (OStream t (xstream_content secs)) ++ startxref_bytes (blen pre) ++ post ->
  top_wf (OStream t (xstream_content secs)) ->
  dict_get t K_Type = Some (OName K_XRef) -> dict_get t K_Filter = None ->
  dict_get t K_Size = Some (OInt (Z.of_N size)) -> dict_get t K_W = Some xs_W ->
  dict_get t K_Index = Some (xstream_index secs) ->
  Forall sec_normal secs ->
  SR.read_section file (SR.lenN file) (blen pre) =
  SR.SOk {| SR.r_x := blen pre; SR.r_stream := true; SR.r_entries := map xuse_of (flatten secs);
            SR.r_trailer := norm_dict t; SR.r_size := size;
            SR.r_p := SR.lenN file - SR.lenN (marker (blen pre) ++ post);
            SR.r_q := SR.lenN file - SR.lenN post |}.
Proof.
  intros Hf Hw HT HF HS HW HI Hn. unfold SR.read_section.
  pose proof (wio_nonempty id 0 (OStream t (xstream_content secs))) as Hne.
  assert (Hlt : SR.lenN file <=? blen pre = false).
  { apply N.leb_gt. subst file. unfold SR.lenN, blen in *. rewrite !app_length. lia. }
  rewrite Hlt.
  assert (Hat : SR.at_off file (blen pre) =
                write_indirect_object id 0 (OStream t (xstream_content secs)) ++ startxref_bytes (blen pre) ++ post).
  { rewrite Hf at 1. apply at_off_app. }
  rewrite Hat.
  assert (Hnx : SR.strip SR.KW_xref (write_indirect_object id 0 (OStream t (xstream_content secs)) ++
                                     startxref_bytes (blen pre) ++ post) = None).
  { unfold write_indirect_object. rewrite <- !app_assoc. destruct (N_dec_cons id) as [c [u [E Hc]]]. rewrite E.
    cbn [app]. apply strip_xref_digit. exact Hc. }
  rewrite Hnx. rewrite wio_objhdr. cbn [SR.of_opt SR.sbind].
  rewrite (objbody_rt SR.no_resolve (blen pre) _ _ Hw). cbn [SR.sbind norm_obj]. fold (norm_dict t).
  rewrite skip_sp_marker.
  pose proof (norm_index secs) as Hnorm_idx.
  rewrite (decode_xstream_written (blen pre) (norm_dict t) secs size).
  - cbn [SR.sbind]. rewrite (size_read t size HS). cbn [SR.of_opt SR.sbind].
    rewrite marker_tail. cbn [SR.of_opt SR.sbind fst snd]. rewrite N.eqb_refl. cbn [negb]. reflexivity.
  - change SR.N_Type with K_Type. rewrite dict_get_norm, HT. reflexivity.
  - change SR.N_Filter with K_Filter. rewrite dict_get_norm, HF. reflexivity.
  - change SR.N_Size with K_Size. rewrite dict_get_norm, HS. reflexivity.
  - change SR.N_W with K_W. rewrite dict_get_norm, HW. reflexivity.
  - change SR.N_Index with K_Index. rewrite dict_get_norm, HI. cbn [option_map]. rewrite Hnorm_idx. reflexivity.
  - exact Hn.
Qed.

(* ---------- spans of the written objects ---------- *)
Definition span_of (l : SR.located) : SR.spanT := (SR.l_off l, SR.l_end l).

Lemma located_chain : forall objs pos,
  chain pos (map span_of (located_of pos objs)) (pos + blen (objs_bytes objs)).
Proof.
  induction objs as [|[[id g] o] rest IH]; intro pos.
  - cbn [located_of map]. replace (pos + blen (objs_bytes [])) with pos by (unfold blen, objs_bytes; cbn [flat_map length]; lia). constructor.
  - cbn [located_of]. unfold objs_bytes in *. cbn [flat_map fst snd]. destruct (skipped o).
    + cbn [app]. apply IH.
    + cbn [map]. unfold span_of at 1. cbn [SR.l_off SR.l_end]. pose proof (wio_nonempty id g o) as Hne.
      constructor; [lia|]. rewrite blen_app, N.add_assoc. apply IH.
Qed.

Lemma located_offsets_lt : forall objs pos,
  Forall (fun l => SR.l_off l < pos + blen (objs_bytes objs)) (located_of pos objs).
Proof.
  intros objs pos. pose proof (chain_bounds _ _ _ (located_chain objs pos)) as H.
  rewrite Forall_map in H. eapply Forall_impl; [|exact H]. intros l [_ H2]. exact H2.
Qed.

(* ---------- the recovered object map ---------- *)
Lemma fold_insert_located : forall objs pos acc lo,
  Forall (fun io : oid * obj => skipped (snd io) = false) objs -> increasing lo (obj_numbers objs) ->
  Forall (fun io : oid * obj => fst (fst io) <= lo) acc ->
  fold_left (fun m l => insert m (SR.l_id l, SR.l_gen l) (SR.l_obj l)) (located_of pos objs) acc =
  acc ++ norm_objects objs.
Proof.
  induction objs as [|[[id g] o] rest IH]; intros pos acc lo Hsk Hinc Hacc.
  - cbn. rewrite app_nil_r. reflexivity.
  - inversion Hsk as [|? ? Hs Hsk']; subst. cbn [snd] in Hs.
    cbn [obj_numbers map fst increasing] in Hinc. destruct Hinc as [Hlo Hinc].
    cbn [located_of]. rewrite Hs. cbn [fold_left SR.l_id SR.l_gen SR.l_obj].
    rewrite insert_last by (cbn [fst]; eapply Forall_impl; [|exact Hacc]; intros a Ha; cbn beta in *; unfold oid in *; lia).
    rewrite (IH _ _ id Hsk' Hinc).
    + rewrite <- app_assoc. reflexivity.
    + apply Forall_app. split; [eapply Forall_impl; [|exact Hacc]; intros a Ha; cbn beta in *; unfold oid in *; lia|].
      constructor; [cbn [fst]; lia | constructor].
Qed.

Lemma filter_all_true {A} (p : A -> bool) l : (forall a, In a l -> p a = true) -> filter p l = l.
Proof.
  induction l as [|a l IH]; intro H; [reflexivity|]. cbn [filter]. rewrite (H a (or_introl eq_refl)).
  f_equal. apply IH. intros b Hb. apply H. right. exact Hb.
Qed.

(* ---------- checks on the entries ---------- *)
Lemma ids_below_ok size (es : list (N * SR.xent)) : Forall (fun ie => fst ie < size) es -> SR.ids_below size es = None.
Proof.
  induction 1 as [|[i e] es H Hes IH]; [reflexivity|]. cbn [SR.ids_below fst] in *.
  replace (i <? size) with true by (symmetry; apply N.ltb_lt; exact H). exact IH.
Qed.

Fixpoint sincr (lo : N) (es : list (N * SR.xent)) : Prop :=
  match es with [] => True | (k, _) :: es' => lo <= k /\ sincr (k + 1) es' end.

Lemma find_entry_sincr : forall es lo j, sincr lo es -> j < lo -> SR.find_entry es j = None.
Proof.
  induction es as [|[k e] es IH]; intros lo j Hi Hj; [reflexivity|]. cbn [sincr SR.find_entry] in *. destruct Hi as [H1 H2].
  replace (k =? j) with false by (symmetry; apply N.eqb_neq; lia). apply (IH (k + 1)); [exact H2 | lia].
Qed.

Lemma first_dup_sincr : forall es lo, sincr lo es -> SR.first_dup es = None.
Proof.
  induction es as [|[k e] es IH]; intros lo Hi; [reflexivity|]. cbn [sincr SR.first_dup] in *. destruct Hi as [H1 H2].
  rewrite (find_entry_sincr es (k + 1) k H2) by lia. apply (IH (k + 1)). exact H2.
Qed.

Lemma sincr_map : forall (x : xmap) lo, incr lo x -> sincr lo (map xuse_of x).
Proof.
  induction x as [|[k e] x IH]; intros lo H; [exact I|]. cbn [incr map xuse_of fst sincr] in *.
  destruct H as [H1 H2]. split; [exact H1 | apply IH; exact H2].
Qed.

Lemma at_off_all file : SR.at_off file (SR.lenN file) = [].
Proof.
  unfold SR.at_off, SR.lenN. rewrite Nat2N.id. induction file as [|c f IH]; [reflexivity|]. cbn [length drop]. exact IH.
Qed.

(* ---------- the domain ---------- *)
(* C01's [savable] and the two requirements the strict reader adds (both are rules of ISO 32000-1
   7.5.2 that lopdf's writer leaves to the caller): the version has the form digits.digits, and the
   binary comment holds at least four bytes *)
Record strict_savable_core (d : doc) : Prop := {
  ss_savable : savable_core d;
  ss_version : SR.version_ok (d_version d) = true;
  ss_mark : (4 <= length (d_binary_mark d))%nat;
}.

Definition unskipped (objs : objmap) : Prop := Forall (fun io : oid * obj => skipped (snd io) = false) objs.

Lemma savable_unskipped d : savable_core d -> unskipped (d_objects d).
Proof. intro S. pose proof (sv_objects d S) as H. eapply Forall_impl; [|exact H]. intros io [_ [_ [_ K]]]. exact K. Qed.

Lemma savable_obj_dom d : savable_core d -> Forall obj_dom (d_objects d).
Proof.
  intro S. pose proof (sv_objects d S) as H. eapply Forall_impl; [|exact H]. intros io [_ [K1 [K2 _]]].
  split; [unfold Parser.u16_max in K1; exact K1 | exact K2].
Qed.

(* ---------- the expected result ---------- *)
Definition hm_len (d : doc) : N := blen (header_bytes d ++ mark_bytes d).

Definition rev_table (d : doc) (len : N) : SR.revision :=
  let x := blen (body_of d) in
  {| SR.r_x := x; SR.r_stream := false;
     SR.r_entries := (0, SR.XFree 0 65535) :: map xuse_of (entries_of (hm_len d) (d_objects d));
     SR.r_trailer := norm_dict (trailer_table d); SR.r_size := d_max_id d + 1;
     SR.r_p := len - SR.lenN (marker x); SR.r_q := len |}.

Definition sdoc_table (d : doc) : SR.sdoc :=
  let file := so_bytes (save_core XTable d) in
  let len := SR.lenN file in
  let rv := rev_table d len in
  let locs := located_of (hm_len d) (d_objects d) in
  {| SR.s_version := d_version d;
     SR.s_objects := norm_objects (d_objects d);
     SR.s_trailer := norm_dict (trailer_table d);
     SR.s_revisions := 1;
     SR.s_stream := false;
     SR.s_spans := ((0, hm_len d) :: map span_of locs ++ [(SR.r_x rv, SR.r_p rv); (SR.r_p rv, len)]) ++ [(len, len)];
     SR.s_revs := [rv];
     SR.s_located := [locs];
     SR.s_startxref := blen (body_of d) |}.

Lemma body_shape d :
  body_of d = (header_bytes d ++ mark_bytes d) ++ objs_bytes (d_objects d).
Proof. unfold body_of. rewrite save_body_eq. cbv zeta. cbn [fst]. rewrite write_objects_bytes. reflexivity. Qed.

Lemma xmap_shape d :
  increasing 0 (obj_numbers (d_objects d)) -> xmap_of d = entries_of (hm_len d) (d_objects d).
Proof.
  intro Hinc. unfold xmap_of. rewrite save_body_eq. cbv zeta. cbn [snd].
  rewrite (write_objects_map (d_objects d) _ [] 0 Hinc (Forall_nil _)). reflexivity.
Qed.

Lemma solid_xref t : solid (bs "xref" ++ t) = true.
Proof. reflexivity. Qed.

Lemma hm_len_pos d : 0 < hm_len d.
Proof. unfold hm_len, header_bytes. rewrite !blen_app. change (blen (bs "%PDF-")) with 5. lia. Qed.

Theorem strict_load_table d :
  strict_savable_core d -> small_file_core XTable d ->
  SR.strict_load (so_bytes (save_core XTable d)) = SR.SOk (sdoc_table d).
Proof.
  intros [Sv Hv Hm4] Hsmall.
  pose proof (save_table_ok d Sv) as Hok.
  destruct (save_core_shape XTable d Hok) as [mid [Hbytes Hmid]].
  pose proof (sv_numbers d Sv) as Hinc. pose proof (sv_max_id d Sv) as Hmax.
  pose proof (xmap_shape d Hinc) as Ex. pose proof (body_shape d) as Ebody.
  unfold sdoc_table, rev_table.
  unfold small_file_core in Hsmall.
  set (file := so_bytes (save_core XTable d)) in *.
  set (objs := d_objects d) in *. set (HM := header_bytes d ++ mark_bytes d) in *.
  set (n := blen (body_of d)) in *. set (t := trailer_table d) in *. set (size := d_max_id d + 1) in *.
  set (x := entries_of (hm_len d) objs) in *.
  set (secs := table_sections x size).
  set (xr := bs "xref" ++ x0a :: flat_map write_xref_section secs ++ trailer_bytes t).
  assert (Emid : mid = xr).
  { subst mid. rewrite Ex. unfold xr, write_xref. fold secs. repeat (rewrite <- app_assoc; cbn [app]). reflexivity. }
  assert (E1 : file = body_of d ++ xr ++ startxref_bytes n ++ []).
  { rewrite app_nil_r. rewrite <- Emid. exact Hbytes. }
  assert (E2 : file = header_bytes d ++ mark_bytes d ++ (objs_bytes objs ++ xr ++ startxref_bytes n)).
  { rewrite E1, Ebody, app_nil_r. fold HM. unfold HM. rewrite <- !app_assoc. reflexivity. }
  assert (E3 : file = HM ++ objs_bytes objs ++ (xr ++ startxref_bytes n)).
  { rewrite E2. unfold HM. rewrite <- !app_assoc. reflexivity. }
  assert (E4 : file = (body_of d ++ xr) ++ startxref_bytes n).
  { rewrite E1, app_nil_r, <- app_assoc. reflexivity. }
  (* facts about the map *)
  assert (Hxi : incr 1 x) by (apply (entries_of_incr objs (hm_len d) 0 Hinc)).
  assert (Hxb : Forall (fun ke => fst ke < size) x).
  { apply entries_of_bound. pose proof (sv_objects d Sv) as Ho. eapply Forall_impl; [|exact Ho].
    intros io [H1 _]. unfold size, oid in *. lia. }
  assert (Hxn : Forall (fun ke => normal_e (snd ke)) x).
  { apply entries_of_normal. pose proof (sv_objects d Sv) as Ho. eapply Forall_impl; [|exact Ho].
    intros io [_ [H1 _]]. unfold Parser.u16_max in H1. exact H1. }
  assert (Hflat : flatten secs = (0, XUnusable) :: x) by (apply table_flat; try assumption; unfold size; lia).
  assert (Hgood : Forall sec_good secs) by (apply table_sections_good; exact Hxn).
  assert (Hwf : obj_wf (ODict t)) by (apply trailer_table_wf; exact Sv).
  assert (Hsize : dict_get t K_Size = Some (OInt (Z.of_N size))) by (unfold t, trailer_table; apply dict_get_set_same).
  (* the section *)
  pose proof (read_section_table file (body_of d) secs t size [] E1 Hgood Hwf Hsize) as Hsec.
  fold n in Hsec. rewrite Hflat in Hsec. rewrite app_nil_r in Hsec.
  change (SR.lenN []) with 0 in Hsec. rewrite N.sub_0_r in Hsec.
  cbn [map xuse_of fst snd xent_of] in Hsec.
  set (len := SR.lenN file) in *.
  set (rv := {| SR.r_x := n; SR.r_stream := false; SR.r_entries := (0, SR.XFree 0 65535) :: map xuse_of x;
                SR.r_trailer := norm_dict t; SR.r_size := size; SR.r_p := len - SR.lenN (marker n); SR.r_q := len |}) in *.
  assert (Hprev : dict_get (norm_dict t) SR.N_Prev = None).
  { change SR.N_Prev with K_Prev. rewrite dict_get_norm. unfold t, trailer_table.
    rewrite dict_get_set_other by discriminate. rewrite (dict_has_false_get _ _ (sv_no_prev d Sv)). reflexivity. }
  (* lengths *)
  assert (Hlen : len = n + blen xr + blen (startxref_bytes n)).
  { unfold len. rewrite E1, app_nil_r. unfold SR.lenN, blen, n. rewrite !app_length. unfold blen. lia. }
  assert (Hn : n = hm_len d + blen (objs_bytes objs)).
  { unfold n. rewrite Ebody. fold HM. rewrite blen_app. reflexivity. }
  assert (Hmk : blen (startxref_bytes n) = 1 + SR.lenN (marker n)).
  { rewrite startxref_marker. unfold blen, SR.lenN. cbn [length]. lia. }
  assert (Hxrpos : 0 < blen xr) by (unfold xr, blen; rewrite app_length; cbn [length bs]; lia).
  assert (Hmkpos : 0 < SR.lenN (marker n)) by (unfold marker, SR.lenN; rewrite app_length; cbn [length bs]; lia).
  (* run the reader *)
  unfold SR.strict_load. fold len.
  rewrite E2 at 1. rewrite (save_header_accepted d _ Hv (sv_mark d Sv) Hm4).
  cbn [SR.sbind].
  assert (Hsolid : solid (objs_bytes objs ++ xr ++ startxref_bytes n) = true)
    by (apply objs_bytes_solid; reflexivity).
  rewrite (skip_ws_solid _ Hsolid).
  rewrite E4 at 1. rewrite save_find_tail. cbn [SR.of_opt SR.sbind].
  assert (Hchain : SR.read_chain (S (length file)) file len n = SR.SOk [rv]).
  { cbn [SR.read_chain]. rewrite Hsec. cbn [SR.sbind SR.r_trailer]. rewrite Hprev. reflexivity. }
  rewrite Hchain. cbn [SR.sbind SR.r_q rv].
  unfold len at 1. rewrite at_off_all. cbn [negb].
  (* entry checks *)
  assert (Hids : Forall (fun ie : N * SR.xent => fst ie < size) ((0, SR.XFree 0 65535) :: map xuse_of x)).
  { constructor; [cbn [fst]; unfold size; lia|]. rewrite Forall_map. eapply Forall_impl; [|exact Hxb]. intros a Ha. exact Ha. }
  assert (Hcheck : SR.check_revs (SR.r_size rv) [rv] = SR.SOk tt).
  { cbn [SR.check_revs SR.r_size SR.r_entries rv]. rewrite (ids_below_ok size _ Hids).
    rewrite (first_dup_sincr _ 0); [reflexivity|]. cbn [sincr]. split; [lia|]. apply sincr_map. exact Hxi. }
  rewrite Hcheck. cbn [SR.sbind].
  (* the objects *)
  assert (Hsm : SR.lenN file <= u32_mod) by (unfold SR.lenN, blen in *; lia).
  assert (Hall : SR.read_all file len [rv] [rv] = SR.SOk [located_of (hm_len d) objs]).
  { cbn [SR.read_all SR.r_entries rv SR.read_entries].
    unfold len, x, hm_len. fold HM.
    rewrite (read_entries_written objs file [rv] HM (xr ++ startxref_bytes n) E3 (savable_obj_dom d Sv) eq_refl Hsm).
    reflexivity. }
  rewrite Hall. cbn [SR.sbind].
  (* spans *)
  set (locs := located_of (hm_len d) objs).
  assert (He0 : len - SR.lenN (objs_bytes objs ++ xr ++ startxref_bytes n) = hm_len d).
  { unfold len. rewrite E2. unfold hm_len, SR.lenN, blen. rewrite !app_length. lia. }
  rewrite He0.
  cbn [rev app flat_map SR.filler_spans concat SR.r_x SR.r_p SR.r_q rv map].
  rewrite app_nil_r.
  set (p := len - SR.lenN (marker n)).
  set (cl := (0, hm_len d) :: map span_of locs ++ [(n, p); (p, len)]).
  assert (Hp : n < p /\ p < len) by (unfold p; lia).
  assert (Hcl : chain 0 cl len).
  { unfold cl. constructor; [apply hm_len_pos|]. eapply chain_app.
    - pose proof (located_chain objs (hm_len d)) as Hc. rewrite <- Hn in Hc. exact Hc.
    - constructor; [lia|]. constructor; [lia|]. constructor. }
  assert (Hsort : SR.sort_spans ((0, hm_len d) :: (n, p) :: (p, len) :: map (fun l => (SR.l_off l, SR.l_end l)) locs ++ [(len, len)])
                  = cl ++ [(len, len)]).
  { apply sort_unique.
    - unfold cl. cbn [app]. apply perm_skip. change (fun l => (SR.l_off l, SR.l_end l)) with span_of.
      change ((n, p) :: (p, len) :: map span_of locs ++ [(len, len)])
        with ([(n, p); (p, len)] ++ map span_of locs ++ [(len, len)]).
      rewrite <- app_assoc. rewrite !app_assoc. apply Permutation_app_tail. apply Permutation_app_comm.
    - apply sorted_app; [eapply chain_fleq; exact Hcl | constructor; constructor|].
      intros a b Ha Hb. destruct Hb as [<-|[]]. left. cbn [fst].
      pose proof (chain_bounds _ _ _ Hcl) as Hb. rewrite Forall_forall in Hb. apply (Hb a Ha). }
  rewrite Hsort.
  destruct (tiles_seg cl 0 len (0, 0) [(len, len)] Hcl ltac:(cbn [snd]; lia)) as [Ht _].
  unfold SR.spanT in *. rewrite Ht, tiles_empty. cbn [SR.tiles SR.sbind]. rewrite N.eqb_refl. cbn [negb].
  (* the object map *)
  assert (Hfil : filter (fun l => negb (SR.is_xref_off [rv] (SR.l_off l))) locs = locs).
  { apply filter_all_true. intros a _. reflexivity. }
  cbn [map]. rewrite Hfil. cbn [SR.merge_objects existsb negb].
  rewrite (filter_all_true _ locs) by (intros; reflexivity).
  unfold locs. rewrite (fold_insert_located objs (hm_len d) [] 0 (savable_unskipped d Sv) Hinc (Forall_nil _)).
  cbn [app length]. reflexivity.
Qed.

