(* LoadsObjStmFile.v -- C02 rung 3: the file the reference writer lays out in the cross-reference STREAM format, with
   object streams and Length references, meets the hypotheses of the reader's three passes (Proofs/LoadsLoopProofs.v);
   what load_ext returns for it.  See Proofs/LoadsObjStmProofs.v for the parts about containers and members. *)
From LV Require Import Base.Bytes Base.Sx Model.Obj Model.Writer Model.Parser Model.Xref Model.ObjStm Model.Loader Model.Utf Gen.Lex
  Spec.XrefSpec Spec.RefWriter Proofs.LexProofs Proofs.LoadProofs Proofs.LoadProofsFile Proofs.XrefProofs
  Proofs.XrefTableProofs Proofs.ObjectRtProofs Proofs.SpellingProofs Proofs.SpellingObjProofs Proofs.SpellingFileProofs
  Proofs.LoadsFrameProofs Proofs.LoadsTableProofs Proofs.FilterProofsDict.
From LV Require Proofs.LoadProofsStream.
From LV Require Import Model.LoaderExt Proofs.LoaderExtProofs Proofs.LengthRefProofs.
From LV Require Import Proofs.LoadsFilterProofs Proofs.LoadsStreamProofs Proofs.LoadsRefLenProofs Proofs.LoadsLoopProofs.
From LV Require Import Proofs.ObjStmSpellProofs Proofs.ObjStmFilterProofs Proofs.LoadsObjStmProofs Proofs.ObjStmPredProofs.
From LV Require Model.Png Spec.StreamCodecSpec Model.StreamFilt Gen.SaveFmt.
From Coq Require Import Lia.
Local Open Scope N_scope.

Section GenFile.
  Variable st : fstyle.
  Variable a : adoc.
  Variable x : xsstyle.
  Variable conts : list top.
  Hypothesis Hconts : containers (a_objs a) (s_ostms st) = Some conts.
  (* the filter entries of the cross-reference stream dictionary and the encoded data *)
  Variable fent : dict.
  Variable data : bytes.

  Definition comp : list N := compressed_nums st.
  Definition plain_objs : list (oid * obj) := filter (fun io => negb (mem_N (fst (fst io)) comp)) (a_objs a).
  Definition ptops : list top := map (fun io => (fst io, snd io, find_istyle (s_objs st) (fst (fst io)))) plain_objs.
  Definition gtops : list top := ptops ++ conts.
  Definition gotops : list top := ordered (s_order st) gtops.
  Definition ghdr : bytes := RefWriter.header st (a_version a).
  Definition goffs := offs_of (N.of_nat (length ghdr)) gotops.
  Definition gxpos : N := N.of_nat (length ghdr + length (body_of gotops)).
  Definition cids : list N := map os_id (s_ostms st).
  Definition gxid : N := xs_id x.
  Definition numsG : list N := nums a ++ cids ++ [gxid].
  Definition sizeG : N := 1 + max_num numsG.
  Definition offsG : list (N * N * N) := goffs ++ [(gxid, 0, gxpos)].
  Definition entryG : N -> sentry := entry_of offsG st.
  Definition usedG (n : N) : bool := is_used (entryG n).
  Definition secsG : list (N * N) := use_secs (xs_secs x) sizeG usedG.
  Definition xsecsG : xsections := plain_secs entryG secsG.
  Definition entsG : list sentry := flat_map snd xsecsG.
  Definition gw0 : nat := W0 (fst (fst (xs_w x))) entsG.
  Definition gw1 : nat := W1 (snd (fst (xs_w x))) entsG.
  Definition gw2 : nat := W2 (snd (xs_w x)) entsG.
  Definition rawG : bytes := enc_sections gw0 gw1 gw2 xsecsG.
  Definition idx_partG : dict :=
    match secsG with
    | [(0, c)] => if xs_omit_index x && (c =? sizeG) then [] else [(bs "Index", index_array xsecsG)]
    | _ => [(bs "Index", index_array xsecsG)]
    end.
  Definition xdG_of (fent : dict) (data : bytes) : dict :=
    [(bs "Type", OName (bs "XRef")); (RefWriter.K_Size, OInt (Z.of_N sizeG));
     (bs "W", OArr [OInt (Z.of_nat gw0); OInt (Z.of_nat gw1); OInt (Z.of_nat gw2)])] ++
    idx_partG ++ a_trailer a ++ fent ++ [(RefWriter.K_Length, OInt (Z.of_nat (length data)))].
  Definition xdG : dict := xdG_of fent data.
  Definition xobj_textG (d : dict) (data : bytes) : bytes :=
    w_indirect gxid 0 (OStream d data) (xs_istyle x) ++ gap_bytes (i_gap (xs_istyle x)).
  Definition TAILG : bytes := xobj_textG xdG data ++ startxref_text st gxpos.
  Definition FG : bytes := ghdr ++ body_of gotops ++ TAILG.

  Definition itemsof (s : ostm) : list ositem :=
    match os_build (a_objs a) (os_members s) (os_items s) true with Some it => it | None => [] end.

  (* what the theorem asks of a container: members that can be spelled (rung 2's domain), sizes lopdf's types hold
     (the index of a member in its container is a u16, offsets u32 -- the payload with the spaces a predictor's rows may
     add --, a predictor's row width a machine integer) *)
  Definition cont_ok (s : ostm) : Prop :=
    os_members s <> [] /\ N.of_nat (length (os_members s)) <= 65536 /\
    Forall (fun oy => mem_ok (fst oy) (snd oy)) (os_pairs (a_objs a) (os_members s) (os_items s)) /\
    N.of_nat (length (flat_map oi_text (itemsof s)) + pad_max (os_filter s)) <= u32_max /\ pred_row_ok (os_filter s) /\
    spell_wf (ODict (dC s (itemsof s))) (i_obj (os_istyle s)) /\ (nest (ODict (dC s (itemsof s))) <= MAX_DEPTH)%nat.

  (* the domain *)
  Hypothesis Hnd : NoDup numsG.
  Hypothesis H0 : ~ In 0 numsG.
  Hypothesis Hcnd : NoDup comp.
  Hypothesis Hptops : Forall (top_ok2 a) ptops.
  Hypothesis Hcont : Forall cont_ok (s_ostms st).
  Hypothesis Hver : no_eolb (a_version a) = true /\ utf8_decode (a_version a) <> None.
  Hypothesis Hjunk : contains (bs "%PDF-") (s_junk st) = false.
  Hypothesis Hxd : spell_wf (ODict xdG) (i_obj (xs_istyle x)) /\ (nest (ODict xdG) <= MAX_DEPTH)%nat /\
                   dict_get (a_trailer a) K_Prev = None /\ dict_get (a_trailer a) K_Encrypt = None /\
                   dict_get (a_trailer a) K_Filter = None /\ dict_get (a_trailer a) Xref.K_Index = None.
  Hypothesis Hfent : forall k, k <> K_Filter -> k <> K_DecodeParms -> dict_get fent k = None.
  Hypothesis Hsmall : gxpos <= u32_max /\ sizeG <= u32_max /\ 25 < gxpos.
  Hypothesis Hsx : (9 + length (sx_mid (s_sx_eol1 st) (s_sx_sp1 st) gxpos (s_sx_sp2 st) (s_sx_eol2 st)) <= 25)%nat.

  (* ---------- numbers ---------- *)
  Lemma nd_numsG : NoDup (nums a).
  Proof. unfold numsG in Hnd. apply (NoDup_app_l _ _ Hnd). Qed.

  Lemma nd_cids : NoDup cids.
  Proof. unfold numsG in Hnd. apply NoDup_app_r in Hnd. apply (NoDup_app_l _ _ Hnd). Qed.

  Lemma cid_fresh c : In c cids -> ~ In c (nums a).
  Proof. intros Hc K. apply (NoDup_app_common _ _ Hnd c K). apply in_or_app. left. exact Hc. Qed.

  Lemma gxid_fresh : ~ In gxid (nums a) /\ ~ In gxid cids.
  Proof.
    split.
    - intro K. apply (NoDup_app_common _ _ Hnd gxid K). apply in_or_app. right. left. reflexivity.
    - intro K. unfold numsG in Hnd. apply NoDup_app_r in Hnd. apply (NoDup_app_common _ _ Hnd gxid K). left. reflexivity.
  Qed.

  Lemma numG_bounds n : In n numsG -> 1 <= n /\ n <= max_num numsG.
  Proof.
    intro H. split; [|apply max_num_ge; exact H].
    assert (n <> 0) by (intro E; subst n; apply H0; exact H). lia.
  Qed.

  Lemma gxid_pos : 1 <= gxid /\ gxid <= max_num numsG.
  Proof. apply numG_bounds. unfold numsG. apply in_or_app. right. apply in_or_app. right. left. reflexivity. Qed.

  Lemma conts_spec : Forall2 (cont_top (a_objs a)) (s_ostms st) conts.
  Proof. apply containers_spec. exact Hconts. Qed.

  Lemma conts_nums : map top_num conts = cids.
  Proof.
    unfold cids. apply (cont_top_nums (a_objs a)). exact conts_spec.
  Qed.

  Lemma ptops_nums : map top_num ptops = map (fun io : oid * obj => fst (fst io)) plain_objs.
  Proof. unfold ptops. rewrite map_map. reflexivity. Qed.

  Lemma plain_sub n : In n (map (fun io : oid * obj => fst (fst io)) plain_objs) -> In n (nums a) /\ mem_N n comp = false.
  Proof.
    intro H. apply in_map_iff in H as [io [E Hin]]. unfold plain_objs in Hin. apply filter_In in Hin as [H1 H2].
    subst n. split; [unfold nums; apply in_map_iff; exists io; split; [reflexivity|exact H1]|apply negb_true_iff; exact H2].
  Qed.

  Lemma gtops_nodup : NoDup (map top_num gtops).
  Proof.
    unfold gtops. rewrite map_app, ptops_nums, conts_nums. apply NoDup_app_disj.
    - unfold plain_objs. apply NoDup_map_filter. exact nd_numsG.
    - exact nd_cids.
    - intros n H1 H2. apply plain_sub in H1 as [H1 _]. exact (cid_fresh n H2 H1).
  Qed.

  Lemma otopG_in tp : In tp gotops <-> In tp gtops.
  Proof. apply ordered_In. Qed.

  Lemma otopG_unique tp tp' : In tp gotops -> In tp' gotops -> top_num tp = top_num tp' -> tp = tp'.
  Proof.
    intros H1 H2 E. apply (unique_by_key top_num gtops); [exact gtops_nodup|apply otopG_in; exact H1|apply otopG_in; exact H2|exact E].
  Qed.

  Lemma gtop_kind tp : In tp gtops -> In tp ptops \/ exists s, In s (s_ostms st) /\ cont_top (a_objs a) s tp.
  Proof.
    intro H. unfold gtops in H. apply in_app_or in H as [H|H]; [left; exact H|right].
    destruct (Forall2_In_r _ _ _ tp conts_spec H) as [s [Hs Hc]]. exists s. split; assumption.
  Qed.

  Lemma gtop_num tp : In tp gtops -> In (top_num tp) numsG /\ (In tp ptops -> mem_N (top_num tp) comp = false).
  Proof.
    intro H. split.
    - unfold gtops in H. apply in_app_or in H as [H|H].
      + unfold numsG. apply in_or_app. left. apply (plain_sub (top_num tp)). rewrite <- ptops_nums. apply in_map. exact H.
      + unfold numsG. apply in_or_app. right. apply in_or_app. left. rewrite <- conts_nums. apply in_map. exact H.
    - intro Hp. apply (plain_sub (top_num tp)). rewrite <- ptops_nums. apply in_map. exact Hp.
  Qed.

  Lemma otopG_bounds tp : In tp gotops -> 1 <= top_num tp /\ top_num tp <= max_num numsG.
  Proof. intro H. apply otopG_in in H. apply numG_bounds. apply (gtop_num tp H). Qed.

  Lemma cont_build s : In s (s_ostms st) -> os_build (a_objs a) (os_members s) (os_items s) true = Some (itemsof s).
  Proof.
    intro Hs. destruct (Forall2_In_l _ _ _ s conts_spec Hs) as [tp [_ [o [Ho _]]]].
    destruct (os_object_items _ _ _ Ho) as [items E]. unfold itemsof. rewrite E. reflexivity.
  Qed.

  Lemma cont_is_ok s : In s (s_ostms st) -> cont_ok s.
  Proof. intro Hs. exact (proj1 (Forall_forall _ _) Hcont s Hs). Qed.

  Lemma comp_member s n : In s (s_ostms st) -> In n (os_members s) -> In n comp.
  Proof. intros Hs Hn. unfold comp, compressed_nums. apply in_flat_map. exists s. split; assumption. Qed.

  Lemma mem_N_In n l : mem_N n l = true <-> In n l.
  Proof.
    unfold mem_N. rewrite existsb_exists. split.
    - intros [y [Hy E]]. apply N.eqb_eq in E. subst y. exact Hy.
    - intro H. exists n. split; [exact H|apply N.eqb_refl].
  Qed.

  (* a member: a generation-0 object of the document that is not at the top level *)
  Lemma member_facts s n : In s (s_ostms st) -> In n (os_members s) ->
    (exists o, find_obj (a_objs a) n = Some (0, o) /\ In ((n, 0), o) (a_objs a)) /\
    In n (nums a) /\ ~ In n (map top_num gotops) /\ n <> gxid /\ 1 <= n /\ n <= max_num numsG.
  Proof.
    intros Hs Hn.
    destruct (os_build_find _ _ _ _ _ (cont_build s Hs) n Hn) as [o Ef].
    pose proof (find_obj_In _ _ _ _ Ef) as Hin.
    assert (Hnum : In n (nums a)) by (unfold nums; apply in_map_iff; exists ((n, 0), o); split; [reflexivity|exact Hin]).
    assert (HnG : In n numsG) by (unfold numsG; apply in_or_app; left; exact Hnum).
    split; [exists o; split; assumption|]. split; [exact Hnum|]. split; [|split; [|apply numG_bounds; exact HnG]].
    - intro K. apply in_map_iff in K as [tp [E Htp]]. apply otopG_in in Htp. subst n.
      destruct (gtop_kind tp Htp) as [Hp|[s' [Hs' [o' [_ ->]]]]].
      + pose proof (proj2 (gtop_num tp Htp) Hp) as Hm.
        assert (Hc : mem_N (top_num tp) comp = true) by (apply mem_N_In; apply (comp_member s _ Hs Hn)). congruence.
      + unfold top_num in Hnum. cbn [fst] in Hnum. apply (cid_fresh (os_id s')); [unfold cids; apply in_map; exact Hs'|exact Hnum].
    - intro K. subst n. exact (proj1 gxid_fresh Hnum).
  Qed.

  (* ---------- what the file says about a number ---------- *)
  Lemma entryG_inuse n off g : entryG n = SInUse off g ->
    (exists pre tp post, gotops = pre ++ tp :: post /\ fst (fst tp) = (n, g) /\
                         off = N.of_nat (length ghdr) + N.of_nat (length (body_of pre))) \/
    (n = gxid /\ g = 0 /\ off = gxpos).
  Proof.
    unfold entryG, entry_of, offsG. destruct (n =? 0); [discriminate|]. rewrite find_off_app.
    destruct (find_off goffs n) as [[g0 p0]|] eqn:Ef.
    - intro H. inversion H; subst. left. apply find_off_In in Ef. unfold goffs in Ef.
      destruct (offs_of_In _ _ _ _ _ Ef) as [pre [o [y [post [E Ep]]]]]. exists pre, ((n, g), o, y), post. auto.
    - cbn [find_off]. destruct (gxid =? n) eqn:Ex.
      + intro H. inversion H; subst. right. apply N.eqb_eq in Ex. auto.
      + destruct (find_comp (s_ostms st) n) as [[c k]|]; discriminate.
  Qed.

  Lemma entryG_comp n c i : entryG n = SComp c i ->
    exists s, In s (s_ostms st) /\ c = os_id s /\ In n (os_members s) /\ i < N.of_nat (length (os_members s)).
  Proof.
    unfold entryG, entry_of, offsG. destruct (n =? 0); [discriminate|]. rewrite find_off_app.
    destruct (find_off goffs n) as [[g0 p0]|]; [discriminate|]. cbn [find_off]. destruct (gxid =? n); [discriminate|].
    destruct (find_comp (s_ostms st) n) as [[c0 k]|] eqn:Ec; [|discriminate]. intro H. inversion H; subst.
    apply find_comp_In. exact Ec.
  Qed.

  Lemma entryG_free n nx g : entryG n = SFree nx g -> nx = 0 /\ g <= 65535.
  Proof.
    unfold entryG, entry_of, offsG. destruct (n =? 0); [intro H; inversion H; subst; lia|]. rewrite find_off_app.
    destruct (find_off goffs n) as [[g0 p0]|]; [discriminate|]. cbn [find_off].
    destruct (gxid =? n); [discriminate|]. destruct (find_comp (s_ostms st) n) as [[c0 k]|]; [discriminate|].
    intro H. inversion H; subst. lia.
  Qed.

  Lemma gxid_not_top : ~ In gxid (map top_num gotops).
  Proof.
    intro K. apply in_map_iff in K as [tp [E Hin]]. apply otopG_in in Hin. unfold gtops in Hin. destruct gxid_fresh as [F1 F2].
    apply in_app_or in Hin as [Hin|Hin].
    - apply F1. apply (plain_sub gxid). rewrite <- ptops_nums, <- E. apply in_map. exact Hin.
    - apply F2. rewrite <- conts_nums, <- E. apply in_map. exact Hin.
  Qed.

  Lemma entryG_xid : entryG gxid = SInUse gxpos 0.
  Proof.
    unfold entryG, entry_of, offsG. destruct gxid_pos as [H1 _].
    replace (gxid =? 0) with false by (symmetry; apply N.eqb_neq; lia). rewrite find_off_app.
    unfold goffs. rewrite (find_off_none _ _ _ gxid_not_top).
    cbn [find_off]. rewrite N.eqb_refl. reflexivity.
  Qed.

  Lemma entryG_of_top tp : In tp gotops -> exists off, entryG (top_num tp) = SInUse off (snd (fst (fst tp))).
  Proof.
    intro H. destruct (otopG_bounds tp H) as [H1 _].
    destruct (find_off_exists gotops (N.of_nat (length ghdr)) tp H) as [g [p Ef]].
    assert (En : entryG (top_num tp) = SInUse p g).
    { unfold entryG, entry_of, offsG. replace (top_num tp =? 0) with false by (symmetry; apply N.eqb_neq; lia).
      rewrite find_off_app. unfold goffs. rewrite Ef. reflexivity. }
    destruct (entryG_inuse _ _ _ En) as [[pre [tp' [post [E [Ek _]]]]]|[Ex _]].
    - assert (tp' = tp).
      { apply otopG_unique; [rewrite E; apply in_or_app; right; left; reflexivity|exact H|]. unfold top_num. rewrite Ek. reflexivity. }
      subst tp'. exists p. rewrite Ek. cbn [snd]. exact En.
    - exfalso. apply gxid_not_top. rewrite <- Ex. apply in_map. exact H.
  Qed.

  Lemma entryG_member s n : In s (s_ostms st) -> In n (os_members s) -> exists i, entryG n = SComp (os_id s) i.
  Proof.
    intros Hs Hn. destruct (member_facts s n Hs Hn) as [_ [_ [Hnt [Hx [H1 _]]]]].
    destruct (find_comp_member (s_ostms st) s n Hcnd Hs Hn) as [i Ec]. exists i.
    unfold entryG, entry_of, offsG. replace (n =? 0) with false by (symmetry; apply N.eqb_neq; lia).
    rewrite find_off_app. unfold goffs. rewrite (find_off_none _ _ _ Hnt). cbn [find_off].
    replace (gxid =? n) with false by (symmetry; apply N.eqb_neq; intro K; apply Hx; symmetry; exact K).
    rewrite Ec. reflexivity.
  Qed.

  Lemma sizeG_ge : 1 <= sizeG. Proof. unfold sizeG. lia. Qed.
  Lemma secsG_good : secs_good secsG sizeG usedG. Proof. apply use_secs_good, sizeG_ge. Qed.

  Definition numbG := map (fun k => (k, entryG k)) (keys_of secsG).
  Lemma numberedG_eq : numbered xsecsG = numbG. Proof. apply numbered_plain. Qed.
  Lemma numbG_keys_nodup : NoDup (map fst numbG).
  Proof.
    unfold numbG. rewrite map_map. cbn [fst]. rewrite map_id.
    destruct secsG_good as [H _]. apply (keys_increasing secsG 0 H).
  Qed.

  Lemma entsG_in e : In e entsG -> exists k, In k (keys_of secsG) /\ e = entryG k.
  Proof.
    unfold entsG, xsecsG, plain_secs. rewrite flat_map_concat_map, map_map. cbn [snd]. rewrite <- flat_map_concat_map.
    intro H. apply in_flat_map in H as [[f c] [H1 H2]]. apply in_map_iff in H2 as [k [<- Hk]].
    exists k. split; [|reflexivity]. unfold keys_of. apply in_flat_map. exists (f, c). split; [exact H1|exact Hk].
  Qed.

  (* a number in use below Size is listed *)
  Lemma used_key n : n <= max_num numsG -> usedG n = true -> In n (keys_of secsG).
  Proof. intros Hn Hu. apply keys_of_In. destruct secsG_good as [_ [Hc _]]. apply Hc; [unfold sizeG; lia|exact Hu]. Qed.

  Lemma gxid_key : In gxid (keys_of secsG).
  Proof. apply used_key; [apply gxid_pos|]. unfold usedG. rewrite entryG_xid. reflexivity. Qed.

  Lemma entsG_xid : In (SInUse gxpos 0) entsG.
  Proof.
    unfold entsG, xsecsG, plain_secs. rewrite flat_map_concat_map, map_map. cbn [snd]. rewrite <- flat_map_concat_map.
    pose proof gxid_key as K. unfold keys_of in K. apply in_flat_map in K as [[f c] [K1 K2]].
    apply in_flat_map. exists (f, c). split; [exact K1|]. rewrite <- entryG_xid. apply in_map. exact K2.
  Qed.

  Lemma gtop_gen tp : In tp gtops -> snd (fst (fst tp)) <= u16_max.
  Proof.
    intro H. destruct (gtop_kind tp H) as [Hp|[s [_ [o [_ ->]]]]]; [|cbn [fst snd]; unfold u16_max; lia].
    pose proof (proj1 (Forall_forall _ _) Hptops tp Hp) as Hk. destruct tp as [[[i g] o] y]. cbn in Hk. cbn [fst snd]. tauto.
  Qed.

  Lemma entryG_range k : a_of (entryG k) < two32 /\ b_of (entryG k) < 65536 /\ entry_in_range (entryG k).
  Proof.
    destruct Hsmall as [Hx [Hs _]].
    destruct (entryG k) as [nx g|off g|c i] eqn:E.
    - destruct (entryG_free _ _ _ E) as [-> Hg]. cbn. unfold two32. repeat split; lia.
    - cbn [a_of b_of entry_fields fst snd entry_in_range].
      destruct (entryG_inuse _ _ _ E) as [[pre [tp [post [Eo [Ek Ep]]]]]|[_ [-> ->]]].
      + assert (Hin : In tp gotops) by (rewrite Eo; apply in_or_app; right; left; reflexivity).
        pose proof (gtop_gen tp (proj1 (otopG_in tp) Hin)) as Hg. rewrite Ek in Hg. cbn [snd] in Hg.
        unfold u16_max in Hg. unfold u32_max, two32 in *.
        unfold gxpos in Hx. rewrite Eo, body_of_app, app_length in Hx. repeat split; lia.
      + unfold u32_max, two32 in *. repeat split; lia.
    - destruct (entryG_comp _ _ _ E) as [s [Hs' [-> [Hn Hi]]]].
      destruct (cont_is_ok s Hs') as [_ [Hl _]].
      assert (Hc : os_id s <= max_num numsG).
      { apply numG_bounds. unfold numsG. apply in_or_app. right. apply in_or_app. left. unfold cids. apply in_map. exact Hs'. }
      cbn [a_of b_of entry_fields fst snd entry_in_range]. unfold sizeG, u32_max, two32 in *. repeat split; lia.
  Qed.

  Lemma widthsG_sum : (1 <= gw0 + gw1 + gw2)%nat.
  Proof.
    unfold gw0, gw1, gw2. apply (widths_pos _ _ _ entsG (SInUse gxpos 0) entsG_xid).
    - cbn [a_of entry_fields fst snd]. destruct Hsmall as [_ [_ H]]. lia.
    - cbn [a_of entry_fields fst snd]. destruct Hsmall as [H _]. unfold u32_max, two32 in *. lia.
    - intros e He. destruct (entsG_in e He) as [k [_ ->]]. apply entryG_range.
  Qed.

  Lemma xsecsG_ok : Forall (sec_ok gw0 gw1 gw2) xsecsG.
  Proof.
    assert (Hw : Forall (entry_ok gw0 gw1 gw2) entsG).
    { apply widths_ok. intros e He. destruct (entsG_in e He) as [k [_ ->]]. destruct (entryG_range k) as [A [B _]]. auto. }
    rewrite Forall_forall in Hw.
    apply Forall_forall. intros [f es] Hin. unfold xsecsG, plain_secs in Hin. apply in_map_iff in Hin as [[f0 c] [E Hfc]].
    cbn [fst snd] in E. inversion E; subst f es. clear E.
    assert (Hsub : forall e, In e (map entryG (range_N f0 (N.to_nat c))) -> In e entsG).
    { intros e He. unfold entsG, xsecsG, plain_secs. rewrite flat_map_concat_map, map_map. cbn [snd]. rewrite <- flat_map_concat_map.
      apply in_flat_map. exists (f0, c). split; [exact Hfc|exact He]. }
    unfold sec_ok. cbn [fst snd]. split; [|split].
    - apply Forall_forall. intros e He. apply Hw, Hsub, He.
    - apply Forall_forall. intros e He. apply in_map_iff in He as [k [<- _]]. apply entryG_range.
    - rewrite map_length, range_N_length, N2Nat.id. destruct secsG_good as [_ [_ H]]. destruct (H _ _ Hfc) as [_ K].
      destruct Hsmall as [_ [Hs _]]. unfold u32_max, two32 in *. lia.
  Qed.

  (* ---------- the dictionary of the cross-reference stream, as written and as read back ---------- *)
  Definition ystsG := dict_sts (i_obj (xs_istyle x)).
  Definition ddG : dict := denote_dict xdG ystsG.
  Definition gd1 : dict := dict_set ddG K_Length (OInt (Z.of_nat (length data))).
  Definition x0G : xref := {| x_type := XTStream; x_entries := spec_map numbG; x_size := i64_as_u32 (Z.of_N sizeG) |}.

  Lemma xdG_wf : dict_wf xdG.
  Proof. destruct Hxd as [Hw _]. apply spell_wf_dict in Hw. exact (proj1 Hw). Qed.

  Lemma ddG_wf : dict_wf ddG.
  Proof. unfold dict_wf, keys, ddG. rewrite denote_dict_keys. exact xdG_wf. Qed.

  Lemma gd1_wf : dict_wf gd1. Proof. apply dict_set_wf, ddG_wf. Qed.

  Lemma xdG_get_length : dict_get xdG K_Length = Some (OInt (Z.of_nat (length data))).
  Proof.
    apply (dict_get_In xdG _ _ xdG_wf). unfold xdG, xdG_of. apply in_or_app. right. apply in_or_app. right.
    apply in_or_app. right. apply in_or_app. right. left. reflexivity.
  Qed.

  Lemma xdG_get_size : dict_get xdG Xref.K_Size = Some (OInt (Z.of_N sizeG)). Proof. reflexivity. Qed.
  Lemma xdG_get_w : dict_get xdG Xref.K_W = Some (OArr [OInt (Z.of_nat gw0); OInt (Z.of_nat gw1); OInt (Z.of_nat gw2)]).
  Proof. reflexivity. Qed.
  Lemma xdG_get_type : dict_get xdG K_Type = Some (OName (bs "XRef")). Proof. reflexivity. Qed.

  Lemma dict_get_cons_neG k0 (v : obj) (d : dict) k : bytes_eqb k0 k = false -> dict_get ((k0, v) :: d) k = dict_get d k.
  Proof. intro E. cbn [dict_get]. rewrite E. reflexivity. Qed.

  Lemma dict_get_appG (d e : dict) k :
    dict_get (d ++ e) k = match dict_get d k with Some v => Some v | None => dict_get e k end.
  Proof. induction d as [|[k0 v0] d IH]; cbn [app dict_get]; [reflexivity|]. destruct (bytes_eqb k0 k); [reflexivity|exact IH]. Qed.

  Lemma idx_partG_cases : idx_partG = [(bs "Index", index_array xsecsG)] \/ (idx_partG = [] /\ secsG = [(0, sizeG)]).
  Proof.
    unfold idx_partG. destruct secsG as [|[f c] l]; [left; reflexivity|]. destruct l as [|p l]; [|destruct f; left; reflexivity].
    destruct f as [|f]; [|left; reflexivity].
    destruct (xs_omit_index x && (c =? sizeG)) eqn:Eo; [|left; reflexivity].
    right. apply andb_true_iff in Eo as [_ Ec]. apply N.eqb_eq in Ec. subst c. split; reflexivity.
  Qed.

  Lemma xdG_get_other k :
    bytes_eqb (bs "Type") k = false -> bytes_eqb RefWriter.K_Size k = false -> bytes_eqb (bs "W") k = false ->
    bytes_eqb (bs "Index") k = false -> bytes_eqb RefWriter.K_Length k = false -> dict_get fent k = None ->
    dict_get xdG k = dict_get (a_trailer a) k.
  Proof.
    intros E1 E2 E3 E4 E5 Hfk. unfold xdG, xdG_of. cbn [app dict_get]. rewrite E1, E2, E3.
    rewrite !dict_get_appG.
    assert (Hi : dict_get idx_partG k = None).
    { destruct idx_partG_cases as [->|[-> _]]; [cbn [dict_get]; rewrite E4; reflexivity|reflexivity]. }
    rewrite Hi. destruct (dict_get (a_trailer a) k); [reflexivity|]. rewrite Hfk. cbn [dict_get]. rewrite E5. reflexivity.
  Qed.

  Lemma gd1_get k : k <> K_Length -> dict_get gd1 k = dict_get ddG k.
  Proof. intro H. unfold gd1. apply dict_get_set_other. exact H. Qed.

  Lemma gd1_none k : k <> K_Length -> dict_get xdG k = None -> dict_get gd1 k = None.
  Proof. intros H1 H2. rewrite (gd1_get k H1). apply dict_get_denote_none. exact H2. Qed.

  (* ---------- the cross-reference section ---------- *)
  Lemma xobjG_parse post :
    indirect_object (xobj_textG xdG data ++ post) None = IOk (gxid, 0) (stream_new ddG data).
  Proof.
    unfold xobj_textG. rewrite <- app_assoc. destruct Hxd as [Hw [Hn _]].
    apply indirect_stream_any_spelling; [|unfold u16_max; lia|exact Hw|exact Hn|exact xdG_get_length].
    destruct gxid_pos as [_ Hm]. destruct Hsmall as [_ [Hs _]]. unfold sizeG in Hs. lia.
  Qed.

  Lemma xobjG_not_table post : xref_and_trailer_table (xobj_textG xdG data ++ post) = XNoMatch.
  Proof.
    unfold xobj_textG. rewrite <- app_assoc. destruct Hxd as [Hw _].
    rewrite (w_indirect_stream_text gxid 0 xdG data (xs_istyle x) _ Hw). unfold head_text. cbv zeta.
    rewrite <- ?app_assoc. unfold xref_and_trailer_table. rewrite LoadProofsStream.xref_table_number. reflexivity.
  Qed.

  Lemma FG_split : FG = (ghdr ++ body_of gotops) ++ TAILG.
  Proof. unfold FG. rewrite <- app_assoc. reflexivity. Qed.

  Lemma blen_frontG : blen (ghdr ++ body_of gotops) = gxpos.
  Proof. unfold blen, gxpos. rewrite app_length. reflexivity. Qed.

  Lemma from_gxpos : from gxpos FG = TAILG.
  Proof. rewrite FG_split, <- blen_frontG. apply from_app. Qed.

  (* ---------- the entries ---------- *)
  Definition EG (n : N) : option xentry := entry_meaning (entryG n).

  Lemma entries_funG n e : In (n, e) (x_entries x0G) -> EG n = Some e.
  Proof.
    intro H. cbn [x_entries x0G] in H. unfold spec_map in H.
    destruct (spec_map_sound _ _ _ _ H) as [[]|[se [K1 K2]]].
    unfold numbG in K1. apply in_map_iff in K1 as [k [Ek _]]. inversion Ek; subst. exact K2.
  Qed.

  Lemma xgetG k : In k (keys_of secsG) -> xget (x_entries x0G) k = EG k.
  Proof.
    intro Hk. cbn [x_entries x0G]. apply (xget_spec_map numbG k (entryG k) numbG_keys_nodup).
    unfold numbG. apply in_map_iff. exists k. split; [reflexivity|exact Hk].
  Qed.

  Lemma entry_keyG n e : In (n, e) (x_entries x0G) -> In n (keys_of secsG).
  Proof.
    intro H. cbn [x_entries x0G] in H. unfold spec_map in H.
    destruct (spec_map_sound _ _ _ _ H) as [[]|[se [K1 _]]].
    unfold numbG in K1. apply in_map_iff in K1 as [k [Ek Hk]]. inversion Ek; subst. exact Hk.
  Qed.

  Lemma x0G_keys_nodup : NoDup (map fst (x_entries x0G)).
  Proof. apply (xinc_nodup _ 0). cbn [x_entries x0G]. unfold spec_map. apply spec_map_inc. exact I. Qed.

  Lemma max_id_smallG : xref_max_id x0G < u32_max.
  Proof.
    unfold xref_max_id. apply N.le_lt_trans with (m := max_num numsG).
    - apply max_id_le; [lia|]. intros k v H. pose proof (entries_funG _ _ H) as En. unfold EG in En.
      destruct (entryG k) as [a0 b0|off g|c i] eqn:Ee; cbn [entry_meaning] in En; try discriminate En.
      + destruct (entryG_inuse _ _ _ Ee) as [[pre [tp [post [Eo [Ek _]]]]]|[-> _]].
        * assert (Hin : In tp gotops) by (rewrite Eo; apply in_or_app; right; left; reflexivity).
          destruct (otopG_bounds tp Hin) as [_ H2]. unfold top_num in H2. rewrite Ek in H2. exact H2.
        * apply gxid_pos.
      + destruct (entryG_comp _ _ _ Ee) as [s [Hs [_ [Hn _]]]]. apply (member_facts s k Hs Hn).
    - destruct Hsmall as [_ [Hs _]]. unfold sizeG in Hs. lia.
  Qed.

  Lemma frame_factsG :
    pdf_offset (s_junk st ++ FG) = blen (s_junk st) /\ Loader.header FG = Some (a_version a) /\
    get_xref_start FG = Some gxpos.
  Proof.
    assert (Hhdr : exists rest, FG = bs "%PDF-" ++ a_version a ++ eol_bytes (s_hdr_eol st) ++ rest).
    { unfold FG, ghdr, RefWriter.header. rewrite <- !app_assoc. eexists. reflexivity. }
    destruct Hhdr as [rest Er]. destruct Hsmall as [Hx [Hs H25]].
    split; [rewrite Er; apply pdf_offset_junk; exact Hjunk|].
    split; [rewrite Er; apply header_any_eol; apply Hver|].
    rewrite FG_split. unfold TAILG. rewrite app_assoc, startxref_text_block. rewrite <- blen_frontG at 2.
    pose proof blen_frontG as B. unfold blen in B. rewrite app_length in B.
    replace (blen (ghdr ++ body_of gotops)) with gxpos by (symmetry; exact blen_frontG).
    apply get_xref_start_styled; [|unfold blen in *; rewrite !app_length in *; lia
                                  |unfold u32_max in Hx; lia|exact Hsx].
    unfold blen. rewrite !app_length. lia.
  Qed.

  (* the decoding of the section from the dictionary [dx] the decoder sees and the raw data *)
  Lemma decode_fromG (dx : dict) :
    dict_get dx Xref.K_Size = Some (OInt (Z.of_N sizeG)) ->
    dict_get dx Xref.K_W = Some (OArr [OInt (Z.of_nat gw0); OInt (Z.of_nat gw1); OInt (Z.of_nat gw2)]) ->
    dict_get dx Xref.K_Index = dict_get gd1 Xref.K_Index ->
    decode_xref_plain dx rawG = XOk (x0G, LoadProofsStream.sr3 dx).
  Proof.
    intros HS HW HI.
    unfold x0G, LoadProofsStream.sr3. rewrite <- numberedG_eq.
    pose proof idx_partG_cases as Hidx.
    destruct Hidx as [Hi|[Hi Hsec]].
    - apply xref_stream_any_W_Index; [exact widthsG_sum|exact xsecsG_ok|exact HS|exact HW|].
      rewrite HI. rewrite gd1_get by discriminate.
      pose proof (index_array_ints xsecsG) as Hp. destruct (index_array xsecsG) as [| | | | | |l| | |] eqn:Ei; try contradiction.
      apply dict_get_denote_arr; [|exact Hp].
      apply (dict_get_In xdG _ _ xdG_wf). unfold xdG, xdG_of. rewrite Hi.
      apply in_or_app. right. apply in_or_app. left. left. reflexivity.
    - assert (Ex : xsecsG = [(0, map entryG (range_N 0 (N.to_nat sizeG)))]).
      { unfold xsecsG, plain_secs. rewrite Hsec. reflexivity. }
      assert (El : Z.of_nat (length (map entryG (range_N 0 (N.to_nat sizeG)))) = Z.of_N sizeG).
      { rewrite map_length, range_N_length. apply N_nat_Z. }
      pose proof xsecsG_ok as Hok. unfold rawG. rewrite Ex in *. inversion Hok as [|? ? Hs0 _]; subst.
      rewrite <- El. rewrite <- El in HS.
      apply xref_stream_default_Index; [exact widthsG_sum|exact Hs0|exact HS|exact HW|].
      rewrite HI. apply gd1_none; [discriminate|].
      unfold xdG, xdG_of. rewrite Hi. cbn [app].
      rewrite !dict_get_cons_neG by reflexivity. rewrite !dict_get_appG.
      replace (dict_get (a_trailer a) Xref.K_Index) with (@None obj) by (symmetry; apply Hxd).
      rewrite Hfent by discriminate. reflexivity.
  Qed.

  Lemma gd1_size : dict_get gd1 Xref.K_Size = Some (OInt (Z.of_N sizeG)).
  Proof. rewrite gd1_get by discriminate. apply dict_get_denote. exact xdG_get_size. Qed.
  Lemma gd1_w : dict_get gd1 Xref.K_W = Some (OArr [OInt (Z.of_nat gw0); OInt (Z.of_nat gw1); OInt (Z.of_nat gw2)]).
  Proof. rewrite gd1_get by discriminate. apply dict_get_denote_arr; [exact xdG_get_w|exact I]. Qed.

  Lemma gd1_absent k :
    bytes_eqb (bs "Type") k = false -> bytes_eqb RefWriter.K_Size k = false -> bytes_eqb (bs "W") k = false ->
    bytes_eqb (bs "Index") k = false -> bytes_eqb RefWriter.K_Length k = false ->
    k <> K_Filter -> k <> K_DecodeParms -> dict_get (a_trailer a) k = None -> dict_get gd1 k = None.
  Proof.
    intros E1 E2 E3 E4 E5 N1 N2 Ht. apply gd1_none.
    - intro K. subst k. rewrite bytes_eqb_refl in E5. discriminate E5.
    - rewrite xdG_get_other by (try assumption; apply Hfent; assumption). exact Ht.
  Qed.

  Lemma xobjG_no_objstm : no_objstm (stream_new ddG data).
  Proof.
    unfold stream_new, no_objstm, has_type. fold gd1. rewrite gd1_get by discriminate.
    unfold ddG. rewrite (dict_get_denote_name xdG ystsG K_Type _ xdG_get_type). reflexivity.
  Qed.

  (* ---------- what the first pass finds at every entry in use ---------- *)
  Definition cstsG (s : ostm) := dict_sts (i_obj (os_istyle s)).
  Definition cont_loaded (s : ostm) : obj :=
    let r := objstm_new decompress_ref (D s (itemsof s) (cstsG s)) (fst (enc s (itemsof s))) in
    OStream (fst (fst r)) (snd (fst r)).
  Definition find_cont (n : N) : option ostm := find (fun s => os_id s =? n) (s_ostms st).
  Definition memfG (n : N) : option objmap :=
    match find_cont n with Some s => Some (members_val (a_objs a) s (itemsof s)) | None => None end.
  (* a stream whose Length refers to an object kept in an object stream: the reader cannot have it while parsing *)
  Definition deferred (tp : top) : bool :=
    match snd (fst tp) with
    | OStream d _ => match dict_get d K_Length with Some (ORef li _) => mem_N li comp | _ => false end
    | _ => false
    end.
  Definition first_top (tp : top) : obj :=
    match snd (fst tp) with
    | OStream d c => if deferred tp then OStream (denote_dict d (dict_sts (i_obj (snd tp)))) [] else loaded_top tp
    | _ => loaded_top tp
    end.
  Definition find_top (n : N) : option top := find (fun tp => top_num tp =? n) gotops.
  Definition objfG (n g : N) : obj :=
    if n =? gxid then stream_new ddG data
    else match find_cont n with
         | Some s => cont_loaded s
         | None => match find_top n with Some tp => first_top tp | None => ONull end
         end.
  Definition XG : xmap := x_entries x0G.
  Definition posfG (n g : N) : option N :=
    match xget XG n with
    | Some (XNormal off _) => match indirect_x FG XG (from off FG) None with IxOk _ _ pos => pos | _ => None end
    | _ => None
    end.
  Definition fullG (id : oid) : obj := match find_top (fst id) with Some tp => loaded_top tp | None => ONull end.

  Lemma find_cont_in s : In s (s_ostms st) -> find_cont (os_id s) = Some s.
  Proof.
    intro Hs. unfold find_cont. destruct (find (fun s0 => os_id s0 =? os_id s) (s_ostms st)) as [s'|] eqn:Ef.
    - apply find_some in Ef as [H1 H2]. apply N.eqb_eq in H2. f_equal.
      apply (unique_by_key os_id (s_ostms st)); [exact nd_cids|exact H1|exact Hs|exact H2].
    - pose proof (find_none _ _ Ef s Hs) as K. cbv beta in K. rewrite N.eqb_refl in K. discriminate K.
  Qed.

  Lemma find_cont_some n s : find_cont n = Some s -> In s (s_ostms st) /\ os_id s = n.
  Proof. unfold find_cont. intro H. apply find_some in H as [H1 H2]. apply N.eqb_eq in H2. split; assumption. Qed.

  Lemma find_cont_none n : ~ In n cids -> find_cont n = None.
  Proof.
    intro H. destruct (find_cont n) as [s|] eqn:E; [|reflexivity]. exfalso. apply find_cont_some in E as [H1 H2].
    apply H. rewrite <- H2. unfold cids. apply in_map. exact H1.
  Qed.

  Lemma find_top_in tp : In tp gotops -> find_top (top_num tp) = Some tp.
  Proof.
    intro H. unfold find_top. destruct (find (fun tp0 => top_num tp0 =? top_num tp) gotops) as [tp'|] eqn:Ef.
    - apply find_some in Ef as [H1 H2]. apply N.eqb_eq in H2. rewrite (otopG_unique tp' tp H1 H H2). reflexivity.
    - exfalso. pose proof (find_none _ _ Ef tp H) as K. cbv beta in K. rewrite N.eqb_refl in K. discriminate K.
  Qed.

  Lemma ptop_not_cid tp : In tp ptops -> ~ In (top_num tp) cids.
  Proof.
    intros Hp K. apply (cid_fresh _ K). apply (plain_sub (top_num tp)). rewrite <- ptops_nums. apply in_map. exact Hp.
  Qed.

  Lemma FG_at pre tp post : gotops = pre ++ tp :: post ->
    FG = (ghdr ++ body_of pre) ++ top_text tp ++ body_of post ++ TAILG.
  Proof. intro E. unfold FG. rewrite E, body_of_app. change (body_of (tp :: post)) with (top_text tp ++ body_of post). rewrite <- !app_assoc. reflexivity. Qed.

  Lemma from_top pre tp post : gotops = pre ++ tp :: post ->
    from (N.of_nat (length ghdr) + N.of_nat (length (body_of pre))) FG = top_text tp ++ body_of post ++ TAILG /\
    N.of_nat (length ghdr) + N.of_nat (length (body_of pre)) <= blen FG.
  Proof.
    intro E. split.
    - unfold FG. rewrite E. replace (N.of_nat (length ghdr)) with (blen ghdr) by reflexivity. apply from_at_offset.
    - rewrite (FG_at pre tp post E). unfold blen. rewrite !app_length. lia.
  Qed.

  Lemma xget_topG tp : In tp gotops -> exists off, xget XG (top_num tp) = Some (XNormal off (snd (fst (fst tp)))) /\
    exists pre post, gotops = pre ++ tp :: post /\ off = N.of_nat (length ghdr) + N.of_nat (length (body_of pre)).
  Proof.
    intro Hin. destruct (entryG_of_top tp Hin) as [off Ee]. destruct (otopG_bounds tp Hin) as [H1 H2].
    assert (Hkey : In (top_num tp) (keys_of secsG)) by (apply used_key; [exact H2|unfold usedG; rewrite Ee; reflexivity]).
    exists off. split.
    - unfold XG. rewrite (xgetG _ Hkey). unfold EG. rewrite Ee. reflexivity.
    - destruct (entryG_inuse _ _ _ Ee) as [[pre [tp' [post [Eo [Ek Ep]]]]]|[Ex _]].
      + assert (tp' = tp).
        { apply otopG_unique; [rewrite Eo; apply in_or_app; right; left; reflexivity|exact Hin|]. unfold top_num. rewrite Ek. reflexivity. }
        subst tp'. exists pre, post. split; assumption.
      + exfalso. apply gxid_not_top. rewrite <- Ex. apply in_map. exact Hin.
  Qed.

  Lemma xget_member s n : In s (s_ostms st) -> In n (os_members s) -> exists i, xget XG n = Some (XCompressed (os_id s) i).
  Proof.
    intros Hs Hn. destruct (entryG_member s n Hs Hn) as [i Ee]. exists i.
    destruct (member_facts s n Hs Hn) as [_ [_ [_ [_ [_ Hm]]]]].
    unfold XG. rewrite xgetG by (apply used_key; [exact Hm|unfold usedG; rewrite Ee; reflexivity]).
    unfold EG. rewrite Ee. reflexivity.
  Qed.

  Lemma comp_In n : In n comp -> exists s, In s (s_ostms st) /\ In n (os_members s).
  Proof. unfold comp, compressed_nums. intro H. apply in_flat_map in H. exact H. Qed.

  Lemma max_chain_ok : (SaveFmt.MAX_LENGTH_CHAIN <? 1)%nat = false.
  Proof. vm_compute. reflexivity. Qed.

  (* a plain top-level object at its place: read completely, or -- Length kept in an object stream -- without content *)
  Lemma parse_plain tp pre post : gotops = pre ++ tp :: post -> In tp ptops ->
    exists pos, indirect_x FG XG (top_text tp ++ body_of post ++ TAILG) None = IxOk (fst (fst tp)) (first_top tp) pos /\
      no_objstm (first_top tp) /\ match first_top tp with OStream _ _ => True | _ => pos = None end /\
      ((pos = None /\ first_top tp = loaded_top tp) \/
       exists d c li lg start rest, snd (fst tp) = OStream d c /\ dict_get d K_Length = Some (ORef li lg) /\ In li comp /\
         In ((li, lg), OInt (Z.of_nat (length c))) (a_objs a) /\
         pos = Some start /\ start <= blen FG /\ from start FG = c ++ rest).
  Proof.
    intros Eo Hp. assert (Hin : In tp gotops) by (rewrite Eo; apply in_or_app; right; left; split; reflexivity).
    pose proof (proj1 (Forall_forall _ _) Hptops tp Hp) as Hk. destruct (otopG_bounds tp Hin) as [H1 H2].
    assert (Hi : fst (fst (fst tp)) <= u32_max).
    { fold (top_num tp). destruct Hsmall as [_ [Hs _]]. unfold sizeG in Hs. lia. }
    destruct tp as [[[i g] o] y]. unfold top_ok2 in Hk. unfold top_text, first_top, loaded_top, deferred. cbn [fst snd] in *.
    destruct Hk as [_ [Hg Ho]]. rewrite <- app_assoc. unfold indirect_x.
    destruct o as [| | | | | | | |d c|];
      try (destruct Ho as [Hw Hn]; exists None; split; [|split; [exact I|split; [reflexivity|left; split; reflexivity]]];
           match goal with |- indirect_with ?b ?s0 ?e ?l = _ => pose proof (indirect_with_agrees b s0 e l) as A end;
           rewrite indirect_any_spelling in A by (try assumption; intros d0 c0 K; discriminate K);
           destruct A as [pos [-> [->|[d0 [K _]]]]]; [reflexivity|discriminate K]).
    destruct Ho as [Hw [Hn [HT HL]]].
    assert (Hno : forall cc, no_objstm (stream_new (denote_dict d (dict_sts (i_obj y))) cc)).
    { intro cc. unfold stream_new, no_objstm. unfold has_type. rewrite dict_get_set_other by discriminate.
      apply (has_type_denote d _ K_ObjStm HT). }
    destruct HL as [HL|[li [lg [HL Hlen]]]].
    - rewrite HL. exists None. split; [|split; [apply Hno|split; [exact I|left; split; reflexivity]]].
      match goal with |- indirect_with ?b ?s0 ?e ?l = _ => pose proof (indirect_with_agrees b s0 e l) as A end.
      rewrite indirect_stream_any_spelling in A by assumption.
      destruct A as [pos [-> [->|[d0 [K Kn]]]]]; [reflexivity|].
      exfalso. exact (stream_new_has_length _ _ _ _ K Kn).
    - rewrite HL. destruct (mem_N li comp) eqn:Ec.
      + (* the length object is a member of an object stream *)
        apply mem_N_In in Ec. destruct (comp_In li Ec) as [s [Hs Hm]]. destruct (xget_member s li Hs Hm) as [k Hx].
        assert (Hlen0 : get_length (S SaveFmt.MAX_LENGTH_CHAIN) FG XG [] (li, lg) = LnNone).
        { cbn [get_length existsb length]. rewrite max_chain_ok. unfold get_offset. cbn [fst]. rewrite Hx. reflexivity. }
        destruct (indirect_ref_length_deferred i g d c y (gap_bytes (i_gap y) ++ body_of post ++ TAILG) li lg Hi Hg Hw Hn HL
                    (ghdr ++ body_of pre) _ None Hlen0 I) as [before [Ew Ep]].
        exists (Some (blen ((ghdr ++ body_of pre) ++ before))).
        assert (EF : FG = (ghdr ++ body_of pre) ++ w_indirect i g (OStream d c) y ++ gap_bytes (i_gap y) ++ body_of post ++ TAILG).
        { rewrite (FG_at pre _ post Eo). unfold top_text. cbn [fst snd]. rewrite <- !app_assoc. reflexivity. }
        split; [rewrite EF at 1; exact Ep|]. split.
        { unfold no_objstm. apply (has_type_denote d _ K_ObjStm HT). }
        split; [exact I|]. right.
        exists d, c, li, lg, (blen ((ghdr ++ body_of pre) ++ before)),
               (after_data c y (gap_bytes (i_gap y) ++ body_of post ++ TAILG)).
        split; [reflexivity|]. split; [exact HL|]. split; [exact Ec|]. split; [exact Hlen|]. split; [reflexivity|].
        assert (EF2 : FG = ((ghdr ++ body_of pre) ++ before) ++ c ++ after_data c y (gap_bytes (i_gap y) ++ body_of post ++ TAILG)).
        { unfold whole in Ew. rewrite EF, Ew, <- !app_assoc. reflexivity. }
        split; [rewrite EF2; unfold blen; rewrite !app_length; lia|].
        rewrite EF2. apply from_app.
      + (* the length object is a top-level object of the file *)
        exists None. split; [|split; [apply Hno|split; [exact I|left; split; reflexivity]]].
        set (tl := ((li, lg), OInt (Z.of_nat (length c)), find_istyle (s_objs st) li)).
        assert (Htlp : In tl ptops).
        { unfold ptops. apply in_map_iff. exists ((li, lg), OInt (Z.of_nat (length c))). split; [reflexivity|].
          unfold plain_objs. apply filter_In. split; [exact Hlen|]. cbn [fst]. rewrite Ec. reflexivity. }
        assert (Htl : In tl gotops) by (apply otopG_in; unfold gtops; apply in_or_app; left; exact Htlp).
        destruct (xget_topG tl Htl) as [offl [Hx [prel [postl [Eol Eoff]]]]].
        destruct (otopG_bounds tl Htl) as [Hl1 Hl2].
        pose proof (proj1 (Forall_forall _ _) Hptops tl Htlp) as Hkl. unfold tl, top_ok2 in Hkl. cbn [fst snd] in Hkl.
        destruct Hkl as [_ [Hlg [Hlw _]]].
        apply (indirect_ref_length_eager i g d c y _ li lg Hi Hg Hw Hn HL); [|exact I].
        destruct (from_top prel tl postl Eol) as [Fr Fb]. rewrite <- Eoff in Fr, Fb.
        apply (get_length_finds _ FG XG [] li lg (Z.of_nat (length c)) (find_istyle (s_objs st) li) offl
                 (gap_bytes (i_gap (find_istyle (s_objs st) li)) ++ body_of postl ++ TAILG)).
        * reflexivity.
        * vm_compute. lia.
        * unfold get_offset. unfold top_num, tl in Hx. cbn [fst snd] in *. rewrite Hx, N.eqb_refl. reflexivity.
        * exact Fb.
        * rewrite Fr. unfold top_text, tl. cbn [fst snd]. rewrite <- app_assoc. reflexivity.
        * unfold top_num, tl in Hl2. cbn [fst] in Hl2. destruct Hsmall as [_ [Hs _]]. unfold sizeG in Hs. lia.
        * exact Hlg.
        * exact Hlw.
  Qed.

  Lemma NoDup_flat_in {A B} (f : A -> list B) : forall l s, NoDup (flat_map f l) -> In s l -> NoDup (f s).
  Proof.
    induction l as [|z l IH]; intros s H Hs; [contradiction|]. cbn [flat_map] in H. destruct Hs as [->|Hs].
    - apply (NoDup_app_l _ _ H).
    - apply IH; [apply (NoDup_app_r _ _ H)|exact Hs].
  Qed.

  (* a container at its place *)
  Lemma parse_cont s tp pre post : gotops = pre ++ tp :: post -> In s (s_ostms st) -> cont_top (a_objs a) s tp ->
    fst (fst tp) = (os_id s, 0) /\
    indirect_x FG XG (top_text tp ++ body_of post ++ TAILG) None =
      IxOk (os_id s, 0) (OStream (D s (itemsof s) (cstsG s)) (fst (enc s (itemsof s)))) None /\
    has_type (D s (itemsof s) (cstsG s)) K_ObjStm = true /\
    exists d' k, objstm_new decompress_ref (D s (itemsof s) (cstsG s)) (fst (enc s (itemsof s))) =
                 ((d', payload s (itemsof s) ++ repeat x20 k), OsOk (members_val (a_objs a) s (itemsof s))).
  Proof.
    intros Eo Hs [o [Ho ->]]. pose proof (cont_build s Hs) as Hb.
    rewrite (os_object_eq (a_objs a) s (itemsof s) Hb) in Ho. inversion Ho; subst o. clear Ho.
    destruct (cont_is_ok s Hs) as [Hne [Hl [Hok [Hlen [Hnp [Hw Hn]]]]]].
    assert (Hc : os_id s <= u32_max).
    { assert (K : os_id s <= max_num numsG).
      { apply numG_bounds. unfold numsG. apply in_or_app. right. apply in_or_app. left. unfold cids. apply in_map. exact Hs. }
      destruct Hsmall as [_ [Hs' _]]. unfold sizeG in Hs'. lia. }
    assert (HL : dict_get (dC s (itemsof s)) K_Length = Some (OInt (Z.of_nat (length (fst (enc s (itemsof s))))))).
    { unfold dC. cbn [app]. rewrite !dict_get_cons_neG by reflexivity. rewrite dict_get_appG.
      unfold enc. rewrite fent_keys by discriminate. reflexivity. }
    split; [reflexivity|]. split; [|split].
    - unfold top_text. cbn [fst snd]. rewrite <- app_assoc. unfold indirect_x.
      match goal with |- indirect_with ?b ?s0 ?e ?l = _ => pose proof (indirect_with_agrees b s0 e l) as A end.
      rewrite indirect_stream_any_spelling in A; [|exact Hc|unfold u16_max; lia|exact Hw|exact Hn|exact HL].
      destruct A as [pos [-> [->|[d0 [K Kn]]]]]; [reflexivity|].
      exfalso. exact (stream_new_has_length _ _ _ _ K Kn).
    - unfold has_type. rewrite (dC_get s (itemsof s) (cstsG s) K_Type (OName (bs "ObjStm"))); [reflexivity|reflexivity|reflexivity|discriminate].
    - apply (objstm_new_ref_any (a_objs a) s (itemsof s) (cstsG s) Hb Hne); try assumption.
      + apply (NoDup_flat_in os_members (s_ostms st) s Hcnd Hs).
      + apply Forall_forall. intros m Hm. destruct (member_facts s m Hs Hm) as [_ [_ [_ [_ [_ K]]]]].
        destruct Hsmall as [_ [Hs' _]]. unfold sizeG in Hs'. lia.
  Qed.

  (* THE ENTRIES IN USE: what parser::_indirect_object and ObjectStream::new make of each *)
  Lemma entry_specG n off g : In (n, XNormal off g) XG ->
    entry_spec decompress_ref can_ref FG XG objfG posfG memfG n off g.
  Proof.
    intro H. pose proof (entries_funG _ _ H) as En. pose proof (entry_keyG _ _ H) as Hkey.
    assert (Hx : xget XG n = Some (XNormal off g)) by (unfold XG; rewrite (xgetG n Hkey); exact En).
    unfold EG in En. destruct (entryG n) as [a0 b0|off' g'|c i] eqn:Ee; cbn [entry_meaning] in En; inversion En; subst off' g'.
    assert (Hpos : forall id o pos, indirect_x FG XG (from off FG) None = IxOk id o pos -> posfG n g = pos).
    { intros id o pos Hp. unfold posfG. rewrite Hx, Hp. reflexivity. }
    unfold entry_spec.
    destruct (entryG_inuse _ _ _ Ee) as [[pre [tp [post [Eo [Ek Ep]]]]]|[-> [-> ->]]].
    - assert (Hin : In tp gotops) by (rewrite Eo; apply in_or_app; right; left; reflexivity).
      assert (Hn : top_num tp = n) by (unfold top_num; rewrite Ek; reflexivity).
      destruct (from_top pre tp post Eo) as [Fr Fb]. rewrite <- Ep in Fr, Fb. split; [exact Fb|].
      assert (Hnx : (n =? gxid) = false).
      { apply N.eqb_neq. intro K. apply gxid_not_top. rewrite <- K, <- Hn. apply in_map. exact Hin. }
      destruct (gtop_kind tp (proj1 (otopG_in tp) Hin)) as [Hp|[s [Hs Hc]]].
      + assert (Hfc : find_cont n = None) by (apply find_cont_none; rewrite <- Hn; apply ptop_not_cid; exact Hp).
        unfold memfG. rewrite Hfc.
        destruct (parse_plain tp pre post Eo Hp) as [pos [P1 [P2 [P3 _]]]].
        assert (Eobj : objfG n g = first_top tp).
        { unfold objfG. rewrite Hnx, Hfc, <- Hn, (find_top_in tp Hin). reflexivity. }
        rewrite Fr, Eobj. rewrite <- Fr in P1. rewrite (Hpos _ _ _ P1). rewrite Fr in P1. rewrite <- Ek.
        split; [exact P1|]. split; [exact P2|exact P3].
      + destruct (parse_cont s tp pre post Eo Hs Hc) as [Q0 [Q1 [Q2 [d' [kp Q3]]]]].
        rewrite Ek in Q0. rewrite <- Q0 in Q1.
        assert (Efc : find_cont n = Some s) by (replace n with (os_id s) by (inversion Q0; reflexivity); apply find_cont_in; exact Hs).
        unfold memfG. rewrite Efc.
        exists (D s (itemsof s) (cstsG s)), (fst (enc s (itemsof s))), d', (payload s (itemsof s) ++ repeat x20 kp).
        rewrite Fr. rewrite <- Fr in Q1. rewrite (Hpos _ _ _ Q1). rewrite Fr in Q1.
        split; [exact Q1|]. split; [exact Q2|]. split; [unfold filters_modelled, can_ref; apply orb_true_r|]. split; [exact Q3|].
        unfold objfG. rewrite Hnx, Efc. unfold cont_loaded. rewrite Q3. reflexivity.
    - split; [rewrite FG_split; unfold blen; rewrite app_length; pose proof blen_frontG as B; unfold blen in B; lia|].
      assert (Hfc : find_cont gxid = None) by (apply find_cont_none; apply gxid_fresh).
      unfold memfG. rewrite Hfc.
      assert (P : indirect_x FG XG (from gxpos FG) None = IxOk (gxid, 0) (stream_new ddG data) None).
      { rewrite from_gxpos. unfold TAILG, indirect_x.
        match goal with |- indirect_with ?b ?s0 ?e ?l = _ => pose proof (indirect_with_agrees b s0 e l) as A end.
        rewrite xobjG_parse in A. destruct A as [pos [-> [->|[d0 [K Kn]]]]]; [reflexivity|].
        exfalso. exact (stream_new_has_length _ _ _ _ K Kn). }
      rewrite (Hpos _ _ _ P). unfold objfG. rewrite N.eqb_refl.
      split; [exact P|]. split; [exact xobjG_no_objstm|exact I].
  Qed.

  (* ---------- the result of the three passes ---------- *)
  Definition M0 : objmap := fold_left (ins objfG) XG [].
  Definition OSTM : list (N * objmap) := flat_map (ostm_of memfG) XG.
  Definition M1 : objmap := merge_object_streams XG M0 OSTM.
  Definition PG : posmap := fold_left (pstep posfG) XG [].
  Definition ZS : list oid := flat_map (zero_of objfG memfG) XG.
  Definition OBJS : objmap := zero_pass FG M1 PG ZS.

  Lemma M0_lookup id : lookup M0 id = if hit EG XG id then Some (objfG (fst id) (snd id)) else None.
  Proof. unfold M0. rewrite (lookup_fold_ins objfG EG XG [] id entries_funG). reflexivity. Qed.

  Lemma PG_lookup id : pos_get PG id = if hit EG XG id then posfG (fst id) (snd id) else None.
  Proof. unfold PG. rewrite (pos_get_fold posfG EG XG [] id entries_funG). reflexivity. Qed.

  Lemma hit_true n g : hit EG XG (n, g) = true -> exists off, entryG n = SInUse off g /\ In (n, XNormal off g) XG.
  Proof.
    unfold hit. cbn [fst snd]. intro H. apply andb_true_iff in H as [H1 H2].
    apply key_some_In in H1 as [v Hv]. pose proof (entries_funG _ _ Hv) as Ev. rewrite Ev in H2.
    destruct v as [| |off g'|c i]; try discriminate H2. apply N.eqb_eq in H2. subst g'.
    exists off. split; [|exact Hv]. unfold EG in Ev. destruct (entryG n); cbn [entry_meaning] in Ev; inversion Ev; reflexivity.
  Qed.

  Lemma hit_entry n off g : In (n, XNormal off g) XG -> hit EG XG (n, g) = true.
  Proof.
    intro H. unfold hit. cbn [fst snd]. rewrite (xget_some_key _ _ _ H). rewrite (entries_funG _ _ H). cbn [andb]. apply N.eqb_refl.
  Qed.

  Lemma xget_entry n off g : In (n, XNormal off g) XG -> xget XG n = Some (XNormal off g).
  Proof. intro H. unfold XG. rewrite (xgetG n (entry_keyG _ _ H)). exact (entries_funG _ _ H). Qed.

  Lemma OSTM_in k mems : In (k, mems) OSTM <-> exists off g, In (k, XNormal off g) XG /\ memfG k = Some mems.
  Proof.
    unfold OSTM. rewrite in_flat_map. split.
    - intros [[k0 e] [H1 H2]]. unfold ostm_of in H2. cbn [fst snd] in H2. destruct e as [| |off g|c i]; try contradiction.
      destruct (memfG k0) as [m|] eqn:Em; [|contradiction]. destruct H2 as [H2|[]]. inversion H2; subst. exists off, g. split; assumption.
    - intros [off [g [H1 H2]]]. exists (k, XNormal off g). split; [exact H1|]. unfold ostm_of. cbn [fst snd]. rewrite H2. left. reflexivity.
  Qed.

  Lemma memfG_some k mems : memfG k = Some mems ->
    exists s, In s (s_ostms st) /\ os_id s = k /\ mems = members_val (a_objs a) s (itemsof s).
  Proof.
    unfold memfG. destruct (find_cont k) as [s|] eqn:E; [|discriminate]. intro H. inversion H; subst.
    apply find_cont_some in E as [H1 H2]. exists s. auto.
  Qed.

  Lemma members_nodup s : In s (s_ostms st) -> NoDup (os_members s).
  Proof. intro Hs. apply (NoDup_flat_in os_members (s_ostms st) s Hcnd Hs). Qed.

  Lemma OSTM_named k mems io : In (k, mems) OSTM -> In io mems -> is_named XG k (fst io) = true.
  Proof.
    intros H Hio. apply OSTM_in in H as [off [g [_ Hm]]]. apply memfG_some in Hm as [s [Hs [Ek ->]]].
    destruct io as [id o]. unfold members_val in Hio. apply fold_items_In in Hio as [[]|[it [Hit ->]]].
    assert (Hn : In (oi_num it) (os_members s)).
    { rewrite <- (os_build_nums _ _ _ _ _ (cont_build s Hs)). apply in_map. exact Hit. }
    destruct (xget_member s _ Hs Hn) as [i Hx]. unfold is_named. cbn [fst]. rewrite Hx, Ek. apply N.eqb_refl.
  Qed.

  Lemma M1_lookup i : lookup M1 i = match lookup M0 i with Some v => Some v | None => find_member OSTM i end.
  Proof. unfold M1. apply merge_all_named. exact OSTM_named. Qed.

  Lemma member_unique s s' n : In s (s_ostms st) -> In s' (s_ostms st) -> In n (os_members s) -> In n (os_members s') -> s = s'.
  Proof. intros. apply (flat_map_unique os_members (s_ostms st) s s' n Hcnd); assumption. Qed.

  Lemma cont_entry s : In s (s_ostms st) -> exists off, In (os_id s, XNormal off 0) XG.
  Proof.
    intro Hs. destruct (Forall2_In_l _ _ _ s conts_spec Hs) as [tp [Htp [o [_ E]]]].
    assert (Hin : In tp gotops) by (apply otopG_in; unfold gtops; apply in_or_app; right; exact Htp).
    destruct (xget_topG tp Hin) as [off [Hx _]]. exists off. subst tp. unfold top_num in Hx. cbn [fst snd] in Hx. apply xget_In. exact Hx.
  Qed.

  Lemma mvals_lookup s id : In s (s_ostms st) ->
    lookup (members_val (a_objs a) s (itemsof s)) id =
    if (snd id =? 0) && mem_N (fst id) (os_members s) then Some (member_val (a_objs a) s (fst id)) else None.
  Proof. intro Hs. apply members_val_lookup; [apply cont_build; exact Hs|apply members_nodup; exact Hs]. Qed.

  Lemma find_member_of s n : In s (s_ostms st) -> In n (os_members s) ->
    find_member OSTM (n, 0) = Some (member_val (a_objs a) s n).
  Proof.
    intros Hs Hn. apply find_member_some.
    - intros k mems H. apply OSTM_in in H as [off [g [_ Hm]]]. apply memfG_some in Hm as [s' [Hs' [_ ->]]].
      rewrite (mvals_lookup s' (n, 0) Hs'). cbn [fst snd]. rewrite N.eqb_refl. cbn [andb].
      destruct (mem_N n (os_members s')) eqn:E; [left|right; reflexivity].
      apply mem_N_In in E. rewrite (member_unique s' s n Hs' Hs E Hn). reflexivity.
    - destruct (cont_entry s Hs) as [off He]. exists (os_id s), (members_val (a_objs a) s (itemsof s)). split.
      + apply OSTM_in. exists off, 0. split; [exact He|]. unfold memfG. rewrite (find_cont_in s Hs). reflexivity.
      + rewrite (mvals_lookup s (n, 0) Hs). cbn [fst snd]. rewrite N.eqb_refl. cbn [andb].
        replace (mem_N n (os_members s)) with true by (symmetry; apply mem_N_In; exact Hn). reflexivity.
  Qed.

  Lemma find_member_is i v : find_member OSTM i = Some v ->
    exists s, In s (s_ostms st) /\ snd i = 0 /\ In (fst i) (os_members s) /\ v = member_val (a_objs a) s (fst i).
  Proof.
    intro H. apply find_member_inv in H as [k [mems [Hk Hl]]]. apply OSTM_in in Hk as [off [g [_ Hm]]].
    apply memfG_some in Hm as [s [Hs [_ ->]]]. rewrite (mvals_lookup s i Hs) in Hl.
    destruct ((snd i =? 0) && mem_N (fst i) (os_members s)) eqn:E; [|discriminate Hl].
    apply andb_true_iff in E as [E1 E2]. apply N.eqb_eq in E1. apply mem_N_In in E2. inversion Hl; subst. exists s. auto.
  Qed.

  (* a plain top-level object: its entry, what the first pass leaves, and whether its body was read *)
  Lemma top_entry_cases tp : In tp ptops ->
    exists off, In (top_num tp, XNormal off (snd (fst (fst tp)))) XG /\
      objfG (top_num tp) (snd (fst (fst tp))) = first_top tp /\ memfG (top_num tp) = None /\
      ((posfG (top_num tp) (snd (fst (fst tp))) = None /\ first_top tp = loaded_top tp) \/
       exists d c li lg start rest, snd (fst tp) = OStream d c /\ dict_get d K_Length = Some (ORef li lg) /\ In li comp /\
         In ((li, lg), OInt (Z.of_nat (length c))) (a_objs a) /\
         posfG (top_num tp) (snd (fst (fst tp))) = Some start /\ start <= blen FG /\ from start FG = c ++ rest /\
         first_top tp = OStream (denote_dict d (dict_sts (i_obj (snd tp)))) []).
  Proof.
    intro Hp. assert (Hin : In tp gotops) by (apply otopG_in; unfold gtops; apply in_or_app; left; exact Hp).
    destruct (xget_topG tp Hin) as [off [Hx [pre [post [Eo Eoff]]]]]. exists off.
    split; [apply xget_In; exact Hx|].
    assert (Hnx : (top_num tp =? gxid) = false).
    { apply N.eqb_neq. intro K. apply gxid_not_top. rewrite <- K. apply in_map. exact Hin. }
    assert (Hfc : find_cont (top_num tp) = None) by (apply find_cont_none; apply ptop_not_cid; exact Hp).
    split; [unfold objfG; rewrite Hnx, Hfc, (find_top_in tp Hin); reflexivity|].
    split; [unfold memfG; rewrite Hfc; reflexivity|].
    destruct (parse_plain tp pre post Eo Hp) as [pos [P1 [_ [_ P4]]]].
    destruct (from_top pre tp post Eo) as [Fr _]. rewrite <- Eoff in Fr.
    assert (Epos : posfG (top_num tp) (snd (fst (fst tp))) = pos) by (unfold posfG; rewrite Hx, Fr, P1; reflexivity).
    rewrite Epos. destruct P4 as [P4|[d [c [li [lg [start [rest [Q1 [Q2 [Q3 [Q4 [Q5 [Q6 Q7]]]]]]]]]]]]]; [left; exact P4|right].
    exists d, c, li, lg, start, rest. repeat (split; [assumption|]).
    unfold first_top, deferred. rewrite Q1, Q2. replace (mem_N li comp) with true by (symmetry; apply mem_N_In; exact Q3). reflexivity.
  Qed.

  (* only a plain top-level object is ever left without its body *)
  Lemma pos_some_top n off g start : In (n, XNormal off g) XG -> posfG n g = Some start ->
    exists tp, In tp ptops /\ top_num tp = n /\ snd (fst (fst tp)) = g.
  Proof.
    intros H Hp. pose proof (xget_entry _ _ _ H) as Hx. pose proof (entries_funG _ _ H) as En. unfold EG in En.
    destruct (entryG n) as [a0 b0|off' g'|c i] eqn:Ee; cbn [entry_meaning] in En; inversion En; subst off' g'.
    destruct (entryG_inuse _ _ _ Ee) as [[pre [tp [post [Eo [Ek Ep]]]]]|[-> [-> ->]]].
    - assert (Hin : In tp gotops) by (rewrite Eo; apply in_or_app; right; left; reflexivity).
      destruct (gtop_kind tp (proj1 (otopG_in tp) Hin)) as [Hpt|[s [Hs Hc]]].
      + exists tp. split; [exact Hpt|]. unfold top_num. rewrite Ek. split; reflexivity.
      + exfalso. destruct (parse_cont s tp pre post Eo Hs Hc) as [_ [Q1 _]].
        destruct (from_top pre tp post Eo) as [Fr _]. rewrite <- Ep in Fr.
        unfold posfG in Hp. rewrite Hx, Fr, Q1 in Hp. discriminate Hp.
    - exfalso. destruct (entry_specG _ _ _ H) as [_ K]. unfold memfG in K.
      rewrite (find_cont_none gxid (proj2 gxid_fresh)) in K. destruct K as [K1 [_ K3]].
      unfold objfG in K3. rewrite N.eqb_refl in K3.
      unfold posfG in Hp. rewrite Hx in Hp. rewrite from_gxpos in *. unfold TAILG, indirect_x in *.
      match type of Hp with context [indirect_with ?b ?s0 ?e ?l] => pose proof (indirect_with_agrees b s0 e l) as A end.
      rewrite xobjG_parse in A. destruct A as [pos [A1 [->|[d0 [K Kn]]]]].
      + rewrite A1 in Hp. discriminate Hp.
      + exact (stream_new_has_length _ _ _ _ K Kn).
  Qed.

  Lemma member_int li lg z : In li comp -> In ((li, lg), OInt z) (a_objs a) ->
    lg = 0 /\ exists s, In s (s_ostms st) /\ In li (os_members s) /\ member_val (a_objs a) s li = OInt z.
  Proof.
    intros Hc Hin. destruct (comp_In li Hc) as [s [Hs Hm]].
    destruct (member_facts s li Hs Hm) as [[o [Ef _]] _].
    pose proof (find_obj_unique (a_objs a) li lg (OInt z) nd_numsG Hin) as Ef'. rewrite Ef in Ef'. inversion Ef'; subst.
    split; [reflexivity|]. exists s. split; [exact Hs|]. split; [exact Hm|].
    unfold member_val.
    destruct (member_val_denote (a_objs a) (os_members s) (os_items s) li) as [g' [o' [y' [A [_ C]]]]].
    - intros m Hmm. destruct (os_build_find _ _ _ _ _ (cont_build s Hs) m Hmm) as [o' Eo']. eauto.
    - exact Hm.
    - rewrite C. rewrite Ef in A. inversion A; subst. reflexivity.
  Qed.

  Lemma deferred_okG : deferred_ok FG fullG M1 PG.
  Proof.
    intros [n g] start Hp. rewrite PG_lookup in Hp. destruct (hit EG XG (n, g)) eqn:Eh; [|discriminate Hp]. cbn [fst snd] in Hp.
    destruct (hit_true n g Eh) as [off [_ Hent]].
    destruct (pos_some_top n off g start Hent Hp) as [tp [Hpt [En Eg]]]. subst n g.
    destruct (top_entry_cases tp Hpt) as [off' [_ [Eobj [_ [[K _]|[d [c [li [lg [start' [rest [Q1 [Q2 [Q3 [Q4 [Q5 [Q6 [Q7 Q8]]]]]]]]]]]]]]]]]];
      [rewrite K in Hp; discriminate Hp|].
    rewrite Q5 in Hp. inversion Hp; subst start'. clear Hp.
    destruct (member_int li lg _ Q3 Q4) as [-> [s [Hs [Hm Hv]]]].
    exists (denote_dict d (dict_sts (i_obj (snd tp)))), li, 0, c, rest.
    split; [rewrite M1_lookup, M0_lookup, Eh; cbn [fst snd]; rewrite Eobj, Q8; reflexivity|].
    split; [apply dict_get_denote_ref; exact Q2|].
    split.
    { rewrite M1_lookup, M0_lookup.
      assert (Ehl : hit EG XG (li, 0) = false).
      { unfold hit. cbn [fst snd]. destruct (entryG_member s li Hs Hm) as [i Ee]. unfold EG. rewrite Ee. cbn [entry_meaning]. apply andb_false_r. }
      rewrite Ehl, (find_member_of s li Hs Hm), Hv. reflexivity. }
    split; [exact Q6|]. split; [exact Q7|].
    unfold fullG. cbn [fst]. assert (Hin : In tp gotops) by (apply otopG_in; unfold gtops; apply in_or_app; left; exact Hpt).
    rewrite (find_top_in tp Hin). unfold loaded_top. rewrite Q1. reflexivity.
  Qed.

  Lemma ZS_nodup : NoDup ZS.
  Proof. apply zero_of_nodup. exact x0G_keys_nodup. Qed.

  Lemma ZS_streams id : In id ZS -> exists d c, lookup M1 id = Some (OStream d c).
  Proof.
    unfold ZS. intro H. apply in_flat_map in H as [[k e] [H1 H2]]. unfold zero_of in H2. cbn [fst snd] in H2.
    destruct e as [| |off g|c i]; try contradiction. destruct (memfG k); [contradiction|].
    destruct (objfG k g) as [| | | | | | | |d c|] eqn:Eo; try contradiction. destruct c; [|contradiction]. destruct H2 as [<-|[]].
    exists d, []. rewrite M1_lookup, M0_lookup, (hit_entry _ _ _ H1). cbn [fst snd]. rewrite Eo. reflexivity.
  Qed.

  Lemma ZS_all id start : pos_get PG id = Some start -> In id ZS.
  Proof.
    destruct id as [n g]. intro Hp. rewrite PG_lookup in Hp. destruct (hit EG XG (n, g)) eqn:Eh; [|discriminate Hp]. cbn [fst snd] in Hp.
    destruct (hit_true n g Eh) as [off [_ Hent]].
    destruct (pos_some_top n off g start Hent Hp) as [tp [Hpt [En Eg]]]. subst n g.
    destruct (top_entry_cases tp Hpt) as [off' [_ [Eobj [Em [[K _]|[d [c [li [lg [start' [rest [_ [_ [_ [_ [_ [_ [_ Q8]]]]]]]]]]]]]]]]]];
      [rewrite K in Hp; discriminate Hp|].
    unfold ZS. apply in_flat_map. exists (top_num tp, XNormal off (snd (fst (fst tp)))). split; [exact Hent|].
    unfold zero_of. cbn [fst snd]. rewrite Em, Eobj, Q8. left. reflexivity.
  Qed.

  Lemma OBJS_lookup i : lookup OBJS i = match pos_get PG i with Some _ => Some (fullG i) | None => lookup M1 i end.
  Proof. unfold OBJS. apply zero_pass_lookup; [exact deferred_okG|exact ZS_nodup|exact ZS_streams|exact ZS_all]. Qed.

  (* ---------- what is loaded ---------- *)
  Lemma loaded_plain tp : In tp ptops -> lookup OBJS (fst (fst tp)) = Some (loaded_top tp).
  Proof.
    intro Hp. destruct (top_entry_cases tp Hp) as [off [Hent [Eobj [_ Hc]]]].
    replace (fst (fst tp)) with (top_num tp, snd (fst (fst tp))) by (destruct tp as [[[? ?] ?] ?]; reflexivity).
    rewrite OBJS_lookup, PG_lookup, (hit_entry _ _ _ Hent). cbn [fst snd].
    destruct Hc as [[K1 K2]|[d [c [li [lg [start [rest [Q1 [_ [_ [_ [Q5 _]]]]]]]]]]]].
    - rewrite K1, M1_lookup, M0_lookup, (hit_entry _ _ _ Hent). cbn [fst snd]. rewrite Eobj, K2. reflexivity.
    - rewrite Q5. unfold fullG. cbn [fst].
      assert (Hin : In tp gotops) by (apply otopG_in; unfold gtops; apply in_or_app; left; exact Hp).
      rewrite (find_top_in tp Hin). reflexivity.
  Qed.

  Lemma no_pos_other n g : (forall tp, In tp ptops -> top_num tp = n -> False) -> pos_get PG (n, g) = None.
  Proof.
    intro Hno. rewrite PG_lookup. destruct (hit EG XG (n, g)) eqn:Eh; [|reflexivity]. cbn [fst snd].
    destruct (hit_true n g Eh) as [off [_ Hent]]. destruct (posfG n g) as [start|] eqn:Ep; [|reflexivity].
    exfalso. destruct (pos_some_top n off g start Hent Ep) as [tp [Hpt [En _]]]. exact (Hno tp Hpt En).
  Qed.

  Lemma loaded_member s n : In s (s_ostms st) -> In n (os_members s) ->
    lookup OBJS (n, 0) = Some (member_val (a_objs a) s n).
  Proof.
    intros Hs Hn. rewrite OBJS_lookup, no_pos_other.
    - rewrite M1_lookup, M0_lookup.
      assert (Ehl : hit EG XG (n, 0) = false).
      { unfold hit. cbn [fst snd]. destruct (entryG_member s n Hs Hn) as [i Ee]. unfold EG. rewrite Ee. cbn [entry_meaning]. apply andb_false_r. }
      rewrite Ehl. apply find_member_of; assumption.
    - intros tp Hpt En. destruct (member_facts s n Hs Hn) as [_ [_ [Hnt _]]]. apply Hnt. rewrite <- En. apply in_map.
      apply otopG_in. unfold gtops. apply in_or_app. left. exact Hpt.
  Qed.

  Lemma loaded_cont s : In s (s_ostms st) ->
    exists d' k, lookup OBJS (os_id s, 0) = Some (OStream d' (payload s (itemsof s) ++ repeat x20 k)).
  Proof.
    intro Hs. destruct (cont_entry s Hs) as [off He].
    destruct (entry_specG _ _ _ He) as [_ K]. unfold memfG in K. rewrite (find_cont_in s Hs) in K.
    destruct K as [d [c [d' [c' [_ [_ [_ [K4 K5]]]]]]]].
    destruct (Forall2_In_l _ _ _ s conts_spec Hs) as [tp [Htp Hc]].
    assert (Hin : In tp gotops) by (apply otopG_in; unfold gtops; apply in_or_app; right; exact Htp).
    destruct (in_split _ _ Hin) as [pre [post Eo]].
    destruct (parse_cont s tp pre post Eo Hs Hc) as [_ [_ [_ [d2 [kp Q3]]]]].
    exists d2, kp. rewrite OBJS_lookup, no_pos_other.
    - rewrite M1_lookup, M0_lookup, (hit_entry _ _ _ He). cbn [fst snd]. unfold objfG.
      replace (os_id s =? gxid) with false.
      2:{ symmetry. apply N.eqb_neq. intro E. apply (proj2 gxid_fresh). rewrite <- E. unfold cids. apply in_map. exact Hs. }
      rewrite (find_cont_in s Hs). unfold cont_loaded. rewrite Q3. reflexivity.
    - intros tp' Hpt En. apply (ptop_not_cid tp' Hpt). rewrite En. unfold cids. apply in_map. exact Hs.
  Qed.

  Lemma loaded_xref : lookup OBJS (gxid, 0) = Some (stream_new ddG data).
  Proof.
    rewrite OBJS_lookup, no_pos_other.
    - assert (He : In (gxid, XNormal gxpos 0) XG).
      { apply xget_In. unfold XG. rewrite (xgetG _ gxid_key). unfold EG. rewrite entryG_xid. reflexivity. }
      rewrite M1_lookup, M0_lookup, (hit_entry _ _ _ He). cbn [fst snd]. unfold objfG. rewrite N.eqb_refl. reflexivity.
    - intros tp Hpt En. apply (proj1 gxid_fresh). apply (plain_sub gxid). rewrite <- ptops_nums, <- En. apply in_map. exact Hpt.
  Qed.

  Lemma loaded_only id o : lookup OBJS id = Some o ->
    (exists tp, In tp ptops /\ fst (fst tp) = id) \/
    (exists s n, In s (s_ostms st) /\ In n (os_members s) /\ id = (n, 0)) \/
    (exists s, In s (s_ostms st) /\ id = (os_id s, 0)) \/ id = (gxid, 0).
  Proof.
    destruct id as [n g]. intro H. rewrite OBJS_lookup, PG_lookup in H.
    destruct (hit EG XG (n, g)) eqn:Eh.
    - destruct (hit_true n g Eh) as [off [Ee _]].
      destruct (entryG_inuse _ _ _ Ee) as [[pre [tp [post [Eo [Ek _]]]]]|[-> [-> _]]]; [|right; right; right; reflexivity].
      assert (Hin : In tp gotops) by (rewrite Eo; apply in_or_app; right; left; reflexivity).
      destruct (gtop_kind tp (proj1 (otopG_in tp) Hin)) as [Hpt|[s [Hs [o' [_ E]]]]].
      + left. exists tp. split; assumption.
      + right. right. left. exists s. split; [exact Hs|]. rewrite <- Ek, E. reflexivity.
    - rewrite M1_lookup, M0_lookup, Eh in H. apply find_member_is in H as [s [Hs [Eg [Hm _]]]]. cbn [fst snd] in *. subst g.
      right. left. exists s, n. auto.
  Qed.

  (* ---------- the whole file ---------- *)
  Definition loaded_as (tG : dict) : Prop :=
    exists d, load_ext decompress_ref can_ref (s_junk st ++ FG) = LOk d XTStream /\
      d_version d = a_version a /\ d_trailer d = tG /\
      (forall tp, In tp ptops -> lookup (d_objects d) (fst (fst tp)) = Some (loaded_top tp)) /\
      (forall s n, In s (s_ostms st) -> In n (os_members s) -> lookup (d_objects d) (n, 0) = Some (member_val (a_objs a) s n)) /\
      (forall s, In s (s_ostms st) ->
                 exists d' k, lookup (d_objects d) (os_id s, 0) = Some (OStream d' (payload s (itemsof s) ++ repeat x20 k))) /\
      lookup (d_objects d) (gxid, 0) = Some (stream_new ddG data) /\
      (forall id o, lookup (d_objects d) id = Some o ->
         (exists tp, In tp ptops /\ fst (fst tp) = id) \/
         (exists s n, In s (s_ostms st) /\ In n (os_members s) /\ id = (n, 0)) \/
         (exists s, In s (s_ostms st) /\ id = (os_id s, 0)) \/ id = (gxid, 0)).

  Section Whole.
    Variable tG : dict.
    Hypothesis Hxr : xref_and_trailer_x decompress_ref can_ref FG gxpos = SOk (x0G, tG).
    Hypothesis HtG : dict_get tG K_Prev = None /\ dict_has tG K_Encrypt = false.

    Theorem loads_objstm : loaded_as tG.
    Proof.
      destruct frame_factsG as [F1 [F2 F3]]. destruct HtG as [Hp He].
      assert (R : dict_swap_remove tG K_Prev = tG) by (unfold dict_swap_remove, dict_has; rewrite Hp; reflexivity).
      eexists. split.
      - apply (load_ext_frame_loop decompress_ref can_ref FG XG objfG posfG memfG (s_junk st) FG (a_version a) gxpos x0G tG x0G tG);
          try assumption; try reflexivity.
        + rewrite Hp, R. reflexivity.
        + exact max_id_smallG.
        + exact entry_specG.
      - cbn [d_version d_trailer d_objects]. split; [reflexivity|]. split; [reflexivity|].
        split; [exact loaded_plain|]. split; [intros s n Hs Hn; apply loaded_member; assumption|].
        split; [exact loaded_cont|]. split; [exact loaded_xref|exact loaded_only].
    Qed.
  End Whole.

  (* ======== ending A: no filter on the cross-reference stream ======== *)
  Section PlainX.
    Hypothesis Hpf : fent = [].
    Hypothesis Hpd : data = rawG.
    Definition t0GS : dict := LoadProofsStream.sr3 gd1.

    Lemma xr_parseGS : xref_and_trailer_x decompress_ref can_ref FG gxpos = SOk (x0G, t0GS).
    Proof.
      unfold xref_and_trailer_x. rewrite from_gxpos. unfold TAILG. rewrite xobjG_not_table. unfold indirect_x.
      match goal with |- context [indirect_with ?b ?s0 ?e ?l] => pose proof (indirect_with_agrees b s0 e l) as A end.
      rewrite xobjG_parse in A. destruct A as [pos [-> _]].
      change (stream_new ddG data) with (OStream gd1 data). cbv iota.
      unfold filters_modelled, can_ref. rewrite orb_true_r. unfold decode_xref_stream.
      assert (Hf : dict_has gd1 K_Filter = false).
      { unfold dict_has. rewrite gd1_none; [reflexivity|discriminate|].
        rewrite xdG_get_other; [apply Hxd|reflexivity..|rewrite Hpf; reflexivity]. }
      rewrite Hf, Hpd, (decode_fromG gd1 gd1_size gd1_w eq_refl). reflexivity.
    Qed.

    Lemma t0GS_clean : dict_get t0GS K_Prev = None /\ dict_has t0GS K_Encrypt = false.
    Proof.
      unfold t0GS, dict_has. rewrite !(LoadProofsStream.sr3_get gd1 _ gd1_wf).
      change (bytes_eqb K_Prev Xref.K_Index || bytes_eqb K_Prev Xref.K_W || bytes_eqb K_Prev K_Length) with false.
      change (bytes_eqb K_Encrypt Xref.K_Index || bytes_eqb K_Encrypt Xref.K_W || bytes_eqb K_Encrypt K_Length) with false.
      cbv iota. rewrite !gd1_absent; try reflexivity; try discriminate; try apply Hxd. split; reflexivity.
    Qed.

    Theorem loads_objstm_plain : loaded_as t0GS.
    Proof. exact (loads_objstm t0GS xr_parseGS t0GS_clean). Qed.
  End PlainX.

  (* ======== ending B: a filter chain on the cross-reference stream ======== *)
  Section FilteredX.
    Variable f : sfilter.
    Variable arr : bool.
    Hypothesis Hflt : f <> SfNone.
    Hypothesis Henc : apply_filter f (N.of_nat (gw0 + gw1 + gw2)) arr rawG = (data, fent).
    Hypothesis Hdp : dict_get (a_trailer a) K_DecodeParms = None.
    Hypothesis Hwmax : N.of_nat (gw0 + gw1 + gw2) <= Png.USIZE_MAX.

    Definition gd2 : dict :=
      dict_set (dict_swap_remove (dict_swap_remove gd1 K_DecodeParms) K_Filter) K_Length (OInt (Z.of_nat (length rawG))).
    Definition t0GF : dict := LoadProofsStream.sr3 gd2.

    Lemma gd2_wf : dict_wf gd2.
    Proof. apply dict_set_wf. repeat apply swap_remove_wf. exact gd1_wf. Qed.

    Lemma gd2_get k : k <> K_Length -> k <> K_Filter -> k <> K_DecodeParms -> dict_get gd2 k = dict_get gd1 k.
    Proof.
      intros N1 N2 N3. unfold gd2. rewrite dict_get_set_other by exact N1.
      rewrite dict_get_swap_remove_other; [|apply swap_remove_wf; exact gd1_wf|exact N2].
      apply dict_get_swap_remove_other; [exact gd1_wf|exact N3].
    Qed.

    Lemma xdG_get_fent k :
      bytes_eqb (bs "Type") k = false -> bytes_eqb RefWriter.K_Size k = false -> bytes_eqb (bs "W") k = false ->
      bytes_eqb (bs "Index") k = false -> bytes_eqb RefWriter.K_Length k = false -> dict_get (a_trailer a) k = None ->
      dict_get xdG k = dict_get fent k.
    Proof.
      intros E1 E2 E3 E4 E5 Ht. unfold xdG, xdG_of. cbn [app dict_get]. rewrite E1, E2, E3.
      rewrite !dict_get_appG.
      assert (Hi : dict_get idx_partG k = None).
      { destruct idx_partG_cases as [->|[-> _]]; [cbn [dict_get]; rewrite E4; reflexivity|reflexivity]. }
      rewrite Hi, Ht. destruct (dict_get fent k); [reflexivity|]. cbn [dict_get]. rewrite E5. reflexivity.
    Qed.

    Lemma gd1_get_fent k :
      bytes_eqb (bs "Type") k = false -> bytes_eqb RefWriter.K_Size k = false -> bytes_eqb (bs "W") k = false ->
      bytes_eqb (bs "Index") k = false -> bytes_eqb RefWriter.K_Length k = false -> dict_get (a_trailer a) k = None ->
      dict_get gd1 k = dict_get fent k.
    Proof.
      intros E1 E2 E3 E4 E5 Ht.
      assert (Hk : k <> K_Length) by (intro K; subst k; rewrite bytes_eqb_refl in E5; discriminate E5).
      rewrite (gd1_get k Hk). pose proof (xdG_get_fent k E1 E2 E3 E4 E5 Ht) as Hx.
      destruct (dict_get fent k) as [v|] eqn:Ef.
      - unfold ddG. apply dict_get_denote_plain; [exact Hx|].
        assert (Ef' : dict_get (snd (apply_filter f (N.of_nat (gw0 + gw1 + gw2)) arr rawG)) k = Some v) by (rewrite Henc; exact Ef).
        exact (fent_plain _ _ _ _ _ _ Ef').
      - unfold ddG. apply dict_get_denote_none. exact Hx.
    Qed.

    Lemma rawG_rows : rawG <> [] /\ length rawG = (length entsG * (gw0 + gw1 + gw2))%nat.
    Proof.
      assert (Hl : length rawG = (length entsG * (gw0 + gw1 + gw2))%nat) by (unfold rawG, entsG; apply enc_sections_length).
      split; [|exact Hl]. intro E. rewrite E in Hl. cbn [length] in Hl.
      pose proof widthsG_sum as Hw. pose proof entsG_xid as Hx. destruct entsG as [|e0 es]; [contradiction|]. cbn [length] in Hl. nia.
    Qed.

    Lemma decompress_gd1 : decompress_ref gd1 data = Some (gd2, rawG).
    Proof.
      destruct rawG_rows as [Hne Hl].
      assert (Ed : data = fst (apply_filter f (N.of_nat (gw0 + gw1 + gw2)) arr rawG)) by (rewrite Henc; reflexivity).
      assert (Ef : fent = snd (apply_filter f (N.of_nat (gw0 + gw1 + gw2)) arr rawG)) by (rewrite Henc; reflexivity).
      rewrite Ed. unfold gd2.
      apply decompress_ref_ok.
      apply (chain_decodes f (gw0 + gw1 + gw2) (length entsG) arr rawG gd1 Hflt); try assumption.
      - pose proof widthsG_sum. lia.
      - rewrite <- Ef. apply gd1_get_fent; try reflexivity. apply Hxd.
      - rewrite <- Ef. apply gd1_get_fent; try reflexivity. exact Hdp.
    Qed.

    Lemma gd1_has_filter : dict_has gd1 K_Filter = true.
    Proof.
      unfold dict_has. rewrite gd1_get_fent; try reflexivity; [|apply Hxd].
      pose proof (fent_has_filter f (N.of_nat (gw0 + gw1 + gw2)) arr rawG Hflt) as H. rewrite Henc in H. cbn [snd] in H.
      destruct (dict_get fent K_Filter); [reflexivity|contradiction].
    Qed.

    Lemma xr_parseGF : xref_and_trailer_x decompress_ref can_ref FG gxpos = SOk (x0G, t0GF).
    Proof.
      unfold xref_and_trailer_x. rewrite from_gxpos. unfold TAILG. rewrite xobjG_not_table. unfold indirect_x.
      match goal with |- context [indirect_with ?b ?s0 ?e ?l] => pose proof (indirect_with_agrees b s0 e l) as A end.
      rewrite xobjG_parse in A. destruct A as [pos [-> _]].
      change (stream_new ddG data) with (OStream gd1 data). cbv iota.
      unfold filters_modelled, can_ref. rewrite orb_true_r. unfold decode_xref_stream. rewrite gd1_has_filter, decompress_gd1.
      rewrite (decode_fromG gd2); [reflexivity| | |].
      - rewrite gd2_get by discriminate. exact gd1_size.
      - rewrite gd2_get by discriminate. exact gd1_w.
      - apply gd2_get; discriminate.
    Qed.

    Lemma t0GF_clean : dict_get t0GF K_Prev = None /\ dict_has t0GF K_Encrypt = false.
    Proof.
      unfold t0GF, dict_has. rewrite !(LoadProofsStream.sr3_get gd2 _ gd2_wf).
      change (bytes_eqb K_Prev Xref.K_Index || bytes_eqb K_Prev Xref.K_W || bytes_eqb K_Prev K_Length) with false.
      change (bytes_eqb K_Encrypt Xref.K_Index || bytes_eqb K_Encrypt Xref.K_W || bytes_eqb K_Encrypt K_Length) with false.
      cbv iota. rewrite !gd2_get by discriminate.
      rewrite !gd1_absent; try reflexivity; try discriminate; try apply Hxd. split; reflexivity.
    Qed.

    Theorem loads_objstm_filtered : loaded_as t0GF.
    Proof. exact (loads_objstm t0GF xr_parseGF t0GF_clean). Qed.
  End FilteredX.
End GenFile.
