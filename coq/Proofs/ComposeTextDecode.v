(* ComposeTextDecode.v -- C16 "text shown with such an encoding is returned unchanged by text extraction, also after the
   document is saved and reloaded": the [decode] parameter of Proofs/ComposeText.v instantiated with C14's model of
   Content::decode (Model/Parser.v [decode_content]), and C14's round trip (Proofs/ContentProofs.v [content_rt_dom] =
   C14_rt) used to start from the OPERATIONS THE USER WROTE: a page whose content is Content::encode of the text-showing
   operations ([show_ops] / [blocks_ops], as lists of Operation) decodes to those operations, hence the extracted text is
   the shown text -- in memory and after save + load.

   The extraction model works on pairs (operator, operands) ([TextExtract.op]); C14's models work on the record
   [Writer.operation].  [operation_of] / [op_of] are the two directions of that isomorphism. *)
From LV Require Import Base.Bytes Base.Sx Model.Obj Model.DocQ Model.Writer Model.Parser Model.Save
  Model.Xref Model.Loader Model.Utf Gen.Lex Gen.Consts
  Proofs.LexProofs Proofs.RealProofs Proofs.ObjectRtProofs Proofs.ContentProofs Spec.SaveSpec Proofs.ComposeReload.
From LV Require Model.Query.
From LV Require Import Gen.Tables Model.OneByte Model.TextExtract
  Spec.ShownText Spec.ShownBlocks Proofs.TextProofsTables Proofs.TextProofsExtract Proofs.TextProofsBlocks
  Proofs.ComposeText.

Local Open Scope N_scope.

Definition operation_of (o : op) : operation := {| op_operator := fst o; op_operands := snd o |}.
Definition op_of (o : operation) : op := (op_operator o, op_operands o).

(* Content::encode on a list of (operator, operands) *)
Definition content_encode (ops : list op) : bytes := encode_content (map operation_of ops).

(* Content::decode as the page view needs it: the operations, or nothing when decode fails *)
Definition content_decode (b : bytes) : option (list op) :=
  match decode_content b with DecOk ops => Some (map op_of ops) | _ => None end.

(* ---------- plain operations of C14's domain, on pairs ---------- *)
Definition operand_dom (o : obj) : Prop := obj_wf o /\ ref_ok false o /\ (nest o <= MAX_DEPTH)%nat.

Definition plain_ok (o : op) : Prop :=
  alphabet_op (fst o) = true /\ keyword_op (fst o) = false /\
  Forall operand_dom (snd o) /\
  (snd o = [] -> bytes_eqb K_BI (fst o) = false).

Definition norm_pair (o : op) : op := (fst o, map norm_obj (snd o)).

Lemma norm_operand_wf o : obj_wf o -> norm_operand o = norm_obj o.
Proof. destruct 1; reflexivity. Qed.

Lemma plain_ok_dom o : plain_ok o -> op_dom (operation_of o) /\ known_class (operation_of o) = false.
Proof.
  intros (Ha & Hk & Hops & Hbi). split.
  - split; [exact Ha|]. left. split; [exact Hk|]. split; [|exact Hbi].
    cbn [operation_of op_operands]. rewrite Forall_forall in *. intros x Hx. destruct (Hops x Hx) as (A & B & _). split; assumption.
  - unfold known_class, too_deep_op. cbn [operation_of op_operands].
    destruct (existsb (fun o0 => Nat.ltb MAX_DEPTH (nest o0)) (snd o)) eqn:E; [|reflexivity].
    apply existsb_exists in E as (x & Hx & Hlt). rewrite Forall_forall in Hops. destruct (Hops x Hx) as (_ & _ & C).
    apply Nat.ltb_lt in Hlt. lia.
Qed.

Lemma op_of_norm o : plain_ok o -> op_of (norm_op (operation_of o)) = norm_pair o.
Proof.
  intros (_ & _ & Hops & _). unfold op_of, norm_op, norm_pair. cbn [operation_of op_operator op_operands]. f_equal.
  apply map_ext_in. intros x Hx. rewrite Forall_forall in Hops. apply norm_operand_wf. apply (Hops x Hx).
Qed.

(* C14_rt on pairs: what was encoded decodes to the same operations, reals in normal form *)
Theorem content_decode_encode ops :
  Forall plain_ok ops -> content_decode (content_encode ops) = Some (map norm_pair ops).
Proof.
  intro H. unfold content_decode, content_encode.
  rewrite (content_rt_dom (map operation_of ops)).
  - f_equal. rewrite !map_map. apply map_ext_in. intros o Ho. rewrite Forall_forall in H. apply op_of_norm. apply (H o Ho).
  - apply Forall_forall. intros x Hx. apply in_map_iff in Hx as (o & <- & Ho). rewrite Forall_forall in H.
    apply (plain_ok_dom o (H o Ho)).
  - apply Forall_forall. intros x Hx. apply in_map_iff in Hx as (o & <- & Ho). rewrite Forall_forall in H.
    apply (plain_ok_dom o (H o Ho)).
Qed.

(* ---------- the text-showing operations are in that domain ---------- *)
(* an adjustment of a TJ array is an Object::Integer: an i64 *)
Definition item_i64 (i : item) : Prop := match i with IAdjust k => in_i64 k = true | IText _ _ => True end.
Definition piece_i64 (p : piece) : Prop := match p with PTj _ _ => True | PTJ items => Forall item_i64 items end.

Lemma MAX_DEPTH_pos : (1 <= MAX_DEPTH)%nat.
Proof. vm_compute. lia. Qed.

Lemma item_obj_dom t i : item_i64 i -> obj_wf (item_obj t i) /\ nest (item_obj t i) = 0%nat /\ norm_obj (item_obj t i) = item_obj t i.
Proof. destruct i as [s hex|k]; cbn [item_i64 item_obj]; intro H; repeat split; constructor; exact H. Qed.

Lemma items_nest t items : Forall item_i64 items ->
  fold_right (fun x m => Nat.max (nest x) m) 0%nat (map (item_obj t) items) = 0%nat.
Proof.
  induction 1 as [|i items Hi _ IH]; [reflexivity|]. cbn [map fold_right].
  destruct (item_obj_dom t i Hi) as (_ & -> & _). rewrite IH. reflexivity.
Qed.

Lemma piece_op_ok t p : piece_i64 p -> plain_ok (piece_op t p) /\ norm_pair (piece_op t p) = piece_op t p.
Proof.
  destruct p as [s hex|items]; cbn [piece_i64 piece_op]; intro H.
  - split; [|reflexivity]. split; [reflexivity|]. split; [reflexivity|]. split; [|discriminate].
    constructor; [|constructor]. split; [constructor|]. split; [exact I|]. cbn [nest]. lia.
  - split.
    + split; [reflexivity|]. split; [reflexivity|]. split; [|discriminate].
      constructor; [|constructor]. split; [|split; [exact I|]].
      * constructor. apply Forall_forall. intros x Hx. apply in_map_iff in Hx as (i & <- & Hi).
        rewrite Forall_forall in H. apply (item_obj_dom t i (H i Hi)).
      * cbn [nest]. rewrite (items_nest t items H). exact MAX_DEPTH_pos.
    + unfold norm_pair. cbn [fst snd map norm_obj]. do 3 f_equal. rewrite map_map. apply map_ext_in.
      intros i Hi. rewrite Forall_forall in H. apply (item_obj_dom t i (H i Hi)).
Qed.

Lemma keyword_free_ok (k : bytes) (l : list obj) :
  alphabet_op k = true -> keyword_op k = false -> bytes_eqb K_BI k = false -> Forall operand_dom l -> plain_ok (k, l).
Proof. intros A B C D. split; [exact A|]. split; [exact B|]. split; [exact D|]. intros _. exact C. Qed.

Lemma pieces_ok t ps : Forall piece_i64 ps ->
  Forall plain_ok (map (piece_op t) ps) /\ map norm_pair (map (piece_op t) ps) = map (piece_op t) ps.
Proof.
  induction 1 as [|p ps Hp _ [IH1 IH2]]; [split; [constructor | reflexivity]|]. cbn [map].
  destruct (piece_op_ok t p Hp) as [A B]. split; [constructor; assumption|]. rewrite B, IH2. reflexivity.
Qed.

Lemma Tf_ok fname size : operand_dom size ->
  plain_ok (K_Tf, [OName fname; size]) /\ norm_pair (K_Tf, [OName fname; size]) = (K_Tf, [OName fname; norm_obj size]).
Proof.
  intro Hs. split; [|reflexivity]. apply keyword_free_ok; try reflexivity.
  constructor; [|constructor; [exact Hs|constructor]]. split; [constructor|]. split; [exact I|]. cbn [nest]. lia.
Qed.

Lemma BT_ok : plain_ok (K_BT, []) /\ norm_pair (K_BT, []) = (K_BT, []).
Proof. split; [|reflexivity]. apply keyword_free_ok; try reflexivity. constructor. Qed.
Lemma ET_ok : plain_ok (K_ET, []) /\ norm_pair (K_ET, []) = (K_ET, []).
Proof. split; [|reflexivity]. apply keyword_free_ok; try reflexivity. constructor. Qed.

Lemma Forall_app_intro {A} (P : A -> Prop) l1 l2 : Forall P l1 -> Forall P l2 -> Forall P (l1 ++ l2).
Proof. intros H1 H2. apply Forall_app. split; assumption. Qed.

Lemma block_ops_ok t ps : Forall piece_i64 ps ->
  Forall plain_ok (block_ops t ps) /\ map norm_pair (block_ops t ps) = block_ops t ps.
Proof.
  intro H. destruct (pieces_ok t ps H) as [A B]. unfold block_ops. split.
  - constructor; [apply BT_ok|]. apply Forall_app_intro; [exact A|]. constructor; [apply ET_ok | constructor].
  - cbn [map]. rewrite map_app, B. reflexivity.
Qed.

Lemma show_ops_ok fname size t ps : operand_dom size -> Forall piece_i64 ps ->
  Forall plain_ok (show_ops fname size t ps) /\
  map norm_pair (show_ops fname size t ps) = show_ops fname (norm_obj size) t ps.
Proof.
  intros Hs H. destruct (pieces_ok t ps H) as [A B]. destruct (Tf_ok fname size Hs) as [T1 T2]. unfold show_ops. split.
  - constructor; [apply BT_ok|]. constructor; [exact T1|]. apply Forall_app_intro; [exact A|]. constructor; [apply ET_ok | constructor].
  - cbn [map]. rewrite map_app, B, T2. reflexivity.
Qed.

Lemma flat_blocks_ok t bss : Forall (Forall piece_i64) bss ->
  Forall plain_ok (flat_map (block_ops t) bss) /\ map norm_pair (flat_map (block_ops t) bss) = flat_map (block_ops t) bss.
Proof.
  induction 1 as [|ps bss Hp _ [IH1 IH2]]; [split; [constructor | reflexivity]|]. cbn [flat_map].
  destruct (block_ops_ok t ps Hp) as [A B]. split; [apply Forall_app_intro; assumption|]. rewrite map_app, B, IH2. reflexivity.
Qed.

Lemma blocks_ops_ok inside fname size t bss : operand_dom size -> Forall (Forall piece_i64) bss ->
  Forall plain_ok (blocks_ops inside fname size t bss) /\
  map norm_pair (blocks_ops inside fname size t bss) = blocks_ops inside fname (norm_obj size) t bss.
Proof.
  intros Hs H. unfold blocks_ops. destruct inside.
  - destruct H as [|ps rest Hp Hr]; [split; [constructor | reflexivity]|].
    destruct (show_ops_ok fname size t ps Hs Hp) as [A B]. destruct (flat_blocks_ok t rest Hr) as [C D].
    split; [apply Forall_app_intro; assumption|]. rewrite map_app, B, D. reflexivity.
  - destruct (Tf_ok fname size Hs) as [T1 T2]. destruct (flat_blocks_ok t bss H) as [C D].
    split; [constructor; assumption|]. cbn [map]. rewrite T2, D. reflexivity.
Qed.

(* Content::decode (Content::encode (the operations that show ps)) = those operations *)
Theorem decode_show_ops fname size t ps : operand_dom size -> Forall piece_i64 ps ->
  content_decode (content_encode (show_ops fname size t ps)) = Some (show_ops fname (norm_obj size) t ps).
Proof.
  intros Hs H. destruct (show_ops_ok fname size t ps Hs H) as [A B]. rewrite (content_decode_encode _ A), B. reflexivity.
Qed.

Theorem decode_blocks_ops inside fname size t bss : operand_dom size -> Forall (Forall piece_i64) bss ->
  content_decode (content_encode (blocks_ops inside fname size t bss)) = Some (blocks_ops inside fname (norm_obj size) t bss).
Proof.
  intros Hs H. destruct (blocks_ops_ok inside fname size t bss Hs H) as [A B]. rewrite (content_decode_encode _ A), B. reflexivity.
Qed.

(* ---------- the page view of a document whose page content was written by Content::encode ---------- *)
Section Written.
  Variable decomp : dict -> bytes -> option bytes.       (* Stream::decompressed_content: any function *)

  (* the page [pid] of [m] has exactly the font [fname] and its content is Content::encode of [ops] *)
  Definition page_written (fuel : nat) (m : objmap) (pid : oid) (fname : bytes) (font : dict) (ops : list op) : Prop :=
    Query.get_page_fonts fuel m pid = Query.Ok [(fname, font)] /\
    Query.get_page_content decomp fuel m pid = Query.Ok (content_encode ops).

  Lemma doc_page_written fuel m pid fname font ops :
    page_written fuel m pid fname font ops -> Forall plain_ok ops ->
    doc_page decomp content_decode fuel m pid = Some {| p_fonts := [(fname, font)]; p_ops := map norm_pair ops |}.
  Proof.
    intros [Hf Hc] Hops. unfold doc_page. rewrite Hf, Hc, (content_decode_encode ops Hops). reflexivity.
  Qed.

  (* one text object, from the operations written: in memory ... *)
  Theorem extract_written fuel m pid font t fname size ps :
    page_written fuel m pid fname font (show_ops fname size t ps) ->
    operand_dom size -> Forall piece_i64 ps ->
    get_font_encoding font = Ok (EncOneByte t) ->
    Forall (piece_over (in_repertoire t)) ps ->
    exists p, doc_page decomp content_decode fuel m pid = Some p /\ extract_text [p] [1] = Ok (shown_text ps).
  Proof.
    intros Hw Hs Hi He Hp. destruct (show_ops_ok fname size t ps Hs Hi) as [A B].
    exists (page_showing fname font (norm_obj size) t ps). split.
    - rewrite (doc_page_written fuel m pid fname font _ Hw A), B. reflexivity.
    - apply extract_shown_text; assumption.
  Qed.

  (* ... and after save + load *)
  Theorem extract_written_after_save_load xt d fuel pid font t fname size ps :
    savable d -> known_deep d = false -> small_file xt d -> unreferenced xt d ->
    content_normal fuel (d_objects d) pid ->
    page_written fuel (d_objects d) pid fname font (show_ops fname size t ps) ->
    operand_dom size -> Forall piece_i64 ps ->
    get_font_encoding font = Ok (EncOneByte t) ->
    Forall (piece_over (in_repertoire t)) ps ->
    exists d' p',
      load (so_bytes (save xt d)) = LOk d' (xtype_of xt) /\
      doc_page decomp content_decode fuel (d_objects d') pid = Some p' /\
      extract_text [p'] [1] = Ok (shown_text ps).
  Proof.
    intros S K Hsm U Hn Hw Hs Hi He Hp. destruct (show_ops_ok fname size t ps Hs Hi) as [A B].
    apply (extract_shown_after_save_load decomp content_decode xt d fuel pid font t fname (norm_obj size) ps); try assumption.
    rewrite (doc_page_written fuel _ pid fname font _ Hw A), B. reflexivity.
  Qed.

  (* several text objects, the font selected once *)
  Theorem extract_written_blocks_after_save_load xt d fuel pid font t inside fname size bss :
    savable d -> known_deep d = false -> small_file xt d -> unreferenced xt d ->
    content_normal fuel (d_objects d) pid ->
    page_written fuel (d_objects d) pid fname font (blocks_ops inside fname size t bss) ->
    operand_dom size -> Forall (Forall piece_i64) bss ->
    get_font_encoding font = Ok (EncOneByte t) ->
    Forall (Forall (piece_over (in_repertoire t))) bss -> Forall block_shows bss ->
    exists d' p',
      load (so_bytes (save xt d)) = LOk d' (xtype_of xt) /\
      doc_page decomp content_decode fuel (d_objects d') pid = Some p' /\
      extract_text [p'] [1] = Ok (shown_blocks bss).
  Proof.
    intros S K Hsm U Hn Hw Hs Hi He Hp Hb. destruct (blocks_ops_ok inside fname size t bss Hs Hi) as [A B].
    apply (extract_blocks_after_save_load decomp content_decode xt d fuel pid font t inside fname (norm_obj size) bss); try assumption.
    rewrite (doc_page_written fuel _ pid fname font _ Hw A), B. reflexivity.
  Qed.
End Written.
