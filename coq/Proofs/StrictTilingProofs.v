(* StrictTilingProofs.v -- C03: the span bookkeeping of the strict reader (Spec/StrictReader.v:
   sort_spans, tiles) evaluated on span lists of a known shape.  Facts about the specification
   alone (no model of the writer):
     - [sort_unique]: insertion sort returns THE ascending arrangement of its input;
     - [tiles_seg], [tiles_dup], [tiles_empty]: the tiling check walks over a chain of consecutive
       non-empty spans, skips an identical repetition and an empty span. *)
From LV Require Import Base.Bytes Model.Obj Spec.StrictReader Proofs.StrictReaderProofs.
From Coq Require Import Permutation Sorted.

Local Open Scope N_scope.

(* ---------- insertion sort ---------- *)
Definition fle (a b : spanT) : Prop := fst a <= fst b.

Lemma ins_span_perm a l : Permutation (a :: l) (ins_span a l).
Proof.
  induction l as [|b l IH]; cbn [ins_span]; [apply Permutation_refl|].
  destruct (fst a <=? fst b); [apply Permutation_refl|].
  eapply perm_trans; [apply perm_swap|]. apply perm_skip. exact IH.
Qed.

Lemma sort_spans_perm l : Permutation l (sort_spans l).
Proof.
  induction l as [|a l IH]; cbn [sort_spans fold_right]; [constructor|].
  eapply perm_trans; [apply perm_skip; exact IH|]. apply ins_span_perm.
Qed.

Lemma ins_span_sorted a l : StronglySorted fle l -> StronglySorted fle (ins_span a l).
Proof.
  induction 1 as [|b l Hs IH Hb]; cbn [ins_span]; [constructor; constructor|].
  destruct (fst a <=? fst b) eqn:E.
  - apply N.leb_le in E. constructor; [constructor; assumption|].
    constructor; [exact E|]. eapply Forall_impl; [|exact Hb]. intros c Hc. unfold fle in *. lia.
  - apply N.leb_gt in E. constructor; [exact IH|].
    eapply Permutation_Forall; [apply ins_span_perm|]. constructor; [unfold fle; lia | exact Hb].
Qed.

Lemma sort_spans_sorted l : StronglySorted fle (sort_spans l).
Proof. induction l as [|a l IH]; cbn [sort_spans fold_right]; [constructor|]. apply ins_span_sorted. exact IH. Qed.

(* ascending, and equal first components only between equal spans *)
Definition fleq (a b : spanT) : Prop := fst a < fst b \/ a = b.

Lemma sorted_unique : forall c s,
  StronglySorted fleq c -> StronglySorted fle s -> Permutation s c -> s = c.
Proof.
  induction c as [|a c IH]; intros s Hc Hs Hp.
  - apply Permutation_sym, Permutation_nil in Hp. exact Hp.
  - destruct s as [|b s]; [apply Permutation_nil in Hp; discriminate|].
    inversion Hc as [|? ? Hc' Ha]; subst. inversion Hs as [|? ? Hs' Hb]; subst.
    assert (Hab : a = b).
    { assert (Hin1 : In b (a :: c)) by (eapply Permutation_in; [exact Hp | left; reflexivity]).
      assert (Hin2 : In a (b :: s)) by (eapply Permutation_in; [apply Permutation_sym; exact Hp | left; reflexivity]).
      destruct Hin1 as [E|Hin1]; [exact E|]. destruct Hin2 as [E|Hin2]; [symmetry; exact E|].
      rewrite Forall_forall in Ha, Hb. specialize (Ha _ Hin1). specialize (Hb _ Hin2).
      destruct Ha as [Ha|Ha]; [unfold fle in Hb; lia | exact Ha]. }
    subst b. f_equal. apply IH; try assumption. eapply Permutation_cons_inv. exact Hp.
Qed.

Theorem sort_unique l c : Permutation l c -> StronglySorted fleq c -> sort_spans l = c.
Proof.
  intros Hp Hc. apply sorted_unique; [exact Hc | apply sort_spans_sorted|].
  eapply perm_trans; [apply Permutation_sym, sort_spans_perm | exact Hp].
Qed.

(* ---------- building ascending lists ---------- *)
Lemma chain_bounds : forall c l fin, chain c l fin -> Forall (fun ab => c <= fst ab /\ fst ab < fin) l.
Proof.
  induction 1 as [c|a b l fin Hab Hc IH]; [constructor|].
  pose proof (chain_le _ _ _ Hc). constructor; [cbn [fst]; lia|].
  eapply Forall_impl; [|exact IH]. intros x [H1 H2]. lia.
Qed.

Lemma chain_fleq : forall c l fin, chain c l fin -> StronglySorted fleq l.
Proof.
  induction 1 as [c|a b l fin Hab Hc IH]; [constructor|]. constructor; [exact IH|].
  pose proof (chain_bounds _ _ _ Hc) as Hb. eapply Forall_impl; [|exact Hb].
  intros x [H1 _]. left. cbn [fst]. lia.
Qed.

Lemma chain_app : forall c l1 m l2 fin, chain c l1 m -> chain m l2 fin -> chain c (l1 ++ l2) fin.
Proof. induction 1 as [c|a b l m Hab Hc IH]; intro H2; cbn [app]; [exact H2|]. constructor; [exact Hab | apply IH; exact H2]. Qed.

Lemma sorted_app (R : spanT -> spanT -> Prop) l1 l2 :
  StronglySorted R l1 -> StronglySorted R l2 -> (forall a b, In a l1 -> In b l2 -> R a b) ->
  StronglySorted R (l1 ++ l2).
Proof.
  intros H1 H2 H. induction H1 as [|a l1 Hs IH Ha]; [exact H2|]. cbn [app]. constructor.
  - apply IH. intros x y Hx Hy. apply H; [right; exact Hx | exact Hy].
  - apply Forall_app. split; [exact Ha|]. apply Forall_forall. intros y Hy. apply H; [left; reflexivity | exact Hy].
Qed.

(* ---------- the tiling check ---------- *)
Lemma tiles_empty cur prev a l : tiles cur prev ((a, a) :: l) = tiles cur prev l.
Proof. cbn [tiles]. rewrite N.eqb_refl. reflexivity. Qed.

Lemma tiles_dup cur a b l : a < b -> tiles cur (a, b) ((a, b) :: l) = tiles cur (a, b) l.
Proof.
  intro H. cbn [tiles fst snd].
  replace (a =? b) with false by (symmetry; apply N.eqb_neq; lia).
  replace (b <? a) with false by (symmetry; apply N.ltb_ge; lia).
  rewrite !N.eqb_refl. reflexivity.
Qed.

Lemma last_cons : forall (l : list (N * N)) (x d : N * N), last (x :: l) d = last l x.
Proof.
  induction l as [|y l IH]; intros x d; [reflexivity|].
  change (last (x :: y :: l) d) with (last (y :: l) d). rewrite (IH y d), (IH y x). reflexivity.
Qed.

Lemma tiles_seg : forall l1 cur cur' prev l2,
  chain cur l1 cur' -> snd prev <= cur ->
  tiles cur prev (l1 ++ l2) = tiles cur' (last l1 prev) l2 /\ snd (last l1 prev) <= cur'.
Proof.
  intros l1 cur cur' prev l2 H. revert prev. unfold spanT in *. induction H as [c|a b l fin Hab Hc IH]; intros prev Hp.
  - cbn [app last]. split; [reflexivity | exact Hp].
  - rewrite (last_cons l (a, b) prev). cbn [app tiles].
    replace (a =? b) with false by (symmetry; apply N.eqb_neq; lia).
    replace (b <? a) with false by (symmetry; apply N.ltb_ge; lia).
    replace (b =? snd prev) with false by (symmetry; apply N.eqb_neq; lia).
    rewrite andb_false_r, N.eqb_refl.
    destruct (IH (a, b) ltac:(cbn [snd]; lia)) as [E1 E2].
    rewrite E1. split; [reflexivity | exact E2].
Qed.
