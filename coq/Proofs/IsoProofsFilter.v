(* IsoProofsFilter.v -- C06: crypt filter selection (ISO 32000 7.6.6, 7.4.10).  lopdf's get_stream_filter /
   get_string_filter / per-stream override pick the method the standard prescribes: StmF and StrF through CF, the
   predefined name Identity, the Crypt filter of a stream with its DecodeParms Name (default Identity), RC4 when
   V < 4.  This discharges the hypothesis [agree] of Proofs/IsoProofsObj.v from a structural correspondence. *)
From LV Require Import Base.Bytes Base.Sx Model.Obj Model.DocQ Gen.Crypto
  Model.Crypto.Word Model.Crypto.RC4 Model.Crypto.PKCS5 Model.Crypto.Handler
  Spec.Crypto.Iso Spec.Crypto.IsoConcrete
  Proofs.CryptoProofs Proofs.CryptoProofsFilter Proofs.CryptoProofsObject Proofs.IsoProofs Proofs.IsoProofsData
  Proofs.IsoProofsObj.
Local Open Scope N_scope.

(* lopdf's BTreeMap of filters holds what the standard's CF dictionary defines *)
Definition cf_agree (m : cfmap) (cf : list (bytes * icfm)) : Prop :=
  forall n, bt_get m n = option_map (fun c => meth_cfm (method_of_cfm c)) (cf_lookup cf n).

Definition defined (ip : iparams) (n : bytes) : Prop := n = iN_Identity \/ cf_lookup (ip_CF ip) n <> None.

(* the correspondence between lopdf's EncryptionState and the standard's encryption dictionary *)
Record state_matches (st : estate) (ip : iparams) (fek : bytes) : Prop := {
  sm_key : es_key st = fek;
  sm_key_len : (1 <= length fek)%nat;
  sm_em : es_encrypt_metadata st = ip_EncryptMetadata ip;
  (* V < 4: EncryptionState::decode clears the filters and leaves the names empty *)
  sm_v3 : (ip_V ip <? 4)%Z = true -> es_crypt_filters st = [] /\ es_stmf st = [] /\ es_strf st = [] /\ es_eff st = None;
  (* V = 4, 5 *)
  sm_cf : (ip_V ip <? 4)%Z = false -> cf_agree (es_crypt_filters st) (ip_CF ip);
  sm_stmf : (ip_V ip <? 4)%Z = false -> es_stmf st = ip_StmF ip /\ defined ip (ip_StmF ip);
  sm_strf : (ip_V ip <? 4)%Z = false -> es_strf st = ip_StrF ip /\ defined ip (ip_StrF ip);
  (* Identity is predefined and "shall not" be redefined in CF *)
  sm_identity : (ip_V ip <? 4)%Z = false -> cf_lookup (ip_CF ip) iN_Identity = None;
  (* EFF: the crypt filter of the embedded file streams *)
  sm_eff : (ip_V ip <? 4)%Z = false -> es_eff st = ip_EFF ip /\ (forall e, ip_EFF ip = Some e -> defined ip e);
  (* the key sizes of the methods in use (crypt filters are used for V 4 and 5 only) *)
  sm_ok : (ip_V ip <? 4)%Z = false -> forall n, method_ok (resolve ip n) fek;
}.

Lemma bytes_eqb_sym a b : bytes_eqb a b = bytes_eqb b a.
Proof.
  destruct (bytes_eqb a b) eqn:E1, (bytes_eqb b a) eqn:E2; try reflexivity.
  - apply bytes_eqb_eq in E1. subst. rewrite bytes_eqb_refl in E2. discriminate.
  - apply bytes_eqb_eq in E2. subst. rewrite bytes_eqb_refl in E1. discriminate.
Qed.

Lemma resolve_agree st ip fek n : state_matches st ip fek -> (ip_V ip <? 4)%Z = false -> defined ip n ->
  get_crypt_filter st n = meth_cfm (resolve ip n).
Proof.
  intros SM HV Hdef. unfold get_crypt_filter, resolve. change N_Identity with iN_Identity.
  destruct (bytes_eqb n iN_Identity) eqn:E; [reflexivity|].
  rewrite (sm_cf _ _ _ SM HV n).
  destruct Hdef as [->|Hd]; [rewrite bytes_eqb_refl in E; discriminate|].
  destruct (cf_lookup (ip_CF ip) n); [reflexivity|congruence].
Qed.

(* a name found in DecodeParms: any name, defined or not *)
Lemma override_agree st ip fek n : state_matches st ip fek -> (ip_V ip <? 4)%Z = false ->
  match bt_get (es_crypt_filters st) n with Some f => f | None => CF_Identity end = meth_cfm (resolve ip n).
Proof.
  intros SM HV. unfold resolve. rewrite (sm_cf _ _ _ SM HV n).
  destruct (bytes_eqb n iN_Identity) eqn:E.
  - apply bytes_eqb_eq in E. subst n. rewrite (sm_identity _ _ _ SM HV). reflexivity.
  - destruct (cf_lookup (ip_CF ip) n); reflexivity.
Qed.

(* Stream::filters on an array of names, and the position of Crypt in it *)
Lemma names_position l : all_names l ->
  exists fs, omap (fun o => match o with OName n => Some n | _ => None end) l = Some fs /\
             position N_Crypt fs = index_of_name iN_Crypt l.
Proof.
  induction 1 as [|x l Hx _ [fs [E1 E2]]].
  - exists []. split; reflexivity.
  - destruct x; try contradiction. exists (n :: fs). cbn [omap]. rewrite E1. split; [reflexivity|].
    cbn [position index_of_name]. rewrite E2. reflexivity.
Qed.

(* the crypt filter the decode parameters name (default Identity), as lopdf and as the standard look it up *)
Lemma params_agree st ip fek (params : option obj) : state_matches st ip fek -> (ip_V ip <? 4)%Z = false ->
  match params with
  | Some (ODict dp) =>
    match dict_get dp K_Name with
    | Some (OName n) => match bt_get (es_crypt_filters st) n with Some f => f | None => CF_Identity end
    | _ => CF_Identity
    end
  | _ => CF_Identity
  end =
  meth_cfm (resolve ip (match params with
                        | Some (ODict p) => match dict_get p iK_Name with Some (OName n) => n | _ => iN_Identity end
                        | _ => iN_Identity
                        end)).
Proof.
  intros SM HV. change K_Name with iK_Name.
  assert (Hid : CF_Identity = meth_cfm (resolve ip iN_Identity)) by reflexivity.
  destruct params as [[| | | | | | | dp | |]|]; try exact Hid.
  destruct (dict_get dp iK_Name) as [[| | | | n | | | | |]|]; try exact Hid.
  apply (override_agree st ip fek n SM HV).
Qed.

Lemma embedded_type_eq sd : has_type sd N_EmbeddedFile = dict_type_is sd iN_EmbeddedFile.
Proof. reflexivity. Qed.

(* without a Crypt filter of its own: EFF for embedded file streams, else StmF *)
Lemma default_agree st ip fek sd : state_matches st ip fek -> (ip_V ip <? 4)%Z = false ->
  (if has_type sd N_EmbeddedFile then embedded_file_filter st else stream_filter st) =
  meth_cfm (match ip_EFF ip with
            | Some eff => if dict_type_is sd iN_EmbeddedFile then resolve ip eff else resolve ip (ip_StmF ip)
            | None => resolve ip (ip_StmF ip)
            end).
Proof.
  intros SM HV. destruct (sm_stmf _ _ _ SM HV) as [Estm Hdef]. destruct (sm_eff _ _ _ SM HV) as [Eeff Hdeff].
  assert (Hdflt : stream_filter st = meth_cfm (resolve ip (ip_StmF ip))).
  { unfold stream_filter. rewrite Estm. apply (resolve_agree st ip fek _ SM HV Hdef). }
  rewrite embedded_type_eq. unfold embedded_file_filter. rewrite Eeff.
  destruct (ip_EFF ip) as [eff|].
  - destruct (dict_type_is sd iN_EmbeddedFile); [|exact Hdflt].
    apply (resolve_agree st ip fek _ SM HV (Hdeff eff eq_refl)).
  - destruct (dict_type_is sd iN_EmbeddedFile); exact Hdflt.
Qed.

Theorem stream_cf_agree st ip fek sd c : state_matches st ip fek -> stream_ok ip sd ->
  stream_cf st (OStream sd c) = meth_cfm (stream_method ip sd).
Proof.
  intros SM [Hflt Hv3]. unfold stream_cf, stream_method.
  destruct (ip_V ip <? 4)%Z eqn:HV.
  - (* V < 4: no crypt filters; everything is RC4 *)
    specialize (Hv3 eq_refl). destruct (sm_v3 _ _ _ SM HV) as (Ecf & Estm & _ & Eeff).
    assert (Hov : override_filter st (OStream sd c) = None).
    { unfold override_filter, stream_filters. unfold crypt_filter_name in Hv3.
      change K_Filter with iK_Filter. destruct (dict_get sd iK_Filter) as [[| | | | f | | l | | |]|]; try reflexivity.
      - cbn [position]. change N_Crypt with iN_Crypt.
        destruct (bytes_eqb f iN_Crypt); [discriminate|reflexivity].
      - destruct (names_position l Hflt) as [fs [E1 E2]]. rewrite E1, E2.
        destruct (index_of_name iN_Crypt l); [discriminate|reflexivity]. }
    rewrite Hov. unfold embedded_file_filter, stream_filter, get_crypt_filter. rewrite Eeff, Estm, Ecf.
    destruct (has_type sd N_EmbeddedFile); reflexivity.
  - pose proof (default_agree st ip fek sd SM HV) as Hdflt.
    unfold override_filter, stream_filters, crypt_filter_name.
    change K_Filter with iK_Filter. change K_DecodeParms with iK_DecodeParms.
    destruct (dict_get sd iK_Filter) as [[| | | | f | | l | | |]|]; try exact Hdflt.
    + cbn [position]. change N_Crypt with iN_Crypt.
      destruct (bytes_eqb f iN_Crypt) eqn:Ef; [|exact Hdflt]. specialize (Hflt eq_refl).
      destruct (dict_get sd iK_DecodeParms) as [[| | | | | | ps | dp | |]|]; try contradiction; try reflexivity.
      exact (params_agree st ip fek (Some (ODict dp)) SM HV).
    + destruct (names_position l Hflt) as [fs [E1 E2]]. rewrite E1, E2.
      destruct (index_of_name iN_Crypt l) as [k|]; [|exact Hdflt].
      destruct (dict_get sd iK_DecodeParms) as [[| | | | | | ps | dp | |]|]; try reflexivity.
      * exact (params_agree st ip fek (nth_error ps k) SM HV).
      * exact (params_agree st ip fek (Some (ODict dp)) SM HV).
Qed.

Theorem string_filter_agree st ip fek : state_matches st ip fek ->
  string_filter st = meth_cfm (string_method ip).
Proof.
  intro SM. unfold string_filter, string_method.
  destruct (ip_V ip <? 4)%Z eqn:HV.
  - destruct (sm_v3 _ _ _ SM HV) as (Ecf & _ & Estr & _). unfold get_crypt_filter. rewrite Estr, Ecf. reflexivity.
  - destruct (sm_strf _ _ _ SM HV) as [Estr Hdef]. rewrite Estr. apply (resolve_agree st ip fek _ SM HV Hdef).
Qed.

Theorem agree_of_state st ip fek : state_matches st ip fek -> agree st ip fek.
Proof.
  intro SM. constructor.
  - exact (sm_key _ _ _ SM).
  - exact (sm_key_len _ _ _ SM).
  - exact (sm_em _ _ _ SM).
  - exact (string_filter_agree st ip fek SM).
  - unfold string_method. destruct (ip_V ip <? 4)%Z eqn:HV; [exact Logic.I|apply (sm_ok _ _ _ SM HV)].
  - intros sd c Hok. exact (stream_cf_agree st ip fek sd c SM Hok).
  - intro sd. unfold stream_method.
    destruct (ip_V ip <? 4)%Z eqn:HV; [exact Logic.I|]. destruct (crypt_filter_name sd); [apply (sm_ok _ _ _ SM HV)|].
    destruct (ip_EFF ip); [destruct (dict_type_is sd iN_EmbeddedFile)|]; apply (sm_ok _ _ _ SM HV).
Qed.
