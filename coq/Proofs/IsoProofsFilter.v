(* IsoProofsFilter.v -- C06: crypt filter selection (ISO 32000 7.6.6, 7.4.10).  lopdf's get_stream_filter /
   get_string_filter / per-stream override pick the method the standard prescribes: StmF and StrF through CF, the
   predefined name Identity, the Crypt filter of a stream with its DecodeParms Name (default Identity), RC4 when
   V < 4.  This discharges the hypothesis [agree] of Proofs/IsoProofsObj.v from a structural correspondence. *)
From LV Require Import Base.Bytes Base.Sx Model.Obj Model.DocQ Gen.Crypto
  Model.Crypto.Word Model.Crypto.RC4 Model.Crypto.PKCS5 Model.Crypto.Handler
  Spec.Crypto.Iso Spec.Crypto.IsoConcrete
  Proofs.CryptoProofs Proofs.CryptoProofsFilter Proofs.CryptoProofsObject Proofs.IsoProofs Proofs.IsoProofsData
  Proofs.IsoProofsObj.
Local Open Scope N_scope.

(* lopdf's BTreeMap of filters holds what the standard's CF dictionary defines *)
Definition cf_agree (m : cfmap) (cf : list (bytes * icfm)) : Prop :=
  forall n, bt_get m n = option_map (fun c => meth_cfm (method_of_cfm c)) (cf_lookup cf n).

Definition defined (ip : iparams) (n : bytes) : Prop := n = iN_Identity \/ cf_lookup (ip_CF ip) n <> None.

(* the correspondence between lopdf's EncryptionState and the standard's encryption dictionary *)
Record state_matches (st : estate) (ip : iparams) (fek : bytes) : Prop := {
  sm_key : es_key st = fek;
  sm_key_len : (1 <= length fek)%nat;
  sm_em : es_encrypt_metadata st = ip_EncryptMetadata ip;
  (* V < 4: EncryptionState::decode clears the filters and leaves the names empty *)
  sm_v3 : (ip_V ip <? 4)%Z = true -> es_crypt_filters st = [] /\ es_stmf st = [] /\ es_strf st = [];
  (* V = 4, 5 *)
  sm_cf : (ip_V ip <? 4)%Z = false -> cf_agree (es_crypt_filters st) (ip_CF ip);
  sm_stmf : (ip_V ip <? 4)%Z = false -> es_stmf st = ip_StmF ip /\ defined ip (ip_StmF ip);
  sm_strf : (ip_V ip <? 4)%Z = false -> es_strf st = ip_StrF ip /\ defined ip (ip_StrF ip);
  (* Identity is predefined and "shall not" be redefined in CF *)
  sm_identity : cf_lookup (ip_CF ip) iN_Identity = None;
  (* lopdf has no EFF: the embedded file streams use the stream filter *)
  sm_eff : ip_EFF ip = None;
  (* the key sizes of the methods in use *)
  sm_ok : forall n, method_ok (resolve ip n) fek;
}.

Lemma bytes_eqb_sym a b : bytes_eqb a b = bytes_eqb b a.
Proof.
  destruct (bytes_eqb a b) eqn:E1, (bytes_eqb b a) eqn:E2; try reflexivity.
  - apply bytes_eqb_eq in E1. subst. rewrite bytes_eqb_refl in E2. discriminate.
  - apply bytes_eqb_eq in E2. subst. rewrite bytes_eqb_refl in E1. discriminate.
Qed.

Lemma resolve_agree st ip fek n : state_matches st ip fek -> (ip_V ip <? 4)%Z = false -> defined ip n ->
  get_crypt_filter st n = meth_cfm (resolve ip n).
Proof.
  intros SM HV Hdef. unfold get_crypt_filter, resolve. change N_Identity with iN_Identity.
  destruct (bytes_eqb n iN_Identity) eqn:E; [reflexivity|].
  rewrite (sm_cf _ _ _ SM HV n).
  destruct Hdef as [->|Hd]; [rewrite bytes_eqb_refl in E; discriminate|].
  destruct (cf_lookup (ip_CF ip) n); [reflexivity|congruence].
Qed.

(* a name found in DecodeParms: any name, defined or not *)
Lemma override_agree st ip fek n : state_matches st ip fek -> (ip_V ip <? 4)%Z = false ->
  match bt_get (es_crypt_filters st) n with Some f => f | None => CF_Identity end = meth_cfm (resolve ip n).
Proof.
  intros SM HV. unfold resolve. rewrite (sm_cf _ _ _ SM HV n).
  destruct (bytes_eqb n iN_Identity) eqn:E.
  - apply bytes_eqb_eq in E. subst n. rewrite (sm_identity _ _ _ SM). reflexivity.
  - destruct (cf_lookup (ip_CF ip) n); reflexivity.
Qed.

Lemma no_crypt_names l : index_of_name iN_Crypt l = None ->
  forall fs, omap (fun o => match o with OName n => Some n | _ => None end) l = Some fs ->
  existsb (bytes_eqb N_Crypt) fs = false.
Proof.
  induction l as [|x l IH]; intros H fs Hfs.
  - inversion Hfs. reflexivity.
  - cbn [omap] in Hfs. destruct x; try discriminate.
    destruct (omap _ l) as [r|] eqn:Er; [|discriminate]. inversion Hfs; subst fs.
    cbn [index_of_name] in H. cbn [existsb].
    change N_Crypt with iN_Crypt. rewrite bytes_eqb_sym.
    destruct (bytes_eqb n iN_Crypt); [discriminate|]. cbn [orb].
    apply (IH ltac:(destruct (index_of_name iN_Crypt l); [discriminate|reflexivity]) r eq_refl).
Qed.

Theorem stream_cf_agree st ip fek sd c : state_matches st ip fek -> stream_ok ip sd ->
  stream_cf st (OStream sd c) = meth_cfm (stream_method ip sd).
Proof.
  intros SM [Harr Hv3]. unfold stream_cf, stream_method. rewrite (sm_eff _ _ _ SM).
  destruct (ip_V ip <? 4)%Z eqn:HV.
  - (* V < 4: no crypt filters; everything is RC4 *)
    specialize (Hv3 eq_refl). destruct (sm_v3 _ _ _ SM HV) as (Ecf & Estm & _).
    assert (Hov : override_filter st (OStream sd c) = None).
    { unfold override_filter, stream_filters. unfold crypt_filter_name in Hv3.
      change K_Filter with iK_Filter. destruct (dict_get sd iK_Filter) as [[| | | | f | | l | | |]|]; try reflexivity.
      - cbn [existsb]. change N_Crypt with iN_Crypt. rewrite bytes_eqb_sym.
        destruct (bytes_eqb f iN_Crypt); [discriminate|reflexivity].
      - destruct (omap _ l) as [fs|] eqn:Efs; [|reflexivity].
        rewrite (no_crypt_names l Harr fs Efs). reflexivity. }
    rewrite Hov. unfold stream_filter, get_crypt_filter. rewrite Estm, Ecf. reflexivity.
  - unfold override_filter, stream_filters, crypt_filter_name.
    change K_Filter with iK_Filter. change K_DecodeParms with iK_DecodeParms. change K_Name with iK_Name.
    destruct (sm_stmf _ _ _ SM HV) as [Estm Hdef].
    assert (Hdflt : stream_filter st = meth_cfm (resolve ip (ip_StmF ip))).
    { unfold stream_filter. rewrite Estm. apply (resolve_agree st ip fek _ SM HV Hdef). }
    destruct (dict_get sd iK_Filter) as [[| | | | f | | l | | |]|]; try exact Hdflt.
    + cbn [existsb]. change N_Crypt with iN_Crypt. rewrite bytes_eqb_sym.
      destruct (bytes_eqb f iN_Crypt); [|exact Hdflt]. cbn [orb].
      destruct (dict_get sd iK_DecodeParms) as [[| | | | | | | dp | |]|];
        try (symmetry; apply (override_agree st ip fek iN_Identity SM HV) || reflexivity);
        try (rewrite <- (override_agree st ip fek iN_Identity SM HV), (sm_cf _ _ _ SM HV), (sm_identity _ _ _ SM); reflexivity).
      destruct (dict_get dp iK_Name) as [[| | | | n | | | | |]|];
        try (rewrite <- (override_agree st ip fek iN_Identity SM HV), (sm_cf _ _ _ SM HV), (sm_identity _ _ _ SM); reflexivity).
      apply (override_agree st ip fek n SM HV).
    + rewrite Harr. destruct (omap _ l) as [fs|] eqn:Efs; [|exact Hdflt].
      rewrite (no_crypt_names l Harr fs Efs). exact Hdflt.
Qed.

Theorem string_filter_agree st ip fek : state_matches st ip fek ->
  string_filter st = meth_cfm (string_method ip).
Proof.
  intro SM. unfold string_filter, string_method.
  destruct (ip_V ip <? 4)%Z eqn:HV.
  - destruct (sm_v3 _ _ _ SM HV) as (Ecf & _ & Estr). unfold get_crypt_filter. rewrite Estr, Ecf. reflexivity.
  - destruct (sm_strf _ _ _ SM HV) as [Estr Hdef]. rewrite Estr. apply (resolve_agree st ip fek _ SM HV Hdef).
Qed.

Theorem agree_of_state st ip fek : state_matches st ip fek -> agree st ip fek.
Proof.
  intro SM. constructor.
  - exact (sm_key _ _ _ SM).
  - exact (sm_key_len _ _ _ SM).
  - exact (sm_em _ _ _ SM).
  - exact (string_filter_agree st ip fek SM).
  - unfold string_method. destruct (ip_V ip <? 4)%Z; [exact Logic.I|apply (sm_ok _ _ _ SM)].
  - intros sd c Hok. exact (stream_cf_agree st ip fek sd c SM Hok).
  - intro sd. unfold stream_method. rewrite (sm_eff _ _ _ SM).
    destruct (ip_V ip <? 4)%Z; [exact Logic.I|]. destruct (crypt_filter_name sd); apply (sm_ok _ _ _ SM).
Qed.
