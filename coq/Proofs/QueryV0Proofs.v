(* QueryV0Proofs.v -- the unrepaired walkers (Model/QueryV0.v) panic or diverge on 3-4 object graphs, and the
   repaired ones (Model/Query.v) return on the same graphs. *)
From LV Require Import Base.Bytes Base.Sx Model.Obj Model.DocQ Model.PageTree Model.Utf Model.Query Model.QueryV0
  Gen.Consts Gen.QueryC Proofs.QueryProofs.
From LV Require Model.Toc.

Definition mkdoc (objs : objmap) : doc :=
  {| d_version := bs "1.5"; d_binary_mark := []; d_trailer := [(K_Root, ORef 1 0)]; d_objects := objs;
     d_max_id := N.of_nat (length objs) |}.

Definition N_Catalog := Eval cbv in bs "Catalog".
Definition N_Fit := Eval cbv in bs "Fit".
Definition I64_MAX : Z := 9223372036854775807.

(* ---- pages ---- *)
Definition page_tree_objs (kids : list obj) (count : Z) : objmap :=
  [((1, 0)%N, ODict [(K_Type, OName N_Catalog); (K_Pages, ORef 2 0)]);
   ((2, 0)%N, ODict [(K_Type, OName K_Pages); (K_Kids, OArr kids)]);
   ((3, 0)%N, ODict [(K_Type, OName K_Page)]);
   ((4, 0)%N, ODict [(K_Type, OName K_Pages); (K_Count, OInt count); (K_Kids, OArr [])])].

Definition w_count_huge : doc := mkdoc (page_tree_objs [ORef 3 0; ORef 4 0] I64_MAX).
Definition w_count_sum : doc := mkdoc (page_tree_objs [ORef 3 0; ORef 4 0; ORef 4 0; ORef 4 0] I64_MAX).
Definition w_count_alloc : doc := mkdoc (page_tree_objs [ORef 3 0; ORef 4 0] 35184372088832).

Lemma v0_get_pages_capacity : fst (get_pages_v0 w_count_huge) = Panic PCapacity.
Proof. vm_compute. reflexivity. Qed.
Lemma v0_get_pages_overflow : fst (get_pages_v0 w_count_sum) = Panic POverflow.
Proof. vm_compute. reflexivity. Qed.
Lemma v0_get_pages_alloc : snd (get_pages_v0 w_count_alloc) = 35184372088833%N /\ length (d_objects w_count_alloc) = 4.
Proof. vm_compute. split; reflexivity. Qed.
Lemma fixed_get_pages_alloc :
  get_pages_alloc w_count_huge = 4%N /\ get_pages_alloc w_count_sum = 4%N /\ get_pages_alloc w_count_alloc = 4%N /\
  get_pages w_count_huge = [(1, (3, 0))]%N.
Proof. vm_compute. repeat split; reflexivity. Qed.

(* a Pages kid that understates its Count: the promised upper bound (0) is below what is yielded (2) *)
Definition w_count_zero : doc :=
  mkdoc [((1, 0)%N, ODict [(K_Type, OName N_Catalog); (K_Pages, ORef 2 0)]);
         ((2, 0)%N, ODict [(K_Type, OName K_Pages); (K_Kids, OArr [ORef 5 0])]);
         ((3, 0)%N, ODict [(K_Type, OName K_Page)]);
         ((4, 0)%N, ODict [(K_Type, OName K_Page)]);
         ((5, 0)%N, ODict [(K_Type, OName K_Pages); (K_Count, OInt 0); (K_Kids, OArr [ORef 3 0; ORef 4 0])])].
Lemma v0_hint_upper_wrong : hint_upper_v0 w_count_zero = Ok 0%N /\ length (page_iter w_count_zero) = 2.
Proof. vm_compute. split; reflexivity. Qed.
Lemma fixed_hint_upper : snd (fst (fst (hint_probe w_count_zero))) = 5%N.
Proof. vm_compute. reflexivity. Qed.

(* ---- outlines ---- *)
Definition outline_objs (item : dict) : objmap :=
  [((1, 0)%N, ODict [(K_Type, OName N_Catalog); (Q_Outlines, ORef 2 0)]);
   ((2, 0)%N, ODict [(Q_First, ORef 3 0)]);
   ((3, 0)%N, ODict item)].

Definition item_dest_empty : dict := [(Q_Title, OStr (bs "a") false); (Q_Dest, OArr [])].
Definition item_next_self : dict := [(Q_Title, OStr (bs "a") false); (Q_Next, ORef 3 0)].
Definition item_first_self : dict := [(Q_Title, OStr (bs "a") false); (Q_First, ORef 3 0)].
Definition w_dest_empty : doc := mkdoc (outline_objs item_dest_empty).
Definition w_next_self : doc := mkdoc (outline_objs item_next_self).
Definition w_first_self : doc := mkdoc (outline_objs item_first_self).

Lemma v0_toc_index : get_toc_v0 8 w_dest_empty = Panic PIndex.
Proof. vm_compute. reflexivity. Qed.

Lemma ol_v0_next_loop m node :
  (forall nm, get_outline_v0 m node nm = (nm, Err)) ->
  dict_get node Q_First = None ->
  get_dict_in_dict m node Q_Next = Some node ->
  forall n nm, ol_walk_v0 n m node nm = (nm, OutOfFuel).
Proof.
  intros Hgo Hf Hn. induction n as [|n IH]; intro nm; [reflexivity|].
  cbn [ol_walk_v0]. rewrite Hgo, Hf, Hn, IH. reflexivity.
Qed.

Lemma ol_v0_first_loop m node i g :
  (forall nm, get_outline_v0 m node nm = (nm, Err)) ->
  dict_get node Q_First = Some (ORef i g) ->
  get_object m (i, g) = Some (ODict node) ->
  forall n nm, ol_walk_v0 n m node nm = (nm, OutOfFuel).
Proof.
  intros Hgo Hf Ho. induction n as [|n IH]; intro nm; [reflexivity|].
  cbn [ol_walk_v0]. rewrite Hgo, Hf, Ho, IH. reflexivity.
Qed.

Lemma v0_next_self_diverges : forall n, snd (get_outlines_v0 n w_next_self) = OutOfFuel.
Proof.
  intro n. unfold get_outlines_v0.
  change (outline_start w_next_self) with (Some (item_next_self, @None dict)).
  cbv iota beta. rewrite (ol_v0_next_loop (d_objects w_next_self) item_next_self); try reflexivity.
Qed.

Lemma v0_first_self_diverges : forall n, snd (get_outlines_v0 n w_first_self) = OutOfFuel.
Proof.
  intro n. unfold get_outlines_v0.
  change (outline_start w_first_self) with (Some (item_first_self, @None dict)).
  cbv iota beta. rewrite (ol_v0_first_loop (d_objects w_first_self) item_first_self 3 0); try reflexivity.
Qed.

Lemma v0_toc_diverges : forall n, get_toc_v0 n w_next_self = OutOfFuel /\ get_toc_v0 n w_first_self = OutOfFuel.
Proof.
  intro n. unfold get_toc_v0. rewrite v0_next_self_diverges, v0_first_self_diverges. split; reflexivity.
Qed.

Lemma fixed_outlines_return :
  get_toc (fuel_toc (d_objects w_dest_empty)) w_dest_empty = Ok ([], 0%N) /\
  get_toc (fuel_toc (d_objects w_next_self)) w_next_self = Err /\
  get_toc (fuel_toc (d_objects w_first_self)) w_first_self = Err.
Proof. vm_compute. repeat split; reflexivity. Qed.

(* ---- named destinations ---- *)
Definition nd_objs (tree : dict) (extra : objmap) : objmap :=
  [((1, 0)%N, ODict [(K_Type, OName N_Catalog); (Q_Outlines, ORef 2 0); (Q_Dests, ORef 3 0)]);
   ((2, 0)%N, ODict []);
   ((3, 0)%N, ODict tree)] ++ extra.

Definition key_k : obj := OStr (bs "k") false.
Definition tree_missing_D : dict := [(Q_Names, OArr [key_k; ODict []])].
Definition tree_key_int : dict := [(Q_Names, OArr [OInt 5; ODict [(Q_D, OArr [OInt 1; OInt 2])]])].
Definition tree_short_D : dict := [(Q_Names, OArr [key_k; ODict [(Q_D, OArr [])]])].
Definition tree_kids_self : dict := [(K_Kids, OArr [ORef 3 0])].

Lemma v0_nd_panics :
  snd (nd_walk_v0 4 (nd_objs tree_missing_D []) tree_missing_D []) = Panic PUnwrap /\
  snd (nd_walk_v0 4 (nd_objs tree_key_int []) tree_key_int []) = Panic PUnwrap /\
  snd (nd_walk_v0 4 (nd_objs tree_short_D []) tree_short_D []) = Panic PIndex /\
  get_toc_v0 4 (mkdoc (nd_objs tree_missing_D [])) = Panic PUnwrap.
Proof. vm_compute. repeat split; reflexivity. Qed.

Lemma nd_v0_kids_loop m tree i g :
  dict_get tree K_Kids = Some (OArr [ORef i g]) ->
  get_dictionary m (i, g) = Some tree ->
  forall n nm, nd_walk_v0 n m tree nm = (nm, OutOfFuel).
Proof.
  intros Hk Hd. induction n as [|n IH]; intro nm; [reflexivity|].
  cbn [nd_walk_v0]. rewrite Hk. cbn [nd_kids_v0]. rewrite Hd, IH. reflexivity.
Qed.

Lemma v0_nd_kids_diverges :
  forall n nm, nd_walk_v0 n (nd_objs tree_kids_self []) tree_kids_self nm = (nm, OutOfFuel).
Proof. apply nd_v0_kids_loop with (i := 3%N) (g := 0%N); reflexivity. Qed.

Lemma fixed_nd_return :
  snd (get_named_destinations (fuel_nd (nd_objs tree_missing_D [])) (nd_objs tree_missing_D []) tree_missing_D []) = Err /\
  snd (get_named_destinations (fuel_nd (nd_objs tree_key_int [])) (nd_objs tree_key_int []) tree_key_int []) = Err /\
  snd (get_named_destinations (fuel_nd (nd_objs tree_short_D [])) (nd_objs tree_short_D []) tree_short_D []) = Err /\
  snd (get_named_destinations (fuel_nd (nd_objs tree_kids_self [])) (nd_objs tree_kids_self []) tree_kids_self []) = Err.
Proof. vm_compute. repeat split; reflexivity. Qed.

(* ---- images ---- *)
Definition w_img_objs : objmap :=
  [((1, 0)%N, ODict [(K_Type, OName N_Catalog)]);
   ((2, 0)%N, ODict [(K_Type, OName K_Page);
                     (Q_Resources, ODict [(Q_XObject, ODict [(bs "Im0", ORef 3 0)])])]);
   ((3, 0)%N, OStream [(Q_Subtype, OName Q_Image); (Q_Width, OInt 1); (Q_Height, OInt 1); (Q_ColorSpace, OArr [])]
                      (bs "x"))].

Lemma v0_images_index : get_page_images_v0 w_img_objs (2, 0)%N = Panic PIndex.
Proof. vm_compute. reflexivity. Qed.
Lemma fixed_images_return : get_page_images w_img_objs (2, 0)%N = None.
Proof. vm_compute. reflexivity. Qed.

(* ---- non-vacuity of the totality theorems: cyclic graphs on which the repaired queries return ---- *)
Definition w_cycles : objmap :=
  [((1, 0)%N, ORef 2 0); ((2, 0)%N, ORef 1 0);                                   (* reference cycle *)
   ((3, 0)%N, ODict [(K_Type, OName K_Page); (K_Parent, ORef 4 0); (Q_Contents, ORef 1 0); (Q_Resources, ORef 9 0)]);
   ((4, 0)%N, ODict [(K_Type, OName K_Pages); (K_Parent, ORef 3 0)])].            (* Parent cycle *)

Lemma example_cycles :
  q_dereference w_cycles (ORef 1 0) = Err /\
  q_get_object w_cycles (1, 0)%N = Err /\
  get_page_contents fuel_contents w_cycles (3, 0)%N = Ok [] /\
  get_page_resources (fuel_resources w_cycles) w_cycles (3, 0)%N = Err /\
  get_page_resources (fuel_resources w_cycles) w_cycles (4, 0)%N = Err /\
  get_page_resources (fuel_resources w_cycles) w_cycles (1, 0)%N = Ok (None, []).
Proof. vm_compute. repeat split; reflexivity. Qed.
