(* EditProofsTrav.v -- C11, part 2: the worklist traversal with a shape-changing action
   (Model/Edit.v act_loop / act_traverse).  Adapted from the loop invariant of
   Proofs/RenumberProofsTrav.v: the action rewrites each visited object to [act o] and pushes the
   references of the RESULT; so the traversal visits exactly what is reachable in the ACTED graph
   (trailer [tr'], every object replaced by its image), rewrites those objects and no others, and
   terminates with fuel = number of reference occurrences of the acted graph + 1. *)
From LV Require Import Base.Bytes Model.Obj Model.Traverse Model.Edit Spec.RenumberSpec
  Proofs.RenumberProofsMap Proofs.RenumberProofs Proofs.RenumberProofsTrav Proofs.EditProofs.

Definition mapv (act : obj -> obj) (m : objmap) : objmap := map (fun io => (fst io, act (snd io))) m.

Lemma lookup_mapv act m x : lookup (mapv act m) x = option_map act (lookup m x).
Proof.
  induction m as [|[i o] m IH]; cbn [mapv map lookup fst snd]; [reflexivity|].
  destruct (oid_eqb i x); [reflexivity | exact IH].
Qed.

Lemma keys_mapv act m : map fst (mapv act m) = map fst m.
Proof. unfold mapv. rewrite map_map. reflexivity. Qed.

Lemma map_id_oid (l : list oid) : map (fun x => x) l = l.
Proof. induction l; cbn; congruence. Qed.

Lemma collect_spec o refs : collect o refs = push_all refs (refs_of o).
Proof. unfold collect. rewrite trav_obj_spec. cbn [snd]. rewrite map_id_oid. reflexivity. Qed.

Lemma collect_dict_spec d refs : collect_dict d refs = push_all refs (refs_of_dict d).
Proof. unfold collect_dict. rewrite trav_dict_spec. cbn [snd]. rewrite map_id_oid. reflexivity. Qed.

Lemma reach_in_all tr m x : reach tr m x -> In x (all_refs tr m).
Proof.
  intro H. unfold all_refs. destruct H as [r Hr | y o r _ Hl Hr]; apply in_app_iff.
  - left; exact Hr.
  - right. apply in_flat_map. exists (y, o). split; [apply lookup_In; exact Hl | exact Hr].
Qed.

Section ALoop.
  Variable act : obj -> obj.
  Variable tr' : dict.          (* the trailer after the action *)
  Variable m0 : objmap.         (* the objects before the traversal *)

  Let ms := mapv act m0.        (* the acted graph *)

  Definition avisited (refs : list oid) (index : nat) : list oid := firstn index refs.

  Record AInv (m : objmap) (refs : list oid) (index : nat) : Prop := {
    ainv_nodup : NoDup refs;
    ainv_reach : forall x, In x refs -> reach tr' ms x;
    ainv_roots : forall r, In r (refs_of_dict tr') -> In r refs;
    ainv_closed : forall x o r, In x (avisited refs index) -> lookup m0 x = Some o -> In r (refs_of (act o)) -> In r refs;
    ainv_lookup : forall x, lookup m x = if mem_oid x (avisited refs index)
                                         then option_map act (lookup m0 x) else lookup m0 x;
    ainv_keys : map fst m = map fst m0;
    ainv_index : index <= length refs;
  }.

  Lemma ainv_step m refs index id o :
    AInv m refs index -> nth_error refs index = Some id -> lookup m id = Some o ->
    lookup m0 id = Some o /\ AInv (update m id (act o)) (collect (act o) refs) (S index).
  Proof.
    intros I Hn Hl.
    assert (Hnv : ~ In id (avisited refs index)) by (apply nth_not_in_firstn; [apply I | exact Hn]).
    assert (Hl0 : lookup m0 id = Some o).
    { rewrite (ainv_lookup _ _ _ I) in Hl. apply mem_oid_nIn in Hnv. rewrite Hnv in Hl. exact Hl. }
    split; [exact Hl0|]. rewrite collect_spec.
    destruct (push_all_spec (refs_of (act o)) refs) as [extra [E [M ND]]].
    assert (Hlen : S index <= length refs) by (apply nth_error_Some; congruence).
    assert (Hvis : avisited (push_all refs (refs_of (act o))) (S index) = avisited refs index ++ [id]).
    { unfold avisited. rewrite E, firstn_app_lt by exact Hlen. apply firstn_S_nth. exact Hn. }
    constructor.
    - apply ND. apply I.
    - intros x Hx. apply M in Hx. destruct Hx as [Hx|Hx]; [apply I; exact Hx|].
      eapply reach_step; [apply I; eapply nth_error_In; exact Hn | | exact Hx].
      unfold ms. rewrite lookup_mapv, Hl0. reflexivity.
    - intros r Hr. apply M. left. apply I. exact Hr.
    - intros x o' r Hx Hl' Hr. rewrite Hvis in Hx. apply in_app_iff in Hx. apply M. destruct Hx as [Hx|[<-|[]]].
      + left. eapply (ainv_closed _ _ _ I); eauto.
      + right. rewrite Hl0 in Hl'. inversion Hl'; subst. exact Hr.
    - intro x. rewrite Hvis. rewrite lookup_update, Hl.
      destruct (oid_eqb id x) eqn:Ex.
      + apply oid_eqb_eq in Ex. subst x.
        replace (mem_oid id (avisited refs index ++ [id])) with true.
        * rewrite Hl0. reflexivity.
        * symmetry. apply mem_oid_In. apply in_app_iff. right. left. reflexivity.
      + rewrite (ainv_lookup _ _ _ I).
        replace (mem_oid x (avisited refs index ++ [id])) with (mem_oid x (avisited refs index)); [reflexivity|].
        apply oid_eqb_neq in Ex.
        destruct (mem_oid x (avisited refs index)) eqn:E1; symmetry.
        * apply mem_oid_In. apply in_app_iff. left. apply mem_oid_In. exact E1.
        * apply mem_oid_nIn. rewrite in_app_iff. cbn [In]. apply mem_oid_nIn in E1. intuition.
    - rewrite keys_update. apply I.
    - rewrite E, app_length. lia.
  Qed.

  Lemma ainv_skip m refs index id :
    AInv m refs index -> nth_error refs index = Some id -> lookup m id = None -> AInv m refs (S index).
  Proof.
    intros I Hn Hl.
    assert (Hnv : ~ In id (avisited refs index)) by (apply nth_not_in_firstn; [apply I | exact Hn]).
    assert (Hl0 : lookup m0 id = None).
    { rewrite (ainv_lookup _ _ _ I) in Hl. apply mem_oid_nIn in Hnv. rewrite Hnv in Hl. exact Hl. }
    assert (Hvis : avisited refs (S index) = avisited refs index ++ [id]) by (apply firstn_S_nth; exact Hn).
    constructor; try apply I.
    - intros x o' r Hx Hl' Hr. rewrite Hvis in Hx. apply in_app_iff in Hx. destruct Hx as [Hx|[<-|[]]].
      + eapply (ainv_closed _ _ _ I); eauto.
      + congruence.
    - intro x. rewrite Hvis, (ainv_lookup _ _ _ I).
      destruct (oid_eq_dec x id) as [->|Ne].
      + apply mem_oid_nIn in Hnv. rewrite Hnv, Hl0.
        destruct (mem_oid id (avisited refs index ++ [id])); reflexivity.
      + replace (mem_oid x (avisited refs index ++ [id])) with (mem_oid x (avisited refs index)); [reflexivity|].
        destruct (mem_oid x (avisited refs index)) eqn:E1; symmetry.
        * apply mem_oid_In. apply in_app_iff. left. apply mem_oid_In. exact E1.
        * apply mem_oid_nIn. rewrite in_app_iff. cbn [In]. apply mem_oid_nIn in E1. intuition.
    - apply nth_error_Some. congruence.
  Qed.

  Lemma ainv_bound m refs index : AInv m refs index -> length refs <= length (all_refs tr' ms).
  Proof.
    intro I. apply NoDup_incl_length; [apply I|]. intros x Hx. apply reach_in_all. apply I. exact Hx.
  Qed.

  Lemma aloop_spec : forall fuel m refs index,
    AInv m refs index -> length (all_refs tr' ms) - index < fuel ->
    exists m' refs', act_loop act fuel m refs index = Some (m', refs') /\ AInv m' refs' (length refs').
  Proof.
    induction fuel as [|k IH]; intros m refs index I Hf; [lia|].
    cbn [act_loop]. destruct (nth_error refs index) as [id|] eqn:Hn.
    - assert (Hlt : index < length refs) by (apply nth_error_Some; congruence).
      pose proof (ainv_bound _ _ _ I) as Hb.
      destruct (lookup m id) as [o|] eqn:Hl.
      + destruct (ainv_step _ _ _ _ _ I Hn Hl) as [_ I']. apply IH; [exact I' | lia].
      + apply IH; [eapply ainv_skip; eauto | lia].
    - exists m, refs. split; [reflexivity|].
      apply nth_error_None in Hn. pose proof (ainv_index _ _ _ I).
      replace (length refs) with index by lia. exact I.
  Qed.
End ALoop.

(* ---------- act_traverse: termination and result ---------- *)
Theorem act_traverse_spec act act_tr tr m fuel :
  trav_fuel (act_tr tr) (mapv act m) <= fuel ->
  exists m' refs,
    act_traverse act act_tr fuel tr m = Some (act_tr tr, m', refs) /\
    NoDup refs /\
    (forall x, In x refs <-> reach (act_tr tr) (mapv act m) x) /\
    map fst m' = map fst m /\
    (forall x, reach (act_tr tr) (mapv act m) x -> lookup m' x = option_map act (lookup m x)) /\
    (forall x, ~ reach (act_tr tr) (mapv act m) x -> lookup m' x = lookup m x).
Proof.
  intro Hf. unfold act_traverse. rewrite collect_dict_spec.
  set (tr' := act_tr tr) in *.
  destruct (push_all_spec (refs_of_dict tr') []) as [extra [E [M ND]]].
  set (refs0 := push_all [] (refs_of_dict tr')) in *.
  assert (I0 : AInv act tr' m m refs0 0).
  { constructor.
    - apply ND. constructor.
    - intros x Hx. apply M in Hx. destruct Hx as [[]|Hx]. apply reach_root. exact Hx.
    - intros r Hr. apply M. right. exact Hr.
    - intros x o r Hx. cbn in Hx. destruct Hx.
    - intro x. reflexivity.
    - reflexivity.
    - lia. }
  destruct (aloop_spec act tr' m fuel m refs0 0 I0) as [m' [refs' [EL I]]].
  { unfold trav_fuel in Hf. rewrite all_refs_length. lia. }
  rewrite EL. exists m', refs'. split; [reflexivity|].
  assert (Hvis : avisited refs' (length refs') = refs') by apply firstn_all.
  assert (Hiff : forall x, In x refs' <-> reach tr' (mapv act m) x).
  { intro x. split; [apply I|]. induction 1 as [r Hr | y o r Hy IHy Hl Hr].
    - apply I. exact Hr.
    - rewrite lookup_mapv in Hl. destruct (lookup m y) as [o0|] eqn:Hl0; [|discriminate].
      cbn in Hl. inversion Hl; subst o.
      eapply (ainv_closed _ _ _ _ _ _ I); [rewrite Hvis; exact IHy | exact Hl0 | exact Hr]. }
  split; [apply I|]. split; [exact Hiff|]. split; [apply I|]. split.
  - intros x Hx. rewrite (ainv_lookup _ _ _ _ _ _ I), Hvis.
    apply Hiff in Hx. apply mem_oid_In in Hx. rewrite Hx. reflexivity.
  - intros x Hx. rewrite (ainv_lookup _ _ _ _ _ _ I), Hvis.
    replace (mem_oid x refs') with false; [reflexivity|]. symmetry. apply mem_oid_nIn. rewrite Hiff. exact Hx.
Qed.
