(* SinkBufProofs.v -- proofs for property C19 about Model/SinkBuf.v: Document::save(path) =
   save_internal into a BufWriter<File>, then into_inner()? .  No axioms. *)
From LV Require Import Base.Bytes Model.Obj Model.Sink Model.SaveState Model.SinkBuf Proofs.SinkProofs.

Local Open Scope N_scope.

(* ------------------------------------------------------------------------------------------ *)
(* A. bytes: for ANY sound inner write_all (both readings of a script), any capacity            *)
(* ------------------------------------------------------------------------------------------ *)
Section Bytes.
  Variable wa : script -> bytes -> wres * bytes * script.
  Hypothesis wa_ok : wa_sound wa.
  Variable cap : nat.

  Lemma skipn_length_app {A} (a b : list A) : skipn (length a) (a ++ b) = b.
  Proof. induction a; cbn; auto. Qed.

  (* flush_buf: what was written and what stays in the buffer are the buffer, in order; Ok = emptied *)
  Lemma flush_buf_sound s buf r d rem s' :
    flush_buf wa s buf = (r, d, rem, s') ->
    buf = d ++ rem /\ (r = WOk -> rem = []) /\ (forall e, r = WErr e -> rem <> []).
  Proof.
    unfold flush_buf. destruct (wa s buf) as [[r0 d0] s0] eqn:E. intro H. inversion H; subst.
    destruct (wa_ok _ _ _ _ _ E) as [rest [Hb [Hok Herr]]]. subst buf.
    rewrite skipn_length_app. auto.
  Qed.

  (* one BufWriter::write_all.  Ok: everything requested so far is in the file or in the buffer, in
     order, and the buffer is within capacity.  Err: a non-empty part of it is in neither. *)
  Lemma bw_write_all_sound b buf r d b' :
    (length (bw_buf b) <= cap)%nat ->
    bw_write_all wa cap b buf = (r, d, b') ->
    (r = WOk -> d ++ bw_buf b' = bw_buf b ++ buf /\ (length (bw_buf b') <= cap)%nat) /\
    (forall e, r = WErr e -> exists lost, lost <> [] /\ bw_buf b ++ buf = d ++ bw_buf b' ++ lost).
  Proof.
    intros Hinv. unfold bw_write_all, spare.
    destruct (length buf <? cap - length (bw_buf b))%nat eqn:Efast.
    { apply Nat.ltb_lt in Efast. intro H; inversion H; subst. cbn [bw_buf]. split; [|discriminate].
      intros _. split; [reflexivity|]. rewrite app_length. lia. }
    apply Nat.ltb_ge in Efast.
    destruct (cap - length (bw_buf b) <? length buf)%nat eqn:Eflush.
    - apply Nat.ltb_lt in Eflush.
      assert (Hbuf : buf <> []) by (destruct buf; [cbn in Eflush; lia | discriminate]).
      unfold bw_flush. destruct (flush_buf wa (bw_inner b) (bw_buf b)) as [[[r1 d1] rem] s1] eqn:E1.
      destruct (flush_buf_sound _ _ _ _ _ _ E1) as [HB [Hok1 Herr1]].
      destruct r1 as [|e1].
      + rewrite (Hok1 eq_refl) in *. rewrite app_nil_r in HB. subst d1. cbn [bw_buf bw_inner].
        destruct (cap <=? length buf)%nat eqn:Ebig.
        * destruct (wa s1 buf) as [[r2 d2] s2] eqn:E2.
          destruct (wa_ok _ _ _ _ _ E2) as [rest [Hb [Hok2 Herr2]]].
          intro H; inversion H; subst r d b'. cbn [bw_buf].
          split.
          { intros ->. rewrite (Hok2 eq_refl), app_nil_r in Hb. subst buf.
            rewrite app_nil_r. split; [reflexivity | cbn [length]; lia]. }
          { intros e ->. exists rest. split; [exact (Herr2 e eq_refl)|].
            rewrite Hb at 1. rewrite <- app_assoc. reflexivity. }
        * apply Nat.leb_gt in Ebig. intro H; inversion H; subst r d b'. cbn [bw_buf app]. split; [|discriminate].
          intros _. split; [reflexivity | lia].
      + intro H; inversion H; subst. cbn [bw_buf]. split; [discriminate|].
        intros e _. exists buf. split; [exact Hbuf|]. rewrite HB, <- app_assoc. reflexivity.
    - apply Nat.ltb_ge in Eflush.
      destruct (cap <=? length buf)%nat eqn:Ebig.
      + apply Nat.leb_le in Ebig.
        assert (HB : bw_buf b = []) by (destruct (bw_buf b); [reflexivity | cbn in *; lia]).
        destruct (wa (bw_inner b) buf) as [[r2 d2] s2] eqn:E2. intro H; inversion H; subst. cbn [bw_buf].
        destruct (wa_ok _ _ _ _ _ E2) as [rest [Hb [Hok2 Herr2]]]. rewrite HB. cbn [app].
        split.
        { intros ->. rewrite (Hok2 eq_refl), app_nil_r in Hb. subst buf.
          rewrite app_nil_r. split; [reflexivity | cbn; lia]. }
        { intros e ->. exists rest. split; [exact (Herr2 e eq_refl) | exact Hb]. }
      + apply Nat.leb_gt in Ebig. intro H; inversion H; subst. cbn [bw_buf]. split; [|discriminate].
        intros _. split; [reflexivity|]. rewrite app_length. lia.
  Qed.

  (* the `?`-chained sequence of calls through CountingWrite into the BufWriter *)
  Lemma run_cwb_sound calls : forall c r d c',
    (length (bw_buf (cwb_inner c)) <= cap)%nat ->
    run_cwb wa cap calls c = (r, d, c') ->
    (r = WOk -> d ++ bw_buf (cwb_inner c') = bw_buf (cwb_inner c) ++ concat calls /\
                (length (bw_buf (cwb_inner c')) <= cap)%nat /\
                cwb_count c' = cwb_count c + N.of_nat (length (concat calls))) /\
    (forall e, r = WErr e -> exists lost, lost <> [] /\
                bw_buf (cwb_inner c) ++ concat calls = d ++ bw_buf (cwb_inner c') ++ lost).
  Proof.
    induction calls as [|x calls IH]; intros c r d c' Hinv H.
    - cbn in H. inversion H; subst. cbn [concat]. rewrite app_nil_r. split; [|discriminate].
      intros _. split; [reflexivity|]. split; [exact Hinv | cbn [length]; lia].
    - cbn [run_cwb] in H. unfold cwb_write_all in H.
      destruct (bw_write_all wa cap (cwb_inner c) x) as [[r1 d1] b1] eqn:E1.
      destruct (bw_write_all_sound _ _ _ _ _ Hinv E1) as [Hok1 Herr1].
      destruct r1 as [|e1].
      + destruct (Hok1 eq_refl) as [H1 Hinv1].
        destruct (run_cwb wa cap calls _) as [[r2 d2] c2] eqn:E2. inversion H; subst.
        destruct (IH {| cwb_inner := b1; cwb_count := cwb_count c + N.of_nat (length x) |} _ _ _ Hinv1 E2) as [Hok2 Herr2].
        cbn [cwb_inner cwb_count] in *. cbn [concat].
        split.
        * intros Hr. destruct (Hok2 Hr) as [H2 [Hinv2 Hcnt]]. split; [|split; [exact Hinv2|]].
          -- rewrite <- app_assoc, H2, app_assoc, H1, <- app_assoc. reflexivity.
          -- rewrite Hcnt, app_length. lia.
        * intros e Hr. destruct (Herr2 e Hr) as [lost [Hl H2]]. exists lost. split; [exact Hl|].
          rewrite app_assoc, <- H1, <- !app_assoc, H2. reflexivity.
      + inversion H; subst. cbn [cwb_inner]. split; [discriminate|]. intros e _.
        destruct (Herr1 e1 eq_refl) as [lost [Hl H1]]. exists (lost ++ concat calls). split.
        * intro Habs. apply app_eq_nil in Habs. tauto.
        * cbn [concat]. rewrite app_assoc, H1, <- !app_assoc. reflexivity.
  Qed.

  Lemma bw_drop_sound b d s' : bw_drop wa b = (d, s') -> exists rest, bw_buf b = d ++ rest.
  Proof.
    unfold bw_drop. destruct (flush_buf wa (bw_inner b) (bw_buf b)) as [[[r0 d0] rem] s0] eqn:E.
    intro H; inversion H; subst. destruct (flush_buf_sound _ _ _ _ _ _ E) as [HB _]. eauto.
  Qed.

  (* the tail of `save`, from the two possible situations run_cwb_sound describes *)
  Lemma finish_path_sound all r d b rf file s' :
    finish_path wa r d b = (rf, file, s') ->
    (r = WOk -> d ++ bw_buf b = all) ->
    (forall e, r = WErr e -> exists lost, lost <> [] /\ all = d ++ bw_buf b ++ lost) ->
    exists rest, all = file ++ rest /\ (rf = WOk -> rest = []) /\
                 (forall e, r = WErr e -> rf = WErr e /\ rest <> []).
  Proof.
    intros H Hok Herr. destruct r as [|e]; cbn [finish_path] in H.
    - specialize (Hok eq_refl). unfold bw_flush in H.
      destruct (flush_buf wa (bw_inner b) (bw_buf b)) as [[[r2 d2] rem] s2] eqn:E2.
      destruct (flush_buf_sound _ _ _ _ _ _ E2) as [HB [Hok2 _]].
      destruct r2 as [|e2].
      + inversion H; subst. rewrite (Hok2 eq_refl), app_nil_r in HB. exists [].
        rewrite app_nil_r, HB. split; [reflexivity|]. split; [reflexivity | discriminate].
      + destruct (bw_drop wa _) as [d3 s3] eqn:E3. inversion H; subst.
        destruct (bw_drop_sound _ _ _ E3) as [rest Hrem]. cbn [bw_buf] in Hrem. exists rest.
        rewrite HB, Hrem, <- !app_assoc. split; [reflexivity|]. split; discriminate.
    - destruct (bw_drop wa b) as [d2 s2] eqn:E2. inversion H; subst.
      destruct (Herr e eq_refl) as [lost [Hl Hall]]. destruct (bw_drop_sound _ _ _ E2) as [rest HB].
      exists (rest ++ lost). rewrite Hall, HB, <- !app_assoc. split; [reflexivity|].
      split; [discriminate|]. intros e' He. inversion He; subst. split; [reflexivity|].
      intro Habs. apply app_eq_nil in Habs. tauto.
  Qed.

  (* save(path), bytes: the file always holds a prefix of the complete output; Ok only when it holds
     all of it.  (The converse is deliberately absent: after a reported failure, Drop's unchecked
     flush may still complete the file.) *)
  Theorem save_path_sound calls s r file s' :
    save_path wa cap calls None s = (r, file, s') ->
    exists rest, concat calls = file ++ rest /\ (r = WOk -> rest = []).
  Proof.
    unfold save_path.
    destruct (run_cwb wa cap calls _) as [[r1 d1] c1] eqn:E1. intro H.
    assert (Hinv : (length (bw_buf (cwb_inner {| cwb_inner := {| bw_buf := []; bw_inner := s |}; cwb_count := 0 |})) <= cap)%nat)
      by (cbn; lia).
    destruct (run_cwb_sound _ _ _ _ _ Hinv E1) as [Hok Herr]. cbn [cwb_inner bw_buf app] in *.
    destruct (finish_path_sound (concat calls) _ _ _ _ _ _ H) as [rest [Hall [Hr _]]].
    - intro Hr. exact (proj1 (Hok Hr)).
    - intros e He. destruct (Herr e He) as [lost [Hl Hc]]. eauto.
    - eauto.
  Qed.

  Theorem save_path_create_fails calls e s : save_path wa cap calls (Some e) s = (WErr e, [], s).
  Proof. reflexivity. Qed.

  (* an error of save_internal itself (a flush or write-through that failed inside) is returned
     as it is, and the file is then strictly incomplete *)
  Lemma save_path_inner_error calls s r1 d1 c1 e :
    run_cwb wa cap calls {| cwb_inner := {| bw_buf := []; bw_inner := s |}; cwb_count := 0 |} = (r1, d1, c1) ->
    r1 = WErr e ->
    exists file s', save_path wa cap calls None s = (WErr e, file, s') /\ (length file < length (concat calls))%nat.
  Proof.
    intros E1 ->. unfold save_path. rewrite E1.
    assert (Hinv : (length (bw_buf (cwb_inner {| cwb_inner := {| bw_buf := []; bw_inner := s |}; cwb_count := 0 |})) <= cap)%nat)
      by (cbn; lia).
    destruct (run_cwb_sound _ _ _ _ _ Hinv E1) as [_ Herr]. cbn [cwb_inner bw_buf app] in *.
    destruct (finish_path wa (WErr e) d1 (cwb_inner c1)) as [[rf file] s'] eqn:EF.
    destruct (finish_path_sound (concat calls) _ _ _ _ _ _ EF) as [rest [Hall [_ Hr]]].
    - discriminate.
    - intros e' He. inversion He; subst. destruct (Herr e' eq_refl) as [lost [Hl Hc]]. eauto.
    - destruct (Hr e eq_refl) as [-> Hrest]. exists file, s'. split; [reflexivity|].
      rewrite Hall, app_length. destruct rest; [congruence | cbn; lia].
  Qed.

  (* the state clause: the document is mutated iff save_internal reached the mutation point; when it
     did not, the result is an error and the file holds fewer bytes than were written before that
     point -- whatever the capacity and the call boundaries (so: a file that holds at least the
     bytes of [pre] comes with a mutated document) *)
  Theorem save_path_with_residue mode ids top pre post st s r file st' :
    save_path_with wa cap mode ids top pre post st None s = (r, file, st') ->
    (st' = raise_max_id top st /\ r <> WOk /\ (length file < length (concat pre))%nat) \/
    st' = mutate mode ids (raise_max_id top st).
  Proof.
    unfold save_path_with. cbv zeta. destruct (run_cwb wa cap pre _) as [[r1 d1] c1] eqn:E1. destruct r1 as [|e1].
    - destruct (run_cwb wa cap post c1) as [[r2 d2] c2]. destruct (finish_path wa r2 _ _) as [[rf f] sf].
      intro H; inversion H; subst. right. reflexivity.
    - cbn [finish_path]. destruct (bw_drop wa _) as [d2 s2] eqn:E2. intro H; inversion H; subst.
      left. split; [reflexivity|]. split; [discriminate|].
      assert (Hinv : (length (bw_buf (cwb_inner {| cwb_inner := {| bw_buf := []; bw_inner := s |}; cwb_count := 0 |})) <= cap)%nat)
        by (cbn; lia).
      destruct (run_cwb_sound _ _ _ _ _ Hinv E1) as [_ Herr]. cbn [cwb_inner bw_buf app] in Herr.
      destruct (Herr e1 eq_refl) as [lost [Hl Hc]]. destruct (bw_drop_sound _ _ _ E2) as [rest HB].
      rewrite Hc, HB, !app_length. destruct lost; [congruence | cbn [length]; lia].
  Qed.
End Bytes.

(* ------------------------------------------------------------------------------------------ *)
(* B. answers: the call-driven reading -- which answers of the device were asked for, and that    *)
(*    the result is Ok exactly when none of them was a failure                                   *)
(* ------------------------------------------------------------------------------------------ *)
(* the first hard answer among [used] is of kind e *)
Definition first_hard (used : script) (e : ekind) : Prop :=
  exists sf h rest, used = sf ++ h :: rest /\ no_hard sf /\ hard_kind h = Some e.

(* running from script s to script s' with result r consumed the answers [used] *)
Definition tr (s s' : script) (r : wres) (used : script) : Prop :=
  s = used ++ s' /\ (r = WOk -> no_hard used) /\ (forall e, r = WErr e -> first_hard used e).

Lemma soft_not_hard x : soft x -> hard_kind x = None.
Proof.
  destruct x as [k| | |e]; cbn; try tauto. intro Hk.
  destruct (k =? 0) eqn:Ek; [apply N.eqb_eq in Ek; contradiction | reflexivity].
Qed.

Lemma first_hard_not_soft used e : first_hard used e -> ~ no_hard used.
Proof.
  intros [sf [h [rest [-> [_ Hh]]]]] Hn. apply Forall_app in Hn. destruct Hn as [_ Hn].
  apply Forall_inv in Hn. rewrite (soft_not_hard _ Hn) in Hh. discriminate.
Qed.

Lemma first_hard_app_l u1 u2 e : first_hard u1 e -> first_hard (u1 ++ u2) e.
Proof.
  intros [sf [h [rest [-> [Hs Hh]]]]]. exists sf, h, (rest ++ u2). rewrite <- app_assoc. auto.
Qed.

Lemma first_hard_app_r u1 u2 e : no_hard u1 -> first_hard u2 e -> first_hard (u1 ++ u2) e.
Proof.
  intros H1 [sf [h [rest [-> [Hs Hh]]]]]. exists (u1 ++ sf), h, rest. rewrite <- app_assoc.
  split; [reflexivity|]. split; [apply Forall_app; split; assumption | exact Hh].
Qed.

Lemma tr_refl s : tr s s WOk [].
Proof. split; [reflexivity|]. split; [constructor | discriminate]. Qed.

Lemma tr_seq s s1 s2 r u1 u2 : tr s s1 WOk u1 -> tr s1 s2 r u2 -> tr s s2 r (u1 ++ u2).
Proof.
  intros [H1 [Hok1 _]] [H2 [Hok2 Herr2]]. split; [rewrite H1, H2, app_assoc; reflexivity|]. split.
  - intro Hr. apply Forall_app. split; [exact (Hok1 eq_refl) | exact (Hok2 Hr)].
  - intros e He. apply first_hard_app_r; auto.
Qed.

(* after an error, whatever else is asked (Drop's flush) does not change the verdict *)
Lemma tr_err_ext s s1 s2 e u1 u2 : tr s s1 (WErr e) u1 -> s1 = u2 ++ s2 -> tr s s2 (WErr e) (u1 ++ u2).
Proof.
  intros [H1 [_ Herr1]] H2. split; [rewrite H1, H2, app_assoc; reflexivity|]. split; [discriminate|].
  intros e' He. inversion He; subst. apply first_hard_app_l. auto.
Qed.

Lemma tr_write_all s buf r d s' : write_all s buf = (r, d, s') -> exists used, tr s s' r used.
Proof.
  intro H. destruct (write_all_faithful _ _ _ _ _ H) as [used [Hs [Hok Herr]]]. exists used. split; [|split].
  - destruct Hs as [Hs | [Hs1 Hs2]]; [exact Hs | subst; symmetry; apply app_nil_r].
  - exact Hok.
  - intros e He. destruct (Herr e He) as [sf [h [-> [Hsf Hh]]]]. exists sf, h, []. auto.
Qed.

Lemma write_all_hard_head h tail e x :
  hard_kind h = Some e -> x <> [] -> write_all (h :: tail) x = (WErr e, [], tail).
Proof.
  intros Hh Hx. rewrite write_all_cons by exact Hx. destruct h as [k| | |e0]; cbn in Hh.
  - destruct (k =? 0) eqn:Ek; [|discriminate]. apply N.eqb_eq in Ek. subst k. inversion Hh; subst.
    unfold take_n. rewrite N.min_0_l. reflexivity.
  - discriminate.
  - inversion Hh; subst. reflexivity.
  - inversion Hh; subst. reflexivity.
Qed.

Section Answers.
  Variable cap : nat.

  Lemma tr_flush_buf s buf r d rem s' :
    flush_buf write_all s buf = (r, d, rem, s') -> exists used, tr s s' r used.
  Proof.
    unfold flush_buf. destruct (write_all s buf) as [[r0 d0] s0] eqn:E. intro H; inversion H; subst.
    exact (tr_write_all _ _ _ _ _ E).
  Qed.

  Lemma tr_bw_write_all b buf r d b' :
    bw_write_all write_all cap b buf = (r, d, b') -> exists used, tr (bw_inner b) (bw_inner b') r used.
  Proof.
    unfold bw_write_all. destruct (length buf <? spare cap b)%nat.
    { intro H; inversion H; subst. exists []. apply tr_refl. }
    assert (G : forall r1 d1 b1 u1, tr (bw_inner b) (bw_inner b1) r1 u1 ->
      match r1 with
      | WErr e => (WErr e, d1, b1)
      | WOk =>
        if (cap <=? length buf)%nat then
          let '(r, d, s') := write_all (bw_inner b1) buf in (r, d1 ++ d, {| bw_buf := bw_buf b1; bw_inner := s' |})
        else (WOk, d1, {| bw_buf := bw_buf b1 ++ buf; bw_inner := bw_inner b1 |})
      end = (r, d, b') -> exists used, tr (bw_inner b) (bw_inner b') r used).
    { intros r1 d1 b1 u1 H1. destruct r1 as [|e1].
      - destruct (cap <=? length buf)%nat.
        + destruct (write_all (bw_inner b1) buf) as [[r2 d2] s2] eqn:E2. intro H; inversion H; subst.
          destruct (tr_write_all _ _ _ _ _ E2) as [u2 H2]. exists (u1 ++ u2). cbn [bw_inner].
          exact (tr_seq _ _ _ _ _ _ H1 H2).
        + intro H; inversion H; subst. exists u1. exact H1.
      - intro H; inversion H; subst. exists u1. exact H1. }
    destruct (spare cap b <? length buf)%nat.
    - unfold bw_flush. destruct (flush_buf write_all (bw_inner b) (bw_buf b)) as [[[r1 d1] rem] s1] eqn:E1.
      destruct (tr_flush_buf _ _ _ _ _ _ E1) as [u1 H1]. exact (G r1 d1 {| bw_buf := rem; bw_inner := s1 |} u1 H1).
    - exact (G WOk [] b [] (tr_refl _)).
  Qed.

  Lemma tr_run_cwb calls : forall c r d c',
    run_cwb write_all cap calls c = (r, d, c') ->
    exists used, tr (bw_inner (cwb_inner c)) (bw_inner (cwb_inner c')) r used.
  Proof.
    induction calls as [|x calls IH]; intros c r d c' H.
    - cbn in H. inversion H; subst. exists []. apply tr_refl.
    - cbn [run_cwb] in H. unfold cwb_write_all in H.
      destruct (bw_write_all write_all cap (cwb_inner c) x) as [[r1 d1] b1] eqn:E1.
      destruct (tr_bw_write_all _ _ _ _ _ E1) as [u1 H1]. destruct r1 as [|e1].
      + destruct (run_cwb write_all cap calls _) as [[r2 d2] c2] eqn:E2. inversion H; subst.
        destruct (IH _ _ _ _ E2) as [u2 H2]. cbn [cwb_inner] in H2. exists (u1 ++ u2).
        exact (tr_seq _ _ _ _ _ _ H1 H2).
      + inversion H; subst. exists u1. exact H1.
  Qed.

  Lemma bw_drop_script b d s' : bw_drop write_all b = (d, s') -> exists u, bw_inner b = u ++ s'.
  Proof.
    unfold bw_drop. destruct (flush_buf write_all (bw_inner b) (bw_buf b)) as [[[r0 d0] rem] s0] eqn:E.
    intro H; inversion H; subst. destruct (tr_flush_buf _ _ _ _ _ _ E) as [u [Hu _]]. eauto.
  Qed.

  Lemma tr_finish_path s r d b u rf file s' :
    tr s (bw_inner b) r u -> finish_path write_all r d b = (rf, file, s') ->
    exists used, tr s s' rf used.
  Proof.
    intros H1 H. destruct r as [|e]; cbn [finish_path] in H.
    - unfold bw_flush in H.
      destruct (flush_buf write_all (bw_inner b) (bw_buf b)) as [[[r2 d2] rem] s2] eqn:E2.
      destruct (tr_flush_buf _ _ _ _ _ _ E2) as [u2 H2]. pose proof (tr_seq _ _ _ _ _ _ H1 H2) as H12.
      destruct r2 as [|e2].
      + inversion H; subst. cbn [bw_inner]. eauto.
      + destruct (bw_drop write_all _) as [d3 s3] eqn:E3. inversion H; subst.
        destruct (bw_drop_script _ _ _ E3) as [u3 H3]. cbn [bw_inner] in H3.
        exists ((u ++ u2) ++ u3). exact (tr_err_ext _ _ _ _ _ _ H12 H3).
    - destruct (bw_drop write_all b) as [d2 s2] eqn:E2. inversion H; subst.
      destruct (bw_drop_script _ _ _ E2) as [u2 H2]. exists (u ++ u2). exact (tr_err_ext _ _ _ _ _ _ H1 H2).
  Qed.

  (* THE theorem for save(path).  For every capacity, every list of write_all buffers and every
     script of the file: with [asked] the answers the file was asked for during the whole of `save`
     (including the final flush of into_inner and the unchecked flush of Drop),
       - the file holds a prefix of the complete output,
       - Ok is returned exactly when no answer was a failure (hard error or Ok(0)) -- so a failure
         of ANY underlying write, the final flush included, yields Err --,
       - Ok only if every byte reached the file,
       - the error returned is that of the FIRST failure. *)
  Theorem save_path_ok_iff_complete calls s r file s' :
    save_path write_all cap calls None s = (r, file, s') ->
    exists asked rest, s = asked ++ s' /\ concat calls = file ++ rest /\
      (r = WOk <-> no_hard asked) /\
      (r = WOk -> rest = []) /\
      (forall e, r = WErr e -> first_hard asked e).
  Proof.
    intro H. destruct (save_path_sound _ write_all_sound _ _ _ _ _ _ H) as [rest [Hall Hrest]].
    unfold save_path in H. destruct (run_cwb write_all cap calls _) as [[r1 d1] c1] eqn:E1.
    destruct (tr_run_cwb _ _ _ _ _ E1) as [u1 H1]. cbn [cwb_inner bw_inner] in H1.
    destruct (tr_finish_path _ _ _ _ _ _ _ _ H1 H) as [asked [Hs [Hok Herr]]].
    exists asked, rest. split; [exact Hs|]. split; [exact Hall|]. split; [|split; [exact Hrest | exact Herr]].
    split; [exact Hok|]. intro Hn. destruct r as [|e]; [reflexivity|].
    exfalso. exact (first_hard_not_soft _ _ (Herr e eq_refl) Hn).
  Qed.

  (* the same in the shape of failure_is_error_and_prefix: a script that is soft up to a hard answer h *)
  Corollary save_path_failure_is_error calls sf h tail e :
    no_hard sf -> hard_kind h = Some e ->
    let '(r, file, _) := save_path write_all cap calls None (sf ++ h :: tail) in
    (r = WOk /\ file = concat calls) \/
    (r = WErr e /\ file = firstn (length file) (concat calls)).
  Proof.
    intros Hsf Hh. destruct (save_path write_all cap calls None (sf ++ h :: tail)) as [[r file] s'] eqn:E.
    destruct (save_path_ok_iff_complete _ _ _ _ _ E) as [asked [rest [Hs [Hall [_ [Hrest Herr]]]]]].
    assert (Hpre : file = firstn (length file) (concat calls)).
    { rewrite Hall, firstn_app, firstn_all, Nat.sub_diag. cbn. rewrite app_nil_r. reflexivity. }
    destruct r as [|e'].
    - left. split; [reflexivity|]. rewrite Hall, (Hrest eq_refl), app_nil_r. reflexivity.
    - right. split; [|exact Hpre]. destruct (Herr e' eq_refl) as [sf' [h' [rest' [Ha [Hsf' Hh']]]]].
      subst asked. rewrite <- app_assoc in Hs. cbn [app] in Hs. clear - Hs Hsf Hh Hsf' Hh'.
      revert sf' Hsf' Hs. induction Hsf as [|x sf Hx Hsf IH]; intros sf' Hsf' Heq.
      + destruct sf' as [|y sf']; cbn in Heq; injection Heq as Hxy Htl.
        * subst. congruence.
        * subst y. apply Forall_inv in Hsf'. rewrite (soft_not_hard _ Hsf') in Hh. discriminate.
      + destruct sf' as [|y sf']; cbn in Heq; injection Heq as Hxy Htl.
        * subst. rewrite (soft_not_hard _ Hx) in Hh'. discriminate.
        * subst y. exact (IH _ (Forall_inv_tail Hsf') Htl).
  Qed.

  (* a device whose first answer is a failure (/dev/full: every write fails with StorageFull): no
     non-empty output can be saved with result Ok, whatever its size relative to the buffer *)
  Lemma bw_write_all_full h tail e b buf r d b' :
    hard_kind h = Some e -> bw_inner b = h :: tail ->
    bw_write_all write_all cap b buf = (r, d, b') ->
    d = [] /\ ((r = WOk /\ bw_inner b' = h :: tail /\ bw_buf b' = bw_buf b ++ buf) \/ r = WErr e).
  Proof.
    intros Hh Hb. unfold bw_write_all.
    assert (W : forall x, x <> [] -> exists s1, write_all (h :: tail) x = (WErr e, [], s1)).
    { intros x Hx. exists tail. apply write_all_hard_head; assumption. }
    destruct (length buf <? spare cap b)%nat.
    { intro H; inversion H; subst. cbn [bw_inner bw_buf]. split; [reflexivity|]. left. auto. }
    destruct (spare cap b <? length buf)%nat eqn:Eflush.
    - unfold bw_flush, flush_buf. rewrite Hb. destruct (bw_buf b) as [|y B] eqn:EB.
      + rewrite write_all_nil. cbn [length skipn bw_buf bw_inner].
        destruct (cap <=? length buf)%nat.
        * apply Nat.ltb_lt in Eflush.
          assert (Hbuf : buf <> []) by (destruct buf; [cbn in Eflush; lia | discriminate]).
          destruct (W buf Hbuf) as [s1 ->]. intro H; inversion H; subst. split; [reflexivity | right; reflexivity].
        * intro H; inversion H; subst. cbn [bw_inner bw_buf app]. split; [reflexivity|]. left. auto.
      + destruct (W (y :: B)) as [s1 ->]; [discriminate|]. intro H; inversion H; subst.
        split; [reflexivity | right; reflexivity].
    - destruct (cap <=? length buf)%nat.
      + rewrite Hb. destruct buf as [|y buf].
        * rewrite write_all_nil. intro H; inversion H; subst. cbn [bw_inner bw_buf app].
          split; [reflexivity|]. left. rewrite app_nil_r. auto.
        * destruct (W (y :: buf)) as [s1 ->]; [discriminate|]. intro H; inversion H; subst.
          split; [reflexivity | right; reflexivity].
      + intro H; inversion H; subst. cbn [bw_inner bw_buf]. split; [reflexivity|]. left. auto.
  Qed.

  Lemma run_cwb_full h tail e calls : forall c r d c',
    hard_kind h = Some e -> bw_inner (cwb_inner c) = h :: tail ->
    run_cwb write_all cap calls c = (r, d, c') ->
    d = [] /\ ((r = WOk /\ bw_inner (cwb_inner c') = h :: tail /\
                bw_buf (cwb_inner c') = bw_buf (cwb_inner c) ++ concat calls) \/ r = WErr e).
  Proof.
    induction calls as [|x calls IH]; intros c r d c' Hh Hc H.
    - cbn in H. inversion H; subst. split; [reflexivity|]. left. cbn [concat]. rewrite app_nil_r. auto.
    - cbn [run_cwb] in H. unfold cwb_write_all in H.
      destruct (bw_write_all write_all cap (cwb_inner c) x) as [[r1 d1] b1] eqn:E1.
      destruct (bw_write_all_full _ _ _ _ _ _ _ _ Hh Hc E1) as [-> [[-> [Hi HB]] | ->]].
      + destruct (run_cwb write_all cap calls _) as [[r2 d2] c2] eqn:E2. inversion H; subst.
        destruct (IH {| cwb_inner := b1; cwb_count := cwb_count c + N.of_nat (length x) |} _ _ _ Hh Hi E2) as [-> [[-> [Hi2 HB2]] | ->]]; (split; [reflexivity|]).
        * left. cbn [cwb_inner] in *. rewrite HB2, HB. cbn [concat]. rewrite app_assoc. auto.
        * right. reflexivity.
      + inversion H; subst. split; [reflexivity | right; reflexivity].
  Qed.

  Theorem save_path_full_device calls h tail e :
    hard_kind h = Some e -> concat calls <> [] ->
    fst (fst (save_path write_all cap calls None (h :: tail))) = WErr e.
  Proof.
    intros Hh Hne. unfold save_path.
    destruct (run_cwb write_all cap calls _) as [[r1 d1] c1] eqn:E1.
    destruct (run_cwb_full h tail e calls {| cwb_inner := {| bw_buf := []; bw_inner := h :: tail |}; cwb_count := 0 |} _ _ _ Hh eq_refl E1) as [-> [[-> [Hi HB]] | ->]].
    - cbn [cwb_inner bw_buf app] in HB. cbn [finish_path]. unfold bw_flush, flush_buf. rewrite Hi, HB.
      destruct (concat calls) as [|y B] eqn:EC; [congruence|].
      rewrite (write_all_hard_head _ _ _ _ Hh) by discriminate.
      destruct (bw_drop write_all _) as [d3 s3]. reflexivity.
    - cbn [finish_path]. destruct (bw_drop write_all _) as [d3 s3]. reflexivity.
  Qed.
End Answers.

(* ------------------------------------------------------------------------------------------ *)
(* C. examples: non-vacuity, and that the theorem separates `into_inner()?` from a dropped writer *)
(* ------------------------------------------------------------------------------------------ *)
Definition ex_path_calls : list bytes := [bs "%PDF-1.5"; [x0a]; bs "1 0 obj"; bs "null"; bs " endobj"; bs "trailer"].

(* capacity 8: small calls are buffered, `%PDF-1.5` (8 bytes) goes through, the rest is flushed when the
   buffer would overflow and by into_inner *)
Lemma ex_path_ok :
  save_path write_all 8 ex_path_calls None [Accept 3; Interrupted; Accept 100; Accept 2]
  = (WOk, concat ex_path_calls, []).
Proof. vm_compute. reflexivity. Qed.

(* the failure hits the final flush only: save_internal has long returned Ok *)
Lemma ex_path_final_flush_fails :
  save_path write_all DEFAULT_BUF_SIZE ex_path_calls None [Fail EStorageFull; Fail EStorageFull; Fail EStorageFull]
  = (WErr EStorageFull, [], [Fail EStorageFull]).
Proof. vm_compute. reflexivity. Qed.

(* the seeded defect (BufWriter dropped): Ok although not one byte reached the file -- excluded for
   save_path by save_path_ok_iff_complete *)
Lemma dropped_bufwriter_breaks :
  save_path_dropped write_all DEFAULT_BUF_SIZE ex_path_calls [Fail EStorageFull; Fail EStorageFull; Fail EStorageFull]
  = (WOk, [], [Fail EStorageFull; Fail EStorageFull]) /\
  concat ex_path_calls <> [].
Proof. split; [vm_compute; reflexivity | discriminate]. Qed.

(* a failure in the middle (positional reading: the device has room for 12 bytes), capacity 8 *)
Lemma ex_path_positional :
  save_path qwrite_all 8 ex_path_calls None [Accept 12; Fail EStorageFull; Fail EStorageFull; Fail EStorageFull]
  = (WErr EStorageFull, bs "%PDF-1.5" ++ [x0a] ++ bs "1 0", [Fail EStorageFull]).
Proof. vm_compute. reflexivity. Qed.

Lemma ex_path_create : save_path write_all DEFAULT_BUF_SIZE ex_path_calls (Some EPermissionDenied) [] = (WErr EPermissionDenied, [], []).
Proof. reflexivity. Qed.
