(* QueryProofsWalk.v -- totality of the name-tree walker, the outline walker, get_outlines and get_toc
   of Model/Query.v on arbitrary object graphs (measure arguments over the reference budgets). *)
From LV Require Import Base.Bytes Base.Sx Model.Obj Model.DocQ Model.PageTree Model.Utf Model.Query
  Gen.Consts Gen.QueryC Proofs.QueryProofs.
From LV Require Model.Toc.

(* ---------------------------------------------------------------------------------------- *)
(* nesting heights                                                                            *)
(* ---------------------------------------------------------------------------------------- *)

Fixpoint dmax (d : dict) : nat :=
  match d with [] => O | kv :: d' => Nat.max (oheight (snd kv)) (dmax d') end.

Lemma oheight_dict d : oheight (ODict d) = S (dmax d).
Proof.
  reflexivity.
Qed.

Lemma dheight_eq d : dheight d = S (dmax d).
Proof. unfold dheight. apply oheight_dict. Qed.

Lemma dict_get_height d k v : dict_get d k = Some v -> oheight v <= dmax d.
Proof.
  induction d as [|[k' v'] d IH]; cbn [dict_get dmax snd]; [discriminate|].
  destruct (bytes_eqb k' k).
  - intro H. inversion H. subst. apply Nat.le_max_l.
  - intro H. specialize (IH H). pose proof (Nat.le_max_r (oheight v') (dmax d)). lia.
Qed.

Lemma dict_get_dict_height d k n : dict_get d k = Some (ODict n) -> dheight n < dheight d.
Proof.
  intro H. apply dict_get_height in H. unfold dheight at 1. rewrite (dheight_eq d). lia.
Qed.

Lemma lookup_height m id o : lookup m id = Some o -> oheight o <= hmax m.
Proof.
  induction m as [|[i o'] m IH]; cbn [lookup hmax snd]; [discriminate|].
  destruct (oid_eqb i id).
  - intro H. inversion H. subst. apply Nat.le_max_l.
  - intro H. specialize (IH H). pose proof (Nat.le_max_r (oheight o') (hmax m)). lia.
Qed.

Lemma deref_aux_height m : forall k last o l o',
  oheight o <= hmax m -> deref_aux m k last o = Some (l, o') -> oheight o' <= hmax m.
Proof.
  induction k as [|k IH]; intros last o l o' Ho H; destruct o; cbn [deref_aux] in H;
    try (inversion H; subst; exact Ho).
  - destruct (lookup m (id, gen)); discriminate.
  - destruct (lookup m (id, gen)) as [o1|] eqn:E; [|discriminate].
    eapply IH; [|exact H]. eapply lookup_height. exact E.
Qed.

Lemma get_object_height m id o : get_object m id = Some o -> oheight o <= hmax m.
Proof.
  unfold get_object, dereference. destruct (lookup m id) as [o0|] eqn:E; [|discriminate].
  destruct (deref_aux m (N.to_nat DEREF_LIMIT) None o0) as [[l o']|] eqn:Ed; [|discriminate].
  cbn. intro H. inversion H. subst. eapply deref_aux_height; [|exact Ed]. eapply lookup_height. exact E.
Qed.

Lemma get_dictionary_height m id d : get_dictionary m id = Some d -> dheight d <= hmax m.
Proof.
  unfold get_dictionary. destruct (get_object m id) as [o|] eqn:E; [|discriminate].
  destruct o; try discriminate. intro H. inversion H. subst. unfold dheight. eapply get_object_height. exact E.
Qed.

Lemma deref_aux_not_ref m : forall k last o l o',
  deref_aux m k last o = Some (l, o') -> forall i g, o' <> ORef i g.
Proof.
  induction k as [|k IH]; intros last o l o' H i g; destruct o; cbn [deref_aux] in H;
    try (inversion H; subst; discriminate).
  - destruct (lookup m (id, gen)); discriminate.
  - destruct (lookup m (id, gen)) as [o1|]; [|discriminate]. eapply IH. exact H.
Qed.

Lemma get_object_not_ref m id o : get_object m id = Some o -> forall i g, o <> ORef i g.
Proof.
  unfold get_object, dereference. destruct (lookup m id) as [o0|]; [|discriminate].
  destruct (deref_aux m (N.to_nat DEREF_LIMIT) None o0) as [[l o']|] eqn:Ed; [|discriminate].
  cbn. intro H. inversion H. subst. eapply deref_aux_not_ref. exact Ed.
Qed.

(* ---------------------------------------------------------------------------------------- *)
(* get_outline returns                                                                        *)
(* ---------------------------------------------------------------------------------------- *)

Lemma bor_direct_returns dst title nm :
  (forall i g, dst <> ORef i g) -> returns (snd (bor_direct dst title nm)).
Proof.
  intro H. destruct dst; cbn [bor_direct snd]; try exact I.
  - destruct (nm_get nm s) as [[[t p] ty]|]; exact I.
  - destruct l as [|a0 [|a1 l]]; exact I.
  - exfalso. eapply H. reflexivity.
Qed.

Lemma build_outline_result_returns m dst title nm : returns (snd (build_outline_result m dst title nm)).
Proof.
  unfold build_outline_result.
  destruct dst; try (apply bor_direct_returns; intros; discriminate).
  destruct (get_object m (id, gen)) as [o|] eqn:E; [|exact I].
  apply bor_direct_returns. eapply get_object_not_ref. exact E.
Qed.

Lemma get_outline_returns m node nm : returns (snd (get_outline m node nm)).
Proof.
  unfold get_outline.
  destruct (get_dict_in_dict m node Q_A) as [action|].
  - destruct (dict_get action Q_S) as [s|]; [|exact I].
    destruct s; try exact I.
    destruct (bytes_eqb n Q_GoTo || bytes_eqb n Q_GoToR); [|exact I].
    destruct (dict_get node Q_Title) as [t|]; [|exact I].
    destruct t; try exact I.
    + destruct (dict_get action Q_D); [apply build_outline_result_returns | exact I].
    + destruct (dict_get action Q_D); [|exact I].
      destruct (get_object m (id, gen)); [apply build_outline_result_returns | exact I].
  - destruct (dict_get node Q_Dest); [|exact I].
    destruct (dict_get node Q_Title); [apply build_outline_result_returns | exact I].
Qed.

(* ---------------------------------------------------------------------------------------- *)
(* the name-tree walker: every recursive call spends one unit of the kid budget               *)
(* ---------------------------------------------------------------------------------------- *)

Definition nd_fine (budget : nat) (r : out nat) : Prop :=
  match r with Ok b => b <= budget | Err => True | Panic _ | OutOfFuel => False end.

Lemma nd_fine_mono b b' r : nd_fine b r -> b <= b' -> nd_fine b' r.
Proof. destruct r; cbn; intros; try assumption; lia. Qed.

Lemma nd_kids_fine (rec : dict -> nmap -> nat -> ndres) m depth B :
  (forall kd nm b, b < B -> nd_fine b (snd (rec kd nm b))) ->
  forall l nm budget, budget <= B -> nd_fine budget (snd (nd_kids rec m depth l nm budget)).
Proof.
  intros Hrec. induction l as [|kid l IH]; intros nm budget Hb; cbn [nd_kids]; [cbn; lia|].
  destruct kid; try (apply IH; exact Hb).
  destruct (get_dictionary m (id, gen)) as [kd|]; [|apply IH; exact Hb].
  destruct budget as [|b]; [exact I|].
  destruct (NAME_TREE_DEPTH_LIMIT <=? depth)%N; [exact I|].
  pose proof (Hrec kd nm b ltac:(lia)) as Hr.
  destruct (rec kd nm b) as [nm' r]. cbn [snd] in Hr.
  destruct r as [b'| | |]; cbn in Hr; try contradiction; [|exact I].
  eapply nd_fine_mono; [apply IH; lia | lia].
Qed.

Lemma nd_node_fine (rec : dict -> nmap -> nat -> ndres) m tree nm budget depth :
  (forall kd nm' b, b < budget -> nd_fine b (snd (rec kd nm' b))) ->
  nd_fine budget (snd (nd_node rec m tree nm budget depth)).
Proof.
  intro Hrec. unfold nd_node.
  assert (Hak : nd_fine budget (snd (nd_after_kids rec m tree nm budget depth))).
  { unfold nd_after_kids. destruct (dict_get tree K_Kids) as [ko|]; [|cbn; lia].
    destruct ko; try exact I.
    apply nd_kids_fine with (B := budget); [exact Hrec | lia]. }
  destruct (nd_after_kids rec m tree nm budget depth) as [nm1 r1]. cbn [snd] in Hak.
  destruct r1 as [b1| | |]; cbn in Hak; try contradiction; [|exact I].
  destruct (dict_get tree Q_Names) as [no|]; [|exact Hak].
  destruct no; try exact I.
  destruct (nd_names m l nm1) as [nm2 okb]. destruct okb; [exact Hak | exact I].
Qed.

Lemma nd_walk_fine m : forall fuel tree nm budget depth,
  budget + 1 <= fuel -> nd_fine budget (snd (nd_walk fuel m tree nm budget depth)).
Proof.
  induction fuel as [|f IH]; intros tree nm budget depth Hf; [lia|].
  cbn [nd_walk]. apply nd_node_fine. intros kd nm' b Hb. apply IH. lia.
Qed.

Lemma get_named_destinations_total m tree nm fuel :
  fuel_nd m <= fuel -> returns (snd (get_named_destinations fuel m tree nm)).
Proof.
  intro H. unfold get_named_destinations.
  pose proof (nd_walk_fine m fuel tree nm (length m) 0%N) as Hw.
  unfold fuel_nd in H. specialize (Hw ltac:(lia)).
  destruct (nd_walk fuel m tree nm (length m) 0) as [nm' r]. cbn [snd] in *.
  destruct r; cbn in *; try contradiction; exact I.
Qed.

(* ---------------------------------------------------------------------------------------- *)
(* the outline walker: measure = budget * (hmax + 1) + nesting height of the current node      *)
(* ---------------------------------------------------------------------------------------- *)

Definition ol_fine (budget : nat) (r : out (list outline * nat)) : Prop :=
  match r with Ok x => snd x <= budget | Err => True | Panic _ | OutOfFuel => False end.

Lemma ol_fine_mono b b' r : ol_fine b r -> b <= b' -> ol_fine b' r.
Proof. destruct r; cbn; intros; try assumption; lia. Qed.

Section Tail.
  Variable m : objmap.
  Variable rec : dict -> nmap -> nat -> N -> olres.
  Variable f : nat.
  Hypothesis Hrec : forall n nm b dp, b * (hmax m + 1) + dheight n <= f -> ol_fine b (snd (rec n nm b dp)).

  Lemma rec_wrap n nm b dp item s budget :
    b * (hmax m + 1) + dheight n <= f -> b <= budget ->
    ol_fine budget (snd (match rec n nm b dp with
                         | (nm3, Ok (r', b4)) => (nm3, Ok (item ++ s ++ r', b4))
                         | e => e
                         end : olres)).
  Proof.
    intros H Hb. pose proof (Hrec n nm b dp H) as Hr.
    destruct (rec n nm b dp) as [nm3 r]. cbn [snd] in Hr.
    destruct r as [[r' b4]| | |]; cbn in *; try contradiction; [lia | exact I].
  Qed.

  Lemma ol_first_fine nm1 budget depth first node k :
    dict_get node k = Some first ->
    budget * (hmax m + 1) + dheight node <= S f ->
    ol_fine budget (snd (ol_first rec m nm1 budget depth first)).
  Proof.
    intros Ef Hm. unfold ol_first. destruct first; try exact I.
    - (* direct dictionary *)
      apply Hrec. apply dict_get_dict_height in Ef. lia.
    - (* reference: one unit of budget *)
      destruct budget as [|b]; [exact I|].
      destruct (get_object m (id, gen)) as [o|] eqn:Eo; [|exact I].
      destruct o; try exact I.
      eapply ol_fine_mono; [apply Hrec | lia].
      apply get_object_height in Eo. unfold dheight. rewrite Nat.mul_succ_l in Hm.
      pose proof (dheight_eq node). lia.
  Qed.

  Lemma ol_sub_fine node nm1 budget depth :
    budget * (hmax m + 1) + dheight node <= S f ->
    ol_fine budget (snd (ol_sub rec m node nm1 budget depth)).
  Proof.
    intro Hm. unfold ol_sub.
    destruct (dict_get node Q_First) as [first|] eqn:Ef; [|cbn; lia].
    destruct (OUTLINE_DEPTH_LIMIT <=? depth)%N; [exact I|].
    pose proof (ol_first_fine nm1 budget depth first node Q_First Ef Hm) as Hr.
    destruct (ol_first rec m nm1 budget depth first) as [nm2 rr]. cbn [snd] in Hr.
    destruct rr as [[subs b2]| | |]; cbn in Hr; try contradiction; [|exact I].
    destruct subs; cbn; exact Hr.
  Qed.

  Lemma ol_tail_fine node nm1 item budget depth :
    budget * (hmax m + 1) + dheight node <= S f ->
    ol_fine budget (snd (ol_tail rec m node nm1 item budget depth)).
  Proof.
    intro Hm. unfold ol_tail.
    pose proof (ol_sub_fine node nm1 budget depth Hm) as Hsub.
    destruct (ol_sub rec m node nm1 budget depth) as [nm2 rs]. cbn [snd] in Hsub.
    destruct rs as [[s b2]| | |]; cbn in Hsub; try contradiction; [|exact I].
    destruct (dict_get node Q_Next) as [nx|] eqn:En; [|cbn; exact Hsub].
    destruct nx; try (cbn; exact Hsub).
    - (* direct dictionary *)
      apply rec_wrap; [|exact Hsub].
      apply dict_get_dict_height in En.
      pose proof (Nat.mul_le_mono_r b2 budget (hmax m + 1) Hsub). lia.
    - (* reference *)
      destruct b2 as [|b3]; [exact I|].
      destruct (get_dictionary m (id, gen)) as [n|] eqn:Ed; [|cbn; lia].
      apply rec_wrap; [|lia].
      apply get_dictionary_height in Ed.
      pose proof (Nat.mul_le_mono_r (S b3) budget (hmax m + 1) Hsub) as Hmul.
      rewrite Nat.mul_succ_l in Hmul. pose proof (dheight_eq node). lia.
  Qed.
End Tail.

Lemma ol_walk_fine m : forall fuel node nm budget depth,
  budget * (hmax m + 1) + dheight node <= fuel ->
  ol_fine budget (snd (ol_walk fuel m node nm budget depth)).
Proof.
  induction fuel as [|f IH]; intros node nm budget depth Hm.
  - pose proof (dheight_eq node). lia.
  - cbn [ol_walk].
    pose proof (get_outline_returns m node nm) as Hr.
    destruct (get_outline m node nm) as [nm1 r]. cbn [snd] in Hr.
    destruct r as [[o|]| | |]; cbn in Hr; try contradiction;
      apply ol_tail_fine with (f := f); try exact Hm; intros; apply IH; assumption.
Qed.

(* ---------------------------------------------------------------------------------------- *)
(* get_outlines, get_toc                                                                       *)
(* ---------------------------------------------------------------------------------------- *)

Lemma gdid_height m node k n :
  get_dict_in_dict m node k = Some n -> dheight node <= hmax m -> dheight n <= hmax m.
Proof.
  unfold get_dict_in_dict. destruct (dict_get node k) as [o|] eqn:E; [|discriminate].
  destruct o; try discriminate.
  - intros H Hn. inversion H. subst. apply dict_get_dict_height in E. lia.
  - intros H _. eapply get_dictionary_height. exact H.
Qed.

Lemma catalog_height d cat : catalog d = Some cat -> dheight cat <= hmax (d_objects d).
Proof.
  unfold catalog. destruct (dict_get (d_trailer d) K_Root) as [o|]; [|discriminate].
  destruct o; try discriminate. apply get_dictionary_height.
Qed.

Lemma get_outlines_total d fuel :
  fuel_toc (d_objects d) <= fuel -> returns (snd (get_outlines fuel d)).
Proof.
  intro Hf. unfold get_outlines.
  destruct (catalog d) as [cat|] eqn:Ec; [|exact I].
  destruct (get_dict_in_dict (d_objects d) cat Q_Outlines) as [od|] eqn:Eo; [|exact I].
  set (m := d_objects d) in *.
  set (dict_node := match get_dict_in_dict m od Q_First with Some f => f | None => od end).
  assert (Hcat : dheight cat <= hmax m) by (apply catalog_height; exact Ec).
  assert (Hod : dheight od <= hmax m) by (eapply gdid_height; [exact Eo | exact Hcat]).
  assert (Hdn : dheight dict_node <= hmax m).
  { subst dict_node. destruct (get_dict_in_dict m od Q_First) as [fd|] eqn:Efd; [|exact Hod].
    eapply gdid_height; [exact Efd | exact Hod]. }
  assert (Hfo : fuel_outlines m <= fuel) by (unfold fuel_toc in Hf; lia).
  assert (Hfn : fuel_nd m <= fuel) by (unfold fuel_toc in Hf; lia).
  match goal with |- context [let '(nm, r) := ?x in _] => set (ndr := x) end.
  assert (Hnd : returns (snd ndr)).
  { subst ndr. destruct (named_tree m cat); [apply get_named_destinations_total; exact Hfn | exact I]. }
  destruct ndr as [nm r]. cbn [snd] in Hnd.
  destruct r; cbn in Hnd; try contradiction; [|exact I].
  pose proof (ol_walk_fine m fuel dict_node nm (length m) 0%N) as Hw.
  assert (Hm : length m * (hmax m + 1) + dheight dict_node <= fuel).
  { unfold fuel_outlines in Hfo. rewrite Nat.mul_add_distr_r in Hfo. lia. }
  specialize (Hw Hm).
  destruct (ol_walk fuel m dict_node nm (length m) 0) as [nm' r']. cbn [snd] in *.
  destruct r' as [[l b]| | |]; cbn in *; try contradiction; exact I.
Qed.

Lemma get_toc_total d fuel :
  fuel_toc (d_objects d) <= fuel -> returns (get_toc fuel d).
Proof.
  intro Hf. unfold get_toc. apply returns_bind; [apply get_outlines_total; exact Hf|].
  intros outs _. destruct (setup_all outs [] 1); exact I.
Qed.

(* ---------------------------------------------------------------------------------------- *)
(* extract_text glue                                                                          *)
(* ---------------------------------------------------------------------------------------- *)

Lemma text_chunks_from_page_total decomp text_of d n fuel :
  fuel_text (d_objects d) <= fuel -> returns (text_chunks_from_page decomp text_of fuel d n).
Proof.
  intro Hf. unfold text_chunks_from_page, fuel_text in *.
  destruct (find (fun p => (fst p =? n)%N) (get_pages d)) as [p|]; [|exact I].
  apply returns_bind; [apply get_page_fonts_total; lia|].
  intros fonts _. destruct (page_encodings (d_objects d) fonts) as [encs nerr].
  apply returns_bind.
  - destruct (get_page_content_total decomp (d_objects d) (snd p) fuel ltac:(lia)) as [b ->]. exact I.
  - intros content _. destruct (text_of encs content); exact I.
Qed.

Lemma extract_text_chunks_total decomp text_of d ns fuel :
  fuel_text (d_objects d) <= fuel -> Forall returns (extract_text_chunks decomp text_of fuel d ns).
Proof.
  intro Hf. unfold extract_text_chunks. apply Forall_forall. intros x Hx.
  apply in_map_iff in Hx. destruct Hx as [n [<- _]]. apply text_chunks_from_page_total. exact Hf.
Qed.
