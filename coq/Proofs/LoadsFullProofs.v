(* LoadsFullProofs.v -- C02_full: the whole-file theorems of both cross-reference formats (Proofs/LoadsRefLenProofs.v for
   the table, Proofs/LoadsObjStmWhole.v for the stream with object streams) restated in the property's own terms:
   loading the file the reference writer produced yields exactly the objects, trailer and version the file defines --
   every object compared by VALUE ([same_value]: reals by their decimal value, strings without their format; a stream:
   the same dictionary entries, Length the number of data bytes, the same data) with [content a], nothing beside the
   file-structure objects the writer added (object-stream containers, the cross-reference stream). *)
From LV Require Import Base.Bytes Base.Sx Model.Obj Model.Writer Model.Parser Model.Xref Model.ObjStm Model.Loader Model.Utf Gen.Lex
  Spec.XrefSpec Spec.RefWriter Proofs.LexProofs Proofs.LoadProofs Proofs.LoadProofsFile Proofs.XrefProofs
  Proofs.XrefTableProofs Proofs.ObjectRtProofs Proofs.SpellingProofs Proofs.SpellingObjProofs Proofs.SpellingFileProofs
  Proofs.LoadsFrameProofs Proofs.LoadsTableProofs Proofs.FilterProofsDict.
From LV Require Proofs.LoadProofsStream.
From LV Require Import Model.LoaderExt Proofs.LoaderExtProofs.
From LV Require Import Proofs.LoadsFilterProofs Proofs.LoadsStreamProofs Proofs.LoadsRefLenProofs Proofs.LoadsLoopProofs.
From LV Require Import Proofs.ObjStmSpellProofs Proofs.ObjStmFilterProofs Proofs.LoadsObjStmProofs Proofs.LoadsObjStmFile
  Proofs.LoadsObjStmWhole.
From LV Require Model.Png.
From Coq Require Import Lia.
Local Open Scope N_scope.

(* ---------- values ---------- *)
Notation same_entries := (Forall2 (fun a b : bytes * obj => fst a = fst b /\ same_value (snd a) (snd b))).

Lemma denote_dict_same : forall d sts, wf_dict d sts -> same_entries d (denote_dict d sts).
Proof.
  induction d as [|[k v] d IH]; intros sts H; cbn [denote_dict]; constructor.
  - cbn [fst snd]. split; [reflexivity|]. apply denote_same_value. apply H.
  - apply IH. apply H.
Qed.

Definition norm_len (c : bytes) (kv : bytes * obj) : bytes * obj :=
  if bytes_eqb (fst kv) RefWriter.K_Length then (fst kv, OInt (Z.of_nat (length c))) else kv.

Lemma norm_no_length c : forall d, ~ In RefWriter.K_Length (map fst d) -> map (norm_len c) d = d.
Proof.
  induction d as [|[k v] d IH]; intro H; [reflexivity|]. cbn [map]. unfold norm_len at 1. cbn [fst].
  destruct (bytes_eqb k RefWriter.K_Length) eqn:E.
  - exfalso. apply bytes_eqb_eq in E. apply H. left. exact E.
  - rewrite IH; [reflexivity|]. intro K. apply H. right. exact K.
Qed.

(* a stream as the file defines it and as it is loaded: the entries read back, Length the number of data bytes *)
Lemma stream_same c : forall d sts, NoDup (map fst d) -> wf_dict d sts -> In RefWriter.K_Length (map fst d) ->
  same_entries (map (norm_len c) d) (dict_set (denote_dict d sts) Obj.K_Length (OInt (Z.of_nat (length c)))).
Proof.
  induction d as [|[k v] d IH]; intros sts Hnd Hw Hin; [contradiction|].
  cbn [map denote_dict dict_set]. unfold norm_len at 1. cbn [fst snd]. cbn [map fst] in Hnd. inversion Hnd as [|? ? Hn Hd]; subst.
  change Obj.K_Length with RefWriter.K_Length. destruct (bytes_eqb k RefWriter.K_Length) eqn:E.
  - apply bytes_eqb_eq in E. subst k. constructor; [split; [reflexivity|constructor]|].
    rewrite norm_no_length by exact Hn. apply denote_dict_same. apply Hw.
  - constructor; [split; [reflexivity|apply denote_same_value; apply Hw]|].
    apply IH; [exact Hd|apply Hw|]. destruct Hin as [K|K]; [|exact K]. cbn [fst] in K. subst k. rewrite bytes_eqb_refl in E. discriminate E.
Qed.

Lemma top_same a tp : top_ok2 a tp -> same_value (norm_stream (snd (fst tp))) (loaded_top tp).
Proof.
  destruct tp as [[[i g] o] y]. unfold top_ok2, loaded_top. cbn [fst snd]. intros [_ [_ Ho]].
  destruct o as [| | | | | | | |d c|]; try (cbn [norm_stream]; apply denote_same_value; apply Ho).
  destruct Ho as [Hw [_ [_ HL]]]. cbn [norm_stream]. unfold stream_new. constructor.
  apply spell_wf_dict in Hw as [Hnd Hwd].
  apply (stream_same c d _ Hnd Hwd).
  assert (Hg : exists v, dict_get d Obj.K_Length = Some v) by (destruct HL as [HL|[li [lg [HL _]]]]; eauto).
  destruct Hg as [v Hg]. clear -Hg. induction d as [|[k0 v0] d IH]; [discriminate Hg|]. cbn [dict_get] in Hg. cbn [map fst].
  destruct (bytes_eqb k0 Obj.K_Length) eqn:E; [left; apply bytes_eqb_eq in E; exact E|right; apply IH; exact Hg].
Qed.

(* what is read back of a dictionary, key by key *)
Definition same_opt (loaded defined : option obj) : Prop :=
  match loaded, defined with
  | Some o, Some o' => same_value o' o
  | None, None => True
  | _, _ => False
  end.

Lemma dict_get_denote_same : forall d sts k, wf_dict d sts -> same_opt (dict_get (denote_dict d sts) k) (dict_get d k).
Proof.
  induction d as [|[k0 v] d IH]; intros sts k H; [exact I|]. cbn [denote_dict dict_get].
  destruct (bytes_eqb k0 k); [cbn [same_opt]; apply denote_same_value; apply H|apply IH; apply H].
Qed.

(* ---------- the content of the document ---------- *)
Lemma content_lookup_in a id o : NoDup (nums a) -> In (id, o) (a_objs a) -> lookup (content a) id = Some (norm_stream o).
Proof.
  unfold content, nums. induction (a_objs a) as [|[id0 o0] l IH]; intros Hnd Hin; [contradiction|].
  cbn [map fst snd lookup]. cbn [map fst] in Hnd. inversion Hnd as [|? ? Hn Hd]; subst. destruct Hin as [Hin|Hin].
  - inversion Hin; subst. rewrite oid_eqb_refl. reflexivity.
  - destruct (oid_eqb id0 id) eqn:E; [|apply IH; assumption].
    exfalso. apply oid_eqb_eq in E. subst id0. apply Hn. apply in_map_iff. exists (id, o). split; [reflexivity|exact Hin].
Qed.

Lemma content_lookup_some a id o' : lookup (content a) id = Some o' -> exists o, In (id, o) (a_objs a) /\ o' = norm_stream o.
Proof.
  unfold content. induction (a_objs a) as [|[id0 o0] l IH]; intro H; [discriminate H|]. cbn [map fst snd lookup] in H.
  destruct (oid_eqb id0 id) eqn:E.
  - apply oid_eqb_eq in E. subst id0. inversion H; subst. exists o0. split; [left; reflexivity|reflexivity].
  - destruct (IH H) as [o [A B]]. exists o. split; [right; exact A|exact B].
Qed.

(* the numbers of the objects the writer adds for its own purposes: object-stream containers, the cross-reference stream *)
Definition structural_nums (st : fstyle) : list N :=
  map os_id (s_ostms st) ++ match s_xref st with XStream x => [xs_id x] | XTable _ => [] end.

(* exactly the objects the file defines, each with the value it defines *)
Definition objects_clause (st : fstyle) (a : adoc) (m : objmap) : Prop :=
  forall id, In (fst id) (structural_nums st) \/ same_opt (lookup m id) (lookup (content a) id).

Lemma objects_clause_of st a m : NoDup (nums a) ->
  (forall id o, In (id, o) (a_objs a) -> exists v, lookup m id = Some v /\ same_value (norm_stream o) v) ->
  (forall id v, lookup m id = Some v -> (exists o, In (id, o) (a_objs a)) \/ In (fst id) (structural_nums st)) ->
  objects_clause st a m.
Proof.
  intros Hnd P1 P2 id.
  destruct (in_dec N.eq_dec (fst id) (structural_nums st)) as [Hs|Hs]; [left; exact Hs|right].
  destruct (lookup (content a) id) as [o'|] eqn:Ec.
  - destruct (content_lookup_some a id o' Ec) as [o [Hin ->]]. destruct (P1 id o Hin) as [v [-> Hv]]. exact Hv.
  - destruct (lookup m id) as [v|] eqn:El; [|exact I]. destruct (P2 id v El) as [[o Hin]|K]; [|contradiction].
    rewrite (content_lookup_in a id o Hnd Hin) in Ec. discriminate Ec.
Qed.

(* the trailer: the document's entries and Size; the other keys of a cross-reference stream dictionary are bookkeeping *)
Definition bookkeeping : list bytes := [bs "Type"; bs "W"; bs "Index"; bs "Length"; bs "Filter"; bs "DecodeParms"].
Definition defined_trailer (st : fstyle) (a : adoc) : dict :=
  a_trailer a ++ [(bs "Size", OInt (Z.of_N (1 + max_num (nums a ++ structural_nums st))))].
Definition trailer_clause (st : fstyle) (a : adoc) (t : dict) : Prop :=
  forall k, In k bookkeeping \/ same_opt (dict_get t k) (dict_get (defined_trailer st a) k).

(* ======================================================================================================
   The cross-reference TABLE format
   ====================================================================================================== *)
Definition sx_window (st : fstyle) (xpos : N) : Prop :=
  (9 + length (sx_mid (s_sx_eol1 st) (s_sx_sp1 st) xpos (s_sx_sp2 st) (s_sx_eol2 st)) <= 25)%nat.

Definition dom_table (st : fstyle) (a : adoc) (t : tstyle) : Prop :=
  Forall (top_ok2 a) (LoadsTableProofs.tops st a) /\ utf8_decode (a_version a) <> None /\
  (spell_wf (ODict (LoadsTableProofs.trd a)) (t_trailer t) /\ (nest (ODict (LoadsTableProofs.trd a)) <= MAX_DEPTH)%nat /\
   dict_get (a_trailer a) RefWriter.K_Size = None /\ dict_get (a_trailer a) K_Prev = None /\ dict_get (a_trailer a) K_Encrypt = None) /\
  (LoadsTableProofs.xpos st a <= u32_max /\ LoadsTableProofs.size a <= u32_max /\ 25 < LoadsTableProofs.xpos st a) /\
  sx_window st (LoadsTableProofs.xpos st a).

Theorem full_table st a t file :
  s_xref st = XTable t -> s_ostms st = [] -> ref_write st a = Some file -> dom_table st a t ->
  exists d, load_ext decompress_ref can_ref file = LOk d XTTable /\ d_version d = a_version a /\
            objects_clause st a (d_objects d) /\ trailer_clause st a (d_trailer d).
Proof.
  intros Hxt Hos Hw [Htops [Hu [Htr [Hsmall Hsx]]]].
  destruct (ref_write_table st a t file Hxt Hos Hw) as [_ [Hnd _]].
  destruct (loads_table_reflen_file st a t file decompress_ref can_ref Hxt Hos Hw Htops Hu Htr Hsmall Hsx)
    as [d [Hl [Hv [Ht [P1 P2]]]]].
  exists d. split; [exact Hl|]. split; [exact Hv|]. split.
  - apply objects_clause_of; [exact Hnd| |].
    + intros id o Hin. set (tp := (id, o, find_istyle (s_objs st) (fst id))).
      assert (Htp : In tp (LoadsTableProofs.tops st a)).
      { unfold LoadsTableProofs.tops. apply in_map_iff. exists (id, o). split; [reflexivity|exact Hin]. }
      exists (loaded_top tp). split; [exact (P1 tp Htp)|].
      exact (top_same a tp (proj1 (Forall_forall _ _) Htops tp Htp)).
    + intros id v Hlk. left. destruct (P2 id v Hlk) as [tp [Htp E]]. unfold LoadsTableProofs.tops in Htp.
      apply in_map_iff in Htp as [io [Eio Hio]]. subst tp. cbn [fst] in E. exists (snd io). rewrite <- E. destruct io; exact Hio.
  - intro k. right. rewrite Ht. unfold LoadsTableProofs.t0.
    assert (Ed : defined_trailer st a = LoadsTableProofs.trd a).
    { unfold defined_trailer, structural_nums, LoadsTableProofs.trd, LoadsTableProofs.size. rewrite Hos, Hxt. cbn [map app].
      rewrite app_nil_r. reflexivity. }
    rewrite Ed. apply dict_get_denote_same. destruct Htr as [Hwf _]. apply spell_wf_dict in Hwf. apply Hwf.
Qed.

(* ======================================================================================================
   The cross-reference STREAM format, with object streams
   ====================================================================================================== *)
Definition dom_stream (st : fstyle) (a : adoc) (x : xsstyle) : Prop :=
  Forall (top_ok2 a) (ptops st a) /\ Forall (cont_ok a) (s_ostms st) /\ utf8_decode (a_version a) <> None /\
  (spell_wf (ODict (gxdf st a x)) (i_obj (xs_istyle x)) /\ (nest (ODict (gxdf st a x)) <= MAX_DEPTH)%nat /\
   dict_get (a_trailer a) K_Prev = None /\ dict_get (a_trailer a) K_Encrypt = None /\
   dict_get (a_trailer a) K_Filter = None /\ dict_get (a_trailer a) Xref.K_Index = None) /\
  dict_get (a_trailer a) K_DecodeParms = None /\ dict_get (a_trailer a) RefWriter.K_Size = None /\
  (gxpos st a (contsof st a) <= u32_max /\ sizeG st a x <= u32_max /\ 25 < gxpos st a (contsof st a)) /\
  N.of_nat (gw0 st a x (contsof st a) + gw1 st a x (contsof st a) + gw2 st a x (contsof st a)) <= Png.USIZE_MAX /\
  sx_window st (gxpos st a (contsof st a)).

(* the loaded trailer, key by key: the dictionary of the cross-reference stream as read back, outside the bookkeeping keys *)
Lemma tGof_get st a x k :
  spell_wf (ODict (gxdf st a x)) (i_obj (xs_istyle x)) /\ (nest (ODict (gxdf st a x)) <= MAX_DEPTH)%nat /\
  dict_get (a_trailer a) K_Prev = None /\ dict_get (a_trailer a) K_Encrypt = None /\
  dict_get (a_trailer a) K_Filter = None /\ dict_get (a_trailer a) Xref.K_Index = None ->
  ~ In k bookkeeping ->
  dict_get (tGof st a x) k = dict_get (denote_dict (gxdf st a x) (dict_sts (i_obj (xs_istyle x)))) k.
Proof.
  intros Hxd Hk.
  assert (N1 : k <> bs "Type") by (intro E; apply Hk; subst k; cbn; tauto).
  assert (N2 : k <> Xref.K_W) by (intro E; apply Hk; subst k; cbn; tauto).
  assert (N3 : k <> Xref.K_Index) by (intro E; apply Hk; subst k; cbn; tauto).
  assert (N4 : k <> Obj.K_Length) by (intro E; apply Hk; subst k; cbn; tauto).
  assert (N5 : k <> K_Filter) by (intro E; apply Hk; subst k; cbn; tauto).
  assert (N6 : k <> K_DecodeParms) by (intro E; apply Hk; subst k; cbn; tauto).
  assert (Hb : bytes_eqb k Xref.K_Index || bytes_eqb k Xref.K_W || bytes_eqb k Obj.K_Length = false).
  { rewrite !orb_false_iff. repeat split; apply bytes_eqb_neq; assumption. }
  set (C := contsof st a). set (fe := snd (gxs_enc st a x)). set (da := fst (gxs_enc st a x)).
  assert (G1 : dict_get (gd1 st a x C fe da) k = dict_get (denote_dict (gxdf st a x) (dict_sts (i_obj (xs_istyle x)))) k).
  { rewrite (gd1_get st a x C fe da k N4). reflexivity. }
  unfold tGof. fold C fe da. destruct (xs_filter x).
  1:{ unfold t0GS. rewrite (LoadProofsStream.sr3_get _ k (gd1_wf st a x C fe da Hxd)), Hb. exact G1. }
  all: unfold t0GF; rewrite (LoadProofsStream.sr3_get _ k (gd2_wf st a x C fe da Hxd)), Hb;
       rewrite (gd2_get st a x C fe da Hxd k N4 N5 N6); exact G1.
Qed.

Lemma gxdf_get st a x k : s_xref st = XStream x -> ~ In k bookkeeping -> dict_get (a_trailer a) RefWriter.K_Size = None ->
  dict_get (gxdf st a x) k = dict_get (defined_trailer st a) k.
Proof.
  intros Hxs Hk HS.
  assert (N1 : bytes_eqb (bs "Type") k = false) by (apply bytes_eqb_neq; intro E; apply Hk; subst k; cbn; tauto).
  assert (N2 : bytes_eqb (bs "W") k = false) by (apply bytes_eqb_neq; intro E; apply Hk; subst k; cbn; tauto).
  assert (N3 : bytes_eqb (bs "Index") k = false) by (apply bytes_eqb_neq; intro E; apply Hk; subst k; cbn; tauto).
  assert (N4 : bytes_eqb RefWriter.K_Length k = false) by (apply bytes_eqb_neq; intro E; apply Hk; subst k; cbn; tauto).
  assert (N5 : k <> K_Filter) by (intro E; apply Hk; subst k; cbn; tauto).
  assert (N6 : k <> K_DecodeParms) by (intro E; apply Hk; subst k; cbn; tauto).
  unfold gxdf, xdG, xdG_of, defined_trailer. cbn [app dict_get]. rewrite N1, N2.
  assert (Esz : sizeG st a x = 1 + max_num (nums a ++ structural_nums st)).
  { unfold sizeG, numsG, structural_nums, cids, gxid. rewrite Hxs. reflexivity. }
  destruct (bytes_eqb RefWriter.K_Size k) eqn:ES.
  - apply bytes_eqb_eq in ES. subst k. rewrite dict_get_appG, HS. cbn [dict_get]. rewrite bytes_eqb_refl.
    rewrite Esz. reflexivity.
  - rewrite !dict_get_appG.
    assert (Hi : dict_get (idx_partG st a x (contsof st a)) k = None).
    { destruct (idx_partG_cases st a x (contsof st a)) as [->|[-> _]]; [cbn [dict_get]; rewrite N3; reflexivity|reflexivity]. }
    rewrite Hi. destruct (dict_get (a_trailer a) k); [reflexivity|].
    unfold gxs_enc. rewrite (fent_keys _ _ _ _ k N5 N6). cbn [dict_get]. rewrite N4. change (bs "Size") with RefWriter.K_Size. rewrite ES. reflexivity.
Qed.

Theorem full_stream st a x file :
  s_xref st = XStream x -> ref_write st a = Some file -> dom_stream st a x ->
  exists d, load_ext decompress_ref can_ref file = LOk d XTStream /\ d_version d = a_version a /\
            objects_clause st a (d_objects d) /\ trailer_clause st a (d_trailer d).
Proof.
  intros Hxs Hw [Htops [Hcont [Hu [Hxd [Hdp [HS [Hsmall [Hwm Hsx]]]]]]]].
  destruct (ref_write_objstm st a x file Hxs Hw) as [Hc [_ [Hnd [_ [Hcnd _]]]]].
  assert (Hndn : NoDup (nums a)) by (unfold numsG in Hnd; apply (NoDup_app_l _ _ Hnd)).
  destruct (loads_objstm_file st a x file Hxs Hw Htops Hcont Hu Hxd Hdp Hsmall Hwm Hsx)
    as [d [Hl [Hv [Ht [P1 [P2 [P3 [P4 P5]]]]]]]].
  exists d. split; [exact Hl|]. split; [exact Hv|].
  pose proof (containers_spec _ _ _ Hc) as Hcs.
  assert (Hbuild : forall s, In s (s_ostms st) -> exists items, os_build (a_objs a) (os_members s) (os_items s) true = Some items).
  { intros s Hs. destruct (Forall2_In_l _ _ _ s Hcs Hs) as [tp [_ [o [Ho _]]]]. apply (os_object_items _ _ _ Ho). }
  split.
  - apply objects_clause_of; [exact Hndn| |].
    + intros [n g] o Hin. destruct (mem_N n (comp st)) eqn:Ec.
      * (* a member of an object stream *)
        assert (Hcomp : In n (comp st)).
        { unfold mem_N in Ec. apply existsb_exists in Ec as [y [Hy E]]. apply N.eqb_eq in E. subst y. exact Hy. }
        unfold comp, compressed_nums in Hcomp. apply in_flat_map in Hcomp as [s [Hs Hm]].
        destruct (Hbuild s Hs) as [items Hb].
        destruct (os_build_find _ _ _ _ _ Hb n Hm) as [o0 Ef].
        pose proof (find_obj_unique (a_objs a) n g o Hndn Hin) as Ef'. rewrite Ef in Ef'. inversion Ef'; subst g o0.
        exists (member_val (a_objs a) s n). split; [apply (P2 s n Hs Hm)|].
        destruct (member_val_denote (a_objs a) (os_members s) (os_items s) n) as [g' [o' [y [A [B C]]]]].
        { intros m Hmm. destruct (os_build_find _ _ _ _ _ Hb m Hmm) as [om Eom]. eauto. }
        { exact Hm. }
        rewrite Ef in A. inversion A; subst g' o'. unfold member_val. rewrite C.
        destruct (proj1 (Forall_forall _ _) Hcont s Hs) as [_ [_ [Hok _]]].
        pose proof (proj1 (Forall_forall _ _) Hok (o, y) B) as [Hwf _]. cbn [fst snd] in Hwf.
        assert (En : norm_stream o = o) by (destruct o; try reflexivity; contradiction).
        rewrite En. apply denote_same_value. exact Hwf.
      * set (tp := ((n, g), o, find_istyle (s_objs st) n)).
        assert (Htp : In tp (ptops st a)).
        { unfold ptops. apply in_map_iff. exists ((n, g), o). split; [reflexivity|]. unfold plain_objs. apply filter_In.
          split; [exact Hin|]. cbn [fst]. rewrite Ec. reflexivity. }
        exists (loaded_top tp). split; [exact (P1 tp Htp)|].
        exact (top_same a tp (proj1 (Forall_forall _ _) Htops tp Htp)).
    + intros id v Hlk. destruct (P5 id v Hlk) as [[tp [Htp E]]|[[s [n [Hs [Hm E]]]]|[[s [Hs E]]|E]]].
      * left. unfold ptops in Htp. apply in_map_iff in Htp as [io [Eio Hio]]. subst tp. cbn [fst] in E.
        unfold plain_objs in Hio. apply filter_In in Hio as [Hio _]. exists (snd io). rewrite <- E. destruct io; exact Hio.
      * left. subst id. destruct (Hbuild s Hs) as [items Hb]. destruct (os_build_find _ _ _ _ _ Hb n Hm) as [o0 Ef].
        exists o0. apply find_obj_In. exact Ef.
      * right. subst id. cbn [fst]. unfold structural_nums. apply in_or_app. left. apply in_map. exact Hs.
      * right. subst id. cbn [fst]. unfold structural_nums. rewrite Hxs. apply in_or_app. right. left. reflexivity.
  - intro k. destruct (in_dec (list_eq_dec Byte.byte_eq_dec) k bookkeeping) as [Hb|Hb]; [left; exact Hb|right].
    rewrite Ht, (tGof_get st a x k Hxd Hb), <- (gxdf_get st a x k Hxs Hb HS).
    apply dict_get_denote_same. destruct Hxd as [Hwf _]. apply spell_wf_dict in Hwf. apply Hwf.
Qed.

(* ======================================================================================================
   C02_full
   ====================================================================================================== *)
Definition full_dom (st : fstyle) (a : adoc) : Prop :=
  Forall (fun s => os_members s <> []) (s_ostms st) /\
  match s_xref st with
  | XTable t => dom_table st a t
  | XStream x => dom_stream st a x
  end.

Theorem full st a file :
  full_dom st a -> ref_write st a = Some file ->
  exists d t, load_ext decompress_ref can_ref file = LOk d t /\ d_version d = a_version a /\
              objects_clause st a (d_objects d) /\ trailer_clause st a (d_trailer d).
Proof.
  intros [Hne Hdom] Hw. destruct (s_xref st) as [t|x] eqn:Hx.
  - assert (Hos : s_ostms st = []).
    { destruct (s_ostms st) as [|s l] eqn:El; [reflexivity|]. exfalso.
      inversion Hne as [|? ? Hs _]; subst. unfold ref_write in Hw. rewrite Hx in Hw.
      destruct (contains (bs "%PDF-") (s_junk st) || contains [x0d] (a_version a) || contains [x0a] (a_version a)); [discriminate Hw|].
      destruct (negb _); [discriminate Hw|].
      unfold compressed_nums in Hw. rewrite El in Hw. cbn [flat_map] in Hw. destruct (os_members s) as [|m ms]; [contradiction|].
      cbn [app] in Hw. discriminate Hw. }
    destruct (full_table st a t file Hx Hos Hw Hdom) as [d H]. exists d, XTTable. exact H.
  - destruct (full_stream st a x file Hx Hw Hdom) as [d H]. exists d, XTStream. exact H.
Qed.
