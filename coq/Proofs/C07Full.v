(* C07Full.v -- the full statement of property C07 at file level, as a proposition over two byte-level functions: the
   reference writer of revision histories in EVERY style (gen/histgen.py: hybrid sections, object streams, free entries --
   no Coq model) and the loader.  Nothing is assumed: C07_full is a Definition.
   Status.  C07_latest_wins is refuted on the open class freed-comes-back (Props/C07.v A7) and otherwise checked on every
   prefix of every generated history.  C07_save is PROVED for the loader model Model/Loader.v on the domain where a writer
   model exists -- files written by lopdf itself, any number of updates, both cross-reference formats --:
   Props/C07.v C07_inc_save_prefix + C07_prev_view_unchanged + C07_inc_save_reload + C07_history_update_again +
   C07_history_loads (Proofs/C07Bytes*.v); there the previous bytes are not arbitrary but a lopdf_history. *)
From LV Require Import Base.Bytes Base.Sx Model.Obj Model.Save Model.Incremental Spec.History
  Proofs.IncrementalProofs.

Section Full.
  Variable write_history : list arev -> bytes.        (* the reference writer, every style *)
  Variable load : bytes -> option xdoc.               (* Document::load_mem incl. xref_start and table type *)

  (* a history the reference writer accepts: numbers distinct within a revision, object-stream members have
     generation 0, something is defined *)
  Definition wf_arev (r : arev) : Prop :=
    NoDup (map (fun p => fst (ap_id p)) (a_puts r) ++ map fst (a_dels r)) /\
    Forall (fun p => ap_objstm p <> None -> snd (ap_id p) = 0%N) (a_puts r).
  Definition wf_history (h : list arev) : Prop := h <> [] /\ Forall wf_arev h.

  (* (1) loading the file of ANY history yields, for each object number, the object of the most recent
         revision that defines it; untouched objects come from the earlier revisions -- for every prefix *)
  Definition C07_latest_wins : Prop :=
    forall h, wf_history h ->
    forall k, (0 < k <= length h)%nat ->
    exists d, load (write_history (firstn k h)) = Some d /\
              user_objects (d_objects (xd_doc d)) = latest_wins (map forget (firstn k h)).

  (* (2) saving an incremental document: previous bytes verbatim, only the new objects and one section
         pointing back, previous view untouched, and the result loads to the overlay -- hence can be
         updated again (the statement applies to its own output) *)
  Definition C07_save : Prop :=
    forall prev_bytes prev edits,
      load prev_bytes = Some prev ->
      let s := fold_left apply_edit edits (create_from prev_bytes prev) in
      io_status (inc_save s) = IncOk ->
      (* new object numbers are covered by max_id (Document's own invariant) and re-use ids of the previous view or fresh numbers *)
      Forall (fun io => (fst (fst io) <= d_max_id (xd_doc (i_new s)))%N /\
                        (lookup (d_objects (xd_doc prev)) (fst io) <> None \/
                         forall g, lookup (d_objects (xd_doc prev)) (fst (fst io), g) = None)) (new_objects s) ->
      firstn (length prev_bytes) (io_bytes (inc_save s)) = prev_bytes /\
      i_prev s = prev /\
      exists d, load (io_bytes (inc_save s)) = Some d /\
                xd_start d = io_start (inc_save s) /\
                xd_type d = xd_type prev /\
                user_objects (d_objects (xd_doc d)) = user_objects (overlay (d_objects (xd_doc prev)) (new_objects s)).

  Definition C07_full : Prop := C07_latest_wins /\ C07_save.

  (* the claim outside the open findings *)
  Definition C07_full_outside_known : Prop :=
    (forall h, wf_history h -> KnownClass h = false ->
     forall k, (0 < k <= length h)%nat ->
     exists d, load (write_history (firstn k h)) = Some d /\
               user_objects (d_objects (xd_doc d)) = latest_wins (map forget (firstn k h))) /\ C07_save.
End Full.
