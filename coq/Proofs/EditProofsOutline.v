(* EditProofsOutline.v -- C11 x C17: build_outline at the end of ANY renumbering-free program started on a document
   without bookmarks.  The bookmark table after the program is the one its add_bookmark calls build alone
   (Proofs/EditProofsBm.v [srun_same_bm]); C17 ([add_all_repr], [forest_height_le], [build_outline_ok]) then gives:
   the call returns max_id + 1, the reserved numbers max_id+1 .. max_id+1+2|f| are ALL used (each names a dictionary
   afterwards: the cursor ends exactly at the last object written, none above it, none skipped), every other object
   and the trailer are unchanged. *)
From LV Require Import Base.Bytes Model.Obj Model.DocQ Model.Edit Proofs.EditProofs Proofs.EditProofsBm.
From LV Require Model.Outline Spec.OutlineSpec Proofs.OutlineProofs Proofs.OutlineProofsOps Proofs.OutlineProofsForest.

Local Open Scope N_scope.

Definition forest_of_program (ops : list sop) : list OutlineSpec.itree :=
  OutlineSpec.forest_of_ops (map OutlineProofsOps.sop_of (bcalls ops)).

Theorem outline_after_program O d0 ops :
  s_no_renumber ops ->
  let s := srun_ops O (Outline.fresh_bdoc d0) ops in
  let f := forest_of_program ops in
  let m0 := d_max_id (Outline.base s) in
  let m' := m0 + 1 + 2 * N.of_nat (OutlineSpec.fsize f) in
  f <> [] -> m' < Outline.U32_LIMIT ->
  exists s',
    sstep O s SBuildOutline = (s', ORoot (Some (m0 + 1, 0))) /\
    d_max_id (Outline.base s') = m' /\
    d_trailer (Outline.base s') = d_trailer (Outline.base s) /\
    reserved (Outline.base s) (Outline.base s') =
      map (fun n => (n, 0)) (OutlineProofs.nseq (m0 + 1) (S (2 * OutlineSpec.fsize f))) /\
    (forall id, In id (reserved (Outline.base s) (Outline.base s')) ->
                exists dd, lookup (d_objects (Outline.base s')) id = Some (ODict dd)) /\
    (forall id, ~ In id (reserved (Outline.base s) (Outline.base s')) ->
                lookup (d_objects (Outline.base s')) id = lookup (d_objects (Outline.base s)) id).
Proof.
  intros NR s f m0 m' Hne Hlim.
  assert (E0 : same_bm (Outline.fresh_bdoc d0) (Outline.fresh_bdoc d0)) by (repeat split; reflexivity).
  pose proof (srun_same_bm O ops _ _ NR E0) as [_ [Hb Ht]]. fold s in Hb, Ht.
  destruct (OutlineProofsOps.add_all_repr d0 (bcalls ops)) as [_ [Hroots [Htr Hdf]]].
  pose proof (OutlineProofsForest.forest_height_le (map OutlineProofsOps.sop_of (bcalls ops))) as Hh. rewrite map_length in Hh.
  fold (forest_of_program ops) in Hroots, Htr, Hh. fold f in Hroots, Htr, Hh.
  rewrite <- Hb in Hroots. rewrite <- Ht in Htr.
  assert (Hfuel : (OutlineSpec.fheight f <= Outline.default_fuel s)%nat).
  { unfold Outline.default_fuel in *. rewrite Ht. rewrite Hdf. lia. }
  destruct (OutlineProofs.build_outline_ok s f (Outline.default_fuel s) Hroots Hne Htr Hfuel Hlim)
    as [f' [s' [_ [Hbuild [Hmax [Htrl [_ [Hframe Hcreated]]]]]]]].
  fold m0 in Hbuild, Hmax, Hframe, Hcreated. fold m' in Hmax, Hframe, Hcreated.
  exists s'. cbn [sstep]. rewrite Hbuild. split; [reflexivity|]. split; [exact Hmax|]. split; [exact Htrl|].
  assert (Er : reserved (Outline.base s) (Outline.base s') =
               map (fun n => (n, 0)) (OutlineProofs.nseq (m0 + 1) (S (2 * OutlineSpec.fsize f)))).
  { unfold reserved. rewrite Hmax. fold m0. f_equal. f_equal. unfold m'. lia. }
  assert (Hin : forall id, In id (reserved (Outline.base s) (Outline.base s')) <-> OutlineProofs.created m0 m' id).
  { intros [n g]. rewrite Er. unfold OutlineProofs.created. cbn [fst snd]. split.
    - intro H. apply in_map_iff in H. destruct H as [k [Ek Hk]]. inversion Ek; subst. apply OutlineProofs.nseq_In in Hk.
      unfold m'. lia.
    - intros [H1 H2]. subst g. apply in_map_iff. exists n. split; [reflexivity|]. apply OutlineProofs.nseq_In. unfold m' in H1. lia. }
  split; [exact Er|]. split.
  - intros id H. apply Hcreated. apply Hin. exact H.
  - intros id H. apply Hframe. intro C. apply H. apply Hin. exact C.
Qed.
