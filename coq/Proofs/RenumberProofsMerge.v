(* RenumberProofsMerge.v -- C10 extensions:
   (1) the i32 page counter of renumber_objects_with (Model/Renumber.v renumber_objects_with_i32);
   (2) the README merge example: documents are renumbered one after the other, each from the previous
       document's max_id + 1, and their objects collected in one map.  The number ranges are consecutive and
       disjoint, the union holds every object of both documents unchanged, and the graph reachable from each
       trailer in the union is exactly the graph it had in its own document. *)
From LV Require Import Base.Bytes Model.Obj Model.DocQ Model.PageTree Model.Traverse Model.Renumber
  Gen.Consts Spec.RenumberSpec Proofs.RenumberProofsMap Proofs.RenumberProofsTrav Proofs.RenumberProofsTravO Proofs.RenumberProofs
  Proofs.RenumberProofsDense Proofs.RenumberProofsTop Proofs.RenumberProofsPage Proofs.RenumberProofsIter
  Proofs.RenumberProofsMain.

(* ---------- (1) the page counter ---------- *)
Lemma iter_length : forall limit m kids st, length (iter limit m kids st) <= limit.
Proof.
  induction limit as [|l IH]; intros m kids st; [cbn; lia|]. rewrite iter_S.
  destruct (pop_nonempty kids st) as [[[k rest] st']|]; [|cbn; lia].
  destruct k; try (etransitivity; [apply IH | lia]).
  destruct (node_type m (id, gen)).
  - cbn [length]. specialize (IH m rest st'). lia.
  - destruct (N.of_nat (length st') <? PAGE_TREE_DEPTH_LIMIT)%N; (etransitivity; [apply IH | lia]).
  - etransitivity; [apply IH | lia].
Qed.

Lemma page_iter_length d : length (page_iter d) <= length (d_objects d).
Proof.
  unfold page_iter. destruct (catalog d) as [cat|]; [|cbn; lia].
  destruct (dict_get cat K_Pages) as [o|]; [|cbn; lia]. destruct o; try (cbn; lia). apply iter_length.
Qed.

Lemma dedup_length l : forall seen, length (dedup_oids seen l) <= length l.
Proof.
  induction l as [|x l IH]; intro seen; cbn [dedup_oids length]; [lia|].
  destruct (mem_oid x seen); [specialize (IH seen); lia | cbn [length]; specialize (IH (x :: seen)); lia].
Qed.

(* page_iter yields at most one id per object (its iter_limit), so the counter can only overflow in a document
   with at least 2^31 objects; below that the counter is exact and the model without it is the code *)
Theorem page_counter start d :
  (N.of_nat (length (d_objects (base d))) <= I32_MAX)%N ->
  renumber_objects_with_i32 start d = renumber_objects_with start d.
Proof.
  intro H. unfold renumber_objects_with_i32, page_counter_ok.
  replace (N.of_nat (length (dedup_oids [] (page_iter (base d)))) <=? I32_MAX)%N with true; [reflexivity|].
  symmetry. apply N.leb_le. pose proof (dedup_length (page_iter (base d)) []). pose proof (page_iter_length (base d)). lia.
Qed.

(* more than i32::MAX distinct pages: `i += 1` panics while page_order is collected, nothing is changed *)
Theorem page_counter_panics start d :
  (I32_MAX < N.of_nat (length (dedup_oids [] (page_iter (base d)))))%N -> renumber_objects_with_i32 start d = Panic.
Proof.
  intro H. unfold renumber_objects_with_i32, page_counter_ok.
  replace (N.of_nat (length (dedup_oids [] (page_iter (base d)))) <=? I32_MAX)%N with false; [reflexivity|].
  symmetry. apply N.leb_gt. exact H.
Qed.

(* ---------- (2) merging ---------- *)
Lemma nums_from_app : forall n1 n2 s, nums_from s n1 ++ nums_from (s + N.of_nat n1) n2 = nums_from s (n1 + n2).
Proof.
  induction n1 as [|n1 IH]; intros n2 s; cbn [nums_from app plus].
  - replace (s + N.of_nat 0)%N with s by lia. reflexivity.
  - f_equal. rewrite <- IH. f_equal. f_equal. lia.
Qed.

Lemma nums_from_in : forall n s x, In x (nums_from s n) -> (s <= x < s + N.of_nat n)%N.
Proof.
  induction n as [|n IH]; intros s x H; cbn [nums_from] in H; [destruct H|].
  destruct H as [<-|H]; [lia|]. apply IH in H. lia.
Qed.

Lemma key_number (m : objmap) s n x :
  map fst (map fst m) = nums_from s n -> has_obj m x -> (s <= fst x < s + N.of_nat n)%N.
Proof. intros H Hx. apply nums_from_in. rewrite <- H. apply in_map. exact Hx. Qed.

Lemma sorted_app l1 l2 :
  StronglySorted oid_lt l1 -> StronglySorted oid_lt l2 -> (forall a b, In a l1 -> In b l2 -> oid_lt a b) ->
  StronglySorted oid_lt (l1 ++ l2).
Proof.
  induction l1 as [|a l1 IH]; intros S1 S2 H; cbn [app]; [exact S2|].
  inversion S1; subst. constructor.
  - apply IH; auto. intros; apply H; [right|]; assumption.
  - apply Forall_app. split; [assumption|]. apply Forall_forall. intros b Hb. apply H; [left; reflexivity | exact Hb].
Qed.

(* the graph reachable from a trailer is the same in any larger map that agrees on the document's own ids,
   provided no reachable reference is dangling (which renumbering guarantees) *)
Lemma reach_union tr m U :
  closed tr m -> (forall x, has_obj m x -> lookup U x = lookup m x) ->
  forall x, reach tr U x <-> reach tr m x.
Proof.
  intros C L x. split.
  - induction 1 as [r Hr | id o r Hid IH Hl Hr]; [apply reach_root; exact Hr|].
    eapply reach_step; [exact IH | | exact Hr]. rewrite <- L; [exact Hl | apply C; exact IH].
  - induction 1 as [r Hr | id o r Hid IH Hl Hr]; [apply reach_root; exact Hr|].
    eapply reach_step; [exact IH | | exact Hr]. rewrite L; [exact Hl | eapply lookup_has; eauto].
Qed.

Definition numbers (m : objmap) : list N := map fst (map fst m).

Theorem merge_two s d1 d2 :
  sorted_keys (d_objects (base d1)) -> sorted_keys (d_objects (base d2)) -> (1 <= s)%N ->
  (s + N.of_nat (length (d_objects (base d1))) + N.of_nat (length (d_objects (base d2))) <= 4294967296)%N ->
  exists d1' d2',
    renumber_objects_with s d1 = Done d1' /\
    renumber_objects_with (d_max_id (base d1') + 1) d2 = Done d2' /\
    let n1 := length (d_objects (base d1)) in let n2 := length (d_objects (base d2)) in
    let m1 := d_objects (base d1') in let m2 := d_objects (base d2') in
    let U := insert_all m2 m1 in                       (* documents_objects.extend(doc.objects), twice *)
    (d_max_id (base d1') + 1 = s + N.of_nat n1)%N /\
    numbers m1 = nums_from s n1 /\ numbers m2 = nums_from (s + N.of_nat n1) n2 /\
    (forall x y, has_obj m1 x -> has_obj m2 y -> fst x <> fst y) /\
    sorted_keys U /\ map fst U = map fst m1 ++ map fst m2 /\ numbers U = nums_from s (n1 + n2) /\
    (forall x, has_obj m1 x -> lookup U x = lookup m1 x) /\
    (forall x, has_obj m2 x -> lookup U x = lookup m2 x) /\
    (forall x, reach (d_trailer (base d1')) U x <-> reach (d_trailer (base d1')) m1 x) /\
    (forall x, reach (d_trailer (base d2')) U x <-> reach (d_trailer (base d2')) m2 x) /\
    (n2 <> 0%nat -> (d_max_id (base d2') = s + N.of_nat n1 + N.of_nat n2 - 1)%N).
Proof.
  intros S1 S2 Hs Hb.
  assert (F1 : fits s d1) by (unfold fits; lia).
  destruct (renumber_main s d1 S1 F1) as [d1' [rho1 [E1 P1]]].
  pose proof (closed_after s d1 d1' rho1 P1) as C1.
  destruct P1 as [_ [_ [_ [_ [_ [_ [_ [_ [_ [_ [_ [_ [N1 [_ [Mx1 [So1 _]]]]]]]]]]]]]]]].
  unfold doc_m, doc_tr in *.
  assert (Em : (d_max_id (base d1') + 1 = s + N.of_nat (length (d_objects (base d1))))%N).
  { rewrite Mx1. unfold dense_max. destruct (d_objects (base d1)) as [|io m]; cbn [length].
    - replace (s =? 0)%N with false by (symmetry; apply N.eqb_neq; lia). lia.
    - lia. }
  assert (F2 : fits (d_max_id (base d1') + 1) d2) by (unfold fits; rewrite Em; lia).
  destruct (renumber_main _ d2 S2 F2) as [d2' [rho2 [E2 P2]]].
  pose proof (closed_after _ d2 d2' rho2 P2) as C2.
  destruct P2 as [_ [_ [_ [_ [_ [_ [_ [_ [_ [_ [_ [_ [N2 [_ [Mx2 [So2 _]]]]]]]]]]]]]]]].
  unfold doc_m, doc_tr in *. rewrite Em in N2.
  exists d1', d2'. split; [exact E1|]. split; [exact E2|]. cbv zeta.
  set (m1 := d_objects (base d1')) in *. set (m2 := d_objects (base d2')) in *.
  set (n1 := length (d_objects (base d1))) in *. set (n2 := length (d_objects (base d2))) in *.
  assert (Hdis : forall x y, has_obj m1 x -> has_obj m2 y -> (fst x < fst y)%N).
  { intros x y Hx Hy. pose proof (key_number m1 s n1 x N1 Hx). pose proof (key_number m2 _ n2 y N2 Hy). lia. }
  destruct (insert_all_spec m2 m1) as [SU LU]; [apply sorted_nodup; exact So2 | exact So1|].
  assert (L1 : forall x, has_obj m1 x -> lookup (insert_all m2 m1) x = lookup m1 x).
  { intros x Hx. rewrite LU. destruct (lookup m2 x) eqn:E; [|reflexivity]. exfalso.
    apply lookup_has in E. pose proof (Hdis x x Hx E). lia. }
  assert (L2 : forall x, has_obj m2 x -> lookup (insert_all m2 m1) x = lookup m2 x).
  { intros x Hx. rewrite LU. destruct (has_lookup m2 x Hx) as [o ->]. reflexivity. }
  assert (KU : map fst (insert_all m2 m1) = map fst m1 ++ map fst m2).
  { apply sorted_ext; [exact SU | |].
    - apply sorted_app; [exact So1 | exact So2|]. intros a b Ha Hb'. unfold oid_lt. apply oid_ltb_lt. left. apply Hdis; assumption.
    - intro x. rewrite in_app_iff. fold (has_obj (insert_all m2 m1) x) (has_obj m1 x) (has_obj m2 x).
      rewrite !has_obj_lookup, LU. destruct (lookup m2 x); destruct (lookup m1 x); intuition congruence. }
  split; [exact Em|]. split; [exact N1|]. split; [exact N2|].
  split. { intros x y Hx Hy E. pose proof (Hdis x y Hx Hy). lia. }
  split; [exact SU|]. split; [exact KU|].
  split. { unfold numbers. rewrite KU, map_app, <- nums_from_app. f_equal; [exact N1 | exact N2]. }
  split; [exact L1|]. split; [exact L2|].
  split; [apply reach_union; assumption|]. split; [apply reach_union; assumption|].
  intro Hn. rewrite Mx2. unfold dense_max. fold n2. destruct (d_objects (base d2)) as [|io m] eqn:Ed; [cbn in Hn; congruence|].
  rewrite Em. reflexivity.
Qed.

(* non-vacuity: two concrete documents (ex_swap: pages out of id order, a generation, a dangling reference;
   ex_dangling: sparse numbers, a dangling reference into the new range) merged from 1 *)
Theorem merge_example :
  sorted_keys (d_objects (base ex_swap)) /\ sorted_keys (d_objects (base ex_dangling)) /\
  exists d1' d2',
    renumber_objects_with 1 ex_swap = Done d1' /\
    renumber_objects_with (d_max_id (base d1') + 1) ex_dangling = Done d2' /\
    map fst (insert_all (d_objects (base d2')) (d_objects (base d1'))) =
      [(1,0); (2,0); (3,0); (4,0); (5,1); (6,0); (7,0); (8,0); (9,0); (10,0)]%N /\
    d_trailer (base d2') = [(K_Root, ORef 6 0); (bs "Nine", ORef 10 0)]%N /\
    page_iter (base d1') = [(3,0); (5,1)]%N /\ page_iter (base d2') = [(8,0); (9,0)]%N.
Proof.
  split; [exact ex_swap_sorted|]. split; [unfold sorted_keys; vm_compute; repeat constructor|].
  do 2 eexists. split; [vm_compute; reflexivity|]. split; [vm_compute; reflexivity|].
  repeat split; vm_compute; reflexivity.
Qed.
