(* LoadsObjStmProofs.v -- C02 rung 3, cross-reference STREAM format, THE WHOLE STYLE SPACE of a single-section file:
   object streams (any subset of the generation-0 non-stream objects in any number of containers, every member in any
   spelling, the container under any filter chain without predictor), the cross-reference stream with any W / Index /
   filter chain, streams whose Length is written directly, as a reference to a top-level integer object (found while
   parsing) or as a reference to an integer kept IN AN OBJECT STREAM (the stream is read without content, the pass after
   the object streams restores it), against c01's extended reader Model/LoaderExt.v load_ext with Stream::decompress :=
   decompress_ref.  The three passes of the reader are those of Proofs/LoadsLoopProofs.v; this file shows that the file
   the reference writer lays out meets their hypotheses and reads the result off.
   Part 1: containers and members.  Part 2: the layout.  Part 3: the entries.  Part 4: the loaded objects. *)
From LV Require Import Base.Bytes Base.Sx Model.Obj Model.Writer Model.Parser Model.Xref Model.ObjStm Model.Loader Model.Utf Gen.Lex
  Spec.XrefSpec Spec.RefWriter Proofs.LexProofs Proofs.LoadProofs Proofs.LoadProofsFile Proofs.XrefProofs
  Proofs.XrefTableProofs Proofs.ObjectRtProofs Proofs.SpellingProofs Proofs.SpellingObjProofs Proofs.SpellingFileProofs
  Proofs.LoadsFrameProofs Proofs.LoadsTableProofs Proofs.FilterProofsDict.
From LV Require Proofs.LoadProofsStream.
From LV Require Import Model.LoaderExt Proofs.LoaderExtProofs Proofs.LengthRefProofs.
From LV Require Import Proofs.LoadsFilterProofs Proofs.LoadsStreamProofs Proofs.LoadsRefLenProofs Proofs.LoadsLoopProofs.
From LV Require Import Proofs.ObjStmSpellProofs Proofs.ObjStmFilterProofs.
From LV Require Model.Png Spec.StreamCodecSpec Model.StreamFilt Gen.SaveFmt.
From Coq Require Import Lia.
Local Open Scope N_scope.

(* ======================================================================================================
   Part 1: containers and their members
   ====================================================================================================== *)
Definition cont_top (objs : list (oid * obj)) (s : ostm) (tp : top) : Prop :=
  exists o, os_object objs s = Some o /\ tp = ((os_id s, 0), o, os_istyle s).

Lemma containers_spec objs : forall l conts, containers objs l = Some conts -> Forall2 (cont_top objs) l conts.
Proof.
  induction l as [|s l IH]; intros conts H; cbn [containers] in H.
  - inversion H; subst. constructor.
  - destruct (os_object objs s) as [o|] eqn:Eo; [|discriminate H].
    destruct (containers objs l) as [r|] eqn:Er; [|discriminate H]. inversion H; subst.
    constructor; [exists o; split; [exact Eo|reflexivity]|apply IH; reflexivity].
Qed.

Lemma Forall2_In_l {A B} (R : A -> B -> Prop) : forall l l' a, Forall2 R l l' -> In a l -> exists b, In b l' /\ R a b.
Proof.
  induction 1 as [|a0 b0 l l' H0 H IH]; intro Hin; [contradiction|]. destruct Hin as [<-|Hin].
  - exists b0. split; [left; reflexivity|exact H0].
  - destruct (IH Hin) as [b [Hb Hr]]. exists b. split; [right; exact Hb|exact Hr].
Qed.

Lemma Forall2_In_r {A B} (R : A -> B -> Prop) : forall l l' b, Forall2 R l l' -> In b l' -> exists a, In a l /\ R a b.
Proof.
  induction 1 as [|a0 b0 l l' H0 H IH]; intro Hin; [contradiction|]. destruct Hin as [<-|Hin].
  - exists a0. split; [left; reflexivity|exact H0].
  - destruct (IH Hin) as [a [Ha Hr]]. exists a. split; [right; exact Ha|exact Hr].
Qed.

Lemma os_object_items objs s o : os_object objs s = Some o ->
  exists items, os_build objs (os_members s) (os_items s) true = Some items.
Proof. unfold os_object. destruct (os_build objs (os_members s) (os_items s) true) as [items|]; [eauto|discriminate]. Qed.

(* the items of os_build carry the member numbers, in order; every member is a generation-0 object of the document *)
Lemma os_build_nums objs : forall members sts first items,
  os_build objs members sts first = Some items -> map oi_num items = members.
Proof.
  induction members as [|m ms IH]; intros sts first items H; cbn [os_build] in H.
  - inversion H; reflexivity.
  - destruct (match sts with [] => (YDefault, [], [], [], []) | (sy, wa, w1, w2) :: t => (sy, wa, w1, w2, t) end)
      as [[[[sy wa] w1] w2] sts'].
    destruct (find_obj objs m) as [[g o]|]; [|discriminate H]. destruct g; [|discriminate H].
    destruct (os_build objs ms sts' false) as [rest|] eqn:Eb; [|discriminate H].
    destruct o; inversion H; subst; cbn [map oi_num]; f_equal; apply (IH _ _ _ Eb).
Qed.

Lemma os_build_find objs : forall members sts first items,
  os_build objs members sts first = Some items -> forall m, In m members -> exists o, find_obj objs m = Some (0, o).
Proof.
  induction members as [|m0 ms IH]; intros sts first items H m Hin; [contradiction|]. cbn [os_build] in H.
  destruct (match sts with [] => (YDefault, [], [], [], []) | (sy, wa, w1, w2) :: t => (sy, wa, w1, w2, t) end)
    as [[[[sy wa] w1] w2] sts'].
  destruct (find_obj objs m0) as [[g o]|] eqn:Ef; [|discriminate H]. destruct g; [|discriminate H].
  destruct (os_build objs ms sts' false) as [rest|] eqn:Eb; [|discriminate H].
  destruct Hin as [<-|Hin]; [exists o; exact Ef|apply (IH _ _ _ Eb m Hin)].
Qed.

Lemma find_obj_In : forall objs n g o, find_obj objs n = Some (g, o) -> In ((n, g), o) objs.
Proof.
  induction objs as [|[[i g0] o0] objs IH]; intros n g o H; [discriminate H|]. cbn [find_obj] in H.
  destruct (i =? n) eqn:E; [apply N.eqb_eq in E; inversion H; subst; left; reflexivity|right; apply IH; exact H].
Qed.

Lemma find_obj_unique : forall objs n g o, NoDup (map (fun io : oid * obj => fst (fst io)) objs) -> In ((n, g), o) objs ->
  find_obj objs n = Some (g, o).
Proof.
  induction objs as [|[[i g0] o0] objs IH]; intros n g o Hnd Hin; [contradiction|]. cbn [find_obj].
  cbn [map fst] in Hnd. inversion Hnd as [|? ? Hn Hd]; subst. destruct Hin as [Hin|Hin].
  - inversion Hin; subst. rewrite N.eqb_refl. reflexivity.
  - destruct (i =? n) eqn:E; [|apply IH; assumption]. apply N.eqb_eq in E. subst i. exfalso. apply Hn.
    apply in_map_iff. exists ((n, g), o). split; [reflexivity|exact Hin].
Qed.

(* the value of a member: [denote] of the object in the style the container gives it *)
Definition member_val (objs : list (oid * obj)) (s : ostm) (n : N) : obj :=
  assoc_val (os_members s) (map (fun oy => denote (fst oy) (snd oy)) (os_pairs objs (os_members s) (os_items s))) n.

Lemma member_val_denote objs : forall members sts n,
  (forall m, In m members -> exists g o, find_obj objs m = Some (g, o)) -> In n members ->
  exists g o y, find_obj objs n = Some (g, o) /\ In (o, y) (os_pairs objs members sts) /\
                assoc_val members (map (fun oy => denote (fst oy) (snd oy)) (os_pairs objs members sts)) n = denote o y.
Proof.
  induction members as [|m ms IH]; intros sts n Hf Hin; [contradiction|]. cbn [os_pairs].
  destruct (match sts with [] => (YDefault, [], [], [], []) | (sy, wa, w1, w2) :: t => (sy, wa, w1, w2, t) end)
    as [[[[sy wa] w1] w2] sts'].
  destruct (Hf m (or_introl eq_refl)) as [g [o Ef]]. rewrite Ef. cbn [map fst snd assoc_val].
  destruct (m =? n) eqn:E.
  - apply N.eqb_eq in E. subst m. exists g, o, sy. split; [exact Ef|]. split; [left; reflexivity|reflexivity].
  - destruct Hin as [K|Hin]; [subst m; rewrite N.eqb_refl in E; discriminate E|].
    destruct (IH sts' n (fun m' Hm' => Hf m' (or_intror Hm')) Hin) as [g' [o' [y' [A [B C]]]]].
    exists g', o', y'. split; [exact A|]. split; [right; exact B|exact C].
Qed.

Lemma find_app' {A} (f : A -> bool) : forall l1 l2, find f (l1 ++ l2) = match find f l1 with Some x => Some x | None => find f l2 end.
Proof. induction l1 as [|a l1 IH]; intro l2; [reflexivity|]. cbn [app find]. destruct (f a); [reflexivity|apply IH]. Qed.

(* lookups in the map ObjectStream::new returns *)
Lemma lookup_fold_items (f : ositem -> obj) : forall items acc id,
  lookup (fold_left (fun m it => insert m (oi_num it, 0) (f it)) items acc) id =
  match find (fun it => oid_eqb (oi_num it, 0) id) (rev items) with Some it => Some (f it) | None => lookup acc id end.
Proof.
  induction items as [|it items IH]; intros acc id; [reflexivity|]. cbn [fold_left rev]. rewrite IH.
  rewrite find_app'. destruct (find (fun it0 => oid_eqb (oi_num it0, 0) id) (rev items)); [reflexivity|].
  cbn [find]. rewrite lookup_insert_gen. destruct (oid_eqb (oi_num it, 0) id); reflexivity.
Qed.

Lemma members_val_lookup objs s items id :
  os_build objs (os_members s) (os_items s) true = Some items -> NoDup (os_members s) ->
  lookup (members_val objs s items) id =
  if (snd id =? 0) && mem_N (fst id) (os_members s) then Some (member_val objs s (fst id)) else None.
Proof.
  intros Hb Hnd. unfold members_val. rewrite lookup_fold_items. cbn [lookup].
  pose proof (os_build_nums objs _ _ _ _ Hb) as Hn.
  destruct (find (fun it => oid_eqb (oi_num it, 0) id) (rev items)) as [it|] eqn:Ef.
  - apply find_some in Ef as [H1 H2]. apply oid_eqb_eq in H2. subst id. cbn [fst snd]. rewrite N.eqb_refl. cbn [andb].
    assert (Hm : mem_N (oi_num it) (os_members s) = true).
    { unfold mem_N. apply existsb_exists. exists (oi_num it). split; [|apply N.eqb_refl].
      rewrite <- Hn. apply in_map. apply in_rev. exact H1. }
    rewrite Hm. reflexivity.
  - destruct ((snd id =? 0) && mem_N (fst id) (os_members s)) eqn:E; [|reflexivity]. exfalso.
    apply andb_true_iff in E as [E1 E2]. apply N.eqb_eq in E1. unfold mem_N in E2. apply existsb_exists in E2 as [n [Hin En]].
    apply N.eqb_eq in En. subst n. rewrite <- Hn in Hin. apply in_map_iff in Hin as [it [Hi Hit]].
    pose proof (find_none _ _ Ef it (proj1 (in_rev _ _) Hit)) as K. cbv beta in K.
    destruct id as [i g]. cbn [fst snd] in *. subst. rewrite oid_eqb_refl in K. discriminate K.
Qed.

(* index_of / find_comp *)
Lemma index_of_In : forall l x k i, index_of x l k = Some i -> In x l /\ k <= i /\ i < k + N.of_nat (length l).
Proof.
  induction l as [|y l IH]; intros x k i H; [discriminate H|]. cbn [index_of] in H. destruct (x =? y) eqn:E.
  - apply N.eqb_eq in E. inversion H; subst. split; [left; reflexivity|]. cbn [length]. lia.
  - destruct (IH _ _ _ H) as [A [B C]]. split; [right; exact A|]. cbn [length]. lia.
Qed.

Lemma index_of_some : forall l x k, In x l -> exists i, index_of x l k = Some i.
Proof.
  induction l as [|y l IH]; intros x k H; [contradiction|]. cbn [index_of]. destruct (x =? y) eqn:E; [eauto|].
  destruct H as [H|H]; [subst; rewrite N.eqb_refl in E; discriminate E|apply IH; exact H].
Qed.

Lemma find_comp_In : forall l n c i, find_comp l n = Some (c, i) ->
  exists s, In s l /\ c = os_id s /\ In n (os_members s) /\ i < N.of_nat (length (os_members s)).
Proof.
  induction l as [|s l IH]; intros n c i H; [discriminate H|]. cbn [find_comp] in H.
  destruct (index_of n (os_members s) 0) as [k|] eqn:E.
  - inversion H; subst. destruct (index_of_In _ _ _ _ E) as [A [_ B]]. exists s. split; [left; reflexivity|]. split; [reflexivity|].
    split; [exact A|lia].
  - destruct (IH _ _ _ H) as [s' [A B]]. exists s'. split; [right; exact A|exact B].
Qed.

Lemma find_comp_none : forall l n, ~ In n (flat_map os_members l) -> find_comp l n = None.
Proof.
  induction l as [|s l IH]; intros n H; [reflexivity|]. cbn [find_comp flat_map] in *.
  destruct (index_of n (os_members s) 0) as [k|] eqn:E.
  - exfalso. apply H. apply in_or_app. left. apply (index_of_In _ _ _ _ E).
  - apply IH. intro K. apply H. apply in_or_app. right. exact K.
Qed.

(* with distinct member numbers over all containers, the container of a member is the one that lists it *)
Lemma find_comp_member : forall l s n, NoDup (flat_map os_members l) -> In s l -> In n (os_members s) ->
  exists i, find_comp l n = Some (os_id s, i).
Proof.
  induction l as [|s0 l IH]; intros s n Hnd Hs Hn; [contradiction|]. cbn [find_comp flat_map] in *.
  destruct Hs as [->|Hs].
  - destruct (index_of_some _ _ 0 Hn) as [i ->]. eauto.
  - destruct (index_of n (os_members s0) 0) as [k|] eqn:E.
    + exfalso. destruct (index_of_In _ _ _ _ E) as [A _].
      assert (Hd : forall (a b : list N), NoDup (a ++ b) -> forall y, In y a -> In y b -> False).
      { induction a as [|z a IHa]; intros b H y Ha Hb; [contradiction|]. cbn [app] in H. inversion H as [|? ? Hz Hd']; subst.
        destruct Ha as [->|Ha]; [apply Hz; apply in_or_app; right; exact Hb|apply (IHa b Hd' y Ha Hb)]. }
      apply (Hd _ _ Hnd n A). apply in_flat_map. exists s. split; assumption.
    + apply IH; try assumption.
      clear -Hnd. induction (os_members s0) as [|z a IHa]; [exact Hnd|]. cbn [app] in Hnd. inversion Hnd; subst. apply IHa. assumption.
Qed.

Lemma NoDup_app_common {A} : forall (a b : list A), NoDup (a ++ b) -> forall y, In y a -> In y b -> False.
Proof.
  induction a as [|z a IHa]; intros b H y Ha Hb; [contradiction|]. cbn [app] in H. inversion H as [|? ? Hz Hd']; subst.
  destruct Ha as [->|Ha]; [apply Hz; apply in_or_app; right; exact Hb|apply (IHa b Hd' y Ha Hb)].
Qed.

Lemma NoDup_app_r {A} : forall (a b : list A), NoDup (a ++ b) -> NoDup b.
Proof. induction a as [|z a IH]; intros b H; [exact H|]. cbn [app] in H. inversion H; subst. apply IH. assumption. Qed.

Lemma NoDup_map_filter {A B} (f : A -> B) (g : A -> bool) : forall l, NoDup (map f l) -> NoDup (map f (filter g l)).
Proof.
  induction l as [|y l IH]; intro H; [constructor|]. cbn [map] in H. inversion H as [|? ? Hn Hd]; subst. cbn [filter].
  destruct (g y); [|apply IH; exact Hd]. cbn [map]. constructor; [|apply IH; exact Hd].
  intro K. apply Hn. apply in_map_iff in K as [z [E Hz]]. apply filter_In in Hz as [Hz _]. rewrite <- E. apply in_map. exact Hz.
Qed.

Lemma insert_In : forall (m : objmap) id o k v, In (k, v) (insert m id o) -> (k, v) = (id, o) \/ In (k, v) m.
Proof.
  induction m as [|[i o'] m IH]; intros id o k v H; cbn [insert] in H.
  - destruct H as [H|[]]. left. symmetry. exact H.
  - destruct (oid_eqb i id) eqn:E.
    + apply oid_eqb_eq in E. subst i. destruct H as [H|H]; [left; symmetry; exact H|right; right; exact H].
    + destruct (oid_ltb id i).
      * destruct H as [H|H]; [left; symmetry; exact H|right; exact H].
      * destruct H as [H|H]; [right; left; exact H|]. destruct (IH _ _ _ _ H) as [K|K]; [left; exact K|right; right; exact K].
Qed.

Lemma fold_items_In (f : ositem -> obj) : forall items acc k v,
  In (k, v) (fold_left (fun m it => insert m (oi_num it, 0) (f it)) items acc) ->
  In (k, v) acc \/ exists it, In it items /\ k = (oi_num it, 0).
Proof.
  induction items as [|it items IH]; intros acc k v H; [left; exact H|]. cbn [fold_left] in H.
  destruct (IH _ _ _ H) as [K|[it' [K1 K2]]].
  - apply insert_In in K as [K|K]; [right; exists it; split; [left; reflexivity|inversion K; reflexivity]|left; exact K].
  - right. exists it'. split; [right; exact K1|exact K2].
Qed.

Lemma spec_map_inc : forall l m, xinc 0 m -> xinc 0 (fold_left spec_step l m).
Proof.
  induction l as [|[k e] l IH]; intros m H; [exact H|]. cbn [fold_left]. apply IH. unfold spec_step. cbn [fst snd].
  destruct e; [exact H| |]; apply (xinc_weaken _ (N.min 0 k)); try lia; apply xinsert_inc; exact H.
Qed.

Lemma find_member_some : forall ostm i v,
  (forall k mems, In (k, mems) ostm -> lookup mems i = Some v \/ lookup mems i = None) ->
  (exists k mems, In (k, mems) ostm /\ lookup mems i = Some v) -> find_member ostm i = Some v.
Proof.
  induction ostm as [|[k0 m0] ostm IH]; intros i v Hall [k [mems [Hin Hl]]]; [contradiction|]. cbn [find_member].
  destruct (Hall k0 m0 (or_introl eq_refl)) as [E|E]; rewrite E; [reflexivity|].
  apply IH; [intros k' m' Hk; apply (Hall k' m'); right; exact Hk|].
  destruct Hin as [Hin|Hin]; [inversion Hin; subst; rewrite E in Hl; discriminate Hl|eauto].
Qed.

Lemma find_member_inv : forall ostm i v, find_member ostm i = Some v -> exists k mems, In (k, mems) ostm /\ lookup mems i = Some v.
Proof.
  induction ostm as [|[k0 m0] ostm IH]; intros i v H; [discriminate H|]. cbn [find_member] in H.
  destruct (lookup m0 i) as [o|] eqn:E.
  - inversion H; subst. exists k0, m0. split; [left; reflexivity|exact E].
  - destruct (IH _ _ H) as [k [mems [A B]]]. exists k, mems. split; [right; exact A|exact B].
Qed.

Lemma cont_top_nums objs : forall l conts, Forall2 (cont_top objs) l conts -> map top_num conts = map os_id l.
Proof. induction 1 as [|s tp l l' [o [_ ->]] H IH]; [reflexivity|]. cbn [map]. rewrite IH. reflexivity. Qed.

Lemma stream_new_has_length d c d0 c0 : stream_new d c = OStream d0 c0 -> no_length d0 -> False.
Proof.
  unfold stream_new. intros K Kn. injection K as K1 K2. rewrite <- K1 in Kn. unfold no_length in Kn.
  rewrite FilterProofsDict.dict_get_set_same in Kn. exact Kn.
Qed.

Lemma flat_map_unique {A B} (f : A -> list B) : forall l s s' n,
  NoDup (flat_map f l) -> In s l -> In s' l -> In n (f s) -> In n (f s') -> s = s'.
Proof.
  induction l as [|z l IH]; intros s s' n H Hs Hs' Hn Hn'; [contradiction|]. cbn [flat_map] in H.
  destruct Hs as [->|Hs], Hs' as [->|Hs'].
  - reflexivity.
  - exfalso. apply (NoDup_app_common _ _ H n Hn). apply in_flat_map. exists s'. split; assumption.
  - exfalso. apply (NoDup_app_common _ _ H n Hn'). apply in_flat_map. exists s. split; assumption.
  - apply (IH s s' n (NoDup_app_r _ _ H) Hs Hs' Hn Hn').
Qed.
