(* SafeFiltProofs.v -- C04 theorems for the stream filters: no input makes decode_ascii85 or the PNG
   predictor panic; explicit step, allocation and fuel bounds. *)
From LV Require Import Base.Bytes Gen.Filters Model.A85 Model.Png Model.Safe Model.SafeFilt Proofs.SafeLemmas.
Local Open Scope N_scope.

Ltac csimp := cbn [steps max_alloc max_depth outcome fail ret tick request panic out_of_fuel fst snd c_steps c_alloc c_depth c0] in *.
Ltac inv_ret H := unfold outcome, ret in H; cbn in H; injection H as H; subst.

(* ---------------- ASCII85 ---------------- *)

Lemma sa85_strip_spec input :
  exists body, sa85_strip input = ret body /\ (length body <= length input)%nat.
Proof.
  unfold sa85_strip. destruct (2 <=? blen input) eqn:E.
  - assert (Hk : blen input - 2 <= N.of_nat (length input)) by (unfold blen; lia).
    unfold bind, ck_sub, slice_from, slice_to, ret.
    rewrite E. cbn [fst snd].
    apply N.leb_le in Hk. rewrite Hk. cbn [fst snd].
    destruct (bytes_eqb _ A85_EOD).
    + eexists. split. reflexivity. rewrite firstn_length. lia.
    + eexists. split. reflexivity. lia.
  - eexists. split; [reflexivity | lia].
Qed.

Lemma be_bytes_len b : length (be_bytes b) = 4%nat.
Proof. reflexivity. Qed.

Lemma sa85_finish_np buffer count outlen :
  (count < A85_GROUP)%nat -> no_panic (sa85_finish buffer count outlen).
Proof.
  intros Hc. unfold sa85_finish. destruct count as [|c]; [apply no_panic_ret|].
  apply no_panic_bind; [apply no_panic_tick|]. intros _ _.
  destruct (pad buffer _); [|apply no_panic_fail].
  rewrite ck_sub_ok by lia.
  apply no_panic_bind; [apply no_panic_ret|]. intros k Hk. inv_ret Hk.
  rewrite slice_to_ok.
  2:{ rewrite be_bytes_len. unfold A85_GROUP in Hc. lia. }
  apply no_panic_bind; [apply no_panic_ret|]. intros pre Hp.
  apply no_panic_bind; [apply no_panic_request|]. intros _ _. apply no_panic_ret.
Qed.

Lemma in_digit_range_lo ch : in_digit_range ch = true -> N_of_byte A85_LO <= N_of_byte ch.
Proof. unfold in_digit_range. intros H. apply andb_prop in H. destruct H as [H _]. apply N.leb_le in H. exact H. Qed.

Lemma sa85_loop_np input : forall buffer count outlen,
  (count < A85_GROUP)%nat -> no_panic (sa85_loop input buffer count outlen).
Proof.
  induction input as [|ch input IH]; intros buffer count outlen Hc.
  - cbn [sa85_loop]. apply sa85_finish_np; exact Hc.
  - cbn [sa85_loop].
    apply no_panic_bind; [apply no_panic_tick|]. intros _ _.
    destruct (byte_eqb ch A85_Z).
    { destruct count; [|apply no_panic_fail].
      apply no_panic_bind; [apply no_panic_request|]. intros _ _. apply IH; exact Hc. }
    destruct (is_skipped ch); [apply IH; exact Hc|].
    destruct (in_digit_range ch) eqn:Hd; cbn [negb]; [|apply sa85_finish_np; exact Hc].
    unfold u8_sub. rewrite ck_sub_ok by (apply in_digit_range_lo; exact Hd).
    apply no_panic_bind; [apply no_panic_ret|]. intros d Hd'. inv_ret Hd'.
    destruct (accum buffer _); [|apply no_panic_fail].
    destruct (Nat.eqb (S count) A85_GROUP) eqn:Eg.
    + apply no_panic_bind; [apply no_panic_request|]. intros _ _. apply IH. unfold A85_GROUP. lia.
    + apply IH. apply Nat.eqb_neq in Eg. lia.
Qed.

Theorem sa85_no_panic : forall input, no_panic (sa85 input).
Proof.
  intros input. unfold sa85. destruct (sa85_strip_spec input) as [body [E _]]. rewrite E.
  apply no_panic_bind; [apply no_panic_ret|]. intros b Hb. inv_ret Hb.
  apply sa85_loop_np. unfold A85_GROUP. lia.
Qed.

(* steps: one per input byte plus at most 5 for the padding loop *)
Lemma sa85_finish_steps buffer count outlen : steps (sa85_finish buffer count outlen) <= 5.
Proof.
  unfold sa85_finish. destruct count as [|c]; [csimp; lia|].
  rewrite steps_bind. cbn [outcome tick fst steps snd c_steps].
  assert (N.of_nat (A85_GROUP - S c) <= 5) by (unfold A85_GROUP; lia).
  destruct (pad buffer _); [|csimp; lia].
  assert (steps (k <- ck_sub (N.of_nat (S c)) 1;;
                 pre <- slice_to (be_bytes n) k;; request (outlen + blen pre);;; ret (outlen + blen pre)) = 0).
  { rewrite steps_bind. destruct (cost_ck_sub (N.of_nat (S c)) 1) as [-> _].
    destruct (outcome (ck_sub _ _)); try reflexivity.
    rewrite steps_bind. destruct (cost_slice_to (be_bytes n) a) as [-> _].
    destruct (outcome (slice_to _ _)); reflexivity. }
  lia.
Qed.

Lemma sa85_loop_steps input : forall buffer count outlen,
  steps (sa85_loop input buffer count outlen) <= blen input + 5.
Proof.
  unfold blen. induction input as [|ch input IH]; intros buffer count outlen.
  - cbn [sa85_loop length]. pose proof (sa85_finish_steps buffer count outlen). lia.
  - cbn [sa85_loop]. rewrite steps_bind. cbn [outcome tick fst steps snd c_steps].
    change (length (ch :: input)) with (S (length input)).
    destruct (byte_eqb ch A85_Z).
    { destruct count; [|csimp; lia].
      rewrite steps_bind. cbn [outcome request fst steps snd c_steps].
      specialize (IH buffer O (outlen + 4)). unfold steps in *. lia. }
    destruct (is_skipped ch); [specialize (IH buffer count outlen); unfold steps in *; lia|].
    destruct (negb (in_digit_range ch)).
    { pose proof (sa85_finish_steps buffer count outlen). unfold steps in *. lia. }
    rewrite steps_bind. unfold u8_sub. destruct (cost_ck_sub (N_of_byte ch) (N_of_byte A85_LO)) as [-> _].
    destruct (outcome (ck_sub _ _)); try lia.
    destruct (accum buffer a); [|csimp; lia].
    destruct (Nat.eqb (S count) A85_GROUP).
    + rewrite steps_bind. cbn [outcome request fst steps snd c_steps].
      specialize (IH 0 O (outlen + 4)). unfold steps in *. lia.
    + specialize (IH n (S count) outlen). unfold steps in *. lia.
Qed.

Theorem sa85_steps : forall input, steps (sa85 input) <= blen input + 5.
Proof.
  intros input. unfold sa85. destruct (sa85_strip_spec input) as [body [E Hl]]. rewrite E.
  destruct (bind_ret_l body (fun b => sa85_loop b 0 O 0)) as [_ [-> _]].
  pose proof (sa85_loop_steps body 0 O 0). unfold blen in *. lia.
Qed.

(* allocation: the output vector never holds more than 4 bytes per input byte (a `z` is the worst case) *)
Lemma sa85_finish_alloc buffer count outlen : max_alloc (sa85_finish buffer count outlen) <= outlen + 4.
Proof.
  unfold sa85_finish. destruct count as [|c]; [csimp; lia|].
  apply alloc_bind_le; [csimp; lia|]. intros _ _.
  destruct (pad buffer _); [|csimp; lia].
  apply alloc_bind_le. { destruct (cost_ck_sub (N.of_nat (S c)) 1) as [_ [-> _]]. lia. }
  intros k Hk.
  apply alloc_bind_le. { destruct (cost_slice_to (be_bytes n) k) as [_ [-> _]]. lia. }
  intros pre Hp.
  assert (blen pre <= 4).
  { unfold slice_to in Hp. destruct (k <=? _); cbn in Hp; [|discriminate].
    injection Hp as <-. unfold blen. rewrite firstn_length, be_bytes_len. lia. }
  apply alloc_bind_le; [csimp; lia|]. intros _ _. cbn. lia.
Qed.

Lemma sa85_loop_alloc input : forall buffer count outlen,
  max_alloc (sa85_loop input buffer count outlen) <= outlen + 4 * blen input + 4.
Proof.
  unfold blen. induction input as [|ch input IH]; intros buffer count outlen.
  - cbn [sa85_loop length]. pose proof (sa85_finish_alloc buffer count outlen). lia.
  - cbn [sa85_loop]. change (length (ch :: input)) with (S (length input)).
    apply alloc_bind_le; [csimp; lia|]. intros _ _.
    destruct (byte_eqb ch A85_Z).
    { destruct count; [|csimp; lia].
      apply alloc_bind_le; [csimp; lia|]. intros _ _.
      specialize (IH buffer O (outlen + 4)). lia. }
    destruct (is_skipped ch); [specialize (IH buffer count outlen); lia|].
    destruct (negb (in_digit_range ch)).
    { pose proof (sa85_finish_alloc buffer count outlen). lia. }
    apply alloc_bind_le.
    { unfold u8_sub. destruct (cost_ck_sub (N_of_byte ch) (N_of_byte A85_LO)) as [_ [-> _]]. lia. }
    intros d _.
    destruct (accum buffer d); [|csimp; lia].
    destruct (Nat.eqb (S count) A85_GROUP).
    + apply alloc_bind_le; [csimp; lia|]. intros _ _. specialize (IH 0 O (outlen + 4)). lia.
    + specialize (IH n (S count) outlen). lia.
Qed.

Theorem sa85_alloc : forall input, max_alloc (sa85 input) <= 4 * blen input + 4.
Proof.
  intros input. unfold sa85. destruct (sa85_strip_spec input) as [body [E Hl]]. rewrite E.
  destruct (bind_ret_l body (fun b => sa85_loop b 0 O 0)) as [_ [_ [-> _]]].
  pose proof (sa85_loop_alloc body 0 O 0). unfold blen in *. lia.
Qed.

Theorem sa85_depth : forall input, max_depth (sa85 input) = 0.
Proof.
  (* no recursion in the code: the model never uses [deeper] *)
  assert (Hf : forall b c o, max_depth (sa85_finish b c o) = 0).
  { intros. unfold sa85_finish. destruct c; [reflexivity|].
    rewrite depth_bind. cbn [outcome tick fst max_depth snd c_depth].
    destruct (pad b _); [|reflexivity].
    rewrite depth_bind. destruct (cost_ck_sub (N.of_nat (S c)) 1) as [_ [_ ->]].
    destruct (outcome (ck_sub _ _)); try reflexivity.
    rewrite depth_bind. destruct (cost_slice_to (be_bytes n) a) as [_ [_ ->]].
    destruct (outcome (slice_to _ _)); reflexivity. }
  assert (Hl : forall input b c o, max_depth (sa85_loop input b c o) = 0).
  { induction input as [|ch input IH]; intros; cbn [sa85_loop]; [apply Hf|].
    rewrite depth_bind. cbn [outcome tick fst max_depth snd c_depth].
    destruct (byte_eqb ch A85_Z).
    { destruct c; [|reflexivity]. rewrite depth_bind. cbn [outcome request fst max_depth snd c_depth].
      rewrite IH. reflexivity. }
    destruct (is_skipped ch); [rewrite IH; reflexivity|].
    destruct (negb (in_digit_range ch)); [rewrite Hf; reflexivity|].
    rewrite depth_bind. unfold u8_sub. destruct (cost_ck_sub (N_of_byte ch) (N_of_byte A85_LO)) as [_ [_ ->]].
    destruct (outcome (ck_sub _ _)); try reflexivity.
    destruct (accum b a); [|reflexivity].
    destruct (Nat.eqb (S c) A85_GROUP).
    - rewrite depth_bind. cbn [outcome request fst max_depth snd c_depth]. rewrite IH. reflexivity.
    - rewrite IH. reflexivity. }
  intros input. unfold sa85. destruct (sa85_strip_spec input) as [body [E _]]. rewrite E.
  destruct (bind_ret_l body (fun b => sa85_loop b 0 O 0)) as [_ [_ [_ ->]]]. apply Hl.
Qed.

Theorem sa85_terminates : forall input, terminates (sa85 input).
Proof.
  (* structural recursion: the model has no fuel *)
  assert (Hf : forall b c o, terminates (sa85_finish b c o)).
  { intros. unfold sa85_finish, terminates. destruct c; [discriminate|].
    rewrite outcome_bind. cbn [outcome tick fst].
    destruct (pad b _); [|discriminate].
    rewrite outcome_bind. unfold ck_sub. destruct (1 <=? _); cbn; [|discriminate].
    rewrite outcome_bind. unfold slice_to. destruct (_ <=? _); cbn; discriminate. }
  assert (Hl : forall input b c o, terminates (sa85_loop input b c o)).
  { induction input as [|ch input IH]; intros; cbn [sa85_loop]; [apply Hf|].
    apply terminates_bind; [discriminate|]. intros _ _.
    destruct (byte_eqb ch A85_Z).
    { destruct c; [|discriminate]. apply terminates_bind; [discriminate|]. intros _ _. apply IH. }
    destruct (is_skipped ch); [apply IH|].
    destruct (negb (in_digit_range ch)); [apply Hf|].
    apply terminates_bind. { unfold u8_sub, ck_sub, terminates. destruct (_ <=? _); discriminate. }
    intros d _. destruct (accum b d); [|discriminate].
    destruct (Nat.eqb (S c) A85_GROUP); [|apply IH].
    apply terminates_bind; [discriminate|]. intros _ _. apply IH. }
  intros input. unfold sa85. destruct (sa85_strip_spec input) as [body [E _]]. rewrite E.
  apply terminates_bind; [discriminate|]. intros b Hb. apply Hl.
Qed.

(* ---------------- PNG predictor ---------------- *)

Lemma srow_np t n : no_panic (srow t n n).
Proof. unfold srow. rewrite N.ltb_irrefl, andb_false_r. apply no_panic_tick. Qed.

Lemma sframe_go_np fuel : forall bpr row_len rest declen, no_panic (sframe_go fuel bpr row_len rest declen).
Proof.
  induction fuel as [|fuel IH]; intros; destruct rest as [|f rest]; cbn [sframe_go];
    try apply no_panic_ret; try apply no_panic_out_of_fuel.
  apply no_panic_bind; [apply no_panic_tick|]. intros _ _.
  destruct (ftype_of_N _); [|apply no_panic_fail].
  destruct (blen rest <? row_len); [apply no_panic_fail|].
  apply no_panic_bind; [apply srow_np|]. intros _ _.
  apply no_panic_bind; [apply no_panic_request|]. intros _ _. apply IH.
Qed.

Theorem sdecode_frame_no_panic : forall content bpp ppr, no_panic (sdecode_frame content bpp ppr).
Proof.
  intros. unfold sdecode_frame. destruct (opt_mul _ _ _); [|apply no_panic_fail].
  apply no_panic_bind; [apply no_panic_try_request|]. intros _ _.
  apply no_panic_bind; [apply no_panic_try_request|]. intros _ _. apply sframe_go_np.
Qed.

Theorem spredictor_no_panic : forall p columns colors bits data, no_panic (spredictor p columns colors bits data).
Proof.
  intros. unfold spredictor. destruct (_ && _)%bool; [|apply no_panic_ret].
  destruct (opt_mul _ _ _); [|apply no_panic_fail]. apply sdecode_frame_no_panic.
Qed.

(* the loop consumes at least the filter byte per iteration: fuel = length of the data suffices *)
Lemma sframe_go_terminates fuel : forall bpr row_len rest declen,
  (length rest <= fuel)%nat -> terminates (sframe_go fuel bpr row_len rest declen).
Proof.
  induction fuel as [|fuel IH]; intros bpr row_len rest declen Hl; destruct rest as [|f rest]; cbn [sframe_go];
    try discriminate.
  - cbn in Hl. lia.
  - apply terminates_bind; [discriminate|]. intros _ _.
    destruct (ftype_of_N _); [|discriminate].
    destruct (blen rest <? row_len); [discriminate|].
    apply terminates_bind. { unfold srow, terminates. destruct (_ && _)%bool; discriminate. } intros _ _.
    apply terminates_bind; [discriminate|]. intros _ _.
    apply IH. rewrite skipn_length. cbn in Hl. lia.
Qed.

Theorem sdecode_frame_terminates : forall content bpp ppr, terminates (sdecode_frame content bpp ppr).
Proof.
  intros. unfold sdecode_frame. destruct (opt_mul _ _ _); [|discriminate].
  apply terminates_bind. { unfold try_request, terminates. destruct (_ <? _); discriminate. } intros _ _.
  apply terminates_bind. { unfold try_request, terminates. destruct (_ <? _); discriminate. } intros _ _.
  apply sframe_go_terminates. lia.
Qed.

Theorem spredictor_terminates : forall p columns colors bits data, terminates (spredictor p columns colors bits data).
Proof.
  intros. unfold spredictor. destruct (_ && _)%bool; [|discriminate].
  destruct (opt_mul _ _ _); [|discriminate]. apply sdecode_frame_terminates.
Qed.

(* allocation: the row buffers and the decoded data are never larger than the data given *)
Lemma sframe_go_alloc fuel : forall bpr row_len rest declen total,
  row_len <= bpr -> declen + blen rest <= total ->
  max_alloc (sframe_go fuel bpr row_len rest declen) <= total.
Proof.
  unfold blen. induction fuel as [|fuel IH]; intros bpr row_len rest declen total Hr Ht;
    destruct rest as [|f rest]; cbn [sframe_go]; try (csimp; lia).
  apply alloc_bind_le; [csimp; lia|]. intros _ _.
  destruct (ftype_of_N _); [|csimp; lia].
  destruct (blen rest <? row_len) eqn:E; [csimp; lia|].
  apply N.ltb_ge in E. unfold blen in E. cbn [length] in Ht.
  apply alloc_bind_le. { unfold srow. destruct (_ && _)%bool; csimp; lia. } intros _ _.
  apply alloc_bind_le; [csimp; lia|]. intros _ _.
  apply IH; [exact Hr|]. rewrite skipn_length. lia.
Qed.

Theorem sdecode_frame_alloc : forall content bpp ppr, max_alloc (sdecode_frame content bpp ppr) <= blen content.
Proof.
  intros. unfold sdecode_frame. destruct (opt_mul _ _ _) as [bpr|]; [|csimp; lia].
  assert (Hm : N.min bpr (blen content) <= blen content) by lia.
  apply alloc_bind_le. { unfold try_request. destruct (_ <? _); csimp; lia. } intros _ _.
  apply alloc_bind_le. { unfold try_request. destruct (_ <? _); csimp; lia. } intros _ _.
  apply sframe_go_alloc; lia.
Qed.

Theorem spredictor_alloc : forall p columns colors bits data,
  max_alloc (spredictor p columns colors bits data) <= blen data.
Proof.
  intros. unfold spredictor. destruct (_ && _)%bool; [|csimp; lia].
  destruct (opt_mul _ _ _); [|csimp; lia]. apply sdecode_frame_alloc.
Qed.

(* steps: every byte of the data is visited at most once as a filter byte or a row byte *)
Lemma sframe_go_steps fuel : forall bpr row_len rest declen,
  row_len <= bpr -> steps (sframe_go fuel bpr row_len rest declen) <= blen rest.
Proof.
  unfold blen. induction fuel as [|fuel IH]; intros bpr row_len rest declen Hr;
    destruct rest as [|f rest]; cbn [sframe_go]; try (csimp; lia).
  rewrite steps_bind. cbn [outcome tick fst steps snd c_steps]. cbn [length].
  destruct (ftype_of_N _); [|csimp; lia].
  destruct (blen rest <? row_len) eqn:E; [csimp; lia|].
  apply N.ltb_ge in E. unfold blen in E.
  rewrite steps_bind.
  assert (Hs : steps (srow f0 row_len row_len) = row_len /\ outcome (srow f0 row_len row_len) = SOk tt).
  { unfold srow. rewrite N.ltb_irrefl, andb_false_r. split; reflexivity. }
  destruct Hs as [-> ->].
  rewrite steps_bind. cbn [outcome request fst steps snd c_steps].
  specialize (IH bpr row_len (skipn (N.to_nat bpr) rest) (declen + row_len) Hr).
  rewrite skipn_length in IH. unfold steps in *. lia.
Qed.

Theorem sdecode_frame_steps : forall content bpp ppr, steps (sdecode_frame content bpp ppr) <= blen content.
Proof.
  intros. unfold sdecode_frame. destruct (opt_mul _ _ _) as [bpr|]; [|csimp; lia].
  rewrite steps_bind.
  assert (H1 : forall n, steps (try_request n) = 0) by (intros; unfold try_request; destruct (_ <? _); reflexivity).
  rewrite H1. destruct (outcome (try_request _)); try lia.
  rewrite steps_bind, H1. destruct (outcome (try_request _)); try lia.
  pose proof (sframe_go_steps (length content) bpr (N.min bpr (blen content)) content 0). lia.
Qed.

Theorem spredictor_steps : forall p columns colors bits data,
  steps (spredictor p columns colors bits data) <= blen data.
Proof.
  intros. unfold spredictor. destruct (_ && _)%bool; [|csimp; lia].
  destruct (opt_mul _ _ _); [|csimp; lia]. apply sdecode_frame_steps.
Qed.

(* ---------------- what the unrepaired code did (the model of the pinned geometry) ---------------- *)
(* pinned decompress_predictor / decode_frame: `colors * bits / 8` and `bytes_per_pixel * pixels_per_row`
   unchecked, two row buffers of bytes_per_row each *)
Definition spredictor_pinned (predictor columns colors bits : Z) (data : bytes) : M N :=
  if ((PRED_LO <=? predictor) && (predictor <=? PRED_HI))%Z then
    let ppr := as_usize (Z.max COLUMNS_MIN columns) in
    let ncolors := as_usize (Z.max COLORS_MIN colors) in
    let nbits := as_usize (Z.max BITS_MIN bits) in
    cb <- usize_mul ncolors nbits ;;
    bpr <- usize_mul (cb / 8) ppr ;;
    try_request bpr ;;; try_request bpr ;;;
    sframe_go (length data) bpr bpr data 0
  else ret (blen data).

Theorem spredictor_pinned_refuted :
  (exists data, outcome (spredictor_pinned 12 1 9223372036854775807 9223372036854775807 data) = SPanic ROverflow)
  /\ (exists data, max_alloc (spredictor_pinned 12 4000000000 1 8 data) = 4000000000 /\ blen data = 4).
Proof.
  split.
  - exists [x00; x61; x62; x63]. vm_compute. reflexivity.
  - exists [x00; x61; x62; x63]. vm_compute. split; reflexivity.
Qed.
