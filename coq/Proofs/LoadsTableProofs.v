(* LoadsTableProofs.v -- C02 rung 3 for the cross-reference TABLE format: Model/Loader.load on the files of the
   reference writer (Spec/RefWriter.v) with bytes before the header, any header / startxref end-of-lines, objects
   in any order with any gaps, any sectioning of the table, fillers and spellings everywhere.
   Part 1: the string-level pieces (header offset, header line, startxref discovery). *)
From LV Require Import Base.Bytes Base.Sx Model.Obj Model.Writer Model.Parser Model.Xref Model.Loader Model.Utf Gen.Lex
  Spec.XrefSpec Spec.RefWriter Proofs.LexProofs Proofs.LoadProofs Proofs.LoadProofsFile Proofs.XrefProofs
  Proofs.XrefTableProofs Proofs.ObjectRtProofs Proofs.SpellingProofs Proofs.SpellingObjProofs Proofs.SpellingFileProofs Proofs.LoadsFrameProofs.
From Coq Require Import Lia.
Local Open Scope N_scope.

(* ---------- bytes before the header ---------- *)
Definition PDFH := Eval cbv in bs "%PDF-".

Lemma contains_cons pat c t : contains pat (c :: t) = prefixb pat (c :: t) || contains pat t.
Proof. reflexivity. Qed.

(* "%PDF-" has no border: an occurrence that starts inside [j] and ends inside the header cannot exist *)
Lemma no_straddle : forall j X, (0 < length j < 5)%nat -> prefixb PDFH (j ++ PDFH ++ X) = false.
Proof.
  intros j X H. destruct j as [|b1 j]; [cbn in H; lia|].
  destruct j as [|b2 j]; [cbn [app prefixb PDFH]; change (byte_eqb x50 x25) with false; rewrite andb_false_r; reflexivity|].
  destruct j as [|b3 j]; [cbn [app prefixb PDFH]; change (byte_eqb x44 x25) with false; rewrite !andb_false_r; reflexivity|].
  destruct j as [|b4 j]; [cbn [app prefixb PDFH]; change (byte_eqb x46 x25) with false; rewrite !andb_false_r; reflexivity|].
  destruct j as [|b5 j]; [cbn [app prefixb PDFH]; change (byte_eqb x2d x25) with false; rewrite !andb_false_r; reflexivity|].
  cbn in H. lia.
Qed.

Lemma prefixb_long pat : forall j X, (length pat <= length j)%nat -> prefixb pat (j ++ X) = prefixb pat j.
Proof.
  induction pat as [|p pat IH]; intros j X H; [reflexivity|].
  destruct j as [|b j]; [cbn in H; lia|]. cbn [app prefixb]. rewrite IH by (cbn in H; lia). reflexivity.
Qed.

Lemma find_sub_junk : forall junk X pos,
  contains PDFH junk = false -> find_sub PDFH (junk ++ PDFH ++ X) pos = Some (pos + blen junk).
Proof.
  induction junk as [|c junk IH]; intros X pos H.
  - cbn [app]. unfold blen. cbn [length]. rewrite N.add_0_r. reflexivity.
  - rewrite contains_cons in H. apply orb_false_iff in H as [H1 H2].
    cbn [app find_sub].
    assert (Hp : prefixb PDFH (c :: junk ++ PDFH ++ X) = false).
    { change (c :: junk ++ PDFH ++ X) with ((c :: junk) ++ PDFH ++ X).
      destruct (Nat.le_gt_cases 5 (length (c :: junk))) as [L|L].
      - rewrite (prefixb_long PDFH (c :: junk) (PDFH ++ X)) by exact L. exact H1.
      - apply (no_straddle (c :: junk)). cbn [length] in *. lia. }
    rewrite Hp. rewrite IH by exact H2. unfold blen. cbn [length]. f_equal. lia.
Qed.

Theorem pdf_offset_junk junk X : contains (bs "%PDF-") junk = false -> pdf_offset (junk ++ bs "%PDF-" ++ X) = blen junk.
Proof. intro H. unfold pdf_offset. change (bs "%PDF-") with PDFH in *. rewrite find_sub_junk by exact H. reflexivity. Qed.

(* ---------- the header line, any end-of-line marker ---------- *)
Lemma eol_any e X : exists r, eol (eol_bytes e ++ X) = POk tt r.
Proof.
  destruct e; cbn [eol_bytes app].
  - destruct X as [|c X']; [eexists; reflexivity|]. destruct (byte_eqb c x0a) eqn:E.
    + apply byte_eqb_eq in E. subst c. eexists. reflexivity.
    + exists (c :: X'). cbn [eol]. destruct c; try reflexivity. discriminate E.
  - eexists. reflexivity.
  - eexists. reflexivity.
Qed.

Lemma eol_head_is_end e X : starts_with not_eol_byte (eol_bytes e ++ X) = false.
Proof. destruct e; reflexivity. Qed.

Definition no_eolb (v : bytes) : bool := forallb not_eol_byte v.

Lemma byte_eqb_sym' a b : byte_eqb a b = byte_eqb b a.
Proof.
  destruct (byte_eqb a b) eqn:E1, (byte_eqb b a) eqn:E2; try reflexivity.
  - apply byte_eqb_eq in E1. subst. rewrite byte_eqb_refl in E2. discriminate.
  - apply byte_eqb_eq in E2. subst. rewrite byte_eqb_refl in E1. discriminate.
Qed.

Lemma contains_single_false c v : contains [c] v = false -> forallb (fun b => negb (byte_eqb c b)) v = true.
Proof.
  induction v as [|b v IH]; intro H; [reflexivity|]. rewrite contains_cons in H. apply orb_false_iff in H as [H1 H2].
  cbn [forallb]. rewrite (IH H2), andb_true_r. cbn [prefixb] in H1. rewrite andb_true_r in H1. rewrite H1. reflexivity.
Qed.

Lemma version_no_eol v : contains [x0d] v = false -> contains [x0a] v = false -> no_eolb v = true.
Proof.
  intros H1 H2. pose proof (contains_single_false _ _ H1) as A. pose proof (contains_single_false _ _ H2) as B.
  unfold no_eolb. induction v as [|c v IH]; [reflexivity|]. cbn [forallb] in *.
  apply andb_true_iff in A as [A1 A2]. apply andb_true_iff in B as [B1 B2].
  rewrite IH; [|rewrite contains_cons in H1; apply orb_false_iff in H1; tauto
               |rewrite contains_cons in H2; apply orb_false_iff in H2; tauto|exact A2|exact B2].
  rewrite andb_true_r. unfold not_eol_byte, is_comment_end, COMMENT_END, byte_in. cbn [existsb].
  apply negb_true_iff in A1, B1. rewrite (byte_eqb_sym' c x0d), (byte_eqb_sym' c x0a), A1, B1. reflexivity.
Qed.

Theorem header_any_eol v e rest :
  no_eolb v = true -> utf8_decode v <> None -> Loader.header (bs "%PDF-" ++ v ++ eol_bytes e ++ rest) = Some v.
Proof.
  intros Hv Hu. unfold Loader.header, line_after. rewrite ptag_app.
  rewrite (take_while_app not_eol_byte v (eol_bytes e ++ rest) Hv (eol_head_is_end e rest)).
  destruct (eol_any e rest) as [r ->]. destruct (utf8_decode v); [reflexivity|contradiction].
Qed.

(* ---------- startxref discovery on a styled block ---------- *)
Definition sx_mid (e1 : eolk) (a : nat) (n : N) (b : nat) (e2 : eolk) : bytes :=
  eol_bytes e1 ++ repeat x20 a ++ N_dec n ++ repeat x20 b ++ eol_bytes e2.
Definition sx_block (e1 : eolk) (a : nat) (n : N) (b : nat) (e2 : eolk) (fe : option eolk) : bytes :=
  bs "startxref" ++ sx_mid e1 a n b e2 ++ bs "%%EOF" ++ opt_eol fe.

Lemma startxref_text_block st pos :
  startxref_text st pos = sx_block (s_sx_eol1 st) (s_sx_sp1 st) pos (s_sx_sp2 st) (s_sx_eol2 st) (s_final_eol st).
Proof. unfold startxref_text, sx_block, sx_mid. rewrite <- !app_assoc. reflexivity. Qed.

Lemma eol_exact e X : (match e, X with ECR, x0a :: _ => false | _, _ => true end) = true ->
  eol (eol_bytes e ++ X) = POk tt X.
Proof.
  intro H. destruct e; cbn [eol_bytes app]; try reflexivity.
  destruct X as [|c X']; [reflexivity|]. destruct c; try reflexivity. discriminate H.
Qed.

Lemma skip_spaces_repeat k X : skip_spaces (repeat x20 k ++ X) = skip_spaces X.
Proof. induction k as [|k IH]; [reflexivity|]. cbn [repeat app]. unfold skip_spaces in *. cbn [skip_while]. exact IH. Qed.

Lemma skip_spaces_eol e X : skip_spaces (eol_bytes e ++ X) = eol_bytes e ++ X.
Proof. destruct e; reflexivity. Qed.

Lemma not_s_forall l : forallb (fun c => negb (byte_eqb c x73)) l = true -> forallb (fun b => negb (byte_eqb x73 b)) l = true.
Proof.
  induction l as [|c l IH]; [reflexivity|]. cbn [forallb]. intro H. apply andb_true_iff in H as [H1 H2].
  rewrite (IH H2), andb_true_r. rewrite byte_eqb_sym'. exact H1.
Qed.

Lemma repeat_not_s k : forallb (fun b => negb (byte_eqb x73 b)) (repeat x20 k) = true.
Proof. induction k; [reflexivity|]. cbn [repeat forallb]. rewrite IHk. reflexivity. Qed.

Lemma head_space_or_digit_not_lf a ds Y : ds <> [] -> forallb is_dec_digit ds = true ->
  forall e, (match e, repeat x20 a ++ ds ++ Y with ECR, x0a :: _ => false | _, _ => true end) = true.
Proof.
  intros Hne Hd e. destruct e; try reflexivity. destruct a as [|a]; [|reflexivity]. cbn [repeat app].
  destruct ds as [|c t]; [contradiction|]. cbn [app forallb] in *. apply andb_true_iff in Hd as [Hc _].
  destruct c; try reflexivity. discriminate Hc.
Qed.

Theorem get_xref_start_styled front e1 a n b e2 fe :
  n <= blen front -> 25 < blen front -> n < 10 ^ 14 ->
  (9 + length (sx_mid e1 a n b e2) <= 25)%nat ->
  get_xref_start (front ++ sx_block e1 a n b e2 fe) = Some n.
Proof.
  intros Hn Hfront Hdig Hmid.
  set (M := sx_mid e1 a n b e2) in *. set (fe' := opt_eol fe).
  set (buf := front ++ sx_block e1 a n b e2 fe).
  assert (Hfe : (length fe' <= 2)%nat) by (unfold fe'; destruct fe as [[| |]|]; cbn; lia).
  assert (Ebuf1 : buf = (front ++ bs "startxref" ++ M) ++ bs "%%EOF" ++ fe').
  { unfold buf, sx_block. fold M fe'. rewrite <- !app_assoc. reflexivity. }
  assert (Ebuf2 : buf = front ++ bs "startxref" ++ M ++ bs "%%EOF" ++ fe').
  { unfold buf, sx_block. fold M fe'. reflexivity. }
  set (A := front ++ bs "startxref" ++ M).
  assert (HA : blen A = blen front + 9 + N.of_nat (length M)).
  { unfold A, blen. rewrite !app_length. change (length (bs "startxref")) with 9%nat. lia. }
  assert (Hlen : blen buf = blen A + 5 + N.of_nat (length fe')).
  { rewrite Ebuf1. fold A. unfold blen. rewrite !app_length. change (length (bs "%%EOF")) with 5%nat. lia. }
  unfold get_xref_start. fold buf.
  set (seek := blen buf - N.min (blen buf) 512).
  assert (Hseek : seek <= blen A) by (unfold seek; lia).
  assert (E1 : from seek buf = from seek A ++ bs "%%EOF" ++ fe') by (rewrite Ebuf1; fold A; apply from_app_le; exact Hseek).
  assert (E2 : from (blen A - 25) buf = from (blen A - 25) front ++ bs "startxref" ++ M ++ bs "%%EOF" ++ fe').
  { rewrite Ebuf2. apply from_app_le. lia. }
  assert (E3 : from (blen front) buf = bs "startxref" ++ M ++ bs "%%EOF" ++ fe') by (rewrite Ebuf2; apply from_app).
  unfold search_substring. rewrite E1.
  change (bs "%%EOF" ++ fe') with (x25 :: bs "%EOF" ++ fe').
  rewrite (search_last_found (bs "%%EOF") x25 (bs "%EOF" ++ fe')).
  2:{ reflexivity. }
  2:{ unfold fe'. destruct fe as [[| |]|]; reflexivity. }
  rewrite from_length by exact Hseek.
  replace (seek + (blen A - seek)) with (blen A) by lia.
  replace (25 <? blen A) with true by (symmetry; apply N.ltb_lt; lia).
  rewrite E2.
  assert (Hnm : nomatch (x73 :: bs "tartxref") (bs "tartxref" ++ M ++ bs "%%EOF" ++ fe') = true).
  { apply (nomatch_first x73). rewrite !forallb_app. unfold M, sx_mid. rewrite !forallb_app.
    rewrite (digits_not_s _ (N_dec_digits n)), !repeat_not_s.
    assert (He : forall e, forallb (fun b0 => negb (byte_eqb x73 b0)) (eol_bytes e) = true) by (intros []; reflexivity).
    rewrite !He. unfold fe'. destruct fe as [[| |]|]; reflexivity. }
  change (bs "startxref" ++ M ++ bs "%%EOF" ++ fe') with (x73 :: bs "tartxref" ++ M ++ bs "%%EOF" ++ fe').
  rewrite (search_last_found (bs "startxref") x73 (bs "tartxref" ++ M ++ bs "%%EOF" ++ fe') eq_refl Hnm).
  rewrite from_length by lia.
  replace (blen A - 25 + (blen front - (blen A - 25))) with (blen front) by lia.
  rewrite E3.
  (* the startxref line *)
  unfold xref_start_p. rewrite ptag_app. unfold M, sx_mid. rewrite <- !app_assoc.
  rewrite eol_exact by (apply head_space_or_digit_not_lf; [apply N_dec_nonempty | apply N_dec_digits]).
  rewrite skip_spaces_repeat, skip_spaces_digit by (apply N_dec_nonempty || apply N_dec_digits).
  rewrite <- Z_dec_of_N.
  rewrite integer_rt; [| unfold in_i64, i64_min, i64_max; apply andb_true_iff; split; apply Z.leb_le; lia |].
  2:{ destruct b as [|b']; [destruct e2; reflexivity | reflexivity]. }
  rewrite skip_spaces_repeat, skip_spaces_eol.
  rewrite eol_exact by (destruct e2; reflexivity). rewrite ptag_app.
  replace (Z.of_N n <? 0)%Z with false by (symmetry; apply Z.ltb_ge; lia).
  rewrite N2Z.id.
  replace (blen buf <? n) with false by (symmetry; apply N.ltb_ge; lia).
  reflexivity.
Qed.

(* ======================================================================================================
   Part 2: the body (objects in any order) and the offsets the writer records
   ====================================================================================================== *)
Notation top := (oid * obj * istyle)%type.
Definition top_text (t : top) : bytes :=
  w_indirect (fst (fst (fst t))) (snd (fst (fst t))) (snd (fst t)) (snd t) ++ gap_bytes (i_gap (snd t)).
Definition body_of (tops : list top) : bytes := flat_map top_text tops.
Fixpoint offs_of (pos : N) (tops : list top) : list (N * N * N) :=
  match tops with
  | [] => []
  | t :: rest => (fst (fst (fst t)), snd (fst (fst t)), pos) :: offs_of (pos + N.of_nat (length (top_text t))) rest
  end.

Lemma emit_objs_eq : forall tops pos, emit_objs pos tops = (body_of tops, offs_of pos tops).
Proof.
  induction tops as [|[[[i g] o] y] tops IH]; intro pos; [reflexivity|].
  cbn [emit_objs]. rewrite IH. reflexivity.
Qed.

Lemma body_of_app a b : body_of (a ++ b) = body_of a ++ body_of b.
Proof. unfold body_of. apply flat_map_app. Qed.

Lemma offs_of_In : forall tops pos i g p, In (i, g, p) (offs_of pos tops) ->
  exists pre o y post, tops = pre ++ ((i, g), o, y) :: post /\ p = pos + N.of_nat (length (body_of pre)).
Proof.
  induction tops as [|[[[i0 g0] o0] y0] tops IH]; intros pos i g p H; [contradiction|].
  cbn [offs_of fst snd] in H. destruct H as [H|H].
  - inversion H; subst. exists [], o0, y0, tops. split; [reflexivity|]. change (N.of_nat (length (body_of []))) with 0. lia.
  - destruct (IH _ _ _ _ H) as [pre [o [y [post [E Ep]]]]].
    exists (((i0, g0), o0, y0) :: pre), o, y, post. split; [rewrite E; reflexivity|].
    rewrite Ep. change (body_of (((i0, g0), o0, y0) :: pre)) with (top_text ((i0, g0), o0, y0) ++ body_of pre).
    rewrite app_length, Nat2N.inj_add, N.add_assoc. reflexivity.
Qed.

Lemma find_off_In : forall offs n g p, find_off offs n = Some (g, p) -> In (n, g, p) offs.
Proof.
  induction offs as [|[[i g0] p0] offs IH]; intros n g p H; [discriminate H|].
  cbn [find_off] in H. destruct (i =? n) eqn:E.
  - apply N.eqb_eq in E. inversion H; subst. left. reflexivity.
  - right. apply IH. exact H.
Qed.

Definition top_num (t : top) : N := fst (fst (fst t)).

Lemma find_off_complete : forall tops pos t, In t tops -> NoDup (map top_num tops) ->
  exists p, find_off (offs_of pos tops) (top_num t) = Some (snd (fst (fst t)), p).
Proof.
  induction tops as [|t0 tops IH]; intros pos t Hin Hnd; [contradiction|].
  cbn [offs_of find_off]. inversion Hnd as [|? ? Hn Hnd']; subst. destruct Hin as [->|Hin].
  - unfold top_num. rewrite N.eqb_refl. eexists. reflexivity.
  - assert (top_num t0 =? top_num t = false) as E.
    { apply N.eqb_neq. intro K. apply Hn. rewrite K. apply in_map. exact Hin. }
    unfold top_num in E at 1. rewrite E. apply IH; assumption.
Qed.

(* the text at a recorded offset *)
Lemma from_at_offset hdr pre t post tail :
  from (blen hdr + N.of_nat (length (body_of pre))) (hdr ++ body_of (pre ++ t :: post) ++ tail) =
  top_text t ++ body_of post ++ tail.
Proof.
  rewrite body_of_app. change (body_of (t :: post)) with (top_text t ++ body_of post).
  replace (hdr ++ (body_of pre ++ top_text t ++ body_of post) ++ tail)
    with ((hdr ++ body_of pre) ++ top_text t ++ body_of post ++ tail) by (rewrite <- !app_assoc; reflexivity).
  replace (blen hdr + N.of_nat (length (body_of pre))) with (blen (hdr ++ body_of pre))
    by (unfold blen; rewrite app_length; lia).
  apply from_app.
Qed.

(* ---------- spec_map: every entry of the list comes from the sections ---------- *)
Lemma xinsert_In : forall m id e k v, In (k, v) (xinsert m id e) -> (k, v) = (id, e) \/ In (k, v) m.
Proof.
  induction m as [|[k0 e0] m IH]; intros id e k v H; cbn [xinsert] in H.
  - destruct H as [H|[]]. left. symmetry. exact H.
  - destruct (k0 =? id) eqn:E.
    + apply N.eqb_eq in E. subst k0. destruct H as [H|H]; [left; symmetry; exact H | right; right; exact H].
    + destruct (id <? k0).
      * destruct H as [H|H]; [left; symmetry; exact H | right; exact H].
      * destruct H as [H|H]; [right; left; exact H|]. destruct (IH _ _ _ _ H) as [K|K]; [left; exact K | right; right; exact K].
Qed.

Lemma spec_map_sound : forall l m k v, In (k, v) (fold_left spec_step l m) ->
  In (k, v) m \/ exists se, In (k, se) l /\ entry_meaning se = Some v.
Proof.
  induction l as [|[n se] l IH]; intros m k v H; [left; exact H|].
  cbn [fold_left] in H. destruct (IH _ _ _ H) as [K|[se' [K1 K2]]].
  - unfold spec_step in K. cbn [fst snd] in K. destruct se as [a b|o g|c i].
    + left. exact K.
    + destruct (xinsert_In _ _ _ _ _ K) as [E|E]; [|left; exact E]. inversion E; subst.
      right. exists (SInUse o g). split; [left; reflexivity|reflexivity].
    + destruct (xinsert_In _ _ _ _ _ K) as [E|E]; [|left; exact E]. inversion E; subst.
      right. exists (SComp c i). split; [left; reflexivity|reflexivity].
  - right. exists se'. split; [right; exact K1|exact K2].
Qed.

Lemma xget_In : forall m k v, xget m k = Some v -> In (k, v) m.
Proof.
  induction m as [|[k0 e0] m IH]; intros k v H; [discriminate H|]. cbn [xget] in H.
  destruct (k0 =? k) eqn:E; [apply N.eqb_eq in E; inversion H; subst; left; reflexivity | right; apply IH; exact H].
Qed.

Lemma xget_some_key : forall (m : xmap) k v, In (k, v) m -> existsb (fun ke => fst ke =? k) m = true.
Proof.
  induction m as [|[k0 e0] m IH]; intros k v H; [contradiction|]. cbn [existsb fst].
  destruct H as [H|H]; [inversion H; subst; rewrite N.eqb_refl; reflexivity | rewrite (IH _ _ H); apply orb_true_r].
Qed.

Lemma key_some_In : forall (m : xmap) k, existsb (fun ke => fst ke =? k) m = true -> exists v, In (k, v) m.
Proof.
  induction m as [|[k0 e0] m IH]; intros k H; [discriminate H|]. cbn [existsb fst] in H.
  apply orb_true_iff in H as [H|H]; [apply N.eqb_eq in H; subst; eexists; left; reflexivity|].
  destruct (IH _ H) as [v Hv]. exists v. right. exact Hv.
Qed.

Lemma max_id_le : forall (m : xmap) B a, a <= B -> (forall k v, In (k, v) m -> k <= B) ->
  fold_left (fun a ke => N.max a (fst ke)) m a <= B.
Proof.
  induction m as [|[k0 e0] m IH]; intros B a Ha H; [exact Ha|]. cbn [fold_left fst].
  apply IH; [|intros; eapply H; right; eassumption]. pose proof (H k0 e0 (or_introl eq_refl)). lia.
Qed.

(* ======================================================================================================
   Part 3: the sections the writer builds
   ====================================================================================================== *)
Lemma range_N_length f n : length (range_N f n) = n.
Proof. revert f. induction n as [|n IH]; intro f; [reflexivity|]. cbn [range_N length]. rewrite IH. reflexivity. Qed.

Lemma range_N_In f n k : In k (range_N f n) <-> f <= k < f + N.of_nat n.
Proof.
  revert f. induction n as [|n IH]; intro f; cbn [range_N In].
  - split; [contradiction|lia].
  - rewrite IH. lia.
Qed.

Lemma range_N_NoDup f n : NoDup (range_N f n).
Proof.
  revert f. induction n as [|n IH]; intro f; cbn [range_N]; constructor; [|apply IH].
  rewrite range_N_In. lia.
Qed.

Lemma cyc_length {A} n (l all : list A) d : length (cyc n l all d) = n.
Proof.
  revert l. induction n as [|n IH]; intro l; [reflexivity|]. cbn [cyc].
  destruct l as [|x l']; [destruct all as [|y all']|]; cbn [length]; rewrite IH; reflexivity.
Qed.

Lemma map_fst_combine {A B} : forall (a : list A) (b : list B), (length a <= length b)%nat -> map fst (combine a b) = a.
Proof.
  induction a as [|x a IH]; intros b H; [reflexivity|]. destruct b as [|y b]; [cbn in H; lia|].
  cbn [combine map fst]. rewrite IH by (cbn in H; lia). reflexivity.
Qed.

Definition plain_secs (entry : N -> sentry) (secs : list (N * N)) : xsections :=
  map (fun fc => (fst fc, map entry (range_N (fst fc) (N.to_nat (snd fc))))) secs.

Lemma build_tsecs_plain entry all : forall secs eols seols ssp,
  tsections_plain (build_tsecs secs entry eols all seols ssp) = plain_secs entry secs.
Proof.
  induction secs as [|[f c] secs IH]; intros eols seols ssp; [reflexivity|].
  cbn [build_tsecs tsections_plain plain_secs map ts_first ts_entries fst snd].
  rewrite map_fst_combine by (rewrite !map_length, range_N_length, cyc_length; lia).
  f_equal. apply IH.
Qed.

Lemma number_from_map entry : forall n f, number_from f (map entry (range_N f n)) = map (fun k => (k, entry k)) (range_N f n).
Proof.
  induction n as [|n IH]; intro f; [reflexivity|]. cbn [range_N map number_from]. rewrite IH. reflexivity.
Qed.

Definition keys_of (secs : list (N * N)) : list N := flat_map (fun fc => range_N (fst fc) (N.to_nat (snd fc))) secs.

Lemma numbered_plain entry secs :
  numbered (plain_secs entry secs) = map (fun k => (k, entry k)) (keys_of secs).
Proof.
  unfold numbered, plain_secs, keys_of. induction secs as [|[f c] secs IH]; [reflexivity|].
  cbn [map flat_map fst snd]. rewrite number_from_map, map_app, IH. reflexivity.
Qed.

Lemma keys_of_In secs k : In k (keys_of secs) <-> exists f c, In (f, c) secs /\ f <= k < f + c.
Proof.
  unfold keys_of. rewrite in_flat_map. split.
  - intros [[f c] [H1 H2]]. cbn [fst snd] in H2. apply range_N_In in H2. rewrite N2Nat.id in H2. eauto.
  - intros [f [c [H1 H2]]]. exists (f, c). split; [exact H1|]. cbn [fst snd]. apply range_N_In. rewrite N2Nat.id. exact H2.
Qed.

Lemma NoDup_app_disj {A} (a b : list A) : NoDup a -> NoDup b -> (forall x, In x a -> In x b -> False) -> NoDup (a ++ b).
Proof.
  induction a as [|x a IH]; intros Ha Hb Hd; [exact Hb|]. inversion Ha; subst. cbn [app]. constructor.
  - rewrite in_app_iff. intros [K|K]; [contradiction|]. apply (Hd x); [left; reflexivity|exact K].
  - apply IH; [assumption|assumption|]. intros y Hy1 Hy2. apply (Hd y); [right; exact Hy1|exact Hy2].
Qed.

Lemma keys_increasing : forall secs lo, secs_increasing lo secs = true ->
  NoDup (keys_of secs) /\ forall k, In k (keys_of secs) -> lo <= k.
Proof.
  induction secs as [|[f c] secs IH]; intros lo H; [split; [constructor|intros k []]|].
  cbn [secs_increasing] in H. apply andb_true_iff in H as [H H3]. apply andb_true_iff in H as [H1 H2].
  apply N.leb_le in H1, H2. destruct (IH _ H3) as [A B].
  unfold keys_of in *. cbn [flat_map fst snd]. split.
  - apply NoDup_app_disj; [apply range_N_NoDup|exact A|].
    intros x Hx1 Hx2. apply range_N_In in Hx1. rewrite N2Nat.id in Hx1. specialize (B _ Hx2). lia.
  - intros k Hk. apply in_app_iff in Hk as [Hk|Hk]; [apply range_N_In in Hk; lia | specialize (B _ Hk); lia].
Qed.

(* the sections actually used *)
Definition secs_good (secs : list (N * N)) (size : N) (used : N -> bool) : Prop :=
  secs_increasing 0 secs = true /\
  (forall n, n < size -> used n = true -> exists f c, In (f, c) secs /\ f <= n < f + c) /\
  (forall f c, In (f, c) secs -> 1 <= c /\ f + c <= size).

Lemma secs_increasing_c : forall secs lo f c, secs_increasing lo secs = true -> In (f, c) secs -> 1 <= c.
Proof.
  induction secs as [|[f0 c0] secs IH]; intros lo f c H Hin; [contradiction|].
  cbn [secs_increasing] in H. apply andb_true_iff in H as [H H3]. apply andb_true_iff in H as [H1 H2].
  destruct Hin as [E|Hin]; [inversion E; subst; apply N.leb_le; exact H2 | eapply IH; eassumption].
Qed.

Lemma use_secs_good secs size used : 1 <= size -> secs_good (use_secs secs size used) size used.
Proof.
  intro Hs. unfold use_secs. destruct (secs_ok secs size used) eqn:E.
  - unfold secs_ok in E. apply andb_true_iff in E as [E E3]. apply andb_true_iff in E as [E1 E2].
    split; [exact E1|]. split.
    + intros n Hn Hu. unfold secs_cover in E2. rewrite forallb_forall in E2.
      assert (Hin : In n (range_N 0 (N.to_nat size))) by (apply range_N_In; rewrite N2Nat.id; lia).
      specialize (E2 n Hin). rewrite Hu in E2. cbn [negb orb] in E2. apply existsb_exists in E2 as [[f c] [K1 K2]].
      cbn [fst snd] in K2. apply andb_true_iff in K2 as [K2 K3]. apply N.leb_le in K2. apply N.ltb_lt in K3. eauto.
    + intros f c Hin. split; [eapply secs_increasing_c; eassumption|].
      rewrite forallb_forall in E3. specialize (E3 (f, c) Hin). cbn [fst snd] in E3. apply N.leb_le. exact E3.
  - split; [cbn [secs_increasing]; apply andb_true_iff; split; [apply andb_true_iff; split; apply N.leb_le; lia | reflexivity]|].
    split.
    + intros n Hn _. exists 0, size. split; [left; reflexivity|lia].
    + intros f c [K|[]]. inversion K; subst. lia.
Qed.

(* the built sections are sections a table can hold *)
Lemma build_tsecs_ok entry all size : (forall k, tentry_ok (entry k)) -> size <= u32_max -> forall secs eols seols ssp,
  (forall f c, In (f, c) secs -> 1 <= c /\ f + c <= size) ->
  Forall tsec_ok (build_tsecs secs entry eols all seols ssp).
Proof.
  intros He Hsz. induction secs as [|[f c] secs IH]; intros eols seols ssp H; [constructor|].
  cbn [build_tsecs]. constructor; [|apply IH; intros; apply H; right; assumption].
  destruct (H f c (or_introl eq_refl)) as [H1 H2].
  assert (Hlen : length (combine (map entry (range_N f (N.to_nat c))) (map eol2_of (cyc (N.to_nat c) eols all 1))) = N.to_nat c).
  { rewrite combine_length, !map_length, range_N_length, cyc_length. lia. }
  unfold tsec_ok. cbn [ts_entries ts_first]. rewrite Hlen, N2Nat.id. repeat split.
  - apply Forall_forall. intros [e el] Hin. cbn [fst]. apply in_combine_l in Hin. apply in_map_iff in Hin as [k [<- _]]. apply He.
  - intro E. rewrite E in Hlen. cbn [length] in Hlen. lia.
  - unfold u32_max, two32 in *. lia.
  - unfold u32_max, two32 in *. lia.
Qed.

Lemma build_tsecs_ne entry all secs eols seols ssp : secs <> [] -> build_tsecs secs entry eols all seols ssp <> [].
Proof. destruct secs as [|[f c] secs]; [contradiction|discriminate]. Qed.

(* ======================================================================================================
   Part 4: small facts used by the assembly
   ====================================================================================================== *)
Lemma ordered_In (order : list N) (tops : list top) x : In x (ordered order tops) <-> In x tops.
Proof.
  unfold ordered. set (ord := nodup N.eq_dec order). rewrite in_app_iff, in_flat_map. split.
  - intros [[n [_ H]]|H]; [unfold take_num in H; apply filter_In in H; tauto | apply filter_In in H; tauto].
  - intro H. destruct (mem_N (fst (fst (fst x))) ord) eqn:E.
    + left. unfold mem_N in E. apply existsb_exists in E as [n [Hn En]]. apply N.eqb_eq in En. subst n.
      exists (fst (fst (fst x))). split; [exact Hn|]. unfold take_num. apply filter_In. split; [exact H|apply N.eqb_refl].
    + right. apply filter_In. split; [exact H|]. cbv beta. apply negb_true_iff. exact E.
Qed.

Lemma unique_by_key {A B} (f : A -> B) : forall l x y, NoDup (map f l) -> In x l -> In y l -> f x = f y -> x = y.
Proof.
  induction l as [|z l IH]; intros x y Hnd Hx Hy E; [contradiction|]. cbn [map] in Hnd. inversion Hnd as [|? ? Hn Hnd']; subst.
  destruct Hx as [->|Hx], Hy as [->|Hy]; try reflexivity.
  - exfalso. apply Hn. rewrite E. apply in_map. exact Hy.
  - exfalso. apply Hn. rewrite <- E. apply in_map. exact Hx.
  - apply IH; assumption.
Qed.

Lemma find_off_exists : forall tops pos t, In t tops -> exists g p, find_off (offs_of pos tops) (top_num t) = Some (g, p).
Proof.
  induction tops as [|t0 tops IH]; intros pos t Hin; [contradiction|]. cbn [offs_of find_off].
  destruct (fst (fst (fst t0)) =? top_num t) eqn:E; [eauto|].
  destruct Hin as [->|Hin]; [unfold top_num in E; rewrite N.eqb_refl in E; discriminate|]. apply IH. exact Hin.
Qed.

Lemma max_num_acc : forall l a, a <= fold_left N.max l a.
Proof. induction l as [|x l IH]; intro a; [cbn; lia|]. cbn [fold_left]. specialize (IH (N.max a x)). lia. Qed.
Lemma max_num_ge_acc : forall l a x, In x l -> x <= fold_left N.max l a.
Proof.
  induction l as [|y l IH]; intros a x H; [contradiction|]. cbn [fold_left]. destruct H as [->|H].
  - pose proof (max_num_acc l (N.max a x)). lia.
  - apply IH. exact H.
Qed.
Lemma max_num_ge l x : In x l -> x <= max_num l.
Proof. apply max_num_ge_acc. Qed.

Lemma dict_get_app_r d k v : dict_get d k = None -> dict_get (d ++ [(k, v)]) k = Some v.
Proof. induction d as [|[k0 v0] d IH]; intro H; cbn [app dict_get] in *; [rewrite bytes_eqb_refl; reflexivity|]. destruct (bytes_eqb k0 k); [discriminate H|apply IH; exact H]. Qed.
Lemma dict_get_app_other d k k' v : bytes_eqb k' k = false -> dict_get (d ++ [(k', v)]) k = dict_get d k.
Proof. intro E. induction d as [|[k0 v0] d IH]; cbn [app dict_get]; [rewrite E; reflexivity|]. destruct (bytes_eqb k0 k); [reflexivity|exact IH]. Qed.

Lemma dict_get_denote_none : forall d sts k, dict_get d k = None -> dict_get (denote_dict d sts) k = None.
Proof.
  induction d as [|[k0 v] d IH]; intros sts k H; [reflexivity|]. cbn [denote_dict dict_get] in *.
  destruct (bytes_eqb k0 k); [discriminate H|apply IH; exact H].
Qed.

Lemma denote_name_inv o y n : denote o y = OName n -> o = OName n.
Proof. destruct o; cbn [denote]; intro H; try discriminate H; exact H. Qed.

Lemma has_type_denote d sts T : has_type d T = false -> has_type (denote_dict d sts) T = false.
Proof.
  unfold has_type. intro H.
  assert (G : forall d sts, dict_get (denote_dict d sts) K_Type = match dict_get d K_Type with Some v => Some (denote v (d_vs (d_hd sts))) | None => None end \/ True) by (intros; right; exact I).
  clear G.
  assert (K : forall n, dict_get (denote_dict d sts) K_Type = Some (OName n) -> dict_get d K_Type = Some (OName n)).
  { clear H. revert sts. induction d as [|[k0 v] d IH]; intros sts n H; [discriminate H|]. cbn [denote_dict dict_get] in *.
    destruct (bytes_eqb k0 K_Type); [|eapply IH; exact H]. inversion H as [H1]. apply denote_name_inv in H1. subst v. reflexivity. }
  destruct (dict_get (denote_dict d sts) K_Type) as [[| | | |n| | | | |]|] eqn:E; try reflexivity.
  rewrite (K n eq_refl) in H. exact H.
Qed.

Lemma dict_get_set_other : forall d k k' v, bytes_eqb k' k = false -> dict_get (dict_set d k' v) k = dict_get d k.
Proof.
  induction d as [|[k0 v0] d IH]; intros k k' v E; cbn [dict_set dict_get].
  - rewrite E. reflexivity.
  - destruct (bytes_eqb k0 k') eqn:E2.
    + apply bytes_eqb_eq in E2. subst k0. cbn [dict_get]. rewrite E. reflexivity.
    + cbn [dict_get]. destruct (bytes_eqb k0 k); [reflexivity|apply IH; exact E].
Qed.

(* ======================================================================================================
   Part 5: the assembly
   ====================================================================================================== *)
Definition loaded_top (tp : top) : obj :=
  match snd (fst tp) with
  | OStream d c => stream_new (denote_dict d (dict_sts (i_obj (snd tp)))) c
  | o => denote o (i_obj (snd tp))
  end.

(* what the theorem asks of one object and its style *)
Definition top_ok (tp : top) : Prop :=
  let '((i, g), o, y) := tp in
  1 <= i /\ g <= u16_max /\
  match o with
  | OStream d c => spell_wf (ODict d) (i_obj y) /\ (nest (ODict d) <= MAX_DEPTH)%nat /\
                   dict_get d K_Length = Some (OInt (Z.of_nat (length c))) /\ has_type d K_ObjStm = false
  | _ => spell_wf o (i_obj y) /\ (nest o <= MAX_DEPTH)%nat
  end.

Lemma has_type_stream_new dd c T : has_type dd T = false -> no_objstm (stream_new dd c) \/ True.
Proof. intros; right; exact I. Qed.

Lemma indirect_top tp post : top_ok tp -> fst (fst (fst tp)) <= u32_max ->
  indirect_object (top_text tp ++ post) None = IOk (fst (fst tp)) (loaded_top tp) /\ no_objstm (loaded_top tp).
Proof.
  destruct tp as [[[i g] o] y]. unfold top_ok, top_text, loaded_top. cbn [fst snd]. intros [H1 [Hg Ho]] Hi.
  rewrite <- app_assoc. destruct o as [| | | | | | | |d c|];
    try (destruct Ho as [Hw Hn]; split; [apply indirect_any_spelling; try assumption; intros d0 c0 K; discriminate K|];
         try exact I; cbn [denote no_objstm]; exact I).
  destruct Ho as [Hw [Hn [HL HT]]]. split; [apply indirect_stream_any_spelling; assumption|].
  unfold stream_new, no_objstm. unfold has_type. rewrite dict_get_set_other by reflexivity.
  apply (has_type_denote d _ K_ObjStm HT).
Qed.

Section TableFile.
  Variable st : fstyle.
  Variable a : adoc.
  Variable t : tstyle.
  Hypothesis Hxt : s_xref st = XTable t.
  Hypothesis Hos : s_ostms st = [].

  Definition nums : list N := map (fun io => fst (fst io)) (a_objs a).
  Definition tops : list top :=
    map (fun io => (fst io, snd io, find_istyle (s_objs st) (fst (fst io)))) (a_objs a).
  Definition otops : list top := ordered (s_order st) tops.
  Definition hdr : bytes := RefWriter.header st (a_version a).
  Definition offs := offs_of (N.of_nat (length hdr)) otops.
  Definition xpos : N := N.of_nat (length hdr + length (body_of otops)).
  Definition size : N := 1 + max_num nums.
  Definition entry : N -> sentry := entry_of offs st.
  Definition usedf (n : N) : bool := (n =? 0) || is_used (entry n).
  Definition secs := use_secs (t_secs t) size usedf.
  Definition tsecs := build_tsecs secs entry (t_eols t) (t_eols t) (t_sec_eols t) (t_sec_sp t).
  Definition trd : dict := a_trailer a ++ [(RefWriter.K_Size, OInt (Z.of_N size))].
  Definition trailer_part : bytes :=
    join [(bs "trailer", t_f1 t); (w_obj (ODict trd) (t_trailer t), t_f2 t); (startxref_text st xpos, [])].
  Definition xr : bytes := table_text (t_kw_eol t) tsecs ++ trailer_part.
  Definition F : bytes := hdr ++ body_of otops ++ xr.

  (* the domain *)
  Hypothesis Hnd : NoDup nums.
  Hypothesis Htops : Forall top_ok tops.
  Hypothesis Hver : no_eolb (a_version a) = true /\ utf8_decode (a_version a) <> None.
  Hypothesis Hjunk : contains (bs "%PDF-") (s_junk st) = false.
  Hypothesis Htr : spell_wf (ODict trd) (t_trailer t) /\ (nest (ODict trd) <= MAX_DEPTH)%nat /\
                   dict_get (a_trailer a) RefWriter.K_Size = None /\ dict_get (a_trailer a) K_Prev = None /\
                   dict_get (a_trailer a) K_Encrypt = None.
  Hypothesis Hsmall : xpos <= u32_max /\ size <= u32_max /\ 25 < xpos.
  Hypothesis Hsx : (9 + length (sx_mid (s_sx_eol1 st) (s_sx_sp1 st) xpos (s_sx_sp2 st) (s_sx_eol2 st)) <= 25)%nat.

  Lemma tops_nums : map top_num tops = nums.
  Proof. unfold tops, nums. rewrite map_map. reflexivity. Qed.

  Lemma otop_in tp : In tp otops <-> In tp tops.
  Proof. apply ordered_In. Qed.

  Lemma otop_unique tp tp' : In tp otops -> In tp' otops -> top_num tp = top_num tp' -> tp = tp'.
  Proof.
    intros H1 H2 E. apply (unique_by_key top_num tops); [rewrite tops_nums; exact Hnd|apply otop_in; exact H1|apply otop_in; exact H2|exact E].
  Qed.

  Lemma otop_ok tp : In tp otops -> top_ok tp /\ 1 <= top_num tp /\ top_num tp <= max_num nums.
  Proof.
    intro H. apply otop_in in H. pose proof (proj1 (Forall_forall _ _) Htops tp H) as Hk. split; [exact Hk|].
    split.
    - destruct tp as [[[i g] o] y]. cbn in Hk. unfold top_num. cbn [fst]. tauto.
    - apply max_num_ge. rewrite <- tops_nums. apply in_map. exact H.
  Qed.

  (* an entry in use names an object of the file, at the position where it is *)
  Lemma entry_inuse n off g : entry n = SInUse off g ->
    exists pre tp post, otops = pre ++ tp :: post /\ fst (fst tp) = (n, g) /\
                        off = N.of_nat (length hdr) + N.of_nat (length (body_of pre)).
  Proof.
    unfold entry, entry_of. destruct (n =? 0); [discriminate|].
    destruct (find_off offs n) as [[g0 p0]|] eqn:Ef.
    - intro H. inversion H; subst. apply find_off_In in Ef. unfold offs in Ef.
      destruct (offs_of_In _ _ _ _ _ Ef) as [pre [o [y [post [E Ep]]]]]. exists pre, ((n, g), o, y), post. auto.
    - rewrite Hos. cbn [find_comp]. discriminate.
  Qed.

  Lemma entry_of_top tp : In tp otops -> exists off, entry (top_num tp) = SInUse off (snd (fst (fst tp))).
  Proof.
    intro H. destruct (otop_ok tp H) as [_ [H1 _]].
    destruct (find_off_exists otops (N.of_nat (length hdr)) tp H) as [g [p Ef]].
    assert (En : entry (top_num tp) = SInUse p g).
    { unfold entry, entry_of. fold offs in Ef. replace (top_num tp =? 0) with false by (symmetry; apply N.eqb_neq; lia).
      rewrite Ef. reflexivity. }
    destruct (entry_inuse _ _ _ En) as [pre [tp' [post [E [Ek _]]]]].
    assert (tp' = tp).
    { apply otop_unique; [rewrite E; apply in_or_app; right; left; reflexivity|exact H|]. unfold top_num. rewrite Ek. reflexivity. }
    subst tp'. exists p. rewrite Ek. cbn [snd]. exact En.
  Qed.

  Lemma entry_tentry_ok k : tentry_ok (entry k).
  Proof.
    destruct (entry k) as [a0 b0|off g|c i] eqn:E.
    - unfold entry, entry_of in E. destruct (k =? 0); [inversion E; subst; cbn; unfold u32_max; lia|].
      destruct (find_off offs k) as [[g0 p0]|]; [discriminate E|]. rewrite Hos in E. cbn [find_comp] in E. inversion E; subst. cbn. unfold u32_max. lia.
    - destruct (entry_inuse _ _ _ E) as [pre [tp [post [Eo [Ek Ep]]]]]. cbn [tentry_ok].
      assert (Hin : In tp otops) by (rewrite Eo; apply in_or_app; right; left; reflexivity).
      destruct (otop_ok tp Hin) as [Hk _]. destruct tp as [[[i g0] o] y]. cbn [fst] in Ek. inversion Ek; subst.
      cbn in Hk. destruct Hk as [_ [Hg _]]. split; [|unfold u16_max in Hg; lia].
      destruct Hsmall as [Hx _]. unfold xpos in Hx. rewrite Eo, body_of_app, app_length in Hx. lia.
    - unfold entry, entry_of in E. destruct (k =? 0); [discriminate E|].
      destruct (find_off offs k) as [[g0 p0]|]; [discriminate E|]. rewrite Hos in E. cbn [find_comp] in E. discriminate E.
  Qed.

  Lemma size_ge : 1 <= size. Proof. unfold size. lia. Qed.
  Lemma secs_are_good : secs_good secs size usedf. Proof. apply use_secs_good, size_ge. Qed.

  Lemma secs_ne : secs <> [].
  Proof.
    destruct secs_are_good as [_ [H _]]. destruct (H 0) as [f [c [Hin _]]]; [pose proof size_ge; lia|reflexivity|].
    intro E. rewrite E in Hin. contradiction.
  Qed.

  Definition numb := map (fun k => (k, entry k)) (keys_of secs).

  Lemma numbered_eq : numbered (tsections_plain tsecs) = numb.
  Proof. unfold tsecs. rewrite build_tsecs_plain. apply numbered_plain. Qed.

  Lemma numb_keys_nodup : NoDup (map fst numb).
  Proof.
    unfold numb. rewrite map_map. cbn [fst]. rewrite map_id.
    destruct secs_are_good as [H _]. apply (keys_increasing secs 0 H).
  Qed.

  Definition x0 : xref := {| x_type := XTTable; x_entries := spec_map numb; x_size := i64_as_u32 (Z.of_N size) |}.
  Definition t0 : dict := denote_dict trd (dict_sts (t_trailer t)).

  Lemma xr_parse : xref_and_trailer_table xr = XOk (x0, t0).
  Proof.
    unfold xref_and_trailer_table, xr.
    assert (Htk : tok_start trailer_part = true) by reflexivity.
    rewrite (xref_table_any_sectioning (t_kw_eol t) tsecs trailer_part).
    2:{ apply build_tsecs_ne, secs_ne. }
    2:{ apply (build_tsecs_ok entry _ size entry_tentry_ok (proj1 (proj2 Hsmall))).
        intros f c Hin. destruct secs_are_good as [_ [_ H]]. apply H. exact Hin. }
    2:{ reflexivity. }
    rewrite (space_tok _ Htk).
    destruct Htr as [Hw [Hn [Hs _]]].
    pose proof (trailer_any_spelling (t_f1 t) (t_f2 t) trd (t_trailer t) (startxref_text st xpos) [] Hw Hn) as Et.
    rewrite !app_nil_r in Et.
    assert (Et' : Xref.trailer trailer_part = POk t0 (startxref_text st xpos)).
    { apply Et; rewrite startxref_text_block; [discriminate|reflexivity]. }
    rewrite Et'.
    assert (Eg : dict_get t0 Xref.K_Size = Some (OInt (Z.of_N size))).
    { change Xref.K_Size with RefWriter.K_Size. unfold t0. apply dict_get_denote. unfold trd. apply dict_get_app_r. exact Hs. }
    rewrite Eg. cbn [x_type x_entries]. rewrite numbered_eq. reflexivity.
  Qed.

  Lemma t0_clean : dict_get t0 K_Prev = None /\ dict_has t0 K_Encrypt = false.
  Proof.
    destruct Htr as [_ [_ [_ [Hp He]]]]. unfold t0, trd. split.
    - apply dict_get_denote_none. rewrite dict_get_app_other by reflexivity. exact Hp.
    - unfold dict_has. rewrite dict_get_denote_none; [reflexivity|]. rewrite dict_get_app_other by reflexivity. exact He.
  Qed.

  (* the entries of the table *)
  Definition E (n : N) : option xentry := entry_meaning (entry n).

  Lemma entries_fun n e : In (n, e) (x_entries x0) -> E n = Some e.
  Proof.
    intro H. cbn [x_entries x0] in H. unfold spec_map in H.
    destruct (spec_map_sound _ _ _ _ H) as [[]|[se [K1 K2]]].
    unfold numb in K1. apply in_map_iff in K1 as [k [Ek _]]. inversion Ek; subst. exact K2.
  Qed.

  Definition objf (n g : N) : obj :=
    match find (fun tp => top_num tp =? n) otops with Some tp => loaded_top tp | None => ONull end.

  Lemma objf_top tp : In tp otops -> objf (top_num tp) (snd (fst (fst tp))) = loaded_top tp.
  Proof.
    intro H. unfold objf. destruct (find (fun tp0 => top_num tp0 =? top_num tp) otops) as [tp'|] eqn:Ef.
    - apply find_some in Ef as [H1 H2]. apply N.eqb_eq in H2. rewrite (otop_unique tp' tp H1 H H2). reflexivity.
    - exfalso. pose proof (find_none _ _ Ef tp H) as K. cbv beta in K. rewrite N.eqb_refl in K. discriminate K.
  Qed.

  Lemma entries_read : forall n off g, In (n, XNormal off g) (x_entries x0) ->
    off <= blen F /\ indirect_object (from off F) None = IOk (n, g) (objf n g) /\ no_objstm (objf n g).
  Proof.
    intros n off g H. pose proof (entries_fun _ _ H) as En. unfold E in En.
    destruct (entry n) as [a0 b0|off' g'|c i] eqn:Ee; cbn [entry_meaning] in En; inversion En; subst off' g'.
    destruct (entry_inuse _ _ _ Ee) as [pre [tp [post [Eo [Ek Ep]]]]].
    assert (Hin : In tp otops) by (rewrite Eo; apply in_or_app; right; left; reflexivity).
    destruct (otop_ok tp Hin) as [Hk [H1 H2]].
    assert (Hn : top_num tp = n) by (unfold top_num; rewrite Ek; reflexivity).
    assert (Hg : snd (fst (fst tp)) = g) by (rewrite Ek; reflexivity).
    assert (Hi : fst (fst (fst tp)) <= u32_max).
    { fold (top_num tp). destruct Hsmall as [_ [Hs _]]. unfold size in Hs. lia. }
    split.
    - subst off. unfold F, blen. rewrite Eo, body_of_app, !app_length. lia.
    - subst off. unfold F. rewrite Eo.
      replace (N.of_nat (length hdr)) with (blen hdr) by reflexivity.
      rewrite from_at_offset.
      destruct (indirect_top tp (body_of post ++ xr) Hk Hi) as [P1 P2].
      rewrite <- Hn, <- Hg, (objf_top tp Hin). rewrite P1. split; [|exact P2]. f_equal. clear. destruct tp as [[[? ?] ?] ?]. reflexivity.
  Qed.

  Lemma max_id_small : xref_max_id x0 < u32_max.
  Proof.
    unfold xref_max_id. apply N.le_lt_trans with (m := max_num nums).
    - apply max_id_le; [lia|]. intros k v H. pose proof (entries_fun _ _ H) as En. unfold E in En.
      destruct (entry k) as [a0 b0|off g|c i] eqn:Ee; cbn [entry_meaning] in En; try discriminate En.
      + destruct (entry_inuse _ _ _ Ee) as [pre [tp [post [Eo [Ek _]]]]].
        assert (Hin : In tp otops) by (rewrite Eo; apply in_or_app; right; left; reflexivity).
        destruct (otop_ok tp Hin) as [_ [_ H2]]. unfold top_num in H2. rewrite Ek in H2. exact H2.
      + exfalso. pose proof (entry_tentry_ok k) as K. rewrite Ee in K. exact K.
    - destruct Hsmall as [_ [Hs _]]. unfold size in Hs. lia.
  Qed.

  (* ---------- the theorem ---------- *)
  Theorem loads_table :
    exists d, load (s_junk st ++ F) = LOk d XTTable /\
      d_version d = a_version a /\ d_trailer d = t0 /\
      (forall tp, In tp tops -> lookup (d_objects d) (fst (fst tp)) = Some (loaded_top tp)) /\
      (forall id o, lookup (d_objects d) id = Some o -> exists tp, In tp tops /\ fst (fst tp) = id).
  Proof.
    set (objs := fold_left (ins objf) (x_entries x0) []).
    assert (Hread : read_entries F (x_entries x0) [] = SOk objs) by (apply read_entries_all; exact entries_read).
    assert (HF : F = (hdr ++ body_of otops) ++ xr) by (unfold F; rewrite app_assoc; reflexivity).
    assert (Hhdr : exists rest, F = bs "%PDF-" ++ a_version a ++ eol_bytes (s_hdr_eol st) ++ rest).
    { unfold F, hdr, RefWriter.header. rewrite <- !app_assoc. eexists. reflexivity. }
    destruct Hhdr as [rest Er].
    destruct t0_clean as [Hp He]. destruct Hsmall as [Hx [Hs H25]].
    eexists. split.
    - apply (load_frame (s_junk st) F (hdr ++ body_of otops) xr (a_version a) x0 t0 objs).
      + rewrite Er. apply pdf_offset_junk. exact Hjunk.
      + exact HF.
      + rewrite Er. apply header_any_eol; apply Hver.
      + assert (Ex : xr =
                     (table_text (t_kw_eol t) tsecs ++ bs "trailer" ++ sep_bytes (bs "trailer") (t_f1 t) (w_obj (ODict trd) (t_trailer t)) ++
                      w_obj (ODict trd) (t_trailer t) ++ sep_bytes (w_obj (ODict trd) (t_trailer t)) (t_f2 t) (startxref_text st xpos)) ++
                     startxref_text st xpos).
        { unfold xr, trailer_part. cbn [join]. change (fill_bytes []) with (@nil byte). rewrite app_nil_r, <- !app_assoc. reflexivity. }
        rewrite HF, Ex, app_assoc, startxref_text_block.
        assert (Eb : blen (hdr ++ body_of otops) = xpos) by (unfold blen, xpos; rewrite app_length; reflexivity).
        rewrite Eb.
        apply get_xref_start_styled; [|unfold blen in *; rewrite !app_length in *; lia|unfold u32_max in Hx; lia|exact Hsx].
        unfold blen. rewrite !app_length. unfold xpos in *. lia.
      + exact xr_parse.
      + exact Hp.
      + exact He.
      + exact max_id_small.
      + exact Hread.
    - cbn [d_version d_trailer d_objects]. split; [reflexivity|]. split.
      { unfold dict_swap_remove, dict_has. rewrite Hp. reflexivity. }
      assert (Hlk : forall id, lookup objs id = if hit E (x_entries x0) id then Some (objf (fst id) (snd id)) else None).
      { intro id. unfold objs. rewrite (lookup_fold_ins objf E _ [] id entries_fun). reflexivity. }
      split.
      + intros tp Hin. apply otop_in in Hin. rewrite Hlk.
        destruct (entry_of_top tp Hin) as [off Ee]. destruct (otop_ok tp Hin) as [_ [H1 H2]].
        assert (Hkey : In (top_num tp) (keys_of secs)).
        { apply keys_of_In. destruct secs_are_good as [_ [Hc _]]. apply Hc; [unfold size; lia|].
          unfold usedf. rewrite Ee. apply orb_true_r. }
        assert (Hxg : xget (x_entries x0) (top_num tp) = Some (XNormal off (snd (fst (fst tp))))).
        { cbn [x_entries x0]. rewrite (xget_spec_map numb (top_num tp) (entry (top_num tp)) numb_keys_nodup).
          - rewrite Ee. reflexivity.
          - unfold numb. apply in_map_iff. exists (top_num tp). split; [reflexivity|exact Hkey]. }
        apply xget_In in Hxg.
        unfold hit. change (fst (fst (fst tp))) with (top_num tp).
        rewrite (xget_some_key _ _ _ Hxg). unfold E. rewrite Ee. cbn [entry_meaning andb]. rewrite N.eqb_refl.
        rewrite (objf_top tp Hin). reflexivity.
      + intros id o Hl. rewrite Hlk in Hl. destruct (hit E (x_entries x0) id) eqn:Eh; [|discriminate Hl].
        unfold hit in Eh. apply andb_true_iff in Eh as [Eh1 Eh2].
        unfold E in Eh2. destruct (entry (fst id)) as [a0 b0|off g|c i] eqn:Ee; cbn [entry_meaning] in Eh2; try discriminate Eh2.
        apply N.eqb_eq in Eh2.
        destruct (entry_inuse _ _ _ Ee) as [pre [tp [post [Eo [Ek _]]]]].
        exists tp. split; [apply otop_in; rewrite Eo; apply in_or_app; right; left; reflexivity|].
        rewrite Ek. destruct id; cbn [fst snd] in *. subst. reflexivity.
  Qed.
End TableFile.

(* ======================================================================================================
   Part 6: the reference writer produces exactly this layout
   ====================================================================================================== *)
Lemma filter_all_true {A} (f : A -> bool) l : (forall x, f x = true) -> filter f l = l.
Proof. intro H. induction l as [|x l IH]; [reflexivity|]. cbn [filter]. rewrite H, IH. reflexivity. Qed.

Lemma nodup_N_spec l : nodup_N l = true -> NoDup l.
Proof.
  induction l as [|x l IH]; intro H; [constructor|]. cbn [nodup_N] in H. apply andb_true_iff in H as [H1 H2].
  constructor; [|apply IH; exact H2]. intro K. apply negb_true_iff in H1. unfold mem_N in H1.
  assert (existsb (N.eqb x) l = true) by (apply existsb_exists; exists x; split; [exact K|apply N.eqb_refl]). congruence.
Qed.

Theorem ref_write_table st a t file :
  s_xref st = XTable t -> s_ostms st = [] -> ref_write st a = Some file ->
  file = s_junk st ++ F st a t /\ NoDup (nums a) /\ ~ In 0 (nums a) /\
  contains (bs "%PDF-") (s_junk st) = false /\ no_eolb (a_version a) = true.
Proof.
  intros Hxt Hos H. unfold ref_write in H. unfold compressed_nums in H. rewrite Hos, Hxt in H.
  cbn [flat_map map containers app] in H. rewrite !app_nil_r in H.
  destruct (contains (bs "%PDF-") (s_junk st) || contains [x0d] (a_version a) || contains [x0a] (a_version a)) eqn:C1; [discriminate H|].
  apply orb_false_iff in C1 as [C1 C1c]. apply orb_false_iff in C1 as [C1a C1b].
  fold (nums a) in H.
  destruct (negb (nodup_N (nums a) && nodup_N [] && negb (mem_N 0 (nums a)))) eqn:C2; [discriminate H|].
  apply negb_false_iff in C2. apply andb_true_iff in C2 as [C2 C2c]. apply andb_true_iff in C2 as [C2a _].
  rewrite filter_all_true in H by (intro; reflexivity).
  rewrite emit_objs_eq in H. inversion H as [Hf]. clear H.
  split; [reflexivity|]. split; [apply nodup_N_spec; exact C2a|]. split.
  - intro K. apply negb_true_iff in C2c. unfold mem_N in C2c.
    assert (existsb (N.eqb 0) (nums a) = true) by (apply existsb_exists; exists 0; split; [exact K|reflexivity]). congruence.
  - split; [exact C1a|]. apply version_no_eol; assumption.
Qed.

Theorem loads_table_file st a t file :
  s_xref st = XTable t -> s_ostms st = [] -> ref_write st a = Some file ->
  Forall top_ok (tops st a) -> utf8_decode (a_version a) <> None ->
  (spell_wf (ODict (trd a)) (t_trailer t) /\ (nest (ODict (trd a)) <= MAX_DEPTH)%nat /\
   dict_get (a_trailer a) RefWriter.K_Size = None /\ dict_get (a_trailer a) K_Prev = None /\
   dict_get (a_trailer a) K_Encrypt = None) ->
  (xpos st a <= u32_max /\ size a <= u32_max /\ 25 < xpos st a) ->
  (9 + length (sx_mid (s_sx_eol1 st) (s_sx_sp1 st) (xpos st a) (s_sx_sp2 st) (s_sx_eol2 st)) <= 25)%nat ->
  exists d, load file = LOk d XTTable /\
    d_version d = a_version a /\ d_trailer d = t0 a t /\
    (forall tp, In tp (tops st a) -> lookup (d_objects d) (fst (fst tp)) = Some (loaded_top tp)) /\
    (forall id o, lookup (d_objects d) id = Some o -> exists tp, In tp (tops st a) /\ fst (fst tp) = id).
Proof.
  intros Hxt Hos Hw Htops Hu Htr Hsmall Hsx.
  destruct (ref_write_table st a t file Hxt Hos Hw) as [-> [Hnd [_ [Hj Hv]]]].
  apply loads_table; try assumption. split; assumption.
Qed.
