(* RenumberProofsIter.v -- C10, part 7: the read-only queries commute with a renaming of the
   reachable part of the document.  If every reachable id resolves, after renaming, to the renamed
   content (the conclusion of renumber_iso), then dereference / get_object / get_dictionary /
   node_type / kids_of and finally page_iter of the new document yield the renamed results of the
   old one: PAGE ORDER IS PRESERVED.  Nothing here depends on how the renaming was computed. *)
From LV Require Import Base.Bytes Model.Obj Model.DocQ Model.PageTree Gen.Consts Spec.RenumberSpec
  Proofs.RenumberProofsMap Proofs.RenumberProofs.

Lemma deref_aux_ref m fuel last i g :
  deref_aux m fuel last (ORef i g) =
  match lookup m (i, g) with
  | None => None
  | Some o' => match fuel with O => None | S f => deref_aux m f (Some (i, g)) o' end
  end.
Proof. destruct fuel; reflexivity. Qed.

Definition is_ref (o : obj) : bool := match o with ORef _ _ => true | _ => false end.

Lemma deref_aux_nonref m fuel last o : is_ref o = false -> deref_aux m fuel last o = Some (last, o).
Proof. destruct fuel; destruct o; cbn; intro H; try reflexivity; discriminate. Qed.

Lemma rename_is_ref f o : is_ref (rename f o) = is_ref o.
Proof. destruct o; reflexivity. Qed.

Lemma rename_ref f i g : rename f (ORef i g) = ORef (fst (f (i, g))) (snd (f (i, g))).
Proof. reflexivity. Qed.

Lemma dict_get_rename f d k : dict_get (rename_dict f d) k = option_map (rename f) (dict_get d k).
Proof.
  unfold rename_dict. induction d as [|[k' v] d IH]; cbn [map dict_get fst snd]; [reflexivity|].
  destruct (bytes_eqb k' k); [reflexivity | exact IH].
Qed.

Lemma dict_has_rename f d k : dict_has (rename_dict f d) k = dict_has d k.
Proof. unfold dict_has. rewrite dict_get_rename. destruct (dict_get d k); reflexivity. Qed.

Lemma get_type_rename f d : get_type (rename_dict f d) = get_type d.
Proof.
  unfold get_type. rewrite dict_get_rename, dict_has_rename.
  destruct (dict_get d K_Type) as [o|]; [|reflexivity]. destruct o; reflexivity.
Qed.

Lemma dict_get_refs d k v : dict_get d k = Some v -> forall r, In r (refs_of v) -> In r (refs_of_dict d).
Proof.
  unfold refs_of_dict. induction d as [|[k' v'] d IH]; cbn [dict_get flat_map snd]; [discriminate|].
  destruct (bytes_eqb k' k).
  - intro H; inversion H; subst. intros r Hr. apply in_app_iff. left; exact Hr.
  - intros H r Hr. apply in_app_iff. right. eapply IH; eauto.
Qed.

Section Sim.
  Variable tr : dict.
  Variables m m' : objmap.
  Variable rho : oid -> oid.
  Hypothesis Hobj : forall id, reach tr m id -> lookup m' (rho id) = option_map (rename rho) (lookup m id).

  (* every reference held by the object is reachable *)
  Definition okr (o : obj) : Prop := forall r, In r (refs_of o) -> reach tr m r.

  Definition ren_res (p : option oid * obj) : option oid * obj := (option_map rho (fst p), rename rho (snd p)).

  Lemma deref_sim : forall fuel last o, okr o ->
    deref_aux m' fuel (option_map rho last) (rename rho o) = option_map ren_res (deref_aux m fuel last o) /\
    (forall l o', deref_aux m fuel last o = Some (l, o') -> okr o').
  Proof.
    induction fuel as [|fuel IH]; intros last o Hok.
    - destruct (is_ref o) eqn:Er.
      + destruct o; try discriminate. rewrite rename_ref, !deref_aux_ref, <- surjective_pairing.
        rewrite Hobj by (apply Hok; left; reflexivity). destruct (lookup m (id, gen)); cbn [option_map]; split; auto; discriminate.
      + rewrite (deref_aux_nonref m 0 last o Er), (deref_aux_nonref m' 0) by (rewrite rename_is_ref; exact Er).
        split; [reflexivity|]. intros l o' H; inversion H; subst; exact Hok.
    - destruct (is_ref o) eqn:Er.
      + destruct o; try discriminate. rewrite rename_ref, !deref_aux_ref, <- surjective_pairing.
        rewrite Hobj by (apply Hok; left; reflexivity). destruct (lookup m (id, gen)) as [o1|] eqn:El; cbn [option_map].
        * apply (IH (Some (id, gen)) o1). intros r Hr. eapply reach_step; [apply Hok; left; reflexivity | exact El | exact Hr].
        * split; [reflexivity | discriminate].
      + rewrite (deref_aux_nonref m (S fuel) last o Er), (deref_aux_nonref m' (S fuel)) by (rewrite rename_is_ref; exact Er).
        split; [reflexivity|]. intros l o' H; inversion H; subst; exact Hok.
  Qed.

  Lemma dereference_sim o : okr o ->
    option_map snd (dereference m' (rename rho o)) = option_map (rename rho) (option_map snd (dereference m o)) /\
    (forall o', option_map snd (dereference m o) = Some o' -> okr o').
  Proof.
    intro Hok. unfold dereference. destruct (deref_sim (N.to_nat DEREF_LIMIT) None o Hok) as [E K].
    cbn [option_map] in E. rewrite E. destruct (deref_aux m (N.to_nat DEREF_LIMIT) None o) as [[l o1]|]; cbn [option_map ren_res snd].
    - split; [reflexivity|]. intros o' H; inversion H; subst. eapply K; reflexivity.
    - split; [reflexivity | discriminate].
  Qed.

  Lemma get_object_sim id : reach tr m id ->
    get_object m' (rho id) = option_map (rename rho) (get_object m id) /\
    (forall o, get_object m id = Some o -> okr o).
  Proof.
    intro Hr. unfold get_object. rewrite Hobj by exact Hr. destruct (lookup m id) as [o|] eqn:El; cbn [option_map].
    - apply dereference_sim. intros r Hin. eapply reach_step; eauto.
    - split; [reflexivity | discriminate].
  Qed.

  Lemma get_dictionary_sim id : reach tr m id ->
    get_dictionary m' (rho id) = option_map (rename_dict rho) (get_dictionary m id) /\
    (forall d, get_dictionary m id = Some d -> okr (ODict d)).
  Proof.
    intro Hr. unfold get_dictionary. destruct (get_object_sim id Hr) as [E K]. rewrite E.
    destruct (get_object m id) as [o|]; cbn [option_map]; [|split; [reflexivity | discriminate]].
    destruct o; cbn [rename option_map]; try (split; [reflexivity | discriminate]).
    split; [reflexivity|]. intros d0 H; inversion H; subst. apply K. reflexivity.
  Qed.

  Lemma okr_dict_get d k v : okr (ODict d) -> dict_get d k = Some v -> okr v.
  Proof. intros Hok H r Hr. apply Hok. cbn [refs_of]. exact (dict_get_refs d k v H r Hr). Qed.

  Lemma get_deref_sim d k : okr (ODict d) ->
    get_deref m' (rename_dict rho d) k = option_map (rename rho) (get_deref m d k) /\
    (forall o, get_deref m d k = Some o -> okr o).
  Proof.
    intro Hok. unfold get_deref. rewrite dict_get_rename. destruct (dict_get d k) as [v|] eqn:E; cbn [option_map].
    - apply dereference_sim. eapply okr_dict_get; eauto.
    - split; [reflexivity | discriminate].
  Qed.

  Lemma node_type_sim id : reach tr m id -> node_type m' (rho id) = node_type m id.
  Proof.
    intro Hr. unfold node_type. destruct (get_dictionary_sim id Hr) as [E _]. rewrite E.
    destruct (get_dictionary m id) as [d|]; cbn [option_map]; [|reflexivity]. rewrite get_type_rename. reflexivity.
  Qed.

  Lemma okr_arr l : okr (OArr l) -> Forall okr l.
  Proof.
    intro H. apply Forall_forall. intros x Hx r Hr. apply H. cbn [refs_of]. apply in_flat_map. exists x. auto.
  Qed.

  Lemma kids_of_sim id : reach tr m id ->
    kids_of m' (rho id) = map (rename rho) (kids_of m id) /\ Forall okr (kids_of m id).
  Proof.
    intro Hr. unfold kids_of. destruct (get_dictionary_sim id Hr) as [E K]. rewrite E.
    destruct (get_dictionary m id) as [d|]; cbn [option_map]; [|split; [reflexivity | constructor]].
    destruct (get_deref_sim d K_Kids (K d eq_refl)) as [E2 K2]. rewrite E2.
    destruct (get_deref m d K_Kids) as [o|]; cbn [option_map]; [|split; [reflexivity | constructor]].
    destruct o; cbn [rename]; try (split; [reflexivity | constructor]).
    split; [reflexivity|]. apply okr_arr. apply K2. reflexivity.
  Qed.

  Definition ren_pop (p : obj * list obj * list (list obj)) : obj * list obj * list (list obj) :=
    let '(k, rest, st) := p in (rename rho k, map (rename rho) rest, map (map (rename rho)) st).

  Lemma pop_sim : forall st kids,
    pop_nonempty (map (rename rho) kids) (map (map (rename rho)) st) = option_map ren_pop (pop_nonempty kids st).
  Proof.
    induction st as [|s st IH]; intros [|k rest]; cbn [pop_nonempty map option_map ren_pop]; try reflexivity. apply IH.
  Qed.

  Lemma pop_ok : forall st kids k rest st',
    Forall okr kids -> Forall (Forall okr) st -> pop_nonempty kids st = Some (k, rest, st') ->
    okr k /\ Forall okr rest /\ Forall (Forall okr) st'.
  Proof.
    induction st as [|s st IH]; intros [|k0 rest0] k rest st' Hk Hs; cbn [pop_nonempty]; intro H; try discriminate.
    - inversion H; subst. inversion Hk; subst. auto.
    - inversion Hs; subst. eapply IH; eauto.
    - inversion H; subst. inversion Hk; subst. auto.
  Qed.

  Lemma push_rest_sim rest st :
    push_rest (map (rename rho) rest) (map (map (rename rho)) st) = map (map (rename rho)) (push_rest rest st).
  Proof. destruct rest; reflexivity. Qed.

  Lemma push_rest_ok rest st : Forall okr rest -> Forall (Forall okr) st -> Forall (Forall okr) (push_rest rest st).
  Proof. destruct rest; cbn [push_rest]; auto. Qed.

  Lemma iter_S l mm kids st :
    iter (S l) mm kids st =
    match pop_nonempty kids st with
    | None => []
    | Some (kid, rest, st') =>
      match kid with
      | ORef i g =>
        match node_type mm (i, g) with
        | NPage => (i, g) :: iter l mm rest st'
        | NPages => if (N.of_nat (length st') <? PAGE_TREE_DEPTH_LIMIT)%N
                    then iter l mm (kids_of mm (i, g)) (push_rest rest st')
                    else iter l mm rest st'
        | NOther => iter l mm rest st'
        end
      | _ => iter l mm rest st'
      end
    end.
  Proof. reflexivity. Qed.

  Lemma iter_sim : forall limit kids st,
    Forall okr kids -> Forall (Forall okr) st ->
    iter limit m' (map (rename rho) kids) (map (map (rename rho)) st) = map rho (iter limit m kids st).
  Proof.
    induction limit as [|l IH]; intros kids st Hk Hs; [reflexivity|].
    rewrite !iter_S, pop_sim. destruct (pop_nonempty kids st) as [[[k rest] st']|] eqn:E; cbn [option_map ren_pop]; [|reflexivity].
    destruct (pop_ok _ _ _ _ _ Hk Hs E) as [Ok [Orest Ost]].
    destruct (is_ref k) eqn:Er.
    - destruct k; try discriminate. rewrite rename_ref, <- surjective_pairing.
      assert (Hr : reach tr m (id, gen)) by (apply Ok; left; reflexivity).
      rewrite (node_type_sim _ Hr). destruct (node_type m (id, gen)).
      + cbn [map]. f_equal. apply IH; assumption.
      + rewrite map_length. destruct (N.of_nat (length st') <? PAGE_TREE_DEPTH_LIMIT)%N; [|apply IH; assumption].
        destruct (kids_of_sim _ Hr) as [Ek Okids]. rewrite Ek, push_rest_sim. apply IH; [exact Okids | apply push_rest_ok; assumption].
      + apply IH; assumption.
    - destruct k; try discriminate; cbn [rename]; apply IH; assumption.
  Qed.
End Sim.

(* page order is preserved by any renaming that is an isomorphism on the reachable part *)
Theorem page_iter_sim (d d' : doc) (rho : oid -> oid) :
  d_trailer d' = rename_dict rho (d_trailer d) ->
  (forall id, reach (d_trailer d) (d_objects d) id ->
              lookup (d_objects d') (rho id) = option_map (rename rho) (lookup (d_objects d) id)) ->
  length (d_objects d') = length (d_objects d) ->
  page_iter d' = map rho (page_iter d).
Proof.
  intros Htr Hobj Hlen. unfold page_iter, catalog. rewrite Htr, dict_get_rename.
  destruct (dict_get (d_trailer d) K_Root) as [o|] eqn:Eroot; cbn [option_map]; [|reflexivity].
  destruct (is_ref o) eqn:Er; [|destruct o; try discriminate; reflexivity].
  destruct o; try discriminate. rewrite rename_ref, <- surjective_pairing.
  assert (Hr : reach (d_trailer d) (d_objects d) (id, gen)).
  { apply reach_root. eapply dict_get_refs; [exact Eroot | left; reflexivity]. }
  destruct (get_dictionary_sim _ _ _ _ Hobj _ Hr) as [E K]. rewrite E.
  destruct (get_dictionary (d_objects d) (id, gen)) as [cat|]; cbn [option_map]; [|reflexivity].
  rewrite dict_get_rename. destruct (dict_get cat K_Pages) as [p|] eqn:Ep; cbn [option_map]; [|reflexivity].
  destruct (is_ref p) eqn:Erp; [|destruct p; try discriminate; reflexivity].
  destruct p; try discriminate. rewrite rename_ref, <- surjective_pairing.
  assert (Hr2 : reach (d_trailer d) (d_objects d) (id0, gen0)).
  { eapply (okr_dict_get _ _ cat K_Pages); [apply K; reflexivity | exact Ep | left; reflexivity]. }
  destruct (kids_of_sim _ _ _ _ Hobj _ Hr2) as [Ek Okids]. rewrite Ek, Hlen.
  apply (iter_sim _ _ _ _ Hobj (length (d_objects d)) (kids_of (d_objects d) (id0, gen0)) []); [exact Okids | constructor].
Qed.

(* ================= the same for a renaming that writes dangling references as null =================
   (dense pass since the repair of C10/dangling-in-range).  A reference that named no object made
   dereference fail with ObjectNotFound; afterwards the value is the null object, which every query
   used by page_iter treats like the failure: not a dictionary, not an array. *)
Lemma rename_o_nonref a o : is_ref o = false -> is_ref (rename_o a o) = false.
Proof. destruct o; cbn; intro H; try reflexivity; discriminate. Qed.

Lemma dict_get_rename_o a d k : dict_get (rename_dict_o a d) k = option_map (rename_o a) (dict_get d k).
Proof.
  unfold rename_dict_o. induction d as [|[k' v] d IH]; cbn [map dict_get fst snd]; [reflexivity|].
  destruct (bytes_eqb k' k); [reflexivity | exact IH].
Qed.

Lemma dict_has_rename_o a d k : dict_has (rename_dict_o a d) k = dict_has d k.
Proof. unfold dict_has. rewrite dict_get_rename_o. destruct (dict_get d k); reflexivity. Qed.

Lemma get_type_rename_o a d : get_type (rename_dict_o a d) = get_type d.
Proof.
  unfold get_type. rewrite dict_get_rename_o, dict_has_rename_o.
  destruct (dict_get d K_Type) as [o|]; [|reflexivity]. destruct o; try reflexivity.
  cbn [option_map rename_o]. destruct (a (id, gen)); reflexivity.
Qed.

Lemma node_type_dangling m id : lookup m id = None -> node_type m id = NOther.
Proof. intro H. unfold node_type, get_dictionary, get_object. rewrite H. reflexivity. Qed.

Lemma kids_of_dangling m id : lookup m id = None -> kids_of m id = [].
Proof. intro H. unfold kids_of, get_dictionary, get_object. rewrite H. reflexivity. Qed.

Lemma iter_nil limit m : iter limit m [] [] = [].
Proof. destruct limit; reflexivity. Qed.

Section SimO.
  Variable tr : dict.
  Variables m m' : objmap.
  Variable rho : oid -> oid.
  Let a := live m rho.
  Hypothesis Hobj : forall id, reach tr m id -> has_obj m id ->
    lookup m' (rho id) = option_map (rename_o a) (lookup m id).

  Notation okr := (okr tr m).

  (* the result of a query before (r) and after (r'): the renamed value; a failure stays a failure or becomes null *)
  Definition qres (r r' : option obj) : Prop :=
    match r with Some o => r' = Some (rename_o a o) | None => r' = None \/ r' = Some ONull end.

  Lemma deref_sim_o : forall fuel last o, okr o ->
    match deref_aux m fuel last o with
    | Some (l, o') => deref_aux m' fuel (option_map rho last) (rename_o a o) = Some (option_map rho l, rename_o a o') /\
                      okr o' /\ is_ref o' = false
    | None => qres None (option_map snd (deref_aux m' fuel (option_map rho last) (rename_o a o)))
    end.
  Proof.
    induction fuel as [|fuel IH]; intros last o Hok.
    - destruct (is_ref o) eqn:Er.
      + destruct o; try discriminate. rewrite deref_aux_ref.
        destruct (lookup m (id, gen)) as [o1|] eqn:El.
        * assert (Ea : rename_o a (ORef id gen) = ORef (fst (rho (id, gen))) (snd (rho (id, gen))))
            by (cbn [rename_o]; unfold a, live; rewrite El; reflexivity).
          rewrite Ea, deref_aux_ref, <- surjective_pairing.
          rewrite Hobj by (try (apply Hok; left; reflexivity); eapply lookup_has; eauto). rewrite El. cbn. left; reflexivity.
        * assert (Ea : rename_o a (ORef id gen) = ONull) by (cbn [rename_o]; unfold a, live; rewrite El; reflexivity).
          rewrite Ea, deref_aux_nonref by reflexivity. cbn. right; reflexivity.
      + rewrite (deref_aux_nonref m 0 last o Er), (deref_aux_nonref m' 0) by (apply rename_o_nonref; exact Er). auto.
    - destruct (is_ref o) eqn:Er.
      + destruct o; try discriminate. rewrite deref_aux_ref.
        destruct (lookup m (id, gen)) as [o1|] eqn:El.
        * assert (Ea : rename_o a (ORef id gen) = ORef (fst (rho (id, gen))) (snd (rho (id, gen))))
            by (cbn [rename_o]; unfold a, live; rewrite El; reflexivity).
          rewrite Ea, deref_aux_ref, <- surjective_pairing.
          rewrite Hobj by (try (apply Hok; left; reflexivity); eapply lookup_has; eauto). rewrite El. cbn [option_map].
          apply (IH (Some (id, gen)) o1). intros r Hr. eapply reach_step; [apply Hok; left; reflexivity | exact El | exact Hr].
        * assert (Ea : rename_o a (ORef id gen) = ONull) by (cbn [rename_o]; unfold a, live; rewrite El; reflexivity).
          rewrite Ea, deref_aux_nonref by reflexivity. cbn. right; reflexivity.
      + rewrite (deref_aux_nonref m (S fuel) last o Er), (deref_aux_nonref m' (S fuel)) by (apply rename_o_nonref; exact Er). auto.
  Qed.

  Lemma dereference_sim_o o : okr o ->
    qres (option_map snd (dereference m o)) (option_map snd (dereference m' (rename_o a o))) /\
    (forall o', option_map snd (dereference m o) = Some o' -> okr o' /\ is_ref o' = false).
  Proof.
    intro Hok. unfold dereference. pose proof (deref_sim_o (N.to_nat DEREF_LIMIT) None o Hok) as H.
    cbn [option_map] in H. destruct (deref_aux m (N.to_nat DEREF_LIMIT) None o) as [[l o1]|]; cbn [option_map snd].
    - destruct H as [E K]. rewrite E. cbn [option_map snd qres]. split; [reflexivity|]. intros o' Ho; inversion Ho; subst; exact K.
    - split; [exact H | discriminate].
  Qed.

  Lemma get_object_sim_o id : reach tr m id -> has_obj m id ->
    qres (get_object m id) (get_object m' (rho id)) /\
    (forall o, get_object m id = Some o -> okr o /\ is_ref o = false).
  Proof.
    intros Hr Hh. unfold get_object. rewrite Hobj by assumption. destruct (has_lookup m id Hh) as [o El]. rewrite El. cbn [option_map].
    apply dereference_sim_o. intros r Hin. eapply reach_step; eauto.
  Qed.

  Lemma get_dictionary_sim_o id : reach tr m id -> has_obj m id ->
    get_dictionary m' (rho id) = option_map (rename_dict_o a) (get_dictionary m id) /\
    (forall d, get_dictionary m id = Some d -> okr (ODict d)).
  Proof.
    intros Hr Hh. unfold get_dictionary. destruct (get_object_sim_o id Hr Hh) as [E K].
    destruct (get_object m id) as [o|]; cbn [qres] in E.
    - rewrite E. destruct (K o eq_refl) as [Ko Kr].
      destruct o; try discriminate; cbn [rename_o option_map]; try (split; [reflexivity | discriminate]).
      split; [reflexivity|]. intros d0 H; inversion H; subst. exact Ko.
    - destruct E as [-> | ->]; cbn [option_map]; (split; [reflexivity | discriminate]).
  Qed.

  Lemma get_deref_sim_o d k : okr (ODict d) ->
    qres (get_deref m d k) (get_deref m' (rename_dict_o a d) k) /\
    (forall o, get_deref m d k = Some o -> okr o /\ is_ref o = false).
  Proof.
    intro Hok. unfold get_deref. rewrite dict_get_rename_o. destruct (dict_get d k) as [v|] eqn:E; cbn [option_map].
    - apply dereference_sim_o. eapply okr_dict_get; eauto.
    - split; [left; reflexivity | discriminate].
  Qed.

  Lemma node_type_sim_o id : reach tr m id -> has_obj m id -> node_type m' (rho id) = node_type m id.
  Proof.
    intros Hr Hh. unfold node_type. destruct (get_dictionary_sim_o id Hr Hh) as [E _]. rewrite E.
    destruct (get_dictionary m id) as [d|]; cbn [option_map]; [|reflexivity]. rewrite get_type_rename_o. reflexivity.
  Qed.

  Lemma kids_of_sim_o id : reach tr m id -> has_obj m id ->
    kids_of m' (rho id) = map (rename_o a) (kids_of m id) /\ Forall okr (kids_of m id).
  Proof.
    intros Hr Hh. unfold kids_of. destruct (get_dictionary_sim_o id Hr Hh) as [E K]. rewrite E.
    destruct (get_dictionary m id) as [d|]; cbn [option_map]; [|split; [reflexivity | constructor]].
    destruct (get_deref_sim_o d K_Kids (K d eq_refl)) as [E2 K2].
    destruct (get_deref m d K_Kids) as [o|]; cbn [qres] in E2.
    - rewrite E2. destruct (K2 o eq_refl) as [Ko Kr].
      destruct o; try discriminate; cbn [rename_o]; try (split; [reflexivity | constructor]).
      split; [reflexivity|]. apply okr_arr. exact Ko.
    - destruct E2 as [-> | ->]; (split; [reflexivity | constructor]).
  Qed.

  Definition ren_pop_o (p : obj * list obj * list (list obj)) : obj * list obj * list (list obj) :=
    let '(k, rest, st) := p in (rename_o a k, map (rename_o a) rest, map (map (rename_o a)) st).

  Lemma pop_sim_o : forall st kids,
    pop_nonempty (map (rename_o a) kids) (map (map (rename_o a)) st) = option_map ren_pop_o (pop_nonempty kids st).
  Proof.
    induction st as [|s st IH]; intros [|k rest]; cbn [pop_nonempty map option_map ren_pop_o]; try reflexivity. apply IH.
  Qed.

  Lemma push_rest_sim_o rest st :
    push_rest (map (rename_o a) rest) (map (map (rename_o a)) st) = map (map (rename_o a)) (push_rest rest st).
  Proof. destruct rest; reflexivity. Qed.

  Lemma iter_sim_o : forall limit kids st,
    Forall okr kids -> Forall (Forall okr) st ->
    iter limit m' (map (rename_o a) kids) (map (map (rename_o a)) st) = map rho (iter limit m kids st).
  Proof.
    induction limit as [|l IH]; intros kids st Hk Hs; [reflexivity|].
    rewrite !iter_S, pop_sim_o. destruct (pop_nonempty kids st) as [[[k rest] st']|] eqn:E; cbn [option_map ren_pop_o]; [|reflexivity].
    destruct (pop_ok _ _ _ _ _ _ _ Hk Hs E) as [Ok [Orest Ost]].
    destruct (is_ref k) eqn:Er.
    - destruct k; try discriminate.
      assert (Hr : reach tr m (id, gen)) by (apply Ok; left; reflexivity).
      cbn [rename_o]. unfold a at 1, live. destruct (lookup m (id, gen)) as [o1|] eqn:El.
      + assert (Hh : has_obj m (id, gen)) by (eapply lookup_has; eauto).
        unfold ref_obj. rewrite <- surjective_pairing.
        rewrite (node_type_sim_o _ Hr Hh). destruct (node_type m (id, gen)).
        * cbn [map]. f_equal. apply IH; assumption.
        * rewrite map_length. destruct (N.of_nat (length st') <? PAGE_TREE_DEPTH_LIMIT)%N; [|apply IH; assumption].
          destruct (kids_of_sim_o _ Hr Hh) as [Ek Okids]. rewrite Ek, push_rest_sim_o. apply IH; [exact Okids | apply push_rest_ok; assumption].
        * apply IH; assumption.
      + rewrite (node_type_dangling m _ El). apply IH; assumption.
    - destruct k; try discriminate; cbn [rename_o]; apply IH; assumption.
  Qed.
End SimO.

(* page order is preserved by a renaming of the live ids that writes dangling references as null *)
Theorem page_iter_sim_o (d d' : doc) (rho : oid -> oid) :
  d_trailer d' = rename_dict_o (live (d_objects d) rho) (d_trailer d) ->
  (forall id, reach (d_trailer d) (d_objects d) id -> has_obj (d_objects d) id ->
              lookup (d_objects d') (rho id) = option_map (rename_o (live (d_objects d) rho)) (lookup (d_objects d) id)) ->
  length (d_objects d') = length (d_objects d) ->
  page_iter d' = map rho (page_iter d).
Proof.
  intros Htr Hobj Hlen. unfold page_iter, catalog. rewrite Htr, dict_get_rename_o.
  destruct (dict_get (d_trailer d) K_Root) as [o|] eqn:Eroot; cbn [option_map]; [|reflexivity].
  destruct (is_ref o) eqn:Er; [|destruct o; try discriminate; reflexivity].
  destruct o; try discriminate.
  assert (Hr : reach (d_trailer d) (d_objects d) (id, gen)).
  { apply reach_root. eapply dict_get_refs; [exact Eroot | left; reflexivity]. }
  cbn [rename_o]. unfold live at 1. destruct (lookup (d_objects d) (id, gen)) as [o1|] eqn:El.
  2:{ unfold get_dictionary, get_object. rewrite El. reflexivity. }
  assert (Hh : has_obj (d_objects d) (id, gen)) by (eapply lookup_has; eauto).
  unfold ref_obj. rewrite <- surjective_pairing.
  destruct (get_dictionary_sim_o _ _ _ _ Hobj _ Hr Hh) as [E K]. rewrite E.
  destruct (get_dictionary (d_objects d) (id, gen)) as [cat|]; cbn [option_map]; [|reflexivity].
  rewrite dict_get_rename_o. destruct (dict_get cat K_Pages) as [p|] eqn:Ep; cbn [option_map]; [|reflexivity].
  destruct (is_ref p) eqn:Erp; [|destruct p; try discriminate; reflexivity].
  destruct p; try discriminate.
  assert (Hr2 : reach (d_trailer d) (d_objects d) (id0, gen0)).
  { eapply (okr_dict_get _ _ cat K_Pages); [apply K; reflexivity | exact Ep | left; reflexivity]. }
  cbn [rename_o]. unfold live at 1. destruct (lookup (d_objects d) (id0, gen0)) as [o2|] eqn:El2.
  2:{ rewrite (kids_of_dangling _ _ El2), iter_nil. reflexivity. }
  assert (Hh2 : has_obj (d_objects d) (id0, gen0)) by (eapply lookup_has; eauto).
  unfold ref_obj. rewrite <- surjective_pairing.
  destruct (kids_of_sim_o _ _ _ _ Hobj _ Hr2 Hh2) as [Ek Okids]. rewrite Ek, Hlen.
  apply (iter_sim_o _ _ _ _ Hobj (length (d_objects d)) (kids_of (d_objects d) (id0, gen0)) []); [exact Okids | constructor].
Qed.
