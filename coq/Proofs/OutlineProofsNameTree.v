(* OutlineProofsNameTree.v -- C17: a syntactic sufficient condition for [TocNamed.name_tree_readable].
   Independent description of a well-formed name tree (ISO 32000-1 7.9.6, as far as get_named_destinations reads it):
   the object graph holds a finite tree [t] (Spec/Dfs.v's [ptree] as the shape: PNode = intermediate node whose Kids
   array lists references to its kids, each a dictionary; PLeaf = node without Kids); every node may have a Names array
   of key / value pairs whose keys are strings and whose values are destinations as lopdf reads them (a dictionary with
   D = an array of at least two elements, direct or behind a reference; a reference to such an array) or anything lopdf
   skips (a direct array, a scalar, a reference to something else).
   Then get_named_destinations returns Ok whenever the tree has at most NAME_TREE_DEPTH_LIMIT levels below its root and
   at most objects.len() nodes below its root ([nd_walk_wf], [wf_tree_readable]) -- in particular for every tree whose
   nodes are distinct objects.  So the condition of the read-back theorems holds for ordinary documents; what it excludes
   is listed in notes/C17.md. *)
From LV Require Import Base.Bytes Model.Obj Model.DocQ Model.PageTree Spec.Dfs Proofs.PageTreeProofs Gen.QueryC Model.Toc.
From LV Require Model.Query Model.TocNamed.
Import Query.

Local Open Scope N_scope.

Definition dest_arr (o : obj) : Prop := exists a0 a1 r, o = OArr (a0 :: a1 :: r).

(* a value of the Names array: read as a destination, or skipped *)
Definition value_ok (m : objmap) (v : obj) : Prop :=
  match v with
  | ORef i g =>
    match get_dictionary m (i, g) with
    | Some dd => exists o, dict_get dd Q_D = Some o /\ dest_arr o
    | None => match get_object m (i, g) with Some (OArr a) => dest_arr (OArr a) | _ => True end
    end
  | ODict dd => exists o, dict_get dd Q_D = Some o /\ dest_arr o
  | _ => True
  end.

Fixpoint names_ok (m : objmap) (l : list obj) : Prop :=
  match l with
  | key :: val :: l' => (exists s h, key = OStr s h) /\ value_ok m val /\ names_ok m l'
  | _ => True
  end.

Definition names_part (m : objmap) (tree : dict) : Prop :=
  match dict_get tree Q_Names with
  | None => True
  | Some (OArr l) => names_ok m l
  | Some _ => False
  end.

Fixpoint nt_repr (m : objmap) (t : ptree) (tree : dict) : Prop :=
  names_part m tree /\
  match t with
  | PLeaf _ => dict_get tree K_Kids = None
  | PNode _ ks =>
    dict_get tree K_Kids = Some (OArr (map ref_of ks)) /\
    (fix all (ks : list ptree) : Prop :=
       match ks with
       | [] => True
       | k :: r => (exists kd, get_dictionary m (root_id k) = Some kd /\ nt_repr m k kd) /\ all r
       end) ks
  end.

(* nodes below the root = kid references followed = units of the kid budget spent *)
Fixpoint below (t : ptree) : nat :=
  match t with
  | PLeaf _ => 0
  | PNode _ ks => fold_right (fun k a => S (below k) + a)%nat 0%nat ks
  end.
Definition fbelow (ks : list ptree) : nat := fold_right (fun k a => S (below k) + a)%nat 0%nat ks.

(* levels below the root (an intermediate node with an empty Kids array has none) *)
Fixpoint levels (t : ptree) : nat :=
  match t with
  | PLeaf _ => 0
  | PNode _ ks => fold_right (fun k a => Nat.max (S (levels k)) a) 0%nat ks
  end.
Definition flevels (ks : list ptree) : nat := fold_right (fun k a => Nat.max (S (levels k)) a) 0%nat ks.

Lemma nd_entry_ok nm s h a0 a1 r : nd_entry nm (OStr s h) (a0 :: a1 :: r) = Some (nm_insert nm s (OStr s h, a0, a1)).
Proof. reflexivity. Qed.

Lemma nd_from_dict_ok nm s h dd : (exists o, dict_get dd Q_D = Some o /\ dest_arr o) ->
  exists nm', nd_from_dict nm (OStr s h) dd = Some nm'.
Proof. intros [o [E [a0 [a1 [r ->]]]]]. unfold nd_from_dict. rewrite E. eexists. apply nd_entry_ok. Qed.

Lemma nd_names_ok m : forall l nm, names_ok m l -> exists nm', nd_names m l nm = (nm', true).
Proof.
  fix IH 1. intros [|key [|val l]] nm H; try (eexists; reflexivity).
  cbn [names_ok] in H. destruct H as [[s [h ->]] [Hv Hl]]. cbn [nd_names].
  assert (Step : forall st : option nmap, (exists nm1, st = Some nm1) ->
            exists nm', match st with Some nm1 => nd_names m l nm1 | None => (nm, false) end = (nm', true)).
  { intros st [nm1 ->]. apply IH. exact Hl. }
  assert (Skip : exists nm', nd_names m l nm = (nm', true)) by (apply IH; exact Hl).
  destruct val; try exact Skip.
  - apply (Step (nd_from_dict nm (OStr s h) d)). apply nd_from_dict_ok. exact Hv.
  - cbn [value_ok] in Hv. destruct (get_dictionary m (id, gen)) as [dd|].
    + apply (Step (nd_from_dict nm (OStr s h) dd)). apply nd_from_dict_ok. exact Hv.
    + destruct (get_object m (id, gen)) as [[]|]; try exact Skip.
      destruct Hv as [a0 [a1 [r E]]]. inversion E; subst.
      apply (Step (nd_entry nm (OStr s h) (a0 :: a1 :: r))). eexists. apply nd_entry_ok.
Qed.

Lemma names_part_ok m tree nm1 (b1 : nat) : names_part m tree ->
  exists nm2, match dict_get tree Q_Names with
              | Some (OArr l) => let '(nm2, okb) := nd_names m l nm1 in (nm2, if okb then Ok b1 else Err)
              | Some _ => (nm1, Err)
              | None => (nm1, Ok b1)
              end = (nm2, Ok b1).
Proof.
  unfold names_part. destruct (dict_get tree Q_Names) as [o|]; [|eexists; reflexivity].
  destruct o; try contradiction. intro H. destruct (nd_names_ok m l nm1 H) as [nm2 E]. rewrite E. eexists. reflexivity.
Qed.

Lemma levels_le_below t : (levels t <= below t)%nat.
Proof.
  induction t as [id|id ks IH] using ptree_ind'; [apply le_n|]. cbn [levels below].
  induction IH as [|k ks Hk _ IHks]; [apply le_n|]. cbn [fold_right] in *. lia.
Qed.

(* get_named_destinations_limited on a well-formed tree: Ok, and exactly [below t] units of the kid budget are spent *)
Lemma nd_walk_wf m : forall t tree nm budget depth fuel,
  nt_repr m t tree -> (levels t < fuel)%nat ->
  depth + N.of_nat (levels t) <= NAME_TREE_DEPTH_LIMIT -> (below t <= budget)%nat ->
  exists nm', nd_walk fuel m tree nm budget depth = (nm', Ok (budget - below t)%nat).
Proof.
  induction t as [id|id ks IH] using ptree_ind'; intros tree nm budget depth fuel Hr Hf Hd Hb;
    (destruct fuel as [|f]; [lia|]); cbn [nd_walk]; unfold nd_node, nd_after_kids.
  - destruct Hr as [Hn Hk]. rewrite Hk. cbn [below]. rewrite Nat.sub_0_r. apply names_part_ok. exact Hn.
  - destruct Hr as [Hn [Hk Hall]]. rewrite Hk. cbn [levels] in Hf, Hd. cbn [below] in Hb |- *.
    fold (fbelow ks) in Hb |- *. fold (flevels ks) in Hf, Hd.
    assert (Kids : forall nm0 b0, (fbelow ks <= b0)%nat ->
              exists nm1, nd_kids (fun kd nm' b => nd_walk f m kd nm' b (depth + 1)) m depth (map ref_of ks) nm0 b0
                          = (nm1, Ok (b0 - fbelow ks)%nat)).
    { clear Hk Hb Hn. revert Hall Hf Hd.
      induction IH as [|k ks Hk _ IHks]; intros Hall Hf Hd nm0 b0 Hb0.
      - cbn [map nd_kids fbelow fold_right]. rewrite Nat.sub_0_r. eexists. reflexivity.
      - destruct Hall as [[kd [Hkd Hrk]] Hall]. cbn [flevels fold_right] in Hf, Hd. fold (flevels ks) in Hf, Hd.
        cbn [fbelow fold_right] in Hb0 |- *. fold (fbelow ks) in Hb0 |- *.
        cbn [map nd_kids]. unfold ref_of at 1. destruct (root_id k) as [i g] eqn:Er. cbn [fst snd]. rewrite Hkd.
        destruct b0 as [|b]; [lia|].
        replace (NAME_TREE_DEPTH_LIMIT <=? depth) with false by (symmetry; apply N.leb_gt; lia).
        destruct (Hk kd nm0 b (depth + 1) f Hrk ltac:(lia) ltac:(lia) ltac:(lia)) as [nm1 E1]. rewrite E1.
        destruct (IHks Hall ltac:(lia) ltac:(lia) nm1 (b - below k)%nat ltac:(lia)) as [nm2 E2]. rewrite E2.
        eexists. f_equal. f_equal. lia. }
    destruct (Kids nm budget Hb) as [nm1 E]. rewrite E. apply names_part_ok. exact Hn.
Qed.

Theorem wf_tree_readable d cat tree t :
  catalog d = Some cat -> Toc.named_tree (d_objects d) cat = Some tree ->
  nt_repr (d_objects d) t tree ->
  N.of_nat (levels t) <= NAME_TREE_DEPTH_LIMIT ->
  (below t <= length (d_objects d))%nat ->
  TocNamed.name_tree_readable d = true.
Proof.
  intros Hc Ht Hr Hh Hb. unfold TocNamed.name_tree_readable, TocNamed.named_destinations. rewrite Hc, Ht.
  unfold get_named_destinations, fuel_nd.
  pose proof (levels_le_below t) as Hhb.
  destruct (nd_walk_wf (d_objects d) t tree [] (length (d_objects d)) 0 (length (d_objects d) + 1) Hr ltac:(lia) ltac:(lia) Hb)
    as [nm' E].
  rewrite E. reflexivity.
Qed.

(* a tree whose nodes are pairwise distinct objects fits the budget: [ids t] lists the root and every node below it *)
Lemma below_ids t : S (below t) = length (ids t).
Proof.
  induction t as [id|id ks IH] using ptree_ind'; [reflexivity|]. cbn [below ids length]. f_equal.
  induction IH as [|k ks Hk _ IHks]; [reflexivity|]. cbn [fold_right flat_map]. rewrite app_length, <- Hk, <- IHks. lia.
Qed.

(* non-vacuity: the name tree of OutlineProofsNamedEx.nd_final (root node 5 with one kid, leaf 6 with an indirect
   destination array and a direct dictionary with D) is well formed in this sense *)
From LV Require Proofs.OutlineProofsNamedEx.
Definition nd_shape : ptree := PNode (5, 0) [PLeaf (6, 0)].
Lemma nd_tree_wf :
  exists cat tree,
    catalog OutlineProofsNamedEx.nd_final = Some cat /\
    Toc.named_tree (d_objects OutlineProofsNamedEx.nd_final) cat = Some tree /\
    nt_repr (d_objects OutlineProofsNamedEx.nd_final) nd_shape tree /\
    N.of_nat (levels nd_shape) <= NAME_TREE_DEPTH_LIMIT /\
    (below nd_shape <= length (d_objects OutlineProofsNamedEx.nd_final))%nat.
Proof.
  do 2 eexists. split; [vm_compute; reflexivity|]. split; [vm_compute; reflexivity|].
  split; [|split; [vm_compute; discriminate | vm_compute; lia]].
  split; [exact I|]. split; [reflexivity|]. split; [|exact I].
  eexists. split; [vm_compute; reflexivity|].
  split; [|reflexivity].
  unfold names_part. cbn [dict_get bytes_eqb]. 
  match goal with |- match ?x with _ => _ end => let y := eval vm_compute in x in change x with y end.
  cbn [names_ok]. split; [do 2 eexists; reflexivity|]. split.
  - cbn [value_ok].
    match goal with |- match ?x with _ => _ end => let y := eval vm_compute in x in change x with y end.
    match goal with |- match ?x with _ => _ end => let y := eval vm_compute in x in change x with y end.
    do 3 eexists. reflexivity.
  - split; [do 2 eexists; reflexivity|]. split; [|exact I].
    cbn [value_ok]. eexists. split; [vm_compute; reflexivity|]. do 3 eexists. reflexivity.
Qed.
