(* LoadProofsFile.v -- the loader model on the frame of a saved file: "%PDF-" search, header line,
   binary mark, and get_xref_start (the last-match searches over the tail of the file). *)
From LV Require Import Base.Bytes Base.Sx Model.Obj Model.Writer Model.Parser Model.Save Model.Xref Model.Loader
  Model.Utf Gen.Lex Proofs.LexProofs Proofs.ObjectRtProofs Proofs.SaveProofs Spec.SaveSpec Proofs.LoadProofs.

Local Open Scope N_scope.

(* ---------- from ---------- *)
Lemma from_0 s : from 0 s = s.
Proof. unfold from. replace (Loader.blen s <? 0) with false by (symmetry; apply N.ltb_ge; lia). reflexivity. Qed.

Lemma drop_app_le {A} : forall n (a b : list A), (n <= length a)%nat -> drop n (a ++ b) = drop n a ++ b.
Proof.
  induction n as [|n IH]; intros a b H; [reflexivity|].
  destruct a as [|x a]; [cbn in H; lia|]. cbn [app drop]. apply IH. cbn in H. lia.
Qed.

Lemma drop_length {A} : forall n (a : list A), (n <= length a)%nat -> length (drop n a) = (length a - n)%nat.
Proof.
  induction n as [|n IH]; intros a H; [cbn; lia|].
  destruct a as [|x a]; [cbn in H; lia|]. cbn [drop length]. rewrite IH by (cbn in H; lia). lia.
Qed.

Lemma from_app_le n a b : n <= Loader.blen a -> from n (a ++ b) = from n a ++ b.
Proof.
  unfold from, Loader.blen. intro H. rewrite app_length.
  replace (N.of_nat (length a + length b) <? n) with false by (symmetry; apply N.ltb_ge; lia).
  replace (N.of_nat (length a) <? n) with false by (symmetry; apply N.ltb_ge; lia).
  apply drop_app_le. lia.
Qed.

Lemma from_length n a : n <= Loader.blen a -> Loader.blen (from n a) = Loader.blen a - n.
Proof.
  unfold from, Loader.blen. intro H.
  replace (N.of_nat (length a) <? n) with false by (symmetry; apply N.ltb_ge; lia).
  rewrite drop_length by lia. lia.
Qed.

(* ---------- header ---------- *)
Lemma pdf_offset_header rest : pdf_offset (bs "%PDF-" ++ rest) = 0.
Proof. reflexivity. Qed.

Lemma line_after_rt t v rest :
  no_eol v -> line_after t (t ++ v ++ x0a :: rest) = Some v.
Proof.
  intro Hv. unfold line_after. rewrite ptag_app.
  rewrite (take_while_app not_eol_byte v (x0a :: rest)); [reflexivity | exact Hv | reflexivity].
Qed.

Theorem header_rt v rest :
  no_eol v -> utf8_decode v <> None -> header (bs "%PDF-" ++ v ++ x0a :: rest) = Some v.
Proof.
  intros Hv Hu. unfold header. rewrite line_after_rt by exact Hv.
  destruct (utf8_decode v); [reflexivity | contradiction].
Qed.

(* ---------- binary mark ---------- *)
Definition no_lf (a : bytes) : bool := forallb (fun c => negb (byte_eqb c x0a)) a.

Lemma after_first_lf_app a t : no_lf a = true -> after_first_lf (a ++ x0a :: t) = Some t.
Proof.
  induction a as [|c a IH]; cbn [no_lf forallb app after_first_lf]; intro H; [reflexivity|].
  apply andb_true_iff in H as [H1 H2]. apply negb_true_iff in H1. rewrite H1. apply IH. exact H2.
Qed.

Lemma no_eol_no_lf v : no_eol v -> no_lf v = true.
Proof.
  unfold no_eol, no_lf. induction v as [|c v IH]; cbn [forallb]; intro H; [reflexivity|].
  apply andb_true_iff in H as [H1 H2]. rewrite IH by exact H2. rewrite andb_true_r.
  pose proof (byte_forallb_spec (fun c => is_comment_end c || negb (byte_eqb c x0a)) eq_refl c) as K.
  cbv beta in K. apply negb_true_iff in H1. rewrite H1 in K. exact K.
Qed.

Lemma mark_no_eol m : binary_mark_ok m = true -> no_eol m.
Proof.
  unfold binary_mark_ok, no_eol. induction m as [|c m IH]; cbn [forallb]; intro H; [reflexivity|].
  apply andb_true_iff in H as [H1 H2]. rewrite IH by exact H2. rewrite andb_true_r.
  pose proof (byte_forallb_spec (fun c => negb (128 <=? N_of_byte c) || negb (is_comment_end c)) eq_refl c) as K.
  cbv beta in K. rewrite H1 in K. exact K.
Qed.

Theorem binary_mark_rt v m rest :
  no_eol v -> binary_mark_ok m = true ->
  read_binary_mark (bs "%PDF-" ++ v ++ x0a :: x25 :: m ++ x0a :: rest) = m.
Proof.
  intros Hv Hm. unfold read_binary_mark.
  rewrite app_assoc. rewrite after_first_lf_app.
  2:{ unfold no_lf. rewrite forallb_app. fold (no_lf v). rewrite (no_eol_no_lf v Hv). reflexivity. }
  change (x25 :: m ++ x0a :: rest) with ([x25] ++ m ++ x0a :: rest).
  rewrite line_after_rt by (apply mark_no_eol; exact Hm).
  unfold binary_mark_ok in Hm. rewrite Hm. reflexivity.
Qed.

(* ---------- last-match search ---------- *)
Fixpoint nomatch (pat t : bytes) : bool :=
  match t with
  | [] => true
  | _ :: t' => negb (prefixb pat t) && nomatch pat t'
  end.

Lemma search_last_nomatch pat : forall t pos best, nomatch pat t = true -> search_last_aux t pos pat best = best.
Proof.
  induction t as [|c t IH]; intros pos best H; [reflexivity|].
  cbn [nomatch] in H. apply andb_true_iff in H as [H1 H2]. apply negb_true_iff in H1.
  cbn [search_last_aux]. rewrite H1. apply IH. exact H2.
Qed.

(* the pattern occurs at the end of [s ++ c :: u] and nowhere later: its position is found *)
Lemma search_last_found pat c u : prefixb pat (c :: u) = true -> nomatch pat u = true ->
  forall s pos best, search_last_aux (s ++ c :: u) pos pat best = Some (pos + Loader.blen s).
Proof.
  intros Hp Hn. induction s as [|x s IH]; intros pos best.
  - cbn [app search_last_aux]. rewrite Hp. rewrite search_last_nomatch by exact Hn.
    unfold Loader.blen. cbn [length]. f_equal. lia.
  - cbn [app search_last_aux]. rewrite IH. unfold Loader.blen. cbn [length]. f_equal. lia.
Qed.

Lemma nomatch_first c p t : forallb (fun b => negb (byte_eqb c b)) t = true -> nomatch (c :: p) t = true.
Proof.
  induction t as [|b t IH]; cbn [forallb nomatch]; intro H; [reflexivity|].
  apply andb_true_iff in H as [H1 H2]. rewrite IH by exact H2. rewrite andb_true_r.
  cbn [prefixb]. apply negb_true_iff in H1. rewrite H1. reflexivity.
Qed.

Lemma digits_not_s ds : forallb is_dec_digit ds = true -> forallb (fun b => negb (byte_eqb x73 b)) ds = true.
Proof.
  induction ds as [|c ds IH]; cbn [forallb]; intro H; [reflexivity|].
  apply andb_true_iff in H as [H1 H2]. rewrite IH by exact H2. rewrite andb_true_r.
  pose proof (byte_forallb_spec (fun c => negb (is_dec_digit c) || negb (byte_eqb x73 c)) eq_refl c) as K.
  cbv beta in K. rewrite H1 in K. exact K.
Qed.

Lemma skip_spaces_lf s : skip_spaces (x0a :: s) = x0a :: s.
Proof. reflexivity. Qed.

Lemma not_s_tail n :
  forallb (fun b => negb (byte_eqb x73 b)) (bs "tartxref" ++ x0a :: N_dec n ++ x0a :: bs "%%EOF") = true.
Proof.
  rewrite forallb_app. apply andb_true_iff; split; [reflexivity|].
  cbn [forallb]. apply andb_true_iff; split; [reflexivity|].
  rewrite forallb_app. apply andb_true_iff; split; [apply digits_not_s, N_dec_digits | reflexivity].
Qed.

Lemma Z_dec_of_N n : Z_dec (Z.of_N n) = N_dec n.
Proof. destruct n; reflexivity. Qed.

Lemma skip_spaces_digit ds tail : ds <> [] -> forallb is_dec_digit ds = true -> skip_spaces (ds ++ tail) = ds ++ tail.
Proof.
  intros Hne Hd. destruct ds as [|c t]; [contradiction|]. cbn [forallb] in Hd. apply andb_true_iff in Hd as [Hc _].
  unfold skip_spaces. cbn [app skip_while].
  pose proof (byte_forallb_spec (fun c => negb (is_dec_digit c) || negb (byte_eqb c x20)) eq_refl c) as K.
  cbv beta in K. rewrite Hc in K. cbn [negb orb] in K. apply negb_true_iff in K. rewrite K. reflexivity.
Qed.

(* get_xref_start on  front ++ "\nstartxref\n<n>\n%%EOF"  returns n *)
Theorem get_xref_start_rt front n :
  n <= Loader.blen front -> 25 < Loader.blen front -> n < 10 ^ 14 ->
  get_xref_start (front ++ startxref_bytes n) = Some n.
Proof.
  intros Hn Hfront Hdig.
  set (buf := front ++ startxref_bytes n).
  assert (Ebuf1 : buf = (front ++ x0a :: bs "startxref" ++ x0a :: N_dec n ++ [x0a]) ++ bs "%%EOF").
  { unfold buf, startxref_bytes. repeat (rewrite <- app_assoc; cbn [app]). reflexivity. }
  assert (Ebuf2 : buf = (front ++ [x0a]) ++ bs "startxref" ++ x0a :: N_dec n ++ x0a :: bs "%%EOF").
  { unfold buf, startxref_bytes. repeat (rewrite <- app_assoc; cbn [app]). reflexivity. }
  assert (Hdl : (length (N_dec n) <= 14)%nat) by (apply N_dec_length; [lia | exact Hdig]).
  assert (Hlen : Loader.blen buf = Loader.blen front + 11 + N.of_nat (length (N_dec n)) + 6).
  { pose proof (eq_refl : length (bs "startxref") = 9%nat) as L1. pose proof (eq_refl : length (bs "%%EOF") = 5%nat) as L2.
    unfold buf, startxref_bytes, Loader.blen. repeat (rewrite app_length; cbn [length]). lia. }
  unfold get_xref_start. fold buf.
  set (seek := Loader.blen buf - N.min (Loader.blen buf) 512).
  set (A := front ++ x0a :: bs "startxref" ++ x0a :: N_dec n ++ [x0a]).
  assert (HA : Loader.blen A = Loader.blen buf - 5).
  { pose proof (eq_refl : length (bs "startxref") = 9%nat) as L1.
    rewrite Hlen. unfold A, Loader.blen. repeat (rewrite app_length; cbn [length]). lia. }
  set (F1 := front ++ [x0a]).
  set (tail := x0a :: N_dec n ++ x0a :: bs "%%EOF").
  assert (HB : Loader.blen F1 = Loader.blen front + 1).
  { unfold F1, Loader.blen. rewrite app_length. cbn [length]. lia. }
  assert (E1 : from seek buf = from seek A ++ bs "%%EOF").
  { rewrite Ebuf1. fold A. apply from_app_le. rewrite HA. unfold seek. lia. }
  assert (E2 : from (Loader.blen A - 25) buf = from (Loader.blen A - 25) F1 ++ bs "startxref" ++ tail).
  { rewrite Ebuf2. fold F1. apply from_app_le. rewrite HB, HA, Hlen. lia. }
  assert (E3 : from (Loader.blen F1) buf = bs "startxref" ++ tail).
  { rewrite Ebuf2. fold F1. apply from_app. }
  (* %%EOF *)
  unfold search_substring. rewrite E1.
  change (bs "%%EOF") with (x25 :: bs "%EOF") at 1.
  rewrite (search_last_found (bs "%%EOF") x25 (bs "%EOF") eq_refl eq_refl).
  rewrite from_length by (rewrite HA; unfold seek; lia).
  replace (seek + (Loader.blen A - seek)) with (Loader.blen A) by (rewrite HA; unfold seek; lia).
  replace (25 <? Loader.blen A) with true by (symmetry; apply N.ltb_lt; rewrite HA, Hlen; lia).
  (* startxref *)
  rewrite E2.
  change (bs "startxref" ++ tail) with (x73 :: bs "tartxref" ++ tail).
  rewrite (search_last_found (bs "startxref") x73 (bs "tartxref" ++ tail)).
  2:{ reflexivity. }
  2:{ apply nomatch_first. unfold tail. apply not_s_tail. }
  rewrite from_length by (rewrite HB, HA, Hlen; lia).
  replace (Loader.blen A - 25 + (Loader.blen F1 - (Loader.blen A - 25)))
    with (Loader.blen F1) by (rewrite HB, HA, Hlen; lia).
  rewrite E3. unfold tail.
  (* the startxref line *)
  unfold xref_start_p. rewrite ptag_app. cbn [eol].
  rewrite skip_spaces_digit by (apply N_dec_nonempty || apply N_dec_digits).
  rewrite <- Z_dec_of_N.
  rewrite integer_rt; [| unfold in_i64, i64_min, i64_max; apply andb_true_iff; split; apply Z.leb_le; lia | reflexivity].
  rewrite skip_spaces_lf. cbn [eol]. change (ptag (bs "%%EOF") (bs "%%EOF")) with (POk tt (@nil byte)).
  cbv iota beta.
  replace (Z.of_N n <? 0)%Z with false by (symmetry; apply Z.ltb_ge; lia).
  rewrite N2Z.id.
  replace (Loader.blen buf <? n) with false by (symmetry; apply N.ltb_ge; rewrite Hlen; lia).
  reflexivity.
Qed.

(* ---------- trailer ---------- *)
(* the trailer keyword and dictionary written by write_trailer are read back by parser::trailer *)
Theorem trailer_rt t rest :
  obj_wf (ODict t) -> (nest (ODict t) <= MAX_DEPTH)%nat ->
  Xref.trailer (trailer_bytes t ++ rest) = POk (norm_dict t) (space rest).
Proof.
  intros Hw Hn. unfold Xref.trailer, trailer_bytes, write_dictionary.
  rewrite <- app_assoc. rewrite ptag_app. cbn [pbind app]. rewrite space_lf.
  rewrite space_tok by (rewrite write_dict_eq; reflexivity).
  rewrite (dictionary_entry_rt t rest _ Hw); [reflexivity | | exact Hn].
  unfold fuel_for. rewrite !app_length. cbn [length]. rewrite app_length. lia.
Qed.
