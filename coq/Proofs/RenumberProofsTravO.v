(* RenumberProofsTravO.v -- C10, part 2b: Document::traverse_objects for an action that renames a reference
   or overwrites it with Object::Null (the dense pass since the repair of C10/dangling-in-range).
   Same structure as RenumberProofsTrav.v: trav_obj_o = (rename_o, push the images in order); loop invariant
   of the worklist; [trav_fuel] suffices; the result renames exactly the objects whose id is reachable in the
   mixed graph (an edge leads to the IMAGE of a reference; a reference without image is no edge). *)
From LV Require Import Base.Bytes Model.Obj Model.Traverse Spec.RenumberSpec Proofs.RenumberProofsMap Proofs.RenumberProofsTrav.

(* the images of the ids that have one, in order *)
Definition keep (f : oid -> option oid) (l : list oid) : list oid :=
  flat_map (fun x => match f x with Some y => [y] | None => [] end) l.

Lemma keep_app f l1 l2 : keep f (l1 ++ l2) = keep f l1 ++ keep f l2.
Proof. unfold keep. apply flat_map_app. Qed.

Lemma keep_in f l y : In y (keep f l) <-> exists x, In x l /\ f x = Some y.
Proof.
  unfold keep. rewrite in_flat_map. split.
  - intros [x [Hx Hy]]. exists x. split; [exact Hx|]. destruct (f x); [destruct Hy as [->|[]]; reflexivity | destruct Hy].
  - intros [x [Hx E]]. exists x. split; [exact Hx|]. rewrite E. left; reflexivity.
Qed.

Lemma keep_length f l : length (keep f l) <= length l.
Proof.
  unfold keep. induction l as [|x l IH]; cbn [flat_map length]; [lia|]. rewrite app_length.
  destruct (f x); cbn [length]; lia.
Qed.

(* ---------- trav_obj_o is rename_o + push ---------- *)
Fixpoint trav_list_o (f : oid -> option oid) (l : list obj) (refs : list oid) : list obj * list oid :=
  match l with
  | [] => ([], refs)
  | x :: l0 => let '(x', r1) := trav_obj_o f x refs in let '(l1, r2) := trav_list_o f l0 r1 in (x' :: l1, r2)
  end.

Lemma trav_obj_o_arr f l refs :
  trav_obj_o f (OArr l) refs = let '(l', r') := trav_list_o f l refs in (OArr l', r').
Proof.
  cbn [trav_obj_o].
  match goal with |- (let '(_, _) := ?G l refs in _) = _ => assert (HG : forall l refs, G l refs = trav_list_o f l refs) end.
  { clear. induction l as [|x l IH]; intro refs; cbn [trav_list_o]; [reflexivity|].
    destruct (trav_obj_o f x refs) as [x' r1]. rewrite IH. reflexivity. }
  rewrite HG. reflexivity.
Qed.

Lemma trav_obj_o_dict f d refs :
  trav_obj_o f (ODict d) refs = let '(d', r') := trav_dict_o f d refs in (ODict d', r').
Proof.
  cbn [trav_obj_o].
  match goal with |- (let '(_, _) := ?G d refs in _) = _ => assert (HG : forall d refs, G d refs = trav_dict_o f d refs) end.
  { clear. induction d as [|[k v] d IH]; intro refs; cbn [trav_dict_o]; [reflexivity|].
    destruct (trav_obj_o f v refs) as [x' r1]. rewrite IH. reflexivity. }
  rewrite HG. reflexivity.
Qed.

Lemma trav_obj_o_stream f d c refs :
  trav_obj_o f (OStream d c) refs = let '(d', r') := trav_dict_o f d refs in (OStream d' c, r').
Proof.
  cbn [trav_obj_o].
  match goal with |- (let '(_, _) := ?G d refs in _) = _ => assert (HG : forall d refs, G d refs = trav_dict_o f d refs) end.
  { clear. induction d as [|[k v] d IH]; intro refs; cbn [trav_dict_o]; [reflexivity|].
    destruct (trav_obj_o f v refs) as [x' r1]. rewrite IH. reflexivity. }
  rewrite HG. reflexivity.
Qed.

Lemma trav_dict_o_of_values f d :
  Forall (fun kv => forall refs, trav_obj_o f (snd kv) refs = (rename_o f (snd kv), push_all refs (keep f (refs_of (snd kv))))) d ->
  forall refs, trav_dict_o f d refs = (rename_dict_o f d, push_all refs (keep f (refs_of_dict d))).
Proof.
  induction 1 as [|[k v] d Hv Hd IH]; intro refs; cbn [trav_dict_o rename_dict_o refs_of_dict map flat_map].
  - reflexivity.
  - cbn [snd] in Hv. rewrite Hv. rewrite IH. rewrite keep_app, push_all_app. reflexivity.
Qed.

Lemma trav_obj_o_spec f o : forall refs,
  trav_obj_o f o refs = (rename_o f o, push_all refs (keep f (refs_of o))).
Proof.
  induction o as [|b|z|r|n|s h|l Hl|d Hd|d c Hd|i g] using obj_ind'; intro refs; try reflexivity.
  - rewrite trav_obj_o_arr. cbn [rename_o refs_of].
    assert (HL : forall refs, trav_list_o f l refs = (map (rename_o f) l, push_all refs (keep f (flat_map refs_of l)))).
    { clear refs. induction Hl as [|x l Hx Hl IH]; intro refs; cbn [trav_list_o map flat_map]; [reflexivity|].
      rewrite Hx, IH, keep_app, push_all_app. reflexivity. }
    rewrite HL. reflexivity.
  - rewrite trav_obj_o_dict. rewrite (trav_dict_o_of_values f d Hd). reflexivity.
  - rewrite trav_obj_o_stream. rewrite (trav_dict_o_of_values f d Hd). reflexivity.
  - cbn [trav_obj_o rename_o refs_of]. unfold keep. cbn [flat_map]. destruct (f (i, g)) as [id'|]; reflexivity.
Qed.

Lemma trav_dict_o_spec f d refs :
  trav_dict_o f d refs = (rename_dict_o f d, push_all refs (keep f (refs_of_dict d))).
Proof.
  apply trav_dict_o_of_values. apply Forall_forall. intros kv _ r. apply trav_obj_o_spec.
Qed.

(* ---------- reachability in the mixed graph: an edge leads to the image of the reference ---------- *)
Inductive reachfo (f : oid -> option oid) (tr : dict) (m : objmap) : oid -> Prop :=
| reachfo_root r y : In r (refs_of_dict tr) -> f r = Some y -> reachfo f tr m y
| reachfo_step x o r y : reachfo f tr m x -> lookup m x = Some o -> In r (refs_of o) -> f r = Some y -> reachfo f tr m y.

Lemma reachfo_in_all f tr m x : reachfo f tr m x -> In x (keep f (all_refs tr m)).
Proof.
  intro H. apply keep_in. unfold all_refs. destruct H as [r y Hr E | z o r y _ Hl Hr E].
  - exists r. split; [|exact E]. apply in_app_iff. left; exact Hr.
  - exists r. split; [|exact E]. apply in_app_iff. right. apply in_flat_map.
    exists (z, o). split; [apply lookup_In; exact Hl | exact Hr].
Qed.

(* ---------- the worklist loop ---------- *)
Section LoopO.
  Variable f : oid -> option oid.
  Variable tr : dict.
  Variable m0 : objmap.

  Record InvO (m : objmap) (refs : list oid) (index : nat) : Prop := {
    invo_nodup : NoDup refs;
    invo_reach : forall x, In x refs -> reachfo f tr m0 x;
    invo_roots : forall r y, In r (refs_of_dict tr) -> f r = Some y -> In y refs;
    invo_closed : forall x o r y, In x (visited refs index) -> lookup m0 x = Some o -> In r (refs_of o) -> f r = Some y -> In y refs;
    invo_lookup : forall x, lookup m x = if mem_oid x (visited refs index)
                                         then option_map (rename_o f) (lookup m0 x) else lookup m0 x;
    invo_keys : map fst m = map fst m0;
    invo_index : index <= length refs;
  }.

  Lemma invo_step m refs index id o :
    InvO m refs index -> nth_error refs index = Some id -> lookup m id = Some o ->
    lookup m0 id = Some o /\
    InvO (update m id (rename_o f o)) (push_all refs (keep f (refs_of o))) (S index).
  Proof.
    intros I Hn Hl.
    assert (Hnv : ~ In id (visited refs index)) by (apply nth_not_in_firstn; [apply I | exact Hn]).
    assert (Hl0 : lookup m0 id = Some o).
    { rewrite (invo_lookup _ _ _ I) in Hl. apply mem_oid_nIn in Hnv. rewrite Hnv in Hl. exact Hl. }
    split; [exact Hl0|].
    destruct (push_all_spec (keep f (refs_of o)) refs) as [extra [E [M ND]]].
    assert (Hlen : S index <= length refs).
    { apply nth_error_Some. congruence. }
    assert (Hvis : visited (push_all refs (keep f (refs_of o))) (S index) = visited refs index ++ [id]).
    { unfold visited. rewrite E, firstn_app_lt by exact Hlen. apply firstn_S_nth. exact Hn. }
    constructor.
    - apply ND. apply I.
    - intros x Hx. apply M in Hx. destruct Hx as [Hx|Hx]; [apply I; exact Hx|].
      apply keep_in in Hx. destruct Hx as [r [Hr Er]].
      eapply reachfo_step; [|exact Hl0|exact Hr|exact Er]. apply I. eapply nth_error_In; exact Hn.
    - intros r y Hr Er. apply M. left. eapply (invo_roots _ _ _ I); eauto.
    - intros x o' r y Hx Hl' Hr Er. rewrite Hvis in Hx. apply in_app_iff in Hx. apply M. destruct Hx as [Hx|[<-|[]]].
      + left. eapply (invo_closed _ _ _ I); eauto.
      + right. rewrite Hl0 in Hl'. inversion Hl'; subst. apply keep_in. exists r. auto.
    - intro x. rewrite Hvis. rewrite lookup_update, Hl.
      destruct (oid_eqb id x) eqn:Ex.
      + apply oid_eqb_eq in Ex. subst x.
        replace (mem_oid id (visited refs index ++ [id])) with true.
        * rewrite Hl0. reflexivity.
        * symmetry. apply mem_oid_In. apply in_app_iff. right. left. reflexivity.
      + rewrite (invo_lookup _ _ _ I).
        replace (mem_oid x (visited refs index ++ [id])) with (mem_oid x (visited refs index)); [reflexivity|].
        apply oid_eqb_neq in Ex.
        destruct (mem_oid x (visited refs index)) eqn:E1; symmetry.
        * apply mem_oid_In. apply in_app_iff. left. apply mem_oid_In. exact E1.
        * apply mem_oid_nIn. rewrite in_app_iff. cbn [In]. apply mem_oid_nIn in E1. intuition.
    - rewrite keys_update. apply I.
    - rewrite E, app_length. lia.
  Qed.

  Lemma invo_skip m refs index id :
    InvO m refs index -> nth_error refs index = Some id -> lookup m id = None ->
    InvO m refs (S index).
  Proof.
    intros I Hn Hl.
    assert (Hnv : ~ In id (visited refs index)) by (apply nth_not_in_firstn; [apply I | exact Hn]).
    assert (Hl0 : lookup m0 id = None).
    { rewrite (invo_lookup _ _ _ I) in Hl. apply mem_oid_nIn in Hnv. rewrite Hnv in Hl. exact Hl. }
    assert (Hvis : visited refs (S index) = visited refs index ++ [id]) by (apply firstn_S_nth; exact Hn).
    constructor; try apply I.
    - intros x o' r y Hx Hl' Hr Er. rewrite Hvis in Hx. apply in_app_iff in Hx. destruct Hx as [Hx|[<-|[]]].
      + eapply (invo_closed _ _ _ I); eauto.
      + congruence.
    - intro x. rewrite Hvis, (invo_lookup _ _ _ I).
      destruct (oid_eq_dec x id) as [->|Ne].
      + apply mem_oid_nIn in Hnv. rewrite Hnv, Hl0.
        destruct (mem_oid id (visited refs index ++ [id])); reflexivity.
      + replace (mem_oid x (visited refs index ++ [id])) with (mem_oid x (visited refs index)); [reflexivity|].
        destruct (mem_oid x (visited refs index)) eqn:E1; symmetry.
        * apply mem_oid_In. apply in_app_iff. left. apply mem_oid_In. exact E1.
        * apply mem_oid_nIn. rewrite in_app_iff. cbn [In]. apply mem_oid_nIn in E1. intuition.
    - apply nth_error_Some. congruence.
  Qed.

  Lemma invo_bound m refs index : InvO m refs index -> length refs <= length (all_refs tr m0).
  Proof.
    intro I. eapply Nat.le_trans; [|apply (keep_length f)]. apply NoDup_incl_length; [apply I|].
    intros x Hx. apply reachfo_in_all. apply I. exact Hx.
  Qed.

  Lemma loop_o_spec : forall fuel m refs index,
    InvO m refs index -> length (all_refs tr m0) - index < fuel ->
    exists m' refs', trav_loop_o f fuel m refs index = Some (m', refs') /\ InvO m' refs' (length refs').
  Proof.
    induction fuel as [|k IH]; intros m refs index I Hf; [lia|].
    cbn [trav_loop_o]. destruct (nth_error refs index) as [id|] eqn:Hn.
    - assert (Hlt : index < length refs) by (apply nth_error_Some; congruence).
      pose proof (invo_bound _ _ _ I) as Hb.
      destruct (lookup m id) as [o|] eqn:Hl.
      + rewrite trav_obj_o_spec. destruct (invo_step _ _ _ _ _ I Hn Hl) as [_ I'].
        apply IH; [exact I' | lia].
      + apply IH; [eapply invo_skip; eauto | lia].
    - exists m, refs. split; [reflexivity|].
      apply nth_error_None in Hn. pose proof (invo_index _ _ _ I).
      replace (length refs) with index by lia. exact I.
  Qed.
End LoopO.

(* ---------- traverse_objects_o: termination and result ---------- *)
Theorem traverse_o_spec f tr m fuel :
  trav_fuel tr m <= fuel ->
  exists m' refs,
    traverse_objects_o f fuel tr m = Some (rename_dict_o f tr, m', refs) /\
    NoDup refs /\
    (forall x, In x refs <-> reachfo f tr m x) /\
    map fst m' = map fst m /\
    (forall x, reachfo f tr m x -> lookup m' x = option_map (rename_o f) (lookup m x)) /\
    (forall x, ~ reachfo f tr m x -> lookup m' x = lookup m x).
Proof.
  intro Hf. unfold traverse_objects_o. rewrite trav_dict_o_spec.
  destruct (push_all_spec (keep f (refs_of_dict tr)) []) as [extra [E [M ND]]].
  set (refs0 := push_all [] (keep f (refs_of_dict tr))) in *.
  assert (I0 : InvO f tr m m refs0 0).
  { constructor.
    - apply ND. constructor.
    - intros x Hx. apply M in Hx. destruct Hx as [[]|Hx]. apply keep_in in Hx.
      destruct Hx as [r [Hr Er]]. eapply reachfo_root; eauto.
    - intros r y Hr Er. apply M. right. apply keep_in. exists r. auto.
    - intros x o r y Hx. cbn in Hx. destruct Hx.
    - intro x. reflexivity.
    - reflexivity.
    - lia. }
  destruct (loop_o_spec f tr m fuel m refs0 0 I0) as [m' [refs' [EL I]]].
  { unfold trav_fuel in Hf. rewrite all_refs_length. lia. }
  rewrite EL. exists m', refs'. split; [reflexivity|].
  assert (Hvis : visited refs' (length refs') = refs') by apply firstn_all.
  assert (Hiff : forall x, In x refs' <-> reachfo f tr m x).
  { intro x. split; [apply I|]. induction 1 as [r y Hr Er | z o r y Hz IHz Hl Hr Er].
    - eapply (invo_roots _ _ _ _ _ _ I); eauto.
    - eapply (invo_closed _ _ _ _ _ _ I); [rewrite Hvis; exact IHz | exact Hl | exact Hr | exact Er]. }
  split; [apply I|]. split; [exact Hiff|]. split; [apply I|]. split.
  - intros x Hx. rewrite (invo_lookup _ _ _ _ _ _ I), Hvis.
    apply Hiff in Hx. apply mem_oid_In in Hx. rewrite Hx. reflexivity.
  - intros x Hx. rewrite (invo_lookup _ _ _ _ _ _ I), Hvis.
    replace (mem_oid x refs') with false; [reflexivity|]. symmetry. apply mem_oid_nIn. rewrite Hiff. exact Hx.
Qed.

Corollary traverse_o_terminates f tr m fuel :
  trav_fuel tr m <= fuel -> traverse_objects_o f fuel tr m <> None.
Proof.
  intro H. destruct (traverse_o_spec f tr m fuel H) as [m' [refs [E _]]]. congruence.
Qed.

(* an action that never writes Null is the reference-renaming traversal of RenumberProofsTrav.v *)
Lemma rename_o_total f o : rename_o (fun x => Some (f x)) o = rename f o.
Proof.
  induction o as [|b|z|r|n|s h|l Hl|d Hd|d c Hd|i g] using obj_ind'; try reflexivity; cbn [rename rename_o].
  - f_equal. induction Hl as [|x l Hx Hl IH]; cbn [map]; [reflexivity|]. congruence.
  - f_equal. induction Hd as [|x l Hx Hl IH]; cbn [map]; [reflexivity|]. cbn [fst snd]. congruence.
  - f_equal. induction Hd as [|x l Hx Hl IH]; cbn [map]; [reflexivity|]. cbn [fst snd]. congruence.
Qed.
