(* ComposeTextCompress.v -- C16 "... also after the document is saved and reloaded", the harness' second reload variant:
   Document::compress() before the save.  Composition of
     C09  (Model/StreamFilt.v [doc_compress] / [compress]; Proofs/FilterProofsStream.v [compress_cases]; the zlib stream the
           compressor writes is read back by lopdf's filter code: Proofs/FilterProofsCodec.v),
     C13  (Model/Query.v: Document::get_page_fonts / get_page_content),
     C14  (Proofs/ComposeTextDecode.v: Content::decode on what Content::encode wrote) and
     C01  (Proofs/ComposeText.v: save + load).
   [stream_decomp inflate lzw] is Stream::decompressed_content as Document::get_page_content calls it (C09's model of
   lopdf's filter code around a zlib decoder [inflate] and an LZW decoder [lzw]).  What is asked of third-party code is
   stated exactly as in C09: [implements_inflate inflate] (the decoder returns what the RFC 1950/1951 decoder of
   Spec/Inflate.v returns on every stream that decoder accepts -- with [gallina_inflate] nothing is asked) and
   [valid_zlib_output deflate c] (the compressor's output for c is a zlib stream for c). *)
From LV Require Import Base.Bytes Base.Sx Model.Obj Model.DocQ Model.Writer Model.Parser Model.Save
  Model.Xref Model.Loader Model.Utf Gen.Lex Gen.Consts Gen.Filters Model.StreamFilt
  Spec.StreamSpec Spec.StreamCodecSpec Proofs.FilterProofsDict Proofs.FilterProofsStream Proofs.FilterProofsCodec
  Proofs.ObjectRtProofs Proofs.ContentProofs Spec.SaveSpec Proofs.OutlineProofs Proofs.OutlineProofsMain Proofs.ComposeReload.
From LV Require Model.Query.
From LV Require Import Gen.Tables Model.OneByte Model.TextExtract
  Spec.ShownText Spec.ShownBlocks Proofs.TextProofsTables Proofs.TextProofsExtract Proofs.TextProofsBlocks
  Proofs.ComposeText Proofs.ComposeTextDecode.

Local Open Scope N_scope.

(* ====================================================================================================
   1. one stream: what get_page_content reads from it is the same after Stream::compress
   ==================================================================================================== *)
Section OneStream.
  Variable inflate : bytes -> bytes.
  Variable lzw : bool -> bytes -> bytes.
  Variable deflate : bytes -> bytes.

  (* Stream::decompressed_content, as Document::get_page_content uses it: Ok(data) | Err(_) *)
  Definition stream_decomp (sd : dict) (c : bytes) : option bytes :=
    match decompressed_content inflate lzw {| s_dict := sd; s_content := c |} with A85.Ok data => Some data | _ => None end.

  (* `match decompressed_content() { Ok(data) => data, Err(_) => content }` *)
  Definition payload (decomp : dict -> bytes -> option bytes) (sd : dict) (c : bytes) : bytes :=
    match decomp sd c with Some data => data | None => c end.

  Lemma decompressed_compressed_form s :
    dict_wf (s_dict s) ->
    decompressed_content inflate lzw (compressed_form deflate s) =
    A85.Ok (match deflate (s_content s) with [] => [] | _ => inflate (deflate (s_content s)) end).
  Proof.
    intro W. unfold compressed_form.
    set (d1 := dict_swap_remove (dict_set (s_dict s) K_Filter (OName COMPRESS_FILTER)) K_DecodeParms_).
    assert (W0 : dict_wf (dict_set (s_dict s) K_Filter (OName COMPRESS_FILTER))) by (apply FilterProofsDict.dict_set_wf; exact W).
    assert (HF : dict_get d1 P_Filter = Some (OName COMPRESS_FILTER)).
    { unfold d1. change K_DecodeParms_ with P_DecodeParms. change K_Filter with P_Filter in *.
      rewrite FilterProofsDict.dict_get_swap_remove_other by (exact W0 || exact key_ne_FD). apply FilterProofsDict.dict_get_set_same. }
    assert (HD : dict_get d1 P_DecodeParms = None).
    { unfold d1. change K_DecodeParms_ with P_DecodeParms. apply FilterProofsDict.dict_get_swap_remove_same. exact W0. }
    unfold set_content. cbn [s_dict s_content]. change K_Length with P_Length.
    set (d2 := dict_set d1 P_Length _).
    assert (HF2 : dict_get d2 K_Filter = Some (OName COMPRESS_FILTER)).
    { unfold d2. change K_Filter with P_Filter. rewrite FilterProofsDict.dict_get_set_other by exact key_ne_FL. exact HF. }
    assert (HD2 : dict_get d2 K_DecodeParms_ = None).
    { unfold d2. change K_DecodeParms_ with P_DecodeParms. rewrite FilterProofsDict.dict_get_set_other by exact key_ne_DL. exact HD. }
    unfold decompressed_content, filters. cbn [s_dict s_content]. rewrite HF2.
    cbn [decode_loop]. unfold params_for. rewrite HD2.
    unfold decode_one. change (bytes_eqb COMPRESS_FILTER F_FLATE) with true. cbv iota.
    unfold decompress_zlib, decompress_predictor. reflexivity.
  Qed.

  (* C09's compress_lossless, for the reading of get_page_content *)
  Lemma payload_compress s :
    implements_inflate inflate ->
    dict_wf (s_dict s) -> valid_zlib_output deflate (s_content s) ->
    payload stream_decomp (s_dict (compress deflate s)) (s_content (compress deflate s)) =
    payload stream_decomp (s_dict s) (s_content s).
  Proof.
    intros HI W V. destruct (compress_cases deflate s) as [-> | (HF & _ & ->)]; [reflexivity|].
    unfold payload, stream_decomp.
    replace {| s_dict := s_dict (compressed_form deflate s); s_content := s_content (compressed_form deflate s) |}
      with (compressed_form deflate s) by (destruct (compressed_form deflate s); reflexivity).
    rewrite (decompressed_compressed_form s W).
    replace {| s_dict := s_dict s; s_content := s_content s |} with s by (destruct s; reflexivity).
    unfold decompressed_content. rewrite (filters_absent _ HF).
    unfold valid_zlib_output in V. pose proof (HI _ _ V) as E.
    destruct (deflate (s_content s)) as [|b r] eqn:D; [rewrite inflate_nil in V; discriminate|].
    exact E.
  Qed.
End OneStream.

(* ====================================================================================================
   2. a transformation of the objects that touches stream objects only and keeps what get_page_content reads
   ==================================================================================================== *)
Section CSim.
  Variable decomp : dict -> bytes -> option bytes.
  (* whatever else relates a stream to what it is replaced by *)
  Variable Q : dict -> bytes -> dict -> bytes -> Prop.

  Definition same_obj (o o' : obj) : Prop :=
    match o with
    | OStream sd c => exists sd' c', o' = OStream sd' c' /\ payload decomp sd' c' = payload decomp sd c /\ Q sd c sd' c'
    | _ => o' = o
    end.

  Variable tr : oid -> obj -> obj.
  Variables m m' : objmap.
  Hypothesis Htr : forall id o, lookup m id = Some o -> same_obj o (tr id o).
  Hypothesis sim : forall id, lookup m' id = option_map (tr id) (lookup m id).

  Lemma same_obj_ref o o' : same_obj o o' -> is_ref o' = is_ref o.
  Proof. destruct o; cbn [same_obj]; try (intros ->; reflexivity). intros (sd' & c' & -> & _). reflexivity. Qed.

  Lemma deref_csim : forall fuel last o o', same_obj o o' ->
    match deref_aux m fuel last o with
    | None => deref_aux m' fuel last o' = None
    | Some r => exists r', deref_aux m' fuel last o' = Some (fst r, r') /\ same_obj (snd r) r'
    end.
  Proof.
    induction fuel as [|f IH]; intros last o o' Ho; destruct (is_ref o) eqn:R.
    - destruct o; try discriminate. cbn [same_obj] in Ho. rewrite Ho, !deref_ref, sim.
      destruct (lookup m (id, gen)); reflexivity.
    - rewrite (deref_nonref m _ last o R). rewrite deref_nonref by (rewrite (same_obj_ref _ _ Ho); exact R).
      exists o'. split; [reflexivity | exact Ho].
    - destruct o; try discriminate. cbn [same_obj] in Ho. rewrite Ho, !deref_ref, sim.
      destruct (lookup m (id, gen)) as [o1|] eqn:E; cbn [option_map]; [|reflexivity]. apply IH. apply Htr. exact E.
    - rewrite (deref_nonref m _ last o R). rewrite deref_nonref by (rewrite (same_obj_ref _ _ Ho); exact R).
      exists o'. split; [reflexivity | exact Ho].
  Qed.

  Lemma get_object_csim id :
    match get_object m id with
    | None => get_object m' id = None
    | Some o => exists o', get_object m' id = Some o' /\ same_obj o o'
    end.
  Proof.
    unfold get_object. rewrite sim. destruct (lookup m id) as [o0|] eqn:L; cbn [option_map]; [|reflexivity].
    unfold dereference. pose proof (deref_csim (N.to_nat DEREF_LIMIT) None o0 _ (Htr id o0 L)) as H.
    destruct (deref_aux m (N.to_nat DEREF_LIMIT) None o0) as [r|]; cbn [option_map].
    - destruct H as (o' & -> & Hs). exists o'. split; [reflexivity | exact Hs].
    - rewrite H. reflexivity.
  Qed.

  Lemma get_object_stream_csim id sd' c' : get_object m' id = Some (OStream sd' c') ->
    exists sd c, get_object m id = Some (OStream sd c) /\ Q sd c sd' c'.
  Proof.
    intro G. pose proof (get_object_csim id) as H. destruct (get_object m id) as [o|]; [|congruence].
    destruct H as (o' & E & Hs). rewrite E in G. inversion G; subst o'.
    destruct o; cbn [same_obj] in Hs; try discriminate. destruct Hs as (sd2 & c2 & E2 & _ & HQ). inversion E2; subst. eauto.
  Qed.

  Lemma get_dictionary_csim id : get_dictionary m' id = get_dictionary m id.
  Proof.
    unfold get_dictionary. pose proof (get_object_csim id) as H. destruct (get_object m id) as [o|].
    - destruct H as (o' & -> & Hs). destruct o; cbn [same_obj] in Hs; try (rewrite Hs; reflexivity).
      destruct Hs as (sd' & c' & -> & _). reflexivity.
    - rewrite H. reflexivity.
  Qed.

  Lemma contents_loop_csim : forall fuel nb c, Query.contents_loop fuel m' nb c = Query.contents_loop fuel m nb c.
  Proof.
    induction fuel as [|f IH]; intros nb c; [reflexivity|]. destruct c; try reflexivity. cbn [Query.contents_loop].
    rewrite sim. destruct (lookup m (id, gen)) as [o|] eqn:L; cbn [option_map]; [|reflexivity].
    pose proof (Htr (id, gen) o L) as Ho.
    destruct o; cbn [same_obj] in Ho; try (rewrite Ho; destruct (nb + 1 <? DEREF_LIMIT); [apply IH | reflexivity]).
    destruct Ho as (sd' & c' & -> & _). reflexivity.
  Qed.

  Lemma get_page_contents_csim fuel pid : Query.get_page_contents fuel m' pid = Query.get_page_contents fuel m pid.
  Proof.
    unfold Query.get_page_contents. rewrite get_dictionary_csim. destruct (get_dictionary m pid) as [pg|]; [|reflexivity].
    destruct (dict_get pg Query.Q_Contents); [apply contents_loop_csim | reflexivity].
  Qed.

  Lemma concat_streams_csim ids : Query.concat_streams decomp m' ids = Query.concat_streams decomp m ids.
  Proof.
    induction ids as [|id ids IH]; [reflexivity|]. cbn [Query.concat_streams]. pose proof (get_object_csim id) as H.
    destruct (get_object m id) as [o|].
    - destruct H as (o' & -> & Hs). destruct o as [| | | | | | | |sd c|]; cbn [same_obj] in Hs; try (rewrite Hs; exact IH).
      destruct Hs as (sd' & c' & -> & Hp & _).
      change (payload decomp sd' c' ++ Query.concat_streams decomp m' ids = payload decomp sd c ++ Query.concat_streams decomp m ids).
      rewrite Hp, IH. reflexivity.
    - rewrite H. exact IH.
  Qed.

  Lemma get_page_content_csim fuel pid :
    Query.get_page_content decomp fuel m' pid = Query.get_page_content decomp fuel m pid.
  Proof.
    unfold Query.get_page_content. rewrite get_page_contents_csim.
    destruct (Query.get_page_contents fuel m pid); cbn [Query.obind']; try reflexivity. rewrite concat_streams_csim. reflexivity.
  Qed.

  Lemma collect_resources_csim : forall fuel node ids seen,
    Query.collect_resources fuel m' node ids seen = Query.collect_resources fuel m node ids seen.
  Proof.
    induction fuel as [|f IH]; intros node ids seen; [reflexivity|]. cbn [Query.collect_resources].
    destruct (dict_get node K_Parent) as [p|]; [|reflexivity]. destruct p; try reflexivity.
    destruct (Query.oid_mem (id, gen) seen); [reflexivity|]. rewrite get_dictionary_csim.
    destruct (get_dictionary m (id, gen)); [apply IH | reflexivity].
  Qed.

  Lemma font_value_csim v : Query.font_value m' v = Query.font_value m v.
  Proof. destruct v; try reflexivity. apply get_dictionary_csim. Qed.

  Lemma fold_left_ext {A B} (f g : A -> B -> A) : (forall a b, f a b = g a b) -> forall l a, fold_left f l a = fold_left g l a.
  Proof. intros H l. induction l as [|b l IH]; intro a; [reflexivity|]. cbn [fold_left]. rewrite H. apply IH. Qed.

  Lemma collect_fonts_csim res fonts : Query.collect_fonts m' res fonts = Query.collect_fonts m res fonts.
  Proof.
    unfold Query.collect_fonts.
    assert (E : forall i g, match get_object m' (i, g) with Some (ODict d) => Some d | _ => None end =
                            match get_object m (i, g) with Some (ODict d) => Some d | _ => None end)
      by (intros i g; apply (get_dictionary_csim (i, g))).
    assert (F : match dict_get res Query.Q_Font with
                | Some (ORef i g) => match get_object m' (i, g) with Some (ODict d) => Some d | _ => None end
                | Some (ODict d) => Some d | _ => None end =
                match dict_get res Query.Q_Font with
                | Some (ORef i g) => match get_object m (i, g) with Some (ODict d) => Some d | _ => None end
                | Some (ODict d) => Some d | _ => None end).
    { destruct (dict_get res Query.Q_Font) as [o|]; [|reflexivity]. destruct o; try reflexivity. apply E. }
    rewrite F. destruct (match dict_get res Query.Q_Font with
                | Some (ORef i g) => match get_object m (i, g) with Some (ODict d) => Some d | _ => None end
                | Some (ODict d) => Some d | _ => None end) as [fd|]; [|reflexivity].
    apply fold_left_ext. intros acc kv. rewrite font_value_csim. reflexivity.
  Qed.

  Lemma get_page_fonts_csim fuel pid : Query.get_page_fonts fuel m' pid = Query.get_page_fonts fuel m pid.
  Proof.
    unfold Query.get_page_fonts, Query.get_page_resources. rewrite get_dictionary_csim.
    destruct (get_dictionary m pid) as [pg|]; cbn [Query.obind' fst snd]; [|reflexivity].
    rewrite collect_resources_csim. destruct (Query.collect_resources fuel m pg [] []) as [rids| | |]; cbn [Query.obind' fst snd]; try reflexivity.
    f_equal.
    rewrite (fold_left_ext
               (fun acc rid => match get_dictionary m' rid with Some rs => Query.collect_fonts m' rs acc | None => acc end)
               (fun acc rid => match get_dictionary m rid with Some rs => Query.collect_fonts m rs acc | None => acc end)).
    - destruct (match dict_get pg Query.Q_Resources with Some (ODict d) => Some d | _ => None end); [|reflexivity].
      rewrite collect_fonts_csim. reflexivity.
    - intros acc rid. rewrite get_dictionary_csim. destruct (get_dictionary m rid); [apply collect_fonts_csim | reflexivity].
  Qed.

  Lemma doc_page_csim decode fuel pid : doc_page decomp decode fuel m' pid = doc_page decomp decode fuel m pid.
  Proof. unfold doc_page. rewrite get_page_fonts_csim, get_page_content_csim. reflexivity. Qed.
End CSim.

(* ====================================================================================================
   3. Document::compress
   ==================================================================================================== *)
Definition compress_obj (deflate : bytes -> bytes) (nocomp : list oid) (id : oid) (o : obj) : obj :=
  match o with
  | OStream d c =>
    if existsb (oid_eqb id) nocomp then o
    else let s := compress deflate {| s_dict := d; s_content := c |} in OStream (s_dict s) (s_content s)
  | _ => o
  end.

Lemma lookup_doc_compress deflate nocomp m id :
  lookup (doc_compress deflate nocomp m) id = option_map (compress_obj deflate nocomp id) (lookup m id).
Proof.
  induction m as [|[i o] m IH]; [reflexivity|]. unfold doc_compress in *. cbn [map fst snd].
  assert (E : fst (match o with
                   | OStream d c => if existsb (oid_eqb i) nocomp then (i, o)
                                    else let s := compress deflate {| s_dict := d; s_content := c |} in (i, OStream (s_dict s) (s_content s))
                   | _ => (i, o) end) = i /\
              snd (match o with
                   | OStream d c => if existsb (oid_eqb i) nocomp then (i, o)
                                    else let s := compress deflate {| s_dict := d; s_content := c |} in (i, OStream (s_dict s) (s_content s))
                   | _ => (i, o) end) = compress_obj deflate nocomp i o).
  { unfold compress_obj. destruct o; try (split; reflexivity). destruct (existsb (oid_eqb i) nocomp); split; reflexivity. }
  destruct E as [E1 E2].
  destruct (match o with
            | OStream d c => if existsb (oid_eqb i) nocomp then (i, o)
                             else let s := compress deflate {| s_dict := d; s_content := c |} in (i, OStream (s_dict s) (s_content s))
            | _ => (i, o) end) as [i' o'] eqn:EE. cbn [fst snd] in E1, E2. subst i' o'.
  cbn [lookup]. destruct (oid_eqb i id) eqn:Ei; [|exact IH].
  apply oid_eqb_eq in Ei. subst i. reflexivity.
Qed.

(* the Document after Document::compress(): only `objects` changes *)
Definition compress_doc (deflate : bytes -> bytes) (nocomp : list oid) (d : doc) : doc :=
  {| d_version := d_version d; d_binary_mark := d_binary_mark d; d_trailer := d_trailer d;
     d_objects := doc_compress deflate nocomp (d_objects d); d_max_id := d_max_id d |}.

(* the compressor writes a zlib stream for the content of every stream it is given (stated as in C09:
   [valid_zlib_output]), and stream dictionaries have distinct keys (the Rust type IndexMap) *)
Definition compressible (deflate : bytes -> bytes) (m : objmap) : Prop :=
  forall id sd c, lookup m id = Some (OStream sd c) -> dict_wf sd /\ valid_zlib_output deflate c.

Section DocCompress.
  Variable inflate : bytes -> bytes.
  Variable lzw : bool -> bytes -> bytes.
  Variable deflate : bytes -> bytes.
  Hypothesis inflate_ok : implements_inflate inflate.
  Notation decomp := (stream_decomp inflate lzw).

  (* what a stream is replaced by: itself, or the stream Stream::compress builds *)
  Definition compress_rel (sd : dict) (c : bytes) (sd' : dict) (c' : bytes) : Prop :=
    (sd' = sd /\ c' = c) \/
    {| s_dict := sd'; s_content := c' |} = compressed_form deflate {| s_dict := sd; s_content := c |}.

  Lemma same_obj_refl o : same_obj decomp compress_rel o o.
  Proof. destruct o; try reflexivity. cbn [same_obj]. eexists _, _. split; [reflexivity|]. split; [reflexivity|]. left. split; reflexivity. Qed.

  Lemma compress_obj_same nocomp m : compressible deflate m ->
    forall id o, lookup m id = Some o -> same_obj decomp compress_rel o (compress_obj deflate nocomp id o).
  Proof.
    intros HC id o L. destruct o; try reflexivity. cbn [compress_obj].
    destruct (existsb (oid_eqb id) nocomp); [apply same_obj_refl|].
    destruct (HC id d content L) as [W V]. cbn [same_obj]. eexists _, _. split; [reflexivity|]. split.
    - apply (payload_compress inflate lzw deflate {| s_dict := d; s_content := content |} inflate_ok W V).
    - destruct (compress_cases deflate {| s_dict := d; s_content := content |}) as [E | (_ & _ & E)]; rewrite E.
      + left. split; reflexivity.
      + right. destruct (compressed_form deflate {| s_dict := d; s_content := content |}); reflexivity.
  Qed.

  (* the page view of the compressed document is the page view of the document *)
  Theorem doc_page_compress decode nocomp m fuel pid :
    compressible deflate m ->
    doc_page decomp decode fuel (doc_compress deflate nocomp m) pid = doc_page decomp decode fuel m pid.
  Proof.
    intro HC. apply (doc_page_csim decomp compress_rel (compress_obj deflate nocomp) m _ (compress_obj_same nocomp m HC) (lookup_doc_compress deflate nocomp m)).
  Qed.

  Theorem page_content_compress nocomp m fuel pid :
    compressible deflate m ->
    Query.get_page_content decomp fuel (doc_compress deflate nocomp m) pid = Query.get_page_content decomp fuel m pid /\
    Query.get_page_fonts fuel (doc_compress deflate nocomp m) pid = Query.get_page_fonts fuel m pid.
  Proof.
    intro HC. split.
    - apply (get_page_content_csim decomp compress_rel (compress_obj deflate nocomp) m _ (compress_obj_same nocomp m HC) (lookup_doc_compress deflate nocomp m)).
    - apply (get_page_fonts_csim decomp compress_rel (compress_obj deflate nocomp) m _ (compress_obj_same nocomp m HC) (lookup_doc_compress deflate nocomp m)).
  Qed.

  (* ---------- THE COMPOSITION: written operations -> compress -> save -> load -> extract ---------- *)
  Theorem extract_written_after_compress_save_load nocomp xt d fuel pid font t fname size ps :
    let dc := compress_doc deflate nocomp d in
    savable dc -> known_deep dc = false -> small_file xt dc -> unreferenced xt dc ->
    content_normal fuel (d_objects dc) pid ->
    compressible deflate (d_objects d) ->
    page_written decomp fuel (d_objects d) pid fname font (show_ops fname size t ps) ->
    operand_dom size -> Forall piece_i64 ps ->
    get_font_encoding font = Ok (EncOneByte t) ->
    Forall (piece_over (in_repertoire t)) ps ->
    exists d' p',
      load (so_bytes (save xt dc)) = LOk d' (xtype_of xt) /\
      doc_page decomp content_decode fuel (d_objects d') pid = Some p' /\
      extract_text [p'] [1] = Ok (shown_text ps).
  Proof.
    intros dc S K Hsm U Hn HC [Hf Hc] Hs Hi He Hp.
    apply (extract_written_after_save_load decomp xt dc fuel pid font t fname size ps); try assumption.
    destruct (page_content_compress nocomp (d_objects d) fuel pid HC) as [E1 E2].
    split; cbn [dc compress_doc d_objects]; [rewrite E2; exact Hf | rewrite E1; exact Hc].
  Qed.

  Theorem extract_written_blocks_after_compress_save_load nocomp xt d fuel pid font t inside fname size bss :
    let dc := compress_doc deflate nocomp d in
    savable dc -> known_deep dc = false -> small_file xt dc -> unreferenced xt dc ->
    content_normal fuel (d_objects dc) pid ->
    compressible deflate (d_objects d) ->
    page_written decomp fuel (d_objects d) pid fname font (blocks_ops inside fname size t bss) ->
    operand_dom size -> Forall (Forall piece_i64) bss ->
    get_font_encoding font = Ok (EncOneByte t) ->
    Forall (Forall (piece_over (in_repertoire t))) bss -> Forall block_shows bss ->
    exists d' p',
      load (so_bytes (save xt dc)) = LOk d' (xtype_of xt) /\
      doc_page decomp content_decode fuel (d_objects d') pid = Some p' /\
      extract_text [p'] [1] = Ok (shown_blocks bss).
  Proof.
    intros dc S K Hsm U Hn HC [Hf Hc] Hs Hi He Hp Hb.
    apply (extract_written_blocks_after_save_load decomp xt dc fuel pid font t inside fname size bss); try assumption.
    destruct (page_content_compress nocomp (d_objects d) fuel pid HC) as [E1 E2].
    split; cbn [dc compress_doc d_objects]; [rewrite E2; exact Hf | rewrite E1; exact Hc].
  Qed.

  (* whatever the pages hold, with any Content::decode: compress + save + load changes no extracted chunk *)
  Theorem extract_same_after_compress_save_load decode nocomp xt d fuel pids pages nums :
    let dc := compress_doc deflate nocomp d in
    savable dc -> known_deep dc = false -> small_file xt dc -> unreferenced xt dc ->
    Forall (fun pid => lookup (d_objects dc) pid <> None /\ content_normal fuel (d_objects dc) pid) pids ->
    compressible deflate (d_objects d) ->
    Forall2 (fun pid p => doc_page decomp decode fuel (d_objects d) pid = Some p) pids pages ->
    exists d' pages',
      load (so_bytes (save xt dc)) = LOk d' (xtype_of xt) /\
      Forall2 (fun pid p => doc_page decomp decode fuel (d_objects d') pid = Some p) pids pages' /\
      extract_text_chunks pages' nums = extract_text_chunks pages nums /\
      extract_text pages' nums = extract_text pages nums.
  Proof.
    intros dc S K Hsm U Hp HC H.
    apply (extract_same_after_save_load decomp decode xt dc fuel pids pages nums S K Hsm U Hp).
    clear Hp. induction H as [|pid p pids pages Hd _ IH]; constructor; [|exact IH].
    cbn [dc compress_doc d_objects]. rewrite (doc_page_compress decode nocomp (d_objects d) fuel pid HC). exact Hd.
  Qed.
End DocCompress.
