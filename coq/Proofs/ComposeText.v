(* ComposeText.v -- C16 "text shown with such an encoding is returned unchanged by text extraction, also after the document
   is saved and reloaded", composed with C01_full.
   C16's extraction model (Model/TextExtract.v) starts from a page's fonts and decoded operations; the way from a Document to
   them is Document::get_page_fonts and Document::get_page_content, modelled in Model/Query.v (C13's model, tied to the crate
   by C13's correspondence), followed by Content::decode (any function [decode] here).  This file proves that BOTH accessors
   return the same after save + load -- the same content bytes (stream bodies are byte-identical) and the same fonts under the
   same resource names with every font dictionary in normal form, under which get_font_encoding does not change (it reads
   names and the kind of ToUnicode) -- hence the same extracted text ([doc_page_reloaded], [extract_after_reload]).

   One simulation serves both formats ([Sim]): objects agree up to [norm_obj] on the identifiers [okid], and no object of the
   document mentions an identifier outside [okid].  TABLE format: every identifier.  STREAM format: every identifier but
   the one the cross-reference stream takes, (max(max_id, largest number) + 1, 0): the loader keeps that stream as an
   object, so a reference to that number -- dangling before -- resolves afterwards (a page whose Contents dangled there
   would get the cross-reference stream as content).  [unreferenced] excludes exactly that.
   Side condition on the content streams: their dictionaries are in normal form ([norm_dict sd = sd]: no integral real
   such as /Predictor 12.0, which the decoder ignores as a real but obeys once it is reloaded as an integer). *)
From LV Require Import Base.Bytes Base.Sx Model.Obj Model.DocQ Model.Writer Model.Parser Model.Save
  Model.Xref Model.Loader Model.Utf Gen.Lex Gen.Consts
  Proofs.LexProofs Proofs.RealProofs Proofs.ObjectRtProofs Proofs.SaveProofs Proofs.FilterProofsDict Spec.SaveSpec
  Proofs.LoadProofs Proofs.LoadProofsFile Proofs.LoadProofsXref Proofs.LoadProofsTable Proofs.LoadProofsAgain
  Proofs.LoadProofsStream Proofs.LoadProofsFull Proofs.OutlineProofsMain Proofs.ComposeReload.
From LV Require Model.Query.
From LV Require Import Gen.Tables Model.OneByte Model.TextExtract.

Local Open Scope N_scope.

(* ---------- objects that mention only identifiers of a given set ---------- *)
Section RefsOk.
  Variable okid : oid -> bool.
  Fixpoint refs_ok (o : obj) : bool :=
    match o with
    | ORef i g => okid (i, g)
    | OArr l => forallb refs_ok l
    | ODict d => forallb (fun kv => refs_ok (snd kv)) d
    | OStream d _ => forallb (fun kv => refs_ok (snd kv)) d
    | _ => true
    end.
  Definition dict_refs_ok (d : dict) : bool := forallb (fun kv => refs_ok (snd kv)) d.

  Lemma dict_refs_get d k v : dict_refs_ok d = true -> dict_get d k = Some v -> refs_ok v = true.
  Proof.
    induction d as [|[k' v'] d IH]; [discriminate|]. cbn [dict_refs_ok forallb dict_get snd]. intros H G.
    apply andb_true_iff in H as [H1 H2]. destruct (bytes_eqb k' k); [inversion G; subst; exact H1 | apply IH; assumption].
  Qed.
End RefsOk.

Lemma refs_ok_all : forall o, refs_ok (fun _ => true) o = true.
Proof.
  induction o as [| | | | | |l IH|d IH|d c IH|] using obj_rt_ind; try reflexivity; cbn [refs_ok].
  - apply forallb_forall. rewrite Forall_forall in IH. exact IH.
  - apply forallb_forall. rewrite Forall_forall in IH. intros kv H. apply IH. exact H.
  - apply forallb_forall. rewrite Forall_forall in IH. intros kv H. apply IH. exact H.
Qed.

(* ---------- the simulation ---------- *)
Definition mapn (l : list (bytes * dict)) : list (bytes * dict) := map (fun kf => (fst kf, norm_dict (snd kf))) l.

Section Sim.
  Variable okid : oid -> bool.
  Variables m m' : objmap.
  Hypothesis sim : forall id, okid id = true -> lookup m' id = option_map norm_obj (lookup m id).
  Hypothesis closed : forall id o, lookup m id = Some o -> refs_ok okid o = true.

  Notation rok := (refs_ok okid).
  Notation drok := (dict_refs_ok okid).

  Lemma deref_sim : forall fuel last o, rok o = true ->
    deref_aux m' fuel last (norm_obj o) = option_map (fun r => (fst r, norm_obj (snd r))) (deref_aux m fuel last o) /\
    (forall r, deref_aux m fuel last o = Some r -> rok (snd r) = true).
  Proof.
    induction fuel as [|f IH]; intros last o Ho; destruct (is_ref o) eqn:R.
    - destruct o; try discriminate. cbn [norm_obj]. rewrite !deref_ref. cbn [refs_ok] in Ho. rewrite (sim _ Ho).
      destruct (lookup m (id, gen)); cbn [option_map]; split; try reflexivity; intros r H; discriminate.
    - rewrite !deref_nonref by (rewrite ?is_ref_norm; exact R). split; [reflexivity|]. intros r H. inversion H. exact Ho.
    - destruct o; try discriminate. cbn [norm_obj]. rewrite !deref_ref. cbn [refs_ok] in Ho. rewrite (sim _ Ho).
      destruct (lookup m (id, gen)) as [o1|] eqn:E; cbn [option_map]; [|split; [reflexivity | intros r H; discriminate]].
      apply IH. apply (closed _ _ E).
    - rewrite !deref_nonref by (rewrite ?is_ref_norm; exact R). split; [reflexivity|]. intros r H. inversion H. exact Ho.
  Qed.

  Lemma get_object_sim id : okid id = true ->
    get_object m' id = option_map norm_obj (get_object m id) /\ (forall o, get_object m id = Some o -> rok o = true).
  Proof.
    intro Hid. unfold get_object. rewrite (sim _ Hid). destruct (lookup m id) as [o0|] eqn:E; cbn [option_map];
      [|split; [reflexivity | intros o H; discriminate]].
    unfold dereference. destruct (deref_sim (N.to_nat DEREF_LIMIT) None o0 (closed _ _ E)) as [H1 H2]. rewrite H1.
    destruct (deref_aux m (N.to_nat DEREF_LIMIT) None o0) as [[l o']|]; cbn [option_map snd fst];
      [|split; [reflexivity | intros o H; discriminate]].
    split; [reflexivity|]. intros o H. inversion H; subst. apply (H2 _ eq_refl).
  Qed.

  Lemma get_dictionary_sim id : okid id = true ->
    get_dictionary m' id = option_map norm_dict (get_dictionary m id) /\ (forall dd, get_dictionary m id = Some dd -> drok dd = true).
  Proof.
    intro Hid. unfold get_dictionary. destruct (get_object_sim id Hid) as [H1 H2]. rewrite H1.
    destruct (get_object m id) as [o|]; cbn [option_map]; [|split; [reflexivity | intros dd H; discriminate]].
    specialize (H2 o eq_refl). destruct o; cbn [norm_obj]; try (split; [reflexivity | intros dd H; discriminate]).
    - destruct (norm_real_num r) as [[z E]|[z E]]; rewrite E; split; try reflexivity; intros dd H; discriminate.
    - split; [reflexivity|]. intros dd H. inversion H; subst. exact H2.
  Qed.

  (* ----- get_page_contents ----- *)
  Lemma refs_of_norm l : Query.refs_of (map norm_obj l) = Query.refs_of l.
  Proof.
    induction l as [|x l IH]; [reflexivity|]. cbn [map]. destruct x; cbn [norm_obj Query.refs_of]; try exact IH.
    - destruct (norm_real_num r) as [[z E]|[z E]]; rewrite E; exact IH.
    - rewrite IH. reflexivity.
  Qed.

  Lemma refs_of_ok l : forallb rok l = true -> forallb okid (Query.refs_of l) = true.
  Proof.
    induction l as [|x l IH]; [reflexivity|]. cbn [forallb]. intro H. apply andb_true_iff in H as [H1 H2].
    destruct x; cbn [Query.refs_of]; try (apply IH; exact H2). cbn [forallb]. cbn [refs_ok] in H1. rewrite H1. apply IH. exact H2.
  Qed.

  Lemma contents_loop_sim : forall fuel nb c, rok c = true ->
    Query.contents_loop fuel m' nb (norm_obj c) = Query.contents_loop fuel m nb c /\
    (forall ids, Query.contents_loop fuel m nb c = Query.Ok ids -> forallb okid ids = true).
  Proof.
    induction fuel as [|f IH]; intros nb c Hc; [split; [reflexivity | intros ids H; discriminate]|].
    destruct c; cbn [norm_obj Query.contents_loop]; try (split; [reflexivity | intros ids H; inversion H; reflexivity]).
    - destruct (norm_real_num r) as [[z E]|[z E]]; rewrite E; split; try reflexivity; intros ids H; inversion H; reflexivity.
    - rewrite refs_of_norm. split; [reflexivity|]. intros ids H. inversion H; subst. apply refs_of_ok. exact Hc.
    - cbn [refs_ok] in Hc. rewrite (sim _ Hc). destruct (lookup m (id, gen)) as [o|] eqn:E; cbn [option_map].
      + pose proof (closed _ _ E) as Ho.
        destruct o; cbn [norm_obj];
          try (destruct (nb + 1 <? DEREF_LIMIT); [apply (IH (nb + 1) _ Ho) | split; [reflexivity | intros ids H; inversion H; reflexivity]]).
        * (* real *) destruct (nb + 1 <? DEREF_LIMIT).
          -- destruct (IH (nb + 1) (OReal r) Ho) as [H1 H2]. cbn [norm_obj] in H1. split; [|exact H2].
             destruct (norm_real_num r) as [[z Ez]|[z Ez]]; rewrite Ez in *; exact H1.
          -- destruct (norm_real_num r) as [[z Ez]|[z Ez]]; rewrite Ez; split; try reflexivity; intros ids H; inversion H; reflexivity.
        * (* stream *) split; [reflexivity|]. intros ids H. inversion H; subst. cbn [forallb]. rewrite Hc. reflexivity.
      + split; [reflexivity|]. intros ids H. inversion H; subst. cbn [forallb]. rewrite Hc. reflexivity.
  Qed.

  Lemma get_page_contents_sim fuel pid : okid pid = true ->
    Query.get_page_contents fuel m' pid = Query.get_page_contents fuel m pid /\
    (forall ids, Query.get_page_contents fuel m pid = Query.Ok ids -> forallb okid ids = true).
  Proof.
    intro Hp. unfold Query.get_page_contents. destruct (get_dictionary_sim pid Hp) as [H1 H2]. rewrite H1.
    destruct (get_dictionary m pid) as [pg|]; cbn [option_map]; [|split; [reflexivity | intros ids H; inversion H; reflexivity]].
    rewrite dict_get_norm. specialize (H2 pg eq_refl).
    destruct (dict_get pg Query.Q_Contents) as [c|] eqn:E; cbn [option_map]; [|split; [reflexivity | intros ids H; inversion H; reflexivity]].
    apply contents_loop_sim. apply (dict_refs_get okid pg _ _ H2 E).
  Qed.

  (* ----- get_page_content: the same bytes ----- *)
  Definition streams_normal (ids : list oid) : Prop :=
    forall id sd c, In id ids -> get_object m id = Some (OStream sd c) -> norm_dict sd = sd.

  Lemma concat_streams_sim decomp ids : forallb okid ids = true -> streams_normal ids ->
    Query.concat_streams decomp m' ids = Query.concat_streams decomp m ids.
  Proof.
    induction ids as [|id ids IH]; [reflexivity|]. cbn [forallb]. intros H Hn. apply andb_true_iff in H as [H1 H2].
    cbn [Query.concat_streams]. destruct (get_object_sim id H1) as [G _]. rewrite G.
    assert (Hn' : streams_normal ids) by (intros i sd c Hi; apply Hn; right; exact Hi).
    destruct (get_object m id) as [o|] eqn:E; cbn [option_map]; [|apply IH; assumption].
    destruct o; cbn [norm_obj]; try (apply IH; assumption).
    - destruct (norm_real_num r) as [[z Ez]|[z Ez]]; rewrite Ez; apply IH; assumption.
    - fold (norm_dict d). rewrite (Hn id d content (or_introl eq_refl) E). rewrite IH by assumption. reflexivity.
  Qed.

  (* ----- get_page_resources / get_page_fonts ----- *)
  Lemma collect_resources_sim : forall fuel node ids seen, drok node = true ->
    Query.collect_resources fuel m' (norm_dict node) ids seen = Query.collect_resources fuel m node ids seen /\
    (forall out, forallb okid ids = true -> Query.collect_resources fuel m node ids seen = Query.Ok out -> forallb okid out = true).
  Proof.
    induction fuel as [|f IH]; intros node ids seen Hn; [split; [reflexivity | intros out _ H; discriminate]|].
    cbn [Query.collect_resources]. rewrite !dict_get_norm.
    set (ids0 := match dict_get node Query.Q_Resources with Some (ORef i g) => ids ++ [(i, g)] | _ => ids end).
    assert (E0 : match option_map norm_obj (dict_get node Query.Q_Resources) with Some (ORef i g) => ids ++ [(i, g)] | _ => ids end = ids0).
    { subst ids0. destruct (dict_get node Query.Q_Resources) as [o|]; [|reflexivity]. cbn [option_map].
      destruct o; cbn [norm_obj]; try reflexivity. destruct (norm_real_num r) as [[z E]|[z E]]; rewrite E; reflexivity. }
    rewrite E0.
    assert (Hids0 : forallb okid ids = true -> forallb okid ids0 = true).
    { intro Hi. subst ids0. destruct (dict_get node Query.Q_Resources) as [o|] eqn:E; [|exact Hi].
      destruct o; try exact Hi. rewrite forallb_app, Hi. cbn [forallb]. pose proof (dict_refs_get okid node _ _ Hn E) as Hr.
      cbn [refs_ok] in Hr. rewrite Hr. reflexivity. }
    destruct (dict_get node K_Parent) as [p|] eqn:Ep; cbn [option_map]; [|split; [reflexivity | intros out Hi H; inversion H; subst; auto]].
    pose proof (dict_refs_get okid node _ _ Hn Ep) as Hp.
    destruct p; cbn [norm_obj]; try (split; [reflexivity | intros out Hi H; inversion H; subst; auto]).
    - destruct (norm_real_num r) as [[z E]|[z E]]; rewrite E; split; try reflexivity; intros out Hi H; inversion H; subst; auto.
    - cbn [refs_ok] in Hp. destruct (Query.oid_mem (id, gen) seen); [split; [reflexivity | intros out _ H; discriminate]|].
      destruct (get_dictionary_sim (id, gen) Hp) as [G1 G2]. rewrite G1.
      destruct (get_dictionary m (id, gen)) as [pd|]; cbn [option_map]; [|split; [reflexivity | intros out _ H; discriminate]].
      destruct (IH pd ids0 ((id, gen) :: seen) (G2 pd eq_refl)) as [I1 I2]. split; [exact I1|].
      intros out Hi H. apply (I2 out (Hids0 Hi) H).
  Qed.

  Lemma font_value_sim v : rok v = true ->
    Query.font_value m' (norm_obj v) = option_map norm_dict (Query.font_value m v).
  Proof.
    intro Hv. destruct v; cbn [norm_obj Query.font_value]; try reflexivity.
    - destruct (norm_real_num r) as [[z E]|[z E]]; rewrite E; reflexivity.
    - cbn [refs_ok] in Hv. apply (get_dictionary_sim (id, gen) Hv).
  Qed.

  Lemma bt_insert_new_mapn : forall (l : list (bytes * dict)) k v,
    Query.bt_insert_new (mapn l) k (norm_dict v) = mapn (Query.bt_insert_new l k v).
  Proof.
    induction l as [|[k' v'] l IH]; intros k v; [reflexivity|]. cbn [mapn map Query.bt_insert_new fst snd].
    destruct (bytes_eqb k' k); [reflexivity|]. destruct (Query.bytes_ltb k k'); [reflexivity|].
    fold (mapn l). rewrite IH. reflexivity.
  Qed.

  Lemma fold_fonts_sim : forall (fd : dict) fonts, drok fd = true ->
    fold_left (fun acc kv => match Query.font_value m' (snd kv) with Some f => Query.bt_insert_new acc (fst kv) f | None => acc end)
              (norm_dict fd) (mapn fonts) =
    mapn (fold_left (fun acc kv => match Query.font_value m (snd kv) with Some f => Query.bt_insert_new acc (fst kv) f | None => acc end)
                    fd fonts).
  Proof.
    induction fd as [|[k v] fd IH]; intros fonts H; [reflexivity|]. cbn [dict_refs_ok forallb snd] in H.
    apply andb_true_iff in H as [H1 H2]. cbn [norm_dict map fold_left fst snd]. rewrite (font_value_sim v H1).
    destruct (Query.font_value m v) as [f|]; cbn [option_map].
    - rewrite bt_insert_new_mapn. apply IH. exact H2.
    - apply IH. exact H2.
  Qed.

  Lemma collect_fonts_sim res fonts : drok res = true ->
    Query.collect_fonts m' (norm_dict res) (mapn fonts) = mapn (Query.collect_fonts m res fonts).
  Proof.
    intro Hr. unfold Query.collect_fonts. rewrite dict_get_norm.
    destruct (dict_get res Query.Q_Font) as [o|] eqn:E; cbn [option_map]; [|reflexivity].
    pose proof (dict_refs_get okid res _ _ Hr E) as Ho.
    destruct o; cbn [norm_obj]; try reflexivity.
    - destruct (norm_real_num r) as [[z Ez]|[z Ez]]; rewrite Ez; reflexivity.
    - apply fold_fonts_sim. exact Ho.
    - cbn [refs_ok] in Ho. destruct (get_object_sim (id, gen) Ho) as [G1 G2]. rewrite G1.
      destruct (get_object m (id, gen)) as [o|]; cbn [option_map]; [|reflexivity].
      specialize (G2 o eq_refl). destruct o; cbn [norm_obj]; try reflexivity.
      + destruct (norm_real_num r) as [[z Ez]|[z Ez]]; rewrite Ez; reflexivity.
      + apply fold_fonts_sim. exact G2.
  Qed.

  Lemma fold_resources_sim : forall rids fonts, forallb okid rids = true ->
    fold_left (fun acc rid => match get_dictionary m' rid with Some rs => Query.collect_fonts m' rs acc | None => acc end) rids (mapn fonts) =
    mapn (fold_left (fun acc rid => match get_dictionary m rid with Some rs => Query.collect_fonts m rs acc | None => acc end) rids fonts).
  Proof.
    induction rids as [|rid rids IH]; intros fonts H; [reflexivity|]. cbn [forallb] in H. apply andb_true_iff in H as [H1 H2].
    cbn [fold_left]. destruct (get_dictionary_sim rid H1) as [G1 G2]. rewrite G1.
    destruct (get_dictionary m rid) as [rs|]; cbn [option_map]; [|apply IH; exact H2].
    rewrite (collect_fonts_sim rs fonts (G2 rs eq_refl)). apply IH. exact H2.
  Qed.

  Lemma get_page_fonts_sim fuel pid : okid pid = true ->
    Query.get_page_fonts fuel m' pid =
    match Query.get_page_fonts fuel m pid with Query.Ok fonts => Query.Ok (mapn fonts) | r => r end.
  Proof.
    intro Hp. unfold Query.get_page_fonts, Query.get_page_resources.
    destruct (get_dictionary_sim pid Hp) as [G1 G2]. rewrite G1.
    destruct (get_dictionary m pid) as [pg|]; cbn [option_map]; [|reflexivity].
    specialize (G2 pg eq_refl). rewrite dict_get_norm.
    destruct (collect_resources_sim fuel pg [] [] G2) as [C1 C2]. rewrite C1.
    destruct (Query.collect_resources fuel m pg [] []) as [rids| | |] eqn:Ec; cbn [Query.obind']; try reflexivity.
    specialize (C2 rids eq_refl eq_refl). cbn [fst snd]. f_equal.
    set (rd := match dict_get pg Query.Q_Resources with Some (ODict d) => Some d | _ => None end).
    assert (Erd : match option_map norm_obj (dict_get pg Query.Q_Resources) with Some (ODict d) => Some d | _ => None end = option_map norm_dict rd).
    { subst rd. destruct (dict_get pg Query.Q_Resources) as [o|]; [|reflexivity]. cbn [option_map].
      destruct o; cbn [norm_obj]; try reflexivity. destruct (norm_real_num r) as [[z E]|[z E]]; rewrite E; reflexivity. }
    rewrite Erd.
    assert (Hrd : forall d0, rd = Some d0 -> drok d0 = true).
    { intros d0 H. subst rd. destruct (dict_get pg Query.Q_Resources) as [o|] eqn:E; [|discriminate].
      destruct o; try discriminate. inversion H; subst. apply (dict_refs_get okid pg _ _ G2 E). }
    destruct rd as [d0|]; cbn [option_map].
    - change (@nil (bytes * dict)) with (mapn []) at 1. rewrite (collect_fonts_sim d0 [] (Hrd d0 eq_refl)).
      apply fold_resources_sim. exact C2.
    - change (@nil (bytes * dict)) with (mapn []) at 1. apply fold_resources_sim. exact C2.
  Qed.
End Sim.

(* ====================================================================================================
   The page as extract_text sees it, and the extraction
   ==================================================================================================== *)
Section Page.
  Variable decomp : dict -> bytes -> option bytes.       (* Stream::decompressed_content: any function *)
  Variable decode : bytes -> option (list op).            (* Content::decode (C14's subject): any function *)

  (* extract_text_chunks_from_page up to the operation loop: get_page_fonts, get_page_content, Content::decode *)
  Definition doc_page (fuel : nat) (m : objmap) (pid : oid) : option page :=
    match Query.get_page_fonts fuel m pid, Query.get_page_content decomp fuel m pid with
    | Query.Ok fonts, Query.Ok content =>
      match decode content with Some ops => Some {| p_fonts := fonts; p_ops := ops |} | None => None end
    | _, _ => None
    end.

  Definition page_norm (p : page) : page := {| p_fonts := mapn (p_fonts p); p_ops := p_ops p |}.

  (* the content streams of the page hold no integral real in their dictionaries *)
  Definition content_normal (fuel : nat) (m : objmap) (pid : oid) : Prop :=
    forall ids, Query.get_page_contents fuel m pid = Query.Ok ids -> streams_normal m ids.

  Lemma doc_page_sim okid m m' :
    (forall id, okid id = true -> lookup m' id = option_map norm_obj (lookup m id)) ->
    (forall id o, lookup m id = Some o -> refs_ok okid o = true) ->
    forall fuel pid, okid pid = true -> content_normal fuel m pid ->
      doc_page fuel m' pid = option_map page_norm (doc_page fuel m pid).
  Proof.
    intros sim closed fuel pid Hp Hn. unfold doc_page, Query.get_page_content.
    rewrite (get_page_fonts_sim okid m m' sim closed fuel pid Hp).
    destruct (get_page_contents_sim okid m m' sim closed fuel pid Hp) as [C1 C2]. rewrite C1.
    destruct (Query.get_page_fonts fuel m pid) as [fonts| | |]; try reflexivity.
    destruct (Query.get_page_contents fuel m pid) as [ids| | |] eqn:Ec; cbn [Query.obind']; try reflexivity.
    rewrite (concat_streams_sim okid m m' sim closed decomp ids (C2 ids eq_refl) (Hn ids Ec)).
    destruct (decode (Query.concat_streams decomp m ids)); reflexivity.
  Qed.
End Page.

(* ---------- get_font_encoding and the extraction do not see the normal form ---------- *)
Lemma font_encoding_norm font : get_font_encoding (norm_dict font) = get_font_encoding font.
Proof.
  unfold get_font_encoding, has_type. rewrite !dict_get_norm.
  assert (T : match option_map norm_obj (dict_get font K_Type) with Some (OName n) => bytes_eqb n K_Font | _ => false end =
              match dict_get font K_Type with Some (OName n) => bytes_eqb n K_Font | _ => false end).
  { destruct (dict_get font K_Type) as [o|]; [|reflexivity]. cbn [option_map]. destruct o; cbn [norm_obj]; try reflexivity.
    destruct (norm_real_num r) as [[z E]|[z E]]; rewrite E; reflexivity. }
  rewrite T. destruct (negb _); [reflexivity|].
  assert (U : forall A (a b c : A),
              match option_map norm_obj (dict_get font K_ToUnicode) with
              | Some (ORef _ _) => a | Some (OStream _ _) => a | Some _ => b | None => c end =
              match dict_get font K_ToUnicode with
              | Some (ORef _ _) => a | Some (OStream _ _) => a | Some _ => b | None => c end).
  { intros A a b c. destruct (dict_get font K_ToUnicode) as [o|]; [|reflexivity]. cbn [option_map]. destruct o; cbn [norm_obj]; try reflexivity.
    destruct (norm_real_num r) as [[z E]|[z E]]; rewrite E; reflexivity. }
  destruct (dict_get font K_Encoding) as [o|]; cbn [option_map].
  - destruct o; cbn [norm_obj];
      try (exact (U _ Unmodelled (Ok (EncOneByte FALLBACK_ENCODING)) (Ok (EncOneByte FALLBACK_ENCODING)))).
    + destruct (norm_real_num r) as [[z E]|[z E]]; rewrite E;
        exact (U _ Unmodelled (Ok (EncOneByte FALLBACK_ENCODING)) (Ok (EncOneByte FALLBACK_ENCODING))).
    + destruct (assoc_bytes n FONT_ENCODINGS); [reflexivity|].
      destruct (bytes_eqb n N_Identity_H || bytes_eqb n N_Identity_V); [|reflexivity].
      exact (U _ Unmodelled (Err EObjectType) (Err EDictKey)).
  - exact (U _ Unmodelled (Ok (EncOneByte FALLBACK_ENCODING)) (Ok (EncOneByte FALLBACK_ENCODING))).
Qed.

Lemma insert_sorted_mapn : forall (l : list (bytes * dict)) k v,
  insert_sorted k (norm_dict v) (mapn l) = mapn (insert_sorted k v l).
Proof.
  induction l as [|[k' v'] l IH]; intros k v; [reflexivity|]. cbn [mapn map insert_sorted fst snd].
  destruct (TextExtract.bytes_ltb k k'); [reflexivity|]. destruct (bytes_eqb k k'); [reflexivity|].
  fold (mapn l). rewrite IH. reflexivity.
Qed.

Lemma sort_fonts_mapn (l : list (bytes * dict)) : sort_fonts (mapn l) = mapn (sort_fonts l).
Proof.
  unfold sort_fonts. change (@nil (bytes * dict)) with (mapn []) at 1. generalize (@nil (bytes * dict)).
  induction l as [|[k v] l IH]; intro acc; [reflexivity|]. cbn [mapn map fold_left fst snd].
  fold (mapn l). rewrite insert_sorted_mapn. apply IH.
Qed.

Lemma page_encodings_mapn (l : list (bytes * dict)) : page_encodings (mapn l) = page_encodings l.
Proof.
  induction l as [|[k v] l IH]; [reflexivity|]. cbn [mapn map page_encodings fst snd]. fold (mapn l).
  rewrite IH, font_encoding_norm. reflexivity.
Qed.

Lemma page_chunks_norm p : page_chunks (page_norm p) = page_chunks p.
Proof. unfold page_chunks, page_norm. cbn [p_fonts p_ops]. rewrite sort_fonts_mapn, page_encodings_mapn. reflexivity. Qed.

Lemma nth_page_norm pages n : nth_page (map page_norm pages) n = option_map page_norm (nth_page pages n).
Proof.
  unfold nth_page. destruct (n =? 0); [reflexivity|]. generalize (N.to_nat (n - 1)). intro k. revert pages.
  induction k as [|k IH]; intros [|p pages]; try reflexivity. apply IH.
Qed.

Lemma extract_chunks_norm pages nums : extract_text_chunks (map page_norm pages) nums = extract_text_chunks pages nums.
Proof.
  induction nums as [|n nums IH]; [reflexivity|]. cbn [extract_text_chunks]. rewrite nth_page_norm, IH.
  destruct (nth_page pages n) as [p|]; cbn [option_map]; [rewrite page_chunks_norm|]; reflexivity.
Qed.

Lemma extract_text_norm pages nums : extract_text (map page_norm pages) nums = extract_text pages nums.
Proof. unfold extract_text. rewrite extract_chunks_norm. reflexivity. Qed.

(* ====================================================================================================
   The two reloaded documents
   ==================================================================================================== *)
(* the identifier the cross-reference stream takes in the stream format *)
Definition xref_id (d : doc) : oid := (d_max_id (written d) + 1, 0).
Definition okid_of (xt : xref_type) (d : doc) : oid -> bool :=
  match xt with XTable => fun _ => true | XStream => fun i => negb (oid_eqb i (xref_id d)) end.
(* no object of the document mentions it (stream format only) *)
Definition unreferenced (xt : xref_type) (d : doc) : Prop :=
  forall id o, lookup (d_objects d) id = Some o -> refs_ok (okid_of xt d) o = true.

Lemma unreferenced_table d : unreferenced XTable d.
Proof. intros id o _. apply refs_ok_all. Qed.

Lemma lookup_app_other (a : objmap) x X id : oid_eqb x id = false -> lookup (a ++ [(x, X)]) id = lookup a id.
Proof.
  intro H. induction a as [|[i o] a IH]; cbn [app lookup]; [rewrite H; reflexivity|].
  destruct (oid_eqb i id); [reflexivity | exact IH].
Qed.

Lemma reloaded_sim xt d : savable d ->
  forall id, okid_of xt d id = true -> lookup (d_objects (reloaded xt d)) id = option_map norm_obj (lookup (d_objects d) id).
Proof.
  intros S id H. destruct xt; [apply reloaded_table_lookup; exact S|].
  cbn [okid_of] in H. apply negb_true_iff in H. cbn [reloaded reloaded_stream d_objects].
  rewrite lookup_app_other by (rewrite OutlineProofs.oid_eqb_sym; exact H).
  rewrite written_objects by exact S. apply lookup_norm_objects.
Qed.

Lemma lookup_In' : forall (m : objmap) id o, lookup m id = Some o -> In (id, o) m.
Proof.
  induction m as [|[i oi] m IH]; intros id o H; [discriminate|]. cbn [lookup] in H. destruct (oid_eqb i id) eqn:E.
  - apply oid_eqb_eq in E. inversion H; subst. left. reflexivity.
  - right. apply IH. exact H.
Qed.

(* an object that exists is not under that identifier *)
Lemma existing_okid xt d id : savable d -> lookup (d_objects d) id <> None -> okid_of xt d id = true.
Proof.
  intros S H. destruct xt; [reflexivity|]. cbn [okid_of]. apply negb_true_iff. apply OutlineProofs.oid_eqb_neq. intro E. subst id.
  destruct (lookup (d_objects d) (xref_id d)) as [o|] eqn:L; [|contradiction]. apply lookup_In' in L.
  pose proof (le_last_number (d_objects d) _ 0 L) as Hle.
  change (fold_left _ (d_objects d) 0) with (last_number (d_objects d)) in Hle. cbn [fst xref_id] in Hle.
  rewrite written_savable in Hle by exact S. unfold raise_max_id in Hle. cbn [with_trailer d_max_id] in Hle.
  change (last_object_number (d_objects d)) with (last_number (d_objects d)) in Hle. lia.
Qed.

(* ---------- THE COMPOSITION ---------- *)
Section AfterReload.
  Variable decomp : dict -> bytes -> option bytes.
  Variable decode : bytes -> option (list op).

  Theorem doc_page_reloaded xt d fuel pid :
    savable d -> unreferenced xt d -> lookup (d_objects d) pid <> None -> content_normal fuel (d_objects d) pid ->
    doc_page decomp decode fuel (d_objects (reloaded xt d)) pid =
    option_map page_norm (doc_page decomp decode fuel (d_objects d) pid).
  Proof.
    intros S U Hp Hn. apply (doc_page_sim decomp decode (okid_of xt d)); [apply reloaded_sim; exact S | exact U | | exact Hn].
    apply existing_okid; assumption.
  Qed.

  (* any list of pages, any page numbers: the same chunks and the same text *)
  Theorem extract_after_reload xt d fuel pids pages nums :
    savable d -> unreferenced xt d ->
    Forall (fun pid => lookup (d_objects d) pid <> None /\ content_normal fuel (d_objects d) pid) pids ->
    Forall2 (fun pid p => doc_page decomp decode fuel (d_objects d) pid = Some p) pids pages ->
    Forall2 (fun pid p => doc_page decomp decode fuel (d_objects (reloaded xt d)) pid = Some p) pids (map page_norm pages) /\
    extract_text_chunks (map page_norm pages) nums = extract_text_chunks pages nums /\
    extract_text (map page_norm pages) nums = extract_text pages nums.
  Proof.
    intros S U Hp H. split; [|split; [apply extract_chunks_norm | apply extract_text_norm]].
    induction H as [|pid p pids pages Hd _ IH]; [constructor|]. inversion Hp as [|? ? [H1 H2] Hp']; subst.
    cbn [map]. constructor; [|apply IH; exact Hp'].
    rewrite (doc_page_reloaded xt d fuel pid S U H1 H2), Hd. reflexivity.
  Qed.
End AfterReload.

(* ====================================================================================================
   C16: text shown with a one-byte encoding, after save and load
   ==================================================================================================== *)
From LV Require Import Spec.ShownText Spec.ShownBlocks Proofs.TextProofsTables Proofs.TextProofsExtract Proofs.TextProofsBlocks.

(* a page with a font has a page object *)
Lemma doc_page_exists decomp decode fuel m pid p :
  doc_page decomp decode fuel m pid = Some p -> p_fonts p <> [] -> lookup m pid <> None.
Proof.
  intros H Hf E. unfold doc_page, Query.get_page_fonts, Query.get_page_resources, get_dictionary, get_object in H.
  rewrite E in H. cbn [Query.obind' fst snd fold_left] in H.
  destruct (Query.get_page_content decomp fuel m pid) as [c| | |]; try discriminate.
  destruct (decode c); try discriminate. inversion H; subst. apply Hf. reflexivity.
Qed.

Section Shown.
  Variable decomp : dict -> bytes -> option bytes.
  Variable decode : bytes -> option (list op).

  (* one text object (C16_extract_shown_text) *)
  Theorem extract_shown_after_save_load xt d fuel pid font t fname size ps :
    savable d -> known_deep d = false -> small_file xt d -> unreferenced xt d ->
    content_normal fuel (d_objects d) pid ->
    doc_page decomp decode fuel (d_objects d) pid = Some (page_showing fname font size t ps) ->
    get_font_encoding font = Ok (EncOneByte t) ->
    Forall (piece_over (in_repertoire t)) ps ->
    exists d' p',
      load (so_bytes (save xt d)) = LOk d' (xtype_of xt) /\
      doc_page decomp decode fuel (d_objects d') pid = Some p' /\
      extract_text [p'] [1] = Ok (shown_text ps).
  Proof.
    intros S K Hs U Hn Hd He Hp. exists (reloaded xt d), (page_norm (page_showing fname font size t ps)).
    split; [apply (load_save_one xt d S K Hs)|]. split.
    - rewrite (doc_page_reloaded decomp decode xt d fuel pid S U); [rewrite Hd; reflexivity | | exact Hn].
      apply (doc_page_exists _ _ _ _ _ _ Hd). discriminate.
    - change [page_norm (page_showing fname font size t ps)] with (map page_norm [page_showing fname font size t ps]).
      rewrite extract_text_norm. apply extract_shown_text; assumption.
  Qed.

  (* several text objects, the font selected once (C16_extract_shown_blocks) *)
  Theorem extract_blocks_after_save_load xt d fuel pid font t inside fname size bss :
    savable d -> known_deep d = false -> small_file xt d -> unreferenced xt d ->
    content_normal fuel (d_objects d) pid ->
    doc_page decomp decode fuel (d_objects d) pid = Some (page_blocks inside fname font size t bss) ->
    get_font_encoding font = Ok (EncOneByte t) ->
    Forall (Forall (piece_over (in_repertoire t))) bss -> Forall block_shows bss ->
    exists d' p',
      load (so_bytes (save xt d)) = LOk d' (xtype_of xt) /\
      doc_page decomp decode fuel (d_objects d') pid = Some p' /\
      extract_text [p'] [1] = Ok (shown_blocks bss).
  Proof.
    intros S K Hs U Hn Hd He Hp Hb. exists (reloaded xt d), (page_norm (page_blocks inside fname font size t bss)).
    split; [apply (load_save_one xt d S K Hs)|]. split.
    - rewrite (doc_page_reloaded decomp decode xt d fuel pid S U); [rewrite Hd; reflexivity | | exact Hn].
      apply (doc_page_exists _ _ _ _ _ _ Hd). discriminate.
    - change [page_norm (page_blocks inside fname font size t bss)] with (map page_norm [page_blocks inside fname font size t bss]).
      rewrite extract_text_norm. apply extract_shown_blocks; assumption.
  Qed.

  (* whatever the pages hold: the reloaded document extracts what the document in memory extracts *)
  Theorem extract_same_after_save_load xt d fuel pids pages nums :
    savable d -> known_deep d = false -> small_file xt d -> unreferenced xt d ->
    Forall (fun pid => lookup (d_objects d) pid <> None /\ content_normal fuel (d_objects d) pid) pids ->
    Forall2 (fun pid p => doc_page decomp decode fuel (d_objects d) pid = Some p) pids pages ->
    exists d' pages',
      load (so_bytes (save xt d)) = LOk d' (xtype_of xt) /\
      Forall2 (fun pid p => doc_page decomp decode fuel (d_objects d') pid = Some p) pids pages' /\
      extract_text_chunks pages' nums = extract_text_chunks pages nums /\
      extract_text pages' nums = extract_text pages nums.
  Proof.
    intros S K Hs U Hp H. exists (reloaded xt d), (map page_norm pages).
    split; [apply (load_save_one xt d S K Hs)|]. apply (extract_after_reload decomp decode xt d fuel pids pages nums S U Hp H).
  Qed.
End Shown.

(* ---------- non-vacuity ---------- *)
Lemma unreferenced_check xt d :
  forallb (fun io => refs_ok (okid_of xt d) (snd io)) (d_objects d) = true -> unreferenced xt d.
Proof.
  intros H id o L. apply lookup_In' in L. rewrite forallb_forall in H. apply (H (id, o) L).
Qed.

Definition ex_content : bytes := bs "BT /F1 12 Tf (H\351llo) Tj [(W) -120 (orld\200)] TJ ET".
Definition ex_text_doc : doc :=
  {| d_version := bs "1.5"; d_binary_mark := [xbb; xad; xc0; xde];
     d_trailer := [(K_Root, ORef 1 0)];
     d_objects := [((1, 0), ODict [(K_Type, OName (bs "Catalog")); (K_Pages, ORef 2 0)]);
                   ((2, 0), ODict [(K_Type, OName K_Pages); (K_Kids, OArr [ORef 3 0]); (K_Count, OInt 1)]);
                   ((3, 0), ODict [(K_Type, OName K_Page); (K_Parent, ORef 2 0);
                                   (Query.Q_Resources, ODict [(Query.Q_Font, ODict [(bs "F1", ORef 4 0)])]);
                                   (Query.Q_Contents, ORef 5 0)]);
                   ((4, 0), ODict ex_font);
                   ((5, 0), OStream [(K_Length, OInt (Z.of_nat (length ex_content)))] ex_content)];
     d_max_id := 5 |}.
Definition ex_table : table := match get_font_encoding ex_font with Ok (EncOneByte t) => t | _ => [] end.
(* stands for Content::decode on this one stream (C14's content_rt identifies the real decoder on encoded operations) *)
Definition ex_decode (b : bytes) : option (list op) :=
  if bytes_eqb b ex_content then Some (show_ops (bs "F1") (OInt 12) ex_table ex_pieces) else None.

Lemma ex_text_savable : savable ex_text_doc.
Proof.
  constructor; cbn [ex_text_doc d_version d_binary_mark d_trailer d_objects d_max_id].
  - vm_compute. reflexivity.
  - reflexivity.
  - reflexivity.
  - vm_compute. discriminate.
  - cbn [obj_numbers map fst increasing]. repeat split; reflexivity.
  - repeat (apply Forall_cons; [cbn [fst snd]; split; [vm_compute; discriminate|]; split; [|reflexivity];
      cbn [top_wf ex_font]; repeat (constructor; cbn; try (intuition discriminate)) |]); try apply Forall_nil.
    all: try (vm_compute; discriminate). all: try reflexivity.
  - constructor; [repeat constructor; cbn; intuition discriminate|].
    constructor; [|constructor]. cbn [snd]. constructor; vm_compute; discriminate.
  - reflexivity.
  - reflexivity.
Qed.

Theorem ex_text_after_save_load :
  get_font_encoding ex_font = Ok (EncOneByte ex_table) /\
  Forall (piece_over (in_repertoire ex_table)) ex_pieces /\
  savable ex_text_doc /\ known_deep ex_text_doc = false /\
  small_file XTable ex_text_doc /\ small_file XStream ex_text_doc /\
  unreferenced XTable ex_text_doc /\ unreferenced XStream ex_text_doc /\
  content_normal 200 (d_objects ex_text_doc) (3, 0) /\
  doc_page (fun _ _ => None) ex_decode 200 (d_objects ex_text_doc) (3, 0)
    = Some (page_showing (bs "F1") ex_font (OInt 12) ex_table ex_pieces) /\
  xref_id ex_text_doc = (6, 0).
Proof.
  destruct ex_shown as [t [E [F _]]].
  assert (Et : ex_table = t) by (unfold ex_table; rewrite E; reflexivity).
  split; [rewrite Et; exact E|]. split; [rewrite Et; exact F|].
  split; [exact ex_text_savable|]. split; [vm_compute; reflexivity|].
  split; [vm_compute; reflexivity|]. split; [vm_compute; reflexivity|].
  split; [apply unreferenced_table|]. split; [apply unreferenced_check; vm_compute; reflexivity|].
  split.
  - intros ids H. vm_compute in H. inversion H; subst. intros id sd c [<-|[]] G. vm_compute in G. inversion G; subst. reflexivity.
  - split; [|reflexivity]. vm_compute. reflexivity.
Qed.
