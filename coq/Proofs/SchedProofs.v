(* SchedProofs.v -- C08: the document produced by the loading phase does not depend on the schedule.
   Part 1: job cutting is irrelevant (order-preserving collect).
   Part 2: sorting the blocks by their unique xref key forgets the completion order.
   Part 3: the zero-length pass commutes.
   Part 4: par_eq_seq for the code as it is.
   Part 5: the merge before the repair: invariant under permutation when the blocks agree, refuted otherwise. *)
From Coq Require Import Permutation Sorting.Sorted Lia.
From LV Require Import Base.Bytes Base.Sx Model.Obj Model.DocQ Model.Sched.

(* ================= Part 1: cutting the range into jobs ================= *)
Lemma split_chunks_concat {A} ns : forall (l : list A), concat (split_chunks ns l) = l.
Proof.
  induction ns as [|n ns IH]; intro l; cbn [split_chunks concat].
  - apply app_nil_r.
  - rewrite IH. apply firstn_skipn.
Qed.

Lemma results_app a b : results (a ++ b) = results a ++ results b.
Proof. unfold results. apply flat_map_app. Qed.

Lemma par_results_eq chunks enc es : par_results chunks enc es = results (map (run_task enc) es).
Proof.
  unfold par_results. rewrite <- (split_chunks_concat chunks es) at 2.
  generalize (split_chunks chunks es). intro l. induction l as [|j l IH]; cbn [map concat].
  - reflexivity.
  - rewrite map_app, results_app, IH. reflexivity.
Qed.

Lemma par_objstm_objects_eq chunks ms : par_objstm_objects chunks ms = objstm_objects ms.
Proof. unfold par_objstm_objects, objstm_objects. rewrite split_chunks_concat. reflexivity. Qed.

(* ================= Part 2: sorting by a unique key ================= *)
Lemma ascending_nodup l : ascending l -> NoDup l.
Proof.
  induction l as [|a l IH]; cbn [ascending]; intro H; constructor.
  - destruct H as [H _]. intro Hin. rewrite Forall_forall in H. specialize (H _ Hin). lia.
  - apply IH. tauto.
Qed.

Lemma insert_block_perm b l : Permutation (insert_block b l) (b :: l).
Proof.
  induction l as [|c l IH]; cbn [insert_block].
  - apply Permutation_refl.
  - destruct (fst b <=? fst c)%N.
    + apply Permutation_refl.
    + eapply perm_trans; [apply perm_skip; exact IH | apply perm_swap].
Qed.

Lemma sort_blocks_perm l : Permutation (sort_blocks l) l.
Proof.
  induction l as [|b l IH]; cbn [sort_blocks fold_right].
  - constructor.
  - fold (sort_blocks l). eapply perm_trans; [apply insert_block_perm | apply perm_skip; exact IH].
Qed.

Lemma insert_block_ascending b l :
  ascending (map fst l) -> ~ In (fst b) (map fst l) -> ascending (map fst (insert_block b l)).
Proof.
  induction l as [|c l IH]; cbn [insert_block map ascending]; intros H Hn.
  - split; [constructor | exact I].
  - destruct H as [Hf Ha]. destruct (fst b <=? fst c)%N eqn:E.
    + cbn [map ascending]. apply N.leb_le in E.
      assert (fst b < fst c)%N as Hlt.
      { destruct (N.eq_dec (fst b) (fst c)) as [Eq|Ne]; [|lia]. exfalso. apply Hn. left. symmetry. exact Eq. }
      split; [|split; assumption]. constructor; [exact Hlt|].
      eapply Forall_impl; [|exact Hf]. cbn beta. intros x Hx. lia.
    + cbn [map ascending]. apply N.leb_gt in E. split.
      * apply Forall_forall. intros x Hx.
        assert (In x (map fst (b :: l))) as Hx'.
        { eapply Permutation_in; [apply Permutation_map; apply insert_block_perm | exact Hx]. }
        cbn [map In] in Hx'. destruct Hx' as [<-|Hx']; [exact E|]. rewrite Forall_forall in Hf. auto.
      * apply IH; [exact Ha|]. intro Hin. apply Hn. right. exact Hin.
Qed.

Lemma sort_blocks_ascending l : NoDup (map fst l) -> ascending (map fst (sort_blocks l)).
Proof.
  induction l as [|b l IH]; cbn [sort_blocks fold_right map]; intro H.
  - exact I.
  - fold (sort_blocks l). inversion H as [|? ? Hn Hd]; subst. apply insert_block_ascending; [apply IH; exact Hd|].
    intro Hin. apply Hn. eapply Permutation_in; [apply Permutation_map; apply sort_blocks_perm | exact Hin].
Qed.

Lemma nodup_keys_inj {A} (l : list (N * A)) x y :
  NoDup (map fst l) -> In x l -> In y l -> fst x = fst y -> x = y.
Proof.
  induction l as [|a l IH]; cbn [map In]; intros Hd Hx Hy E; [contradiction|].
  inversion Hd as [|? ? Hn Hd']; subst.
  destruct Hx as [->|Hx], Hy as [->|Hy].
  - reflexivity.
  - exfalso. apply Hn. rewrite E. apply in_map. exact Hy.
  - exfalso. apply Hn. rewrite <- E. apply in_map. exact Hx.
  - apply IH; assumption.
Qed.

(* a list with strictly ascending keys is determined by its elements *)
Lemma ascending_perm_eq {A} (l1 : list (N * A)) : forall l2,
  ascending (map fst l1) -> ascending (map fst l2) -> Permutation l1 l2 -> l1 = l2.
Proof.
  induction l1 as [|a l1 IH]; intros l2 H1 H2 P.
  - apply Permutation_nil in P. subst. reflexivity.
  - destruct l2 as [|b l2]; [apply Permutation_sym, Permutation_nil in P; discriminate|].
    cbn [map ascending] in H1, H2. destruct H1 as [F1 A1], H2 as [F2 A2].
    rewrite Forall_forall in F1, F2.
    assert (a = b) as ->.
    { assert (In a (b :: l2)) as Ia by (eapply Permutation_in; [exact P | left; reflexivity]).
      assert (In b (a :: l1)) as Ib by (eapply Permutation_in; [apply Permutation_sym; exact P | left; reflexivity]).
      destruct Ia as [E|Ia]; [congruence|]. destruct Ib as [E|Ib]; [congruence|].
      exfalso. pose proof (F1 _ (in_map fst _ _ Ib)). pose proof (F2 _ (in_map fst _ _ Ia)). lia. }
    f_equal. apply IH; [exact A1 | exact A2 | eapply Permutation_cons_inv; exact P].
Qed.

Lemma sort_blocks_perm_eq bl bl' :
  NoDup (map fst bl) -> Permutation bl' bl -> sort_blocks bl' = sort_blocks bl.
Proof.
  intros Hd P. apply ascending_perm_eq.
  - apply sort_blocks_ascending. eapply Permutation_NoDup; [apply Permutation_map, Permutation_sym; exact P | exact Hd].
  - apply sort_blocks_ascending. exact Hd.
  - eapply perm_trans; [apply sort_blocks_perm|]. eapply perm_trans; [exact P|]. apply Permutation_sym, sort_blocks_perm.
Qed.

Lemma sort_blocks_id bl : ascending (map fst bl) -> sort_blocks bl = bl.
Proof.
  intro H. apply ascending_perm_eq; [apply sort_blocks_ascending, ascending_nodup; exact H | exact H | apply sort_blocks_perm].
Qed.

(* the keys of the blocks are keys of entries, in the same order *)
Lemma block_keys_incl enc es k :
  In k (map fst (blocks_of (map (run_task enc) es))) -> In k (map e_key es).
Proof.
  induction es as [|e es IH]; cbn [map blocks_of flat_map]; [tauto|].
  fold (blocks_of (map (run_task enc) es)). rewrite map_app, in_app_iff. intros [H|H].
  - left. unfold run_task in H. destruct (e_parsed e) as [| |id d c st ms]; cbn in H; try contradiction.
    destruct (has_type d K_ObjStm && negb enc).
    + destruct ms; cbn in H; [|contradiction]. destruct H as [<-|[]]. reflexivity.
    + destruct c; cbn in H; contradiction.
  - right. apply IH. exact H.
Qed.

Lemma block_keys_ascending enc es :
  ascending (map e_key es) -> ascending (map fst (blocks_of (map (run_task enc) es))).
Proof.
  induction es as [|e es IH]; cbn [map blocks_of flat_map ascending]; [tauto|].
  fold (blocks_of (map (run_task enc) es)). intros [Hf Ha]. specialize (IH Ha).
  destruct (o_block (run_task enc e)) as [b|] eqn:E; cbn [opt_list app]; [|exact IH].
  cbn [map ascending]. split; [|exact IH].
  assert (fst b = e_key e) as ->.
  { unfold run_task in E. destruct (e_parsed e) as [| |id d c st ms]; cbn in E; try discriminate.
    destruct (has_type d K_ObjStm && negb enc).
    - destruct ms; cbn in E; [|discriminate]. inversion E. reflexivity.
    - destruct c; cbn in E; discriminate. }
  apply Forall_forall. intros k Hk. apply block_keys_incl in Hk. rewrite Forall_forall in Hf. auto.
Qed.

Theorem merge_sched_invariant xc bl bl' base :
  NoDup (map fst bl) -> Permutation bl' bl -> merge xc bl' base = merge xc bl base.
Proof. intros Hd P. unfold merge. rewrite (sort_blocks_perm_eq bl bl' Hd P). reflexivity. Qed.

(* ================= Part 3: the zero-length pass ================= *)
Lemma fold_left_perm {A B} (f : A -> B -> A) :
  (forall m a b, f (f m a) b = f (f m b) a) ->
  forall l l', Permutation l l' -> forall m, fold_left f l m = fold_left f l' m.
Proof.
  intros C l l' P. induction P as [|x l l' P IH|x y l|l l' l'' P1 IH1 P2 IH2]; intro m; cbn [fold_left].
  - reflexivity.
  - apply IH.
  - rewrite C. reflexivity.
  - rewrite IH1. apply IH2.
Qed.

Definition is_stream (o : obj) : bool := match o with OStream _ _ => true | _ => false end.
Definition same_or_streams (a b : obj) : Prop := a = b \/ (is_stream a = true /\ is_stream b = true).
(* two object maps that differ only in the dictionaries and bodies of streams *)
Definition sim (m m' : objmap) : Prop :=
  Forall2 (fun x y => fst x = fst y /\ same_or_streams (snd x) (snd y)) m m'.

Lemma same_or_streams_refl a : same_or_streams a a.
Proof. left; reflexivity. Qed.

Lemma lookup_sim m m' : sim m m' -> forall id,
  match lookup m id, lookup m' id with
  | Some a, Some b => same_or_streams a b
  | None, None => True
  | _, _ => False
  end.
Proof.
  induction 1 as [|[i a] [j b] m m' [Hk Hv] _ IH]; intro id; cbn [lookup]; [exact I|].
  cbn [fst snd] in Hk, Hv. subst j. destruct (oid_eqb i id); [exact Hv | apply IH].
Qed.

Lemma deref_aux_sim m m' : sim m m' -> forall fuel last o o', same_or_streams o o' ->
  match deref_aux m fuel last o, deref_aux m' fuel last o' with
  | Some (l, a), Some (l', b) => l = l' /\ same_or_streams a b
  | None, None => True
  | _, _ => False
  end.
Proof.
  intro S. induction fuel as [|fuel IH]; intros last o o' [<-|[So So']].
  - destruct o; cbn [deref_aux]; try (split; [reflexivity | apply same_or_streams_refl]).
    pose proof (lookup_sim m m' S (id, gen)) as L. destruct (lookup m (id, gen)), (lookup m' (id, gen)); tauto.
  - destruct o; try discriminate. destruct o'; try discriminate. cbn [deref_aux]. split; [reflexivity|]. right; split; reflexivity.
  - destruct o; cbn [deref_aux]; try (split; [reflexivity | apply same_or_streams_refl]).
    pose proof (lookup_sim m m' S (id, gen)) as L. destruct (lookup m (id, gen)), (lookup m' (id, gen)); try tauto.
    apply IH. exact L.
  - destruct o; try discriminate. destruct o'; try discriminate. cbn [deref_aux]. split; [reflexivity|]. right; split; reflexivity.
Qed.

Lemma stream_length_sim m m' d : sim m m' -> stream_length m d = stream_length m' d.
Proof.
  intro S. unfold stream_length, dereference. destruct (dict_get d K_Length) as [v|]; [|reflexivity].
  pose proof (deref_aux_sim m m' S (N.to_nat Gen.Consts.DEREF_LIMIT) None v v (same_or_streams_refl v)) as D.
  destruct (deref_aux m _ None v) as [[l a]|], (deref_aux m' _ None v) as [[l' b]|]; try tauto.
  destruct D as [_ [<-|[Sa Sb]]]; [reflexivity|].
  destruct a; try discriminate. destruct b; try discriminate. reflexivity.
Qed.

Lemma fixed_sim buf m m' x : sim m m' -> fixed buf m x = fixed buf m' x.
Proof.
  intro S. unfold fixed. destruct x as [o st]. destruct o; try reflexivity. destruct st; [|reflexivity].
  rewrite (stream_length_sim m m' d S). reflexivity.
Qed.

(* the id whose object read_stream_content touches *)
Definition target (m : objmap) (id : oid) : option oid :=
  match lookup m id with
  | None => None
  | Some o => match dereference m o with
              | None => None
              | Some (rid, _) => Some (match rid with Some r => r | None => id end)
              end
  end.

Lemma fix_stream_target buf m id :
  fix_stream buf m id = match target (strip m) id with
                        | None => m
                        | Some c => update m c (fixed buf (strip m))
                        end.
Proof.
  unfold fix_stream, target. destruct (lookup (strip m) id) as [o|]; [|reflexivity].
  destruct (dereference (strip m) o) as [[rid o']|]; reflexivity.
Qed.

Lemma target_sim m m' id : sim m m' -> target m id = target m' id.
Proof.
  intro S. unfold target, dereference. pose proof (lookup_sim m m' S id) as L.
  destruct (lookup m id) as [o|], (lookup m' id) as [o'|]; try tauto.
  pose proof (deref_aux_sim m m' S (N.to_nat Gen.Consts.DEREF_LIMIT) None o o' L) as D.
  destruct (deref_aux m _ None o) as [[l a]|], (deref_aux m' _ None o') as [[l' b]|]; try tauto.
  destruct D as [<- _]. reflexivity.
Qed.

Lemma fixed_stream_pres buf sm x : same_or_streams (fst x) (fst (fixed buf sm x)).
Proof.
  unfold fixed. destruct x as [o st]. destruct o; try (left; reflexivity). destruct st; [|left; reflexivity].
  destruct (stream_length sm d); [|left; reflexivity].
  destruct (z <? 0)%Z; [left; reflexivity|].
  destruct (N.of_nat (length buf) <? n + Z.to_N z)%N; [left; reflexivity|].
  right. split; reflexivity.
Qed.

Lemma sim_update m c F :
  (forall x, same_or_streams (fst x) (fst (F x))) -> sim (strip m) (strip (update m c F)).
Proof.
  intro HF. unfold sim, strip, update. induction m as [|[i x] m IH]; cbn [map]; constructor; [|exact IH].
  cbn [fst snd]. destruct (oid_eqb i c); cbn [fst snd]; split; try reflexivity; [apply HF | apply same_or_streams_refl].
Qed.

Lemma sim_fix_stream buf m a : sim (strip m) (strip (fix_stream buf m a)).
Proof.
  rewrite fix_stream_target. destruct (target (strip m) a).
  - apply sim_update. intro x. apply fixed_stream_pres.
  - unfold sim. induction (strip m) as [|e l IH]; constructor; [split; [reflexivity | apply same_or_streams_refl] | exact IH].
Qed.

Lemma update_ext {V} (m : list (oid * V)) c f g : (forall x, f x = g x) -> update m c f = update m c g.
Proof. intro E. unfold update. apply map_ext. intro e. rewrite E. reflexivity. Qed.

Lemma update_comm_same {V} (m : list (oid * V)) a b F :
  update (update m a F) b F = update (update m b F) a F.
Proof.
  unfold update. rewrite !map_map. apply map_ext. intros [i v]. cbn [fst snd].
  destruct (oid_eqb i a) eqn:Ea, (oid_eqb i b) eqn:Eb; cbn [fst snd]; rewrite ?Ea, ?Eb; reflexivity.
Qed.

Lemma fix_stream_as buf m m0 id : sim (strip m0) (strip m) ->
  fix_stream buf m id = match target (strip m0) id with
                        | None => m
                        | Some c => update m c (fixed buf (strip m0))
                        end.
Proof.
  intro S. rewrite fix_stream_target, <- (target_sim _ _ id S).
  destruct (target (strip m0) id); [|reflexivity].
  apply update_ext. intro x. symmetry. apply fixed_sim. exact S.
Qed.

Lemma fix_stream_comm buf m a b :
  fix_stream buf (fix_stream buf m a) b = fix_stream buf (fix_stream buf m b) a.
Proof.
  rewrite (fix_stream_as buf (fix_stream buf m a) m b (sim_fix_stream buf m a)).
  rewrite (fix_stream_as buf (fix_stream buf m b) m a (sim_fix_stream buf m b)).
  rewrite !fix_stream_target.
  destruct (target (strip m) a) as [ca|], (target (strip m) b) as [cb|]; try reflexivity.
  apply update_comm_same.
Qed.

Theorem zero_len_commutes buf zl zl' m :
  Permutation zl zl' -> zero_pass buf zl m = zero_pass buf zl' m.
Proof.
  intro P. unfold zero_pass. apply fold_left_perm; [|exact P]. intros m0 a b. apply fix_stream_comm.
Qed.

(* ================= Part 4: the loader as it is ================= *)
Theorem par_eq_seq f s : file_wf f -> sched_valid f s -> load_par s f = load_seq f.
Proof.
  intros W [Pb Pz]. unfold load_par, load_seq, load_tail. rewrite par_results_eq. fold (outcomes f).
  rewrite (merge_sched_invariant (f_compressed f) (blocks_of (outcomes f)) (s_blocks s)); [|apply ascending_nodup, block_keys_ascending, W | exact Pb].
  rewrite (zero_len_commutes _ _ _ _ Pz). reflexivity.
Qed.

(* the sequential order of the blocks is already sorted *)
Lemma seq_blocks_sorted f : file_wf f -> sort_blocks (blocks_of (outcomes f)) = blocks_of (outcomes f).
Proof. intro W. apply sort_blocks_id, block_keys_ascending, W. Qed.

(* ---- index lists really are permutations ---- *)
Lemma permute_seq {A} (l : list A) : permute (seq 0 (length l)) l = l.
Proof.
  unfold permute. induction l as [|a l IH]; cbn [length seq flat_map]; [reflexivity|].
  cbn [nth_error opt_list app]. f_equal. rewrite <- seq_shift, flat_map_concat_map, map_map.
  rewrite <- flat_map_concat_map. cbn [nth_error]. exact IH.
Qed.

Lemma Permutation_flat_map' {A B} (g : A -> list B) l l' : Permutation l l' -> Permutation (flat_map g l) (flat_map g l').
Proof.
  induction 1 as [|x l l' P IH|x y l|l l' l'' P1 IH1 P2 IH2]; cbn [flat_map].
  - constructor.
  - apply Permutation_app_head. exact IH.
  - rewrite !app_assoc. apply Permutation_app_tail. apply Permutation_app_comm.
  - eapply perm_trans; eassumption.
Qed.

Theorem permute_perm {A} (p : list nat) (l : list A) :
  Permutation p (seq 0 (length l)) -> Permutation (permute p l) l.
Proof.
  intro P. rewrite <- (permute_seq l) at 2. unfold permute. apply Permutation_flat_map'. exact P.
Qed.

(* ================= Part 5: the merge before the repair ================= *)
Definition olt (a b : oid) : Prop := oid_ltb a b = true.

Lemma oid_eqb_refl a : oid_eqb a a = true.
Proof. apply oid_eqb_eq; reflexivity. Qed.

Lemma oid_eqb_neq a b : oid_eqb a b = false <-> a <> b.
Proof.
  split; intro H.
  - intro E. apply oid_eqb_eq in E. congruence.
  - destruct (oid_eqb a b) eqn:E; [apply oid_eqb_eq in E; contradiction | reflexivity].
Qed.

Lemma oid_eqb_sym a b : oid_eqb a b = oid_eqb b a.
Proof.
  destruct (oid_eqb a b) eqn:E.
  - apply oid_eqb_eq in E; subst. symmetry; apply oid_eqb_refl.
  - symmetry. apply oid_eqb_neq. apply oid_eqb_neq in E. congruence.
Qed.

Lemma oid_ltb_lt a b :
  oid_ltb a b = true <-> (fst a < fst b \/ (fst a = fst b /\ snd a < snd b))%N.
Proof. unfold oid_ltb. rewrite orb_true_iff, andb_true_iff, !N.ltb_lt, N.eqb_eq. reflexivity. Qed.

Lemma olt_irrefl a : ~ olt a a.
Proof. unfold olt. rewrite oid_ltb_lt. lia. Qed.

Lemma olt_trans a b c : olt a b -> olt b c -> olt a c.
Proof. unfold olt. rewrite !oid_ltb_lt. lia. Qed.

Lemma olt_total a b : a = b \/ olt a b \/ olt b a.
Proof.
  unfold olt. rewrite !oid_ltb_lt. destruct a as [a1 a2], b as [b1 b2]; cbn [fst snd].
  destruct (N.lt_trichotomy a1 b1) as [H|[H|H]]; [lia| |lia].
  destruct (N.lt_trichotomy a2 b2) as [H2|[H2|H2]]; [lia| |lia].
  left. subst. reflexivity.
Qed.

Lemma oid_ltb_false a b : oid_ltb a b = false -> a = b \/ olt b a.
Proof. intro H. destruct (olt_total a b) as [E|[E|E]]; auto. unfold olt in E. congruence. Qed.

Definition msorted {V} (m : list (oid * V)) : Prop := StronglySorted olt (map fst m).

Lemma plookup_pinsert {V} (m : list (oid * V)) id v x :
  plookup (pinsert m id v) x = if oid_eqb id x then Some v else plookup m x.
Proof.
  induction m as [|[i v'] m IH]; cbn [pinsert plookup].
  - reflexivity.
  - destruct (oid_eqb i id) eqn:E.
    + apply oid_eqb_eq in E. subst. cbn [plookup]. destruct (oid_eqb id x); reflexivity.
    + destruct (oid_ltb id i).
      * cbn [plookup]. reflexivity.
      * cbn [plookup]. rewrite IH. destruct (oid_eqb i x) eqn:E2; [|reflexivity].
        apply oid_eqb_eq in E2. subst. rewrite oid_eqb_sym, E. reflexivity.
Qed.

Lemma keys_pinsert {V} (m : list (oid * V)) id v x :
  In x (map fst (pinsert m id v)) <-> x = id \/ In x (map fst m).
Proof.
  induction m as [|[i v'] m IH]; cbn [pinsert map fst In].
  - intuition.
  - destruct (oid_eqb i id) eqn:E.
    + apply oid_eqb_eq in E. subst. cbn [map fst In]. intuition.
    + destruct (oid_ltb id i); cbn [map fst In]; [intuition|]. rewrite IH. intuition.
Qed.

Lemma msorted_pinsert {V} (m : list (oid * V)) id v : msorted m -> msorted (pinsert m id v).
Proof.
  unfold msorted. induction m as [|[i v'] m IH]; cbn [pinsert map fst]; intro H.
  - repeat constructor.
  - inversion H as [|? ? Hs Hf]; subst.
    destruct (oid_eqb i id) eqn:E.
    + cbn [map fst]. exact H.
    + destruct (oid_ltb id i) eqn:L.
      * cbn [map fst]. constructor; [exact H|]. constructor; [exact L|].
        eapply Forall_impl; [|exact Hf]. intros a Ha. eapply olt_trans; [exact L | exact Ha].
      * cbn [map fst]. constructor; [apply IH; exact Hs|].
        apply Forall_forall. intros x Hx. apply keys_pinsert in Hx. destruct Hx as [->|Hx].
        -- destruct (oid_ltb_false _ _ L) as [E2|E2]; [|exact E2]. subst. rewrite oid_eqb_refl in E. discriminate.
        -- rewrite Forall_forall in Hf. auto.
Qed.

Lemma plookup_keys {V} (m : list (oid * V)) x v : plookup m x = Some v -> In x (map fst m).
Proof.
  induction m as [|[i w] m IH]; cbn [plookup map fst In]; [discriminate|].
  destruct (oid_eqb i x) eqn:E; [apply oid_eqb_eq in E; auto | auto].
Qed.

Lemma pmap_ext {V} (m1 : list (oid * V)) : forall m2,
  msorted m1 -> msorted m2 -> (forall x, plookup m1 x = plookup m2 x) -> m1 = m2.
Proof.
  unfold msorted. induction m1 as [|[i v] m1 IH]; intros m2 S1 S2 H.
  - destruct m2 as [|[j w] m2]; [reflexivity|]. specialize (H j). cbn [plookup] in H. rewrite oid_eqb_refl in H. discriminate.
  - destruct m2 as [|[j w] m2]; [specialize (H i); cbn [plookup] in H; rewrite oid_eqb_refl in H; discriminate|].
    cbn [map fst] in S1, S2. inversion S1 as [|? ? Ss1 Sf1]; inversion S2 as [|? ? Ss2 Sf2]; subst.
    rewrite Forall_forall in Sf1, Sf2.
    assert (i = j) as ->.
    { pose proof (H i) as Hi. pose proof (H j) as Hj. cbn [plookup] in Hi, Hj. rewrite oid_eqb_refl in Hi, Hj.
      destruct (oid_eqb j i) eqn:E; [apply oid_eqb_eq in E; auto|].
      rewrite oid_eqb_sym, E in Hj. symmetry in Hi. apply plookup_keys in Hi. apply plookup_keys in Hj.
      exfalso. apply (olt_irrefl i). eapply olt_trans; [apply Sf1; exact Hj | apply Sf2; exact Hi]. }
    pose proof (H j) as Hj. cbn [plookup] in Hj. rewrite oid_eqb_refl in Hj. inversion Hj; subst w.
    f_equal. apply IH; [exact Ss1 | exact Ss2|]. intro x. specialize (H x). cbn [plookup] in H.
    destruct (oid_eqb j x) eqn:E; [|exact H]. apply oid_eqb_eq in E. subst x.
    destruct (plookup m1 j) eqn:L1.
    { apply plookup_keys in L1. exfalso. exact (olt_irrefl _ (Sf1 _ L1)). }
    destruct (plookup m2 j) eqn:L2; [|reflexivity].
    apply plookup_keys in L2. exfalso. exact (olt_irrefl _ (Sf2 _ L2)).
Qed.

Lemma plookup_or_insert {V} (m : list (oid * V)) i v x :
  plookup (or_insert m i v) x =
  match plookup m x with Some w => Some w | None => if oid_eqb i x then Some v else None end.
Proof.
  unfold or_insert. destruct (plookup m i) eqn:L.
  - destruct (plookup m x) eqn:Lx; [reflexivity|]. destruct (oid_eqb i x) eqn:E; [|reflexivity].
    apply oid_eqb_eq in E. subst. congruence.
  - rewrite plookup_pinsert. destruct (oid_eqb i x) eqn:E.
    + apply oid_eqb_eq in E. subst. rewrite L. reflexivity.
    + destruct (plookup m x); reflexivity.
Qed.

Lemma msorted_or_insert {V} (m : list (oid * V)) i v : msorted m -> msorted (or_insert m i v).
Proof. intro S. unfold or_insert. destruct (plookup m i); [exact S | apply msorted_pinsert; exact S]. Qed.

Lemma or_insert_comm {V} (m : list (oid * V)) i1 v1 i2 v2 :
  msorted m -> (i1 = i2 -> v1 = v2) ->
  or_insert (or_insert m i1 v1) i2 v2 = or_insert (or_insert m i2 v2) i1 v1.
Proof.
  intros S A. apply pmap_ext; try (apply msorted_or_insert, msorted_or_insert; exact S).
  intro x. rewrite !plookup_or_insert. destruct (plookup m x); [reflexivity|].
  destruct (oid_eqb i1 x) eqn:E1, (oid_eqb i2 x) eqn:E2; try reflexivity.
  apply oid_eqb_eq in E1. apply oid_eqb_eq in E2. subst. rewrite A; reflexivity.
Qed.

Lemma msorted_collect {V} (l : list (oid * V)) : msorted (collect l).
Proof.
  unfold collect. assert (forall m, msorted m -> msorted (fold_left (fun m r => pinsert m (fst r) (snd r)) l m)) as G.
  { induction l as [|r l IH]; intros m S; cbn [fold_left]; [exact S|]. apply IH, msorted_pinsert, S. }
  apply G. constructor.
Qed.

Definition members_agree (ms : list member) : Prop :=
  forall i o1 o2, In (i, o1) ms -> In (i, o2) ms -> o1 = o2.

Lemma merge_members_perm ms ms' : Permutation ms ms' ->
  forall base, msorted base -> members_agree ms -> merge_members base ms = merge_members base ms'.
Proof.
  induction 1 as [|[i o] l l' P IH|[i1 o1] [i2 o2] l|l l' l'' P1 IH1 P2 IH2]; intros base S A.
  - reflexivity.
  - cbn [merge_members]. apply IH; [apply msorted_or_insert; exact S|].
    intros j a b Ha Hb. apply (A j); right; assumption.
  - cbn [merge_members]. rewrite (or_insert_comm base i2 (o2, None) i1 (o1, None)); [reflexivity | exact S|].
    intro E. subst. f_equal. apply (A i1); [left; reflexivity | right; left; reflexivity].
  - rewrite IH1 by assumption. apply IH2; [exact S|].
    intros j a b Ha Hb. apply (A j); eapply Permutation_in; try (apply Permutation_sym; exact P1); assumption.
Qed.

Lemma blocks_members_agree bl : blocks_agree bl -> members_agree (flat_map snd bl).
Proof.
  intros A i o1 o2 H1 H2. apply in_flat_map in H1. apply in_flat_map in H2.
  destruct H1 as [b1 [B1 M1]], H2 as [b2 [B2 M2]]. exact (A b1 b2 i o1 o2 B1 B2 M1 M2).
Qed.

Theorem merge_perm_invariant bl : blocks_agree bl -> forall bl' base, msorted base ->
  Permutation bl bl' -> merge_pinned bl' base = merge_pinned bl base.
Proof.
  intros A bl' base S P. unfold merge_pinned. symmetry. apply merge_members_perm; [|exact S|apply blocks_members_agree, A].
  apply Permutation_flat_map'. exact P.
Qed.

Theorem par_eq_seq_pinned f s :
  blocks_agree (blocks_of (outcomes f)) -> sched_valid f s -> load_par_pinned s f = load_seq_pinned f.
Proof.
  intros A [Pb Pz]. unfold load_par_pinned, load_seq_pinned, load_tail_pinned. rewrite par_results_eq. fold (outcomes f).
  rewrite (merge_perm_invariant _ A (s_blocks s) _ (msorted_collect _) (Permutation_sym Pb)).
  rewrite (zero_len_commutes _ _ _ _ Pz). reflexivity.
Qed.

(* ================= Witnesses ================= *)
(* The file written by props/c08.py witness_case(): a catalog and two object streams that both hold object 10
   (f_buf is irrelevant here: there is no zero-length stream). *)
Definition w_dict : dict :=
  [(bs "Type", OName (bs "ObjStm")); (bs "N", OInt 1); (bs "First", OInt 5); (bs "Length", OInt 7)].
Definition w_file : file :=
  mkFile [] (bs "1.5") [xe2; xe3; xcf; xd3] [(bs "Size", OInt 4); (bs "Root", ORef 1 0)] 3 false
    [ mkEntry 1 15 (PObj (1, 0)%N (ODict [(bs "Type", OName (bs "Catalog"))]));
      mkEntry 2 49 (PStm (2, 0)%N w_dict (bs "10 0 1 ") None (Some [((10, 0)%N, OInt 1)]));
      mkEntry 3 128 (PStm (3, 0)%N w_dict (bs "10 0 2 ") None (Some [((10, 0)%N, OInt 2)])) ] [].
Definition w_s1 : sched := mkSched [] [(2%N, [((10, 0)%N, OInt 1)]); (3%N, [((10, 0)%N, OInt 2)])] [].
Definition w_s2 : sched := mkSched [1] [(3%N, [((10, 0)%N, OInt 2)]); (2%N, [((10, 0)%N, OInt 1)])] [].

Lemma w_file_wf : file_wf w_file.
Proof. unfold file_wf. cbn. repeat split; repeat constructor; lia. Qed.

Lemma w_s1_valid : sched_valid w_file w_s1.
Proof. split; vm_compute; apply Permutation_refl. Qed.

Lemma w_s2_valid : sched_valid w_file w_s2.
Proof. split; vm_compute; [apply perm_swap | apply Permutation_refl]. Qed.

Lemma refuted_pinned :
  file_wf w_file /\ sched_valid w_file w_s1 /\ sched_valid w_file w_s2 /\
  lookup (d_objects (load_par_pinned w_s1 w_file)) (10, 0)%N = Some (OInt 1) /\
  lookup (d_objects (load_par_pinned w_s2 w_file)) (10, 0)%N = Some (OInt 2) /\
  load_par_pinned w_s1 w_file <> load_par_pinned w_s2 w_file.
Proof.
  split; [exact w_file_wf|]. split; [exact w_s1_valid|]. split; [exact w_s2_valid|].
  split; [vm_compute; reflexivity|]. split; [vm_compute; reflexivity|].
  intro H. apply (f_equal (fun d => lookup (d_objects d) (10, 0)%N)) in H. vm_compute in H. discriminate.
Qed.

(* the repaired merge gives one document for both schedules of the witness *)
Lemma witness_repaired :
  load_par w_s1 w_file = load_par w_s2 w_file /\
  lookup (d_objects (load_par w_s2 w_file)) (10, 0)%N = Some (OInt 1).
Proof. split; vm_compute; reflexivity. Qed.

(* A file on which everything happens: a stream (key 2) whose Length is object 10, defined only inside the object
   streams of keys 3 and 4 with different values, the xref placing it in 4; object 11 in both streams and not in the xref;
   the blocks arrive in reverse order, the range is cut in three. *)
Definition ex_os (v : Z) : dict :=
  [(bs "Type", OName (bs "ObjStm")); (bs "N", OInt 1); (bs "First", OInt 5); (bs "Length", OInt 7); (bs "V", OInt v)].
Definition ex_file : file :=
  mkFile (bs "0123456789") (bs "1.5") [] [(bs "Size", OInt 5)] 4 false
    [ mkEntry 1 100 (PObj (1, 0)%N (OName (bs "Plain")));
      mkEntry 2 2 (PStm (2, 0)%N [(K_Length, ORef 10 0)] [] (Some 2%N) None);
      mkEntry 3 200 (PStm (3, 0)%N (ex_os 3) (bs "10 0 3 ") None (Some [((10, 0)%N, OInt 3); ((11, 0)%N, OBool true)]));
      mkEntry 4 300 (PStm (4, 0)%N (ex_os 5) (bs "10 0 5 ") None
                          (Some [((10, 0)%N, OInt 5); ((1, 0)%N, ONull); ((11, 0)%N, OBool false)])) ]
    [(10, 4)%N].
Definition ex_sched : sched :=
  mkSched [1; 2] [(4%N, [((1, 0)%N, ONull); ((10, 0)%N, OInt 5); ((11, 0)%N, OBool false)]);
                  (3%N, [((10, 0)%N, OInt 3); ((11, 0)%N, OBool true)])] [(2, 0)%N].

Lemma example_holds :
  file_wf ex_file /\ sched_valid ex_file ex_sched /\
  s_blocks ex_sched <> blocks_of (outcomes ex_file) /\
  ~ blocks_agree (blocks_of (outcomes ex_file)) /\
  lookup (d_objects (load_par ex_sched ex_file)) (2, 0)%N = Some (OStream [(K_Length, OInt 5)] (bs "23456")) /\
  lookup (d_objects (load_par ex_sched ex_file)) (1, 0)%N = Some (OName (bs "Plain")) /\
  lookup (d_objects (load_par ex_sched ex_file)) (10, 0)%N = Some (OInt 5) /\
  lookup (d_objects (load_par ex_sched ex_file)) (11, 0)%N = Some (OBool true).
Proof.
  split; [unfold file_wf; cbn; repeat split; repeat constructor; lia|].
  split; [split; vm_compute; [apply perm_swap | apply Permutation_refl]|].
  split; [vm_compute; discriminate|].
  split.
  - intro A. specialize (A (3%N, [((10, 0)%N, OInt 3); ((11, 0)%N, OBool true)])
                           (4%N, [((1, 0)%N, ONull); ((10, 0)%N, OInt 5); ((11, 0)%N, OBool false)]) (10, 0)%N (OInt 3) (OInt 5)).
    assert (OInt 3 = OInt 5) as E; [|discriminate].
    apply A; vm_compute; auto.
  - repeat split; vm_compute; reflexivity.
Qed.

(* ================= Part 7: encrypted files -- the expansion of the object streams after decryption ================= *)
(* what follows the parallel phase is a function of its result: the whole load is schedule independent *)
Theorem full_par_eq_seq c f s : file_wf f -> sched_valid f s -> load_full_par c s f = load_full_seq c f.
Proof. intros W V. unfold load_full_par, load_full_seq. rewrite (par_eq_seq f s W V). reflexivity. Qed.

Lemma merge_as_in_order xc bl base : merge xc bl base = merge_in_order xc (sort_blocks bl) base.
Proof. reflexivity. Qed.

(* a list of blocks whose keys never decrease is left alone by the (stable) sort *)
Lemma sort_blocks_id_le bl : StronglySorted N.le (map fst bl) -> sort_blocks bl = bl.
Proof.
  induction bl as [|b bl IH]; cbn [map sort_blocks fold_right]; [reflexivity|].
  intro H. inversion H as [|? ? Hs Hf]; subst. fold (sort_blocks bl). rewrite (IH Hs).
  destruct bl as [|c bl]; cbn [insert_block]; [reflexivity|].
  cbn [map] in Hf. inversion Hf as [|? ? Hle _]; subst. apply N.leb_le in Hle. rewrite Hle. reflexivity.
Qed.

Lemma expand_block_cases c e : expand_block c e = [] \/ exists ms, expand_block c e = [(fst (fst e), ms)].
Proof.
  unfold expand_block. destruct (snd e) as [| | | | | | | |d ct|]; auto.
  destruct (has_type d K_ObjStm); auto. destruct (c_objstm c d ct); eauto.
Qed.

Lemma expand_keys_incl c m k : In k (map fst (expand_blocks c m)) -> exists id, In id (map fst m) /\ fst id = k.
Proof.
  induction m as [|e m IH]; cbn [expand_blocks flat_map map In]; [tauto|].
  fold (expand_blocks c m). rewrite map_app, in_app_iff. intros [H|H].
  - destruct (expand_block_cases c e) as [E|[ms E]]; rewrite E in H; cbn in H; [contradiction|].
    destruct H as [<-|[]]. exists (fst e). auto.
  - destruct (IH H) as (id & Hi & Hk). exists id. auto.
Qed.

Lemma olt_fst_le a b : olt a b -> (fst a <= fst b)%N.
Proof. unfold olt. rewrite oid_ltb_lt. lia. Qed.

(* the objects map is iterated by (number, generation): the container numbers never decrease *)
Lemma expand_keys_sorted c m : msorted m -> StronglySorted N.le (map fst (expand_blocks c m)).
Proof.
  unfold msorted. induction m as [|e m IH]; cbn [expand_blocks flat_map map]; intro S; [constructor|].
  fold (expand_blocks c m). inversion S as [|? ? Ss Sf]; subst. specialize (IH Ss).
  destruct (expand_block_cases c e) as [E|[ms E]]; rewrite E; cbn [app map fst]; [exact IH|].
  constructor; [exact IH|]. apply Forall_forall. intros k Hk.
  destruct (expand_keys_incl c m k Hk) as (id & Hi & <-). rewrite Forall_forall in Sf. apply olt_fst_le, Sf, Hi.
Qed.

(* consistency with the reader: the expansion after decryption IS the reader's merge (sort by container number, the
   members the cross-reference table places in the container first, then the numbers still absent) of the blocks keyed by the
   object numbers of the streams *)
Theorem enc_expansion_as_reader c xc m base :
  msorted m -> merge_in_order xc (expand_blocks c m) base = merge xc (expand_blocks c m) base.
Proof. intro S. unfold merge. rewrite sort_blocks_id_le; [reflexivity | apply expand_keys_sorted, S]. Qed.

(* hence, when no two object streams share their object number, the blocks could arrive in ANY order in front of the
   reader's merge without changing the result *)
Theorem enc_expansion_perm_invariant c xc m bl' base :
  msorted m -> NoDup (map fst (expand_blocks c m)) -> Permutation bl' (expand_blocks c m) ->
  merge xc bl' base = merge_in_order xc (expand_blocks c m) base.
Proof.
  intros S Hd P. rewrite (merge_sched_invariant xc (expand_blocks c m) bl' base Hd P). symmetry. apply enc_expansion_as_reader, S.
Qed.

(* decrypt_object does not move objects *)
Lemma decrypt_all_keys c eid m : forall m', decrypt_all c eid m = Some m' -> map fst m' = map fst m.
Proof.
  induction m as [|[id o] m IH]; cbn [decrypt_all]; intros m' H; [inversion H; reflexivity|].
  destruct (if match eid with Some e => oid_eqb id e | None => false end then Some o else c_dec c id o) as [o'|]; [|discriminate].
  destruct (decrypt_all c eid m) as [r|]; [|discriminate]. inversion H; subst. cbn [map fst]. f_equal. apply IH. reflexivity.
Qed.

(* Document.objects of a loaded document is a BTreeMap: sorted by (number, generation), no id twice *)
Lemma msorted_merge_members (ms : list member) : forall m : xmap, msorted m -> msorted (merge_members m ms).
Proof.
  induction ms as [|[i o] ms IH]; intros m S; cbn [merge_members]; [exact S|]. apply IH, msorted_or_insert, S.
Qed.

Lemma msorted_merge_rest (ms : list member) : forall m : xmap, msorted m -> msorted (merge_rest m ms).
Proof.
  induction ms as [|[i o] ms IH]; intros m S; cbn [merge_rest]; [exact S|]. apply IH.
  destruct (has_number m (fst i)); [exact S | apply msorted_pinsert, S].
Qed.

Lemma keys_update {V} (m : list (oid * V)) id F : map fst (update m id F) = map fst m.
Proof.
  unfold update. rewrite map_map. apply map_ext. intros [i v]. cbn [fst snd]. destruct (oid_eqb i id); reflexivity.
Qed.

Lemma keys_fix_stream buf m id : map fst (fix_stream buf m id) = map fst m.
Proof.
  unfold fix_stream. destruct (lookup (strip m) id); [|reflexivity].
  destruct (dereference (strip m) o) as [[rid ?]|]; [apply keys_update | reflexivity].
Qed.

Lemma keys_zero_pass buf zl : forall m, map fst (zero_pass buf zl m) = map fst m.
Proof.
  unfold zero_pass. induction zl as [|z zl IH]; intro m; cbn [fold_left]; [reflexivity|]. rewrite IH. apply keys_fix_stream.
Qed.

Lemma keys_strip m : map fst (strip m) = map fst m.
Proof. unfold strip. rewrite map_map. reflexivity. Qed.

Lemma load_seq_msorted f : msorted (d_objects (load_seq f)).
Proof.
  unfold load_seq, load_tail, msorted. cbn [d_objects]. rewrite keys_strip, keys_zero_pass.
  unfold merge. apply msorted_merge_rest, msorted_merge_members, msorted_collect.
Qed.

Theorem enc_load_expansion_as_reader c f eid m :
  decrypt_all c eid (d_objects (load_seq f)) = Some m ->
  merge_in_order (f_compressed f) (expand_blocks c m) (unstrip m) = merge (f_compressed f) (expand_blocks c m) (unstrip m).
Proof.
  intro H. apply enc_expansion_as_reader. unfold msorted. rewrite (decrypt_all_keys _ _ _ _ H). apply load_seq_msorted.
Qed.

(* ---- example: an encrypted file with two object streams that both hold object 10, the cross-reference stream placing it in
        the second; object 11 only in the first; object 12 in the first and, under generation 2, as a plain object.
        "Decryption" reverses stream bodies and strings. ---- *)
Definition xe_os : dict := [(bs "Type", OName (bs "ObjStm")); (bs "N", OInt 2); (bs "First", OInt 0); (bs "Length", OInt 2)].
Definition xe_file : file :=
  mkFile (bs "0123456789") (bs "1.5") [] [(bs "Size", OInt 13); (K_Encrypt, ORef 5 0); (bs "Root", ORef 1 0); (bs "ID", OArr [])] 12 true
    [ mkEntry 1 100 (PObj (1, 0)%N (ODict [(bs "Lang", OStr (bs "SU-ne") false)]));
      mkEntry 2 200 (PStm (2, 0)%N xe_os (bs "2c") None None);
      mkEntry 3 300 (PStm (3, 0)%N xe_os (bs "3c") None None);
      mkEntry 4 400 (PObj (12, 2)%N (OName (bs "New")));
      mkEntry 5 500 (PObj (5, 0)%N (ODict [(bs "Filter", OName (bs "Standard"))])) ]
    [(10, 3)%N].
Fixpoint xe_dec_obj (o : obj) : obj :=
  match o with
  | OStr s h => OStr (rev s) h
  | ODict d => ODict (map (fun kv => (fst kv, xe_dec_obj (snd kv))) d)
  | OStream d ct => OStream d (rev ct)
  | _ => o
  end.
Definition xe_crypt : crypt :=
  mkCrypt true (fun _ o => Some (xe_dec_obj o))
    (fun _ ct => if bytes_eqb ct (bs "c2") then Some [((10, 0)%N, OInt 1); ((11, 0)%N, OName (bs "A")); ((12, 0)%N, OName (bs "Old"))]
                 else if bytes_eqb ct (bs "c3") then Some [((10, 0)%N, OInt 2)] else None).
Definition xe_sched : sched := mkSched [2; 1] [] [].
Definition lres_objects (r : lres) : objmap := match r with LDoc d => d_objects d | LErr => [] end.
Definition lres_trailer (r : lres) : dict := match r with LDoc d => d_trailer d | LErr => [] end.

Lemma enc_example_holds :
  file_wf xe_file /\ sched_valid xe_file xe_sched /\
  load_full_par xe_crypt xe_sched xe_file = load_full_seq xe_crypt xe_file /\
  lookup (lres_objects (load_full_seq xe_crypt xe_file)) (1, 0)%N = Some (ODict [(bs "Lang", OStr (bs "en-US") false)]) /\
  lookup (lres_objects (load_full_seq xe_crypt xe_file)) (2, 0)%N = Some (OStream xe_os (bs "c2")) /\
  lookup (lres_objects (load_full_seq xe_crypt xe_file)) (10, 0)%N = Some (OInt 2) /\
  lookup (lres_objects (load_full_seq xe_crypt xe_file)) (11, 0)%N = Some (OName (bs "A")) /\
  lookup (lres_objects (load_full_seq xe_crypt xe_file)) (12, 0)%N = None /\
  lookup (lres_objects (load_full_seq xe_crypt xe_file)) (12, 2)%N = Some (OName (bs "New")) /\
  lookup (lres_objects (load_full_seq xe_crypt xe_file)) (5, 0)%N = None /\
  lres_trailer (load_full_seq xe_crypt xe_file) = [(bs "Size", OInt 13); (bs "ID", OArr []); (bs "Root", ORef 1 0)].
Proof.
  split; [unfold file_wf; cbn; repeat split; repeat constructor; lia|].
  split; [split; vm_compute; constructor|].
  repeat split; vm_compute; reflexivity.
Qed.

(* the same file through the expansion as it was before /repo 959d50f: object 10 came from the first object stream although the
   cross-reference stream places it in the second, and the superseded generation 0 of object 12 was loaded beside generation 2 *)
Lemma enc_old_expansion_differs :
  lookup (lres_objects (decrypt_doc_old xe_crypt (load_seq xe_file))) (10, 0)%N = Some (OInt 1) /\
  lookup (lres_objects (decrypt_doc_old xe_crypt (load_seq xe_file))) (12, 0)%N = Some (OName (bs "Old")).
Proof. split; vm_compute; reflexivity. Qed.
