(* ComposeCrypt.v -- property C05 composed with property C01: a document encrypted by Document::encrypt, saved
   (either cross-reference format) and loaded again is restored by Document::decrypt with the user or the owner
   password -- and by the load itself when the empty password opens it.

   C01_full_enc (Proofs/LoadProofsFull.v: load_save_enc) says what the reader hands to the decrypt attempt: the
   document [reloaded xt d1] -- d1's objects in normal form (a real written as an integer comes back as an integer, ..),
   the trailer with Size (and the cross-reference stream's entries), in the stream format one more object (the
   cross-reference stream, which decrypt_object skips).  C05_document_rt is about d1 itself.  The bridge:
     decrypt_norm            decrypt_object commutes with the normal form of objects (it reads names, strings, stream
                             bodies, Type / Filter / DecodeParms look-ups; the normal form changes reals only);
     auth / decode / palg    read the document through the encryption dictionary and the first ID string only
                             ([doc_cong]); the encryption dictionary EncryptionState::encode writes holds no real
                             ([encode_norm]) and the first ID string is a string;
     decrypt_transport       hence Document::decrypt on [reloaded xt d1] does what it does on d1, on normal forms.
   Main theorems: [decrypt_reloaded], [encrypt_save_load_decrypt] (statements repeated in Props/C05.v). *)
From LV Require Import Base.Bytes Base.Sx Model.Obj Model.DocQ Model.Writer Model.Parser Model.Save Model.Xref
  Model.Loader Model.LoaderExt Model.LoaderEnc Model.LoaderCrypt Model.Crypto.Handler
  Proofs.RealProofs Proofs.ObjectRtProofs Spec.SaveSpec Proofs.LoadProofs Proofs.LoadProofsXref Proofs.LoadProofsTable
  Proofs.LoadProofsAgain Proofs.LoadProofsStream Proofs.LoadProofsFull Proofs.LoaderEncProofs
  Proofs.FilterProofsDict Proofs.CryptoProofsFilter Proofs.CryptoProofsObject Proofs.CryptoProofsDoc Proofs.CryptoProofsAuth.

Local Open Scope N_scope.

Definition rmap {A B} (f : A -> B) (r : res A) : res B :=
  match r with Ok a => Ok (f a) | Err e => Err e | Panic => Panic end.

(* ---------- the normal form of C01 does not change what the security handler looks at ---------- *)
Lemma namef_normobj x : namef (norm_obj x) = namef x.
Proof.
  destruct x; try reflexivity. cbn [norm_obj].
  destruct (norm_real_shape r) as [[z ->]|[r' ->]]; reflexivity.
Qed.

Lemma omap_namef_norm l : omap namef (map norm_obj l) = omap namef l.
Proof. induction l as [|x l IH]; [reflexivity|]. cbn [map omap]. rewrite namef_normobj, IH. reflexivity. Qed.

Lemma dp1_norm x : dp1 (Some (norm_obj x)) = dp1 (Some x).
Proof.
  destruct x; try reflexivity.
  - cbn [norm_obj]. destruct (norm_real_shape r) as [[z ->]|[r' ->]]; reflexivity.
  - cbn [norm_obj dp1]. fold (ObjectRtProofs.norm_dict d). rewrite LoadProofs.dict_get_norm.
    destruct (dict_get d K_Name) as [y|]; [|reflexivity]. cbn [option_map].
    destruct y; cbn [norm_obj]; try reflexivity.
    destruct (norm_real_shape r) as [[z ->]|[r' ->]]; reflexivity.
Qed.

Lemma fview_norm x : fview (option_map norm_obj x) = fview x.
Proof.
  destruct x as [y|]; [|reflexivity]. cbn [option_map]. destruct y; try reflexivity.
  - cbn [norm_obj]. destruct (norm_real_shape r) as [[z ->]|[r' ->]]; reflexivity.
  - cbn [norm_obj fview]. apply omap_namef_norm.
Qed.

Lemma dpview_norm x : dpview (option_map norm_obj x) = dpview x.
Proof.
  destruct x as [y|]; [|reflexivity]. cbn [option_map]. destruct y.
  7: { cbn [norm_obj dpview]. f_equal. rewrite map_map. apply map_ext. intro p. apply dp1_norm. }
  4: { cbn [norm_obj]. destruct (norm_real_shape r) as [[z ->]|[r' ->]]; reflexivity. }
  all: try reflexivity.
  - change (inl (dp1 (Some (norm_obj (ODict d)))) = (inl (dp1 (Some (ODict d))) : option (option bytes) + list (option (option bytes)))).
    rewrite dp1_norm. reflexivity.
Qed.

Lemma type_view_norm d :
  option_map namef (dict_get (ObjectRtProofs.norm_dict d) K_Type) = option_map namef (dict_get d K_Type).
Proof.
  rewrite LoadProofs.dict_get_norm. destruct (dict_get d K_Type) as [y|]; [|reflexivity]. cbn [option_map].
  rewrite namef_normobj. reflexivity.
Qed.

Lemma skip_object_norm st o : skip_object st (norm_obj o) = skip_object st o.
Proof.
  destruct o; try reflexivity.
  - cbn [norm_obj]. destruct (norm_real_shape r) as [[z ->]|[r' ->]]; reflexivity.
  - cbn [norm_obj]. apply skip_stream_view. apply type_view_norm.
Qed.

Lemma stream_cf_norm st d c : stream_cf st (OStream (ObjectRtProofs.norm_dict d) c) = stream_cf st (OStream d c).
Proof.
  apply stream_cf_view; [apply type_view_norm | |]; rewrite LoadProofs.dict_get_norm; [apply fview_norm | apply dpview_norm].
Qed.

Lemma norm_dict_set d k v :
  ObjectRtProofs.norm_dict (dict_set d k v) = dict_set (ObjectRtProofs.norm_dict d) k (norm_obj v).
Proof.
  induction d as [|[k0 x] d IH]; [reflexivity|]. cbn [dict_set ObjectRtProofs.norm_dict map fst snd].
  destruct (bytes_eqb k0 k); cbn [map fst snd]; [reflexivity|]. f_equal. exact IH.
Qed.

(* ---------- decrypt_object commutes with the normal form ---------- *)
Theorem decrypt_norm P st id o :
  decrypt_object P st id (norm_obj o) = rmap norm_obj (decrypt_object P st id o).
Proof.
  induction o as [|b|z|r|n|s h|l Hl|d Hd|d c Hd|i g] using obj_ind5;
    rewrite !decrypt_object_eq, skip_object_norm.
  - reflexivity.
  - reflexivity.
  - reflexivity.
  - cbn [skip_object Handler.is_xref_stream is_metadata_stream andb orb dec_body rmap norm_obj].
    destruct (norm_real_shape r) as [[z ->]|[r' ->]]; reflexivity.
  - reflexivity.
  - cbn [skip_object Handler.is_xref_stream is_metadata_stream andb orb dec_body norm_obj].
    destruct (cf_decrypt P (string_filter st) (cf_compute_key P (string_filter st) (es_key st) id) s); reflexivity.
  - cbn [skip_object Handler.is_xref_stream is_metadata_stream andb orb dec_body norm_obj].
    assert (E : dec_list P st id (map norm_obj l) = rmap (map norm_obj) (dec_list P st id l)).
    { induction Hl as [|x l Hx _ IH]; [reflexivity|]. cbn [map dec_list]. rewrite Hx.
      destruct (decrypt_object P st id x) as [x'| |]; cbn [rmap rbind]; try reflexivity.
      rewrite IH. destruct (dec_list P st id l); reflexivity. }
    rewrite E. destruct (dec_list P st id l); reflexivity.
  - cbn [skip_object Handler.is_xref_stream is_metadata_stream andb orb dec_body norm_obj].
    assert (E : dec_dict P st id (map (fun kv => (fst kv, norm_obj (snd kv))) d) =
                rmap ObjectRtProofs.norm_dict (dec_dict P st id d)).
    { induction Hd as [|[k x] d Hx _ IH]; [reflexivity|]. cbn [map dec_dict fst snd] in *. rewrite Hx.
      destruct (decrypt_object P st id x) as [x'| |]; cbn [rmap rbind]; try reflexivity.
      rewrite IH. destruct (dec_dict P st id d); reflexivity. }
    rewrite E. destruct (dec_dict P st id d); reflexivity.
  - destruct (skip_object st (OStream d c)); [reflexivity|].
    cbn [dec_body norm_obj]. fold (ObjectRtProofs.norm_dict d). rewrite stream_cf_norm.
    assert (E : dec_dict P st id (ObjectRtProofs.norm_dict d) = rmap ObjectRtProofs.norm_dict (dec_dict P st id d)).
    { unfold ObjectRtProofs.norm_dict at 1.
      induction Hd as [|[k x] d Hx _ IH]; [reflexivity|]. cbn [map dec_dict fst snd] in *. rewrite Hx.
      destruct (decrypt_object P st id x) as [x'| |]; cbn [rmap rbind]; try reflexivity.
      rewrite IH. destruct (dec_dict P st id d); reflexivity. }
    rewrite E. destruct (dec_dict P st id d) as [d'| |]; cbn [rmap rbind]; try reflexivity.
    destruct (cf_decrypt P (stream_cf st (OStream d c)) (cf_compute_key P (stream_cf st (OStream d c)) (es_key st) id) c)
      as [p| |]; cbn [rmap rbind]; try reflexivity.
    unfold set_content. cbn [norm_obj]. fold (ObjectRtProofs.norm_dict (dict_set d' K_Length (OInt (Z.of_nat (length p))))).
    rewrite norm_dict_set. reflexivity.
  - reflexivity.
Qed.

Lemma decrypt_objects_norm P st skip m :
  decrypt_objects P st skip (norm_objects m) = rmap norm_objects (decrypt_objects P st skip m).
Proof.
  induction m as [|[i o] m IH]; [reflexivity|]. cbn [norm_objects map decrypt_objects fst snd].
  fold (norm_objects m). rewrite IH.
  destruct (match skip with Some s => oid_eqb i s | None => false end).
  - cbn [rbind]. destruct (decrypt_objects P st skip m); reflexivity.
  - rewrite decrypt_norm. destruct (decrypt_object P st i o); cbn [rmap rbind]; try reflexivity.
    destruct (decrypt_objects P st skip m); reflexivity.
Qed.

Lemma decrypt_objects_app P st skip m X :
  decrypt_objects P st skip (m ++ X) =
  rlet r := decrypt_objects P st skip m in rlet r' := decrypt_objects P st skip X in Ok (r ++ r').
Proof.
  induction m as [|[i o] m IH]; cbn [app decrypt_objects rbind].
  - destruct (decrypt_objects P st skip X); reflexivity.
  - destruct (if match skip with Some s => oid_eqb i s | None => false end then Ok o else decrypt_object P st i o);
      cbn [rbind]; try reflexivity.
    rewrite IH. destruct (decrypt_objects P st skip m); cbn [rbind]; try reflexivity.
    destruct (decrypt_objects P st skip X); reflexivity.
Qed.

(* cross-reference streams are left alone *)
Lemma decrypt_objects_xref P st skip X :
  Forall (fun io : oid * obj => Handler.is_xref_stream (snd io) = true) X -> decrypt_objects P st skip X = Ok X.
Proof.
  induction 1 as [|[i o] X Ho _ IH]; [reflexivity|]. cbn [decrypt_objects snd] in *.
  rewrite decrypt_object_eq. unfold skip_object. rewrite Ho. cbn [orb].
  destruct (match skip with Some s => oid_eqb i s | None => false end); cbn [rbind]; rewrite IH; reflexivity.
Qed.

(* ---------- authentication and key recovery read the document through two look-ups ---------- *)
Section Cong.
  Variable P : prims.
  Variables d d' : doc.
  Hypothesis Hge : get_encrypted d' = get_encrypted d.
  Hypothesis Hid : file_id_0 d' = file_id_0 d.

  Lemma is_encrypted_cong : is_encrypted d' = is_encrypted d.
  Proof. unfold is_encrypted. rewrite Hge. reflexivity. Qed.

  Lemma palg_cong : palg_of_doc d' = palg_of_doc d.
  Proof. unfold palg_of_doc. rewrite Hge. reflexivity. Qed.

  Lemma fek_r4_cong a pw : compute_fek_r4 P a d' pw = compute_fek_r4 P a d pw.
  Proof. unfold compute_fek_r4. rewrite Hid. reflexivity. Qed.

  Lemma auth_user_r4_cong a pw : auth_user_r4 P a d' pw = auth_user_r4 P a d pw.
  Proof. unfold auth_user_r4, user_value_r2, user_value_r3. rewrite !fek_r4_cong, Hid. reflexivity. Qed.

  Lemma auth_user_cong a pw : auth_user P a d' pw = auth_user P a d pw.
  Proof. unfold auth_user. rewrite auth_user_r4_cong. reflexivity. Qed.

  Lemma auth_owner_cong a pw : auth_owner P a d' pw = auth_owner P a d pw.
  Proof.
    unfold auth_owner, auth_owner_r4. destruct (recover_user_r4 P a pw); cbn [rbind]; try reflexivity.
    rewrite auth_user_r4_cong. reflexivity.
  Qed.

  Lemma compute_fek_cong a pw : compute_fek P a d' pw = compute_fek P a d pw.
  Proof.
    unfold compute_fek. rewrite !auth_user_r4_cong, !fek_r4_cong.
    destruct (recover_user_r4 P a pw) as [u| |]; try reflexivity.
    rewrite !auth_user_r4_cong, !fek_r4_cong. reflexivity.
  Qed.

  Lemma crypt_filters_cong : get_crypt_filters d' = get_crypt_filters d.
  Proof. unfold get_crypt_filters. rewrite Hge. reflexivity. Qed.

  Lemma decode_cong pw : decode P d' pw = decode P d pw.
  Proof.
    unfold decode. rewrite Hge, palg_cong, crypt_filters_cong.
    destruct (get_encrypted d) as [e|]; [|reflexivity].
    destruct (dict_get e K_Filter) as [f|]; [|reflexivity]. destruct f; try reflexivity.
    destruct (negb (bytes_eqb n N_Standard)); [reflexivity|].
    destruct (palg_of_doc d) as [a| |]; cbn [rbind]; try reflexivity.
    rewrite compute_fek_cong. reflexivity.
  Qed.

  Lemma auth_raw_cong pw : authenticate_raw_password P d' pw = authenticate_raw_password P d pw.
  Proof.
    unfold authenticate_raw_password. rewrite is_encrypted_cong, palg_cong.
    destruct (negb (is_encrypted d)); [reflexivity|].
    destruct (palg_of_doc d) as [a| |]; cbn [rbind]; try reflexivity.
    rewrite auth_owner_cong, auth_user_cong. reflexivity.
  Qed.

  Lemma auth_password_cong pw : authenticate_password P d' pw = authenticate_password P d pw.
  Proof.
    unfold authenticate_password. rewrite is_encrypted_cong, palg_cong.
    destruct (negb (is_encrypted d)); [reflexivity|].
    destruct (palg_of_doc d) as [a| |]; cbn [rbind]; try reflexivity.
    destruct (sanitize_password a pw) as [pw'| |]; cbn [rbind]; try reflexivity.
    rewrite auth_owner_cong, auth_user_cong. reflexivity.
  Qed.
End Cong.

(* without an Encrypt entry the decrypt attempt of the reader leaves the document alone (authenticate_password answers
   NotEncrypted): why Model/LoaderEnc.v consults the attempt in the Encrypt branch only *)
Lemma after_crypt_without_encrypt P x d t :
  dict_get (d_trailer d) Handler.K_Encrypt = None -> after_crypt P x d t = CLoad (LOk d t).
Proof.
  intro H. unfold after_crypt, authenticate_password, is_encrypted, get_encrypted. rewrite H. reflexivity.
Qed.

(* ---------- the encryption dictionary holds no real; the first ID string survives the normal form ---------- *)
Lemma norm_set d k v :
  ObjectRtProofs.norm_dict d = d -> norm_obj v = v -> ObjectRtProofs.norm_dict (dict_set d k v) = dict_set d k v.
Proof. intros Hd Hv. rewrite norm_dict_set, Hd, Hv. reflexivity. Qed.

Lemma norm_cf_fold (cfs : cfmap) : forall acc,
  ObjectRtProofs.norm_dict acc = acc ->
  ObjectRtProofs.norm_dict
    (fold_left (fun fs nf => dict_set fs (fst nf)
                  (ODict (dict_set (dict_set [] K_Type (OName N_CryptFilter)) K_CFM (OName (cfm_method (snd nf))))))
               cfs acc) =
  fold_left (fun fs nf => dict_set fs (fst nf)
               (ODict (dict_set (dict_set [] K_Type (OName N_CryptFilter)) K_CFM (OName (cfm_method (snd nf))))))
            cfs acc.
Proof.
  induction cfs as [|nf cfs IH]; intros acc H; [exact H|]. cbn [fold_left]. apply IH.
  apply norm_set; [exact H | reflexivity].
Qed.

Lemma encode_norm st : ObjectRtProofs.norm_dict (encode st) = encode st.
Proof.
  unfold encode.
  repeat first
    [ reflexivity
    | apply norm_set; [|try reflexivity]
    | match goal with
      | |- ObjectRtProofs.norm_dict (match ?x with Some _ => _ | None => _ end) = _ => destruct x
      | |- ObjectRtProofs.norm_dict (if ?b then _ else _) = _ => destruct b
      | |- norm_obj (ODict (fold_left _ _ _)) = _ =>
        cbn [norm_obj]; f_equal; apply (norm_cf_fold (es_crypt_filters st) []); reflexivity
      end ].
Qed.

Lemma file_id_0_norm (d d' : doc) :
  dict_get (d_trailer d') K_ID = option_map norm_obj (dict_get (d_trailer d) K_ID) -> file_id_0 d' = file_id_0 d.
Proof.
  unfold file_id_0. intros ->. destruct (dict_get (d_trailer d) K_ID) as [v|]; [|reflexivity]. cbn [option_map].
  destruct v; try reflexivity.
  - cbn [norm_obj]. destruct (norm_real_shape r) as [[z ->]|[r' ->]]; reflexivity.
  - cbn [norm_obj]. destruct l as [|x l]; [reflexivity|]. cbn [map]. destruct x; try reflexivity.
    cbn [norm_obj]. destruct (norm_real_shape r) as [[z ->]|[r' ->]]; reflexivity.
Qed.

(* ---------- Document::decrypt on a document and on its reloaded form ---------- *)
Lemma remove_app_in (a b : objmap) id : In id (map fst a) -> remove (a ++ b) id = remove a id ++ b.
Proof.
  induction a as [|[i o] a IH]; cbn [map fst In app remove]; [contradiction|]. intro H.
  destruct (oid_eqb i id) eqn:E; [reflexivity|]. cbn [app]. f_equal. apply IH.
  destruct H as [H|H]; [|exact H]. subst i. rewrite (proj2 (oid_eqb_eq id id) eq_refl) in E. discriminate.
Qed.

Lemma lookup_app_some (a b : objmap) id o : lookup a id = Some o -> lookup (a ++ b) id = Some o.
Proof.
  induction a as [|[i o'] a IH]; [discriminate|]. cbn [app lookup]. destruct (oid_eqb i id); [auto | exact IH].
Qed.

Lemma lookup_norm_objects m id : lookup (norm_objects m) id = option_map norm_obj (lookup m id).
Proof.
  induction m as [|[i o] m IH]; [reflexivity|]. cbn [norm_objects map lookup fst snd].
  destruct (oid_eqb i id); [reflexivity | exact IH].
Qed.

Lemma get_dictionary_direct m id e : lookup m id = Some (ODict e) -> get_dictionary m id = Some e.
Proof.
  intro H. unfold get_dictionary, get_object. rewrite H. unfold dereference.
  destruct (N.to_nat Gen.Consts.DEREF_LIMIT); reflexivity.
Qed.

Section Transport.
  Variable P : prims.
  Variable xr : N -> option N.
  Variables d1 d1' : doc.
  Variables (i g : N) (e : dict) (X : objmap).
  Hypothesis He : dict_get (d_trailer d1) Handler.K_Encrypt = Some (ORef i g).
  Hypothesis He' : dict_get (d_trailer d1') Handler.K_Encrypt = Some (ORef i g).
  Hypothesis Hdict : lookup (d_objects d1) (i, g) = Some (ODict e).
  Hypothesis Hnorm : ObjectRtProofs.norm_dict e = e.
  Hypothesis Hid : file_id_0 d1' = file_id_0 d1.
  Hypothesis Hobjs : d_objects d1' = norm_objects (d_objects d1) ++ X.
  Hypothesis HX : Forall (fun io : oid * obj => Handler.is_xref_stream (snd io) = true) X.

  Lemma transport_get_encrypted : get_encrypted d1' = get_encrypted d1.
  Proof.
    unfold get_encrypted. rewrite He, He'.
    rewrite (get_dictionary_direct _ _ _ Hdict). apply get_dictionary_direct.
    rewrite Hobjs. apply lookup_app_some. rewrite lookup_norm_objects, Hdict. cbn [option_map norm_obj].
    fold (ObjectRtProofs.norm_dict e). rewrite Hnorm. reflexivity.
  Qed.

  (* decrypt_raw on the reloaded document: the same state, the objects of the original run in normal form, then the
     cross-reference stream objects (left alone) *)
  Lemma decrypt_raw_transport pw p st' :
    doc_decrypt_raw_x P xr d1 pw = DOk p st' ->
    exists objs,
      decrypt_objects P st' (Some (i, g)) (d_objects d1) = Ok objs /\
      doc_decrypt_raw_x P xr d1' pw =
        DOk {| d_version := d_version d1'; d_binary_mark := d_binary_mark d1';
               d_trailer := dict_swap_remove (d_trailer d1') Handler.K_Encrypt;
               d_objects := remove (objstm_pass P xr (norm_objects objs ++ X)) (i, g);
               d_max_id := d_max_id d1' |} st'.
  Proof.
    pose proof transport_get_encrypted as Hge.
    unfold doc_decrypt_raw_x. rewrite (is_encrypted_cong d1 d1' Hge), (auth_raw_cong P d1 d1' Hge Hid), (decode_cong P d1 d1' Hge Hid).
    rewrite He, He'.
    destruct (negb (is_encrypted d1)); [discriminate|].
    destruct (authenticate_raw_password P d1 pw); try discriminate.
    destruct (decode P d1 pw) as [st| |]; try discriminate.
    destruct (decrypt_objects P st (Some (i, g)) (d_objects d1)) as [objs| |] eqn:Ed; try discriminate.
    intro H. inversion H; subst p st'. exists objs. split; [exact Ed|].
    rewrite Hobjs, decrypt_objects_app, decrypt_objects_norm, Ed. cbn [rmap rbind].
    rewrite (decrypt_objects_xref P st (Some (i, g)) X HX). reflexivity.
  Qed.

  Lemma decrypt_transport pw p st' :
    doc_decrypt_x P xr d1 pw = DOk p st' ->
    exists objs,
      decrypt_objects P st' (Some (i, g)) (d_objects d1) = Ok objs /\
      doc_decrypt_x P xr d1' pw =
        DOk {| d_version := d_version d1'; d_binary_mark := d_binary_mark d1';
               d_trailer := dict_swap_remove (d_trailer d1') Handler.K_Encrypt;
               d_objects := remove (objstm_pass P xr (norm_objects objs ++ X)) (i, g);
               d_max_id := d_max_id d1' |} st'.
  Proof.
    pose proof transport_get_encrypted as Hge.
    unfold doc_decrypt_x. rewrite (is_encrypted_cong d1 d1' Hge), (palg_cong d1 d1' Hge).
    destruct (negb (is_encrypted d1)); [discriminate|].
    destruct (palg_of_doc d1) as [a| |]; try discriminate.
    destruct (sanitize_password a pw) as [pw'| |]; try discriminate.
    apply decrypt_raw_transport.
  Qed.
End Transport.

(* ---------- a document of C01's domain has right Length entries and no object stream ---------- *)
Lemma wf_lengths_ok st o : obj_wf o -> lengths_ok st o.
Proof.
  induction o as [|b|z|r|n|s h|l Hl|d Hd|d c Hd|i g] using obj_ind5; intro H;
    cbn [lengths_ok skip_object Handler.is_xref_stream is_metadata_stream andb orb]; try exact I.
  - inversion H as [| | | | | |l0 Hw| |]; subst. clear H.
    induction Hl as [|x l Hx _ IH]; [exact I|]. inversion Hw; subst. split; [apply Hx; assumption | apply IH; assumption].
  - inversion H as [| | | | | | |d0 _ Hw|]; subst. clear H.
    induction Hd as [|[k x] d Hx _ IH]; [exact I|]. inversion Hw; subst. cbn [snd] in *.
    split; [apply Hx; assumption | apply IH; assumption].
  - inversion H.
Qed.

Lemma top_wf_lengths_ok st o : top_wf o -> lengths_ok st o.
Proof.
  destruct o as [|b|z|r|n|s h|l|d|d c|i g]; cbn [top_wf]; try apply wf_lengths_ok.
  intros [Hw Hlen]. cbn [lengths_ok]. destruct (skip_object st (OStream d c)); [exact I|]. split; [exact Hlen|].
  inversion Hw as [| | | | | | |d0 _ Hf|]; subst. clear Hw Hlen.
  induction Hf as [|[k x] d Hx _ IH]; [exact I|]. cbn [snd] in *. split; [apply wf_lengths_ok; exact Hx | exact IH].
Qed.

Lemma not_skipped_not_objstm o : skipped o = false -> is_objstm o = false.
Proof.
  intro H. destruct o as [| | | | | | | |d c|]; try reflexivity. unfold is_objstm, has_type.
  unfold skipped, type_name, get_type in H. destruct (dict_get d K_Type) as [v|]; [|reflexivity].
  destruct v; try reflexivity. unfold Gen.Lex.SKIP_TYPES in H. cbn [existsb] in H.
  apply orb_false_iff in H as [H _]. exact H.
Qed.

Lemma has_objstm_false m : Forall (fun io : oid * obj => is_objstm (snd io) = false) m -> has_objstm m = false.
Proof.
  induction 1 as [|io m H _ IH]; [reflexivity|]. unfold has_objstm in *. cbn [existsb].
  change (match snd io with OStream d _ => has_type d N_ObjStm | _ => false end) with (is_objstm (snd io)).
  rewrite H, IH. reflexivity.
Qed.

Lemma has_objstm_app a b : has_objstm (a ++ b) = has_objstm a || has_objstm b.
Proof. unfold has_objstm. apply existsb_app. Qed.

Lemma is_objstm_normobj o : is_objstm (norm_obj o) = is_objstm o.
Proof.
  destruct o; try reflexivity.
  - cbn [norm_obj]. destruct (norm_real_shape r) as [[z ->]|[r' ->]]; reflexivity.
  - cbn [norm_obj is_objstm]. apply has_type_view. apply type_view_norm.
Qed.

Lemma has_objstm_norm_objects m : has_objstm (norm_objects m) = has_objstm m.
Proof.
  unfold has_objstm, norm_objects. induction m as [|[i o] m IH]; [reflexivity|]. cbn [map existsb fst snd].
  change (match norm_obj o with OStream d _ => has_type d N_ObjStm | _ => false end) with (is_objstm (norm_obj o)).
  change (match o with OStream d _ => has_type d N_ObjStm | _ => false end) with (is_objstm o).
  rewrite is_objstm_normobj, IH. reflexivity.
Qed.

Lemma xref_not_objstm X :
  Forall (fun io : oid * obj => Handler.is_xref_stream (snd io) = true) X -> has_objstm X = false.
Proof.
  intro H. apply has_objstm_false. eapply Forall_impl; [|exact H]. intros [i o] Ho. cbn [snd] in *.
  destruct o; try reflexivity. unfold Handler.is_xref_stream, has_type in Ho. unfold is_objstm, has_type.
  destruct (dict_get d K_Type) as [v|]; [|discriminate]. destruct v; try discriminate.
  destruct (bytes_eqb n N_ObjStm) eqn:E; [|reflexivity]. apply bytes_eqb_eq in E. subst n. discriminate Ho.
Qed.

Lemma remove_norm_objects m id : remove (norm_objects m) id = norm_objects (remove m id).
Proof.
  induction m as [|[i o] m IH]; [reflexivity|]. cbn [norm_objects map remove fst snd].
  destruct (oid_eqb i id); [reflexivity|]. cbn [map fst snd]. f_equal. exact IH.
Qed.

Lemma in_keys_insert : forall (m : objmap) id o, In id (map fst (insert m id o)).
Proof.
  induction m as [|[i o'] m IH]; intros id o; cbn [insert]; [left; reflexivity|].
  destruct (oid_eqb i id) eqn:E; [left; apply oid_eqb_eq in E; exact E|].
  destruct (oid_ltb id i); [left; reflexivity | right; apply IH].
Qed.

Lemma user_objects_app a b : user_objects (a ++ b) = user_objects a ++ user_objects b.
Proof. unfold user_objects. apply filter_app. Qed.

Lemma user_objects_xref X :
  Forall (fun io : oid * obj => Handler.is_xref_stream (snd io) = true) X -> user_objects X = [].
Proof.
  induction 1 as [|io X H _ IH]; [reflexivity|]. cbn [user_objects filter].
  change (SaveSpec.is_xref_stream (snd io)) with (Handler.is_xref_stream (snd io)). rewrite H. cbn [negb]. exact IH.
Qed.

(* ---------- the reloaded form of any document of the wider domain ---------- *)
Lemma same_doc_reloaded_enc xt d : savable_enc d -> same_doc d (reloaded xt d).
Proof.
  intro S. pose proof (savable_written_enc d S) as S0.
  apply (same_doc_ext d (written d)); [reflexivity | rewrite written_savable_enc by exact S; reflexivity | reflexivity |].
  destruct xt; [apply same_doc_reloaded_table_enc | apply same_doc_reloaded_stream_enc]; exact S0.
Qed.

Lemma reloaded_objects_shape xt d :
  savable_enc d ->
  exists X, d_objects (reloaded xt d) = norm_objects (d_objects d) ++ X /\
            Forall (fun io : oid * obj => Handler.is_xref_stream (snd io) = true) X.
Proof.
  intro S. unfold reloaded. rewrite written_savable_enc by exact S. destruct xt.
  - exists []. split; [cbn [reloaded_table d_objects raise_max_id]; rewrite app_nil_r; reflexivity | constructor].
  - eexists. split; [cbn [reloaded_stream d_objects raise_max_id]; reflexivity|].
    constructor; [|constructor]. cbn [snd].
    pose proof (sn_trailer d S) as Hw. inversion Hw as [| | | | | | |tr W _|]; subst.
    destruct (xstream_obj_skipped (raise_max_id d) W) as [_ Hx]. exact Hx.
Qed.

Lemma not_bookkeeping_encrypt : ~ In Handler.K_Encrypt bookkeeping.
Proof. unfold bookkeeping. cbn [In]. intuition discriminate. Qed.
Lemma not_bookkeeping_id : ~ In K_ID bookkeeping.
Proof. unfold bookkeeping. cbn [In]. intuition discriminate. Qed.

(* Document::decrypt that succeeds has authenticated the (prepared) password *)
Lemma decrypt_ok_authenticates P xr d pw d2 st' :
  doc_decrypt_x P xr d pw = DOk d2 st' -> authenticate_password P d pw = Ok tt.
Proof.
  unfold doc_decrypt_x, authenticate_password.
  destruct (negb (is_encrypted d)) eqn:Ei; [discriminate|].
  destruct (palg_of_doc d) as [a| |] eqn:Ea; try discriminate. cbn [rbind].
  destruct (sanitize_password a pw) as [pw'| |]; try discriminate. cbn [rbind].
  unfold doc_decrypt_raw_x, authenticate_raw_password. rewrite Ei, Ea. cbn [rbind].
  destruct (auth_owner P a d pw') as [[]|eo|], (auth_user P a d pw') as [[]|eu|]; try discriminate; reflexivity.
Qed.

(* ---------- decrypt after encrypt, save, load ---------- *)
Section Main.
  Variable P : prims.
  Hypothesis md5_len : forall m, length (p_md5 P m) = 16%nat.
  Hypothesis HA : aes_ok P.
  Hypothesis s256 : forall m, length (p_sha256 P m) = 32%nat.
  Hypothesis s384 : forall m, length (p_sha384 P m) = 48%nat.
  Hypothesis s512 : forall m, length (p_sha512 P m) = 64%nat.

  (* Document::decrypt on the reloaded encrypted document restores the plain document, in the sense of property C01:
     same version, the objects of d in normal form (apart from cross-reference stream objects), the trailer entries of
     d in normal form apart from cross-reference bookkeeping -- and no Encrypt entry *)
  Theorem decrypt_reloaded xr xt d v rnd ivs st d1 pw :
    version_in_domain v -> max_id_ok d -> dict_get (d_trailer d) Handler.K_Encrypt = None ->
    try_from_version P d v rnd = Ok st -> doc_encrypt P st d ivs = DOk d1 tt ->
    right_password P d1 v pw ->
    Forall (fun io : oid * obj => top_wf (snd io) /\ skipped (snd io) = false) (d_objects d) ->
    savable_enc d1 ->
    exists d2 st',
      doc_decrypt_x P xr (reloaded xt d1) pw = DOk d2 st' /\ st_equiv st st' /\
      same_doc d d2 /\ dict_get (d_trailer d2) Handler.K_Encrypt = None /\
      d_binary_mark d2 = d_binary_mark d.
  Proof.
    intros Hv Hmax Htr Htry Henc Hpw Hdom S1.
    destruct (document_rt P md5_len HA s256 s384 s512 xr d v rnd ivs st d1 pw Hv Hmax Htr Htry Henc Hpw) as [st' [Hdec Heq]].
    (* the encrypted document *)
    pose proof Henc as Henc0. unfold doc_encrypt in Henc0.
    destruct (is_encrypted d); [discriminate|].
    destruct (encrypt_objects P st (d_objects d) ivs) as [[m' ivs']| |] eqn:Eo; try discriminate.
    destruct (d_max_id d =? Handler.u32_max); [discriminate|].
    injection Henc0 as Hd1.
    set (id := (d_max_id d + 1, 0)) in *.
    assert (Hfresh : ~ In id (map fst (d_objects d))).
    { intro Hin. apply Hmax in Hin. subst id. cbn [fst] in Hin. lia. }
    assert (Hkeys : map fst m' = map fst (d_objects d)) by (eapply encrypt_objects_keys; exact Eo).
    assert (Hfresh' : ~ In id (map fst m')) by (rewrite Hkeys; exact Hfresh).
    assert (Ht1 : d_trailer d1 = dict_set (d_trailer d) Handler.K_Encrypt (ORef (fst id) (snd id))) by (rewrite <- Hd1; reflexivity).
    assert (Ho1 : d_objects d1 = insert m' id (ODict (encode st))) by (rewrite <- Hd1; reflexivity).
    assert (Hv1 : d_version d1 = d_version d) by (rewrite <- Hd1; reflexivity).
    assert (Hm1 : d_binary_mark d1 = d_binary_mark d) by (rewrite <- Hd1; reflexivity).
    clear Hd1.
    (* the reloaded document *)
    set (d1' := reloaded xt d1) in *.
    pose proof (same_doc_reloaded_enc xt d1 S1) as [Sv [_ St]]. fold d1' in Sv, St.
    destruct (reloaded_objects_shape xt d1 S1) as [X [HoX HX]]. fold d1' in HoX.
    assert (He1 : dict_get (d_trailer d1) Handler.K_Encrypt = Some (ORef (fst id) (snd id))) by (rewrite Ht1; apply dget_set_same).
    assert (He1' : dict_get (d_trailer d1') Handler.K_Encrypt = Some (ORef (fst id) (snd id))).
    { rewrite (St _ not_bookkeeping_encrypt), LoadProofs.dict_get_norm, He1. reflexivity. }
    assert (Hl1 : lookup (d_objects d1) (fst id, snd id) = Some (ODict (encode st))).
    { rewrite Ho1. change (fst id, snd id) with id. apply CryptoProofsDoc.lookup_insert_same. }
    assert (Hid1 : file_id_0 d1' = file_id_0 d1).
    { apply file_id_0_norm. rewrite (St _ not_bookkeeping_id). apply LoadProofs.dict_get_norm. }
    destruct (decrypt_transport P xr d1 d1' (fst id) (snd id) (encode st) X He1 He1' Hl1 (encode_norm st) Hid1 HoX HX
                pw _ _ Hdec) as [objs [Hobjs Hdec']].
    (* the objects of the original run *)
    change (fst id, snd id) with id in *.
    assert (Eobjs : objs = insert (norm_objs st (d_objects d)) id (ODict (encode st))).
    { rewrite Ho1 in Hobjs. rewrite decrypt_objects_insert in Hobjs by exact Hfresh'.
      rewrite <- (decrypt_objects_equiv P st st' _ m' Heq) in Hobjs.
      rewrite (objects_rt P st id _ _ _ _ HA Hfresh Eo) in Hobjs. cbn [rbind] in Hobjs. inversion Hobjs. reflexivity. }
    assert (Hlen : norm_objs st (d_objects d) = d_objects d).
    { apply norm_objs_id. eapply Forall_impl; [|exact Hdom]. intros io [Hw _]. apply top_wf_lengths_ok. exact Hw. }
    rewrite Hlen in Eobjs. subst objs.
    assert (Hnoos : has_objstm (d_objects d) = false).
    { apply has_objstm_false. eapply Forall_impl; [|exact Hdom]. intros io [_ Hs]. apply not_skipped_not_objstm. exact Hs. }
    assert (Hpass : objstm_pass P xr (norm_objects (insert (d_objects d) id (ODict (encode st))) ++ X) =
                    norm_objects (insert (d_objects d) id (ODict (encode st))) ++ X).
    { apply objstm_pass_none. rewrite has_objstm_app, has_objstm_norm_objects, has_objstm_insert_fresh by exact Hfresh.
      rewrite Hnoos, (xref_not_objstm X HX). reflexivity. }
    rewrite Hpass in Hdec'.
    assert (Hrem : remove (norm_objects (insert (d_objects d) id (ODict (encode st))) ++ X) id = norm_objects (d_objects d) ++ X).
    { rewrite remove_app_in.
      - rewrite remove_norm_objects, remove_insert_fresh by exact Hfresh. reflexivity.
      - unfold norm_objects. rewrite map_map. cbn [fst]. apply in_keys_insert. }
    rewrite Hrem in Hdec'.
    eexists. exists st'. split; [exact Hdec'|]. split; [exact Heq|].
    assert (Wt' : FilterProofsDict.dict_wf (d_trailer d1')).
    { subst d1'. unfold reloaded. rewrite written_savable_enc by exact S1.
      pose proof (savable_written_enc d1 S1) as S0. rewrite written_savable_enc in S0 by exact S1.
      destruct xt.
      - pose proof (norm_obj_wf _ (trailer_table_wf_enc _ S0)) as [Hw _]. cbn [reloaded_table d_trailer].
        inversion Hw; assumption.
      - pose proof (se_trailer _ S0) as Hw. inversion Hw as [| | | | | | |tr W _|]; subst.
        cbn [reloaded_stream d_trailer]. unfold xstream_of. rewrite xstream_parts_eq. cbv zeta. cbn [fst snd].
        match goal with |- FilterProofsDict.dict_wf (dict_swap_remove (dict_swap_remove (dict_swap_remove ?t _) _) _) =>
          change (FilterProofsDict.dict_wf (sr3 t)) end.
        apply sr3_wf. apply norm_dict_wf, xs_trailer_wf. exact W. }
    split; [|split].
    - (* the comparison of property C01 *)
      split; [cbn [d_version]; rewrite Sv; exact Hv1|]. split.
      + cbn [d_objects]. rewrite user_objects_app, (user_objects_xref X HX), app_nil_r.
        destruct (user_objects_norm_kept (d_objects d)) as [U1 U2].
        { eapply Forall_impl; [|exact Hdom]. intros io [_ Hs]. exact Hs. }
        rewrite U1, U2. reflexivity.
      + intros k Hk. cbn [d_trailer].
        destruct (bytes_eqb k Handler.K_Encrypt) eqn:Ek.
        * apply bytes_eqb_eq in Ek. subst k. rewrite FilterProofsDict.dict_get_swap_remove_same by exact Wt'.
          rewrite LoadProofs.dict_get_norm, Htr. reflexivity.
        * apply bytes_eqb_neq in Ek. rewrite FilterProofsDict.dict_get_swap_remove_other by assumption.
          rewrite (St k Hk), !LoadProofs.dict_get_norm, Ht1. rewrite dget_set_other by (intro E; apply Ek; symmetry; exact E).
          reflexivity.
    - cbn [d_trailer]. apply FilterProofsDict.dict_get_swap_remove_same. exact Wt'.
    - cbn [d_binary_mark]. subst d1'. unfold reloaded. destruct xt; exact Hm1.
  Qed.

  (* authentication on the reloaded encrypted document is authentication on the encrypted document *)
  Lemma reloaded_auth_cong xt d st d1 ivs pw :
    max_id_ok d -> doc_encrypt P st d ivs = DOk d1 tt -> savable_enc d1 ->
    authenticate_password P (reloaded xt d1) pw = authenticate_password P d1 pw /\
    dict_has (d_trailer d1) Save.K_Encrypt = true.
  Proof.
    intros Hmax Henc S1.
    pose proof Henc as Henc0. unfold doc_encrypt in Henc0.
    destruct (is_encrypted d); [discriminate|].
    destruct (encrypt_objects P st (d_objects d) ivs) as [[m' ivs']| |] eqn:Eo; try discriminate.
    destruct (d_max_id d =? Handler.u32_max); [discriminate|].
    injection Henc0 as Hd1.
    set (id := (d_max_id d + 1, 0)) in *.
    assert (Ht1 : d_trailer d1 = dict_set (d_trailer d) Handler.K_Encrypt (ORef (fst id) (snd id))) by (rewrite <- Hd1; reflexivity).
    assert (Ho1 : d_objects d1 = insert m' id (ODict (encode st))) by (rewrite <- Hd1; reflexivity).
    clear Hd1.
    set (d1' := reloaded xt d1) in *.
    pose proof (same_doc_reloaded_enc xt d1 S1) as [_ [_ St]]. fold d1' in St.
    destruct (reloaded_objects_shape xt d1 S1) as [X [HoX HX]]. fold d1' in HoX.
    assert (He1 : dict_get (d_trailer d1) Handler.K_Encrypt = Some (ORef (fst id) (snd id))) by (rewrite Ht1; apply dget_set_same).
    assert (He1' : dict_get (d_trailer d1') Handler.K_Encrypt = Some (ORef (fst id) (snd id))).
    { rewrite (St _ not_bookkeeping_encrypt), LoadProofs.dict_get_norm, He1. reflexivity. }
    assert (Hl1 : lookup (d_objects d1) (fst id, snd id) = Some (ODict (encode st))).
    { rewrite Ho1. change (fst id, snd id) with id. apply CryptoProofsDoc.lookup_insert_same. }
    assert (Hid1 : file_id_0 d1' = file_id_0 d1).
    { apply file_id_0_norm. rewrite (St _ not_bookkeeping_id). apply LoadProofs.dict_get_norm. }
    split.
    - apply auth_password_cong; [|exact Hid1].
      apply (transport_get_encrypted d1 d1' (fst id) (snd id) (encode st) X He1 He1' Hl1 (encode_norm st) HoX).
    - unfold dict_has. change Save.K_Encrypt with Handler.K_Encrypt. rewrite He1. reflexivity.
  Qed.

  (* THE COMPOSITION: encrypt, save, load, decrypt.  [x]: the cross-reference table of the file (Normal entries only). *)
  Theorem encrypt_save_load_decrypt can xt d v rnd ivs st d1 :
    version_in_domain v -> max_id_ok d -> dict_get (d_trailer d) Handler.K_Encrypt = None ->
    try_from_version P d v rnd = Ok st -> doc_encrypt P st d ivs = DOk d1 tt ->
    Forall (fun io : oid * obj => top_wf (snd io) /\ skipped (snd io) = false) (d_objects d) ->
    savable_enc d1 -> known_deep d1 = false -> small_file xt d1 ->
    exists x : Save.xmap, Forall normal_ok x /\
      (* the reader hands the reloaded encrypted document to the decrypt attempt with the empty password *)
      load_crypt P can (so_bytes (save xt d1)) = after_crypt P (conv_map x) (reloaded xt d1) (xtype_of xt) /\
      (* the empty password does not open it: the document comes back still encrypted ... *)
      (forall e, authenticate_password P d1 [] = Err e ->
         load_crypt P can (so_bytes (save xt d1)) = CLoad (LOk (reloaded xt d1) (xtype_of xt))) /\
      (* ... and Document::decrypt with the user or the owner password restores the plain document *)
      (forall xr pw, right_password P d1 v pw ->
         exists d2 st', doc_decrypt_x P xr (reloaded xt d1) pw = DOk d2 st' /\ st_equiv st st' /\
                        same_doc d d2 /\ dict_get (d_trailer d2) Handler.K_Encrypt = None /\
                        d_binary_mark d2 = d_binary_mark d) /\
      (* the empty password is the user (or owner) password: the load itself returns the plain document *)
      (right_password P d1 v [] ->
         exists d2, load_crypt P can (so_bytes (save xt d1)) = CLoad (LOk d2 (xtype_of xt)) /\
                    same_doc d d2 /\ dict_get (d_trailer d2) Handler.K_Encrypt = None /\
                    d_binary_mark d2 = d_binary_mark d).
  Proof.
    intros Hv Hmax Htr Htry Henc Hdom S1 K1 Hs1.
    destruct (reloaded_auth_cong xt d st d1 ivs [] Hmax Henc S1) as [Hauth Hhas].
    pose proof (savable_written_enc d1 S1) as S0.
    assert (K0 : known_deep (written d1) = false) by (rewrite known_deep_written_enc; assumption).
    destruct (load_save_gen_enc (p_decompress P) can cres CLoad (after_crypt P) xt d1 S0 K0 Hs1) as [x [Hn Hl]].
    unfold enc_answer in Hl. rewrite Hhas in Hl. fold (load_crypt P can) in Hl.
    exists x. split; [exact Hn|]. split; [exact Hl|]. split; [|split].
    - intros e He. rewrite Hl. unfold after_crypt. rewrite Hauth, He. reflexivity.
    - intros xr pw Hpw. apply (decrypt_reloaded xr xt d v rnd ivs st d1 pw); assumption.
    - intro Hpw.
      destruct (decrypt_reloaded (xr_of (conv_map x)) xt d v rnd ivs st d1 [] Hv Hmax Htr Htry Henc Hpw Hdom S1)
        as [d2 [st' [Hd [_ [Hsd [Hne Hbm]]]]]].
      exists d2. split; [|split; [exact Hsd | split; [exact Hne | exact Hbm]]].
      rewrite Hl. unfold after_crypt. rewrite (decrypt_ok_authenticates _ _ _ _ _ _ Hd), Hd. reflexivity.
  Qed.
End Main.
