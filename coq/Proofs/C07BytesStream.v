(* C07BytesStream.v -- C07, byte level, part 4: the cross-reference STREAM format.
   One revision whose cross-reference section is the indirect object  (max_id+1) 0 obj << /Type /XRef ... >> stream,
   standing after ANY bytes and followed by ANY bytes: xref_and_trailer takes its second alternative, decodes the
   stream to the writer's map -- which lists the cross-reference stream itself -- and the loader reads that object
   like any other.  Hence
     saved_stream_good   a file written by save_core XStream is a good_file (type XTStream);
     inc_stream_good     inc_save in the stream format on a good_file (of EITHER type) gives a good_file: the new objects
                         laid over the previous ones, plus the new cross-reference stream object under number max_id+1;
     inc_stream_loads    load (inc_save ...) . *)
From LV Require Import Base.Bytes Base.Sx Model.Obj Model.Writer Model.Parser Model.Save Model.Xref Model.Loader
  Model.Incremental Model.Utf Gen.Lex Gen.SaveFmt Gen.Inc Proofs.LexProofs Proofs.RealProofs Proofs.ObjectRtProofs
  Proofs.SaveProofs Proofs.FilterProofsDict Spec.SaveSpec Proofs.LoadProofs Proofs.LoadProofsFile Proofs.LoadProofsXref
  Proofs.LoadProofsTable Proofs.LoadProofsAgain Proofs.StrictLoadProofs Proofs.StrictLoadStreamProofs
  Proofs.StrictRevisionProofs Proofs.StrictIncrementalProofs Proofs.LoadProofsStream Proofs.C07Bytes Proofs.C07BytesTable.

Local Open Scope N_scope.

Definition str_file (pre0 : bytes) (nd : doc) : bytes :=
  pre0 ++ objs_bytes (d_objects nd) ++ str_part nd (Save.blen pre0) ++ startxref_bytes (rev_start nd (Save.blen pre0)).

Definition str_xref (nd : doc) (pos0 : N) : xref :=
  {| x_type := XTStream; x_entries := conv_map (str_map nd pos0); x_size := i64_as_u32 (Z.of_N (d_max_id nd + 1 + 1)) |}.

(* the cross-reference stream as the loader keeps it among the objects *)
Definition xso (nd : doc) (pos0 : N) : oid * obj :=
  ((d_max_id nd + 1, 0), OStream (norm_dict (str_dict nd pos0)) (str_content nd pos0)).

(* the trailer the loader keeps: the stream dictionary without Length, W, Index *)
Definition str_trailer (nd : doc) (pos0 : N) : dict := sr3 (norm_dict (str_dict nd pos0)).

Lemma str_dict_eq nd pos0 :
  str_dict nd pos0 = xs_trailer (d_trailer nd) (Z.of_N (d_max_id nd + 1 + 1)) (xstream_index (str_secs nd pos0))
                                (Z.of_nat (length (str_content nd pos0))).
Proof. reflexivity. Qed.

Lemma rev_trailer_wf nd : rev_dom nd -> dict_wf (d_trailer nd).
Proof. intro Hd. destruct (wf_dict_inv _ (rd_trailer nd Hd)) as [H _]. exact H. Qed.

Lemma str_dict_wf nd pos0 : rev_dom nd -> dict_wf (norm_dict (str_dict nd pos0)).
Proof. intro Hd. apply norm_dict_wf. rewrite str_dict_eq. apply xs_trailer_wf. apply rev_trailer_wf. exact Hd. Qed.

Lemma str_secs_bound nd pos0 : rev_dom nd ->
  Forall (fun s : xsection => fst s + N.of_nat (length (snd s)) <= two32) (str_secs nd pos0).
Proof.
  intro Hd. pose proof (rd_max_id nd Hd) as Hm.
  assert (Hall : Forall (fun s : xsection => fst s + N.of_nat (length (snd s)) <= two32 /\ Forall (fun _ => True) (snd s)) (str_secs nd pos0)).
  { unfold str_secs, stream_sections. apply sections_loop_all; [left; reflexivity | constructor | intros; exact I |].
    rewrite N2Nat.id. unfold two32, u32_mod in *. lia. }
  eapply Forall_impl; [|exact Hall]. intros s [H _]. exact H.
Qed.

(* a key that is not cross-reference bookkeeping is read from the document's trailer *)
Lemma str_dict_get nd pos0 k : rev_dom nd ->
  dict_get (norm_dict (str_dict nd pos0)) k = option_map norm_obj (dict_get (str_dict nd pos0) k).
Proof. intros _. apply dict_get_norm. Qed.

Lemma str_trailer_get nd pos0 k : rev_dom nd ->
  bytes_eqb k Xref.K_Index = false -> bytes_eqb k Xref.K_W = false -> bytes_eqb k K_Length = false ->
  bytes_eqb k K_Filter = false -> bytes_eqb k Save.K_Size = false -> bytes_eqb k K_Type = false ->
  dict_get (str_trailer nd pos0) k = option_map norm_obj (dict_get (d_trailer nd) k).
Proof.
  intros Hd H1 H2 H3 H4 H5 H6. unfold str_trailer. rewrite sr3_get by (apply str_dict_wf; exact Hd).
  rewrite H1, H2, H3. cbn [orb]. rewrite dict_get_norm, str_dict_eq, xs_trailer_get by (apply rev_trailer_wf; exact Hd).
  change Save.K_Index with Xref.K_Index. change Save.K_W with Xref.K_W. rewrite H1, H2, H3, H4, H5, H6. reflexivity.
Qed.

Lemma str_dict_nest nd pos0 : rev_dom nd -> known_deep nd = false ->
  (nest (OStream (str_dict nd pos0) (str_content nd pos0)) <= MAX_DEPTH)%nat.
Proof.
  intros Hd K. unfold known_deep in K. apply orb_false_iff in K as [_ K2]. apply Nat.ltb_ge in K2.
  assert (H2 : (2 <= MAX_DEPTH)%nat) by (pose proof (Nat.le_max_l 2 (nest (ODict (d_trailer nd)))); lia).
  assert (Ht : (nest (ODict (d_trailer nd)) <= MAX_DEPTH)%nat) by (pose proof (Nat.le_max_r 2 (nest (ODict (d_trailer nd)))); lia).
  cbn [nest] in *. fold (nest_dict (d_trailer nd)) in Ht. fold (nest_dict (str_dict nd pos0)).
  destruct (ints_props _ (index_ints (str_secs nd pos0) (str_secs_bound nd pos0 Hd))) as [_ [_ I3]].
  assert (nest_dict (str_dict nd pos0) <= MAX_DEPTH - 1)%nat; [|lia].
  apply nest_dict_bound. rewrite str_dict_eq. apply (xs_trailer_forall (fun o => (nest o <= MAX_DEPTH - 1)%nat)).
  - apply rev_trailer_wf. exact Hd.
  - apply nest_dict_bound. lia.
  - cbn [nest]. lia.
  - cbn [nest]. lia.
  - unfold xs_W. cbn [nest fold_right]. lia.
  - change (nest (xstream_index (str_secs nd pos0)) = 1%nat) in I3. rewrite I3. lia.
  - cbn [nest]. lia.
Qed.

(* ====================================================================================== *)
(* one STREAM revision in context                                                          *)
(* ====================================================================================== *)
Section StreamRevision.
  Variable nd : doc.
  Variable pre0 : bytes.
  Hypothesis Hd : rev_dom nd.
  Hypothesis K : known_deep nd = false.
  Hypothesis Hsmall : Loader.blen (str_file pre0 nd) < u32_mod.

  Let pos0 := Save.blen pre0.
  Let objs := d_objects nd.
  Let nid := d_max_id nd + 1.
  Let xs' := rev_start nd pos0.
  Let t6 := str_dict nd pos0.
  Let content := str_content nd pos0.
  Let sx := startxref_bytes xs'.

  Lemma sf_start_len : xs' = Loader.blen (pre0 ++ objs_bytes objs).
  Proof. apply rev_start_len. Qed.

  Lemma sf_n_small : xs' < u32_mod.
  Proof. rewrite sf_start_len. unfold str_file, Loader.blen in *. rewrite !app_length in Hsmall. rewrite app_length. fold objs in Hsmall. lia. Qed.

  Lemma sf_content_small : Save.blen content < u32_mod.
  Proof.
    pose proof (wio_stream_long nid 0 t6 content) as Hl. change (write_indirect_object nid 0 (OStream t6 content)) with (str_part nd pos0) in Hl.
    unfold str_file, Loader.blen in Hsmall. rewrite !app_length in Hsmall. fold pos0 in Hsmall. unfold Save.blen in *. lia.
  Qed.

  Lemma sf_top_wf : top_wf (OStream t6 content).
  Proof. apply str_top_wf; [exact Hd | exact sf_n_small | exact sf_content_small]. Qed.

  Lemma sf_eq rest :
    str_file pre0 nd ++ rest = (pre0 ++ objs_bytes objs) ++ write_indirect_object nid 0 (OStream t6 content) ++ sx ++ rest.
  Proof. unfold str_file, str_part. fold pos0 objs nid t6 content xs' sx. rewrite <- !app_assoc. reflexivity. Qed.

  Lemma sf_tail :
    let front := pre0 ++ objs_bytes objs ++ str_part nd pos0 in
    str_file pre0 nd = front ++ sx /\ xs' <= Loader.blen front /\ 25 < Loader.blen front /\ xs' < 10 ^ 14.
  Proof.
    intro front. split; [|split; [|split]].
    - unfold str_file, front. fold pos0 objs xs' sx. rewrite <- !app_assoc. reflexivity.
    - rewrite sf_start_len. unfold front, Loader.blen. rewrite !app_length. clear. lia.
    - unfold front, Loader.blen. rewrite !app_length. pose proof (wio_stream_length nid 0 t6 content) as H.
      change (write_indirect_object nid 0 (OStream t6 content)) with (str_part nd pos0) in H. clear - H. lia.
    - pose proof sf_n_small as H. unfold u32_mod in H. change (10 ^ 14) with 100000000000000. clear - H. lia.
  Qed.

  Lemma sf_io rest :
    indirect_object (from xs' (str_file pre0 nd ++ rest)) None = IOk (nid, 0) (OStream (norm_dict t6) content).
  Proof.
    rewrite sf_start_len, sf_eq, from_app.
    apply (indirect_object_rt nid 0 (OStream t6 content) (sx ++ rest)).
    - pose proof (rd_max_id nd Hd) as Hm. unfold u32_max, nid, u32_mod in *. lia.
    - unfold u16_max. lia.
    - exact sf_top_wf.
    - apply str_dict_nest; assumption.
  Qed.

  Lemma sf_map_normal : Forall normal_ok (str_map nd pos0).
  Proof.
    assert (Hobjs : Forall obj_ok objs) by (apply rev_objs_ok; assumption).
    destruct (entries_of_props objs pos0 0 nid Hobjs (rd_numbers nd Hd)) as [_ [_ Hxn]].
    { pose proof (rd_objects nd Hd) as Ho. eapply Forall_impl; [|exact Ho]. intros io [H1 _]. unfold nid, oid in *. lia. }
    unfold str_map. apply Forall_app. split; [exact Hxn|]. constructor; [|constructor].
    unfold normal_ok. cbn [snd]. pose proof sf_n_small as H. fold pos0. fold xs'. unfold u32_max, u16_max, u32_mod in *. lia.
  Qed.

  Lemma sf_section rest :
    xref_and_trailer (str_file pre0 nd ++ rest) xs' = SOk (str_xref nd pos0, str_trailer nd pos0).
  Proof.
    pose proof (rd_max_id nd Hd) as Hm.
    assert (Hwt : dict_wf (d_trailer nd)) by (apply rev_trailer_wf; exact Hd).
    assert (Hget : forall k, dict_get (norm_dict t6) k = option_map norm_obj (dict_get t6 k)) by (intro; apply dict_get_norm).
    assert (Hg6 := fun k => xs_trailer_get (d_trailer nd) (Z.of_N (d_max_id nd + 1 + 1)) (xstream_index (str_secs nd pos0))
                                           (Z.of_nat (length content)) k Hwt).
    change (xs_trailer _ _ _ _) with t6 in Hg6.
    unfold xref_and_trailer.
    assert (Etab : xref_and_trailer_table (from xs' (str_file pre0 nd ++ rest)) = XNoMatch).
    { rewrite sf_start_len, sf_eq, from_app. rewrite wio_eq. rewrite <- app_assoc.
      unfold xref_and_trailer_table. rewrite xref_table_number. reflexivity. }
    rewrite Etab, sf_io.
    replace (dict_has (norm_dict t6) K_Filter) with false by (unfold dict_has; rewrite Hget, Hg6; reflexivity).
    unfold content, str_content, str_secs.
    rewrite (xref_stream_roundtrip (str_map nd pos0) (d_max_id nd + 1) (norm_dict t6) (Z.of_N (d_max_id nd + 1 + 1))).
    - reflexivity.
    - unfold nid, two32, u32_mod in *. lia.
    - apply str_map_incr; [exact Hd | exact sf_n_small].
    - eapply Forall_impl; [|apply (str_map_bound nd pos0 Hd sf_n_small)]. intros a Ha. cbn beta in *. fold nid in Ha. lia.
    - exact sf_map_normal.
    - change Xref.K_Size with Save.K_Size. rewrite Hget, Hg6. reflexivity.
    - change Xref.K_W with Save.K_W. rewrite Hget, Hg6. reflexivity.
    - change Xref.K_Index with Save.K_Index. fold (str_secs nd pos0).
      transitivity (option_map norm_obj (Some (xstream_index (str_secs nd pos0)))); [rewrite Hget, Hg6; reflexivity|].
      cbn [option_map]. destruct (ints_props _ (index_ints (str_secs nd pos0) (str_secs_bound nd pos0 Hd))) as [_ [I2 _]].
      change (norm_obj (xstream_index (str_secs nd pos0)) = xstream_index (str_secs nd pos0)) in I2. rewrite I2. reflexivity.
  Qed.

  Lemma sf_objs_main rest :
    Forall2 (obj_at (str_file pre0 nd ++ rest)) (conv_map (rev_xmap nd pos0)) (norm_objects objs).
  Proof.
    unfold str_file. rewrite <- !app_assoc. unfold rev_xmap. apply located_objs; [apply rev_objs_ok; assumption|].
    unfold str_file, Loader.blen in *. rewrite !app_length in Hsmall. rewrite app_length. fold objs in Hsmall. fold objs. lia.
  Qed.

  Lemma sf_objs rest :
    Forall2 (obj_at (str_file pre0 nd ++ rest)) (conv_map (str_map nd pos0)) (norm_objects objs ++ [xso nd pos0]).
  Proof.
    unfold str_map, conv_map. rewrite map_app. fold (conv_map (rev_xmap nd pos0)). apply Forall2_app; [apply sf_objs_main|].
    constructor; [|constructor]. exists xs', 0. cbn [fst snd map conv_entry xso]. fold nid pos0 xs'.
    split; [reflexivity|]. split; [reflexivity|]. split; [|split].
    - rewrite sf_start_len, sf_eq. unfold Loader.blen. rewrite !app_length. clear. lia.
    - fold t6 content. apply sf_io.
    - intros d0 c0 E. inversion E; subst. unfold has_type. rewrite dict_get_norm, str_dict_eq.
      rewrite xs_trailer_get by (apply rev_trailer_wf; exact Hd). reflexivity.
  Qed.

  Lemma sf_sorted : xincr 0 (conv_map (str_map nd pos0)).
  Proof. apply xincr_conv. eapply incr_weaken; [|apply str_map_incr; [exact Hd | exact sf_n_small]]. lia. Qed.

  Lemma sf_keys : Forall (fun ke : N * Xref.xentry => fst ke < u32_max) (conv_map (str_map nd pos0)).
  Proof.
    apply (conv_map_keys (fun k => k < u32_max)). pose proof (rd_max_id nd Hd) as Hm.
    eapply Forall_impl; [|apply (str_map_bound nd pos0 Hd sf_n_small)]. intros a Ha. cbn beta in *. unfold u32_max, u32_mod in *. lia.
  Qed.
End StreamRevision.

(* ====================================================================================== *)
(* a saved file (stream format) is a good file                                             *)
(* ====================================================================================== *)
Theorem saved_stream_good d :
  savable_core d -> known_deep d = false -> small_file_core XStream d ->
  dict_get (d_trailer d) K_XRefStm = None ->
  good_file (so_bytes (save_core XStream d)) (d_version d) (d_binary_mark d) (Save.blen (body_of d)) XTStream
            (conv_map (str_map d (hm_len d))) (str_trailer d (hm_len d)) (norm_objects (d_objects d) ++ [xso d (hm_len d)]).
Proof.
  intros S K Hsmall Hstm. pose proof (savable_rev_dom d S) as Hd.
  destruct (save_core_rev_shape XStream d S Hsmall) as [Hshape Hst]. cbn [part_of] in Hshape.
  set (pre0 := header_bytes d ++ mark_bytes d) in *.
  assert (Efile : so_bytes (save_core XStream d) = str_file pre0 d).
  { rewrite Hshape. unfold str_file, hm_len. fold pre0. rewrite <- ?app_assoc. reflexivity. }
  assert (Hsm : Loader.blen (str_file pre0 d) < u32_mod).
  { unfold small_file_core in Hsmall. rewrite Efile in Hsmall. exact Hsmall. }
  assert (Hpos : hm_len d = Save.blen pre0) by reflexivity.
  assert (Hprev : dict_get (str_trailer d (Save.blen pre0)) Xref.K_Prev = None).
  { rewrite str_trailer_get by (try exact Hd; reflexivity). change Xref.K_Prev with Save.K_Prev.
    rewrite (dict_has_false_get _ _ (sv_no_prev d S)). reflexivity. }
  rewrite Efile, <- Hst, Hpos.
  destruct (sf_tail d pre0 Hsm) as [Et [H1 [H2 H3]]].
  constructor.
  - eexists. unfold str_file, pre0, header_bytes, mark_bytes. repeat (rewrite <- app_assoc; cbn [app]). reflexivity.
  - apply (sv_version_eol d S).
  - apply (sv_version_utf8 d S).
  - apply (sv_mark d S).
  - eexists. split; [exact Et|]. repeat split; assumption.
  - exists (str_xref d (Save.blen pre0)), (str_trailer d (Save.blen pre0)), [].
    split; [reflexivity|]. split; [reflexivity|]. split; [apply swap_remove_absent_get; exact Hprev|].
    split; [rewrite str_trailer_get by (try exact Hd; reflexivity); rewrite Hstm; reflexivity|].
    intro rest. split; [apply sf_section; assumption|]. rewrite Hprev. apply clt_nil. intros p E. discriminate E.
  - rewrite str_trailer_get by (try exact Hd; reflexivity). rewrite Hstm. reflexivity.
  - unfold dict_has. change Loader.K_Encrypt with Save.K_Encrypt. rewrite str_trailer_get by (try exact Hd; reflexivity).
    rewrite (dict_has_false_get _ _ (sv_no_encrypt d S)). reflexivity.
  - apply sf_sorted; assumption.
  - apply sf_keys; assumption.
  - intro rest. apply sf_objs; assumption.
Qed.

(* ====================================================================================== *)
(* one incremental save in the stream format keeps the invariant                           *)
(* ====================================================================================== *)
Definition str_new_trailer (nd : doc) (pos0 : N) : dict := dict_swap_remove (str_trailer nd pos0) Xref.K_Prev.

Lemma fold_left_snoc {A B} (f : A -> B -> A) l x a : fold_left f (l ++ [x]) a = f (fold_left f l a) x.
Proof. rewrite fold_left_app. reflexivity. Qed.

Theorem inc_stream_good F v m xs xt entries t objs s :
  good_file F v m xs xt entries t objs ->
  i_bytes s = F -> xd_type (i_prev s) = XStream ->
  let nd := xd_doc (i_new s) in
  let pos0 := Save.blen (F ++ inc_lines nd) in
  upd_dom xs nd ->
  Save.blen (io_bytes (inc_save s)) < u32_mod ->
  Forall (gen_ok entries) (d_objects nd) ->
  Forall (fun ke => fst ke <= d_max_id nd) entries ->           (* max_id of the new document is above the loaded table *)
  io_status (inc_save s) = IncOk /\
  good_file (io_bytes (inc_save s)) v m (io_start (inc_save s)) XTStream
            (fold_left xins (conv_map (str_map nd pos0)) entries)
            (str_new_trailer nd pos0)
            (Incremental.overlay objs (norm_objects (d_objects nd)) ++ [xso nd pos0]).
Proof.
  intros G Hb Ht nd pos0 [Hr K Hmk Hp Hstm Henc] Hlen Hgen Hmaxk.
  destruct (good_file_offset _ _ _ _ _ _ _ _ G) as [Hoff [Hsep HF8]].
  pose proof (inc_save_shape_gen XStream s) as Hshape. cbv zeta in Hshape. rewrite Hb in Hshape. fold nd in Hshape.
  destruct (Hshape Hoff Hsep Ht Hr Hmk Hlen) as [Hst [Hbytes Hstart]]. clear Hshape. cbn [part_of] in Hbytes.
  split; [exact Hst|]. rewrite Hstart.
  set (pre0 := F ++ inc_lines nd) in *. subst pos0.
  assert (Efile : io_bytes (inc_save s) = str_file pre0 nd).
  { rewrite Hbytes. unfold str_file. rewrite <- ?app_assoc. reflexivity. }
  assert (Hsm : Loader.blen (str_file pre0 nd) < u32_mod) by (rewrite <- Efile; exact Hlen).
  destruct (sf_tail nd pre0 Hsm) as [Et [H1 [H2 H3]]].
  set (suffix := inc_lines nd ++ objs_bytes (d_objects nd) ++ str_part nd (Save.blen pre0) ++
                 startxref_bytes (rev_start nd (Save.blen pre0))).
  assert (Esuf : str_file pre0 nd = F ++ suffix).
  { unfold str_file, pre0, suffix. rewrite <- !app_assoc. reflexivity. }
  assert (Hunsk : Forall (fun io : oid * obj => skipped (snd io) = false) (d_objects nd)).
  { pose proof (rd_objects nd Hr) as Ho. eapply Forall_impl; [|exact Ho]. intros io [_ [_ [_ H]]]. exact H. }
  rewrite Efile. rewrite overlay_eq by exact Hunsk.
  assert (Hwf : dict_wf (str_trailer nd (Save.blen pre0))) by (apply sr3_wf, str_dict_wf; exact Hr).
  pose proof (rd_max_id nd Hr) as Hmax.
  (* the cross-reference stream object comes last *)
  assert (Hlast : overlay_objs objs (norm_objects (d_objects nd)) ++ [xso nd (Save.blen pre0)] =
                  overlay_objs objs (norm_objects (d_objects nd) ++ [xso nd (Save.blen pre0)])).
  { unfold overlay_objs. rewrite fold_left_snoc. unfold oins at 2. symmetry. apply insert_last.
    cbn [xso fst].
    assert (H2' : Forall2 (obj_at (str_file pre0 nd ++ [])) (fold_left xins (conv_map (rev_xmap nd (Save.blen pre0))) entries)
                          (fold_left oins (norm_objects (d_objects nd)) objs)).
    { apply (overlay_step _ _ _ (sf_objs_main nd pre0 Hr K Hsm []) 0).
      - apply rev_xmap_sorted. exact Hr.
      - rewrite Esuf, <- app_assoc. apply (gf_objs _ _ _ _ _ _ _ _ G).
      - apply gen_ok_norm. exact Hgen. }
    apply (obj_at_forall _ (fun k => k < d_max_id nd + 1) _ _ H2').
    apply fold_xins_forall.
    - apply (conv_map_keys (fun k => k < d_max_id nd + 1)). apply (rev_xmap_bound nd _ Hr).
    - eapply Forall_impl; [|exact Hmaxk]. intros a Ha. cbn beta in *. lia. }
  rewrite Hlast. rewrite Esuf.
  apply (good_extend F v m xs xt entries t objs suffix (pre0 ++ objs_bytes (d_objects nd) ++ str_part nd (Save.blen pre0))
           (rev_start nd (Save.blen pre0)) (str_xref nd (Save.blen pre0)) (str_trailer nd (Save.blen pre0))
           (norm_objects (d_objects nd) ++ [xso nd (Save.blen pre0)]) G).
  - rewrite <- Esuf. exact Et.
  - exact H1.
  - exact H2.
  - exact H3.
  - rewrite rev_start_len. unfold pre0, Loader.blen. rewrite !app_length. lia.
  - intro rest. rewrite <- Esuf. apply sf_section; assumption.
  - rewrite str_trailer_get by (try exact Hr; reflexivity). change Xref.K_Prev with Save.K_Prev. rewrite Hp. reflexivity.
  - rewrite str_trailer_get by (try exact Hr; reflexivity). rewrite Hstm. reflexivity.
  - rewrite dict_get_swap_remove_other by (try exact Hwf; discriminate).
    rewrite str_trailer_get by (try exact Hr; reflexivity). rewrite Hstm. reflexivity.
  - unfold dict_has. rewrite dict_get_swap_remove_other by (try exact Hwf; discriminate).
    change Loader.K_Encrypt with Save.K_Encrypt. rewrite str_trailer_get by (try exact Hr; reflexivity).
    rewrite (dict_has_false_get _ _ Henc). reflexivity.
  - apply sf_sorted; assumption.
  - apply sf_keys; assumption.
  - intro rest. rewrite <- Esuf. apply sf_objs; assumption.
  - apply Forall_app. split; [apply gen_ok_norm; exact Hgen|]. constructor; [|constructor].
    intros off g0 Hx. exfalso. cbn [xso fst] in Hx. apply xget_keys in Hx.
    apply in_map_iff in Hx as [ke [Ek Hin]]. rewrite Forall_forall in Hmaxk. specialize (Hmaxk ke Hin). cbn beta in Hmaxk. lia.
Qed.

(* the same with the hypothesis on identifiers *)
Theorem inc_stream_good_nums F v m xs xt entries t objs s :
  good_file F v m xs xt entries t objs ->
  i_bytes s = F -> xd_type (i_prev s) = XStream ->
  let nd := xd_doc (i_new s) in
  let pos0 := Save.blen (F ++ inc_lines nd) in
  upd_dom xs nd ->
  Save.blen (io_bytes (inc_save s)) < u32_mod ->
  Forall (fun io : oid * obj => In (fst io) (map fst objs) \/ ~ In (fst (fst io)) (obj_numbers objs)) (d_objects nd) ->
  xmap_max entries <= d_max_id nd ->                       (* the loaded max_id is not above the new document's *)
  io_status (inc_save s) = IncOk /\
  good_file (io_bytes (inc_save s)) v m (io_start (inc_save s)) XTStream
            (fold_left xins (conv_map (str_map nd pos0)) entries)
            (str_new_trailer nd pos0)
            (Incremental.overlay objs (norm_objects (d_objects nd)) ++ [xso nd pos0]).
Proof.
  intros G Hb Ht nd pos0 Hu Hlen Hids Hmx. apply (inc_stream_good F v m xs xt entries t objs s G Hb Ht Hu Hlen).
  - pose proof (gf_objs _ _ _ _ _ _ _ _ G []) as H2. pose proof (gf_sorted _ _ _ _ _ _ _ _ G) as Hs.
    rewrite <- (obj_at_keys _ _ _ H2) in Hids.
    eapply Forall_impl; [|exact Hids]. intros io Hio. apply (ids_gen_ok _ entries objs io 0 H2 Hs Hio).
  - apply Forall_forall. intros ke Hin. eapply N.le_trans; [apply (xmap_max_ge entries ke Hin) | exact Hmx].
Qed.

Corollary inc_stream_loads F v m xs xt entries t objs s :
  good_file F v m xs xt entries t objs ->
  i_bytes s = F -> xd_type (i_prev s) = XStream ->
  let nd := xd_doc (i_new s) in
  let pos0 := Save.blen (F ++ inc_lines nd) in
  upd_dom xs nd ->
  Save.blen (io_bytes (inc_save s)) < u32_mod ->
  Forall (fun io : oid * obj => In (fst io) (map fst objs) \/ ~ In (fst (fst io)) (obj_numbers objs)) (d_objects nd) ->
  xmap_max entries <= d_max_id nd ->
  load (io_bytes (inc_save s)) =
  LOk {| d_version := v; d_binary_mark := m; d_trailer := str_new_trailer nd pos0;
         d_objects := Incremental.overlay objs (norm_objects (d_objects nd)) ++ [xso nd pos0];
         d_max_id := xmap_max (fold_left xins (conv_map (str_map nd pos0)) entries) |} XTStream.
Proof.
  intros G Hb Ht nd pos0 Hu Hlen Hids Hmx.
  destruct (inc_stream_good_nums F v m xs xt entries t objs s G Hb Ht Hu Hlen Hids Hmx) as [_ G'].
  apply (good_file_loads _ _ _ _ _ _ _ _ G').
Qed.

Print Assumptions saved_stream_good.
Print Assumptions inc_stream_good_nums.
Print Assumptions inc_stream_loads.
